//go:build verif

package overlay

import (
	"fmt"
	"log/slog"
	"math"
	"math/big"
	"net/netip"
	"reflect"
	"regexp"
	"runtime"
	"sort"
	"strings"
	"sync"
	"sync/atomic"
	"testing"

	"github.com/slackhq/nebula/config"
	"github.com/slackhq/nebula/routing"
	"github.com/slackhq/nebula/zzverif/mc"
)

// C41 — route configuration parses exactly.
//
// Bounded-exhaustive enumeration (E3) of tun.routes / tun.unsafe_routes entries built from per-field alphabets
// (integers, canonical decimal strings, lenient and malformed strings, other YAML types) against a reference grammar
// written below. Every value of the alphabets is first shown to be exactly what the YAML loader produces for its
// literal. Every call of the real parseRoutes / parseUnsafeRoutes runs under recover: a panic is not a refusal.
//
// Reference grammar (three-valued: must load / must be refused / either, the last for what the statement leaves open):
//   numeric field:  integer or canonical decimal string ("0" | [1-9][0-9]* with optional '-') -> that value, then the
//                   range stated by the implementation's own error messages (routes mtu >= 500; unsafe mtu 0 or >= 500;
//                   metric 0..2^31-1; weight 1..2^31-1); out of range -> refused. Lenient spellings ("+500", "0500")
//                   -> either refused or that value. Other strings and other YAML types -> refused. nil -> either refused
//                   or treated as absent.
//   route:          a string that parses as a prefix; tun.routes: contained in one of the overlay networks;
//                   tun.unsafe_routes: refused when contained in a network, loaded when disjoint from all, either when it
//                   merely overlaps (a supernet such as 0.0.0.0/0 is the usual default-route use).
//   via:            an address string (one gateway, weight 1) or a list of {gateway: address string, weight: numeric};
//                   an empty list -> either.
//   install:        absent -> true; true/false/"true"/"false" -> that; 1/"t"/0 (lenient) -> either; others refused.
//   a list loads iff every entry loads; entries keep their order.

type c41Val struct {
	label   string
	present bool
	v       any
	yaml    string // YAML literal producing v ("" = not cross-checked)
}

const c41Workers = 4

const (
	c41MustLoad = iota
	c41MustRefuse
	c41Either
)

type c41Exp struct {
	status int
	val    int64  // expected value when loaded (numeric fields); for install 0/1
	class  string // class of the given value (for signatures and coverage)
	why    string // reason for refusal
}

var c41Canon = regexp.MustCompile(`^-?(0|[1-9][0-9]*)$`)
var c41Lenient = regexp.MustCompile(`^[+-]?[0-9]+$`)

// c41NumClass classifies a configured numeric value and returns its stated integer value when it has one.
func c41NumClass(v c41Val) (class string, n *big.Int) {
	if !v.present {
		return "absent", nil
	}
	switch x := v.v.(type) {
	case nil:
		return "nil", nil
	case int:
		return "integer", big.NewInt(int64(x))
	case uint64:
		return "integer", new(big.Int).SetUint64(x)
	case string:
		if c41Canon.MatchString(x) && x != "-0" {
			n, _ := new(big.Int).SetString(x, 10)
			return "decimal string", n
		}
		if c41Lenient.MatchString(x) {
			n, _ := new(big.Int).SetString(strings.TrimPrefix(x, "+"), 10)
			return "lenient string", n
		}
		return "malformed string", nil
	}
	return "other YAML type", nil
}

// field: "routes.mtu", "unsafe.mtu", "metric", "weight"
func c41ExpectNum(v c41Val, field string) c41Exp {
	class, n := c41NumClass(v)
	def := int64(0)
	if field == "weight" {
		def = 1
	}
	switch class {
	case "absent":
		if field == "routes.mtu" {
			return c41Exp{c41MustRefuse, 0, class, "is absent (required)"}
		}
		return c41Exp{c41MustLoad, def, class, ""}
	case "nil":
		if field == "routes.mtu" {
			return c41Exp{c41MustRefuse, 0, class, "is null (required)"}
		}
		return c41Exp{c41Either, def, class, ""}
	case "malformed string", "other YAML type":
		return c41Exp{c41MustRefuse, 0, class, "is not an integer (" + class + ")"}
	}
	inRange := false
	if n.IsInt64() {
		x := n.Int64()
		switch field {
		case "routes.mtu":
			inRange = x >= 500 && x <= math.MaxInt
		case "unsafe.mtu":
			inRange = x == 0 || (x >= 500 && x <= math.MaxInt)
		case "metric":
			inRange = x >= 0 && x <= math.MaxInt32
		case "weight":
			inRange = x >= 1 && x <= math.MaxInt32
		}
	}
	if !inRange {
		return c41Exp{c41MustRefuse, 0, class, "is out of range (given as " + class + ")"}
	}
	if class == "lenient string" {
		return c41Exp{c41Either, n.Int64(), class, ""}
	}
	return c41Exp{c41MustLoad, n.Int64(), class, ""}
}

func c41ExpectInstall(v c41Val) c41Exp {
	if !v.present {
		return c41Exp{c41MustLoad, 1, "absent", ""}
	}
	switch x := v.v.(type) {
	case bool:
		if x {
			return c41Exp{c41MustLoad, 1, "bool", ""}
		}
		return c41Exp{c41MustLoad, 0, "bool", ""}
	case string:
		switch x {
		case "true":
			return c41Exp{c41MustLoad, 1, "bool string", ""}
		case "false":
			return c41Exp{c41MustLoad, 0, "bool string", ""}
		case "t", "1", "TRUE", "True", "T":
			return c41Exp{c41Either, 1, "lenient", ""}
		case "f", "0", "FALSE", "False", "F":
			return c41Exp{c41Either, 0, "lenient", ""}
		}
	case int:
		if x == 1 {
			return c41Exp{c41Either, 1, "lenient", ""}
		}
		if x == 0 {
			return c41Exp{c41Either, 0, "lenient", ""}
		}
	}
	return c41Exp{c41MustRefuse, 0, "not a boolean", "is not a boolean"}
}

// bit i (0 = most significant) of a 4- or 16-byte address
func c41Bit(b []byte, i int) byte { return (b[i/8] >> (7 - uint(i%8))) & 1 }

// c41Rel: relation of prefix r to network n: "inside" (r subset of n), "disjoint", "overlap" (r strictly contains n)
func c41Rel(r, n netip.Prefix) string {
	ra, na := r.Addr().AsSlice(), n.Addr().AsSlice()
	if len(ra) != len(na) {
		return "disjoint"
	}
	m := r.Bits()
	if n.Bits() < m {
		m = n.Bits()
	}
	for i := 0; i < m; i++ {
		if c41Bit(ra, i) != c41Bit(na, i) {
			return "disjoint"
		}
	}
	if r.Bits() >= n.Bits() {
		return "inside"
	}
	return "overlap"
}

type c41RouteExp struct {
	c41Exp
	pfx netip.Prefix
}

func c41ExpectRoute(v c41Val, nets []netip.Prefix, unsafe bool) c41RouteExp {
	if !v.present {
		return c41RouteExp{c41Exp{c41MustRefuse, 0, "absent", "is absent"}, netip.Prefix{}}
	}
	s, ok := v.v.(string)
	if !ok {
		return c41RouteExp{c41Exp{c41MustRefuse, 0, "not a string", "is not a prefix string"}, netip.Prefix{}}
	}
	p, err := netip.ParsePrefix(s)
	if err != nil {
		return c41RouteExp{c41Exp{c41MustRefuse, 0, "malformed prefix", "does not parse as a prefix"}, netip.Prefix{}}
	}
	inside, overlap := false, false
	for _, n := range nets {
		switch c41Rel(p, n) {
		case "inside":
			inside = true
		case "overlap":
			overlap = true
		}
	}
	if unsafe {
		switch {
		case inside:
			return c41RouteExp{c41Exp{c41MustRefuse, 0, "inside a network", "is inside the overlay networks"}, p}
		case overlap:
			return c41RouteExp{c41Exp{c41Either, 0, "contains a network", ""}, p}
		}
		return c41RouteExp{c41Exp{c41MustLoad, 0, "outside", ""}, p}
	}
	if inside {
		return c41RouteExp{c41Exp{c41MustLoad, 0, "inside a network", ""}, p}
	}
	return c41RouteExp{c41Exp{c41MustRefuse, 0, "not inside a network", "is not inside the overlay networks"}, p}
}

// ---- via
type c41Gw struct {
	gateway c41Val
	weight  c41Val
	raw     any // when non-nil the list element is this value instead of a map
}

type c41Via struct {
	label   string
	present bool
	scalar  any // non-list value
	list    []c41Gw
	isList  bool
}

type c41ViaExp struct {
	c41Exp
	gws     []routing.Gateway
	weights []c41Exp
}

func c41ExpectVia(v c41Via) c41ViaExp {
	if !v.present {
		return c41ViaExp{c41Exp: c41Exp{c41MustRefuse, 0, "absent", "is absent"}}
	}
	if !v.isList {
		s, ok := v.scalar.(string)
		if !ok {
			return c41ViaExp{c41Exp: c41Exp{c41MustRefuse, 0, "other YAML type", "is neither a string nor a list"}}
		}
		a, err := netip.ParseAddr(s)
		if err != nil {
			return c41ViaExp{c41Exp: c41Exp{c41MustRefuse, 0, "malformed address", "does not parse as an address"}}
		}
		return c41ViaExp{c41Exp: c41Exp{c41MustLoad, 0, "address string", ""}, gws: []routing.Gateway{routing.NewGateway(a, 1)}}
	}
	if len(v.list) == 0 {
		return c41ViaExp{c41Exp: c41Exp{c41Either, 0, "empty list", ""}}
	}
	out := c41ViaExp{c41Exp: c41Exp{c41MustLoad, 0, "gateway list", ""}}
	for _, g := range v.list {
		if g.raw != nil {
			return c41ViaExp{c41Exp: c41Exp{c41MustRefuse, 0, "gateway list", "has a list element that is not a map"}}
		}
		s, ok := g.gateway.v.(string)
		if !g.gateway.present || !ok {
			return c41ViaExp{c41Exp: c41Exp{c41MustRefuse, 0, "gateway list", "has a gateway that is absent or not a string"}}
		}
		a, err := netip.ParseAddr(s)
		if err != nil {
			return c41ViaExp{c41Exp: c41Exp{c41MustRefuse, 0, "gateway list", "has a gateway that does not parse"}}
		}
		w := c41ExpectNum(g.weight, "weight")
		out.weights = append(out.weights, w)
		out.gws = append(out.gws, routing.NewGateway(a, int(w.val)))
	}
	// combine the weight expectations: any refuse -> refuse; else any either -> either
	for _, w := range out.weights {
		if w.status == c41MustRefuse {
			out.status, out.why = c41MustRefuse, "weight "+w.why
			return out
		}
	}
	for _, w := range out.weights {
		if w.status == c41Either {
			out.status = c41Either
		}
	}
	return out
}

func (v c41Via) value() (any, bool) {
	if !v.present {
		return nil, false
	}
	if !v.isList {
		return v.scalar, true
	}
	l := []any{}
	for _, g := range v.list {
		if g.raw != nil {
			l = append(l, g.raw)
			continue
		}
		m := map[string]any{}
		if g.gateway.present {
			m["gateway"] = g.gateway.v
		}
		if g.weight.present {
			m["weight"] = g.weight.v
		}
		l = append(l, m)
	}
	return l, true
}

// ---- one entry
type c41Entry struct {
	unsafe                     bool
	mtu, metric, route, instal c41Val
	via                        c41Via
}

// build fills m (a reusable map: the parsers only read it) with the entry's configuration
func (e c41Entry) build(t *c41Tally, m map[string]any) map[string]any {
	clear(m)
	put := func(k string, v c41Val) {
		if v.present {
			m[k] = v.v
		}
	}
	put("mtu", e.mtu)
	put("route", e.route)
	if e.unsafe {
		put("metric", e.metric)
		put("install", e.instal)
		if e.via.present {
			v, ok := t.viaVal[e.via.label]
			if !ok {
				v, _ = e.via.value()
				t.viaVal[e.via.label] = v
			}
			m["via"] = v
		}
	}
	return m
}

func (e c41Entry) describe() map[string]any {
	d := map[string]any{"mtu": e.mtu.label, "route": e.route.label}
	if e.unsafe {
		d["metric"], d["install"], d["via"] = e.metric.label, e.instal.label, e.via.label
	}
	return d
}

type c41EntryExp struct {
	status  int
	why     string // first refusal reason (field: reason)
	mtu     c41Exp
	metric  c41Exp
	install c41Exp
	route   c41RouteExp
	via     c41ViaExp
}

// cached wrappers (labels identify alphabet values; pure functions of them)
func (t *c41Tally) num(v c41Val, field string) c41Exp {
	k := [2]string{field, v.label}
	if x, ok := t.numCache[k]; ok {
		return x
	}
	x := c41ExpectNum(v, field)
	t.numCache[k] = x
	return x
}

func (t *c41Tally) route(v c41Val, nets []netip.Prefix, netsLabel string, unsafe bool) c41RouteExp {
	u := "routes"
	if unsafe {
		u = "unsafe"
	}
	k := [3]string{v.label, netsLabel, u}
	if x, ok := t.routeCache[k]; ok {
		return x
	}
	x := c41ExpectRoute(v, nets, unsafe)
	t.routeCache[k] = x
	return x
}

func (t *c41Tally) via(v c41Via) c41ViaExp {
	if x, ok := t.viaCache[v.label]; ok {
		return x
	}
	x := c41ExpectVia(v)
	t.viaCache[v.label] = x
	return x
}

func c41ExpectEntry(t *c41Tally, e c41Entry, nets []netip.Prefix, netsLabel string) c41EntryExp {
	var x c41EntryExp
	type part struct {
		name string
		exp  *c41Exp
	}
	var parts [5]part
	n := 0
	if e.unsafe {
		x.mtu = t.num(e.mtu, "unsafe.mtu")
		x.metric = t.num(e.metric, "metric")
		x.install = c41ExpectInstall(e.instal)
		x.via = t.via(e.via)
		x.route = t.route(e.route, nets, netsLabel, true)
		parts = [5]part{{"mtu", &x.mtu}, {"metric", &x.metric}, {"via", &x.via.c41Exp}, {"install", &x.install}, {"route", &x.route.c41Exp}}
		n = 5
	} else {
		x.mtu = t.num(e.mtu, "routes.mtu")
		x.route = t.route(e.route, nets, netsLabel, false)
		parts[0], parts[1] = part{"mtu", &x.mtu}, part{"route", &x.route.c41Exp}
		n = 2
	}
	x.status = c41MustLoad
	for _, p := range parts[:n] {
		if p.exp.status == c41MustRefuse {
			x.status = c41MustRefuse
			x.why = t.why(p.name, p.exp.why)
			break
		}
	}
	if x.status != c41MustRefuse {
		for _, p := range parts[:n] {
			if p.exp.status == c41Either {
				x.status = c41Either
			}
		}
	}
	return x
}

// classes: the per-field value-class vector of an entry (computed only for loaded / must-load entries)
func (x *c41EntryExp) classVector(unsafe bool) string {
	cl := []string{"mtu=" + x.mtu.class}
	if unsafe {
		cl = append(cl, "metric="+x.metric.class, "via="+x.via.class, "install="+x.install.class)
	}
	cl = append(cl, "route="+x.route.class)
	for _, w := range x.via.weights {
		cl = append(cl, "weight="+w.class)
	}
	return strings.Join(cl, ",")
}

func (t *c41Tally) why(name, why string) string {
	k := [2]string{name, why}
	if s, ok := t.whyCache[k]; ok {
		return s
	}
	s := name + " " + why
	t.whyCache[k] = s
	return s
}

// otherTyped lists the numeric fields of e whose value is neither int nor string (the classes a panic is attributed to)
func (e c41Entry) otherTyped() []string {
	var out []string
	chk := func(name string, v c41Val) {
		if c, _ := c41NumClass(v); c == "other YAML type" || c == "nil" || (c == "integer" && reflect.TypeOf(v.v).Kind() != reflect.Int) {
			out = append(out, name)
		}
	}
	chk("mtu", e.mtu)
	if e.unsafe {
		chk("metric", e.metric)
		for _, g := range e.via.list {
			if g.raw == nil {
				chk("weight", g.weight)
			}
		}
	}
	return out
}

type c41Tally struct {
	evals, loaded, refused, panics, either, mustLoad, mustRefuse int64
	classes                                                      map[string]struct{}
	loadedClasses                                                map[string]int64 // "field=class" seen in a loaded entry
	refusedWhy                                                   map[string]int64
	viol                                                         map[string]*c41Viol
	numCache                                                     map[[2]string]c41Exp
	routeCache                                                   map[[3]string]c41RouteExp
	viaCache                                                     map[string]c41ViaExp
	whyCache                                                     map[[2]string]string
	viaVal                                                       map[string]any
	cfg                                                          *config.C
	scratch                                                      [2]map[string]any
	tun                                                          map[string]any
}

// c41Viol aggregates the configurations that fail with one signature; the smallest one becomes the replay detail.
type c41Viol struct {
	count  int64
	size   int
	detail map[string]any
}

func (t *c41Tally) report(sig string, entries []c41Entry, detail func() map[string]any) {
	size := 0
	w := func(present bool, label string) {
		if present {
			size += 10 + len(label)
		}
	}
	for _, e := range entries { // fewest entries, then fewest configured fields, then shortest values
		size += 1000
		w(e.mtu.present, e.mtu.label)
		w(e.route.present, e.route.label)
		if e.unsafe {
			w(e.metric.present, e.metric.label)
			w(e.instal.present, e.instal.label)
			w(e.via.present, e.via.label)
		}
	}
	v := t.viol[sig]
	if v == nil {
		v = &c41Viol{size: 1 << 30}
		t.viol[sig] = v
	}
	v.count++
	if size < v.size {
		v.size, v.detail = size, detail()
	}
}

func newC41Tally() *c41Tally {
	return &c41Tally{classes: map[string]struct{}{}, loadedClasses: map[string]int64{}, refusedWhy: map[string]int64{}, viol: map[string]*c41Viol{},
		numCache: map[[2]string]c41Exp{}, routeCache: map[[3]string]c41RouteExp{}, viaCache: map[string]c41ViaExp{}, whyCache: map[[2]string]string{}, viaVal: map[string]any{},
		cfg: config.NewC(c41Log), scratch: [2]map[string]any{{}, {}}, tun: map[string]any{}}
}

var c41Log = slog.New(slog.DiscardHandler)

// c41Run calls the real parser on a list of entries and compares with the reference.
func c41Run(c *mc.Check, t *c41Tally, entries []c41Entry, nets []netip.Prefix, netsLabel string) {
	unsafe := entries[0].unsafe
	fn, key := "parseRoutes", "routes"
	if unsafe {
		fn, key = "parseUnsafeRoutes", "unsafe_routes"
	}
	raw := make([]any, len(entries))
	for i, e := range entries {
		raw[i] = e.build(t, t.scratch[i])
	}
	cfg := t.cfg
	clear(t.tun)
	t.tun[key] = raw
	cfg.Settings["tun"] = t.tun

	var routes []Route
	var err error
	var pan any
	func() {
		defer func() { pan = recover() }()
		if unsafe {
			routes, err = parseUnsafeRoutes(cfg, nets)
		} else {
			routes, err = parseRoutes(cfg, nets)
		}
	}()
	t.evals++

	exps := make([]c41EntryExp, len(entries))
	status := c41MustLoad
	why := ""
	for i, e := range entries {
		exps[i] = c41ExpectEntry(t, e, nets, netsLabel)
		if exps[i].status == c41MustRefuse && status != c41MustRefuse {
			status, why = c41MustRefuse, exps[i].why
		}
	}
	if status != c41MustRefuse {
		for _, x := range exps {
			if x.status == c41Either {
				status = c41Either
			}
		}
	}
	switch status {
	case c41MustLoad:
		t.mustLoad++
	case c41MustRefuse:
		t.mustRefuse++
		t.refusedWhy[why]++
	default:
		t.either++
	}
	detail := func() map[string]any {
		var ds []any
		for _, e := range entries {
			ds = append(ds, e.describe())
		}
		d := map[string]any{"function": fn, "entries": ds, "config": fmt.Sprintf("%#v", raw), "networks": netsLabel}
		if err != nil {
			d["error"] = err.Error()
		}
		if pan != nil {
			d["panic"] = fmt.Sprint(pan)
		}
		if err == nil && pan == nil {
			var ls []string
			for _, r := range routes {
				ls = append(ls, fmt.Sprintf("{cidr:%v mtu:%d metric:%d install:%v via:[%v]}", r.Cidr, r.MTU, r.Metric, r.Install, r.Via))
			}
			d["loaded"] = ls
		}
		return d
	}

	if pan != nil {
		t.panics++
		var ot []string
		for _, e := range entries {
			ot = append(ot, e.otherTyped()...)
		}
		if len(ot) > 0 {
			t.report(fmt.Sprintf("%s: panic instead of refusal when %s is a YAML value that is neither an integer nor a string", fn, ot[0]), entries, detail)
		} else {
			t.report(fmt.Sprintf("%s: panic on a configuration without exotic numeric types", fn), entries, detail)
		}
		return
	}
	outcome := "refused"
	if err == nil {
		outcome = "loaded"
		t.loaded++
	} else {
		t.refused++
	}
	if err == nil || status == c41MustLoad {
		var cls []string
		for i := range exps {
			cls = append(cls, exps[i].classVector(unsafe))
		}
		t.classes[fn+"|"+strings.Join(cls, ";")+"|"+outcome] = struct{}{}
	}

	if err != nil {
		if status == c41MustLoad {
			// attribute the refusal to a numeric field given as a decimal string when the error names that field
			what := "a well-formed entry"
			has := map[string]bool{}
			for i, e := range entries {
				x := exps[i]
				if e.unsafe {
					for _, w := range x.via.weights {
						has["weight"] = has["weight"] || w.class == "decimal string"
					}
					has["metric"] = has["metric"] || x.metric.class == "decimal string"
				}
				has["mtu"] = has["mtu"] || x.mtu.class == "decimal string"
			}
			for _, f := range []string{"weight", "metric", "mtu"} {
				if has[f] && strings.Contains(err.Error(), "."+f+" ") {
					what = f + " given as an in-range decimal string"
					break
				}
			}
			t.report(fmt.Sprintf("%s: refuses %s (the stated value is not taken)", fn, what), entries, detail)
		}
		return
	}
	// loaded
	if status == c41MustRefuse {
		t.report(fmt.Sprintf("%s: loads although %s", fn, why), entries, detail)
		return
	}
	if len(routes) != len(entries) {
		t.report(fmt.Sprintf("%s: number of loaded routes differs from the number of entries", fn), entries, detail)
		return
	}
	for i, e := range entries {
		x, r := exps[i], routes[i]
		for _, p := range strings.Split(x.classVector(e.unsafe), ",") {
			t.loadedClasses[fn+" "+p]++
		}
		if int64(r.MTU) != x.mtu.val {
			t.report(fmt.Sprintf("%s: mtu given as %s loads with a different value", fn, c41StrClass(x.mtu.class)), entries, detail)
		}
		if r.Cidr.Bits() != x.route.pfx.Bits() || r.Cidr.Masked() != x.route.pfx.Masked() {
			t.report(fmt.Sprintf("%s: loaded prefix differs from the configured route", fn), entries, detail)
		}
		if !e.unsafe {
			if !r.Install || r.Metric != 0 || len(r.Via) != 0 {
				t.report("parseRoutes: loaded route carries a metric, gateways or install=false", entries, detail)
			}
			continue
		}
		if int64(r.Metric) != x.metric.val {
			t.report(fmt.Sprintf("%s: metric given as %s loads with a different value", fn, c41StrClass(x.metric.class)), entries, detail)
		}
		if r.Install != (x.install.val == 1) {
			t.report(fmt.Sprintf("%s: install given as %s loads with a different value", fn, x.install.class), entries, detail)
		}
		if x.via.class == "empty list" {
			if len(r.Via) != 0 {
				t.report(fmt.Sprintf("%s: gateways appear from an empty via list", fn), entries, detail)
			}
			continue
		}
		if len(r.Via) != len(x.via.gws) {
			t.report(fmt.Sprintf("%s: number of gateways differs from the via list", fn), entries, detail)
			continue
		}
		for gi := range r.Via {
			if r.Via[gi] != x.via.gws[gi] {
				cl := "address string"
				if gi < len(x.via.weights) {
					cl = x.via.weights[gi].class
				}
				if r.Via[gi].Addr() != x.via.gws[gi].Addr() {
					t.report(fmt.Sprintf("%s: gateway address differs from the configured one", fn), entries, detail)
				} else {
					t.report(fmt.Sprintf("%s: gateway weight given as %s loads with a different value", fn, c41StrClass(cl)), entries, detail)
				}
			}
		}
	}
}

func TestVerifC41(t *testing.T) {
	c := mc.Begin(t, "C41", "exploration")
	defer c.End()

	abs := c41Val{label: "(absent)"}
	iv := func(n int) c41Val {
		return c41Val{label: fmt.Sprintf("int %d", n), present: true, v: n, yaml: fmt.Sprintf("%d", n)}
	}
	sv := func(s string) c41Val {
		return c41Val{label: fmt.Sprintf("string %q", s), present: true, v: s, yaml: fmt.Sprintf("%q", s)}
	}
	ov := func(label string, v any, y string) c41Val { return c41Val{label: label, present: true, v: v, yaml: y} }

	numFull := []c41Val{abs, iv(0), iv(1), iv(5), iv(499), iv(500), iv(1300), iv(math.MaxInt32), iv(math.MaxInt32 + 1), iv(-1),
		sv("0"), sv("1"), sv("5"), sv("499"), sv("500"), sv("2147483647"), sv("2147483648"), sv("-1"), sv("99999999999999999999"),
		sv("0500"), sv("+500"), sv("5e2"), sv(""), sv("abc"), sv("1.5"), sv("0x200"),
		ov("float 1.5", 1.5, "1.5"), ov("bool true", true, "true"), ov("null", nil, "~"), ov("empty list", []any{}, "[]"),
		ov("map", map[string]any{"a": 1}, "{a: 1}"), ov("uint64 2^63", uint64(1)<<63, "9223372036854775808")}
	numQuick := []c41Val{abs, iv(0), iv(1), iv(499), iv(500), iv(math.MaxInt32), iv(math.MaxInt32 + 1), iv(-1),
		sv("0"), sv("5"), sv("500"), sv("2147483648"), sv("-1"), sv("0500"), sv("+500"), sv("5e2"), sv(""), sv("abc"),
		ov("float 1.5", 1.5, "1.5"), ov("bool true", true, "true"), ov("null", nil, "~"), ov("empty list", []any{}, "[]")}
	numSmall := []c41Val{abs, iv(0), iv(500), iv(7), sv("500"), sv("7"), sv("abc"), ov("float 1.5", 1.5, "1.5")}
	num := mc.Pick(c, numQuick, numFull)

	routeFull := []c41Val{sv("10.1.2.0/24"), sv("10.1.0.0/16"), sv("10.1.1.9/32"), sv("10.1.2.7/24"), sv("192.168.0.0/24"), sv("0.0.0.0/0"),
		sv("10.0.0.0/8"), sv("10.1.0.0/8"), sv("fd00::/64"), sv("fd00::1:0/112"), sv("fd00:0:0:1::/64"), sv("2000::/3"),
		sv("10.1.2.0"), sv("10.1.2.0/33"), sv("abc"), sv(""), iv(5), ov("null", nil, "~"), abs}
	routeQuick := []c41Val{sv("10.1.2.0/24"), sv("192.168.0.0/24"), sv("0.0.0.0/0"), sv("10.1.0.0/8"), sv("fd00::1:0/112"), sv("10.1.2.0/33"), abs}
	routeSmall := []c41Val{sv("10.1.2.0/24"), sv("192.168.0.0/24"), sv("abc")}
	routesA := mc.Pick(c, routeQuick, routeFull)

	instFull := []c41Val{abs, ov("bool true", true, "true"), ov("bool false", false, "false"), sv("true"), sv("false"), sv("t"), iv(1), iv(0),
		iv(3), sv("abc"), ov("null", nil, "~"), ov("float 1.5", 1.5, "1.5")}
	instQuick := []c41Val{abs, ov("bool false", false, "false"), sv("false"), iv(3)}
	instSmall := []c41Val{abs, sv("false"), sv("abc")}
	inst := mc.Pick(c, instQuick, instFull)

	type netSet struct {
		label string
		nets  []netip.Prefix
	}
	mp := netip.MustParsePrefix
	netsFull := []netSet{{"[10.1.0.0/16]", []netip.Prefix{mp("10.1.0.0/16")}}, {"[10.1.1.5/16 fd00::5/64]", []netip.Prefix{mp("10.1.1.5/16"), mp("fd00::5/64")}},
		{"[]", nil}, {"[172.16.0.1/24 10.1.1.5/16]", []netip.Prefix{mp("172.16.0.1/24"), mp("10.1.1.5/16")}}}
	netsQuick := netsFull[:2]
	netSets := mc.Pick(c, netsQuick, netsFull)

	// ---- every alphabet value is what the YAML loader produces for its literal
	yamlChecked := 0
	for _, set := range [][]c41Val{numFull, routeFull, instFull} {
		for _, v := range set {
			if !v.present || v.yaml == "" {
				continue
			}
			cfg := config.NewC(c41Log)
			if err := cfg.LoadString("tun:\n  unsafe_routes:\n    - x: " + v.yaml + "\n"); err != nil {
				c.Broken("yaml literal %s does not load: %v", v.yaml, err)
			}
			got := cfg.Get("tun.unsafe_routes").([]any)[0].(map[string]any)["x"]
			if !reflect.DeepEqual(got, v.v) {
				c.Broken("yaml literal %s loads as %T(%v), alphabet holds %T(%v)", v.yaml, got, got, v.v, v.v)
			}
			yamlChecked++
		}
	}
	c.Set("alphabet_values_checked_against_yaml_loader", yamlChecked)

	gwA, gwB := sv("192.168.9.1"), sv("fd00:9::1")
	viaAddr := c41Via{label: `string "192.168.9.1"`, present: true, scalar: "192.168.9.1"}
	viaOf := func(ws ...c41Val) c41Via {
		v := c41Via{present: true, isList: true}
		var ls []string
		for i, w := range ws {
			g := gwA
			if i%2 == 1 {
				g = gwB
			}
			v.list = append(v.list, c41Gw{gateway: g, weight: w})
			ls = append(ls, fmt.Sprintf("{gateway: %s, weight: %s}", g.v, w.label))
		}
		v.label = "[" + strings.Join(ls, ", ") + "]"
		return v
	}
	viaShapes := []c41Via{
		{label: "(absent)"},
		viaAddr,
		{label: `string "fd00:9::1"`, present: true, scalar: "fd00:9::1"},
		{label: `string "nope"`, present: true, scalar: "nope"},
		{label: `string ""`, present: true, scalar: ""},
		{label: "int 5", present: true, scalar: 5},
		{label: "null", present: true, scalar: nil},
		{label: "map", present: true, scalar: map[string]any{"gateway": "192.168.9.1"}},
		{label: "[]", present: true, isList: true},
		{label: `["192.168.9.1"]`, present: true, isList: true, list: []c41Gw{{raw: "192.168.9.1"}}},
		{label: "[{weight: 1}]", present: true, isList: true, list: []c41Gw{{gateway: abs, weight: iv(1)}}},
		{label: "[{gateway: 5}]", present: true, isList: true, list: []c41Gw{{gateway: iv(5), weight: abs}}},
		{label: `[{gateway: "nope"}]`, present: true, isList: true, list: []c41Gw{{gateway: sv("nope"), weight: abs}}},
		{label: `[{gateway: ok}, 7]`, present: true, isList: true, list: []c41Gw{{gateway: gwA, weight: abs}, {raw: 7}}},
	}

	// ---- work list: closures that run a slice of the box on a private tally
	var jobs []func(t *c41Tally)
	// A1 parseRoutes: mtu x route x networks (full alphabets in both tiers: small)
	jobs = append(jobs, func(t *c41Tally) {
		for _, ns := range netsFull {
			for _, m := range numFull {
				for _, r := range routeFull {
					c41Run(c, t, []c41Entry{{mtu: m, route: r}}, ns.nets, ns.label)
				}
			}
		}
	})
	// A2 parseRoutes: two entries
	jobs = append(jobs, func(t *c41Tally) {
		for _, ns := range netsQuick {
			for _, m1 := range numSmall {
				for _, r1 := range routeSmall {
					for _, m2 := range numSmall {
						for _, r2 := range routeSmall {
							c41Run(c, t, []c41Entry{{mtu: m1, route: r1}, {mtu: m2, route: r2}}, ns.nets, ns.label)
						}
					}
				}
			}
		}
	})
	// B1 parseUnsafeRoutes: mtu x metric x weight (one-gateway list) x route x install x networks — one job per mtu value
	for _, m := range num {
		m := m
		jobs = append(jobs, func(t *c41Tally) {
			for _, me := range num {
				for _, w := range num {
					via := viaOf(w)
					for _, r := range routesA {
						for _, in := range inst {
							for _, ns := range netSets {
								c41Run(c, t, []c41Entry{{unsafe: true, mtu: m, metric: me, route: r, instal: in, via: via}}, ns.nets, ns.label)
							}
						}
					}
				}
			}
		})
	}
	// B2 via shapes x reduced rest; two-gateway lists with every weight pair
	jobs = append(jobs, func(t *c41Tally) {
		for _, via := range viaShapes {
			for _, m := range numSmall {
				for _, me := range numSmall {
					for _, r := range routeSmall {
						for _, in := range instSmall {
							c41Run(c, t, []c41Entry{{unsafe: true, mtu: m, metric: me, route: r, instal: in, via: via}}, netsFull[1].nets, netsFull[1].label)
						}
					}
				}
			}
		}
	})
	jobs = append(jobs, func(t *c41Tally) {
		for _, w1 := range numFull {
			for _, w2 := range numFull {
				for _, me := range numSmall {
					c41Run(c, t, []c41Entry{{unsafe: true, mtu: abs, metric: me, route: sv("192.168.0.0/24"), instal: abs, via: viaOf(w1, w2)}}, netsFull[0].nets, netsFull[0].label)
				}
			}
		}
	})
	// B3 install and route alphabets in full against a plain entry (both tiers)
	jobs = append(jobs, func(t *c41Tally) {
		for _, ns := range netsFull {
			for _, r := range routeFull {
				for _, in := range instFull {
					for _, me := range numSmall {
						c41Run(c, t, []c41Entry{{unsafe: true, mtu: abs, metric: me, route: r, instal: in, via: viaAddr}}, ns.nets, ns.label)
					}
				}
			}
		}
	})
	// B4 two unsafe entries from a reduced alphabet: a list loads iff every entry does, order kept
	var small []c41Entry
	for _, m := range []c41Val{abs, sv("1300"), ov("float 1.5", 1.5, "1.5")} {
		for _, me := range []c41Val{abs, iv(7), sv("7"), sv("abc"), iv(-1)} {
			for _, r := range routeSmall {
				for _, via := range []c41Via{viaAddr, viaOf(iv(3), sv("4")), viaOf(iv(0))} {
					small = append(small, c41Entry{unsafe: true, mtu: m, metric: me, route: r, instal: abs, via: via})
				}
			}
		}
	}
	for i := range small {
		i := i
		jobs = append(jobs, func(t *c41Tally) {
			for j := range small {
				c41Run(c, t, []c41Entry{small[i], small[j]}, netsFull[0].nets, netsFull[0].label)
			}
		})
	}
	// B5 degenerate containers
	jobs = append(jobs, func(t *c41Tally) {
		for _, key := range []string{"routes", "unsafe_routes"} {
			for _, raw := range []any{nil, []any{}, "hi", 5, map[string]any{}, []any{"asdf"}, []any{5}, []any{nil}} {
				cfg := config.NewC(c41Log)
				if raw != nil {
					cfg.Settings["tun"] = map[string]any{key: raw}
				}
				var rs []Route
				var err error
				var pan any
				func() {
					defer func() { pan = recover() }()
					if key == "routes" {
						rs, err = parseRoutes(cfg, netsFull[0].nets)
					} else {
						rs, err = parseUnsafeRoutes(cfg, netsFull[0].nets)
					}
				}()
				t.evals++
				l, isList := raw.([]any)
				wantLoad := raw == nil || (isList && len(l) == 0)
				d := map[string]any{"key": "tun." + key, "value": fmt.Sprintf("%#v", raw), "panic": fmt.Sprint(pan), "error": fmt.Sprint(err)}
				switch {
				case pan != nil:
					c.Violation("route list container: panic instead of refusal", d)
				case wantLoad && (err != nil || len(rs) != 0):
					c.Violation("route list container: absent/empty list does not load as no routes", d)
				case !wantLoad && err == nil:
					c.Violation("route list container: a value that is not a list of maps loads", d)
				}
			}
		}
	})

	// ---- run
	// The enumeration is allocation-bound (the parsers build errors and slices); measured on a loaded 16-core box it
	// scales negatively beyond a few threads (allocator lock convoys), so a small fixed pool is used.
	workers := min(c41Workers, runtime.GOMAXPROCS(0))
	tallies := make([]*c41Tally, workers)
	var next atomic.Int64
	var capped atomic.Bool
	var wg sync.WaitGroup
	for w := 0; w < workers; w++ {
		tallies[w] = newC41Tally()
		wg.Add(1)
		go func(t *c41Tally) {
			defer wg.Done()
			for {
				k := int(next.Add(1) - 1)
				if k >= len(jobs) {
					return
				}
				if c.OutOfTime() {
					capped.Store(true)
					return
				}
				jobs[k](t)
			}
		}(tallies[w])
	}
	wg.Wait()
	if capped.Load() {
		c.Capped("soft time budget reached before every slice of the box was run")
	}
	tot := newC41Tally()
	for _, t := range tallies {
		tot.evals += t.evals
		tot.loaded += t.loaded
		tot.refused += t.refused
		tot.panics += t.panics
		tot.either += t.either
		tot.mustLoad += t.mustLoad
		tot.mustRefuse += t.mustRefuse
		for k := range t.classes {
			tot.classes[k] = struct{}{}
		}
		for k, v := range t.loadedClasses {
			tot.loadedClasses[k] += v
		}
		for k, v := range t.refusedWhy {
			tot.refusedWhy[k] += v
		}
		for sig, v := range t.viol {
			o := tot.viol[sig]
			if o == nil {
				o = &c41Viol{size: 1 << 30}
				tot.viol[sig] = o
			}
			o.count += v.count
			if v.size < o.size || (v.size == o.size && fmt.Sprint(v.detail) < fmt.Sprint(o.detail)) {
				o.size, o.detail = v.size, v.detail
			}
		}
	}
	var failing int64
	for _, sig := range c41SortedSigs(tot.viol) {
		v := tot.viol[sig]
		v.detail["configurations_failing_with_this_signature"] = v.count
		failing += v.count
		c.Violation(sig, v.detail)
	}
	c.Set("violating_configurations", failing)

	// ---- vacuity guards
	c.Require(tot.loaded > 0 && tot.refused > 0, "need both loaded and refused configurations (loaded=%d refused=%d)", tot.loaded, tot.refused)
	c.Require(tot.mustLoad > 0 && tot.mustRefuse > 0 && tot.either > 0, "reference produced no must-load / must-refuse / either case (%d/%d/%d)", tot.mustLoad, tot.mustRefuse, tot.either)
	for _, k := range []string{"parseRoutes mtu=integer", "parseRoutes mtu=decimal string", "parseRoutes route=inside a network",
		"parseUnsafeRoutes mtu=integer", "parseUnsafeRoutes mtu=decimal string", "parseUnsafeRoutes mtu=absent", "parseUnsafeRoutes metric=integer",
		"parseUnsafeRoutes metric=absent", "parseUnsafeRoutes weight=integer", "parseUnsafeRoutes weight=absent", "parseUnsafeRoutes route=outside",
		"parseUnsafeRoutes route=contains a network", "parseUnsafeRoutes via=address string", "parseUnsafeRoutes via=gateway list",
		"parseUnsafeRoutes install=bool string", "parseUnsafeRoutes install=absent"} {
		c.Require(tot.loadedClasses[k] > 0, "no loaded entry with %s", k)
	}
	for _, k := range []string{"mtu is out of range (given as integer)", "mtu is out of range (given as decimal string)", "mtu is not an integer (malformed string)",
		"mtu is not an integer (other YAML type)", "mtu is absent (required)", "metric is out of range (given as integer)", "metric is not an integer (malformed string)",
		"route is inside the overlay networks", "route is not inside the overlay networks", "route does not parse as a prefix", "route is absent",
		"via is absent", "via does not parse as an address", "via has a gateway that does not parse", "install is not a boolean",
		"via weight is out of range (given as integer)", "via weight is not an integer (malformed string)"} {
		c.Require(tot.refusedWhy[k] > 0, "reference never refused for reason %q (have %v)", k, c41Keys(tot.refusedWhy))
	}
	c.Set("evaluations", tot.evals)
	c.Set("distinct_nontrivial", int64(len(tot.classes)))
	c.Set("rule", "evaluations = calls of the real parseRoutes/parseUnsafeRoutes, one per enumerated configuration; distinct_nontrivial = number of DISTINCT (function, per-field value-class vector, outcome) combinations among configurations that the implementation loaded or the reference requires to load (counted in a set)")
	c.Set("loaded", tot.loaded)
	c.Set("refused", tot.refused)
	c.Set("panics", tot.panics)
	c.Set("reference_must_load", tot.mustLoad)
	c.Set("reference_must_refuse", tot.mustRefuse)
	c.Set("reference_either", tot.either)
	c.Set("distinct_refusal_reasons", len(tot.refusedWhy))
	c.Set("numeric_alphabet", len(num))
	c.Set("route_alphabet", len(routesA))
	c.Set("install_alphabet", len(inst))
	c.Set("network_sets", len(netSets))
	c.Set("via_shapes", len(viaShapes))
	c.Sample(map[string]any{"function": "parseUnsafeRoutes", "entry": map[string]any{"route": "192.168.0.0/24", "via": "192.168.9.1", "metric": "5 (string)"}, "reference": "loads with metric 5"})
	c.Sample(map[string]any{"function": "parseUnsafeRoutes", "entry": map[string]any{"route": "0.0.0.0/0", "via": "[{gateway: 192.168.9.1, weight: +500 (string)}]"}, "reference": "either (supernet of a network; lenient spelling)"})
	c.Sample(map[string]any{"function": "parseRoutes", "entry": map[string]any{"route": "10.1.2.7/24", "mtu": "499 (string)"}, "reference": "refused: mtu out of range"})
	c.Assume("ranges are the ones the implementation's own error messages state (tun.routes mtu >= 500; unsafe mtu 0 or >= 500; metric 0..2^31-1; weight 1..2^31-1); no upper bound is put on an MTU")
	c.Assume("'+500' / '0500' spellings, null numeric fields, an empty via list, install given as 1/0/\"t\", and an unsafe route that merely contains an overlay network (e.g. 0.0.0.0/0) are left open: either refusal or the obvious value is accepted")
	c.Assume("a panic of the parser is neither 'loaded' nor 'refused' and is reported; on reload it would take the process down")
	c.Assume("configurations are built as Go values; every alphabet value is shown at run time to be exactly what config.LoadString yields for its YAML literal")
}

// c41StrClass folds the two string spellings into one label for value-mismatch signatures (one defect, one signature)
func c41StrClass(class string) string {
	if class == "lenient string" {
		return "decimal string"
	}
	return class
}

func c41SortedSigs(m map[string]*c41Viol) []string {
	var ks []string
	for k := range m {
		ks = append(ks, k)
	}
	sort.Strings(ks)
	return ks
}

func c41Keys(m map[string]int64) []string {
	var ks []string
	for k := range m {
		ks = append(ks, k)
	}
	sort.Strings(ks)
	return ks
}
