//go:build verif && linux

package cpupick

import (
	"fmt"
	"os"
	"path/filepath"
	"sort"
	"strings"
	"sync"
	"sync/atomic"
	"testing"

	"github.com/slackhq/nebula/util"
	"github.com/slackhq/nebula/zzverif/mc"
)

// C46 — CPU pinning choices are valid and stable; cpulist parsing follows the kernel's syntax.
//
// Part A (pin list): machines are described by a harness-side spec (NUMA node, package and core id per CPU, which
// sysfs files exist). The spec is written out as a fake sysfs tree, the REAL readTopologyFrom reads it for every
// candidate set and the REAL arrange orders the candidates. The oracle looks only at the spec and the returned list:
//   - only candidates, no duplicates;
//   - the set is exactly the candidates of ONE node that holds >= routines candidates, or all candidates when no node does;
//   - the CPUs on CPU 0's physical core (and CPU 0) form the tail of the list, CPU 0 itself is the last element;
//   - a second run (topology read again) gives the same list.
// pickCandidates/perfCPUsFrom: result is one of the two offered lists / a duplicate-free subset of allowed, and the
// final list stays inside allowed.
//
// Part B (parseCPUList): every bitmap rendered like the kernel prints it ("%*pbl") parses back to itself; every short
// string over a hostile alphabet is compared with a hand-written reference of the kernel grammar.

type c46Machine struct {
	name     string
	universe []int          // CPUs that exist (have a cpuN directory)
	node     map[int]int    // NUMA node claiming the cpu; absent = no node lists it
	pc       map[int][2]int // (physical_package_id, core_id); absent = topology files unreadable
	nodeDirs bool           // false: no /sys/devices/system/node at all
	flat     bool           // use flatTopology(cands) instead of sysfs (what non-sysfs platforms get)
	nodeRoot string
	cpuRoot  string
}

func (m *c46Machine) nodeOf(c int) int {
	if !m.nodeDirs || m.flat {
		return 0
	}
	if n, ok := m.node[c]; ok {
		return n
	}
	return 0
}

// onZeroCore: c is CPU 0 or provably shares CPU 0's physical core.
func (m *c46Machine) onZeroCore(c int) bool {
	if c == 0 {
		return true
	}
	if m.flat {
		return false
	}
	z, ok0 := m.pc[0]
	p, ok := m.pc[c]
	return ok0 && ok && z == p
}

// c46Render prints a CPU set the way the kernel's "%*pbl" does: ascending, maximal runs as lo-hi, comma separated.
func c46Render(cpus []int) string {
	s := append([]int{}, cpus...)
	sort.Ints(s)
	var parts []string
	for i := 0; i < len(s); {
		j := i
		for j+1 < len(s) && s[j+1] == s[j]+1 {
			j++
		}
		if j > i {
			parts = append(parts, fmt.Sprintf("%d-%d", s[i], s[j]))
		} else {
			parts = append(parts, fmt.Sprintf("%d", s[i]))
		}
		i = j + 1
	}
	return strings.Join(parts, ",")
}

func (m *c46Machine) materialize(t testing.TB) {
	if m.flat {
		return
	}
	root := t.TempDir()
	m.nodeRoot = filepath.Join(root, "node")
	m.cpuRoot = filepath.Join(root, "cpu")
	must := func(err error) {
		if err != nil {
			t.Fatalf("fake sysfs: %v", err)
		}
	}
	must(os.MkdirAll(m.cpuRoot, 0o755))
	for _, c := range m.universe {
		d := filepath.Join(m.cpuRoot, fmt.Sprintf("cpu%d", c), "topology")
		must(os.MkdirAll(d, 0o755))
		if p, ok := m.pc[c]; ok {
			must(os.WriteFile(filepath.Join(d, "physical_package_id"), []byte(fmt.Sprintf("%d\n", p[0])), 0o644))
			must(os.WriteFile(filepath.Join(d, "core_id"), []byte(fmt.Sprintf("%d\n", p[1])), 0o644))
		}
	}
	if m.nodeDirs {
		byNode := map[int][]int{}
		for c, n := range m.node {
			byNode[n] = append(byNode[n], c)
		}
		for n, cs := range byNode {
			d := filepath.Join(m.nodeRoot, fmt.Sprintf("node%d", n))
			must(os.MkdirAll(d, 0o755))
			must(os.WriteFile(filepath.Join(d, "cpulist"), []byte(c46Render(cs)+"\n"), 0o644))
		}
		// entries a real node directory also has
		must(os.WriteFile(filepath.Join(m.nodeRoot, "has_cpu"), []byte("0\n"), 0o644))
		must(os.WriteFile(filepath.Join(m.nodeRoot, "possible"), []byte("0-1\n"), 0o644))
		must(os.MkdirAll(filepath.Join(m.nodeRoot, "power"), 0o755))
	}
}

func (m *c46Machine) topology(cands []int) topology {
	if m.flat {
		return flatTopology(cands)
	}
	return readTopologyFrom(m.nodeRoot, m.cpuRoot, cands)
}

// c46Machines builds the machine menu over a universe of 8 (or more) CPU ids given by position.
func c46Machines(u []int, tag string) []*c46Machine {
	n := len(u)
	mk := func(name string, node func(i int) (int, bool), pc func(i int) ([2]int, bool), nodeDirs bool) *c46Machine {
		m := &c46Machine{name: tag + "/" + name, universe: u, node: map[int]int{}, pc: map[int][2]int{}, nodeDirs: nodeDirs}
		for i, c := range u {
			if node != nil {
				if v, ok := node(i); ok {
					m.node[c] = v
				}
			}
			if v, ok := pc(i); ok {
				m.pc[c] = v
			}
		}
		return m
	}
	own := func(i int) ([2]int, bool) { return [2]int{0, i}, true }
	one := func(i int) (int, bool) { return 0, true }
	half := func(i int) (int, bool) { return i * 2 / n, true }
	ms := []*c46Machine{
		{name: tag + "/flatTopology()", universe: u, flat: true},
		mk("no-numa,no-smt", nil, own, false),
		mk("2-numa-halves", half, own, true),
		mk("numa-2+rest", func(i int) (int, bool) {
			if i < 2 {
				return 0, true
			}
			return 1, true
		}, own, true),
		mk("3-numa-3/3/rest,node-ids-0,2,5", func(i int) (int, bool) { return []int{0, 2, 5}[min(i/3, 2)], true }, own, true),
		mk("smt-adjacent-pairs", one, func(i int) ([2]int, bool) { return [2]int{0, i / 2}, true }, true),
		mk("smt-split-pairs(i,i+n/2)", one, func(i int) ([2]int, bool) { return [2]int{0, i % (n / 2)}, true }, true),
		mk("2-sockets-x-smt,core-ids-repeat", half, func(i int) ([2]int, bool) { return [2]int{i * 2 / n, (i % (n / 2)) / 2}, true }, true),
		mk("smt-4-way", one, func(i int) ([2]int, bool) { return [2]int{0, i / 4}, true }, true),
		mk("first-cpu-topology-unreadable,smt-pairs", one, func(i int) ([2]int, bool) { return [2]int{0, i / 2}, i != 0 }, true),
		mk("odd-cpus-topology-unreadable,2-numa", half, func(i int) ([2]int, bool) { return [2]int{0, i / 2}, i%2 == 0 }, true),
		mk("some-cpus-in-no-node", func(i int) (int, bool) { return 1, i >= 3 && i < 6 }, own, true),
		mk("all-on-node-1,smt-pairs", func(i int) (int, bool) { return 1, true }, func(i int) ([2]int, bool) { return [2]int{0, i / 2}, true }, true),
	}
	return ms
}

type c46Stats struct {
	evals, nodeChosen, spanAll, zeroTailSiblings, zeroAbsentSiblingDemoted, zeroOnly, zeroLastPlain atomic.Int64
	smtSiblingBeforeFreshCore                                                                       atomic.Int64
	pickEvals, pickPerf, pickAllowed, perfEvals, perfFiltered                                       atomic.Int64
}

func c46Set(xs []int) map[int]bool {
	s := make(map[int]bool, len(xs))
	for _, x := range xs {
		s[x] = true
	}
	return s
}

// c46CheckList applies the statement to one returned list. allowed is the outermost set the list must stay in.
func c46CheckList(c *mc.Check, st *c46Stats, m *c46Machine, allowed, cands []int, routines int, h uint64, out []int) bool {
	detail := func() map[string]any {
		return map[string]any{"machine": m.name, "candidates": cands, "allowed": allowed, "routines": routines, "hash": fmt.Sprintf("%#x", h), "returned": out}
	}
	candSet, allowedSet := c46Set(cands), c46Set(allowed)
	seen := map[int]bool{}
	for _, x := range out {
		if !allowedSet[x] {
			c.Violation("pin list contains a CPU that is not allowed", detail())
			return false
		}
		if !candSet[x] {
			c.Violation("pin list contains a CPU that is not a candidate", detail())
			return false
		}
		if seen[x] {
			c.Violation("pin list contains a duplicate", detail())
			return false
		}
		seen[x] = true
	}
	// chosen node
	byNode := map[int][]int{}
	for _, x := range cands {
		byNode[m.nodeOf(x)] = append(byNode[m.nodeOf(x)], x)
	}
	anyBigEnough := false
	matches := false
	for _, members := range byNode {
		if len(members) >= routines {
			anyBigEnough = true
			if len(members) == len(out) {
				all := true
				for _, x := range members {
					if !seen[x] {
						all = false
					}
				}
				if all {
					matches = true
				}
			}
		}
	}
	if anyBigEnough {
		if !matches {
			c.Violation("pin list is not exactly the candidate set of one NUMA node that is large enough for every routine", detail())
			return false
		}
		if len(out) < len(cands) {
			st.nodeChosen.Add(1)
		}
	} else {
		if len(out) != len(cands) {
			c.Violation("no NUMA node is large enough but the pin list does not contain all candidates", detail())
			return false
		}
		st.spanAll.Add(1)
	}
	// CPU 0's core last, CPU 0 at the very end
	if seen[0] && out[len(out)-1] != 0 {
		c.Violation("CPU 0 is in the pin list but not at the very end", detail())
		return false
	}
	nz := 0
	for _, x := range out {
		if m.onZeroCore(x) {
			nz++
		}
	}
	for i, x := range out {
		if m.onZeroCore(x) != (i >= len(out)-nz) {
			c.Violation("the CPUs on CPU 0's physical core are not the tail of the pin list", detail())
			return false
		}
	}
	switch {
	case nz > 1 && seen[0]:
		st.zeroTailSiblings.Add(1)
	case nz > 0 && !seen[0]:
		st.zeroAbsentSiblingDemoted.Add(1)
	case nz == 1 && len(out) == 1:
		st.zeroOnly.Add(1)
	case nz == 1:
		st.zeroLastPlain.Add(1)
	}
	// information only (not in the statement): one thread per physical core before any sibling, outside the tail
	if !m.flat {
		cores := map[[2]int]bool{}
		sibSeen := false
		for _, x := range out[:len(out)-nz] {
			p, ok := m.pc[x]
			if !ok {
				p = [2]int{-1, x}
			}
			if cores[p] {
				sibSeen = true
			} else {
				if sibSeen {
					st.smtSiblingBeforeFreshCore.Add(1)
					break
				}
				cores[p] = true
			}
		}
	}
	return true
}

func c46Hashes(c *mc.Check) []uint64 {
	var hs []uint64
	for hi := uint64(0); hi <= mc.Pick(c, uint64(8), uint64(12)); hi++ {
		for lo := uint64(0); lo <= 3; lo++ {
			hs = append(hs, hi<<32|lo)
		}
	}
	for k := uint64(0); k < 8; k++ {
		hs = append(hs, splitmix64(4242+k))
	}
	hs = append(hs, ^uint64(0), 1<<63, 1<<32-1, 0xffffffff00000000)
	return hs
}

func c46Subsets(u []int) [][]int {
	var out [][]int
	for mask := 1; mask < 1<<len(u); mask++ {
		var s []int
		for i, c := range u {
			if mask&(1<<i) != 0 {
				s = append(s, c)
			}
		}
		out = append(out, s)
	}
	return out
}

func c46Equal(a, b []int) bool {
	if len(a) != len(b) {
		return false
	}
	for i := range a {
		if a[i] != b[i] {
			return false
		}
	}
	return true
}

// ---------------------------------------------------------------------------------------------------------------
// reference for the kernel's cpulist grammar (lib/bitmap.c bitmap_parselist, without the ":used/group", "all" and
// "N" extensions which sysfs never prints).

type c46Class int

const (
	c46Basic    c46Class = iota // items separated by single commas, no blanks: what sysfs prints, in any order
	c46Lenient                  // the kernel also takes runs of blanks/commas as separators (also leading/trailing)
	c46NotList                  // not in the kernel grammar
	c46TooLarge                 // syntactically fine but a number is >= 8192 (the largest NR_CPUS): kernel-config dependent
)

const c46MaxCPU = 8192

func c46RefParse(s string) (set map[int]bool, class c46Class) {
	set = map[int]bool{}
	class = c46Basic
	i := 0
	isSep := func(b byte) bool { return b == ',' || b == ' ' || b == '\t' || b == '\n' }
	num := func() (int, bool) {
		st := i
		v := 0
		for i < len(s) && s[i] >= '0' && s[i] <= '9' {
			if v < 1<<40 {
				v = v*10 + int(s[i]-'0')
			}
			i++
		}
		return v, i > st
	}
	first := true
	big := false
	for {
		// separator run
		st := i
		for i < len(s) && isSep(s[i]) {
			i++
		}
		run := s[st:i]
		if i == len(s) {
			if run != "" {
				class = c46Lenient // trailing separators (or nothing but separators)
			}
			break
		}
		if first {
			if run != "" {
				class = c46Lenient
			}
		} else if run != "," {
			if run == "" {
				return nil, c46NotList // two items glued together cannot happen: num() is greedy; defensive
			}
			class = c46Lenient
		}
		first = false
		lo, ok := num()
		if !ok {
			return nil, c46NotList
		}
		hi := lo
		if i < len(s) && s[i] == '-' {
			i++
			hi, ok = num()
			if !ok {
				return nil, c46NotList
			}
		}
		if i < len(s) && !isSep(s[i]) {
			return nil, c46NotList
		}
		if lo > hi {
			return nil, c46NotList
		}
		if hi >= c46MaxCPU {
			big = true
			continue
		}
		for v := lo; v <= hi; v++ {
			set[v] = true
		}
	}
	if big {
		return nil, c46TooLarge
	}
	return set, class
}

func TestVerifC46(t *testing.T) {
	c := mc.Begin(t, "C46", "exploration")
	defer c.End()
	st := &c46Stats{}

	// ---------------- Part A: arrange over fake-sysfs machines ----------------
	dense := []int{0, 1, 2, 3, 4, 5, 6, 7}
	sparse := []int{0, 2, 5, 9, 64, 65, 130, 255}
	noZero := []int{1, 2, 3, 4, 5, 6, 7, 8} // a machine view without any cpu0 directory
	var machines []*c46Machine
	machines = append(machines, c46Machines(dense, "cpus0-7")...)
	machines = append(machines, c46Machines(sparse, "sparse-ids")...)
	machines = append(machines, c46Machines(noZero, "cpus1-8-no-cpu0-dir")[1:6]...)
	if c.Thorough() {
		machines = append(machines, c46Machines([]int{0, 1, 2, 3, 4, 5, 6, 7, 8, 9, 10, 11}, "cpus0-11")...)
	}
	for _, m := range machines {
		m.materialize(t)
	}
	hashes := c46Hashes(c)
	maxRoutines := mc.Pick(c, 9, 13)
	c.Set("machines", len(machines))
	c.Set("hash_values", len(hashes))
	c.Set("routines", fmt.Sprintf("1..%d", maxRoutines))
	distinctOrders := &sync.Map{}
	var nOrders atomic.Int64

	mc.ParallelItems(len(machines), 0, nil, func(mi int, _ *mc.Enum) {
		m := machines[mi]
		for _, cands := range c46Subsets(m.universe) {
			topo := m.topology(cands)
			topo2 := m.topology(cands) // read a second time: "the same for the same key and topology"
			for routines := 1; routines <= maxRoutines; routines++ {
				orders := map[string]bool{}
				for _, h := range hashes {
					if c.Violations() > 100 {
						return
					}
					n := st.evals.Add(1)
					in := append([]int{}, cands...)
					out := arrange(in, topo, routines, h)
					if !c46Equal(in, cands) {
						c.Violation("arrange modifies the caller's candidate slice", map[string]any{"machine": m.name, "candidates": cands, "after": in})
					}
					if !c46CheckList(c, st, m, cands, cands, routines, h, out) {
						continue
					}
					again := arrange(append([]int{}, cands...), topo2, routines, h)
					if !c46Equal(out, again) {
						c.Violation("same key and topology give two different pin lists", map[string]any{"machine": m.name, "candidates": cands, "routines": routines, "hash": fmt.Sprintf("%#x", h), "first": out, "second": again})
					}
					orders[fmt.Sprint(out)] = true
					c.SampleEvery(n, func() any {
						return map[string]any{"machine": m.name, "candidates": cands, "routines": routines, "hash": fmt.Sprintf("%#x", h), "pin_list": out}
					})
				}
				if len(cands) >= 2 {
					nOrders.Add(int64(len(orders)))
				}
				for k := range orders {
					distinctOrders.LoadOrStore(m.name+k, true)
				}
			}
		}
	})

	// pickCandidates + perfCPUsFrom feeding arrange: the final list must stay inside allowed.
	pm := machines[2] // cpus0-7/2-numa-halves
	perfRoot := t.TempDir()
	type perfScenario struct {
		name      string
		dir, mask string
	}
	var perfScenarios []perfScenario
	{
		w := func(p, s string) {
			if err := os.MkdirAll(filepath.Dir(p), 0o755); err != nil {
				t.Fatal(err)
			}
			if err := os.WriteFile(p, []byte(s), 0o644); err != nil {
				t.Fatal(err)
			}
		}
		// big.LITTLE by cpu_capacity: cpus 0-3 little (400), 4-5 mid (800), 6-7 big (1024)
		d := filepath.Join(perfRoot, "capacity")
		for i, v := range []int{400, 400, 400, 400, 800, 800, 1024, 1024} {
			w(filepath.Join(d, fmt.Sprintf("cpu%d", i), "cpu_capacity"), fmt.Sprintf("%d\n", v))
		}
		perfScenarios = append(perfScenarios, perfScenario{"cpu_capacity", d, filepath.Join(perfRoot, "absent")})
		// Intel hybrid mask: P cores 0-3 (kernel list form)
		d2 := filepath.Join(perfRoot, "intel")
		w(filepath.Join(d2, "cpu_core_cpus"), "0-3\n")
		perfScenarios = append(perfScenarios, perfScenario{"intel_core_pmu", d2, filepath.Join(d2, "cpu_core_cpus")})
		// max_freq: 1,3,5,7 are compact cores
		d3 := filepath.Join(perfRoot, "freq")
		for i := 0; i < 8; i++ {
			v := 5000000
			if i%2 == 1 {
				v = 3500000
			}
			w(filepath.Join(d3, fmt.Sprintf("cpu%d", i), "cpufreq", "cpuinfo_max_freq"), fmt.Sprintf("%d\n", v))
		}
		perfScenarios = append(perfScenarios, perfScenario{"max_freq", d3, filepath.Join(perfRoot, "absent")})
		// nothing distinguishes the cores
		perfScenarios = append(perfScenarios, perfScenario{"none", filepath.Join(perfRoot, "empty"), filepath.Join(perfRoot, "absent")})
	}
	allowedSets := c46Subsets(dense)
	var topoMu sync.Mutex
	topoCache := map[string]topology{}
	pmTopo := func(cands []int) topology {
		k := fmt.Sprint(cands)
		topoMu.Lock()
		defer topoMu.Unlock()
		tp, ok := topoCache[k]
		if !ok {
			tp = pm.topology(cands)
			topoCache[k] = tp
		}
		return tp
	}
	mc.ParallelItems(len(allowedSets), 0, nil, func(ai int, _ *mc.Enum) {
		allowed := allowedSets[ai]
		for _, ps := range perfScenarios {
			st.perfEvals.Add(1)
			perf, _ := perfCPUsFrom(ps.dir, ps.mask, append([]int{}, allowed...))
			aset := c46Set(allowed)
			pseen := map[int]bool{}
			for _, x := range perf {
				if !aset[x] || pseen[x] {
					c.Violation("performance-core filter returns a CPU that is not allowed (or twice)", map[string]any{"signal": ps.name, "allowed": allowed, "returned": perf})
					break
				}
				pseen[x] = true
			}
			if len(perf) < len(allowed) {
				st.perfFiltered.Add(1)
			}
			for routines := 1; routines <= 9; routines++ {
				st.pickEvals.Add(1)
				cands := pickCandidates(append([]int{}, allowed...), append([]int{}, perf...), routines)
				switch {
				case c46Equal(cands, perf) && len(perf) < len(allowed):
					st.pickPerf.Add(1)
				case c46Equal(cands, allowed):
					st.pickAllowed.Add(1)
				default:
					c.Violation("pickCandidates returns neither the allowed list nor the performance-filtered list", map[string]any{"allowed": allowed, "perf": perf, "routines": routines, "returned": cands})
					continue
				}
				if len(cands) == 0 {
					continue
				}
				for _, h := range hashes[:8] {
					st.evals.Add(1)
					out := arrange(append([]int{}, cands...), pmTopo(cands), routines, h)
					c46CheckList(c, st, pm, allowed, cands, routines, h, out)
				}
			}
		}
	})

	// The machine this runs on (information + the simple invariants; the real topology is whatever it is).
	if allowed, err := util.AllowedCPUs(); err == nil && len(allowed) > 0 {
		aset := c46Set(allowed)
		live := 0
		for routines := 1; routines <= 4; routines++ {
			for key := uint64(4242); key < 4242+8; key++ {
				out := Default(routines, key, nil)
				if out == nil {
					continue
				}
				live++
				seen := map[int]bool{}
				for _, x := range out {
					if !aset[x] || seen[x] {
						c.Violation("Default on this machine returns a CPU that is not allowed (or twice)", map[string]any{"allowed": allowed, "routines": routines, "key": key, "returned": out})
						break
					}
					seen[x] = true
				}
				if seen[0] && out[len(out)-1] != 0 {
					c.Violation("Default on this machine: CPU 0 is in the pin list but not at the very end", map[string]any{"routines": routines, "key": key, "returned": out})
				}
				if again := Default(routines, key, nil); !c46Equal(out, again) {
					c.Violation("Default on this machine: same key gives two different pin lists", map[string]any{"routines": routines, "key": key, "first": out, "second": again})
				}
			}
		}
		c.Set("live_machine_default_calls", live)
		c.Set("live_machine_allowed_cpus", len(allowed))
	}

	// ---------------- Part B: parseCPUList ----------------
	var parseEvals, roundTrips, basicN, lenientAgree, lenientRejected, notListAccepted, notListRejected, tooLarge, dupOut atomic.Int64
	bits := mc.Pick(c, 12, 16)
	mc.ParallelItems(16, 0, nil, func(shard int, _ *mc.Enum) {
		for mask := shard; mask < 1<<bits; mask += 16 {
			var cpus []int
			for b := 0; b < bits; b++ {
				if mask&(1<<b) != 0 {
					cpus = append(cpus, b)
				}
			}
			// also shifted up so that multi-digit numbers and word boundaries appear
			for _, shift := range []int{0, 58, 1017} {
				want := make([]int, len(cpus))
				for i, v := range cpus {
					want[i] = v + shift
				}
				s := c46Render(want)
				parseEvals.Add(1)
				roundTrips.Add(1)
				got, err := parseCPUList(s)
				if err != nil {
					c.Violation("parseCPUList rejects a list in the kernel's own print format", map[string]any{"input": s, "error": err.Error()})
					continue
				}
				if !c46Equal(got, want) {
					c.Violation("parseCPUList returns other CPUs than the kernel-printed list names", map[string]any{"input": s, "want": want, "got": got})
				}
			}
		}
	})
	alpha := []byte{'0', '1', '9', '-', ',', ' ', '+', 'a'}
	if c.Thorough() {
		alpha = append(alpha, '3')
	}
	maxLen := mc.Pick(c, 5, 6)
	c.Set("parse_alphabet", string(alpha))
	c.Set("parse_max_len", maxLen)
	c.Set("parse_bitmap_bits", bits)
	var strs []string
	var genS func(p []byte)
	genS = func(p []byte) {
		strs = append(strs, string(p))
		if len(p) == maxLen {
			return
		}
		for _, b := range alpha {
			genS(append(p, b))
		}
	}
	genS(nil)
	var sampleLenient, sampleNotList sync.Once
	mc.ParallelItems(16, 0, nil, func(shard int, _ *mc.Enum) {
		for i := shard; i < len(strs); i += 16 {
			s := strs[i]
			parseEvals.Add(1)
			want, class := c46RefParse(s)
			got, err := parseCPUList(s)
			gotSet := c46Set(got)
			if len(gotSet) != len(got) {
				dupOut.Add(1)
			}
			same := func() bool {
				if len(gotSet) != len(want) {
					return false
				}
				for v := range want {
					if !gotSet[v] {
						return false
					}
				}
				return true
			}
			switch class {
			case c46Basic:
				basicN.Add(1)
				if err != nil {
					c.Violation("parseCPUList rejects a well-formed cpulist (numbers and lo-hi ranges separated by commas)", map[string]any{"input": s, "error": err.Error()})
				} else if !same() {
					c.Violation("parseCPUList returns a different CPU set than the kernel grammar for a well-formed cpulist", map[string]any{"input": s, "got": got, "want": c46Keys(want)})
				}
			case c46Lenient:
				if err != nil {
					lenientRejected.Add(1)
				} else if !same() {
					c.Violation("parseCPUList accepts a blank/comma-padded cpulist but returns a different CPU set than the kernel", map[string]any{"input": s, "got": got, "want": c46Keys(want)})
				} else {
					lenientAgree.Add(1)
					sampleLenient.Do(func() {
						c.Sample(map[string]any{"input": s, "class": "kernel-lenient, accepted, same set", "got": got})
					})
				}
			case c46NotList:
				if err == nil {
					notListAccepted.Add(1)
					if c.Distinct("accepted_outside_kernel_grammar_shape", c46Shape(s)) && c.DistinctCount("accepted_outside_kernel_grammar_shape") <= 12 {
						fmt.Printf("INFO property=C46 parseCPUList accepts %q (not in the kernel grammar) as %v\n", s, got)
					}
					sampleNotList.Do(func() {
						c.Sample(map[string]any{"input": s, "class": "not kernel grammar, accepted (information)", "got": got})
					})
				} else {
					notListRejected.Add(1)
				}
			case c46TooLarge:
				tooLarge.Add(1)
			}
		}
	})

	if c.Violations() == 0 {
		c.Require(st.nodeChosen.Load() > 0 && st.spanAll.Load() > 0, "node outcomes: chosen=%d span=%d", st.nodeChosen.Load(), st.spanAll.Load())
		c.Require(st.zeroTailSiblings.Load() > 0 && st.zeroAbsentSiblingDemoted.Load() > 0 && st.zeroOnly.Load() > 0 && st.zeroLastPlain.Load() > 0,
			"CPU0 outcomes: tail with siblings=%d, sibling demoted without cpu0=%d, only cpu0=%d, plain=%d", st.zeroTailSiblings.Load(), st.zeroAbsentSiblingDemoted.Load(), st.zeroOnly.Load(), st.zeroLastPlain.Load())
		c.Require(st.pickPerf.Load() > 0 && st.pickAllowed.Load() > 0 && st.perfFiltered.Load() > 0, "pickCandidates outcomes: perf=%d allowed=%d filtered=%d", st.pickPerf.Load(), st.pickAllowed.Load(), st.perfFiltered.Load())
		c.Require(basicN.Load() > 100 && notListRejected.Load() > 100 && lenientAgree.Load()+lenientRejected.Load() > 0, "parse classes: basic=%d rejected-nonlist=%d lenient=%d", basicN.Load(), notListRejected.Load(), lenientAgree.Load()+lenientRejected.Load())
	}
	orders := 0
	distinctOrders.Range(func(_, _ any) bool { orders++; return true })
	c.Set("evaluations", st.evals.Load()+parseEvals.Load()+st.pickEvals.Load()+st.perfEvals.Load())
	c.Set("distinct_nontrivial", int64(orders)+basicN.Load()+lenientAgree.Load()+notListAccepted.Load()+roundTrips.Load())
	c.Set("rule", "distinct (machine, pin list) results of arrange + cpulist strings accepted by the implementation or by the basic kernel grammar + kernel-printed bitmaps round-tripped")
	c.Set("arrange_calls", st.evals.Load())
	c.Set("arrange_distinct_pin_lists", orders)
	c.Set("arrange_confined_to_one_node", st.nodeChosen.Load())
	c.Set("arrange_spans_all_nodes", st.spanAll.Load())
	c.Set("cpu0_tail_with_siblings", st.zeroTailSiblings.Load())
	c.Set("cpu0_absent_sibling_demoted", st.zeroAbsentSiblingDemoted.Load())
	c.Set("info_smt_sibling_listed_before_an_unused_core", st.smtSiblingBeforeFreshCore.Load())
	c.Set("pick_candidates_calls", st.pickEvals.Load())
	c.Set("pick_candidates_took_perf", st.pickPerf.Load())
	c.Set("perf_filter_calls", st.perfEvals.Load())
	c.Set("parse_calls", parseEvals.Load())
	c.Set("parse_kernel_printed_bitmaps", roundTrips.Load())
	c.Set("parse_basic_grammar_strings", basicN.Load())
	c.Set("parse_lenient_kernel_strings_accepted_same_set", lenientAgree.Load())
	c.Set("info_parse_kernel_accepts_impl_rejects", lenientRejected.Load())
	c.Set("info_parse_impl_accepts_outside_kernel_grammar", notListAccepted.Load())
	c.Set("parse_rejected_non_lists", notListRejected.Load())
	c.Set("parse_skipped_number_ge_8192", tooLarge.Load())
	c.Set("info_parse_outputs_with_duplicates", dupOut.Load())
	c.Assume("which candidates count: pickCandidates may return either the allowed list or the performance-filtered list (the statement does not fix the rule); the pin list is then judged against the list it returned and must stay inside allowed")
	c.Assume("'chosen NUMA node' = any node holding at least `routines` candidates; which one the key selects is not demanded, only that the same key gives the same list")
	c.Assume("CPU 0's physical core = CPUs whose (physical_package_id, core_id) equal CPU 0's when both are readable; with flatTopology only CPU 0 itself")
	c.Assume("SMT spreading (one thread per core first) is not part of the statement: counted as information only")
	c.Assume("cpulist grammar: must-accept set = numbers and lo<=hi ranges separated by single commas (superset of what sysfs prints); strings the kernel additionally tolerates (blank/comma runs) need not be accepted but if accepted must mean the same set; acceptance outside the kernel grammar (e.g. '+3') is reported as information; numbers >= 8192 skipped; the ':used/group', 'all' and 'N' extensions of the kernel's input grammar never appear in sysfs output and are not demanded")
}

func c46Keys(m map[int]bool) []int {
	out := make([]int, 0, len(m))
	for k := range m {
		out = append(out, k)
	}
	sort.Ints(out)
	return out
}

// c46Shape abstracts a string to its character classes (digit runs -> 'd', blank/comma runs -> ',') so that INFO lines
// stay few.
func c46Shape(s string) string {
	var out []byte
	for i := 0; i < len(s); i++ {
		b := s[i]
		switch {
		case b >= '0' && b <= '9':
			b = 'd'
		case b == ' ' || b == ',':
			b = ','
		}
		if (b == 'd' || b == ',') && len(out) > 0 && out[len(out)-1] == b {
			continue
		}
		out = append(out, b)
	}
	return strings.Trim(string(out), ",")
}
