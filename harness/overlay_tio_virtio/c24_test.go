//go:build verif && linux && !android

package virtio

import (
	"bytes"
	"encoding/binary"
	"fmt"
	"runtime"
	"sync"
	"sync/atomic"
	"syscall"
	"testing"

	"golang.org/x/sys/unix"

	"github.com/slackhq/nebula/zzverif/mc"
)

// C24 — splitting a TSO/USO superpacket yields valid original segments.
//
// Engine E3. Superpackets are built from a spec (IP shape x L4 shape x gso size x payload length x TCP flags x
// seq/ID/address variant x payload pattern x what the kernel left in the checksum fields), pushed through the same
// steps tio.Offload.decodeRead + tio.SegmentSuperpacket perform (CheckValid, CorrectHdrLen with an untrustworthy
// hdr_len, SegmentTCP/SegmentUDP) and every yielded segment is decoded independently:
// payload concatenation, per-segment size, IP/TCP/UDP checksums recomputed from scratch with a byte-pair loop
// (not with overlay/checksum), lengths, seq advance, CWR/FIN/PSH placement, IPv4 ID increment, constant fields.

const (
	c24IPv4a = iota // IHL 5
	c24IPv4b        // IHL 6
	c24IPv4c        // IHL 15
	c24IPv6         // fixed header only
	c24IPv6x        // fixed header + 8-byte destination-options header
	c24nIP
)

const (
	c24TCP5 = iota
	c24TCP8
	c24TCP15
	c24UDP
	c24nL4
)

var c24ipNames = []string{"v4/ihl5", "v4/ihl6", "v4/ihl15", "v6", "v6+dstopt"}
var c24l4Names = []string{"tcp/doff5", "tcp/doff8", "tcp/doff15", "udp"}

type c24spec struct {
	ip, l4  int
	gso     int
	payLen  int
	flags   byte
	variant int // 0..3: seq / IPv4 ID / address set
	pattern int
	csumVar int // what is found in the checksum fields of the superpacket
}

var c24seqs = []uint32{0, 1, 0xfffe, 0xfffffffe}
var c24ids = []uint16{0, 1, 0xfffe, 0xffff}

func c24payByte(pattern, i int) byte {
	switch pattern {
	case 0:
		return 0
	case 1:
		return 0xff
	case 2:
		return byte(i)
	default:
		x := uint32(i)*2654435761 ^ 0x5bd1e995
		x ^= x >> 13
		x *= 2246822519
		x ^= x >> 16
		return byte(x)
	}
}

// c24sum is the independent RFC 1071 byte-pair accumulator (unfolded).
func c24sum(b []byte, acc uint64) uint64 {
	i := 0
	for ; i+1 < len(b); i += 2 {
		acc += uint64(b[i])<<8 | uint64(b[i+1])
	}
	if i < len(b) {
		acc += uint64(b[i]) << 8
	}
	return acc
}

func c24fold(acc uint64) uint16 {
	for acc>>16 != 0 {
		acc = (acc & 0xffff) + (acc >> 16)
	}
	return uint16(acc)
}

type c24super struct {
	pkt       []byte
	ipLen     int // = csum_start
	hdrLen    int // ipLen + L4 header
	isV4      bool
	isTCP     bool
	gsoType   uint8
	csumOff   uint16
	l4HdrLen  int
	fixedIPv6 bool
}

func c24build(s c24spec, buf []byte) c24super {
	var ipLen int
	switch s.ip {
	case c24IPv4a:
		ipLen = 20
	case c24IPv4b:
		ipLen = 24
	case c24IPv4c:
		ipLen = 60
	case c24IPv6:
		ipLen = 40
	case c24IPv6x:
		ipLen = 48
	}
	l4 := 8
	switch s.l4 {
	case c24TCP5:
		l4 = 20
	case c24TCP8:
		l4 = 32
	case c24TCP15:
		l4 = 60
	}
	isTCP := s.l4 != c24UDP
	isV4 := s.ip <= c24IPv4c
	total := ipLen + l4 + s.payLen
	pkt := buf[:total]
	for i := range pkt[:ipLen+l4] {
		pkt[i] = 0
	}
	proto := byte(unix.IPPROTO_UDP)
	if isTCP {
		proto = unix.IPPROTO_TCP
	}
	var src, dst []byte
	if isV4 {
		pkt[0] = 0x40 | byte(ipLen/4)
		pkt[1] = 0x02 // ECT(0)
		binary.BigEndian.PutUint16(pkt[2:4], uint16(total))
		binary.BigEndian.PutUint16(pkt[4:6], c24ids[s.variant])
		binary.BigEndian.PutUint16(pkt[6:8], 0x4000)
		pkt[8] = 64
		pkt[9] = proto
		if s.variant == 3 {
			copy(pkt[12:16], []byte{255, 255, 255, 255})
			copy(pkt[16:20], []byte{255, 254, 255, 255})
		} else {
			copy(pkt[12:16], []byte{10, 0, 0, 1})
			copy(pkt[16:20], []byte{10, 0, byte(s.variant), 2})
		}
		for i := 20; i < ipLen; i++ {
			pkt[i] = 0x01 // NOP options
		}
		if ipLen > 20 {
			pkt[ipLen-1] = 0x00 // end of option list
			if ipLen > 24 {
				// a router-alert option so the option area is not uniform
				copy(pkt[20:24], []byte{0x94, 0x04, 0xab, 0xcd})
			}
		}
		src, dst = pkt[12:16], pkt[16:20]
	} else {
		pkt[0] = 0x60
		pkt[1] = 0x2a // traffic class / flow label bits
		pkt[2], pkt[3] = 0xbc, 0xde
		binary.BigEndian.PutUint16(pkt[4:6], uint16(total-40))
		pkt[6] = proto
		pkt[7] = 64
		for i := 8; i < 40; i++ {
			pkt[i] = byte(0xfd + i)
			if s.variant == 3 {
				pkt[i] = 0xff
			}
		}
		pkt[39] = byte(s.variant + 1)
		if s.ip == c24IPv6x {
			pkt[6] = 60 // destination options
			copy(pkt[40:48], []byte{proto, 0, 1, 4, 0, 0, 0, 0})
		}
		src, dst = pkt[8:24], pkt[24:40]
	}
	t := pkt[ipLen:]
	binary.BigEndian.PutUint16(t[0:2], 12345)
	binary.BigEndian.PutUint16(t[2:4], 80)
	csumAt := 6
	if isTCP {
		binary.BigEndian.PutUint32(t[4:8], c24seqs[s.variant])
		binary.BigEndian.PutUint32(t[8:12], 0x01020304)
		t[12] = byte(l4/4) << 4
		t[13] = s.flags
		binary.BigEndian.PutUint16(t[14:16], 0xfff0)
		binary.BigEndian.PutUint16(t[18:20], 0x0007) // urgent pointer (meaningful only with URG; constant field)
		for i := 20; i < l4; i++ {
			t[i] = 0x01
		}
		if l4 >= 32 {
			copy(t[20:32], []byte{0x01, 0x01, 0x08, 0x0a, 0xde, 0xad, 0xbe, 0xef, 0x00, 0x00, 0x12, 0x34})
		}
		csumAt = 16
	} else {
		binary.BigEndian.PutUint16(t[4:6], uint16(l4+s.payLen))
	}
	pay := pkt[ipLen+l4:]
	for i := range pay {
		pay[i] = c24payByte(s.pattern, i+s.variant)
	}
	// what the kernel leaves in the checksum fields: csumVar 0 = NEEDS_CSUM pseudo-header partial and a valid IPv4
	// header checksum (the documented contract); 1 = zeros; 2 = 0xffff garbage. The result must not depend on it.
	switch s.csumVar {
	case 0:
		ps := c24sum(src, 0)
		ps = c24sum(dst, ps)
		ps += uint64(proto) + uint64(l4+s.payLen)
		binary.BigEndian.PutUint16(t[csumAt:csumAt+2], c24fold(ps))
		if isV4 {
			binary.BigEndian.PutUint16(pkt[10:12], ^c24fold(c24sum(pkt[:ipLen], 0)))
		}
	case 1:
	case 2:
		t[csumAt], t[csumAt+1] = 0xff, 0xff
		if isV4 {
			pkt[10], pkt[11] = 0xff, 0xff
		}
	}
	out := c24super{pkt: pkt, ipLen: ipLen, hdrLen: ipLen + l4, isV4: isV4, isTCP: isTCP, l4HdrLen: l4, csumOff: uint16(csumAt)}
	switch {
	case !isTCP:
		out.gsoType = unix.VIRTIO_NET_HDR_GSO_UDP_L4
	case isV4:
		out.gsoType = unix.VIRTIO_NET_HDR_GSO_TCPV4
	default:
		out.gsoType = unix.VIRTIO_NET_HDR_GSO_TCPV6
	}
	return out
}

type c24worker struct {
	c       *mc.Check
	buf     []byte
	orig    []byte
	segs    [][]byte
	segBuf  []byte
	evals   int64
	multi   int64 // superpackets that really split into >= 2 segments
	segsOut int64
	wraps   int64 // seq or ID wrapped inside a superpacket
	oddTail int64
	nviol   *atomic.Int64
}

func (w *c24worker) viol(sig string, s c24spec, extra map[string]any) {
	if w.nviol.Add(1) > 200 {
		return
	}
	d := map[string]any{"ip": c24ipNames[s.ip], "l4": c24l4Names[s.l4], "gso": s.gso, "payload_len": s.payLen, "flags": fmt.Sprintf("%#02x", s.flags),
		"seq0": c24seqs[s.variant], "id0": c24ids[s.variant], "variant": s.variant, "pattern": s.pattern, "csum_field_variant": s.csumVar}
	for k, v := range extra {
		d[k] = v
	}
	w.c.Violation(sig, d)
}

// check runs one superpacket through the production steps and verifies every segment.
func (w *c24worker) check(s c24spec) {
	sp := c24build(s, w.buf)
	w.evals++
	w.orig = append(w.orig[:0], sp.pkt...)
	orig := w.orig
	fam := "TCP"
	if !sp.isTCP {
		fam = "UDP"
	}
	ipf := "IPv6"
	if sp.isV4 {
		ipf = "IPv4"
	}

	// --- what tio.Offload.decodeRead does before handing the packet on
	gsoType := sp.gsoType
	if sp.isTCP && s.flags&0x80 != 0 {
		gsoType |= unix.VIRTIO_NET_HDR_GSO_ECN // the kernel sets the ECN qualifier on CWR superpackets
	}
	kernelHdrLen := uint16(sp.hdrLen)
	switch s.pattern {
	case 1:
		kernelHdrLen = uint16(len(sp.pkt)) // FORWARD path: hdr_len = whole first packet
	case 2:
		kernelHdrLen = 0
	}
	hdr := NewHeader(unix.VIRTIO_NET_HDR_F_NEEDS_CSUM, gsoType, kernelHdrLen, uint16(s.gso), uint16(sp.ipLen), sp.csumOff)
	if err := CheckValid(sp.pkt, hdr); err != nil {
		w.viol(fam+"/"+ipf+": CheckValid rejects a well-formed superpacket", s, map[string]any{"error": err.Error()})
		return
	}
	if err := CorrectHdrLen(sp.pkt, &hdr); err != nil {
		w.viol(fam+"/"+ipf+": CorrectHdrLen rejects a well-formed superpacket", s, map[string]any{"error": err.Error()})
		return
	}
	if int(hdr.HdrLen) != sp.hdrLen {
		w.viol(fam+"/"+ipf+": CorrectHdrLen computes a wrong header length", s, map[string]any{"got": hdr.HdrLen, "want": sp.hdrLen})
		return
	}

	// --- segmentation (tio.SegmentSuperpacket dispatches on Proto to exactly these two)
	w.segs = w.segs[:0]
	w.segBuf = w.segBuf[:0]
	yield := func(seg []byte) error {
		st := len(w.segBuf)
		w.segBuf = append(w.segBuf, seg...)
		w.segs = append(w.segs, w.segBuf[st:len(w.segBuf):len(w.segBuf)])
		return nil
	}
	var err error
	if sp.isTCP {
		err = SegmentTCP(sp.pkt, hdr.HdrLen, hdr.CsumStart, hdr.GSOSize, yield)
	} else {
		err = SegmentUDP(sp.pkt, hdr.HdrLen, hdr.CsumStart, hdr.GSOSize, yield)
	}
	if err != nil {
		w.viol(fam+"/"+ipf+": segmenter returns an error for a well-formed superpacket", s, map[string]any{"error": err.Error()})
		return
	}
	// w.segBuf may have been reallocated while growing: re-slice the segments from the final buffer
	{
		off := 0
		for i := range w.segs {
			n := len(w.segs[i])
			w.segs[i] = w.segBuf[off : off+n]
			off += n
		}
	}
	if len(w.segs) == 0 {
		w.viol(fam+"/"+ipf+": no segment yielded", s, nil)
		return
	}
	if len(w.segs) > 1 {
		w.multi++
	}
	w.segsOut += int64(len(w.segs))
	if s.payLen%2 == 1 {
		w.oddTail++
	}

	hl := sp.hdrLen
	origPay := orig[hl:]
	off := 0
	seq0 := c24seqs[s.variant]
	id0 := c24ids[s.variant]
	nseg := len(w.segs)
	if sp.isTCP && uint64(seq0)+uint64(s.payLen) > 0xffffffff && nseg > 1 {
		w.wraps++
	}
	if sp.isV4 && int(id0)+nseg-1 > 0xffff {
		w.wraps++
	}
	for i, seg := range w.segs {
		if len(seg) < hl {
			w.viol(fam+"/"+ipf+": segment shorter than its headers", s, map[string]any{"segment": i, "len": len(seg)})
			return
		}
		pay := seg[hl:]
		if len(pay) > s.gso {
			w.viol(fam+"/"+ipf+": segment payload exceeds the segment size", s, map[string]any{"segment": i, "payload": len(pay)})
			return
		}
		if off+len(pay) > len(origPay) || !bytes.Equal(pay, origPay[off:off+len(pay)]) {
			w.viol(fam+"/"+ipf+": segment payloads do not concatenate to the original payload", s, map[string]any{"segment": i, "offset": off})
			return
		}
		// lengths
		if sp.isV4 {
			if int(binary.BigEndian.Uint16(seg[2:4])) != len(seg) {
				w.viol(fam+"/IPv4: total length field wrong", s, map[string]any{"segment": i, "field": binary.BigEndian.Uint16(seg[2:4]), "len": len(seg)})
			}
			if got, want := binary.BigEndian.Uint16(seg[4:6]), id0+uint16(i); got != want {
				w.viol(fam+"/IPv4: ID not incrementing per segment", s, map[string]any{"segment": i, "got": got, "want": want})
			}
			if c24fold(c24sum(seg[:sp.ipLen], 0)) != 0xffff {
				w.viol(fam+"/IPv4: header checksum invalid", s, map[string]any{"segment": i, "segments": nseg})
			}
		} else {
			if int(binary.BigEndian.Uint16(seg[4:6])) != len(seg)-40 {
				w.viol(fam+"/IPv6: payload length field wrong", s, map[string]any{"segment": i, "field": binary.BigEndian.Uint16(seg[4:6]), "len": len(seg)})
			}
		}
		t := seg[sp.ipLen:]
		l4len := len(seg) - sp.ipLen
		// pseudo header from this segment's own addresses
		var ps uint64
		proto := uint64(unix.IPPROTO_UDP)
		if sp.isTCP {
			proto = unix.IPPROTO_TCP
		}
		if sp.isV4 {
			ps = c24sum(seg[12:20], 0)
		} else {
			ps = c24sum(seg[8:40], 0)
		}
		ps += proto + uint64(l4len)
		if c24fold(c24sum(t, ps)) != 0xffff {
			w.viol(fam+"/"+ipf+": transport checksum invalid", s, map[string]any{"segment": i, "segments": nseg, "l4len": l4len})
		}
		if sp.isTCP {
			if got, want := binary.BigEndian.Uint32(t[4:8]), seq0+uint32(off); got != want {
				w.viol("TCP/"+ipf+": sequence number does not advance by payload", s, map[string]any{"segment": i, "got": got, "want": want})
			}
			fl := t[13]
			if i != 0 && fl&0x80 != 0 {
				w.viol("TCP/"+ipf+": CWR on a non-first segment", s, map[string]any{"segment": i})
			}
			if i != nseg-1 && fl&0x09 != 0 {
				w.viol("TCP/"+ipf+": FIN or PSH on a non-last segment", s, map[string]any{"segment": i, "flags": fl})
			}
			want := s.flags
			if i != 0 {
				want &^= 0x80
			}
			if i != nseg-1 {
				want &^= 0x09
			}
			if fl != want {
				w.viol("TCP/"+ipf+": flags byte differs from the original beyond CWR/FIN/PSH placement", s, map[string]any{"segment": i, "got": fl, "want": want})
			}
		} else {
			if int(binary.BigEndian.Uint16(t[4:6])) != l4len {
				w.viol("UDP/"+ipf+": UDP length field wrong", s, map[string]any{"segment": i, "field": binary.BigEndian.Uint16(t[4:6]), "l4len": l4len})
			}
			if t[6] == 0 && t[7] == 0 {
				w.viol("UDP/"+ipf+": computed checksum transmitted as zero (means 'no checksum')", s, map[string]any{"segment": i})
			}
		}
		// every other header byte is constant
		if !c24constEqual(seg[:hl], orig[:hl], sp) {
			w.viol(fam+"/"+ipf+": a constant header field differs from the superpacket's", s, map[string]any{"segment": i, "got": fmt.Sprintf("%x", seg[:hl]), "orig": fmt.Sprintf("%x", orig[:hl])})
		}
		off += len(pay)
	}
	if off != len(origPay) {
		w.viol(fam+"/"+ipf+": payload bytes lost (segments end before the original payload does)", s, map[string]any{"delivered": off, "original": len(origPay)})
	}
	if w.evals&(w.evals-1) == 0 && w.evals >= 1024 {
		w.c.Sample(map[string]any{"ip": c24ipNames[s.ip], "l4": c24l4Names[s.l4], "gso": s.gso, "payload_len": s.payLen, "flags": s.flags, "segments": nseg, "last_segment_len": len(w.segs[nseg-1])})
	}
}

// c24constEqual compares the header bytes that segmentation must not touch.
func c24constEqual(a, b []byte, sp c24super) bool {
	skip := func(i int) bool {
		if sp.isV4 {
			if (i >= 2 && i < 6) || i == 10 || i == 11 {
				return true
			}
		} else if i == 4 || i == 5 {
			return true
		}
		j := i - sp.ipLen
		if j < 0 {
			return false
		}
		if sp.isTCP {
			return (j >= 4 && j < 8) || j == 13 || j == 16 || j == 17
		}
		return j >= 4 && j < 8
	}
	for i := range a {
		if !skip(i) && a[i] != b[i] {
			return false
		}
	}
	return true
}

type c24item struct {
	ip, l4, gso    int
	lenLo, lenHi   int
	flags          []byte
	bflags         []byte // flags used at boundary payload lengths (multiples of gso +-1, 0, 1)
	patterns       []int
	variants       []int
	csumVars       []int
	large          bool
}

func TestVerifC24(t *testing.T) {
	c := mc.Begin(t, "C24", "exploration")
	defer c.End()

	allFlags := make([]byte, 256)
	for i := range allFlags {
		allFlags[i] = byte(i)
	}
	someFlags := []byte{0x10, 0x18, 0x11, 0x19, 0x90, 0x98, 0x99, 0xd9, 0x50, 0x02, 0x12, 0x04, 0x38, 0xff, 0x00, 0x80}
	gsos := []int{1, 2, 3, 7, 8, 63, 64, 65, 1448}
	var items []c24item
	for ip := 0; ip < c24nIP; ip++ {
		for l4 := 0; l4 < c24nL4; l4++ {
			for _, gso := range gsos {
				maxLen := 3*gso + 1
				step := 64
				for lo := 0; lo <= maxLen; lo += step {
					hi := lo + step - 1
					if hi > maxLen {
						hi = maxLen
					}
					it := c24item{ip: ip, l4: l4, gso: gso, lenLo: lo, lenHi: hi, variants: []int{0, 1, 2, 3}}
					if l4 == c24UDP {
						it.flags = []byte{0}
						it.patterns = []int{0, 1, 2, 3}
						it.csumVars = []int{0, 1, 2}
					} else {
						it.patterns = []int{0, 1, 2}
						it.csumVars = []int{0}
						it.bflags = allFlags
						switch {
						case c.Thorough() || gso <= 8:
							it.flags = allFlags
						case gso <= 65:
							it.flags = someFlags
						default:
							it.flags = []byte{0x18, 0xd9}
							it.patterns = []int{2}
						}
					}
					items = append(items, it)
					if l4 != c24UDP {
						// checksum-field garbage variants on a reduced flag set
						it2 := it
						it2.flags = someFlags[:6]
						it2.bflags = nil
						if !c.Thorough() && gso > 8 {
							it2.flags = someFlags[3:5]
						}
						it2.csumVars = []int{1, 2}
						it2.patterns = []int{3}
						items = append(items, it2)
					}
				}
			}
			// large superpackets: up to the 65535-byte ceiling, many segments, huge gso
			for _, gso := range []int{1, 9, 536, 1448, 8960, 65535} {
				it := c24item{ip: ip, l4: l4, gso: gso, large: true, variants: []int{2, 3}, patterns: []int{1, 3}, csumVars: []int{0}, flags: []byte{0x10, 0x99, 0xd9}}
				if l4 == c24UDP {
					it.flags = []byte{0}
				}
				items = append(items, it)
			}
		}
	}

	workers := runtime.GOMAXPROCS(0)
	var next, nviol atomic.Int64
	var mu sync.Mutex
	var tot c24worker
	var wg sync.WaitGroup
	for wi := 0; wi < workers; wi++ {
		wg.Add(1)
		go func() {
			defer wg.Done()
			w := &c24worker{c: c, buf: make([]byte, 65536), nviol: &nviol}
			for {
				i := int(next.Add(1) - 1)
				if i >= len(items) || nviol.Load() > 200 {
					break
				}
				if c.OutOfTime() {
					c.Capped("soft time budget")
					break
				}
				it := items[i]
				s := c24spec{ip: it.ip, l4: it.l4, gso: it.gso}
				lens := []int{}
				if it.large {
					hl := []int{20, 24, 60, 40, 48}[it.ip] + []int{20, 32, 60, 8}[it.l4]
					for _, tl := range []int{65535, 65534, 40001} {
						lens = append(lens, tl-hl)
					}
					if it.gso > 1 {
						lens = append(lens, it.gso, it.gso-1, it.gso+1)
					}
					keep := lens[:0]
					for _, l := range lens {
						if l >= 0 && l+hl <= 65535 {
							keep = append(keep, l)
						}
					}
					lens = keep
				} else {
					for l := it.lenLo; l <= it.lenHi; l++ {
						lens = append(lens, l)
					}
				}
				for _, l := range lens {
					s.payLen = l
					fl := it.flags
					if it.bflags != nil && !it.large {
						if r := l % it.gso; l <= 1 || r <= 1 || r == it.gso-1 {
							fl = it.bflags
						}
					}
					for _, f := range fl {
						s.flags = f
						for _, v := range it.variants {
							s.variant = v
							for _, p := range it.patterns {
								s.pattern = p
								for _, cv := range it.csumVars {
									s.csumVar = cv
									w.check(s)
								}
							}
						}
					}
				}
			}
			mu.Lock()
			tot.evals += w.evals
			tot.multi += w.multi
			tot.segsOut += w.segsOut
			tot.wraps += w.wraps
			tot.oddTail += w.oddTail
			mu.Unlock()
		}()
	}
	wg.Wait()

	c.Set("cpu_seconds", float64(int(c24cpu()*10))/10)
	c.Set("evaluations", tot.evals)
	c.Set("distinct_nontrivial", tot.multi)
	c.Set("rule", "one evaluation = one distinct superpacket spec (IP shape, L4 shape, gso size, payload length, flags, seq/ID/address variant, payload pattern, checksum-field content); non-trivial = the segmenter yielded at least two segments")
	c.Set("segments_verified", tot.segsOut)
	c.Set("superpackets_with_seq_or_id_wrap", tot.wraps)
	c.Set("superpackets_with_odd_payload", tot.oddTail)
	c.Set("ip_shapes", c24ipNames)
	c.Set("l4_shapes", c24l4Names)
	c.Set("gso_sizes", gsos)
	c.Set("tcp_flag_values", map[string]any{"gso<=8": 256, "boundary_lengths(0,1,k*gso-1,k*gso,k*gso+1)": 256, "gso_63..65_other_lengths": mc.Pick(c, 16, 256), "gso_1448_other_lengths": mc.Pick(c, 2, 256)})
	c.Set("work_items", len(items))
	if nviol.Load() == 0 && !c.OutOfTime() {
		c.Require(tot.multi > 0 && tot.multi < tot.evals, "both single-segment and multi-segment superpackets must occur (multi=%d of %d)", tot.multi, tot.evals)
		c.Require(tot.wraps > 0, "no seq/ID wrap inside a superpacket was exercised")
		c.Require(tot.oddTail > 0, "no odd payload length exercised")
	}
	c.Assume("checksums are verified the way a receiver does (one's-complement sum over pseudo-header + segment == 0xffff; UDP additionally non-zero): 0x0000 and 0xffff encodings of the same TCP/IPv4 checksum are both accepted")
	c.Assume("'at most the segment size' is taken literally: non-final segments are not required to be exactly gso bytes; at least one segment is required even for a header-only superpacket")
	c.Assume("header bytes other than lengths, IPv4 ID/checksum, TCP seq/flags/checksum, UDP length/checksum must equal the superpacket's (reading of 'original segments'); the last segment keeps the original FIN/PSH, the first the original CWR")
	c.Assume("only well-formed superpackets (csum_start = real L3 header length, consistent data offset) are enumerated; hdr_len as supplied by the kernel is NOT trusted (true value, whole-packet length, 0)")
}

// c24cpu returns the CPU seconds (user+system) this process has consumed: wall time is meaningless on a shared machine.
func c24cpu() float64 {
	var ru syscall.Rusage
	if syscall.Getrusage(syscall.RUSAGE_SELF, &ru) != nil {
		return 0
	}
	return float64(ru.Utime.Sec+ru.Stime.Sec) + float64(ru.Utime.Usec+ru.Stime.Usec)/1e6
}
