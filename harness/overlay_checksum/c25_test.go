//go:build verif

package checksum

import (
	"fmt"
	"runtime"
	"runtime/debug"
	"sync"
	"sync/atomic"
	"syscall"
	"testing"

	"github.com/slackhq/nebula/zzverif/mc"
)

// C25 — the accelerated (AVX2) Internet checksum equals the RFC 1071 one's-complement sum.
//
// Engine E3: bounded-exhaustive enumeration of (content, length, start alignment, seed) against a byte-pair loop.
//   (i)   every buffer of length 0, 1 and 2 (all byte values) x every 16-bit seed (thorough: the full 2^32 product for
//         length 2; quick: 256 seeds for length 2), plus every length-3 buffer x boundary seeds in thorough;
//   (ii)  every length 0..L x every start offset 0..63 inside a page-aligned arena x boundary seeds x content patterns
//         (zeros, 0xff, 0xff00.., 0x00ff.., ramp, two fixed pseudo-random fills, a single 0xff at each of the first /
//         last 70 positions); the bytes around the slice are poisoned (non-zero) so an over/under-read changes the sum;
//   (ii') the same lengths and patterns with the slice ENDING at an inaccessible guard page (and, separately, starting
//         right after one): an over-read faults and is reported;
//   (iii) 64 KiB-1 .. 64 KiB+1 (and larger in thorough) carry-saturating fills.
// Both the public dispatcher Checksum and checksumAVX2 itself are evaluated on every case; finally the dispatcher is
// re-run with hasAVX2=false on a smaller box so the fallback branch is covered too.

const c25Page = 4096
const c25Poison = 0x5b

// c25refSum is the RFC 1071 reference: big-endian 16-bit words, odd tail padded with a zero byte on the right.
func c25refSum(buf []byte) uint64 {
	var sum uint64
	i := 0
	for ; i+1 < len(buf); i += 2 {
		sum += uint64(buf[i])<<8 | uint64(buf[i+1])
	}
	if i < len(buf) {
		sum += uint64(buf[i]) << 8
	}
	return sum
}

// c25refFold adds the seed and folds the carries back in until 16 bits remain.
func c25refFold(sum uint64, seed uint16) uint16 {
	sum += uint64(seed)
	for sum>>16 != 0 {
		sum = (sum & 0xffff) + (sum >> 16)
	}
	return uint16(sum)
}

// c25arena is [guard page][data ...][guard page]; the guards are PROT_NONE.
type c25arena struct {
	raw  []byte
	data []byte
}

func c25newArena(c *mc.Check, dataPages int) *c25arena {
	n := (dataPages + 2) * c25Page
	raw, err := syscall.Mmap(-1, 0, n, syscall.PROT_READ|syscall.PROT_WRITE, syscall.MAP_ANON|syscall.MAP_PRIVATE)
	if err != nil {
		c.Broken("mmap: %v", err)
	}
	if err := syscall.Mprotect(raw[:c25Page], syscall.PROT_NONE); err != nil {
		c.Broken("mprotect: %v", err)
	}
	if err := syscall.Mprotect(raw[n-c25Page:], syscall.PROT_NONE); err != nil {
		c.Broken("mprotect: %v", err)
	}
	a := &c25arena{raw: raw, data: raw[c25Page : n-c25Page]}
	for i := range a.data {
		a.data[i] = c25Poison
	}
	return a
}

func (a *c25arena) free() { _ = syscall.Munmap(a.raw) }

type c25pattern struct {
	name   string
	f      func(i int) byte // static patterns: byte at position i of the buffer
	lastFF int              // >=0: zeros with a single 0xff at position len-1-lastFF (length dependent)
}

func c25xs(seed uint32) func(i int) byte {
	// fixed pseudo-random fill: byte i is a hash of (seed, i) — stateless, so it is a pure function of the position
	return func(i int) byte {
		x := uint32(i)*2654435761 ^ seed
		x ^= x >> 15
		x *= 2246822519
		x ^= x >> 13
		x *= 3266489917
		x ^= x >> 16
		return byte(x)
	}
}

func c25patterns(c *mc.Check) []c25pattern {
	ps := []c25pattern{
		{name: "zeros", f: func(int) byte { return 0 }, lastFF: -1},
		{name: "ff", f: func(int) byte { return 0xff }, lastFF: -1},
		{name: "ff00", f: func(i int) byte { return byte(0xff * (1 - i&1)) }, lastFF: -1},
		{name: "00ff", f: func(i int) byte { return byte(0xff * (i & 1)) }, lastFF: -1},
		{name: "ramp", f: func(i int) byte { return byte(i) }, lastFF: -1},
		{name: "rand1", f: c25xs(0x9e3779b9), lastFF: -1},
		{name: "rand2", f: c25xs(0x7f4a7c15), lastFF: -1},
		{name: "fe-ff-mix", f: func(i int) byte { return byte(0xfe + (i/8)&1) }, lastFF: -1},
	}
	for q := 0; q < 70; q++ {
		q := q
		ps = append(ps, c25pattern{name: "ff@first", f: func(i int) byte {
			if i == q {
				return 0xff
			}
			return 0
		}, lastFF: -1})
	}
	for q := 0; q < 70; q++ {
		ps = append(ps, c25pattern{name: "ff@last", lastFF: q})
	}
	return ps
}

func c25lenClass(n int) string {
	switch {
	case n == 0:
		return "len=0"
	case n < 8:
		return "len 1..7 (scalar tail)"
	case n < 32:
		return "len 8..31 (loop8+tail)"
	case n < 64:
		return "len 32..63 (loop32)"
	default:
		return "len>=64 (loop64)"
	}
}

type c25stats struct {
	evals, nontrivial, folded, direct int64
	seen                              [65536 / 64]uint64
	classes                           [5]int64
}

func (s *c25stats) note(n int, seed, want uint16, sum uint64) {
	s.evals++
	if want != seed {
		s.nontrivial++
	}
	if sum+uint64(seed) > 0xffff {
		s.folded++
	}
	s.seen[want>>6] |= 1 << (want & 63)
	switch {
	case n == 0:
		s.classes[0]++
	case n < 8:
		s.classes[1]++
	case n < 32:
		s.classes[2]++
	case n < 64:
		s.classes[3]++
	default:
		s.classes[4]++
	}
}

type c25run struct {
	c     *mc.Check
	nviol atomic.Int64
	mu    sync.Mutex
	total c25stats
	seeds []uint16
}

// viol funnels violations: after a few dozen the enumeration is abandoned (the verdict is already "violated"; building
// millions of detail records would only burn the time budget).
func (r *c25run) viol(sig string, detail map[string]any) {
	if r.nviol.Add(1) > 64 {
		return
	}
	r.c.Violation(sig, detail)
}

func (r *c25run) stopped() bool { return r.nviol.Load() > 64 }

func (r *c25run) merge(s *c25stats) {
	r.mu.Lock()
	r.total.evals += s.evals
	r.total.nontrivial += s.nontrivial
	r.total.folded += s.folded
	r.total.direct += s.direct
	for i := range s.seen {
		r.total.seen[i] |= s.seen[i]
	}
	for i := range s.classes {
		r.total.classes[i] += s.classes[i]
	}
	r.mu.Unlock()
}

// c25guarded runs f; a memory fault inside (over-read into a guard page) is turned into ok=false.
func c25guarded(f func()) (ok bool) {
	defer func() {
		if e := recover(); e != nil {
			if _, isErr := e.(runtime.Error); isErr {
				ok = false
				return
			}
			panic(e)
		}
	}()
	f()
	return true
}

// evalBuf compares both entry points with the reference for every seed of the run on one buffer.
func (r *c25run) evalBuf(st *c25stats, buf []byte, pat string, off int, place string, useDirect bool) {
	sum := c25refSum(buf)
	for _, seed := range r.seeds {
		want := c25refFold(sum, seed)
		var got, got2 uint16
		ok := c25guarded(func() {
			got = Checksum(buf, seed)
			if useDirect {
				got2 = checksumAVX2(buf, seed)
			} else {
				got2 = got
			}
		})
		st.note(len(buf), seed, want, sum)
		if useDirect {
			st.direct++
		}
		if !ok {
			r.viol(fmt.Sprintf("memory fault: checksum reads outside its buffer [%s, placement=%s]", c25lenClass(len(buf)), place),
				map[string]any{"len": len(buf), "offset": off, "seed": seed, "pattern": pat, "placement": place})
			continue
		}
		if got != want {
			r.viol(fmt.Sprintf("Checksum != RFC 1071 sum [%s, content=%s]", c25lenClass(len(buf)), pat),
				map[string]any{"len": len(buf), "offset_mod_64": off, "seed": seed, "pattern": pat, "placement": place, "got": got, "want": want, "hasAVX2": hasAVX2})
		}
		if got2 != want {
			r.viol(fmt.Sprintf("checksumAVX2 != RFC 1071 sum [%s, content=%s]", c25lenClass(len(buf)), pat),
				map[string]any{"len": len(buf), "offset_mod_64": off, "seed": seed, "pattern": pat, "placement": place, "got": got2, "want": want})
		}
	}
}

// sweepOffset: placement A — slice starts at data[off], lengths 0..maxLen ascending, surroundings poisoned.
func (r *c25run) sweepOffset(st *c25stats, a *c25arena, p c25pattern, off, maxLen int, useDirect bool) {
	d := a.data
	for n := 0; n <= maxLen && !r.stopped(); n++ {
		if n > 0 {
			if p.lastFF >= 0 {
				d[off+n-1] = 0
			} else {
				d[off+n-1] = p.f(n - 1)
			}
		}
		pos := -1
		if p.lastFF >= 0 && n-1-p.lastFF >= 0 {
			pos = off + n - 1 - p.lastFF
			d[pos] = 0xff
		}
		r.evalBuf(st, d[off:off+n:off+n], p.name, off, "interior", useDirect)
		if pos >= 0 {
			d[pos] = 0
		}
	}
	for i := off; i < off+maxLen; i++ {
		d[i] = c25Poison
	}
}

// sweepGuard: placement B — the slice ends exactly at the trailing guard page (over-read faults); placement C — it
// starts exactly after the leading guard page (under-read faults).
func (r *c25run) sweepGuard(st *c25stats, a *c25arena, p c25pattern, maxLen int, useDirect bool) {
	d := a.data
	end := len(d)
	for n := 0; n <= maxLen && !r.stopped(); n++ {
		for _, start := range []int{end - n, 0} {
			b := d[start : start+n : start+n]
			for i := range b {
				if p.lastFF >= 0 {
					b[i] = 0
					if i == n-1-p.lastFF {
						b[i] = 0xff
					}
				} else {
					b[i] = p.f(i)
				}
			}
			place := "end-at-guard-page"
			if start == 0 {
				place = "start-after-guard-page"
			}
			r.evalBuf(st, b, p.name, start%64, place, useDirect)
			for i := range b {
				b[i] = c25Poison
			}
		}
	}
}

func TestVerifC25(t *testing.T) {
	c := mc.Begin(t, "C25", "exploration")
	defer c.End()
	c.Require(hasAVX2, "this CPU has no AVX2: the assembly routine cannot be exercised (nothing would be checked)")
	r := &c25run{c: c}
	r.seeds = []uint16{0, 1, 0x00ff, 0xff00, 0xfffe, 0xffff}
	if c.Thorough() {
		r.seeds = append(r.seeds, 0x8000, 0x7fff, 0x1234)
	}
	workers := runtime.GOMAXPROCS(0)
	patterns := c25patterns(c)
	maxLen := mc.Pick(c, 4200, 9216)
	dataPages := (maxLen+64)/c25Page + 2

	parallel := func(n int, item func(i int, st *c25stats, a *c25arena)) {
		var next atomic.Int64
		var wg sync.WaitGroup
		for w := 0; w < workers; w++ {
			wg.Add(1)
			go func() {
				defer wg.Done()
				debug.SetPanicOnFault(true)
				a := c25newArena(c, dataPages)
				defer a.free()
				st := &c25stats{}
				for {
					i := int(next.Add(1) - 1)
					if i >= n {
						break
					}
					if r.stopped() {
						break
					}
					if c.OutOfTime() {
						c.Capped("soft time budget")
						break
					}
					item(i, st, a)
				}
				r.merge(st)
			}()
		}
		wg.Wait()
	}

	// ---- (ii) lengths x offsets x patterns x seeds, interior placement
	nOff := 64
	parallel(len(patterns)*nOff, func(i int, st *c25stats, a *c25arena) {
		r.sweepOffset(st, a, patterns[i/nOff], i%nOff, maxLen, true)
	})
	c.Set("ii_max_len_all_offsets", maxLen)
	c.Set("ii_offsets", nOff)
	c.Set("ii_patterns", len(patterns))
	c.Set("seeds_boundary", len(r.seeds))

	// ---- (ii') guard-page placements
	gl := mc.Pick(c, 4200, 9216)
	parallel(len(patterns), func(i int, st *c25stats, a *c25arena) {
		r.sweepGuard(st, a, patterns[i], gl, true)
	})
	c.Set("guard_page_max_len", gl)

	// ---- (i) all tiny buffers x all seeds
	allSeeds := make([]uint16, 65536)
	for i := range allSeeds {
		allSeeds[i] = uint16(i)
	}
	seeds2 := 256
	if c.Thorough() {
		seeds2 = 65536
	}
	var tinyFaults atomic.Int64
	parallel(256, func(b0 int, st *c25stats, a *c25arena) {
		d := a.data
		end := len(d)
		ok := c25guarded(func() {
			if b0 == 0 {
				// length 0, every seed, at the guard boundary and at an interior odd address
				for _, s := range allSeeds {
					for _, b := range [][]byte{d[end:end], d[33:33]} {
						want := c25refFold(0, s)
						st.note(0, s, want, 0)
						st.direct++
						if g := Checksum(b, s); g != want {
							r.viol("Checksum != RFC 1071 sum [len=0]", map[string]any{"seed": s, "got": g, "want": want})
						}
						if g := checksumAVX2(b, s); g != want {
							r.viol("checksumAVX2 != RFC 1071 sum [len=0]", map[string]any{"seed": s, "got": g, "want": want})
						}
					}
				}
			}
			// length 1: byte b0, every seed; at the guard boundary (odd address) and at an even interior address
			for _, b := range [][]byte{d[end-1 : end], d[64:65]} {
				b[0] = byte(b0)
				sum := c25refSum(b)
				for _, s := range allSeeds {
					want := c25refFold(sum, s)
					st.note(1, s, want, sum)
					st.direct++
					if g := Checksum(b, s); g != want {
						r.viol("Checksum != RFC 1071 sum [len 1..7 (scalar tail), content=all-1-byte-buffers]", map[string]any{"byte": b0, "seed": s, "got": g, "want": want})
					}
					if g := checksumAVX2(b, s); g != want {
						r.viol("checksumAVX2 != RFC 1071 sum [len 1..7 (scalar tail), content=all-1-byte-buffers]", map[string]any{"byte": b0, "seed": s, "got": g, "want": want})
					}
				}
				b[0] = c25Poison
			}
			// length 2: bytes (b0, b1) for every b1; seeds: all (thorough) / 256 spread + boundary (quick)
			b := d[end-2 : end]
			b[0] = byte(b0)
			for b1 := 0; b1 < 256 && !r.stopped(); b1++ {
				b[1] = byte(b1)
				sum := c25refSum(b)
				for si := 0; si < seeds2; si++ {
					s := uint16(si)
					if seeds2 == 256 {
						s = uint16(si*257) ^ uint16(b1) // spreads over both seed bytes, differs per content
					}
					want := c25refFold(sum, s)
					st.note(2, s, want, sum)
					st.direct++
					if g := Checksum(b, s); g != want {
						r.viol("Checksum != RFC 1071 sum [len 1..7 (scalar tail), content=all-2-byte-buffers]", map[string]any{"bytes": []int{b0, b1}, "seed": s, "got": g, "want": want})
					}
					if g := checksumAVX2(b, s); g != want {
						r.viol("checksumAVX2 != RFC 1071 sum [len 1..7 (scalar tail), content=all-2-byte-buffers]", map[string]any{"bytes": []int{b0, b1}, "seed": s, "got": g, "want": want})
					}
				}
			}
			b[0], b[1] = c25Poison, c25Poison
			if c.Thorough() {
				// length 3: every content x boundary seeds
				b := d[end-3 : end]
				b[0] = byte(b0)
				for b1 := 0; b1 < 256 && !r.stopped(); b1++ {
					b[1] = byte(b1)
					for b2 := 0; b2 < 256; b2++ {
						b[2] = byte(b2)
						sum := c25refSum(b)
						for _, s := range r.seeds {
							want := c25refFold(sum, s)
							st.note(3, s, want, sum)
							st.direct++
							if g := Checksum(b, s); g != want {
								r.viol("Checksum != RFC 1071 sum [len 1..7 (scalar tail), content=all-3-byte-buffers]", map[string]any{"bytes": []int{b0, b1, b2}, "seed": s, "got": g, "want": want})
							}
							if g := checksumAVX2(b, s); g != want {
								r.viol("checksumAVX2 != RFC 1071 sum [len 1..7 (scalar tail), content=all-3-byte-buffers]", map[string]any{"bytes": []int{b0, b1, b2}, "seed": s, "got": g, "want": want})
							}
						}
					}
				}
				b[0], b[1], b[2] = c25Poison, c25Poison, c25Poison
			}
		})
		if !ok {
			tinyFaults.Add(1)
			r.viol("memory fault: checksum reads outside its buffer [len<=3, placement=end-at-guard-page]", map[string]any{"first_byte": b0})
		}
	})
	c.Set("i_len2_seeds_per_content", seeds2)
	c.Set("i_len3_all_contents", c.Thorough())

	// tiny buffers at every offset 0..63, every seed, a few contents (alignment x seed interplay)
	parallel(64, func(off int, st *c25stats, a *c25arena) {
		d := a.data
		for n := 0; n <= 9; n++ {
			for _, fill := range []byte{0x00, 0xff, 0x01, 0x80} {
				b := d[off : off+n : off+n]
				for i := range b {
					b[i] = fill
				}
				sum := c25refSum(b)
				for _, s := range allSeeds {
					want := c25refFold(sum, s)
					st.note(n, s, want, sum)
					st.direct++
					if g := Checksum(b, s); g != want {
						r.viol(fmt.Sprintf("Checksum != RFC 1071 sum [%s, content=const-fill x all seeds]", c25lenClass(n)), map[string]any{"len": n, "fill": fill, "offset": off, "seed": s, "got": g, "want": want})
					}
					if g := checksumAVX2(b, s); g != want {
						r.viol(fmt.Sprintf("checksumAVX2 != RFC 1071 sum [%s, content=const-fill x all seeds]", c25lenClass(n)), map[string]any{"len": n, "fill": fill, "offset": off, "seed": s, "got": g, "want": want})
					}
				}
				for i := range b {
					b[i] = c25Poison
				}
			}
		}
	})

	// the same for every length up to one vector block plus a full scalar tail (0..72), at four alignments: the end-around
	// carry of the 8-byte scalar loop meets every seed here
	parallel(4*63, func(k int, st *c25stats, a *c25arena) {
		off := []int{0, 1, 7, 31}[k%4]
		d := a.data
		for n := 10 + k/4; n <= 10+k/4; n++ {
			for _, fill := range []byte{0x00, 0xff, 0x01, 0x80} {
				b := d[off : off+n : off+n]
				for i := range b {
					b[i] = fill
				}
				sum := c25refSum(b)
				for _, s := range allSeeds {
					want := c25refFold(sum, s)
					st.note(n, s, want, sum)
					st.direct++
					if g := Checksum(b, s); g != want {
						r.viol(fmt.Sprintf("Checksum != RFC 1071 sum [%s, content=const-fill x all seeds]", c25lenClass(n)), map[string]any{"len": n, "fill": fill, "offset": off, "seed": s, "got": g, "want": want})
					}
					if g := checksumAVX2(b, s); g != want {
						r.viol(fmt.Sprintf("checksumAVX2 != RFC 1071 sum [%s, content=const-fill x all seeds]", c25lenClass(n)), map[string]any{"len": n, "fill": fill, "offset": off, "seed": s, "got": g, "want": want})
					}
				}
				for i := range b {
					b[i] = c25Poison
				}
			}
		}
	})

	// carry chains: every buffer of up to 6 (thorough 7) 8-byte words drawn from {00..00, ff..ff, 01 00..00, 00..00 01} followed
	// by a 0..7 byte tail of 0xff, x boundary seeds and the seeds 0x0001/0x0100/0x00fe/0xfe00 that complete a wrap
	{
		words := [][8]byte{{}, {0xff, 0xff, 0xff, 0xff, 0xff, 0xff, 0xff, 0xff}, {1}, {0, 0, 0, 0, 0, 0, 0, 1}}
		maxW := mc.Pick(c, 6, 7)
		cseeds := append(append([]uint16{}, r.seeds...), 0x0001, 0x0100, 0x00fe, 0xfe00, 0x0101)
		var chain atomic.Int64
		parallel(maxW, func(k int, st *c25stats, a *c25arena) {
			nw := k + 1
			d := a.data
			total := 1
			for i := 0; i < nw; i++ {
				total *= len(words)
			}
			for code := 0; code < total; code++ {
				for tail := 0; tail < 8; tail++ {
					n := nw*8 + tail
					b := d[3 : 3+n : 3+n]
					cc := code
					for i := 0; i < nw; i++ {
						copy(b[i*8:], words[cc%len(words)][:])
						cc /= len(words)
					}
					for i := nw * 8; i < n; i++ {
						b[i] = 0xff
					}
					sum := c25refSum(b)
					for _, s := range cseeds {
						want := c25refFold(sum, s)
						st.note(n, s, want, sum)
						st.direct++
						chain.Add(1)
						if g := Checksum(b, s); g != want {
							r.viol(fmt.Sprintf("Checksum != RFC 1071 sum [%s, content=carry-chain words]", c25lenClass(n)), map[string]any{"len": n, "bytes": fmt.Sprintf("%x", b), "seed": s, "got": g, "want": want})
						}
						if g := checksumAVX2(b, s); g != want {
							r.viol(fmt.Sprintf("checksumAVX2 != RFC 1071 sum [%s, content=carry-chain words]", c25lenClass(n)), map[string]any{"len": n, "bytes": fmt.Sprintf("%x", b), "seed": s, "got": g, "want": want})
						}
					}
				}
			}
		})
		c.Set("carry_chain_evaluations", chain.Load())
	}

	// ---- (iii) large carry-saturating buffers
	bigLens := []int{65535 - 64, 65535, 65536, 65537}
	if c.Thorough() {
		bigLens = append(bigLens, 131071, 131072, 1<<20 - 1, 1 << 20, 1<<20 + 33)
	}
	bigPages := (bigLens[len(bigLens)-1]+64)/c25Page + 2
	bigPats := []c25pattern{patterns[1], patterns[2], patterns[3], patterns[4], patterns[5], patterns[7]}
	type bigItem struct{ p, l int }
	var bigItems []bigItem
	for p := range bigPats {
		for l := range bigLens {
			bigItems = append(bigItems, bigItem{p, l})
		}
	}
	savePages := dataPages
	dataPages = bigPages
	parallel(len(bigItems), func(i int, st *c25stats, a *c25arena) {
		p, n := bigPats[bigItems[i].p], bigLens[bigItems[i].l]
		d := a.data
		for _, off := range []int{0, 1, 2, 31, 32, 63, len(d) - n} {
			b := d[off : off+n : off+n]
			for j := range b {
				b[j] = p.f(j)
			}
			place := "interior"
			if off == len(d)-n {
				place = "end-at-guard-page"
			}
			r.evalBuf(st, b, p.name, off%64, place, true)
			for j := range b {
				b[j] = c25Poison
			}
		}
	})
	dataPages = savePages
	c.Set("iii_lengths", bigLens)

	// ---- dispatcher with hasAVX2 = false (fallback branch of Checksum), sequential section
	avx := r.total
	saved := hasAVX2
	hasAVX2 = false
	fbLen := mc.Pick(c, 300, 1600)
	parallel(len(patterns)*8, func(i int, st *c25stats, a *c25arena) {
		r.sweepOffset(st, a, patterns[i/8], (i%8)*9%64, fbLen, false)
	})
	hasAVX2 = saved
	c.Set("fallback_evaluations", r.total.evals-avx.evals)

	distinct := 0
	for _, w := range r.total.seen {
		for ; w != 0; w &= w - 1 {
			distinct++
		}
	}
	c.Set("cpu_seconds", float64(int(c25cpu()*10))/10)
	c.Set("evaluations", r.total.evals)
	c.Set("distinct_nontrivial", r.total.nontrivial)
	c.Set("rule", "one evaluation = one (content, length, start address, seed) tuple compared with the byte-pair reference; non-trivial = the reference result differs from the seed (the buffer contributed to the sum)")
	c.Set("avx2_direct_calls", r.total.direct)
	c.Set("evaluations_with_16bit_carry_fold", r.total.folded)
	c.Set("distinct_checksum_values", distinct)
	c.Set("by_length_class", map[string]int64{"0": r.total.classes[0], "1..7": r.total.classes[1], "8..31": r.total.classes[2], "32..63": r.total.classes[3], ">=64": r.total.classes[4]})
	c.Set("hasAVX2", saved)
	if r.nviol.Load() > 0 || c.OutOfTime() {
		return // verdict already decided / run capped: the coverage guards below describe complete runs only
	}
	for i, n := range r.total.classes {
		c.Require(n > 0, "length class %d never exercised", i)
	}
	c.Require(r.total.direct > 0 && saved, "the AVX2 routine was never called")
	c.Require(distinct > 60000, "only %d distinct checksum values observed", distinct)
	c.Require(r.total.folded > 0 && r.total.folded < r.total.evals, "carry folding was not exercised both ways")
	c.Sample(map[string]any{"buf": "ff x 12", "seed": 0xffff, "checksum": Checksum([]byte{255, 255, 255, 255, 255, 255, 255, 255, 255, 255, 255, 255}, 0xffff)})
	c.Sample(map[string]any{"buf": "01", "seed": 0, "checksum": Checksum([]byte{1}, 0)})
	c.Sample(map[string]any{"buf": "ramp(0..99)", "seed": 0x1234, "checksum": Checksum(func() []byte {
		b := make([]byte, 100)
		for i := range b {
			b[i] = byte(i)
		}
		return b
	}(), 0x1234)})
	c.Assume("content space beyond the enumerated patterns (all contents for length <= 2, or <= 3 in thorough) is not enumerable; lengths above the stated bound are covered only by the listed large sizes")
	c.Assume("equality is bit-for-bit with the folded RFC 1071 sum (no 0x0000/0xffff equivalence is granted); an out-of-bounds read that faults counts as a violation")
	c.Assume("the per-lane 32-bit carry headroom of the vector loop overflows only beyond 256 GiB buffers; not reachable")
}

// c25cpu returns the CPU seconds (user+system) this process has consumed: wall time is meaningless on a shared machine.
func c25cpu() float64 {
	var ru syscall.Rusage
	if syscall.Getrusage(syscall.RUSAGE_SELF, &ru) != nil {
		return 0
	}
	return float64(ru.Utime.Sec+ru.Stime.Sec) + float64(ru.Utime.Usec+ru.Stime.Usec)/1e6
}
