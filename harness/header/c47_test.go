//go:build verif

package header

import (
	"encoding/binary"
	"fmt"
	"testing"

	"github.com/slackhq/nebula/zzverif/mc"
)

// C47 — the packet header encoding is exact.
// Bounded-exhaustive enumeration (E3): all 2^16 first-two-byte values x boundary words for index/counter, every
// index/counter byte swept, every input length 0..20 with cap==len and with poisoned trailing bytes, and the full
// 16x256 IsValidSubType table against the documented table transcribed below.
func TestVerifC47(t *testing.T) {
	c := mc.Begin(t, "C47", "exploration")
	defer c.End()
	var evals, nontrivial int64

	// documented (type, subtype) table, transcribed from the protocol description in header.go's constants
	valid := map[[2]int]bool{
		{0, 0}: true,              // handshake ix_psk0
		{1, 0}: true, {1, 1}: true, // message none / relay
		{2, 0}: true,              // recv_error
		{3, 0}: true,              // lighthouse
		{4, 0}: true, {4, 1}: true, // test request / reply
		{5, 0}: true,              // close tunnel
		{6, 0}: true,              // control
	}
	nValid := 0
	for ty := 0; ty < 256; ty++ {
		for st := 0; st < 256; st++ {
			got := IsValidSubType(MessageType(ty), MessageSubType(st))
			want := valid[[2]int{ty, st}]
			evals++
			if got {
				nValid++
			}
			if got != want {
				c.Violation(fmt.Sprintf("IsValidSubType(type=%d,subtype=%d)=%v want %v", ty, st, got, want), map[string]any{"type": ty, "subtype": st})
			}
			h := H{Type: MessageType(ty), Subtype: MessageSubType(st)}
			if h.IsValidSubType() != got {
				c.Violation("H.IsValidSubType disagrees with IsValidSubType", map[string]any{"type": ty, "subtype": st})
			}
		}
	}
	c.Require(nValid > 0 || c.Violations() > 0, "no valid subtype seen")

	words32 := []uint32{0, 1, 0x7f, 0x80, 0xff, 0x100, 0xffff, 0x10000, 0x7fffffff, 0x80000000, 0xfffffffe, 0xffffffff, 0x01020304}
	words64 := []uint64{0, 1, 0xff, 0x100, 0xffffffff, 0x100000000, 0x7fffffffffffffff, 0x8000000000000000, 0xfffffffffffffffe, 0xffffffffffffffff, 0x0102030405060708}
	if c.Thorough() {
		for i := 0; i < 32; i++ {
			words32 = append(words32, 1<<uint(i), (1<<uint(i))-1)
		}
		for i := 0; i < 64; i++ {
			words64 = append(words64, 1<<uint(i), (1<<uint(i))-1)
		}
	}

	check := func(v uint8, ty MessageType, st MessageSubType, ri uint32, ctr uint64) {
		evals++
		buf := make([]byte, Len, Len) // cap == len: Encode may not need more
		for i := range buf {
			buf[i] = 0xa5 // stale content must be overwritten, in particular the reserved field
		}
		out := Encode(buf, v, ty, st, ri, ctr)
		sig := ""
		if len(out) != Len {
			sig = "Encode returns wrong length"
		}
		// independent decode of the wire format documented in the header comment
		if out[0]>>4 != v&0x0f || out[0]&0x0f != byte(ty)&0x0f {
			sig = "Encode: version/type nibble wrong"
		}
		if out[1] != byte(st) || out[2] != 0 || out[3] != 0 {
			sig = "Encode: subtype/reserved wrong"
		}
		if binary.BigEndian.Uint32(out[4:8]) != ri || binary.BigEndian.Uint64(out[8:16]) != ctr {
			sig = "Encode: index/counter wrong"
		}
		var h H
		if err := h.Parse(out); err != nil {
			sig = "Parse rejects a 16-byte header"
		} else if h.Version != v&0x0f || h.Type != ty&0x0f || h.Subtype != st || h.Reserved != 0 || h.RemoteIndex != ri || h.MessageCounter != ctr {
			sig = "round trip mismatch"
		}
		h2 := H{Version: v, Type: ty, Subtype: st, Reserved: 0xffff, RemoteIndex: ri, MessageCounter: ctr}
		b2, err := h2.Encode(make([]byte, Len))
		if err != nil || string(b2) != string(out) {
			sig = "H.Encode disagrees with Encode"
		}
		if sig != "" {
			c.Violation(sig, map[string]any{"v": v, "type": ty, "subtype": st, "index": ri, "counter": ctr, "wire": fmt.Sprintf("%x", out)})
		}
		if v != 0 || ty != 0 || st != 0 || ri != 0 || ctr != 0 {
			nontrivial++
		}
	}

	// all (version, type, subtype) byte values x boundary words
	vmax := mc.Pick(c, 32, 256)
	for v := 0; v < vmax; v++ {
		for ty := 0; ty < mc.Pick(c, 32, 256); ty++ {
			for st := 0; st < 256; st++ {
				if v < 16 && ty < 16 {
					for _, ri := range words32 {
						check(uint8(v), MessageType(ty), MessageSubType(st), ri, words64[int(ri)%len(words64)])
					}
					for _, ctr := range words64 {
						check(uint8(v), MessageType(ty), MessageSubType(st), words32[int(ctr%13)%len(words32)], ctr)
					}
				} else {
					check(uint8(v), MessageType(ty), MessageSubType(st), 0xdeadbeef, 0x0123456789abcdef)
				}
			}
		}
	}
	// every byte of index and counter swept 0..255 individually
	for pos := 0; pos < 12; pos++ {
		for b := 0; b < 256; b++ {
			var raw [12]byte
			raw[pos] = byte(b)
			check(1, Message, 0, binary.BigEndian.Uint32(raw[0:4]), binary.BigEndian.Uint64(raw[4:12]))
		}
	}
	c.Sample(map[string]any{"encode": "v=1 type=1 st=0 idx=0x01020304 ctr=0x0102030405060708", "wire": fmt.Sprintf("%x", Encode(make([]byte, 16), 1, 1, 0, 0x01020304, 0x0102030405060708))})

	shortInBig := 0
	// parsing: every length 0..20; cap==len; poisoned trailing bytes must not influence the result; all first-two-byte values
	for l := 0; l <= 20; l++ {
		for b0 := 0; b0 < 256; b0++ {
			for _, b1 := range []int{0, 1, 2, 0x7f, 0x80, 0xff} {
				evals++
				base := make([]byte, l, l)
				for i := range base {
					base[i] = byte(i*17 + 3)
				}
				if l > 0 {
					base[0] = byte(b0)
				}
				if l > 1 {
					base[1] = byte(b1)
				}
				var h H
				err := h.Parse(base)
				if l < Len {
					if err == nil {
						c.Violation(fmt.Sprintf("Parse accepts %d-byte input", l), map[string]any{"len": l, "bytes": fmt.Sprintf("%x", base)})
					}
					if _, err2 := NewHeader(base); err2 == nil {
						c.Violation(fmt.Sprintf("NewHeader accepts %d-byte input", l), map[string]any{"len": l})
					}
					// the same short input as the front of a larger receive buffer that still holds an earlier, complete
					// header (len < 16 <= cap): the length of the input decides, not the room behind it
					if b1 == 0 {
						big := Encode(make([]byte, Len, 64), 1, Message, 0, 0x01020304, 0x0102030405060708)
						copy(big, base)
						short := big[:l]
						var hs H
						if err := hs.Parse(short); err == nil {
							c.Violation(fmt.Sprintf("Parse accepts %d-byte input", l)+" (front of a larger buffer)", map[string]any{"len": l, "cap": cap(short), "got": hs.String()})
						}
						if _, err := NewHeader(short); err == nil {
							c.Violation(fmt.Sprintf("NewHeader accepts %d-byte input", l)+" (front of a larger buffer)", map[string]any{"len": l, "cap": cap(short)})
						}
						shortInBig++
					}
					continue
				}
				nontrivial++
				if err != nil {
					c.Violation("Parse rejects >=16-byte input", map[string]any{"len": l})
					continue
				}
				want := H{Version: base[0] >> 4, Type: MessageType(base[0] & 0x0f), Subtype: MessageSubType(base[1]),
					Reserved:    binary.BigEndian.Uint16(base[2:4]),
					RemoteIndex: binary.BigEndian.Uint32(base[4:8]), MessageCounter: binary.BigEndian.Uint64(base[8:16])}
				if h != want {
					c.Violation("Parse result differs from the documented layout", map[string]any{"bytes": fmt.Sprintf("%x", base), "got": h.String(), "want": want.String()})
				}
				// flip every trailing byte: result must be unchanged (nothing beyond 16 bytes is read)
				for i := Len; i < l; i++ {
					p := append([]byte{}, base...)
					p[i] ^= 0xff
					var hp H
					if err := hp.Parse(p); err != nil || hp != h {
						c.Violation("Parse depends on bytes beyond 16", map[string]any{"pos": i})
					}
				}
			}
		}
	}
	c.Set("evaluations", evals)
	c.Set("short_inputs_at_the_front_of_a_larger_buffer", shortInBig)
	c.Require(shortInBig >= 16*256, "short inputs inside a larger buffer not exercised: %d", shortInBig)
	c.Set("distinct_nontrivial", nontrivial)
	c.Set("rule", "every enumerated case is a distinct (fields|bytes) tuple; non-trivial = some field non-zero (encode) or input >= 16 bytes (parse); the 65536-entry type/subtype table is complete")
	c.Set("valid_type_subtype_pairs", nValid)
	c.Assume("version and type are 4-bit wire fields: the round trip is asserted modulo 16 for them")
}
