//go:build verif

package iputil

import (
	"encoding/binary"
	"encoding/hex"
	"fmt"
	"runtime"
	"runtime/debug"
	"sort"
	"sync"
	"sync/atomic"
	"testing"

	"github.com/slackhq/nebula/zzverif/mc"
)

// C21 — reject replies are well formed and never answer errors or fragments.
//
// Bounded-exhaustive (E3): the real CreateRejectPacket over structured IPv4/IPv6 packets (IHL, fragment fields, every
// TCP flag byte x boundary seq/ack x data offsets x payload lengths, every ICMP/ICMPv6 type, UDP and unknown protocols,
// extension header chains of length 0..10, truncations with a consistent IP length) x output buffer capacities around
// every size boundary. Every reply is decoded by an independent decoder written below (RFC 1071 sum, byte offsets,
// nf_reject sequence number formula) and the "no reply" cases are decided by an independent classifier.

// ---------------------------------------------------------------------------------------------------------------------
// reference: checksum, chain walker, input classifier

func c21Sum(init uint32, parts ...[]byte) uint16 { // RFC 1071 over the concatenation (every part but the last has even length)
	s := init
	for _, b := range parts {
		for i := 0; i+1 < len(b); i += 2 {
			s += uint32(b[i])<<8 | uint32(b[i+1])
		}
		if len(b)%2 == 1 {
			s += uint32(b[len(b)-1]) << 8
		}
	}
	for s>>16 != 0 {
		s = s&0xffff + s>>16
	}
	return ^uint16(s)
}

func c21IsExt(nh uint8) bool { return nh == 0 || nh == 43 || nh == 60 || nh == 44 || nh == 51 }

// c21Walk: independent IPv6 chain walker, bounded only by the buffer.
func c21Walk(d []byte) (ok bool, proto uint8, off int, nonFirst bool, n int) {
	nh := d[6]
	off = 40
	for c21IsExt(nh) {
		switch nh {
		case 44:
			if off+8 > len(d) {
				return false, 0, 0, false, n
			}
			n++
			if (uint16(d[off+2])<<8|uint16(d[off+3]))>>3 != 0 {
				return true, d[off], off, true, n
			}
			nh, off = d[off], off+8
		case 51:
			if off+2 > len(d) {
				return false, 0, 0, false, n
			}
			n++
			nh, off = d[off], off+(int(d[off+1])+2)*4
		default:
			if off+2 > len(d) {
				return false, 0, 0, false, n
			}
			n++
			nh, off = d[off], off+(int(d[off+1])+1)*8
		}
	}
	if off > len(d) {
		return false, 0, 0, false, n
	}
	return true, nh, off, false, n
}

type c21In struct {
	ver      int
	badIHL   bool // IPv4 with IHL < 5: not an IPv4 packet; only the generic demands apply
	ihl      int
	src, dst []byte
	chainOK  bool // the upper-layer protocol is known (always for IPv4)
	nExt     int
	proto    uint8
	upperOff int
	tcp      bool
	mustNil  string // why no reply may be produced ("" = a reply is allowed)
	need     int    // size of the expected reply (0 = unknown / none)
	class    string // coarse input class for the vacuity guards
}

const (
	c21NilNoHeader = "a buffer that holds no complete IP header"
	c21NilFragment = "a non-first fragment"
	c21NilICMPErr  = "an ICMP error message"
	c21NilTCPShort = "a TCP packet whose 20-byte TCP header is not completely in the buffer"
)

func c21Classify(d []byte) c21In {
	var in c21In
	if len(d) == 0 {
		in.mustNil, in.class = c21NilNoHeader, "no-header"
		return in
	}
	switch d[0] >> 4 {
	case 4:
		in.ver = 4
		if len(d) < 20 {
			in.mustNil, in.class = c21NilNoHeader, "no-header"
			return in
		}
		in.src, in.dst = d[12:16], d[16:20]
		in.ihl = int(d[0]&0x0f) * 4
		if in.ihl < 20 {
			in.badIHL, in.class = true, "v4-bad-ihl"
			return in
		}
		if len(d) < in.ihl {
			in.mustNil, in.class = c21NilNoHeader, "no-header"
			return in
		}
		in.chainOK, in.proto, in.upperOff = true, d[9], in.ihl
		if (uint16(d[6])&0x1f)<<8|uint16(d[7]) != 0 {
			in.mustNil, in.class = c21NilFragment, "v4-non-first-fragment"
			return in
		}
		switch in.proto {
		case 6:
			in.tcp = true
			if len(d) < in.ihl+20 {
				in.mustNil, in.class = c21NilTCPShort, "v4-tcp-short"
				return in
			}
			in.need, in.class = 40, "v4-tcp"
		case 1:
			if len(d) > in.ihl {
				switch d[in.ihl] {
				case 3, 4, 5, 11, 12: // destination unreachable, source quench, redirect, time exceeded, parameter problem
					in.mustNil, in.class = c21NilICMPErr, "v4-icmp-error"
					return in
				}
			}
			in.need, in.class = 28+min(len(d), in.ihl+8), "v4-icmp-query"
		default:
			in.need, in.class = 28+min(len(d), in.ihl+8), "v4-other"
		}
		return in
	case 6:
		in.ver = 6
		if len(d) < 40 {
			in.mustNil, in.class = c21NilNoHeader, "no-header"
			return in
		}
		in.src, in.dst = d[8:24], d[24:40]
		ok, proto, off, nonFirst, n := c21Walk(d)
		in.nExt = n
		if !ok {
			in.class = "v6-chain-unresolved"
			return in
		}
		in.chainOK, in.proto, in.upperOff = true, proto, off
		if nonFirst {
			in.mustNil, in.class = c21NilFragment, "v6-non-first-fragment"
			return in
		}
		switch proto {
		case 6:
			in.tcp = true
			if len(d) < off+20 {
				in.mustNil, in.class = c21NilTCPShort, "v6-tcp-short"
				return in
			}
			in.need, in.class = 60, "v6-tcp"
		case 58:
			if len(d) > off && d[off] >= 1 && d[off] <= 4 { // the ICMPv6 error messages RFC 4443 defines
				in.mustNil, in.class = c21NilICMPErr, "v6-icmp-error"
				return in
			}
			in.need, in.class = 48+min(len(d), 1000), "v6-icmp-info"
		default:
			in.need, in.class = 48+min(len(d), 1000), "v6-other"
		}
		return in
	}
	in.mustNil, in.class = c21NilNoHeader, "no-header"
	return in
}

// ---------------------------------------------------------------------------------------------------------------------
// workers

type c21Viol struct {
	data   []byte
	cap    int
	detail map[string]any
}

type c21OC struct{ class, oc string }

type c21Worker struct {
	evals, replies, nontrivial, violating int64
	fam                                   map[string]int64
	famCur                                string
	outcome                               map[c21OC]int64 // (class, outcome) counts; joined as "class/outcome" in the evidence
	viol                                  map[string]*c21Viol
	samples                               map[string][]any
	buf                                   []byte
	flip                                  bool
	seen                                  *c21Bitmap
}

type c21Bitmap struct {
	words []atomic.Uint64
	mask  uint64
}

func (b *c21Bitmap) add(h uint64) bool {
	i := h & b.mask
	bit := uint64(1) << (i & 63)
	return b.words[i>>6].Or(bit)&bit == 0
}

func c21Hash(d []byte, capOut int) uint64 {
	h := uint64(0x9e3779b97f4a7c15) ^ uint64(len(d))*0xff51afd7ed558ccd ^ uint64(capOut)*0xc4ceb9fe1a85ec53
	i := 0
	for ; i+8 <= len(d); i += 8 {
		h ^= binary.LittleEndian.Uint64(d[i:])
		h *= 0x9fb21c651e98df25
		h ^= h >> 29
	}
	for ; i < len(d); i++ {
		h ^= uint64(d[i])
		h *= 0x100000001b3
	}
	h ^= h >> 32
	h *= 0xd6e8feb86659fd93
	h ^= h >> 32
	return h
}

func c21Call(pkt, out []byte) (reply []byte, panicked any) {
	defer func() {
		if p := recover(); p != nil {
			panicked = p
		}
	}()
	return CreateRejectPacket(pkt, out), nil
}

func (w *c21Worker) report(sig string, d []byte, capOut int, reply []byte, extra string) {
	w.violating++
	old := w.viol[sig]
	if old != nil && (len(old.data) < len(d) || (len(old.data) == len(d) && (string(old.data) < string(d) || (string(old.data) == string(d) && old.cap <= capOut)))) {
		return
	}
	det := map[string]any{"packet_hex": hex.EncodeToString(d), "packet_len": len(d), "out_cap": capOut, "family": w.famCur}
	if reply != nil {
		det["reply_hex"] = hex.EncodeToString(reply)
		det["reply_len"] = len(reply)
	} else {
		det["reply"] = nil
	}
	if extra != "" {
		det["note"] = extra
	}
	w.viol[sig] = &c21Viol{append([]byte{}, d...), capOut, det}
}

var c21BaseCaps = []int{0, 27, 28, 39, 40, 47, 48, 55, 56, 59, 60, 95, 96, 1047, 1048, 2000}
var c21LiteCaps = []int{2000}

// checkAll classifies pkt once and runs it against every capacity of the list plus the exact boundary need-1 / need.
func (w *c21Worker) checkAll(pkt []byte, caps []int) {
	pkt = pkt[:len(pkt):len(pkt)] // cap == len: a slice expression reaching past the packet panics
	in := c21Classify(pkt)
	w.fam[w.famCur]++
	for _, cp := range caps {
		w.checkOne(pkt, &in, cp)
	}
	if in.need > 0 {
		w.checkOne(pkt, &in, in.need-1)
		w.checkOne(pkt, &in, in.need)
	}
}

func (w *c21Worker) checkOne(pkt []byte, in *c21In, capOut int) {
	w.evals++
	w.flip = !w.flip
	out := w.buf[:0:capOut]
	if w.flip {
		out = w.buf[:capOut:capOut]
	}
	reply, panicked := c21Call(pkt, out)
	v := "v?"
	switch in.ver {
	case 4:
		v = "v4"
	case 6:
		v = "v6"
	}
	if panicked != nil {
		w.report(v+": CreateRejectPacket panics", pkt, capOut, nil, fmt.Sprint(panicked))
		for i := range w.buf {
			w.buf[i] = 0xa5
		}
		return
	}
	defer func(n int) { // restore the poison for the next call
		for i := 0; i < n && i < len(w.buf); i++ {
			w.buf[i] = 0xa5
		}
	}(len(reply))
	if len(reply) == 0 {
		oc := "nil"
		if in.need > 0 && capOut < in.need {
			oc = "nil-small-buffer"
		}
		w.outcome[c21OC{in.class, oc}]++
		return
	}
	w.replies++
	if w.seen.add(c21Hash(pkt, capOut)) {
		w.nontrivial++
	}
	if len(reply) > capOut {
		w.report(v+": the reply does not fit the output buffer it was given", pkt, capOut, reply, "")
	}
	if in.mustNil != "" {
		w.report(v+": a reply is produced for "+in.mustNil, pkt, capOut, reply, fmt.Sprintf("extension headers before the upper layer: %d", in.nExt))
		return
	}
	if len(reply) > MaxRejectPacketSize {
		w.report(v+": the reply is larger than MaxRejectPacketSize", pkt, capOut, reply, "")
	}
	bad := func(what string) { w.report(v+" reply: "+what, pkt, capOut, reply, "") }

	// ---- generic IP layer -----------------------------------------------------------------------------------------------
	var l4 []byte
	var l4proto uint8
	var pseudo uint32
	switch in.ver {
	case 4:
		if len(reply) < 20 || reply[0]>>4 != 4 {
			bad("not an IPv4 packet")
			return
		}
		rihl := int(reply[0]&0x0f) * 4
		if rihl < 20 || rihl > len(reply) {
			bad("IPv4 header length invalid")
			return
		}
		if int(binary.BigEndian.Uint16(reply[2:4])) != len(reply) {
			bad("IPv4 total length differs from the reply length")
		}
		if c21Sum(0, reply[:rihl]) != 0 {
			bad("IPv4 header checksum invalid")
		}
		if binary.BigEndian.Uint16(reply[6:8])&0x3fff != 0 {
			bad("the reply is itself a fragment")
		}
		if reply[8] == 0 {
			bad("TTL is 0")
		}
		if string(reply[12:16]) != string(in.dst) || string(reply[16:20]) != string(in.src) {
			bad("not sent from the original destination to the original source")
		}
		if len(reply) > 20+8+60+8 {
			bad("larger than the documented IPv4 maximum (96)")
		}
		l4, l4proto = reply[rihl:], reply[9]
		for i := 12; i < 20; i += 2 {
			pseudo += uint32(reply[i])<<8 | uint32(reply[i+1])
		}
		pseudo += uint32(l4proto) + uint32(len(l4))
	case 6:
		if len(reply) < 40 || reply[0]>>4 != 6 {
			bad("not an IPv6 packet")
			return
		}
		if int(binary.BigEndian.Uint16(reply[4:6])) != len(reply)-40 {
			bad("IPv6 payload length differs from the reply length")
		}
		if reply[7] == 0 {
			bad("hop limit is 0")
		}
		if string(reply[8:24]) != string(in.dst) || string(reply[24:40]) != string(in.src) {
			bad("not sent from the original destination to the original source")
		}
		l4, l4proto = reply[40:], reply[6]
		for i := 8; i < 40; i += 2 {
			pseudo += uint32(reply[i])<<8 | uint32(reply[i+1])
		}
		pseudo += uint32(l4proto) + uint32(len(l4))
	}
	if in.badIHL {
		w.outcome[c21OC{in.class, "reply"}]++
		return
	}

	// ---- kind --------------------------------------------------------------------------------------------------------------
	wantTCP := in.tcp
	if !in.chainOK { // upper layer unknown to the reference: either form is accepted, a reset cannot be validated
		if l4proto == 6 {
			bad("a TCP reset although the TCP header cannot be located in the buffer")
			return
		}
		wantTCP = false
	}
	if wantTCP {
		if l4proto != 6 {
			w.report(v+": a TCP packet is answered with something else than a TCP reset", pkt, capOut, reply, fmt.Sprintf("extension headers before TCP: %d; reply protocol %d", in.nExt, l4proto))
			return
		}
		if len(l4) < 20 || int(l4[12]>>4)*4 < 20 || int(l4[12]>>4)*4 > len(l4) {
			bad("TCP header truncated / data offset invalid")
			return
		}
		ot := pkt[in.upperOff:]
		if string(l4[0:2]) != string(ot[2:4]) || string(l4[2:4]) != string(ot[0:2]) {
			bad("TCP ports not swapped")
		}
		fl := l4[13]
		if fl&0x04 == 0 || fl&0x03 != 0 {
			bad("TCP flags: RST must be set, SYN and FIN clear")
		}
		oseq, oack := binary.BigEndian.Uint32(ot[4:8]), binary.BigEndian.Uint32(ot[8:12])
		rseq, rack := binary.BigEndian.Uint32(l4[4:8]), binary.BigEndian.Uint32(l4[8:12])
		if ot[13]&0x10 != 0 {
			// nf_reject: original had ACK -> seq = original ack_seq, no ACK flag
			if fl&0x10 != 0 || rseq != oack {
				bad("reset for an ACK segment: seq must be the original ack number, ACK flag clear")
			}
			w.outcome[c21OC{"rst", "for-ack"}]++
		} else {
			// nf_reject: ack_seq = seq + syn + fin + segment length - data offset, ACK flag set, seq 0
			want := oseq + uint32(ot[13]>>1&1) + uint32(ot[13]&1) + uint32(len(ot)) - uint32(ot[12]>>4)*4
			if fl&0x10 == 0 || rack != want || rseq != 0 {
				bad("reset for a non-ACK segment: ack must be seq+syn+fin+payload length with the ACK flag set and seq 0")
			}
			w.outcome[c21OC{"rst", "for-non-ack"}]++
		}
		if c21Sum(pseudo, l4) != 0 {
			bad("TCP checksum invalid")
		}
		w.outcome[c21OC{in.class, "reset"}]++
	} else {
		wantProto, wantType, wantCode, origHdr := uint8(1), uint8(3), uint8(13), in.ihl
		init := uint32(0)
		if in.ver == 6 {
			wantProto, wantType, wantCode, origHdr = 58, 1, 1, 40
			init = pseudo
		}
		if l4proto != wantProto {
			bad("a non-TCP packet is not answered with an ICMP error")
			return
		}
		if len(l4) < 8 {
			bad("ICMP message shorter than 8 bytes")
			return
		}
		if l4[0] != wantType || l4[1] != wantCode {
			bad("ICMP type/code is not destination unreachable / administratively prohibited")
		}
		if l4[4]|l4[5]|l4[6]|l4[7] != 0 {
			bad("ICMP unused field is not zero")
		}
		if c21Sum(init, l4) != 0 {
			bad("ICMP checksum invalid")
		}
		body := l4[8:]
		if len(body) > len(pkt) || string(body) != string(pkt[:len(body)]) {
			bad("ICMP body is not a prefix of the original packet")
		} else if in.ver == 4 && len(body) < min(len(pkt), origHdr+8) {
			bad("ICMP body does not carry the original header plus 64 bits")
		} else if in.ver == 6 && len(body) < min(len(pkt), origHdr) {
			bad("ICMPv6 body does not carry the original header")
		}
		w.outcome[c21OC{in.class, "icmp"}]++
	}
	if capOut == in.need {
		w.outcome[c21OC{"reply-at-exact-capacity", ""}]++
	}
	if len(w.samples[in.class]) < 2 {
		w.samples[in.class] = append(w.samples[in.class], map[string]any{"class": in.class, "family": w.famCur, "packet_hex": hex.EncodeToString(pkt[:min(len(pkt), 120)]),
			"packet_len": len(pkt), "out_cap": capOut, "reply_hex": hex.EncodeToString(reply[:min(len(reply), 120)]), "reply_len": len(reply)})
	}
}

type c21Job struct {
	fam string
	run func(w *c21Worker)
}

func c21RunJobs(c *mc.Check, seen *c21Bitmap, jobs []c21Job) (ws []*c21Worker, capped bool) {
	nw := runtime.GOMAXPROCS(0)
	workers := make([]*c21Worker, nw)
	var next, skipped atomic.Int64
	var wg sync.WaitGroup
	for i := range workers {
		w := &c21Worker{fam: map[string]int64{}, outcome: map[c21OC]int64{}, viol: map[string]*c21Viol{}, samples: map[string][]any{}, buf: make([]byte, 2048), seen: seen}
		for j := range w.buf {
			w.buf[j] = 0xa5
		}
		workers[i] = w
		wg.Add(1)
		go func() {
			defer wg.Done()
			for {
				j := int(next.Add(1)) - 1
				if j >= len(jobs) {
					return
				}
				if c.OutOfTime() {
					skipped.Add(1)
					continue
				}
				w.famCur = jobs[j].fam
				jobs[j].run(w)
			}
		}()
	}
	wg.Wait()
	if n := skipped.Load(); n > 0 {
		c.Capped(fmt.Sprintf("soft time budget: %d of %d jobs skipped", n, len(jobs)))
		return workers, true
	}
	return workers, false
}

// ---------------------------------------------------------------------------------------------------------------------
// builders (buffer length always equals the IP length fields)

var (
	c21V4Src = []byte{10, 1, 2, 3}
	c21V4Dst = []byte{10, 9, 8, 7}
	c21V6Src = []byte{0xfd, 0, 0, 0, 0, 0, 0, 1, 0, 0, 0, 0, 0, 0, 0, 0xa1}
	c21V6Dst = []byte{0xfd, 0, 0, 0, 0, 0, 0, 2, 0, 0, 0, 0, 0, 0, 0, 0xb2}
)

func c21FixV4(p []byte) []byte { // total length = buffer length, header checksum valid when the header is complete
	if len(p) >= 20 {
		binary.BigEndian.PutUint16(p[2:], uint16(len(p)))
		hl := int(p[0]&0x0f) * 4
		if hl >= 20 && hl <= len(p) {
			p[10], p[11] = 0, 0
			binary.BigEndian.PutUint16(p[10:], c21Sum(0, p[:hl]))
		}
	}
	return p
}

func c21BuildV4(ihl int, flagsFrag uint16, proto uint8, l4 []byte) []byte {
	hl := max(ihl*4, 20)
	p := make([]byte, hl+len(l4))
	p[0] = 0x40 | byte(ihl&0x0f)
	p[1] = 0xb8
	binary.BigEndian.PutUint16(p[4:], 0x4321)
	binary.BigEndian.PutUint16(p[6:], flagsFrag)
	p[8], p[9] = 3, proto
	copy(p[12:16], c21V4Src)
	copy(p[16:20], c21V4Dst)
	for i := 20; i < hl; i++ {
		p[i] = 1
	}
	copy(p[hl:], l4)
	return c21FixV4(p)
}

func c21TCP(sport, dport uint16, seq, ack uint32, doff int, flags byte, extra int) []byte {
	b := make([]byte, 20+extra)
	binary.BigEndian.PutUint16(b[0:], sport)
	binary.BigEndian.PutUint16(b[2:], dport)
	binary.BigEndian.PutUint32(b[4:], seq)
	binary.BigEndian.PutUint32(b[8:], ack)
	b[12], b[13] = byte(doff<<4)|0x0f, flags
	binary.BigEndian.PutUint16(b[14:], 0xffff)
	b[16], b[17], b[18], b[19] = 0xaa, 0xbb, 0xcc, 0xdd
	for i := 20; i < len(b); i++ {
		b[i] = byte(0xd0 + i)
	}
	return b
}

func c21UDP(sport, dport uint16, payload int) []byte {
	b := make([]byte, 8+payload)
	binary.BigEndian.PutUint16(b[0:], sport)
	binary.BigEndian.PutUint16(b[2:], dport)
	binary.BigEndian.PutUint16(b[4:], uint16(len(b)))
	b[6], b[7] = 0x12, 0x34
	for i := 8; i < len(b); i++ {
		b[i] = byte(0xe0 + i)
	}
	return b
}

func c21ICMP(typ, code uint8, payload int) []byte {
	b := make([]byte, 8+payload)
	b[0], b[1] = typ, code
	b[2], b[3] = 0x5a, 0x5a
	b[4], b[5], b[6], b[7] = 0xbe, 0xef, 0, 7
	for i := 8; i < len(b); i++ {
		b[i] = byte(0xc0 + i)
	}
	return b
}

var c21Fd = func() (b [256]byte) {
	for i := range b {
		b[i] = 0xfd
	}
	return
}()

type c21Sym struct {
	name string
	nh   uint8
	frag uint16
}

var c21Syms = []c21Sym{{"hbh", 0, 0}, {"rt", 43, 0}, {"dst", 60, 0}, {"frag0", 44, 1}, {"fragN", 44, 185<<3 | 1}, {"ah", 51, 0}}

// c21BuildV6: chain of symbols; lenMode 0 = all declared lengths 0, 1 = all 1, 2 = last length-carrying header 255.
func c21BuildV6(chain []uint8, lenMode int, upperNH uint8, upper []byte) []byte {
	sizes := make([]int, len(chain))
	decl := make([]int, len(chain))
	last := -1
	for i, s := range chain {
		if c21Syms[s].nh != 44 {
			last = i
		}
	}
	total := 40 + len(upper)
	for i, s := range chain {
		nh := c21Syms[s].nh
		if nh != 44 {
			if lenMode == 1 || (lenMode == 2 && i == last) {
				decl[i] = 1
				if lenMode == 2 {
					decl[i] = 255
				}
			}
		}
		switch nh {
		case 44:
			sizes[i] = 8
		case 51:
			sizes[i] = (decl[i] + 2) * 4
		default:
			sizes[i] = (decl[i] + 1) * 8
		}
		total += sizes[i]
	}
	p := make([]byte, total)
	p[0], p[1] = 0x6b, 0x80
	p[7] = 2
	copy(p[8:24], c21V6Src)
	copy(p[24:40], c21V6Dst)
	p[6] = upperNH
	off := 40
	for i, s := range chain {
		next := upperNH
		if i+1 < len(chain) {
			next = c21Syms[chain[i+1]].nh
		}
		if i == 0 {
			p[6] = c21Syms[s].nh
		}
		h := p[off : off+sizes[i]]
		for j := 0; j < len(h); j += copy(h[j:], c21Fd[:]) {
		}
		h[0], h[1] = next, byte(decl[i])
		if c21Syms[s].nh == 44 {
			h[1] = 0
			binary.BigEndian.PutUint16(h[2:], c21Syms[s].frag)
		}
		off += sizes[i]
	}
	copy(p[off:], upper)
	return c21FixV6(p)
}

func c21FixV6(p []byte) []byte {
	if len(p) >= 40 {
		binary.BigEndian.PutUint16(p[4:], uint16(len(p)-40))
	}
	return p
}

func c21Chains(fullLen, maxLen int) [][]uint8 {
	var out [][]uint8
	var rec func(cur []uint8, used uint8, nused int)
	rec = func(cur []uint8, used uint8, nused int) {
		out = append(out, append([]uint8{}, cur...))
		if len(cur) == maxLen {
			return
		}
		for s := range c21Syms {
			bit := uint8(1) << uint(s)
			nu := nused
			if used&bit == 0 {
				nu++
			}
			if len(cur)+1 > fullLen && nu > 2 {
				continue
			}
			rec(append(cur, uint8(s)), used|bit, nu)
		}
	}
	rec(nil, 0, 0)
	return out
}

type c21Upper struct {
	name string
	nh   uint8
	body []byte
}

// ---------------------------------------------------------------------------------------------------------------------

func TestVerifC21(t *testing.T) {
	c := mc.Begin(t, "C21", "exploration")
	defer c.End()
	defer debug.SetGCPercent(debug.SetGCPercent(1000)) // tiny live heap, high allocation rate: collect less often
	thorough := c.Thorough()
	lg := mc.Pick[uint](c, 26, 29)
	seen := &c21Bitmap{words: make([]atomic.Uint64, 1<<(lg-6)), mask: 1<<lg - 1}
	var jobs []c21Job

	words := []uint32{0, 1, 0xffffffff}
	if thorough {
		words = append(words, 0x7fffffff, 0x80000000, 0xfffffff0)
	}
	doffs := mc.Pick(c, []int{5, 6, 15, 0}, []int{0, 1, 4, 5, 6, 7, 10, 15})
	extras := mc.Pick(c, []int{0, 1, 9, 40}, []int{0, 1, 2, 4, 9, 40, 41, 200})
	ihls := mc.Pick(c, []int{5, 6, 15}, []int{5, 6, 7, 8, 9, 10, 11, 12, 13, 14, 15})
	frags := []uint16{0x0000, 0x4000, 0x2000, 0x0001, 0x0100, 0x1fff, 0x2000 | 185, 0x8000}

	// ---- IPv4 TCP: every flag byte x seq x ack x data offset x payload ---------------------------------------------
	for _, ihl := range ihls {
		for _, ff := range frags {
			jobs = append(jobs, c21Job{"v4-tcp", func(w *c21Worker) {
				for fl := 0; fl < 256; fl++ {
					for _, seq := range words {
						for _, ack := range words {
							for _, doff := range doffs {
								for _, ex := range extras {
									caps := c21LiteCaps
									if (ff == 0 || ff == 0x2000) && ihl <= 6 && seq == 1 && ex <= 9 { // full capacity list on a slice of the product
										caps = c21BaseCaps
									}
									w.checkAll(c21BuildV4(ihl, ff, 6, c21TCP(0x8d1b, 22, seq, ack, doff, byte(fl), ex)), caps)
								}
							}
						}
					}
				}
			}})
		}
	}
	// IPv4 TCP with a truncated TCP header (every length 0..19 of the TCP part)
	jobs = append(jobs, c21Job{"v4-tcp-truncated", func(w *c21Worker) {
		for _, ihl := range ihls {
			for _, ff := range frags {
				full := c21BuildV4(ihl, ff, 6, c21TCP(1, 2, 3, 4, 5, 0x02, 0))
				for l := ihl * 4; l < len(full); l++ {
					w.checkAll(c21FixV4(append([]byte{}, full[:l]...)), c21BaseCaps)
				}
			}
		}
	}})

	// ---- IPv4 ICMP: every type x codes x length of the ICMP part; other protocols -----------------------------------
	allIHL := []int{0, 1, 4, 5, 6, 7, 8, 9, 10, 11, 12, 13, 14, 15}
	for _, ihl := range allIHL {
		jobs = append(jobs, c21Job{"v4-icmp", func(w *c21Worker) {
			for _, ff := range frags {
				for ty := 0; ty < 256; ty++ {
					for _, code := range []uint8{0, 13} {
						full := c21BuildV4(ihl, ff, 1, c21ICMP(uint8(ty), code, 12))
						hl := max(ihl*4, 20)
						for _, l := range []int{hl, hl + 1, hl + 4, hl + 7, hl + 8, hl + 9, hl + 20} {
							w.checkAll(c21FixV4(append([]byte{}, full[:l]...)), c21BaseCaps)
						}
					}
				}
			}
		}})
		jobs = append(jobs, c21Job{"v4-other", func(w *c21Worker) {
			for _, ff := range frags {
				for _, proto := range []uint8{17, 47, 50, 58, 0, 255, 2, 132, 41} {
					for _, pl := range []int{0, 1, 7, 8, 9, 64} {
						body := c21UDP(36123, 53, 64)[:pl]
						w.checkAll(c21BuildV4(ihl, ff, proto, body), c21BaseCaps)
					}
				}
				// header cut inside the options / inside the fixed header
				full := c21BuildV4(ihl, ff, 17, c21UDP(1, 2, 4))
				for l := 0; l < max(ihl*4, 20); l++ {
					w.checkAll(c21FixV4(append([]byte{}, full[:l]...)), c21BaseCaps)
				}
			}
		}})
	}
	// every value of the IPv4 flags/fragment-offset field and of the IPv6 fragment header's offset/flags field
	for hi := 0; hi < 256; hi++ {
		jobs = append(jobs, c21Job{"fragment-field-sweep", func(w *c21Worker) {
			for lo := 0; lo < 256; lo++ {
				ff := uint16(hi)<<8 | uint16(lo)
				for _, l4 := range []struct {
					proto uint8
					body  []byte
				}{{6, c21TCP(7, 8, 9, 10, 5, 0x02, 4)}, {17, c21UDP(7, 8, 4)}, {1, c21ICMP(8, 0, 4)}} {
					w.checkAll(c21BuildV4(5, ff, l4.proto, l4.body), c21LiteCaps)
					nh := l4.proto
					if nh == 1 {
						nh = 58
						l4.body = c21ICMP(128, 0, 4)
					}
					for _, ch := range [][]uint8{{3}, {2, 3}} {
						p := c21BuildV6(ch, 0, nh, l4.body)
						binary.BigEndian.PutUint16(p[40+8*(len(ch)-1)+2:], ff)
						w.checkAll(p, c21LiteCaps)
					}
				}
			}
		}})
	}
	// every protocol number
	jobs = append(jobs, c21Job{"v4-every-protocol", func(w *c21Worker) {
		for proto := 0; proto < 256; proto++ {
			for _, ff := range []uint16{0, 0x2000, 1} {
				w.checkAll(c21BuildV4(5, ff, uint8(proto), c21TCP(7, 8, 9, 10, 5, 0x02, 4)), c21BaseCaps)
			}
		}
	}})
	// not an IP packet: every first byte x short lengths
	jobs = append(jobs, c21Job{"short-or-unknown-version", func(w *c21Worker) {
		w.checkAll([]byte{}, c21BaseCaps)
		for b0 := 0; b0 < 256; b0++ {
			for _, l := range []int{1, 2, 19, 20, 39, 40, 60} {
				p := make([]byte, l)
				for i := range p {
					p[i] = byte(i)
				}
				p[0] = byte(b0)
				w.checkAll(p, c21BaseCaps)
			}
		}
	}})

	// ---- IPv6 --------------------------------------------------------------------------------------------------------
	// (a) TCP product on short chains
	tcpChains := [][]uint8{{}, {0}, {2, 1}, {3}, {5}, {4}}
	for _, ch := range tcpChains {
		for _, doff := range doffs {
			jobs = append(jobs, c21Job{"v6-tcp", func(w *c21Worker) {
				for fl := 0; fl < 256; fl++ {
					for _, seq := range words {
						for _, ack := range words {
							for _, ex := range extras {
								caps := c21LiteCaps
								if seq == 1 && ex <= 1 {
									caps = c21BaseCaps
								}
								w.checkAll(c21BuildV6(ch, 0, 6, c21TCP(0x8d1b, 22, seq, ack, doff, byte(fl), ex)), caps)
							}
						}
					}
				}
			}})
		}
	}
	// (b) every ICMPv6 type / every next-header value on chains of length <= 2, every truncation, all capacities
	short := c21Chains(2, 2)
	for _, ch := range short {
		jobs = append(jobs, c21Job{"v6-icmp-types", func(w *c21Worker) {
			for ty := 0; ty < 256; ty++ {
				full := c21BuildV6(ch, 0, 58, c21ICMP(uint8(ty), 0, 12))
				upper := len(full) - 20
				for _, l := range []int{upper, upper + 1, upper + 4, upper + 8, upper + 20} {
					w.checkAll(c21FixV6(append([]byte{}, full[:l]...)), c21BaseCaps)
				}
			}
			for nh := 0; nh < 256; nh++ {
				w.checkAll(c21BuildV6(ch, 0, uint8(nh), c21TCP(7, 8, 9, 10, 5, 0x12, 4)), c21BaseCaps)
			}
		}})
	}
	uppers := []c21Upper{
		{"tcp-syn", 6, c21TCP(36123, 22, 0x01020304, 0, 5, 0x02, 0)},
		{"tcp-ack", 6, c21TCP(36123, 22, 0x01020304, 0x0a0b0c0d, 5, 0x10, 8)},
		{"tcp-fin-options", 6, c21TCP(36123, 22, 0xfffffffe, 0, 6, 0x01, 9)},
		{"udp", 17, c21UDP(36123, 53, 12)},
		{"icmp6-echo", 58, c21ICMP(128, 0, 8)},
		{"icmp6-ns", 58, c21ICMP(135, 0, 16)},
		{"icmp6-unreach", 58, c21ICMP(1, 1, 8)},
		{"icmp6-toobig", 58, c21ICMP(2, 0, 8)},
		{"icmp6-time", 58, c21ICMP(3, 0, 8)},
		{"icmp6-param", 58, c21ICMP(4, 0, 8)},
		{"no-next-header", 59, []byte{1, 2, 3, 4}},
		{"sctp", 132, c21UDP(5000, 5001, 4)},
		{"mobility", 135, []byte{6, 0, 0x12, 0x34, 0x00, 0x50, 0, 0}},
		{"big-udp", 17, c21UDP(1, 2, 1400)},
	}
	// (c) truncations of short chains with a consistent payload length
	for _, ch := range short {
		jobs = append(jobs, c21Job{"v6-truncations", func(w *c21Worker) {
			for _, lm := range []int{0, 1} {
				for _, up := range uppers {
					if len(up.body) > 100 {
						continue
					}
					full := c21BuildV6(ch, lm, up.nh, up.body)
					for l := 0; l <= len(full); l++ {
						w.checkAll(c21FixV6(append([]byte{}, full[:l]...)), c21LiteCaps)
					}
				}
			}
		}})
	}
	// (d) chains up to length 10 x upper layers x declared lengths
	fullLen := mc.Pick(c, 3, 6)
	maxLen := mc.Pick(c, 10, 14)
	chains := c21Chains(fullLen, maxLen)
	lenModes := mc.Pick(c, []int{0, 2}, []int{0, 1, 2})
	const chunk = 64
	for lo := 0; lo < len(chains); lo += chunk {
		hi := min(lo+chunk, len(chains))
		jobs = append(jobs, c21Job{"v6-chains", func(w *c21Worker) {
			for _, ch := range chains[lo:hi] {
				for _, lm := range lenModes {
					if lm != 0 {
						has := false
						for _, s := range ch {
							if c21Syms[s].nh != 44 {
								has = true
							}
						}
						if !has {
							continue
						}
					}
					for _, up := range uppers {
						caps := c21LiteCaps
						if len(ch) <= 3 {
							caps = c21BaseCaps
						}
						w.checkAll(c21BuildV6(ch, lm, up.nh, up.body), caps)
					}
				}
			}
		}})
	}
	c.Set("v6_chains", len(chains))
	c.Set("v6_chains_exhaustive_up_to_length", fullLen)
	c.Set("v6_chain_max_length", maxLen)
	c.Set("v6_upper_layer_kinds", len(uppers))
	c.Set("output_capacities", c21BaseCaps)
	c.Set("output_capacities_note", "every packet additionally runs with capacity = expected reply size - 1 and = expected reply size; large products use capacity 2000 plus those two")
	c.Set("jobs", len(jobs))

	// strided order: should the soft budget cut the run short, every family has been touched
	stride := 97
	for len(jobs)%stride == 0 {
		stride += 2
	}
	ordered := make([]c21Job, len(jobs))
	for i := range jobs {
		ordered[i] = jobs[i*stride%len(jobs)]
	}
	workers, capped := c21RunJobs(c, seen, ordered)

	// ---- merge -------------------------------------------------------------------------------------------------------
	var evals, replies, nontrivial, violating int64
	fam := map[string]int64{}
	outcome := map[string]int64{}
	viol := map[string]*c21Viol{}
	samples := map[string][]any{}
	for _, w := range workers {
		evals += w.evals
		replies += w.replies
		nontrivial += w.nontrivial
		violating += w.violating
		for k, v := range w.fam {
			fam[k] += v
		}
		for k, v := range w.outcome {
			if k.oc == "" {
				outcome[k.class] += v
			} else {
				outcome[k.class+"/"+k.oc] += v
			}
		}
		for k, v := range w.samples {
			samples[k] = append(samples[k], v...)
		}
		for sig, v := range w.viol {
			old := viol[sig]
			if old == nil || len(v.data) < len(old.data) || (len(v.data) == len(old.data) && (string(v.data) < string(old.data) || (string(v.data) == string(old.data) && v.cap < old.cap))) {
				viol[sig] = v
			}
		}
	}
	sigs := make([]string, 0, len(viol))
	for s := range viol {
		sigs = append(sigs, s)
	}
	sort.Strings(sigs)
	for _, s := range sigs {
		c.Violation(s, viol[s].detail)
	}
	for _, cl := range []string{"v4-tcp", "v4-icmp-query", "v4-other", "v6-tcp", "v6-icmp-info", "v6-other"} {
		if xs := samples[cl]; len(xs) > 0 {
			c.Sample(xs[0])
		}
	}

	// ---- vacuity guards ------------------------------------------------------------------------------------------------
	var unmet []string
	for _, k := range []string{
		"v4-tcp/reset", "v6-tcp/reset", "rst/for-ack", "rst/for-non-ack",
		"v4-icmp-query/icmp", "v4-other/icmp", "v6-icmp-info/icmp", "v6-other/icmp",
		"v4-non-first-fragment/nil", "v6-non-first-fragment/nil", "v4-icmp-error/nil", "v6-icmp-error/nil",
		"v4-tcp-short/nil", "v6-tcp-short/nil", "no-header/nil", "v6-chain-unresolved/nil",
		"v4-tcp/nil-small-buffer", "v6-tcp/nil-small-buffer", "v4-other/nil-small-buffer", "v6-other/nil-small-buffer",
		"reply-at-exact-capacity",
	} {
		if outcome[k] == 0 {
			unmet = append(unmet, fmt.Sprintf("outcome class %q never observed", k))
		}
	}
	if len(outcome) < 20 {
		unmet = append(unmet, fmt.Sprintf("only %d distinct outcome classes", len(outcome)))
	}
	// A run that found violations is a verdict already, and a run cut short by the soft budget finishes normally with
	// exhaustive=false: in both cases unmet guards are recorded, not fatal.
	if len(unmet) > 0 {
		switch {
		case len(viol) > 0:
			c.Set("vacuity_guards_unmet", map[string]any{"because": "violations found", "guards": unmet})
		case capped:
			c.Set("vacuity_guards_unmet", map[string]any{"because": "soft time budget hit", "guards": unmet})
		default:
			c.Require(false, "%v (outcomes: %v)", unmet, outcome)
		}
	}

	c.Set("evaluations", evals)
	c.Set("distinct_nontrivial", nontrivial)
	c.Set("rule", "one evaluation = one CreateRejectPacket call on one (packet, output capacity); the families enumerate their boxes completely. Non-trivial = a reply was produced (and decoded by the reference decoder); "+
		"distinct = first occurrence of a 64-bit hash of (packet bytes, capacity) in a fixed hash bitmap, a collision counting as a duplicate (lower bound).")
	c.Set("replies_decoded", replies)
	c.Set("packets_per_family", fam)
	c.Set("outcomes", outcome)
	c.Set("distinct_outcome_classes", len(outcome))
	c.Set("violating_evaluations", violating)

	c.Assume("buffer length equals the IP length (IPv4 total length / IPv6 payload length are set from the buffer): netfilter derives the reset ack number from the IP length, nebula from the buffer; packets from tun are consistent, trailing garbage is out of scope")
	c.Assume("no reply (nil) is always permitted; replies are only required in aggregate (vacuity guards: every reply class observed, including at the exact capacity)")
	c.Assume("ICMP error messages = IPv4 types 3,4,5,11,12 (RFC 1122) and ICMPv6 types 1-4 (RFC 4443); unassigned ICMPv6 types 5-127 are not treated as errors (weaker reading)")
	c.Assume("a TCP packet is one whose (resolved) upper-layer protocol is 6 and that is not a non-first fragment; the reset formula is nf_reject's, computed modulo 2^32, also for nonsensical data offsets")
	c.Assume("IPv4 packets with IHL < 5 are not IPv4 packets (newPacket rejects them before any reject reply): only no-panic and IP-level well-formedness of a reply are asserted for them")
	c.Assume("when the IPv6 extension chain cannot be resolved inside the buffer the upper layer is unknown: a reply, if any, must be a well-formed ICMPv6 error")
	c.Assume("well-formed ICMP error: unused field zero, body is a prefix of the original packet holding at least the IP header (+64 bits for IPv4, RFC 792)")
}
