//go:build verif && linux && !android && !e2e_testing

package udp

import (
	"encoding/binary"
	"fmt"
	"math"
	"net/netip"
	"os"
	"runtime"
	"runtime/debug"
	"strings"
	"sync"
	"sync/atomic"
	"syscall"
	"testing"
	"time"

	"github.com/slackhq/nebula/zzverif/mc"
	"golang.org/x/sys/unix"
)

// C27 — received offload superdatagrams split back exactly; parsing the ancillary data never reads outside it.
//
// Part A (deliverSegments): every payload length x every segment size of a box (incl. zero, negative, equal to and
// above the length, and extreme ints) against a naive splitter.
// Part B (parseRecvCmsg): every control buffer built from <= 3 cmsgs over adversarial Len / level / type / data
// alphabets, truncated at EVERY byte length, placed (i) so that its last byte is the last byte before a PROT_NONE
// page and (ii) so that its first byte is the first byte after a PROT_NONE page. A read outside the ancillary data is a
// hardware fault (turned into a panic by debug.SetPanicOnFault) or a Go bounds panic; the result is compared with an
// independent CMSG_FIRSTHDR/CMSG_NXTHDR walk over the byte string.

// ---------------------------------------------------------------------------------------------------------------------
// Part A: deliverSegments

// c27RefSplit is the statement transcribed: a usable size splits into consecutive pieces of that size, the last may be
// shorter; a missing (0) or nonsensical (negative) size delivers whole. A size >= len yields one piece either way.
func c27RefSplit(n, seg int) []int {
	if seg <= 0 || n == 0 {
		return []int{n}
	}
	var out []int
	for rem := n; rem > 0; rem -= seg {
		if rem < seg {
			out = append(out, rem)
			break
		}
		out = append(out, seg)
	}
	return out
}

type c27SegStats struct {
	evals, multi3, shortLast, evenSplit, wholeBogus, wholeLarge, spareCap int64
}

func c27CheckSplit(c *mc.Check, st *c27SegStats, row []byte, n, seg int) {
	st.evals++
	from := netip.AddrPortFrom(netip.AddrFrom4([4]byte{192, 0, 2, byte(n)}), uint16(seg))
	// the payload sits in a longer receive row (as in ListenOut); bytes behind it are poison
	for i := range row {
		row[i] = 0xEE
	}
	payload := row[:n]
	for i := range payload {
		payload[i] = byte(i*7 + 1)
	}
	var gotLens []int
	var cat []byte
	spare := false
	panicked := any(nil)
	func() {
		defer func() { panicked = recover() }()
		deliverSegments(func(a netip.AddrPort, seg []byte) {
			if len(gotLens) > n+2 {
				panic("harness: more pieces than payload bytes (splitter does not advance)")
			}
			gotLens = append(gotLens, len(seg))
			cat = append(cat, seg...)
			if cap(seg) != len(seg) {
				spare = true
			}
		}, from, payload, seg)
	}()
	class := "usable size"
	switch {
	case seg == 0:
		class = "missing size (0)"
	case seg < 0:
		class = "negative size"
	case seg == n:
		class = "size equal to the length"
	case seg > n:
		class = "size above the length"
	}
	det := map[string]any{"payload_len": n, "seg_size": seg, "got_piece_lens": gotLens}
	if panicked != nil {
		det["panic"] = fmt.Sprint(panicked)
		if strings.HasPrefix(fmt.Sprint(panicked), "harness: more pieces") {
			det["got_piece_lens"] = gotLens[:4]
			c.Violation("deliverSegments never finishes (delivers pieces without advancing): "+class, det)
			return
		}
		c.Violation("deliverSegments panics: "+class, det)
		return
	}
	want := c27RefSplit(n, seg)
	det["want_piece_lens"] = want
	okLens := len(gotLens) == len(want)
	if okLens {
		for i := range want {
			if gotLens[i] != want[i] {
				okLens = false
			}
		}
	}
	if n == 0 && len(gotLens) == 0 {
		okLens = true // ◊ an empty datagram may be delivered as one empty piece or not at all: both tile it exactly
	}
	if !okLens {
		c.Violation("deliverSegments: wrong piece sizes: "+class, det)
	}
	if string(cat) != string(payload) {
		c.Violation("deliverSegments: pieces do not concatenate to the received bytes: "+class, det)
	}
	if spare {
		st.spareCap++
	}
	switch {
	case seg <= 0:
		st.wholeBogus++
	case seg >= n:
		st.wholeLarge++
	default:
		if len(want) >= 3 {
			st.multi3++
		}
		if n%seg != 0 {
			st.shortLast++
		} else {
			st.evenSplit++
		}
	}
}

// ---------------------------------------------------------------------------------------------------------------------
// Part B: parseRecvCmsg against guard pages

const c27Hdr = 16 // sizeof(struct cmsghdr) on 64-bit linux; asserted against unix.SizeofCmsghdr below

type c27Arena struct {
	mem  []byte // 3 pages: [PROT_NONE][RW][PROT_NONE]
	page int
}

func c27NewArena() (*c27Arena, error) {
	pg := syscall.Getpagesize()
	m, err := syscall.Mmap(-1, 0, 3*pg, syscall.PROT_READ|syscall.PROT_WRITE, syscall.MAP_ANON|syscall.MAP_PRIVATE)
	if err != nil {
		return nil, err
	}
	if err := syscall.Mprotect(m[:pg], syscall.PROT_NONE); err != nil {
		return nil, err
	}
	if err := syscall.Mprotect(m[2*pg:], syscall.PROT_NONE); err != nil {
		return nil, err
	}
	return &c27Arena{mem: m, page: pg}, nil
}

func (a *c27Arena) free() { _ = syscall.Munmap(a.mem) }

// place copies b so that it ends right before the back guard page (back=true) or starts right after the front guard.
func (a *c27Arena) place(b []byte, back bool) *byte {
	rw := a.mem[a.page : 2*a.page]
	if len(b) == 0 {
		if back {
			return &rw[len(rw)-1] // any valid pointer; Controllen 0
		}
		return &rw[0]
	}
	if back {
		dst := rw[len(rw)-len(b):]
		copy(dst, b)
		return &dst[0]
	}
	copy(rw, b)
	return &rw[0]
}

// c27Probe: does touching p fault? (self test of the guard pages)
func c27Probe(p *byte) (faulted bool) {
	defer func() {
		if r := recover(); r != nil {
			faulted = true
		}
	}()
	c27Sink.Add(int64(*p))
	return false
}

var c27Sink atomic.Int64

type c27Spec struct {
	kind  int // 0 GRO, 1 SOL_UDP/UDP_SEGMENT, 2 IPPROTO_IP/IP_TOS, 3 IPPROTO_IP with type UDP_GRO, 4 level and type swapped
	phys  int  // physical data bytes laid out behind the header: 0 or 8
	lenV  uint64 // the Len field (independent of phys: true and bogus values alike)
	hasV  bool // data = val (4 bytes, native endian) + 0xEE fill; otherwise all 0xEE
	val   uint32
}

func (s c27Spec) String() string {
	k := []string{"SOL_UDP/UDP_GRO", "SOL_UDP/UDP_SEGMENT", "IPPROTO_IP/IP_TOS", "IPPROTO_IP/type=UDP_GRO", "swapped(level=UDP_GRO,type=SOL_UDP)"}[s.kind]
	d := "none"
	if s.phys > 0 {
		d = "EE.."
		if s.hasV {
			d = fmt.Sprintf("%#x", s.val)
		}
	}
	return fmt.Sprintf("{%s len=%#x data=%s}", k, s.lenV, d)
}

func c27Encode(dst []byte, s c27Spec) []byte {
	var h [c27Hdr]byte
	binary.NativeEndian.PutUint64(h[0:8], s.lenV)
	var level, typ int32
	switch s.kind {
	case 0:
		level, typ = unix.SOL_UDP, unix.UDP_GRO
	case 1:
		level, typ = unix.SOL_UDP, unix.UDP_SEGMENT
	case 2:
		level, typ = unix.IPPROTO_IP, unix.IP_TOS
	case 3:
		level, typ = unix.IPPROTO_IP, unix.UDP_GRO
	case 4:
		level, typ = unix.UDP_GRO, unix.SOL_UDP
	}
	binary.NativeEndian.PutUint32(h[8:12], uint32(level))
	binary.NativeEndian.PutUint32(h[12:16], uint32(typ))
	dst = append(dst, h[:]...)
	var d [8]byte
	for i := range d {
		d[i] = 0xEE
	}
	if s.hasV {
		binary.NativeEndian.PutUint32(d[0:4], s.val)
	}
	dst = append(dst, d[:s.phys]...)
	return dst
}

type c27RefResult struct {
	cands       [4]int32
	nc          int
	unspecified bool // a UDP_GRO cmsg shorter than its 4 data bytes was met: the statement does not define the value
	stopBogus   bool // walk ended on a nonsensical Len
	exactFit    bool // a UDP_GRO cmsg whose data ends exactly at the end of the ancillary data
}

// c27Ref walks the byte string the way CMSG_FIRSTHDR / CMSG_NXTHDR document it. Independent of the code under test:
// works on a plain []byte copy with explicit unsigned arithmetic.
func c27Ref(b []byte) (r c27RefResult) {
	off := uint64(0)
	n := uint64(len(b))
	for n-off >= c27Hdr {
		l := binary.NativeEndian.Uint64(b[off : off+8])
		if l < c27Hdr || l > n-off {
			r.stopBogus = true
			return
		}
		level := int32(binary.NativeEndian.Uint32(b[off+8 : off+12]))
		typ := int32(binary.NativeEndian.Uint32(b[off+12 : off+16]))
		if level == unix.SOL_UDP && typ == unix.UDP_GRO {
			if l >= c27Hdr+4 {
				v := int32(binary.NativeEndian.Uint32(b[off+c27Hdr : off+c27Hdr+4]))
				if r.nc < len(r.cands) {
					r.cands[r.nc] = v
					r.nc++
				}
				if off+c27Hdr+4 == n {
					r.exactFit = true
				}
			} else {
				r.unspecified = true
			}
		}
		adv := (l + 7) &^ 7
		if adv >= n-off {
			return
		}
		off += adv
	}
	return
}

type c27CmsgStats struct {
	evals, found, zero, bogusStop, unspecified, exactFit, multiCand, negative, distinctNT int64
	results                                                                 map[int]struct{}
	samples                                                                 []any
}

func c27CallParse(ctl *byte, n int) (got int, fault string) {
	defer func() {
		if r := recover(); r != nil {
			fault = fmt.Sprint(r)
			if e, ok := r.(runtime.Error); ok {
				if _, isAddr := e.(interface{ Addr() uintptr }); isAddr {
					fault = "memory fault: " + fault
				}
			}
		}
	}()
	var hdr msghdr
	hdr.Control = ctl
	setMsgControllen(&hdr, n)
	return parseRecvCmsg(&hdr), ""
}

func c27CheckCtrl(c *mc.Check, st *c27CmsgStats, a *c27Arena, b []byte, back bool, huge bool, whole bool, desc func() string) {
	st.evals++
	p := a.place(b, back)
	got, fault := c27CallParse(p, len(b))
	ref := c27Ref(b)
	where := "ending at a guard page"
	if !back {
		where = "starting after a guard page"
	}
	if fault != "" {
		kind := "panics"
		if strings.HasPrefix(fault, "memory fault") {
			kind = "reads outside the ancillary data (hardware fault)"
		}
		lenClass := "small Len fields only"
		if huge {
			lenClass = "a Len field >= 2^31"
		}
		c.Violation(fmt.Sprintf("parseRecvCmsg %s; buffer with %s", kind, lenClass),
			map[string]any{"control_hex": fmt.Sprintf("%x", b), "controllen": len(b), "placement": where, "fault": fault, "built_from": desc()})
		return
	}
	if ref.stopBogus {
		st.bogusStop++
	}
	if whole && back && (ref.stopBogus || (!ref.unspecified && ref.nc > 0 && got != 0)) {
		st.distinctNT++ // untruncated buffers are pairwise distinct byte strings by construction
	}
	if ref.exactFit {
		st.exactFit++
	}
	if ref.unspecified {
		st.unspecified++
		return
	}
	ok := false
	if ref.nc == 0 {
		ok = got == 0
	} else {
		if ref.nc > 1 {
			st.multiCand++
		}
		for i := 0; i < ref.nc; i++ {
			if got == int(ref.cands[i]) {
				ok = true
			}
		}
	}
	if !ok {
		var want []int32
		want = append(want, ref.cands[:ref.nc]...)
		sig := "parseRecvCmsg misses or invents a UDP_GRO size"
		if ref.exactFit {
			sig = "parseRecvCmsg misses a UDP_GRO size whose data ends exactly at the end of the ancillary data"
		} else if ref.nc == 0 {
			sig = "parseRecvCmsg reports a size although no well-formed UDP_GRO cmsg is present"
		}
		c.Violation(sig, map[string]any{"control_hex": fmt.Sprintf("%x", b), "controllen": len(b), "got": got, "want_one_of": want, "built_from": desc()})
		return
	}
	if got != 0 {
		st.found++
		if got < 0 {
			st.negative++
		}
	} else {
		st.zero++
	}
	if len(st.results) < 4096 {
		st.results[got] = struct{}{}
	}
}

func TestVerifC27(t *testing.T) {
	c := mc.Begin(t, "C27", "exploration")
	defer c.End()
	c.Require(unix.SizeofCmsghdr == c27Hdr && unix.CmsgLen(0) == c27Hdr && unix.CmsgSpace(1) == c27Hdr+8,
		"harness assumes the 64-bit cmsghdr layout (16-byte header, 8-byte alignment)")

	// ---------------- Part A ----------------
	var seg c27SegStats
	maxLen := mc.Pick(c, 96, 400)
	row := make([]byte, 70000)
	for n := 0; n <= maxLen; n++ {
		for s := -3; s <= maxLen+3; s++ {
			c27CheckSplit(c, &seg, row[:n+64], n, s)
		}
		for _, s := range []int{math.MinInt, math.MinInt + 1, math.MinInt32, -1 << 31, 1 << 16, 1<<31 - 1, 1 << 31, 1 << 32, math.MaxInt - 1, math.MaxInt} {
			c27CheckSplit(c, &seg, row[:n+64], n, s)
		}
	}
	// production-scale shapes: GRO rows up to udpGROBufferSize with real-world segment sizes and off-by-one neighbours
	bigLens := []int{1399, 1400, 1401, 2800, 4200, 8999, 9001, 65000, 65499, 65500, 65501, udpGROBufferSize - 1, udpGROBufferSize}
	if c.Thorough() {
		for n := 60000; n <= 60300; n++ {
			bigLens = append(bigLens, n)
		}
	}
	for _, n := range bigLens {
		for _, s := range []int{-1, 0, 1, 2, 3, 7, 64, 1199, 1200, 1372, 1399, 1400, 1401, 1472, 8972, n/2 - 1, n / 2, n/2 + 1, n - 1, n, n + 1, 65535, math.MaxInt} {
			c27CheckSplit(c, &seg, row[:n+64], n, s)
		}
	}
	c.Sample(map[string]any{"part": "deliverSegments", "payload_len": 10, "seg_size": 4, "reference_pieces": c27RefSplit(10, 4)})
	c.Require(seg.multi3 > 0 && seg.shortLast > 0 && seg.evenSplit > 0 && seg.wholeBogus > 0 && seg.wholeLarge > 0,
		"split classes not all reached: %+v", seg)

	// ---------------- Part B ----------------
	a0, err := c27NewArena()
	if err != nil {
		c.Broken("mmap/mprotect: %v", err)
	}
	old := debug.SetPanicOnFault(true)
	backGuard := c27Probe(&a0.mem[2*a0.page])
	frontGuard := c27Probe(&a0.mem[a0.page-1])
	inside := c27Probe(&a0.mem[a0.page]) || c27Probe(&a0.mem[2*a0.page-1])
	debug.SetPanicOnFault(old)
	a0.free()
	c.Require(backGuard && frontGuard && !inside, "guard pages do not behave: back=%v front=%v inside=%v", backGuard, frontGuard, inside)

	const m63 = uint64(1) << 63
	lensFull := []uint64{0, 1, 15, 16, 17, 19, 20, 21, 23, 24, 25, 32, 40, 1 << 31, 1 << 32, m63 - 1, m63 - 7, m63 - 8, m63 - 9, m63 - 16, m63 - 24, m63 - 32, m63 - 48, m63, m63 + 16, math.MaxUint64 - 7, math.MaxUint64}
	lensSmall := []uint64{0, 15, 16, 20, 24, 1 << 31, m63 - 8, m63 - 24, m63, math.MaxUint64}
	valsFull := []uint32{1400, 0, 0xffffffff, 0x80000000, 0x00010000, 0xfffffff0}
	valsSmall := []uint32{1400, 0xfffffff0}
	type alpha struct {
		kinds []int
		lens  []uint64
		vals  []uint32
	}
	// every spec tuple encodes to a different byte string (kind -> level/type, phys -> size, lenV -> Len, data)
	mkSpecs := func(al alpha) []c27Spec {
		var out []c27Spec
		for _, k := range al.kinds {
			for _, l := range al.lens {
				out = append(out, c27Spec{kind: k, phys: 0, lenV: l})
				out = append(out, c27Spec{kind: k, phys: 8, lenV: l})
				for _, v := range al.vals {
					out = append(out, c27Spec{kind: k, phys: 8, lenV: l, hasV: true, val: v})
				}
			}
		}
		return out
	}
	full := mkSpecs(alpha{[]int{0, 1, 2, 3, 4}, lensFull, valsFull})
	mid := mkSpecs(alpha{[]int{0, 1, 3}, lensSmall, valsSmall})
	tails := [][]byte{nil, {0}, make([]byte, 8), []byte(strings.Repeat("\xff", 15)), make([]byte, 16), []byte(strings.Repeat("\xff", 16)), []byte(strings.Repeat("\xff", 17))}

	// the enumeration: first cmsg index is the parallel work item
	type plan struct {
		name           string
		s1, s2, s3     []c27Spec // s2/s3 nil = fewer cmsgs
		tails          [][]byte
		bothPlacements bool
	}
	big := mkSpecs(alpha{[]int{0, 1, 2, 3, 4}, []uint64{0, 1, 15, 16, 17, 19, 20, 21, 24, 25, 32, 40, 1 << 31, 1 << 32, m63 - 1, m63 - 8, m63 - 9, m63 - 16, m63 - 24, m63 - 48, m63, math.MaxUint64 - 7, math.MaxUint64}, []uint32{1400, 0, 0xfffffff0}})
	three := mc.Pick(c, mid, big)
	plans := []plan{
		{"1 cmsg, full alphabet, all tails, both placements", full, nil, nil, tails, true},
		{"2 cmsgs, full alphabet, " + mc.Pick(c, "4", "all") + " tails, both placements", full, full, nil, mc.Pick(c, tails[:4], tails), true},
		{"2 cmsgs, reduced alphabet, all tails, both placements", mid, mid, nil, tails, true},
		{"3 cmsgs, reduced alphabet, 3 tails, " + mc.Pick(c, "back placement", "both placements"), three, three, three, tails[:3], mc.Pick(c, false, true)},
	}
	var total c27CmsgStats
	total.results = map[int]struct{}{}
	// hang detector: parseRecvCmsg is a loop over attacker-controlled lengths; a walk that stops advancing cannot be
	// interrupted from inside, so a watchdog reports it (20 s without progress; one evaluation takes ~50 ns).
	type c27Worker struct {
		beat   atomic.Int64
		active atomic.Bool
		cur    [512]byte
		n, cut int
	}
	workers := make([]*c27Worker, runtime.GOMAXPROCS(0))
	for i := range workers {
		workers[i] = &c27Worker{}
	}
	stopDog := make(chan struct{})
	defer close(stopDog)
	go func() {
		last := make([]int64, len(workers))
		stale := make([]int, len(workers))
		tk := time.NewTicker(2 * time.Second)
		defer tk.Stop()
		for {
			select {
			case <-stopDog:
				return
			case <-tk.C:
			}
			for i, w := range workers {
				b := w.beat.Load()
				if w.active.Load() && b == last[i] {
					stale[i]++
				} else {
					stale[i] = 0
				}
				last[i] = b
				if stale[i] >= 10 {
					c.Violation("parseRecvCmsg does not terminate (walk stops advancing)", map[string]any{"control_hex": fmt.Sprintf("%x", w.cur[:w.n]), "controllen": w.cut})
					os.Exit(1)
				}
			}
		}
	}()
	var mu sync.Mutex
	var capped atomic.Bool
	planSizes := map[string]int64{}
	for _, pl := range plans {
		var next atomic.Int64
		var wg sync.WaitGroup
		var planEvals atomic.Int64
		for w := 0; w < len(workers); w++ {
			wg.Add(1)
			ws := workers[w]
			go func() {
				defer wg.Done()
				ws.active.Store(true)
				defer ws.active.Store(false)
				defer debug.SetPanicOnFault(debug.SetPanicOnFault(true))
				runtime.LockOSThread()
				defer runtime.UnlockOSThread()
				a, err := c27NewArena()
				if err != nil {
					panic(fmt.Sprintf("harness: mmap/mprotect: %v", err))
				}
				defer a.free()
				st := c27CmsgStats{results: map[int]struct{}{}}
				buf := make([]byte, 0, 256)
				for {
					i := int(next.Add(1) - 1)
					if i >= len(pl.s1) || c.Violations() > 40 {
						break
					}
					if c.OutOfTime() {
						capped.Store(true)
						break
					}
					seconds := pl.s2
					if seconds == nil {
						seconds = []c27Spec{{kind: -1}}
					}
					for _, s2 := range seconds {
						thirds := pl.s3
						if thirds == nil || s2.kind < 0 {
							thirds = []c27Spec{{kind: -1}}
						}
						for _, s3 := range thirds {
							for _, tail := range pl.tails {
								buf = c27Encode(buf[:0], pl.s1[i])
								if s2.kind >= 0 {
									buf = c27Encode(buf, s2)
								}
								if s3.kind >= 0 {
									buf = c27Encode(buf, s3)
								}
								buf = append(buf, tail...)
								desc := func() string {
									d := pl.s1[i].String()
									if s2.kind >= 0 {
										d += " " + s2.String()
									}
									if s3.kind >= 0 {
										d += " " + s3.String()
									}
									return fmt.Sprintf("%s tail=%x", d, tail)
								}
								huge := pl.s1[i].lenV >= 1<<31 || (s2.kind >= 0 && s2.lenV >= 1<<31) || (s3.kind >= 0 && s3.lenV >= 1<<31)
								// truncated at every byte length (Controllen = cut)
								ws.n = copy(ws.cur[:], buf)
								for cut := 0; cut <= len(buf); cut++ {
									ws.cut = cut
									ws.beat.Add(1)
									c27CheckCtrl(c, &st, a, buf[:cut], true, huge, cut == len(buf), desc)
									if pl.bothPlacements {
										c27CheckCtrl(c, &st, a, buf[:cut], false, huge, cut == len(buf), desc)
									}
								}
								if st.evals&0xfffff == 0 && len(st.samples) < 2 {
									st.samples = append(st.samples, map[string]any{"part": "parseRecvCmsg", "built_from": desc(), "control_hex": fmt.Sprintf("%x", buf), "truncations": len(buf) + 1})
								}
							}
						}
					}
				}
				planEvals.Add(st.evals)
				mu.Lock()
				total.evals += st.evals
				total.found += st.found
				total.zero += st.zero
				total.bogusStop += st.bogusStop
				total.unspecified += st.unspecified
				total.exactFit += st.exactFit
				total.multiCand += st.multiCand
				total.negative += st.negative
				total.distinctNT += st.distinctNT
				for k := range st.results {
					total.results[k] = struct{}{}
				}
				if len(total.samples) < 4 {
					total.samples = append(total.samples, st.samples...)
				}
				mu.Unlock()
			}()
		}
		wg.Wait()
		planSizes[pl.name] = planEvals.Load()
	}
	if capped.Load() {
		c.Capped("time budget during control-buffer enumeration")
	}
	// fixed corner cases of the msghdr itself
	{
		var hdr msghdr
		for _, n := range []int{0, 1, 15, 16, 24, 1 << 20} {
			hdr.Control = nil
			setMsgControllen(&hdr, n)
			got, fault := 0, ""
			func() {
				defer func() {
					if r := recover(); r != nil {
						fault = fmt.Sprint(r)
					}
				}()
				got = parseRecvCmsg(&hdr)
			}()
			total.evals++
			if fault != "" || got != 0 {
				c.Violation("parseRecvCmsg with a nil control pointer", map[string]any{"controllen": n, "got": got, "fault": fault})
			}
		}
	}
	for _, s := range total.samples {
		c.Sample(s)
	}
	c.Sample(map[string]any{"part": "parseRecvCmsg", "built_from": full[len(full)/2].String(), "control_hex": fmt.Sprintf("%x", c27Encode(nil, full[len(full)/2]))})

	if c.Violations() == 0 {
		c.Require(total.found > 0 && total.zero > 0 && total.bogusStop > 0 && total.exactFit > 0 && total.negative > 0 && len(total.results) >= 3,
			"cmsg outcome classes not all reached: found=%d zero=%d bogus=%d exact=%d negative=%d distinct=%d", total.found, total.zero, total.bogusStop, total.exactFit, total.negative, len(total.results))
	}
	c.Set("evaluations", seg.evals+total.evals)
	c.Set("distinct_nontrivial", seg.multi3+seg.shortLast+total.distinctNT)
	c.Set("rule", "evaluations = every (payload length, segment size) pair plus every (control byte string, Controllen = each truncation length, placement) triple. distinct_nontrivial is counted conservatively by the reference model: (payload length, size) pairs that split into >=3 pieces or have a short last piece, plus UNTRUNCATED control buffers in one placement (pairwise distinct byte strings by construction: every spec tuple encodes injectively) in which a well-formed UDP_GRO size is reported non-zero or the walk ends on a nonsensical Len; truncations share prefixes and are therefore not counted as distinct")
	c.Set("split_evaluations", seg.evals)
	c.Set("split_payload_len_max_dense", maxLen)
	c.Set("split_classes", map[string]int64{"pieces>=3": seg.multi3, "short_last": seg.shortLast, "even": seg.evenSplit, "whole_missing_or_negative": seg.wholeBogus, "whole_size>=len": seg.wholeLarge})
	c.Set("split_pieces_with_spare_capacity_info", seg.spareCap)
	c.Set("cmsg_evaluations", total.evals)
	c.Set("cmsg_plan_evaluations", planSizes)
	c.Set("cmsg_alphabet_sizes", map[string]int{"per_cmsg_full": len(full), "per_cmsg_in_3_cmsg_buffers": len(three), "len_values_full": len(lensFull), "tails": len(tails)})
	c.Set("cmsg_classes", map[string]int64{"gro_size_reported": total.found, "reported_negative": total.negative, "zero": total.zero, "walk_ended_on_bogus_len": total.bogusStop,
		"short_gro_result_unspecified": total.unspecified, "gro_data_ends_exactly_at_controllen": total.exactFit, "several_gro_cmsgs": total.multiCand})
	c.Set("cmsg_distinct_results", len(total.results))
	c.Assume("◊ an empty received datagram may be delivered as one empty piece or as no piece (both are 'exactly the received bytes')")
	c.Assume("◊ the statement speaks of sizes and bytes only: spare capacity of a delivered piece (cap>len) is counted (split_pieces_with_spare_capacity_info) but is not a violation")
	c.Assume("◊ a UDP_GRO cmsg whose Len leaves fewer than 4 data bytes has no defined value: only 'no fault' is demanded for buffers containing one; with several well-formed UDP_GRO cmsgs any of their values is accepted (the kernel emits one)")
	c.Assume("reads before the buffer are caught by the front guard page or Go bounds checks, reads behind it by the back guard page; Controllen larger than the mapped buffer is outside the recvmsg contract and not generated")
	c.Assume("64-bit cmsghdr layout; contents beyond the listed Len/level/type/data alphabets and more than 3 cmsgs are outside the box")
}
