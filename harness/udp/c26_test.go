//go:build verif && linux && !android && !e2e_testing

package udp

import (
	"encoding/binary"
	"fmt"
	"log/slog"
	"net"
	"net/netip"
	"reflect"
	"runtime"
	"sort"
	"strings"
	"sync"
	"sync/atomic"
	"syscall"
	"testing"
	"unsafe"

	"github.com/slackhq/nebula/zzverif/mc"
	"golang.org/x/sys/unix"
)

// C26 — batched underlay sends survive kernel faults without duplication.
//
// The REAL batchWriter.WriteBatch runs against a scripted kernel that replaces the sendFn seam. For every call the
// kernel decodes the prepared mmsghdr array from raw memory (iovec base pointers are matched back to the input
// buffers by identity, sockaddr and UDP_SEGMENT cmsg are decoded byte by byte, segmentation is computed the way
// udp_send_skb() does it: by bytes, not by iovec) and then answers with the explorer's choice:
//   choice 0            accept all n entries (the fault-free kernel)
//   choice 1..n-1       accept only the first k entries (short count)
//   choice n..n+E-1     reject the first entry with errno E[i] (-1, errno): EIO, ENOBUFS, EINVAL (, EMSGSIZE)
//   choice n+E          (0, nil): no progress
// mc.ForAllBounded enumerates ALL answer sequences with at most `bound` non-default answers (deviation bounding), for
// ALL batches of a family (sizes x destinations) and ALL writer configurations (GSO off / on with segment limits 2,3,63;
// scratch of 2, 3 or MaxWriteBatch entries so that chunk and iovec-budget boundaries are hit by tiny batches; v4 and v6
// socket).

const (
	c26MaxPkts  = 8
	c26MaxIov   = 8
	c26MaxEnts  = 256
	c26MaxCalls = 96
)

var c26Sizes = []int{0, 99, 100, 101, 32500, 32501, 65001} // 0, t-1, t, t+1, s (2s = maxGSOBytes), s+1, > maxGSOBytes

// destinations: A, B (same host, other port), C (other host), X (IPv6: unroutable on a v4 socket), M (A written as
// v4-mapped IPv6: the same wire destination as A)
var c26Dests = []netip.AddrPort{
	netip.MustParseAddrPort("10.0.0.1:4242"),
	netip.MustParseAddrPort("10.0.0.1:4243"),
	netip.MustParseAddrPort("10.0.0.2:4242"),
	netip.MustParseAddrPort("[2001:db8::1]:4242"),
	netip.MustParseAddrPort("[::ffff:10.0.0.1]:4242"),
}
var c26DestNames = []string{"A", "B", "C", "X6", "Amapped"}

func c26Class(d int) int { // wire-destination class
	if d == 4 {
		return 0
	}
	return d
}

type c26Cfg struct {
	gso     bool
	maxSeg  int
	scratch int
	v4      bool
	errRet  int // what the kernel returns as count together with an errno (-1 like the real syscall wrapper, or 0)
}

func (g c26Cfg) String() string {
	s := "gso=off"
	if g.gso {
		s = fmt.Sprintf("gso=on maxSegments=%d", g.maxSeg)
	}
	fam := "v6-socket"
	if g.v4 {
		fam = "v4-socket"
	}
	return fmt.Sprintf("%s scratch=%d %s errCount=%d", s, g.scratch, fam, g.errRet)
}

type c26Batch struct {
	n    int
	size [c26MaxPkts]int8 // index into c26Sizes
	dst  [c26MaxPkts]int8 // index into c26Dests
}

func (b c26Batch) String() string {
	var sb strings.Builder
	for i := 0; i < b.n; i++ {
		if i > 0 {
			sb.WriteByte(' ')
		}
		fmt.Fprintf(&sb, "%dB>%s", c26Sizes[b.size[i]], c26DestNames[b.dst[i]])
	}
	return sb.String()
}

const (
	c26BadIov = 1 << iota
	c26BadBuf
	c26BadName
	c26FamMismatch
	c26DestMismatch
	c26BadCtl
	c26OneDgram
	c26BadSeg
	c26OverSeg
	c26OverBytes
	c26MixDest
	c26GsoOff
	c26NumFlags = iota
)

var c26FlagText = []string{
	"entry's iovec array is empty or not inside the writer's scratch",
	"an iovec does not reference exactly one whole input datagram",
	"entry's sockaddr is malformed",
	"entry's sockaddr family does not match the socket",
	"datagram handed to the kernel for a destination other than its own",
	"entry carries a malformed control message",
	"several datagrams would leave as ONE datagram (multi-packet entry without usable UDP_SEGMENT size)",
	"offloaded run would be cut at other boundaries than the input datagrams (unequal sizes, short one not last, or size != first length)",
	"offloaded run exceeds the segment limit",
	"offloaded run exceeds the byte limit",
	"offloaded run mixes destinations",
	"offloaded run although GSO is off",
}

type c26Entry struct {
	call, slot int
	np         int
	pk         [c26MaxIov]int8 // input index; -1 = zero-length (identity unknowable); -2 = unknown memory
	lens       [c26MaxIov]int32
	total      int
	dst        int // wire-destination class decoded from the sockaddr, -1 unknown
	gso        int // UDP_SEGMENT size, -1 = no cmsg
	kdgrams    int // datagrams the kernel would emit for this entry
	bad        uint32
	accepted   bool
	rejected   syscall.Errno
}

func (en *c26Entry) key() uint32 {
	k := uint32(0)
	z := uint32(0)
	for i := 0; i < en.np; i++ {
		if en.pk[i] >= 0 {
			k |= 1 << uint(en.pk[i])
		} else {
			z++
		}
	}
	g := uint32(0)
	if en.gso >= 0 {
		g = 1
	}
	return k | z<<8 | uint32(en.dst+1)<<12 | g<<16
}

type c26Answer struct {
	n, code int // code: 0..n-1 accept (0=all) ; 100+i errno i ; 999 no progress
}

type c26Stats struct {
	evals, withFault, nontrivial, planChanged, deliveryChanged                               int64
	gsoEntries, gso3, gsoShortLast, gsoAtSegLimit, gsoAtByteLimit, gsoAccepted               int64
	partial, rejectSingle, rejectMulti, eioOffload, noProgress, replayedAsSingles            int64
	holes, multiChunkNoFault, gsoAfterEIOInfo, errWithoutNoProgressInfo, lostToRejectionRuns int64
	maxCalls, maxAnswers                                                                     int64
	outcomes                                                                                 map[uint64]struct{}
}

func (s *c26Stats) merge(o *c26Stats) {
	sv, ov := reflect.ValueOf(s).Elem(), reflect.ValueOf(o).Elem()
	for i := 0; i < sv.NumField(); i++ {
		if sv.Field(i).Kind() != reflect.Int64 {
			continue
		}
		dst := (*int64)(unsafe.Pointer(sv.Field(i).UnsafeAddr()))
		if strings.HasPrefix(sv.Type().Field(i).Name, "max") {
			if ov.Field(i).Int() > *dst {
				*dst = ov.Field(i).Int()
			}
		} else {
			*dst += ov.Field(i).Int()
		}
	}
	for k := range o.outcomes {
		s.outcomes[k] = struct{}{}
	}
}

type c26World struct {
	c       *mc.Check
	l       *slog.Logger
	pool    [c26MaxPkts][][]byte
	writers map[c26Cfg]*batchWriter
	errs    []syscall.Errno
	errObjs []error

	// current batch / config
	b        c26Batch
	cfg      c26Cfg
	w        *batchWriter
	bufs     [][]byte
	addrs    []netip.AddrPort
	ptr      [c26MaxPkts]uintptr
	routable [c26MaxPkts]bool
	canon    [8]netip.AddrPort

	poisonByte [8]byte
	poisonIov  [4]iovec
	poisonCmsg []byte

	// per run
	e        *mc.Enum
	calls    int
	ents     [c26MaxEnts]c26Entry
	nents    int
	answers  [c26MaxCalls + 1]c26Answer
	nans     int
	aborted  string
	sawEIO   bool
	baseKeys [c26MaxEnts]uint32
	nbase    int
	baseAcc  uint32
	baseAccZ int
	baseCall int

	st      c26Stats
	samples []any
}

type c26AbortT struct{}

func newC26World(c *mc.Check, errs []syscall.Errno) *c26World {
	wd := &c26World{c: c, l: slog.New(slog.DiscardHandler), writers: map[c26Cfg]*batchWriter{}, errs: errs}
	for _, e := range errs {
		wd.errObjs = append(wd.errObjs, &net.OpError{Op: "sendmmsg", Err: e})
	}
	for p := 0; p < c26MaxPkts; p++ {
		wd.pool[p] = make([][]byte, len(c26Sizes))
		for si, sz := range c26Sizes {
			b := make([]byte, sz)
			for i := range b {
				b[i] = byte(p*16 + si)
			}
			wd.pool[p][si] = b
		}
	}
	for i, d := range c26Dests {
		wd.canon[i] = netip.AddrPortFrom(d.Addr().Unmap(), d.Port())
	}
	// a well-formed UDP_SEGMENT cmsg with gso_size 1: what a stale control pointer would do to a datagram
	wd.poisonCmsg = make([]byte, unix.CmsgSpace(2))
	h := (*unix.Cmsghdr)(unsafe.Pointer(&wd.poisonCmsg[0]))
	h.Level, h.Type = unix.SOL_UDP, unix.UDP_SEGMENT
	setCmsgLen(h, unix.CmsgLen(2))
	binary.NativeEndian.PutUint16(wd.poisonCmsg[unix.CmsgLen(0):], 1)
	for i := range wd.poisonIov {
		wd.poisonIov[i].Base = &wd.poisonByte[0]
		setIovLen(&wd.poisonIov[i], 7)
	}
	wd.st.outcomes = map[uint64]struct{}{}
	return wd
}

func (wd *c26World) writer(cfg c26Cfg) *batchWriter {
	if w := wd.writers[cfg]; w != nil {
		return w
	}
	// same construction as the repo's newRewindTestWriter / newBatchWriter, minus the socket
	w := &batchWriter{fd: -1, isV4: cfg.v4, l: wd.l}
	w.gsoSupported = cfg.gso
	w.maxGSOSegments = cfg.maxSeg
	w.prepareWriteMessages(cfg.scratch, cfg.gso)
	w.sendFn = wd.kernel
	wd.writers[cfg] = w
	return w
}

func (wd *c26World) setBatch(b c26Batch) {
	wd.b = b
	wd.bufs = wd.bufs[:0]
	wd.addrs = wd.addrs[:0]
	for i := 0; i < b.n; i++ {
		buf := wd.pool[i][b.size[i]]
		wd.bufs = append(wd.bufs, buf)
		wd.addrs = append(wd.addrs, c26Dests[b.dst[i]])
		if len(buf) > 0 {
			wd.ptr[i] = uintptr(unsafe.Pointer(&buf[0]))
		} else {
			wd.ptr[i] = 0
		}
	}
}

func (wd *c26World) setCfg(cfg c26Cfg) {
	wd.cfg = cfg
	wd.w = wd.writer(cfg)
	for i := 0; i < wd.b.n; i++ {
		wd.routable[i] = !cfg.v4 || wd.canon[wd.b.dst[i]].Addr().Is4()
	}
}

// poison overwrites the scratch a run may touch with values that break the property if they are ever sent unchanged.
func (wd *c26World) poison() {
	w := wd.w
	w.gsoSupported = wd.cfg.gso
	w.maxGSOSegments = wd.cfg.maxSeg
	lim := wd.b.n + 2
	if lim > len(w.msgs) {
		lim = len(w.msgs)
	}
	for e := 0; e < lim; e++ {
		h := &w.msgs[e].Hdr
		h.Iov = &wd.poisonIov[0]
		setMsgIovlen(h, 3)
		h.Namelen = 5
		h.Control = &wd.poisonCmsg[0]
		setMsgControllen(h, len(wd.poisonCmsg))
		for i := range w.names[e] {
			w.names[e][i] = 0xff
		}
		w.iovs[e] = wd.poisonIov[0]
		c26PoisonIntSlot(w, "entryEnd", e)
		c26PoisonIntSlot(w, "entryPkts", e)
		if w.cmsg != nil {
			off := e*w.cmsgSpace + unix.CmsgLen(0)
			w.cmsg[off], w.cmsg[off+1] = 0xff, 0xff
		}
	}
}

// c26PoisonIntSlot poisons slot e of an optional []int bookkeeping field of the writer. It goes through reflection so
// that a refactor which renames or removes such a private scratch field does not break the harness build.
func c26PoisonIntSlot(w *batchWriter, field string, e int) {
	f := reflect.ValueOf(w).Elem().FieldByName(field)
	if !f.IsValid() || f.Kind() != reflect.Slice || e >= f.Len() {
		return
	}
	p := (*int)(unsafe.Pointer(f.Index(e).UnsafeAddr()))
	*p = -7
}

func (wd *c26World) abort(why string) {
	if wd.aborted == "" {
		wd.aborted = why
	}
	panic(c26AbortT{})
}

// kernel is the scripted sendmmsg.
func (wd *c26World) kernel(start, n int) (int, error) {
	wd.calls++
	if wd.calls > c26MaxCalls {
		wd.abort("WriteBatch keeps calling the kernel without finishing")
	}
	w := wd.w
	if n < 1 || start < 0 || start+n > len(w.msgs) {
		wd.abort(fmt.Sprintf("sendFn called with an empty or out-of-range window start=%d n=%d", start, n))
	}
	first := wd.nents
	if first+n > c26MaxEnts {
		wd.abort("WriteBatch keeps calling the kernel without finishing")
	}
	for e := start; e < start+n; e++ {
		wd.decode(e)
	}
	nerr := len(wd.errs)
	ch := wd.e.Choose(n + nerr + 1)
	ans := &wd.answers[wd.nans]
	wd.nans++
	ans.n = n
	switch {
	case ch < n:
		k := n
		if ch > 0 {
			k = ch
			wd.st.partial++
		}
		ans.code = ch
		for i := 0; i < k; i++ {
			wd.ents[first+i].accepted = true
		}
		return k, nil
	case ch < n+nerr:
		en := &wd.ents[first]
		en.rejected = wd.errs[ch-n]
		ans.code = 100 + ch - n
		if en.np >= 2 {
			if en.rejected == unix.EIO && wd.cfg.gso && !wd.sawEIO {
				wd.st.eioOffload++
				wd.sawEIO = true
			} else {
				wd.st.rejectMulti++
			}
		} else {
			wd.st.rejectSingle++
		}
		return wd.cfg.errRet, wd.errObjs[ch-n]
	default:
		ans.code = 999
		wd.st.noProgress++
		return 0, nil
	}
}

func (wd *c26World) decode(slot int) {
	w := wd.w
	en := &wd.ents[wd.nents]
	wd.nents++
	*en = c26Entry{call: wd.calls, slot: slot, dst: -1, gso: -1}
	hdr := &w.msgs[slot].Hdr

	// iovecs: matched back to the input buffers by identity
	base := uintptr(unsafe.Pointer(&w.iovs[0]))
	p := uintptr(unsafe.Pointer(hdr.Iov))
	sz := unsafe.Sizeof(iovec{})
	ilen := int(hdr.Iovlen)
	if hdr.Iov == nil || p < base || (p-base)%sz != 0 || int((p-base)/sz) >= len(w.iovs) || ilen < 1 || ilen > len(w.iovs)-int((p-base)/sz) {
		en.bad |= c26BadIov
	} else {
		idx := int((p - base) / sz)
		for k := 0; k < ilen; k++ {
			if en.np == c26MaxIov {
				en.bad |= c26OverSeg
				break
			}
			iov := &w.iovs[idx+k]
			L := int(iov.Len)
			pk := int8(-2)
			if L == 0 {
				pk = -1
			} else if iov.Base != nil {
				bp := uintptr(unsafe.Pointer(iov.Base))
				for j := 0; j < wd.b.n; j++ {
					if wd.ptr[j] == bp && len(wd.bufs[j]) == L {
						pk = int8(j)
					}
				}
			}
			if pk == -2 {
				en.bad |= c26BadBuf
			}
			en.pk[en.np] = pk
			en.lens[en.np] = int32(L)
			en.total += L
			en.np++
		}
	}

	// sockaddr
	nm := w.names[slot]
	if hdr.Name != &nm[0] {
		en.bad |= c26BadName
	} else {
		fam := binary.NativeEndian.Uint16(nm[0:2])
		port := binary.BigEndian.Uint16(nm[2:4])
		var ap netip.AddrPort
		ok := false
		switch {
		case fam == unix.AF_INET && hdr.Namelen == unix.SizeofSockaddrInet4:
			ap = netip.AddrPortFrom(netip.AddrFrom4([4]byte(nm[4:8])), port)
			ok = true
			if !wd.cfg.v4 {
				en.bad |= c26FamMismatch
			}
		case fam == unix.AF_INET6 && hdr.Namelen == unix.SizeofSockaddrInet6:
			if binary.NativeEndian.Uint32(nm[4:8]) != 0 || binary.NativeEndian.Uint32(nm[24:28]) != 0 {
				en.bad |= c26BadName // flowinfo / scope id must be zero
			}
			ap = netip.AddrPortFrom(netip.AddrFrom16([16]byte(nm[8:24])).Unmap(), port)
			ok = true
			if wd.cfg.v4 {
				en.bad |= c26FamMismatch
			}
		default:
			en.bad |= c26BadName
		}
		if ok {
			for d := range c26Dests {
				if wd.canon[d] == ap {
					en.dst = c26Class(d)
					break
				}
			}
			if en.dst < 0 {
				en.bad |= c26DestMismatch
			}
		}
	}

	// control: what udp_sendmsg()'s cmsg walk would see
	cl := int(hdr.Controllen)
	if cl > 0 {
		var ctl []byte
		cp := uintptr(unsafe.Pointer(hdr.Control))
		switch {
		case hdr.Control == nil:
		case len(w.cmsg) > 0 && cp >= uintptr(unsafe.Pointer(&w.cmsg[0])) && cp+uintptr(cl) <= uintptr(unsafe.Pointer(&w.cmsg[0]))+uintptr(len(w.cmsg)):
			ctl = unsafe.Slice(hdr.Control, cl)
		case cp == uintptr(unsafe.Pointer(&wd.poisonCmsg[0])) && cl <= len(wd.poisonCmsg):
			ctl = unsafe.Slice(hdr.Control, cl)
		}
		if ctl == nil {
			en.bad |= c26BadCtl
		} else {
			off := 0
			seen := false
			for off+16 <= len(ctl) {
				l := binary.NativeEndian.Uint64(ctl[off:])
				if l < 16 || l > uint64(len(ctl)-off) {
					en.bad |= c26BadCtl
					break
				}
				level := int32(binary.NativeEndian.Uint32(ctl[off+8:]))
				typ := int32(binary.NativeEndian.Uint32(ctl[off+12:]))
				if level != unix.SOL_UDP || typ != unix.UDP_SEGMENT || l != 18 || seen {
					en.bad |= c26BadCtl
					break
				}
				seen = true
				en.gso = int(binary.NativeEndian.Uint16(ctl[off+16:]))
				off += int((l + 7) &^ 7)
			}
			if !seen {
				en.bad |= c26BadCtl
			}
		}
	}

	// segmentation as udp_send_skb() does it: by bytes
	if en.np > 0 {
		if en.gso > 0 && en.total > en.gso {
			en.kdgrams = (en.total + en.gso - 1) / en.gso
			for k := 0; k < en.np; k++ {
				L := int(en.lens[k])
				if k < en.np-1 && L != en.gso || k == en.np-1 && (L < 1 || L > en.gso) {
					en.bad |= c26BadSeg
				}
			}
		} else {
			en.kdgrams = 1
			if en.np > 1 {
				en.bad |= c26OneDgram
			}
		}
	}
	// the statement's constraints on an offloaded run
	if en.np >= 2 {
		wd.st.gsoEntries++
		if !wd.cfg.gso {
			en.bad |= c26GsoOff
		} else if en.np > wd.cfg.maxSeg {
			en.bad |= c26OverSeg
		}
		if en.total > maxGSOBytes {
			en.bad |= c26OverBytes
		}
		if en.gso != int(en.lens[0]) {
			en.bad |= c26BadSeg
		}
		cls := -1
		for k := 0; k < en.np; k++ {
			if en.pk[k] >= 0 {
				c := c26Class(int(wd.b.dst[en.pk[k]]))
				if cls >= 0 && c != cls {
					en.bad |= c26MixDest
				}
				cls = c
			}
		}
		if en.bad == 0 {
			if en.np >= 3 {
				wd.st.gso3++
			}
			if int(en.lens[en.np-1]) < en.gso {
				wd.st.gsoShortLast++
			}
			if en.np == wd.cfg.maxSeg {
				wd.st.gsoAtSegLimit++
			}
			if en.total == maxGSOBytes {
				wd.st.gsoAtByteLimit++
			}
		}
		if wd.sawEIO {
			wd.st.gsoAfterEIOInfo++
		}
	}
	if en.bad&c26MixDest == 0 && en.dst >= 0 {
		for k := 0; k < en.np; k++ {
			if en.pk[k] >= 0 && c26Class(int(wd.b.dst[en.pk[k]])) != en.dst {
				en.bad |= c26DestMismatch
			}
		}
	}
}

func (wd *c26World) context() (string, uint32) {
	var mask uint32
	var kinds []string
	seen := map[string]bool{}
	add := func(s string) {
		if !seen[s] {
			seen[s] = true
			kinds = append(kinds, s)
		}
	}
	ei := 0
	for a := 0; a < wd.nans; a++ {
		an := wd.answers[a]
		// find the first entry of that call
		for ei < wd.nents && wd.ents[ei].call != a+1 {
			ei++
		}
		switch {
		case an.code == 0:
		case an.code < 100:
			add("short count")
			mask |= 1
		case an.code == 999:
			add("no progress")
			mask |= 2
		default:
			multi := ei < wd.nents && wd.ents[ei].np >= 2
			if wd.errs[an.code-100] == unix.EIO && multi {
				add("EIO on an offloaded entry")
				mask |= 4
			} else if multi {
				add("rejected offloaded entry")
				mask |= 8
			} else {
				add("rejected entry")
				mask |= 16
			}
		}
	}
	sort.Strings(kinds)
	hole := false
	for i := 0; i < wd.b.n; i++ {
		if !wd.routable[i] {
			hole = true
		}
	}
	s := "no fault"
	if len(kinds) > 0 {
		s = "after: " + strings.Join(kinds, " + ")
	}
	if hole {
		s += "; batch has an unroutable destination"
		mask |= 32
	}
	if wd.cfg.gso {
		s += "; GSO on"
	} else {
		s += "; GSO off"
	}
	return s, mask
}

// c26Reported keeps, per clause and GSO mode, the fault contexts already reported: a violation whose context is a
// superset of a reported one is the same defect seen through more faults and is not reported again.
var c26Reported = struct {
	sync.Mutex
	m map[string][]uint32
}{m: map[string][]uint32{}}

func (wd *c26World) detail(written int, err error, extra map[string]any) map[string]any {
	var calls []string
	ei := 0
	for a := 0; a < wd.nans || ei < wd.nents; a++ {
		var sb strings.Builder
		fmt.Fprintf(&sb, "call %d offers", a+1)
		for ei < wd.nents && wd.ents[ei].call == a+1 {
			en := &wd.ents[ei]
			sb.WriteString(" [")
			for k := 0; k < en.np; k++ {
				if k > 0 {
					sb.WriteByte(',')
				}
				switch {
				case en.pk[k] >= 0:
					fmt.Fprintf(&sb, "#%d", en.pk[k])
				case en.pk[k] == -1:
					sb.WriteString("#zero-length")
				default:
					fmt.Fprintf(&sb, "?(%dB)", en.lens[k])
				}
			}
			if en.gso >= 0 {
				fmt.Fprintf(&sb, " UDP_SEGMENT=%d", en.gso)
			}
			if en.dst >= 0 {
				fmt.Fprintf(&sb, " to %s", c26DestNames[en.dst])
			} else {
				sb.WriteString(" to ?")
			}
			if en.bad != 0 {
				fmt.Fprintf(&sb, " BAD=%#x", en.bad)
			}
			sb.WriteString("]")
			ei++
		}
		if a < wd.nans {
			an := wd.answers[a]
			switch {
			case an.code == 0:
				fmt.Fprintf(&sb, " -> kernel accepts all %d", an.n)
			case an.code < 100:
				fmt.Fprintf(&sb, " -> kernel accepts %d of %d", an.code, an.n)
			case an.code == 999:
				sb.WriteString(" -> kernel returns (0, nil)")
			default:
				fmt.Fprintf(&sb, " -> kernel returns (%d, %s)", wd.cfg.errRet, unix.ErrnoName(wd.errs[an.code-100]))
			}
		}
		calls = append(calls, sb.String())
		if a > c26MaxCalls+2 {
			break
		}
	}
	d := map[string]any{"batch (index #i = position)": wd.b.String(), "config": wd.cfg.String(), "choice_trace": wd.e.Trace(), "calls": calls, "returned_count": written, "returned_error": fmt.Sprint(err)}
	for k, v := range extra {
		d[k] = v
	}
	return d
}

// runOne executes WriteBatch once under the current choice vector and evaluates the oracle.
func (wd *c26World) runOne(e *mc.Enum) {
	wd.e = e
	wd.calls, wd.nents, wd.nans, wd.aborted, wd.sawEIO = 0, 0, 0, "", false
	wd.poison()
	var written int
	var err error
	var pan any
	func() {
		defer func() {
			if r := recover(); r != nil {
				if s, ok := r.(string); ok && strings.HasPrefix(s, "mc.Enum") {
					panic(r) // harness nondeterminism: never a verdict
				}
				pan = r
			}
		}()
		written, err = wd.w.WriteBatch(wd.bufs, wd.addrs)
	}()
	wd.st.evals++
	c := wd.c
	ctx := ""
	var ctxMask uint32
	viol := func(clause string, extra map[string]any) {
		if ctx == "" {
			ctx, ctxMask = wd.context()
		}
		key := fmt.Sprintf("%s|%v", clause, wd.cfg.gso)
		c26Reported.Lock()
		for _, m := range c26Reported.m[key] {
			if m&ctxMask == m && m != ctxMask {
				c26Reported.Unlock()
				return
			}
		}
		c26Reported.m[key] = append(c26Reported.m[key], ctxMask)
		c26Reported.Unlock()
		c.Violation(clause+" ["+ctx+"]", wd.detail(written, err, extra))
	}
	if pan != nil {
		if _, ok := pan.(c26AbortT); ok {
			viol(wd.aborted, nil)
		} else {
			viol("WriteBatch panics", map[string]any{"panic": fmt.Sprint(pan)})
		}
		return
	}

	// (1) shape of everything that was handed to the kernel
	var allBad uint32
	for i := 0; i < wd.nents; i++ {
		allBad |= wd.ents[i].bad
	}
	for f := 0; f < c26NumFlags; f++ {
		if allBad&(1<<uint(f)) != 0 {
			viol(c26FlagText[f], nil)
		}
	}

	// (2) accepted datagrams: at most once, count, order
	n := wd.b.n
	var cnt [c26MaxPkts]int
	var finalRej, eioRej [c26MaxPkts]bool
	var zeroIn, zeroAcc, zeroRej [8]int
	var last [8]int
	var used [c26MaxPkts]bool
	for i := range last {
		last[i] = -1
	}
	for i := 0; i < n; i++ {
		if len(wd.bufs[i]) == 0 && wd.routable[i] {
			zeroIn[c26Class(int(wd.b.dst[i]))]++
		}
	}
	kernelDgrams := 0
	accMask := uint32(0)
	accZ := 0
	reordered, dup := false, false
	for i := 0; i < wd.nents; i++ {
		en := &wd.ents[i]
		if en.accepted {
			kernelDgrams += en.kdgrams
			if en.np >= 2 {
				wd.st.gsoAccepted++
			}
			for k := 0; k < en.np; k++ {
				pk := int(en.pk[k])
				cls := en.dst
				if pk >= 0 {
					cnt[pk]++
					accMask |= 1 << uint(pk)
					if cnt[pk] > 1 {
						dup = true
					}
					cls = c26Class(int(wd.b.dst[pk]))
				} else if pk == -1 && cls >= 0 {
					accZ++
					zeroAcc[cls]++
					if zeroAcc[cls] > zeroIn[cls] {
						dup = true
						continue
					}
					// zero-length datagrams to one destination are indistinguishable: take the earliest unused one that keeps order
					pk = -1
					for j := last[cls] + 1; j < n; j++ {
						if len(wd.bufs[j]) == 0 && !used[j] && c26Class(int(wd.b.dst[j])) == cls && wd.routable[j] {
							pk = j
							break
						}
					}
					if pk < 0 {
						reordered = true
						continue
					}
					used[pk] = true
				} else {
					continue
				}
				if pk <= last[cls] {
					reordered = true
				}
				last[cls] = pk
			}
		} else if en.rejected != 0 {
			offload := en.np >= 2 && en.rejected == unix.EIO
			for k := 0; k < en.np; k++ {
				pk := int(en.pk[k])
				if pk >= 0 {
					if offload {
						eioRej[pk] = true
					} else {
						finalRej[pk] = true
					}
				} else if pk == -1 && en.dst >= 0 && !offload {
					zeroRej[en.dst]++
				}
			}
		}
	}
	if dup {
		viol("a datagram is handed to the kernel successfully more than once", map[string]any{"accepted_counts": cnt[:n]})
	}
	if reordered {
		viol("same-destination datagrams are accepted out of their input order", nil)
	}
	if written != kernelDgrams {
		dir := "more"
		if written < kernelDgrams {
			dir = "fewer"
		}
		viol("WriteBatch reports "+dir+" datagrams than the kernel accepted", map[string]any{"kernel_accepted_datagrams": kernelDgrams})
	}

	// (3) survival (from the title and WriteBatch's documented contract; see the assumptions in the evidence)
	noProg := wd.nans > 0 && wd.answers[wd.nans-1].code == 999
	if err != nil && !noProg {
		wd.st.errWithoutNoProgressInfo++
	}
	lostAny := false
	if err == nil && allBad == 0 && !dup {
		for i := 0; i < n; i++ {
			if !wd.routable[i] || len(wd.bufs[i]) == 0 || cnt[i] > 0 {
				continue
			}
			switch {
			case finalRej[i]:
				lostAny = true
			case eioRej[i]:
				viol("survival: datagrams of a run rejected as offload (EIO) are not offered to the kernel again", map[string]any{"lost_datagram": i})
			default:
				viol("survival: a routable datagram is neither accepted nor rejected by the kernel (silently lost)", map[string]any{"lost_datagram": i})
			}
		}
		for cls := range zeroIn {
			if zeroAcc[cls]+zeroRej[cls] < zeroIn[cls] {
				viol("survival: a routable datagram is neither accepted nor rejected by the kernel (silently lost)", map[string]any{"lost_datagram": "zero-length to " + c26DestNames[cls]})
			} else if zeroAcc[cls] < zeroIn[cls] {
				lostAny = true
			}
		}
	}
	if lostAny {
		wd.st.lostToRejectionRuns++
	}

	// (4) bookkeeping: did the faults change the plan?
	if int64(wd.calls) > wd.st.maxCalls {
		wd.st.maxCalls = int64(wd.calls)
	}
	if e.Deviations() == 0 {
		wd.nbase = 0
		for i := 0; i < wd.nents; i++ {
			wd.baseKeys[wd.nbase] = wd.ents[i].key()
			wd.nbase++
		}
		wd.baseAcc, wd.baseAccZ, wd.baseCall = accMask, accZ, wd.calls
		if wd.calls > 1 {
			wd.st.multiChunkNoFault++
		}
		for i := 0; i < n; i++ {
			if !wd.routable[i] && n > 1 {
				wd.st.holes++
				break
			}
		}
	} else {
		wd.st.withFault++
		if int64(e.Deviations()) > wd.st.maxAnswers {
			wd.st.maxAnswers = int64(e.Deviations())
		}
		plan := false
		replayed := false
		for i := 0; i < wd.nents; i++ {
			k := wd.ents[i].key()
			found := false
			for j := 0; j < wd.nbase; j++ {
				if wd.baseKeys[j] == k {
					found = true
					break
				}
			}
			if !found {
				plan = true
				if wd.ents[i].np == 1 && wd.sawEIO {
					replayed = true
				}
			}
		}
		deliv := accMask != wd.baseAcc || accZ != wd.baseAccZ
		if plan {
			wd.st.planChanged++
		}
		if deliv {
			wd.st.deliveryChanged++
		}
		if plan || deliv {
			wd.st.nontrivial++
		}
		if replayed {
			wd.st.replayedAsSingles++
		}
	}
	var okey uint64
	for a := 0; a < wd.nans; a++ {
		code := wd.answers[a].code
		switch {
		case code == 0:
		case code < 100:
			okey |= 1
		case code == 999:
			okey |= 2
		default:
			okey |= 4 << uint(code-100)
		}
	}
	okey |= uint64(accMask)<<16 | uint64(accZ)<<32 | uint64(wd.calls)<<40
	if len(wd.st.outcomes) < 1<<16 {
		wd.st.outcomes[okey] = struct{}{}
	}
	if e.Deviations() >= 2 && wd.sawEIO && len(wd.samples) < 2 || e.Deviations() == 1 && len(wd.samples) == 0 && wd.nents > 2 {
		wd.samples = append(wd.samples, wd.detail(written, err, nil))
	}
}

type c26Family struct {
	name   string
	ns     []int
	sizes  []int8
	dests  []int8
	bound  int // -1 unbounded
	cfgs   []c26Cfg
	filter func(b *c26Batch) bool
}

func c26Enumerate(f c26Family, out func(b c26Batch)) {
	for _, n := range f.ns {
		per := len(f.sizes) * len(f.dests)
		total := 1
		for i := 0; i < n; i++ {
			total *= per
		}
		for x := 0; x < total; x++ {
			var b c26Batch
			b.n = n
			v := x
			for i := 0; i < n; i++ {
				d := v % per
				v /= per
				b.size[i] = f.sizes[d%len(f.sizes)]
				b.dst[i] = f.dests[d/len(f.sizes)]
			}
			if f.filter == nil || f.filter(&b) {
				out(b)
			}
		}
	}
}

func TestVerifC26(t *testing.T) {
	c := mc.Begin(t, "C26", "fault_enumeration")
	defer c.End()

	errs := []syscall.Errno{unix.EIO, unix.ENOBUFS, unix.EINVAL}
	if c.Thorough() {
		errs = append(errs, unix.EMSGSIZE)
	}
	var cfgAll, cfgV4, cfgCore []c26Cfg
	for _, v4 := range []bool{true, false} {
		for _, scratch := range []int{2, 3, MaxWriteBatch} {
			for _, g := range []c26Cfg{{gso: false}, {gso: true, maxSeg: 2}, {gso: true, maxSeg: 3}, {gso: true, maxSeg: 63}} {
				g.v4, g.scratch, g.errRet = v4, scratch, -1
				cfgAll = append(cfgAll, g)
				if v4 {
					cfgV4 = append(cfgV4, g)
					if scratch != 2 {
						cfgCore = append(cfgCore, g)
					}
				}
			}
		}
	}
	cfgErr0 := []c26Cfg{{gso: true, maxSeg: 3, scratch: 3, v4: true, errRet: 0}, {gso: true, maxSeg: 63, scratch: MaxWriteBatch, v4: true, errRet: 0}, {gso: false, scratch: MaxWriteBatch, v4: true, errRet: 0}}

	allSizes := []int8{0, 1, 2, 3, 4, 5, 6}
	small := []int8{0, 1, 2, 3}
	var fams []c26Family
	if !c.Thorough() {
		fams = []c26Family{
			{name: "n<=2 unbounded answers, mapped destination, errno with count 0", ns: []int{1, 2}, sizes: allSizes, dests: []int8{0, 3, 4}, bound: -1, cfgs: append(append([]c26Cfg{}, cfgV4...), cfgErr0...)},
			{name: "n<=3, all 7 sizes x {A,B,C,X6}, all 24 configs", ns: []int{1, 2, 3}, sizes: allSizes, dests: []int8{0, 1, 2, 3}, bound: 3, cfgs: cfgAll},
			{name: "n=4, sizes {0,99,100,101} x {A,B,X6}, v4 socket", ns: []int{4}, sizes: small, dests: []int8{0, 1, 3}, bound: 3, cfgs: cfgV4},
			{name: "n=4, sizes {100,32500,32501,65001} x {A,X6}, v4 socket", ns: []int{4}, sizes: []int8{2, 4, 5, 6}, dests: []int8{0, 3}, bound: 3, cfgs: cfgV4},
			{name: "n=5..6, sizes {99,100} x {A,X6}, v4 socket", ns: []int{5, 6}, sizes: []int8{1, 2}, dests: []int8{0, 3}, bound: 3, cfgs: cfgV4},
			{name: "n=5, sizes {0,100} x {A,C}, v4 socket", ns: []int{5}, sizes: []int8{0, 2}, dests: []int8{0, 2}, bound: 3, cfgs: cfgCore},
			{name: "n=4, all 7 sizes x {A,B,X6}, v4 socket, bound 2", ns: []int{4}, sizes: allSizes, dests: []int8{0, 1, 3}, bound: 2, cfgs: cfgV4},
		}
	} else {
		// cheap and diverse families first: a run cut short by the time budget still covers every batch shape
		fams = []c26Family{
			{name: "n<=3, all 7 sizes x {A,B,C,X6,Amapped}, all 24 configs, unbounded answers", ns: []int{1, 2, 3}, sizes: allSizes, dests: []int8{0, 1, 2, 3, 4}, bound: -1, cfgs: cfgAll},
			{name: "n<=3 errno with count 0", ns: []int{1, 2, 3}, sizes: allSizes, dests: []int8{0, 1, 3}, bound: 3, cfgs: cfgErr0},
			{name: "n=6..7, sizes {99,100} x {A,X6}, v4 socket", ns: []int{6, 7}, sizes: []int8{1, 2}, dests: []int8{0, 3}, bound: 3, cfgs: cfgV4},
			{name: "n=6, sizes {0,100,101} x {A,C}, v4 socket", ns: []int{6}, sizes: []int8{0, 2, 3}, dests: []int8{0, 2}, bound: 3, cfgs: cfgCore},
			{name: "n=4, sizes {0,99,100,101} x {A,B,C,X6}, v4 socket, unbounded answers", ns: []int{4}, sizes: small, dests: []int8{0, 1, 2, 3}, bound: -1, cfgs: cfgV4},
			{name: "n=5, sizes {0,99,100,101} x {A,B,X6}, all 24 configs", ns: []int{5}, sizes: small, dests: []int8{0, 1, 3}, bound: 3, cfgs: cfgAll},
			{name: "n=4, all 7 sizes x {A,B,C,X6}, all 24 configs", ns: []int{4}, sizes: allSizes, dests: []int8{0, 1, 2, 3}, bound: 3, cfgs: cfgAll},
			{name: "n=4, all 7 sizes x {A,B,X6}, v4 socket, unbounded answers", ns: []int{4}, sizes: allSizes, dests: []int8{0, 1, 3}, bound: -1, cfgs: cfgV4},
			{name: "n=5, all 7 sizes x {A,X6}, v4 socket", ns: []int{5}, sizes: allSizes, dests: []int8{0, 3}, bound: 3, cfgs: cfgV4},
		}
	}

	type item struct {
		b   c26Batch
		fam int
	}
	var items []item
	famsOf := map[c26Batch][]int{}
	famBatches := make([]int64, len(fams))
	famCfg := make([]map[c26Cfg]bool, len(fams))
	for fi, f := range fams {
		famCfg[fi] = map[c26Cfg]bool{}
		for _, g := range f.cfgs {
			famCfg[fi][g] = true
		}
		c26Enumerate(f, func(b c26Batch) {
			famsOf[b] = append(famsOf[b], fi)
			items = append(items, item{b, fi})
			famBatches[fi]++
		})
	}
	// a (batch, config) pair that belongs to several families is evaluated once, in the family with the largest bound
	beats := func(a, b int) bool {
		ba, bb := fams[a].bound, fams[b].bound
		if ba < 0 {
			ba = 1 << 30
		}
		if bb < 0 {
			bb = 1 << 30
		}
		if ba != bb {
			return ba > bb
		}
		return a < b
	}

	var next atomic.Int64
	var total c26Stats
	total.outcomes = map[uint64]struct{}{}
	famRuns := make([]int64, len(fams))
	famDone := make([]atomic.Int64, len(fams))
	var mu sync.Mutex
	var wg sync.WaitGroup
	var capped atomic.Bool
	var samples []any
	stop := func() bool { return c.OutOfTime() || c.Violations() > 20 }
	for wk := 0; wk < runtime.GOMAXPROCS(0); wk++ {
		wg.Add(1)
		go func() {
			defer wg.Done()
			wd := newC26World(c, errs)
			runs := make([]int64, len(fams))
			for {
				i := int(next.Add(1) - 1)
				if i >= len(items) {
					break
				}
				if stop() {
					capped.Store(true)
					break
				}
				it := items[i]
				f := &fams[it.fam]
				wd.setBatch(it.b)
				for _, cfg := range f.cfgs {
					win := it.fam
					for _, fj := range famsOf[it.b] {
						if fj != win && famCfg[fj][cfg] && beats(fj, win) {
							win = fj
						}
					}
					if win != it.fam {
						continue
					}
					wd.setCfg(cfg)
					r, complete := mc.ForAllBounded(f.bound, wd.runOne, stop)
					runs[it.fam] += r
					if !complete {
						capped.Store(true)
					}
				}
				famDone[it.fam].Add(1)
			}
			mu.Lock()
			total.merge(&wd.st)
			for i := range runs {
				famRuns[i] += runs[i]
			}
			if len(samples) < 6 {
				samples = append(samples, wd.samples...)
			}
			mu.Unlock()
		}()
	}
	wg.Wait()
	if capped.Load() && c.Violations() == 0 {
		c.Capped("time budget")
	}

	// the trivial contract: mismatched slice lengths are refused without touching the kernel
	{
		wd := newC26World(c, errs)
		wd.setBatch(c26Batch{n: 2, size: [c26MaxPkts]int8{2, 2}})
		wd.setCfg(cfgV4[3])
		wd.poison()
		wd.e = nil
		nw, err := wd.w.WriteBatch(wd.bufs, wd.addrs[:1])
		if nw != 0 || err == nil || wd.calls != 0 {
			c.Violation("WriteBatch with len(bufs) != len(addrs) reaches the kernel or reports datagrams", map[string]any{"written": nw, "err": fmt.Sprint(err)})
		}
	}

	for _, s := range samples {
		c.Sample(s)
	}
	famInfo := map[string]any{}
	minBound := 1 << 30
	for i, f := range fams {
		b := any(f.bound)
		done := famDone[i].Load() == famBatches[i] && !capped.Load()
		if f.bound < 0 {
			b = "unbounded"
			if !done {
				minBound = 0
			}
		} else if !done {
			minBound = 0
		} else if f.bound < minBound {
			minBound = f.bound
		}
		famInfo[f.name] = map[string]any{"batches": famBatches[i], "batches_done": famDone[i].Load(), "configs": len(f.cfgs), "deviation_bound": b, "answer_sequences": famRuns[i]}
	}
	st := &total
	if c.Violations() == 0 && capped.Load() {
		// a run cut short by the time budget may not have reached every class; the basic guards still apply
		c.Require(st.withFault > 0 && st.nontrivial >= 2 && st.gsoEntries > 0, "capped run reached no faults / no offloaded entries")
	}
	if c.Violations() == 0 && !capped.Load() {
		c.Require(st.withFault > 0 && st.nontrivial >= 2 && st.planChanged > 0 && st.deliveryChanged > 0, "faults never changed the send plan: %+v", st)
		c.Require(st.gsoEntries > 0 && st.gso3 > 0 && st.gsoShortLast > 0 && st.gsoAtSegLimit > 0 && st.gsoAtByteLimit > 0 && st.gsoAccepted > 0,
			"offloaded entries with several packets did not occur in all shapes: entries=%d >=3pkts=%d shortLast=%d atSegLimit=%d atByteLimit=%d", st.gsoEntries, st.gso3, st.gsoShortLast, st.gsoAtSegLimit, st.gsoAtByteLimit)
		c.Require(st.partial > 0 && st.rejectSingle > 0 && st.rejectMulti > 0 && st.eioOffload > 0 && st.noProgress > 0 && st.replayedAsSingles > 0,
			"fault classes not all exercised: partial=%d rejectSingle=%d rejectMulti=%d eio=%d noprogress=%d replay=%d", st.partial, st.rejectSingle, st.rejectMulti, st.eioOffload, st.noProgress, st.replayedAsSingles)
		c.Require(st.holes > 0 && st.multiChunkNoFault > 0 && st.lostToRejectionRuns > 0, "holes=%d multiChunk=%d lost=%d", st.holes, st.multiChunkNoFault, st.lostToRejectionRuns)
	}
	c.Set("evaluations", st.evals)
	c.Set("distinct_nontrivial", st.nontrivial)
	c.Set("rule", "one evaluation = one (batch, writer config, kernel answer sequence) triple, each enumerated exactly once (batches shared by two families are skipped in the family with the smaller bound); non-trivial = the sequence contains >=1 fault AND, compared with the fault-free run of the same batch and config, either an entry of a different shape was handed to the kernel (re-planned run) or a different set of datagrams was accepted")
	c.Set("families", famInfo)
	if minBound < 1<<30 {
		c.Set("deviation_bound_completed", minBound)
	} else {
		c.Set("deviation_bound_completed", "unbounded")
	}
	c.Set("answer_alphabet", fmt.Sprintf("accept all | accept k<n | (errCount, e) for e in %v | (0,nil)", func() []string {
		var s []string
		for _, e := range errs {
			s = append(s, unix.ErrnoName(e))
		}
		return s
	}()))
	c.Set("sequences_with_fault", st.withFault)
	c.Set("fault_changed_plan", st.planChanged)
	c.Set("fault_changed_delivery", st.deliveryChanged)
	c.Set("offloaded_entries", map[string]int64{"offered": st.gsoEntries, "with>=3_datagrams": st.gso3, "short_last": st.gsoShortLast, "at_segment_limit": st.gsoAtSegLimit, "at_byte_limit_65000": st.gsoAtByteLimit, "accepted": st.gsoAccepted, "offered_after_an_EIO_info": st.gsoAfterEIOInfo})
	c.Set("fault_answers", map[string]int64{"short_count": st.partial, "reject_single": st.rejectSingle, "reject_offloaded_non_EIO": st.rejectMulti, "EIO_on_offloaded": st.eioOffload, "no_progress": st.noProgress, "runs_replayed_as_single_entries": st.replayedAsSingles})
	c.Set("batches_with_unroutable_hole", st.holes)
	c.Set("fault_free_runs_needing_several_chunks", st.multiChunkNoFault)
	c.Set("runs_losing_datagrams_to_kernel_rejections", st.lostToRejectionRuns)
	c.Set("error_returns_without_no_progress_info", st.errWithoutNoProgressInfo)
	c.Set("max_kernel_calls_in_one_run", st.maxCalls)
	c.Set("max_faults_in_one_sequence", st.maxAnswers)
	c.Set("distinct_outcomes", len(st.outcomes))
	c.Assume("the kernel is a reference model written from sendmmsg(2)/udp(7): first-entry failure returns an errno, later failures shorten the count; UDP_SEGMENT cuts the concatenated iovecs every gso_size bytes")
	c.Assume("the scratch size (2, 3, MaxWriteBatch) is set through prepareWriteMessages(n) so that chunk and iovec-budget boundaries are reached with <= 7 datagrams; production uses MaxWriteBatch only")
	c.Assume("zero-length datagrams to one destination are indistinguishable on the wire: they are matched as a multiset (earliest unused one that keeps order)")
	c.Assume("◊ the statement's clauses are safety clauses; two 'survival' clauses are added from the title ('survive kernel faults') and WriteBatch's documented contract: a routable datagram is lost only to a kernel rejection of an entry that contained it, and a run rejected with EIO as offload is offered again (signatures start with 'survival:')")
	c.Assume("◊ 'no offloaded entry after an EIO' is not in the statement: counted (offered_after_an_EIO_info), not judged; an error return without a no-progress answer is counted, not judged")
	c.Assume("batches of more than 7 datagrams, other sizes/destinations than the listed alphabets and more faults than the deviation bound are outside the box")
}
