//go:build verif

package nebula

import (
	"bytes"
	"encoding/json"
	"fmt"
	"net/netip"
	"os"
	"os/exec"
	"path/filepath"
	"runtime"
	"slices"
	"sort"
	"strings"
	"sync"
	"testing"
	"time"

	"github.com/slackhq/nebula/cert"
	"github.com/slackhq/nebula/cert_test"
	"github.com/slackhq/nebula/handshake"
	"github.com/slackhq/nebula/header"
	"github.com/slackhq/nebula/zzverif/mc"
	"github.com/slackhq/nebula/zzverif/vtime"
)

// C09 — tunnels are bound to the certified overlay address.
//
// Explicit-state BFS (by replay) over networks of 3-5 REAL nodes (engine E4): "me", the genuine peer P (certificate
// {a} / {a,b} / {a, address outside my networks}), the impostor Q (valid certificate for another address c) that sits
// at the underlay address me (or the relay) believes to be P's, a relay R, and S whose certificate lists one of MY
// addresses. Discovery path: static_host_map / lighthouse-learned address / relay. Certificate versions v1/v2.
//
// Events: start a handshake (application packet me->a, me->b, P->me, S->me, me->s), deliver / duplicate / drop any of
// the oldest in-flight handshake datagrams (direct or relayed), handshake timer tick (+200ms) on me / the relay.
// Non-handshake datagrams (relay control, close tunnel, test, recv_error, data) are delivered at once, loss-free.
//
// After EVERY delivered datagram and every event, on EVERY node, over hostMap.Hosts / moreHosts / Indexes:
//   * every entry has a ConnectionState with keys and a peer certificate, and that certificate is one the harness CA
//     issued to a node of this network;
//   * the entry's recorded peer addresses equal the certificate's addresses — all of them, in order;
//   * an entry is filed under address X only if its certificate lists X, and under every address recorded for it;
//   * no entry is filed under, or lists, one of the node's own addresses;
//   * when a reply arrives from a host whose certificate does not list the address the pending handshake was for:
//     no tunnel is installed by that exchange, the old pending entry and index are gone, a fresh pending entry for the
//     address exists, the replying underlay address is in its blocked list, and no first message of that (or a
//     follow-up) handshake is written to a blocked address again.
// In every NEW state the same throw-away instance is additionally run to quiescence (FIFO, loss-free, with timer
// ticks) with the same checks after every step.
//
// Hostmap maintenance (scenarios with maint=m): P (and, thorough, me) holds a certificate BUNDLE for one key, v1 {a} +
// v2 {a,b}, so that crossing handshakes / version re-handshakes leave SIBLING tunnels to one peer whose certificates
// list different address sets. The search starts from a scripted prefix (such a pair of tunnels, or one tunnel plus the
// other handshake in flight) and adds the events tx / cm / pm / cl / rh (see c09Ev): traffic, connection-manager ticks
// (swapPrimary, dead-tunnel deletion, re-handshake with the other certificate version), promotion of a non-primary
// tunnel, tunnel close on either end, re-handshake. The same invariant is evaluated after each of them over EVERY
// member of EVERY per-address list (a sibling re-filed under an address only the promoted / torn-down tunnel was
// certified for is a violation), and each application packet is judged on the wire (it must leave in a tunnel whose
// certificate lists its destination).
//
// Impostor that shares an address with the genuine peer (scenarios with qcert=A / qcert=B): P is certified for {a,b}, Q for
// exactly ONE of them, and Q sits at an underlay address me believes to be P's. Q is then the right host for a dial of
// its own address and a WRONG responder for a dial of P's other address. What "the address the pending handshake was
// for" means is taken from the handshake manager's own filing (the address the handshake was started for), never from the
// pending entry's recorded address list. Start state of the maintenance variants: my tunnel to P, dialed by the address Q
// is NOT certified for, has come and gone (closed on both ends), so that me still remembers P's certificate order; the
// search then RE-DIALS (hs events are offered again whenever the sender holds neither a tunnel nor a pending handshake for
// the address). Application packets stored while a handshake was pending are judged on the wire, like tx events, when
// the reply that completes the handshake lets them leave.
//
// The relay as the wrong responder (relay scenarios; event ra#i): the relay R is a real cast member with its own valid
// certificate, and every relayed handshake datagram passes through its hands. Whenever a relayed FIRST handshake message
// is in flight to a node that holds a forwarding relay slot for it, the event "ra" lets that node answer the message
// ITSELF instead of forwarding it: it runs the responder side of the handshake with its own certificate (a
// handshake.Machine built from its CertState, as beginHandshake does) and sends the reply back inside the relay frame of
// the slot the initiator opened for the peer (its real SendVia). For the initiator that reply is a reply from a different
// host than the one it dialed. Replies that arrive inside relay frames are classified like direct ones (right / wrong /
// self-claiming responder, by the host that PRODUCED the reply, whoever carried it), with the same obligations except the
// underlay block (a relayed reply has no underlay address of its own). Start state of those scenarios (scripted prefix):
// R holds a tunnel with P and the relay slot me<->P is established, my first relayed handshake message is in flight to R.

const (
	c09A     = "10.0.0.2"
	c09B     = "10.1.0.2"
	c09Out   = "172.16.0.2"
	c09C     = "10.0.0.66"
	c09SAddr = "10.0.0.77"
	c09MeUdp = "192.0.2.1:4242"
	c09PUdp  = "192.0.2.2:4242"
	c09QUdp  = "192.0.2.66:4242"
	c09RUdp  = "192.0.2.9:4242"
	c09SUdp  = "192.0.2.77:4242"
)

type c09Scn struct {
	PCert  string // "A" {a} | "AB" {a,b} both inside my networks | "AO" {a, outside}
	Disc   string // "static" | "lh" | "relay"
	Remote string // underlay addresses believed to be a's: "P" | "Q" (wrong responder) | "QP" (both)
	MeV    cert.Version
	PV     cert.Version
	Self   string // "" | "S1" S's cert is {my address} | "S2" S's cert is {s, my second address} | "S2resp" me (v1 initiator, dual cert) -> s, S answers
	// SV: version of S's certificate in the S2 / S2resp shapes (0 = v2). v1 certificates may list several networks (the cert
	// package accepts them although nebula-cert never issues them), so every multi-address shape exists in both versions:
	// PCert AB / AO with PV = v1, PCert AB with MeV = v1 (then MY certificate is a two-network v1), S2 / S2resp with SV = v1.
	SV cert.Version
	// PCert "A+AB": P holds a certificate BUNDLE for one key, v1 {a} + v2 {a,b} (the v1->v2 rollout shape); PV is then P's
	// pki.initiating_version. MeCert "dual": me holds v1 {my first address} + v2 {both}; MeV is my initiating version.
	MeCert string
	// Maint "m" switches the hostmap-maintenance alphabet on (tx, cm, pm, cl, rh; see c09Ev). Pre is a scripted history
	// prefix (events as printed) executed, with every check, before the search starts: the search's start state.
	Maint string
	Pre   string
	QD    int // search depth below the prefix in the quick tier (0 = the default of the maintenance scenarios) ...
	TD    int // ... and in the thorough tier
	// QCert: what the impostor Q at the peer's (believed) underlay address is certified for. "" = {c}, an address the genuine
	// peer has nothing to do with; "A" = {a} / "B" = {b}: exactly ONE of the addresses of a several-address peer P {a,b} (P's
	// certificate was re-issued / the address was given to another host), so Q is the right host for a dial of that address
	// and a wrong responder for a dial of P's other address although its certificate shares an address with P's.
	QCert string
}

func (s c09Scn) String() string {
	x := fmt.Sprintf("pcert=%s disc=%s remote=%s me=v%d p=v%d", s.PCert, s.Disc, s.Remote, s.MeV, s.PV)
	if s.Self != "" {
		x += " self=" + s.Self
	}
	if s.SV != 0 {
		x += fmt.Sprintf(" s=v%d", s.SV)
	}
	if s.MeCert != "" {
		x += " mecert=" + s.MeCert
	}
	if s.QCert != "" {
		x += " qcert=" + s.QCert
	}
	if s.Maint != "" {
		x += " maint=" + s.Maint
	}
	if s.Pre != "" {
		x += " pre=[" + s.Pre + "]"
	}
	return x
}

type c09Ev struct {
	K string // scn | hs | dl | dp | dr | ra | tk | tx | cm | pm | cl | rh
	N string
	I int
}

// Hostmap-maintenance alphabet (scenarios with Maint): every event is a call of the real entry point.
//
//	tx:<from>:<to>   application packet over an EXISTING tunnel (me:a me:b p:me p:me2); gives tunnels in/out traffic
//	cm:<node>        +2.5 s and one connection-manager tick (traffic checks: test packets, dead-tunnel deletion,
//	                 swapPrimary of a non-primary tunnel that saw traffic, re-handshake with the other certificate version)
//	pm:<node>#k      HostMap.MakePrimary of the node's k-th tunnel (creation order) while it is not primary everywhere
//	cl:<node>#k      the node closes its k-th tunnel (sendCloseTunnel + closeTunnel); the peer tears its end down on receipt
//	rh:<from>:<to>[:v2]  HandshakeManager.StartHandshake although a tunnel exists (re-handshake; :v2 = with the
//	                 initiatingVersionOverride the connection manager uses to move to the peer's certificate version)
func (e c09Ev) String() string {
	switch e.K {
	case "hs", "tk", "tx", "cm", "rh":
		return e.K + ":" + e.N
	case "pm", "cl":
		return fmt.Sprintf("%s:%s#%d", e.K, e.N, e.I)
	}
	return fmt.Sprintf("%s#%d", e.K, e.I)
}

func c09ParseEv(es string) (e c09Ev) {
	if i := strings.IndexByte(es, '#'); i > 0 {
		e.K = es[:i]
		fmt.Sscanf(es[i+1:], "%d", &e.I)
		if kv := strings.SplitN(e.K, ":", 2); len(kv) == 2 {
			e.K, e.N = kv[0], kv[1]
		}
		return e
	}
	kv := strings.SplitN(es, ":", 2)
	e.K = kv[0]
	if len(kv) == 2 {
		e.N = kv[1]
	}
	return e
}

type c09Dgram struct {
	pkt vpkt
	tag string
}

type c09CertInfo struct {
	node  string
	addrs []netip.Addr
	v     cert.Version
}

type c09Problem struct {
	sig, detail string
}

type c09Stats struct {
	wrong, right, selfResp, selfInit int64
	wrongByDisc                      map[string]int64
	multiAddr, outsideAddr           int64 // entries filed under 2+ addresses / under an address outside the node's networks
	relayed                          int64 // completed tunnels reached through the relay
	peerV1, peerV2                   int64
	several                          int64 // addresses with more than one tunnel
	postBlockTx                      int64 // first messages written by a handshake that carries a blocked remote
	freshPending                     int64
	blockResets                      int64
	closureToP, closureNoTunnel      int64
	entriesChecked                   int64
	deliveries                       int64
	// counters of the maintenance part (divergent certificate sets, promotions, teardowns, ...), by name
	x map[string]int64
}

func (s *c09Stats) inc(k string) {
	if s.x == nil {
		s.x = map[string]int64{}
	}
	s.x[k]++
}

func (s *c09Stats) toMap() map[string]int64 {
	mm := map[string]int64{"wrong": s.wrong, "right": s.right, "selfResp": s.selfResp, "selfInit": s.selfInit, "multiAddr": s.multiAddr, "outsideAddr": s.outsideAddr,
		"relayed": s.relayed, "peerV1": s.peerV1, "peerV2": s.peerV2, "several": s.several, "postBlockTx": s.postBlockTx, "freshPending": s.freshPending,
		"blockResets": s.blockResets, "closureToP": s.closureToP, "closureNoTunnel": s.closureNoTunnel, "entriesChecked": s.entriesChecked, "deliveries": s.deliveries}
	for k, v := range s.wrongByDisc {
		mm["wrongBy:"+k] = v
	}
	for k, v := range s.x {
		mm["x:"+k] = v
	}
	return mm
}

func (s *c09Stats) addMap(mm map[string]any) {
	g := func(k string) int64 {
		f, _ := mm[k].(float64)
		return int64(f)
	}
	s.wrong += g("wrong")
	s.right += g("right")
	s.selfResp += g("selfResp")
	s.selfInit += g("selfInit")
	s.multiAddr += g("multiAddr")
	s.outsideAddr += g("outsideAddr")
	s.relayed += g("relayed")
	s.peerV1 += g("peerV1")
	s.peerV2 += g("peerV2")
	s.several += g("several")
	s.postBlockTx += g("postBlockTx")
	s.freshPending += g("freshPending")
	s.blockResets += g("blockResets")
	s.closureToP += g("closureToP")
	s.closureNoTunnel += g("closureNoTunnel")
	s.entriesChecked += g("entriesChecked")
	s.deliveries += g("deliveries")
	for k := range mm {
		if strings.HasPrefix(k, "wrongBy:") {
			s.wrongByDisc[strings.TrimPrefix(k, "wrongBy:")] += g(k)
		}
		if strings.HasPrefix(k, "x:") {
			if s.x == nil {
				s.x = map[string]int64{}
			}
			s.x[strings.TrimPrefix(k, "x:")] += g(k)
		}
	}
}

type c09World struct {
	tb       testing.TB
	sc       c09Scn
	net      *vnet
	me       *vnode
	byName   map[string]*vnode
	own      map[string][]netip.Addr
	certs    map[string]c09CertInfo
	pool     []c09Dgram
	hsNames  map[*HandshakeHostInfo]string
	hsSeq    map[string]int
	blocked  map[*HandshakeHostInfo][]netip.AddrPort
	curTag   string // tag of the handshake datagram being delivered
	relSeq   int
	started  map[string]bool
	problems []c09Problem
	stats    *c09Stats
	starts   []string
	steps    int64
	// maintenance part
	tuns    map[string][]*HostInfo // per node: its tunnels in creation order (the k of pm/cl events)
	txSeq   int
	curTx   *c09Tx // application packet being sent: the data datagram it produces is judged in pump
	rhDone  map[string]bool
	preDone bool
	allTx   bool
	// redialed: some start was executed again after its tunnel had been torn down (see canDial)
	redialed bool
	// forged: handshake replies produced by a node that answered a relayed first message itself (event ra), by reply bytes
	forged map[string]string
}

type c09Tx struct {
	from *vnode
	to   netip.Addr
	name string
	seen int
}

// ---- PKI for the dual-certificate node (v1 {first network} + v2 {both networks}, same key) --------------------------

type c09BundleT struct {
	certPEM, keyPEM string
	v1, v2          cert.Certificate
}

var c09Bundles = map[string]*c09BundleT{}

// c09Bundle mints (once per process) a v1 + v2 certificate pair for ONE key: v1 lists nets1, v2 lists nets2.
func c09Bundle(tb testing.TB, name, nets1, nets2 string) *c09BundleT {
	key := name + "|" + nets1 + "|" + nets2
	if b, ok := c09Bundles[key]; ok {
		return b
	}
	pk := vGetPKI()
	pub, priv := cert_test.X25519Keypair()
	nb, na := vtime.Epoch.Add(-vtime.Hour), vtime.Epoch.Add(5*365*24*vtime.Hour)
	mk := func(v cert.Version, nets string) (cert.Certificate, []byte) {
		t := &cert.TBSCertificate{Version: v, Curve: cert.Curve_CURVE25519, Name: name, Networks: vParsePrefixes(nets),
			NotBefore: time.Unix(nb.Unix(), 0), NotAfter: time.Unix(na.Unix(), 0), PublicKey: pub}
		c, err := t.Sign(pk.ca, pk.ca.Curve(), pk.caKey)
		if err != nil {
			tb.Fatalf("c09: sign v%d: %v", v, err)
		}
		pem, err := c.MarshalPEM()
		if err != nil {
			tb.Fatal(err)
		}
		return c, pem
	}
	v1, p1 := mk(cert.Version1, nets1)
	v2, p2 := mk(cert.Version2, nets2)
	b := &c09BundleT{v1: v1, v2: v2, certPEM: string(p1) + string(p2), keyPEM: string(cert.MarshalPrivateKeyToPEM(cert.Curve_CURVE25519, priv))}
	c09Bundles[key] = b
	return b
}

func c09MeBundle(tb testing.TB) *c09BundleT {
	return c09Bundle(tb, "me", "10.0.0.1/24", "10.0.0.1/24,10.1.0.1/24")
}

func c09PBundle(tb testing.TB) *c09BundleT {
	return c09Bundle(tb, "p", c09A+"/24", c09A+"/24,"+c09B+"/24")
}

func c09Addrs(nets string) []netip.Addr {
	var out []netip.Addr
	for _, p := range vParsePrefixes(nets) {
		out = append(out, p.Addr())
	}
	return out
}

func c09RemoteList(remote string) []string {
	switch remote {
	case "P":
		return []string{c09PUdp}
	case "Q":
		return []string{c09QUdp}
	}
	return []string{c09QUdp, c09PUdp}
}

func c09Build(tb testing.TB, seed int64, sc c09Scn, stats *c09Stats) *c09World {
	meNets := "10.0.0.1/24"
	hasB := sc.PCert == "AB" || sc.PCert == "A+AB"
	meDual := sc.Self == "S2resp" || sc.MeCert == "dual"
	if hasB || strings.HasPrefix(sc.Self, "S2") || meDual {
		meNets = "10.0.0.1/24,10.1.0.1/24"
	}
	pNets := map[string]string{"A": c09A + "/24", "AB": c09A + "/24," + c09B + "/24", "AO": c09A + "/24," + c09Out + "/24", "A+AB": c09A + "/24," + c09B + "/24"}[sc.PCert]
	remotes := c09RemoteList(sc.Remote)

	meOv := m{}
	if sc.Disc == "static" {
		sm := m{c09A: remotes}
		if hasB {
			sm[c09B] = remotes
		}
		meOv["static_host_map"] = sm
	}
	if sc.Disc == "relay" {
		meOv["relay"] = m{"use_relays": true}
	}
	if meDual {
		mb := c09MeBundle(tb)
		iv := 1
		if sc.Self != "S2resp" {
			iv = int(sc.MeV)
		}
		meOv["pki"] = m{"cert": mb.certPEM, "key": mb.keyPEM, "initiating_version": iv}
	}
	if sc.Self == "S2resp" {
		sm, _ := meOv["static_host_map"].(m)
		if sm == nil {
			sm = m{}
		}
		sm[c09SAddr] = []string{c09SUdp}
		meOv["static_host_map"] = sm
	}
	specs := []vnodeSpec{{Name: "me", Networks: meNets, Udp: c09MeUdp, Version: sc.MeV, Overrides: meOv}}
	pOv, qOv := m{}, m{}
	if sc.Disc == "relay" {
		pOv["relay"] = m{"use_relays": true}
		qOv["relay"] = m{"use_relays": true}
	}
	pSpecV := sc.PV
	if sc.PCert == "A+AB" {
		pb := c09PBundle(tb)
		pOv["pki"] = m{"cert": pb.certPEM, "key": pb.keyPEM, "initiating_version": int(sc.PV)}
		pSpecV = cert.Version2 // (the spec's own leaf is minted but unused: pki.cert is overridden by the bundle)
	}
	specs = append(specs, vnodeSpec{Name: "p", Networks: pNets, Udp: c09PUdp, Version: pSpecV, Overrides: pOv})
	if sc.Remote != "P" {
		qNets := map[string]string{"": c09C + "/24", "A": c09A + "/24", "B": c09B + "/24"}[sc.QCert]
		if sc.QCert != "" && !hasB {
			tb.Fatalf("c09: qcert=%s needs a peer certified for both a and b: %v", sc.QCert, sc)
		}
		specs = append(specs, vnodeSpec{Name: "q", Networks: qNets, Udp: c09QUdp, Version: sc.PV, Overrides: qOv})
	}
	if sc.Disc == "relay" {
		specs = append(specs, vnodeSpec{Name: "r", Networks: "10.0.0.9/24", Udp: c09RUdp, Overrides: m{"relay": m{"am_relay": true}}})
	}
	switch sc.Self {
	case "S1":
		specs = append(specs, vnodeSpec{Name: "s", Networks: "10.0.0.1/24", Udp: c09SUdp, Version: sc.PV, Overrides: m{"static_host_map": m{"10.0.0.5": []string{c09MeUdp}}}})
	case "S2", "S2resp":
		specs = append(specs, vnodeSpec{Name: "s", Networks: c09SAddr + "/24,10.1.0.1/24", Udp: c09SUdp, Version: sc.SV, Overrides: m{"static_host_map": m{"10.0.0.5": []string{c09MeUdp}}}})
	}
	for i := range specs {
		if specs[i].Version == 0 {
			specs[i].Version = cert.Version2
		}
	}
	net := vNewNet(tb, seed, specs...)
	w := &c09World{tb: tb, sc: sc, net: net, me: net.node("me"), byName: map[string]*vnode{}, own: map[string][]netip.Addr{}, certs: map[string]c09CertInfo{},
		hsNames: map[*HandshakeHostInfo]string{}, hsSeq: map[string]int{}, blocked: map[*HandshakeHostInfo][]netip.AddrPort{}, started: map[string]bool{}, stats: stats,
		tuns: map[string][]*HostInfo{}, rhDone: map[string]bool{}, forged: map[string]string{}}
	pk := vGetPKI()
	for _, sp := range specs {
		n := net.node(sp.Name)
		w.byName[sp.Name] = n
		w.own[sp.Name] = c09Addrs(sp.Networks)
		var bundle *c09BundleT
		if sp.Name == "me" && meDual {
			bundle = c09MeBundle(tb)
		}
		if sp.Name == "p" && sc.PCert == "A+AB" {
			bundle = c09PBundle(tb)
		}
		if bundle != nil {
			for _, c := range []cert.Certificate{bundle.v1, bundle.v2} {
				fp, _ := c.Fingerprint()
				w.certs[fp] = c09CertInfo{sp.Name, c09Addrs(c09NetString(c.Networks())), c.Version()}
			}
			continue
		}
		leaf := pk.leafFor(sp.Name, sp.Networks, sp.Unsafe, sp.Groups, sp.Version)
		fp, err := leaf.crt.Fingerprint()
		if err != nil {
			tb.Fatal(err)
		}
		w.certs[fp] = c09CertInfo{sp.Name, c09Addrs(sp.Networks), sp.Version}
	}
	// what the node itself believes to be its addresses must agree with the scenario (guards the oracle's notion of "own")
	for name, n := range w.byName {
		got := n.f.pki.getCertState().myVpnAddrs
		if !slices.Equal(got, w.own[name]) {
			tb.Fatalf("c09: node %s own addresses %v, scenario says %v", name, got, w.own[name])
		}
	}
	a, b := netip.MustParseAddr(c09A), netip.MustParseAddr(c09B)
	p := w.byName["p"]
	switch sc.Disc {
	case "lh":
		for _, r := range remotes {
			w.me.injectLighthouseAddr(a, netip.MustParseAddrPort(r))
			if hasB {
				w.me.injectLighthouseAddr(b, netip.MustParseAddrPort(r))
			}
		}
	case "relay":
		r := w.byName["r"]
		w.me.injectLighthouseAddr(r.vpnIP, r.udp)
		w.me.injectRelays(a, []netip.Addr{r.vpnIP})
		if hasB {
			w.me.injectRelays(b, []netip.Addr{r.vpnIP})
		}
		for _, x := range remotes {
			r.injectLighthouseAddr(a, netip.MustParseAddrPort(x))
		}
		r.injectLighthouseAddr(w.me.vpnIP, w.me.udp)
		p.injectLighthouseAddr(r.vpnIP, r.udp)
		p.injectRelays(w.me.vpnIP, []netip.Addr{r.vpnIP})
		if q := w.byName["q"]; q != nil {
			q.injectLighthouseAddr(r.vpnIP, r.udp)
			q.injectRelays(w.me.vpnIP, []netip.Addr{r.vpnIP})
		}
		// the tunnel me<->relay exists already (loss-free); the search starts from there
		if !net.establish(w.me, r, "c09-setup-me-r") {
			tb.Fatalf("c09: cannot establish me<->relay")
		}
		net.flushFIFO(50)
		net.tunLog = map[string][][]byte{}
	}
	if sc.Disc != "relay" {
		p.injectLighthouseAddr(w.me.vpnIP, w.me.udp)
	}
	w.starts = []string{"me:a"}
	if hasB {
		w.starts = append(w.starts, "me:b")
	}
	switch sc.Self {
	case "S1", "S2":
		w.starts = append(w.starts, "s:me")
	case "S2resp":
		w.starts = append(w.starts, "me:s", "s:me")
	default:
		w.starts = append(w.starts, "p:me")
	}
	if sc.Maint != "" {
		// the first tick only sets the clock of the connection manager's traffic wheel
		for _, name := range c09MaintNodes {
			if n := w.byName[name]; n != nil {
				n.cmTick()
			}
		}
	}
	w.checkAll("initial")
	for _, es := range strings.Fields(sc.Pre) {
		if len(w.problems) > 0 {
			break
		}
		if !w.apply(c09ParseEv(es), "prefix["+sc.Pre+"]") {
			tb.Fatalf("c09: scripted prefix %q of %v is not executable at %q", sc.Pre, sc, es)
		}
	}
	w.preDone = true
	return w
}

var c09MaintNodes = []string{"me", "p"}

func c09NetString(ps []netip.Prefix) string {
	s := make([]string, len(ps))
	for i, p := range ps {
		s[i] = p.String()
	}
	return strings.Join(s, ",")
}

func (w *c09World) close() { w.net.close() }

func (w *c09World) bad(sig, format string, a ...any) {
	w.problems = append(w.problems, c09Problem{sig, fmt.Sprintf(format, a...)})
}

func (w *c09World) nodeAt(a netip.AddrPort) *vnode {
	if n, ok := w.net.byUDP[a.Addr()]; ok && n.udp.Port() == a.Port() {
		return n
	}
	return nil
}

func (w *c09World) nameAt(a netip.AddrPort) string {
	if n := w.nodeAt(a); n != nil {
		return n.spec.Name
	}
	return a.String()
}

// ---- the invariant --------------------------------------------------------------------------------------------------

func c09Contains(l []netip.Addr, a netip.Addr) bool { return slices.Contains(l, a) }

func (w *c09World) checkNode(name string, n *vnode, where string) {
	own := w.own[name]
	hmap := n.f.hostMap
	hmap.RLock()
	defer hmap.RUnlock()
	filed := map[*HostInfo][]netip.Addr{}
	checkEntry := func(hi *HostInfo, table string) (certAddrs []netip.Addr, ok bool) {
		w.stats.entriesChecked++
		if hi == nil {
			w.bad("C09: nil entry in the hostmap", "%s node=%s table=%s", where, name, table)
			return nil, false
		}
		cs := hi.ConnectionState
		if cs == nil || cs.peerCert == nil || cs.peerCert.Certificate == nil || cs.eKey == nil || cs.dKey == nil {
			w.bad("C09: hostmap entry without a completed handshake (no ConnectionState / keys / peer certificate)", "%s node=%s table=%s recorded=%v", where, name, table, hi.vpnAddrs)
			return nil, false
		}
		info, known := w.certs[cs.peerCert.Fingerprint]
		fp, _ := cs.peerCert.Certificate.Fingerprint()
		if !known || fp != cs.peerCert.Fingerprint {
			w.bad("C09: tunnel's peer certificate is not a certificate issued to a node of this network", "%s node=%s recorded=%v fingerprint=%s", where, name, hi.vpnAddrs, cs.peerCert.Fingerprint)
			return nil, false
		}
		for _, p := range cs.peerCert.Certificate.Networks() {
			certAddrs = append(certAddrs, p.Addr())
		}
		if !slices.Equal(certAddrs, info.addrs) {
			w.tb.Fatalf("c09: certificate registry out of step: %v vs %v", certAddrs, info.addrs)
		}
		if !slices.Equal(hi.vpnAddrs, certAddrs) {
			w.bad("C09: addresses recorded for a tunnel differ from its verified peer certificate's addresses", "%s node=%s peer=%s recorded=%v certificate=%v", where, name, info.node, hi.vpnAddrs, certAddrs)
		}
		for _, a := range own {
			if c09Contains(certAddrs, a) || c09Contains(hi.vpnAddrs, a) {
				w.bad("C09: tunnel installed to one of the node's own addresses", "%s node=%s own=%v peer=%s recorded=%v certificate=%v", where, name, own, info.node, hi.vpnAddrs, certAddrs)
			}
		}
		if info.v == cert.Version1 {
			w.stats.peerV1++
			if len(certAddrs) > 1 {
				w.stats.inc("entriesWithV1CertOfSeveralAddresses:" + info.node)
			}
		} else {
			w.stats.peerV2++
		}
		return certAddrs, true
	}
	checkFiled := func(addr netip.Addr, hi *HostInfo, table string) {
		certAddrs, ok := checkEntry(hi, table)
		if !ok {
			return
		}
		filed[hi] = append(filed[hi], addr)
		if !c09Contains(certAddrs, addr) {
			w.bad("C09: tunnel filed under an address its verified peer certificate does not list", "%s node=%s table=%s address=%v certificate=%v recorded=%v", where, name, table, addr, certAddrs, hi.vpnAddrs)
		}
		if c09Contains(own, addr) {
			w.bad("C09: tunnel installed to one of the node's own addresses", "%s node=%s table=%s address=%v", where, name, table, addr)
		}
		if hmap.Indexes[hi.localIndexId] != hi {
			w.bad("C09: tunnel filed under an address but missing from the index table", "%s node=%s address=%v", where, name, addr)
		}
	}
	for addr, hi := range hmap.Hosts {
		if _, more := hmap.moreHosts[addr]; !more {
			checkFiled(addr, hi, "Hosts")
		}
	}
	for addr, list := range hmap.moreHosts {
		if len(list) > 1 {
			w.stats.several++
		}
		if len(list) == 0 || hmap.Hosts[addr] != list[0] {
			w.bad("C09: primary tunnel of an address is not the head of its tunnel list", "%s node=%s address=%v", where, name, addr)
		}
		for _, hi := range list {
			checkFiled(addr, hi, "moreHosts")
		}
		// sibling tunnels of one address whose certificates list DIFFERENT address sets (certificate bundles, re-issued certificates)
		for _, hi := range list[1:] {
			if hi != nil && list[0] != nil && !slices.Equal(hi.vpnAddrs, list[0].vpnAddrs) {
				w.stats.inc("divergentLists")
				if w.preDone {
					w.stats.inc("divergentListsInSearch")
				}
				break
			}
		}
	}
	myNets := n.f.pki.getCertState().myVpnNetworks
	for idx, hi := range hmap.Indexes {
		certAddrs, ok := checkEntry(hi, "Indexes")
		if !ok {
			continue
		}
		if hi.localIndexId != idx {
			w.bad("C09: index table entry under a foreign index", "%s node=%s", where, name)
		}
		got := append([]netip.Addr(nil), filed[hi]...)
		for _, a := range certAddrs {
			if !c09Contains(got, a) {
				w.bad("C09: tunnel is not filed under an address recorded for it (certificate lists it)", "%s node=%s certificate=%v filed-under=%v", where, name, certAddrs, got)
			}
		}
		if len(got) >= 2 {
			w.stats.multiAddr++
		}
		for _, a := range got {
			inside := false
			for _, p := range myNets {
				if p.Contains(a) {
					inside = true
				}
			}
			if !inside {
				w.stats.outsideAddr++
			}
		}
		if len(hi.relayState.CopyRelayIps()) > 0 && !hi.GetRemote().IsValid() {
			w.stats.relayed++
		}
	}
}

// noteTunnels gives every tunnel of the maintained nodes its ordinal (creation order; simultaneous ones by local index).
func (w *c09World) noteTunnels() {
	if w.sc.Maint == "" {
		return
	}
	for _, name := range c09MaintNodes {
		n := w.byName[name]
		if n == nil {
			continue
		}
		var fresh []*HostInfo
		n.f.hostMap.RLock()
		for _, hi := range n.f.hostMap.Indexes {
			if !slices.Contains(w.tuns[name], hi) {
				fresh = append(fresh, hi)
			}
		}
		n.f.hostMap.RUnlock()
		sort.Slice(fresh, func(i, j int) bool { return fresh[i].localIndexId < fresh[j].localIndexId })
		w.tuns[name] = append(w.tuns[name], fresh...)
	}
}

func c09Live(n *vnode, hi *HostInfo) bool {
	n.f.hostMap.RLock()
	defer n.f.hostMap.RUnlock()
	return hi != nil && n.f.hostMap.Indexes[hi.localIndexId] == hi
}

// c09Lists is a copy of the node's per-address tunnel lists (head = primary).
func c09Lists(n *vnode) map[netip.Addr][]*HostInfo {
	out := map[netip.Addr][]*HostInfo{}
	n.f.hostMap.RLock()
	defer n.f.hostMap.RUnlock()
	for a := range n.f.hostMap.Hosts {
		out[a] = append([]*HostInfo{}, n.f.hostMap.unlockedGetHostList(a)...)
	}
	return out
}

// observe runs one event and classifies what it did to the per-address tunnel lists of the maintained nodes (evidence
// only; the judgement is the invariant, evaluated over every member of every list after every event).
func (w *c09World) observe(kind string, run func()) {
	if w.sc.Maint == "" {
		run()
		return
	}
	before := map[string]map[netip.Addr][]*HostInfo{}
	for _, name := range c09MaintNodes {
		if n := w.byName[name]; n != nil {
			before[name] = c09Lists(n)
		}
	}
	run()
	for _, name := range c09MaintNodes {
		n := w.byName[name]
		if n == nil {
			continue
		}
		after := c09Lists(n)
		promoted, gone := map[*HostInfo]bool{}, map[*HostInfo]bool{}
		for a, bl := range before[name] {
			al := after[a]
			if len(al) > 0 && al[0] != bl[0] && slices.Contains(bl, al[0]) && c09Live(n, bl[0]) {
				promoted[al[0]] = true // a tunnel that was a non-primary member became the head while the old head lives on
			}
			for _, hi := range bl {
				if !c09Live(n, hi) {
					gone[hi] = true
				}
			}
		}
		for hi := range promoted {
			w.stats.inc("promotions:" + kind)
			for a := range before[name] {
				for _, sib := range before[name][a] {
					if sib != hi && slices.Contains(hi.vpnAddrs, a) && !slices.Equal(sib.vpnAddrs, hi.vpnAddrs) {
						w.stats.inc("promotionsAmongDivergentSiblings:" + kind)
						if len(hi.vpnAddrs) > len(sib.vpnAddrs) {
							w.stats.inc("promotionsOfWiderCertOverNarrower:" + kind)
						}
					}
				}
			}
		}
		for hi := range gone {
			w.stats.inc("teardowns:" + kind)
			left, vacated, succeeded := false, false, false
			for _, a := range hi.vpnAddrs {
				bl, al := before[name][a], after[a]
				if len(al) > 0 {
					left = true
					if len(bl) > 0 && bl[0] == hi {
						succeeded = true
					}
				} else if len(bl) > 0 {
					vacated = true
				}
			}
			if left {
				w.stats.inc("teardownsLeavingSiblings:" + kind)
			}
			if succeeded {
				w.stats.inc("teardownsOfPrimaryWithSuccessor:" + kind)
			}
			if left && vacated {
				// the torn-down tunnel's certificate listed more addresses than its siblings': some address keeps a tunnel, another must end up with none
				w.stats.inc("teardownsVacatingOneAddressOnly:" + kind)
			}
		}
	}
}

func (w *c09World) checkAll(where string) {
	w.noteTunnels()
	if len(w.problems) > 0 {
		return
	}
	for name, n := range w.byName {
		w.checkNode(name, n, where)
	}
}

// ---- network ------------------------------------------------------------------------------------------------------------

// classify: is this datagram part of a handshake (directly, or wrapped by a relay)?
func c09Handshake(b []byte) (hs bool, relayed bool, stage uint64, idx uint32) {
	var h header.H
	if h.Parse(b) != nil {
		return false, false, 0, 0
	}
	if h.Type == header.Handshake {
		return true, false, h.MessageCounter, h.RemoteIndex
	}
	if h.Type == header.Message && h.Subtype == header.MessageRelay && len(b) >= 2*header.Len {
		var in header.H
		if in.Parse(b[header.Len:]) == nil && in.Type == header.Handshake {
			return true, true, in.MessageCounter, in.RemoteIndex
		}
	}
	return false, false, 0, 0
}

func (w *c09World) hsName(n *vnode, hh *HandshakeHostInfo) string {
	if s, ok := w.hsNames[hh]; ok {
		return s
	}
	w.hsSeq[n.spec.Name]++
	s := fmt.Sprintf("%s#%d", n.spec.Name, w.hsSeq[n.spec.Name])
	w.hsNames[hh] = s
	return s
}

// pump: take what the nodes wrote; handshake datagrams join the pool (tagged), everything else is delivered at once.
func (w *c09World) pump(where string) {
	for round := 0; round < 2000; round++ {
		w.net.collect()
		if len(w.net.inflight) == 0 {
			return
		}
		fl := w.net.inflight
		w.net.inflight = nil
		for _, p := range fl {
			hs, relayed, stage, _ := c09Handshake(p.Data)
			if !hs {
				w.judgeTx(p, where)
				if dst := w.nodeAt(p.To); dst != nil {
					dst.deliver(p.From, p.Data)
					w.stats.deliveries++
					w.checkAll(where + " / auto-delivery " + p.String())
				}
				continue
			}
			src := w.nodeAt(p.From)
			tag := ""
			switch {
			case relayed:
				w.relSeq++
				tag = fmt.Sprintf("rl%d:%s>%s:st%d[%s]", w.relSeq, w.nameAt(p.From), w.nameAt(p.To), stage, w.curTag)
			case stage == 1 && src != nil:
				tag = "s1:?>" + w.nameAt(p.To)
				src.hm.RLock()
				for _, hh := range src.hm.vpnIps {
					if hh.hostinfo != nil && bytes.Equal(hh.hostinfo.HandshakePacket[handshakePacketStage0], p.Data) {
						tag = "s1:" + w.hsName(src, hh) + ">" + w.nameAt(p.To)
						if bl := w.blocked[hh]; len(bl) > 0 {
							w.stats.postBlockTx++
							if slices.Contains(bl, p.To) {
								w.bad("C09: first handshake message written again to an underlay address that had answered as the wrong host", "%s node=%s to=%v blocked=%v", where, src.spec.Name, p.To, bl)
							}
						}
					}
				}
				src.hm.RUnlock()
			default:
				tag = fmt.Sprintf("s%d:%s>%s[%s]", stage, w.nameAt(p.From), w.nameAt(p.To), w.curTag)
			}
			w.pool = append(w.pool, c09Dgram{p, tag})
		}
	}
	w.tb.Fatalf("c09: network did not quiesce")
}

// judgeTx: the data datagram an application packet for overlay address X leaves in must travel in a tunnel whose verified
// peer certificate lists X ("a tunnel that a node USES for overlay address A ...").
func (w *c09World) judgeTx(p vpkt, where string) {
	tx := w.curTx
	if tx == nil || p.From != tx.from.udp {
		return
	}
	var h header.H
	if h.Parse(p.Data) != nil || h.Type != header.Message || h.Subtype != header.MessageNone {
		return
	}
	hmap := tx.from.f.hostMap
	hmap.RLock()
	hi := hmap.RemoteIndexes[h.RemoteIndex]
	hmap.RUnlock()
	if hi == nil || hi.ConnectionState == nil || hi.ConnectionState.peerCert == nil {
		w.bad("C09: application packet left in a tunnel the node does not hold", "%s node=%s to=%v remote index=%d", where, tx.from.spec.Name, tx.to, h.RemoteIndex)
		return
	}
	tx.seen++
	w.stats.inc("dataDatagramsJudged")
	var certAddrs []netip.Addr
	for _, n := range hi.ConnectionState.peerCert.Certificate.Networks() {
		certAddrs = append(certAddrs, n.Addr())
	}
	if !c09Contains(certAddrs, tx.to) {
		w.bad("C09: application packet for an overlay address sent through a tunnel whose verified peer certificate does not list it", "%s node=%s to=%v tunnel certificate=%v recorded=%v", where, tx.from.spec.Name, tx.to, certAddrs, hi.vpnAddrs)
	}
}

// txEnds resolves the name of a tx / rh event.
func (w *c09World) txEnds(name string) (*vnode, netip.Addr) {
	switch name {
	case "me:a":
		return w.me, netip.MustParseAddr(c09A)
	case "me:b":
		return w.me, netip.MustParseAddr(c09B)
	case "p:me":
		return w.byName["p"], w.own["me"][0]
	case "p:me2":
		if len(w.own["me"]) > 1 {
			return w.byName["p"], w.own["me"][1]
		}
	}
	return nil, netip.Addr{}
}

func (w *c09World) txNames() []string {
	out := []string{"me:a"}
	if w.sc.PCert == "AB" || w.sc.PCert == "A+AB" {
		out = append(out, "me:b")
	}
	out = append(out, "p:me")
	if len(w.own["me"]) > 1 && (w.allTx || w.sc.MeCert == "dual") {
		// (with a single certificate of mine both of my addresses are served by the same tunnels of P; quick tier leaves the second out)
		out = append(out, "p:me2")
	}
	return out
}

func c09HasTunnel(n *vnode, a netip.Addr) bool {
	n.f.hostMap.RLock()
	defer n.f.hostMap.RUnlock()
	return n.f.hostMap.Hosts[a] != nil
}

func (w *c09World) tunnelOf(node string, k int) (*vnode, *HostInfo) {
	n := w.byName[node]
	if n == nil || k < 0 || k >= len(w.tuns[node]) || !c09Live(n, w.tuns[node][k]) {
		return nil, nil
	}
	return n, w.tuns[node][k]
}

// c09NonPrimary: the tunnel is live and not the primary of at least one of its addresses.
func c09NonPrimary(n *vnode, hi *HostInfo) bool {
	n.f.hostMap.RLock()
	defer n.f.hostMap.RUnlock()
	for _, a := range hi.vpnAddrs {
		if n.f.hostMap.Hosts[a] != hi {
			return true
		}
	}
	return false
}

// v1Several: the node's (only) certificate is a version-1 certificate listing several networks.
func (w *c09World) v1Several(n *vnode) bool {
	if n == nil || len(w.own[n.spec.Name]) < 2 {
		return false
	}
	for _, ci := range w.certs {
		if ci.node == n.spec.Name && ci.v != cert.Version1 {
			return false
		}
	}
	return true
}

func (w *c09World) mainIdx(n *vnode) []uint32 {
	n.f.hostMap.RLock()
	defer n.f.hostMap.RUnlock()
	var out []uint32
	for i := range n.f.hostMap.Indexes {
		out = append(out, i)
	}
	slices.Sort(out)
	return out
}

func c09Overlap(a, b []netip.Addr) bool {
	for _, x := range a {
		if slices.Contains(b, x) {
			return true
		}
	}
	return false
}

// relaySlot: the datagram is a relay frame and the node it is addressed to holds a relay slot of the given type for it
// (ForwardingType: the node is the relay in the middle; TerminalType: the node is the end the inner packet is meant for).
// Returns that node, its tunnel with the sender, the slot and the inner packet.
func (w *c09World) relaySlot(p vpkt, typ int) (n *vnode, hi *HostInfo, relay *Relay, inner []byte) {
	var h header.H
	if h.Parse(p.Data) != nil || h.Type != header.Message || h.Subtype != header.MessageRelay {
		return nil, nil, nil, nil
	}
	n = w.nodeAt(p.To)
	if n == nil {
		return nil, nil, nil, nil
	}
	hi = n.f.hostMap.QueryRelayIndex(h.RemoteIndex)
	if hi == nil || hi.ConnectionState == nil || hi.ConnectionState.dKey == nil {
		return nil, nil, nil, nil
	}
	relay, ok := hi.relayState.QueryRelayForByIdx(h.RemoteIndex)
	if !ok || relay.Type != typ || len(p.Data) < 2*header.Len+hi.ConnectionState.dKey.Overhead() {
		return nil, nil, nil, nil
	}
	return n, hi, relay, p.Data[header.Len : len(p.Data)-hi.ConnectionState.dKey.Overhead()]
}

// canRelayAnswer: pool datagram i is a relayed FIRST handshake message on its way to a node that is to forward it.
func (w *c09World) canRelayAnswer(i int) bool {
	if i >= len(w.pool) {
		return false
	}
	hs, relayed, stage, _ := c09Handshake(w.pool[i].pkt.Data)
	if !hs || !relayed || stage != 1 {
		return false
	}
	n, _, _, _ := w.relaySlot(w.pool[i].pkt, ForwardingType)
	return n != nil
}

// relayAnswer (event ra): the relay keeps the relayed first handshake message for itself and answers it with ITS OWN
// certificate: responder side of the handshake exactly as beginHandshake sets it up (Machine from the node's CertState and
// CA pool), reply sent back through the node's real SendVia on the slot the frame came in on. The relay installs nothing
// (what a lying relay does with the keys is its own business); the initiator's side is what is judged.
func (w *c09World) relayAnswer(i int, where string) bool {
	if !w.canRelayAnswer(i) {
		return false
	}
	d := w.pool[i]
	r, hi, relay, inner := w.relaySlot(d.pkt, ForwardingType)
	w.pool = append(append([]c09Dgram{}, w.pool[:i]...), w.pool[i+1:]...)
	cs := r.f.pki.getCertState()
	mach, err := handshake.NewMachine(cs.DefaultVersion(), cs.GetCredential, r.hm.certVerifier(),
		func() (uint32, error) { return generateIndex(r.f.l) }, false, header.HandshakeIXPSK0)
	if err != nil {
		w.tb.Fatalf("c09: ra: responder machine of %s: %v", r.spec.Name, err)
	}
	resp, res, err := mach.ProcessPacket(nil, append([]byte(nil), inner...))
	if err != nil || res == nil || resp == nil {
		w.tb.Fatalf("c09: ra: %s could not answer the relayed first message: %v", r.spec.Name, err)
	}
	w.forged[string(resp)] = r.spec.Name
	w.stats.inc("relayedFirstMessagesAnsweredByTheRelayItself")
	w.curTag = "ra:" + r.spec.Name + "<" + d.tag
	r.f.SendVia(hi, relay, resp, make([]byte, 12), make([]byte, mtu), false, 0)
	r.settle()
	w.pump(where)
	w.curTag = ""
	return true
}

// relayedResponder: the datagram is a relay frame whose inner handshake reply is meant for dst itself; which host PRODUCED
// that reply (it sits in the responder's tunnel as the stored second handshake message, or a relay made it up: forged)?
func (w *c09World) relayedResponder(p vpkt) *vnode {
	n, _, _, inner := w.relaySlot(p, TerminalType)
	if n == nil {
		return nil
	}
	if name, ok := w.forged[string(inner)]; ok {
		return w.byName[name]
	}
	for _, name := range w.sortedNames() {
		x := w.byName[name]
		found := false
		x.f.hostMap.RLock()
		for _, hi := range x.f.hostMap.Indexes {
			if bytes.Equal(hi.HandshakePacket[handshakePacketStage2], inner) {
				found = true
			}
		}
		x.f.hostMap.RUnlock()
		if found {
			return x
		}
	}
	return nil
}

// deliverPool delivers pool datagram i to the node that owns its destination, judging wrong-responder obligations.
func (w *c09World) deliverPool(i int, dup bool, where string) {
	d := w.pool[i]
	if !dup {
		w.pool = append(append([]c09Dgram{}, w.pool[:i]...), w.pool[i+1:]...)
	}
	dst, src := w.nodeAt(d.pkt.To), w.nodeAt(d.pkt.From)
	if dst == nil {
		return
	}
	where = where + " / deliver " + d.tag
	hs, relayed, stage, idx := c09Handshake(d.pkt.Data)
	kind := ""
	var oldHH *HandshakeHostInfo
	var intended netip.Addr
	before := w.mainIdx(dst)
	viaRelay := false
	if hs && relayed {
		// a reply inside a relay frame: the host that answered is the one that produced the reply, not the one that carried it
		src = nil
		if stage == 2 {
			src = w.relayedResponder(d.pkt)
			viaRelay = src != nil
		}
	}
	if hs && src != nil {
		switch stage {
		case 2:
			dst.hm.RLock()
			oldHH = dst.hm.indexes[idx]
			var keyed []netip.Addr
			for a, hh := range dst.hm.vpnIps {
				if hh == oldHH {
					keyed = append(keyed, a)
				}
			}
			dst.hm.RUnlock()
			if oldHH != nil {
				// the address the pending handshake is FOR is the one it was started for, i.e. the one it is filed under in the
				// handshake manager (me dialed it); the pending entry's own address list is the node's bookkeeping, not the
				// reference (on the unchanged tree it is always exactly [that address])
				intended = oldHH.hostinfo.vpnAddrs[0]
				if len(keyed) > 0 && !slices.Contains(keyed, intended) {
					slices.SortFunc(keyed, func(x, y netip.Addr) int { return x.Compare(y) })
					intended = keyed[0]
					w.stats.inc("pendingHandshakesWhoseFirstRecordedAddressIsNotTheDialedOne")
				}
				switch {
				case c09Overlap(w.own[src.spec.Name], w.own[dst.spec.Name]):
					kind = "selfResp"
				case c09Contains(w.own[src.spec.Name], intended):
					kind = "right"
				default:
					kind = "wrong"
				}
			}
		case 1:
			if !relayed && c09Overlap(w.own[src.spec.Name], w.own[dst.spec.Name]) {
				kind = "selfInit"
			}
		}
	}
	w.curTag = d.tag
	if oldHH != nil && len(oldHH.packetStore) > 0 {
		// the application packets stored for the dialed address leave when this reply completes the handshake: they are judged
		// on the wire like a tx event (the tunnel they leave in must come from a certificate that lists the dialed address)
		w.curTx = &c09Tx{from: dst, to: intended, name: "stored"}
	}
	dst.deliver(d.pkt.From, d.pkt.Data)
	w.stats.deliveries++
	w.pump(where)
	w.curTag = ""
	if w.curTx != nil {
		if w.curTx.seen > 0 {
			w.stats.inc("storedApplicationPacketsJudgedAtCompletion")
		}
		w.curTx = nil
	}
	after := w.mainIdx(dst)
	dn := dst.spec.Name
	// a completed handshake legitimately resets the blocked list shared by the handshakes for the same addresses
	if !slices.Equal(before, after) {
		dst.f.hostMap.RLock()
		for _, idx := range after {
			if slices.Contains(before, idx) {
				continue
			}
			hi := dst.f.hostMap.Indexes[idx]
			dst.hm.RLock()
			for a, hh := range dst.hm.vpnIps {
				if hi != nil && slices.Contains(hi.vpnAddrs, a) && len(w.blocked[hh]) > 0 {
					delete(w.blocked, hh)
					w.stats.blockResets++
				}
			}
			dst.hm.RUnlock()
		}
		dst.f.hostMap.RUnlock()
	}
	switch kind {
	case "right":
		w.stats.right++
		if viaRelay {
			w.stats.inc("rightRepliesInsideRelayFrames")
		}
	case "selfInit":
		// whether the presented certificate really lists an own address is judged by the invariant on the installed entry
		if slices.Equal(before, after) {
			w.stats.selfInit++
			if w.v1Several(src) {
				w.stats.inc("selfClaimingInitiatorsWithV1CertOfSeveralAddresses")
			}
		}
	case "selfResp":
		if slices.Equal(before, after) {
			w.stats.selfResp++
			if w.v1Several(src) {
				w.stats.inc("selfClaimingRespondersWithV1CertOfSeveralAddresses")
			}
		}
	case "wrong":
		w.stats.wrong++
		w.stats.wrongByDisc[w.sc.Disc]++
		if viaRelay {
			w.stats.inc("wrongRepliesInsideRelayFrames")
			if c09Contains(w.own[src.spec.Name], w.nodeAt(d.pkt.From).vpnIP) {
				w.stats.inc("wrongRepliesInsideRelayFramesFromTheRelayItself")
			}
		}
		for _, ci := range w.certs {
			// the answering host is not certified for the dialed address, but its certificate shares ANOTHER address with the
			// certificate of the host that is (a several-address peer whose addresses were split over two hosts)
			if ci.node != src.spec.Name && c09Contains(ci.addrs, intended) && c09Overlap(ci.addrs, w.own[src.spec.Name]) {
				w.stats.inc("wrongRepliesFromHostSharingAnotherAddressWithTheGenuinePeer")
				if w.redialed {
					w.stats.inc("wrongRepliesFromHostSharingAnotherAddressWithTheGenuinePeerOnRedial")
				}
				break
			}
		}
		if !slices.Equal(before, after) {
			w.bad("C09: initiator installed a tunnel although a different host answered", "%s node=%s intended=%v responder=%s(%v) tunnels before=%d after=%d", where, dn, intended, src.spec.Name, w.own[src.spec.Name], len(before), len(after))
			break
		}
		dst.hm.RLock()
		newHH := dst.hm.vpnIps[intended]
		_, oldIdxThere := dst.hm.indexes[idx]
		dst.hm.RUnlock()
		if oldIdxThere {
			w.bad("C09: pending index of the handshake that a wrong host answered is still registered", "%s node=%s", where, dn)
		}
		if newHH == nil || newHH == oldHH {
			w.bad("C09: no fresh pending handshake for the address after a wrong host answered", "%s node=%s intended=%v fresh=%v", where, dn, intended, newHH != nil)
			break
		}
		w.stats.freshPending++
		if newHH.hostinfo.ConnectionState != nil {
			w.bad("C09: the fresh pending handshake after a wrong responder already carries a ConnectionState", "%s node=%s", where, dn)
		}
		if viaRelay {
			// a relayed reply has no underlay address of its own: nothing new to block, the earlier blocks stay
			if len(w.blocked[oldHH]) > 0 {
				w.blocked[newHH] = append([]netip.AddrPort{}, w.blocked[oldHH]...)
			}
			w.hsName(dst, newHH)
			break
		}
		bl := newHH.hostinfo.remotes.CopyBlockedRemotes()
		if !slices.Contains(bl, d.pkt.From) {
			w.bad("C09: the underlay address that answered as the wrong host is not blocked for the fresh handshake", "%s node=%s from=%v blocked=%v", where, dn, d.pkt.From, bl)
		}
		w.blocked[newHH] = append(append([]netip.AddrPort{}, w.blocked[oldHH]...), d.pkt.From)
		w.hsName(dst, newHH)
	}
	w.checkAll(where)
}

func (w *c09World) apply(e c09Ev, where string) (ok bool) {
	w.observe(e.K, func() { ok = w.applyInner(e, where) })
	return ok
}

func (w *c09World) applyInner(e c09Ev, where string) bool {
	w.steps++
	switch e.K {
	case "hs":
		if !w.canDial(e.N) {
			return false
		}
		from, to := w.hsEnds(e.N)
		if w.started[e.N] {
			w.stats.inc("redialsAfterTeardown")
			w.redialed = true
			if rl := from.lh.QueryCache([]netip.Addr{to}); rl != nil {
				// (evidence) what the node remembers for the dialed address from the peer's last completed handshake
				rl.RLock()
				if len(rl.vpnAddrs) > 1 && rl.vpnAddrs[0] != to {
					w.stats.inc("redialsOfNonFirstAddressOfRememberedCertificateList")
				}
				rl.RUnlock()
			}
		}
		w.started[e.N] = true
		from.tunSend(vUDPPacket(from.vpnIP, to, 4000, 4001, []byte("C09-"+e.N)))
	case "dl", "dp":
		if e.I >= len(w.pool) {
			return false
		}
		w.deliverPool(e.I, e.K == "dp", where)
		return true
	case "dr":
		if e.I >= len(w.pool) {
			return false
		}
		w.pool = append(append([]c09Dgram{}, w.pool[:e.I]...), w.pool[e.I+1:]...)
		return true
	case "ra":
		if !w.relayAnswer(e.I, where+" / "+e.String()) {
			return false
		}
	case "tk":
		vtime.Advance(200 * vtime.Millisecond)
		n := w.byName[e.N]
		if n == nil {
			return false
		}
		n.hsTick()
	case "tx":
		from, to := w.txEnds(e.N)
		if w.sc.Maint == "" || from == nil || !c09HasTunnel(from, to) {
			return false
		}
		w.txSeq++
		w.curTx = &c09Tx{from: from, to: to, name: e.N}
		w.stats.inc("applicationPacketsOverTunnels")
		from.tunSend(vUDPPacket(from.vpnIP, to, 4000, 4001, []byte(fmt.Sprintf("C09-tx-%s-%d", e.N, w.txSeq))))
		w.pump(where + " / " + e.String())
		if w.curTx.seen == 0 {
			w.stats.inc("applicationPacketsWithoutDataDatagram")
		}
		w.curTx = nil
	case "cm":
		n := w.byName[e.N]
		if w.sc.Maint == "" || n == nil {
			return false
		}
		vtime.Advance(2500 * vtime.Millisecond)
		w.stats.inc("connectionManagerTicks")
		pend := len(n.pendingAddrs())
		n.cmTick()
		w.pump(where + " / " + e.String())
		if len(n.pendingAddrs()) > pend {
			w.stats.inc("rehandshakesStartedByConnectionManager")
		}
	case "pm":
		n, hi := w.tunnelOf(e.N, e.I)
		if w.sc.Maint == "" || hi == nil || !c09NonPrimary(n, hi) {
			return false
		}
		n.f.hostMap.MakePrimary(hi)
	case "cl":
		n, hi := w.tunnelOf(e.N, e.I)
		if w.sc.Maint == "" || hi == nil {
			return false
		}
		n.f.sendCloseTunnel(hi)
		n.f.closeTunnel(hi)
		n.settle()
	case "rh":
		name, v2 := strings.CutSuffix(e.N, ":v2")
		from, to := w.txEnds(name)
		if w.sc.Maint == "" || from == nil || w.rhDone[e.N] || !c09HasTunnel(from, to) || len(from.pendingAddrs()) > 0 {
			return false
		}
		w.rhDone[e.N] = true
		w.stats.inc("rehandshakesStartedDirectly")
		var cb func(*HandshakeHostInfo)
		if v2 {
			cb = func(hh *HandshakeHostInfo) { hh.initiatingVersionOverride = cert.Version2 }
		}
		from.hm.StartHandshake(to, cb)
		from.settle()
	default:
		w.tb.Fatalf("c09: unknown event %v", e)
	}
	w.pump(where + " / " + e.String())
	w.checkAll(where + " / " + e.String())
	return true
}

// hsEnds resolves the name of an hs event: who sends an application packet to which overlay address.
func (w *c09World) hsEnds(name string) (from *vnode, to netip.Addr) {
	switch name {
	case "me:a":
		return w.me, netip.MustParseAddr(c09A)
	case "me:b":
		return w.me, netip.MustParseAddr(c09B)
	case "me:s":
		return w.me, netip.MustParseAddr(c09SAddr)
	case "p:me":
		return w.byName["p"], w.me.vpnIP
	case "s:me":
		// S believes 10.0.0.5 lives at my underlay address; a responder never learns which address was intended
		return w.byName["s"], netip.MustParseAddr("10.0.0.5")
	}
	w.tb.Fatalf("c09: unknown start %q", name)
	return nil, netip.Addr{}
}

// canDial: every start is offered once; where tunnels can go away again (maintenance alphabet: cl, cm) the same
// application packet is offered AGAIN (a re-dial) whenever the sender holds neither a tunnel nor a pending handshake
// for the address: the handshake then starts from whatever the node still remembers of the peer (lighthouse cache /
// static entries / the RemoteList of the torn-down tunnel). State-based, so it needs no counter in the canonical key.
func (w *c09World) canDial(name string) bool {
	if !w.started[name] {
		return true
	}
	if w.sc.Maint == "" {
		return false
	}
	from, to := w.hsEnds(name)
	if from == nil || c09HasTunnel(from, to) {
		return false
	}
	from.hm.RLock()
	_, pending := from.hm.vpnIps[to]
	from.hm.RUnlock()
	return !pending
}

// closure: loss-free FIFO delivery with timer ticks on every node until nothing is pending (bounded).
func (w *c09World) closure(where string) {
	for round := 0; round < 14 && len(w.problems) == 0; round++ {
		for k := 0; k < 60 && len(w.pool) > 0 && len(w.problems) == 0; k++ {
			w.deliverPool(0, false, where+" / closure")
		}
		pend := 0
		for _, n := range w.byName {
			pend += len(n.pendingAddrs())
		}
		if pend == 0 && len(w.pool) == 0 {
			break
		}
		vtime.Advance(200 * vtime.Millisecond)
		for _, name := range w.sortedNames() {
			w.byName[name].hsTick()
		}
		w.pump(where + " / closure tick")
		w.checkAll(where + " / closure tick")
	}
	// statistics: what does me hold for a in the end?
	a := netip.MustParseAddr(c09A)
	w.me.f.hostMap.RLock()
	hi := w.me.f.hostMap.Hosts[a]
	w.me.f.hostMap.RUnlock()
	if hi != nil && hi.ConnectionState != nil && hi.ConnectionState.peerCert != nil && w.certs[hi.ConnectionState.peerCert.Fingerprint].node == "p" {
		w.stats.closureToP++
	} else if hi == nil {
		w.stats.closureNoTunnel++
	}
}

func (w *c09World) sortedNames() []string {
	var out []string
	for n := range w.byName {
		out = append(out, n)
	}
	sort.Strings(out)
	return out
}

// ---- canonical state ----------------------------------------------------------------------------------------------------

func (w *c09World) key() string {
	var sb strings.Builder
	sb.WriteString(w.sc.String())
	for _, name := range w.sortedNames() {
		n := w.byName[name]
		fmt.Fprintf(&sb, "|%s{", name)
		hmap := n.f.hostMap
		hmap.RLock()
		var ents []string
		for _, hi := range hmap.Indexes {
			peer := "?"
			init := false
			if hi.ConnectionState != nil && hi.ConnectionState.peerCert != nil {
				peer = w.certs[hi.ConnectionState.peerCert.Fingerprint].node
				init = hi.ConnectionState.initiator
			}
			var prim []string
			pos := []string{}
			for _, a := range hi.vpnAddrs {
				if hmap.Hosts[a] == hi {
					prim = append(prim, a.String())
				}
				pos = append(pos, fmt.Sprint(slices.Index(hmap.unlockedGetHostList(a), hi)))
			}
			ent := fmt.Sprintf("(%s i=%v %v prim=%v pos=%v rem=%s rl=%d)", peer, init, hi.vpnAddrs, prim, pos, w.nameAt(hi.GetRemote()), len(hi.relayState.CopyRelayIps()))
			if w.sc.Maint != "" {
				// what the connection manager's next decision about the tunnel depends on, and the tunnel's event ordinal
				ent += fmt.Sprintf("[k=%d in=%v out=%v pd=%v]", slices.Index(w.tuns[name], hi), hi.in.Load(), hi.out.Load(), hi.pendingDeletion.Load())
			}
			ents = append(ents, ent)
		}
		hmap.RUnlock()
		sort.Strings(ents)
		sb.WriteString(strings.Join(ents, ""))
		n.hm.RLock()
		var pend []string
		for a, hh := range n.hm.vpnIps {
			rem := ""
			if rl := hh.hostinfo.remotes; rl != nil {
				// read-only view (CopyAddrs would rebuild the list, i.e. change the node)
				rl.RLock()
				ad := append([]netip.AddrPort{}, rl.addrs...)
				rem = fmt.Sprintf("%v!%v rb=%v rel=%v", ad, rl.badRemotes, rl.shouldRebuild, rl.relays)
				rl.RUnlock()
			}
			pend = append(pend, fmt.Sprintf("pend(%v %s c=%d r=%v st=%d %s)", a, w.hsNames[hh], hh.counter, hh.ready, len(hh.packetStore), rem))
		}
		n.hm.RUnlock()
		sort.Strings(pend)
		sb.WriteString(strings.Join(pend, ""))
		sb.WriteString(" w=" + c09Wheel(n.hm.OutboundHandshakeTimer.t))
		if w.sc.Maint != "" {
			sb.WriteString(" cmw=" + c09Wheel(n.cm.trafficTimer.t))
		}
		sb.WriteString("}")
	}
	sb.WriteString("|net[")
	for _, d := range w.pool {
		sb.WriteString(d.tag + ";")
	}
	fmt.Fprintf(&sb, "]|started=%v", w.started)
	if w.sc.Maint != "" {
		fmt.Fprintf(&sb, "|rh=%v", w.rhDone)
	}
	return sb.String()
}

func c09Wheel[T any](tw *TimerWheel[T]) string {
	var parts []string
	for d := 0; d < tw.wheelLen; d++ {
		slot := (tw.current + d) % tw.wheelLen
		k := 0
		for it := tw.wheel[slot].Head; it != nil; it = it.Next {
			k++
		}
		if k > 0 {
			parts = append(parts, fmt.Sprintf("%d:%d", d, k))
		}
	}
	lag := int64(-1)
	if tw.lastTick != nil {
		lag = int64(vtime.Now().Sub(*tw.lastTick) / vtime.Millisecond)
	}
	return fmt.Sprintf("%d%v", lag, parts)
}

// ---- driver ---------------------------------------------------------------------------------------------------------

const (
	// me dials P {a,b} by its SECOND address b (the first message to Q is lost), the tunnel completes on both ends and is
	// then closed on both ends: what me remembers of P (the RemoteList filed under b, carrying P's certificate order [a,b])
	// survives, and Q - certified for a only - still sits at one of the underlay addresses me believes to be b's
	// (static_host_map: the first message leaves at once; lighthouse-learned: at the second timer tick; to P, then to Q)
	c09PreDialBClosed   = "hs:me:b dr#1 dl#0 dl#0 cl:me#0"
	c09PreDialAClosed   = "hs:me:a dr#1 dl#0 dl#0 cl:me#0"
	c09PreDialBClosedLh = "hs:me:b tk:me tk:me dr#1 dl#0 dl#0 cl:me#0"
	c09PreDialAClosedLh = "hs:me:a tk:me tk:me dr#1 dl#0 dl#0 cl:me#0"
	// me -> a completes (both ends), P's handshake to me has left P and is in flight
	c09PreCrossing = "hs:me:a hs:p:me dl#0 dl#0 tk:p tk:p"
	// ... and then completes too: two tunnels on both sides, the later one (P's) primary
	c09PreBoth = c09PreCrossing + " dl#0 dl#0"
	// relay topology: me asks R for a relay slot to a, R completes its own handshake with P, the slot is established on all
	// three nodes and my first handshake message for a has left inside a relay frame, in flight to R
	c09PreRelayedFirst = "hs:me:a tk:me tk:r dl#0 dl#0 tk:me tk:me tk:me"
)

func c09Scenarios(thorough bool) []c09Scn {
	v1, v2 := cert.Version1, cert.Version2
	quick := []c09Scn{
		{PCert: "A", Disc: "static", Remote: "QP", MeV: v2, PV: v2},
		{PCert: "AB", Disc: "lh", Remote: "QP", MeV: v2, PV: v2},
		{PCert: "AO", Disc: "static", Remote: "Q", MeV: v2, PV: v2},
		{PCert: "A", Disc: "relay", Remote: "QP", MeV: v2, PV: v2},
		{PCert: "A", Disc: "lh", Remote: "Q", MeV: v1, PV: v1},
		{PCert: "A", Disc: "static", Remote: "P", MeV: v2, PV: v2, Self: "S2resp"},
		{PCert: "A", Disc: "static", Remote: "P", MeV: v2, PV: v1, Self: "S1"},
		{PCert: "AB", Disc: "static", Remote: "P", MeV: v2, PV: v2},
		{PCert: "A", Disc: "static", Remote: "QP", MeV: v1, PV: v2},
		{PCert: "AO", Disc: "lh", Remote: "P", MeV: v2, PV: v2, Self: "S2"},
		// the several-address shapes as VERSION-1 certificates: P {a,b}; S {s, my second address} as initiator and as responder
		{PCert: "AB", Disc: "static", Remote: "P", MeV: v2, PV: v1},
		{PCert: "A", Disc: "static", Remote: "P", MeV: v2, PV: v2, Self: "S2", SV: v1},
		{PCert: "A", Disc: "lh", Remote: "P", MeV: v2, PV: v2, Self: "S2resp", SV: v1},
		// P runs a certificate bundle v1 {a} + v2 {a,b} and initiates with v1; start state: my tunnel to P (v2 certificate, {a,b})
		// is up on both sides while P's own v1 handshake to me is still in flight
		{PCert: "A+AB", Disc: "static", Remote: "P", MeV: v2, PV: v1, Maint: "m", Pre: c09PreCrossing, TD: 5},
		// ... and: both tunnels complete on both sides (P's v1 tunnel primary for a, my v2 tunnel still primary for b)
		{PCert: "A+AB", Disc: "static", Remote: "P", MeV: v2, PV: v1, Maint: "m", Pre: c09PreBoth, QD: 3, TD: 5},
		// the impostor is certified for ONE of the several-address peer's addresses (a; P is {a,b}): start state = my tunnel to
		// P, dialed by b, has come and gone; then the search with re-dials
		{PCert: "AB", Disc: "static", Remote: "QP", QCert: "A", MeV: v2, PV: v2, Maint: "m", Pre: c09PreDialBClosed, QD: 3, TD: 5},
		// the relay itself as the wrong responder: start state = the relay slot me<->P is up and my first relayed handshake
		// message is in flight to R, which may forward it (dl) or answer it itself with its own certificate (ra)
		{PCert: "A", Disc: "relay", Remote: "P", MeV: v2, PV: v2, Pre: c09PreRelayedFirst},
	}
	if !thorough {
		return quick
	}
	out := append([]c09Scn{}, quick...)
	seen := map[string]bool{}
	for _, s := range out {
		seen[s.String()] = true
	}
	add := func(s c09Scn) {
		if !seen[s.String()] {
			seen[s.String()] = true
			out = append(out, s)
		}
	}
	for _, pc := range []string{"A", "AB", "AO"} {
		for _, d := range []string{"static", "lh", "relay"} {
			for _, r := range []string{"QP", "Q", "P"} {
				add(c09Scn{PCert: pc, Disc: d, Remote: r, MeV: v2, PV: v2})
			}
		}
	}
	for _, vv := range [][2]cert.Version{{v1, v1}, {v1, v2}, {v2, v1}} {
		for _, d := range []string{"static", "lh", "relay"} {
			for _, r := range []string{"QP", "Q"} {
				add(c09Scn{PCert: "A", Disc: d, Remote: r, MeV: vv[0], PV: vv[1]})
			}
		}
	}
	// a v2 node with two networks talking to v1 peers
	add(c09Scn{PCert: "AO", Disc: "static", Remote: "QP", MeV: v1, PV: v2})
	for _, self := range []string{"S1", "S2", "S2resp"} {
		for _, d := range []string{"static", "lh"} {
			add(c09Scn{PCert: "A", Disc: d, Remote: "P", MeV: v2, PV: v2, Self: self})
		}
	}
	add(c09Scn{PCert: "A", Disc: "static", Remote: "P", MeV: v1, PV: v1, Self: "S1"})
	// shape x version: every several-address shape also with version-1 certificates on either / both sides
	for _, pc := range []string{"AB", "AO"} {
		for _, vv := range [][2]cert.Version{{v1, v1}, {v1, v2}, {v2, v1}} {
			add(c09Scn{PCert: pc, Disc: "static", Remote: "QP", MeV: vv[0], PV: vv[1]})
			add(c09Scn{PCert: pc, Disc: "lh", Remote: "P", MeV: vv[0], PV: vv[1]})
		}
		add(c09Scn{PCert: pc, Disc: "relay", Remote: "QP", MeV: v1, PV: v1})
	}
	for _, self := range []string{"S2", "S2resp"} {
		for _, d := range []string{"static", "lh"} {
			add(c09Scn{PCert: "A", Disc: d, Remote: "P", MeV: v2, PV: v2, Self: self, SV: v1})
		}
	}
	// hostmap maintenance over tunnels with divergent certificate address sets: from scratch, with me holding a bundle too
	// (then P's tunnels to me diverge as well: v1 {my first address} / v2 {both}), and over equal sets (single v2 certificates)
	add(c09Scn{PCert: "A+AB", Disc: "static", Remote: "P", MeV: v2, PV: v1, Maint: "m", TD: 6})
	add(c09Scn{PCert: "A+AB", Disc: "static", Remote: "P", MeV: v1, PV: v2, MeCert: "dual", Maint: "m", Pre: c09PreCrossing})
	add(c09Scn{PCert: "A+AB", Disc: "static", Remote: "P", MeV: v1, PV: v2, MeCert: "dual", Maint: "m", Pre: c09PreBoth})
	add(c09Scn{PCert: "A+AB", Disc: "static", Remote: "P", MeV: v1, PV: v1, MeCert: "dual", Maint: "m", Pre: c09PreBoth})
	add(c09Scn{PCert: "A+AB", Disc: "static", Remote: "P", MeV: v2, PV: v2, Maint: "m", Pre: c09PreBoth})
	add(c09Scn{PCert: "AB", Disc: "static", Remote: "P", MeV: v2, PV: v2, Maint: "m", Pre: c09PreBoth})
	// impostor certified for one address of the several-address peer: other discovery path / certificate version / the
	// impostor holds P's SECOND address and the tunnel that came and went was dialed by the first / from scratch
	add(c09Scn{PCert: "AB", Disc: "lh", Remote: "QP", QCert: "A", MeV: v2, PV: v2, Maint: "m", Pre: c09PreDialBClosedLh, TD: 6})
	add(c09Scn{PCert: "AB", Disc: "static", Remote: "QP", QCert: "A", MeV: v2, PV: v1, Maint: "m", Pre: c09PreDialBClosed})
	add(c09Scn{PCert: "AB", Disc: "lh", Remote: "QP", QCert: "B", MeV: v2, PV: v2, Maint: "m", Pre: c09PreDialAClosedLh, TD: 6})
	add(c09Scn{PCert: "AB", Disc: "static", Remote: "QP", QCert: "B", MeV: v2, PV: v2, Maint: "m", Pre: c09PreDialAClosed})
	add(c09Scn{PCert: "AB", Disc: "lh", Remote: "QP", QCert: "A", MeV: v2, PV: v2})
	add(c09Scn{PCert: "AB", Disc: "static", Remote: "QP", QCert: "B", MeV: v2, PV: v2})
	// the relay as the wrong responder: several-address peer; version-1 certificates on both ends / on either end
	add(c09Scn{PCert: "AB", Disc: "relay", Remote: "P", MeV: v2, PV: v2, Pre: c09PreRelayedFirst})
	add(c09Scn{PCert: "A", Disc: "relay", Remote: "P", MeV: v1, PV: v1, Pre: c09PreRelayedFirst})
	add(c09Scn{PCert: "A", Disc: "relay", Remote: "P", MeV: v1, PV: v2, Pre: c09PreRelayedFirst})
	add(c09Scn{PCert: "AO", Disc: "relay", Remote: "P", MeV: v2, PV: v1, Pre: c09PreRelayedFirst})
	return out
}

func (w *c09World) menu(nDl, nDp, nDr int, rh bool) []c09Ev {
	var menu []c09Ev
	for _, s := range w.starts {
		if w.canDial(s) {
			menu = append(menu, c09Ev{K: "hs", N: s})
		}
	}
	for i := 0; i < len(w.pool) && i < nDl; i++ {
		menu = append(menu, c09Ev{K: "dl", I: i})
	}
	for i := 0; i < len(w.pool) && i < nDp; i++ {
		menu = append(menu, c09Ev{K: "dp", I: i})
	}
	for i := 0; i < len(w.pool) && i < nDr; i++ {
		menu = append(menu, c09Ev{K: "dr", I: i})
	}
	for i := 0; i < len(w.pool) && i < nDl; i++ {
		if w.canRelayAnswer(i) {
			menu = append(menu, c09Ev{K: "ra", I: i})
		}
	}
	pendAny := func(n *vnode) bool { return n != nil && len(n.pendingAddrs()) > 0 }
	if pendAny(w.me) {
		menu = append(menu, c09Ev{K: "tk", N: "me"})
	}
	if pendAny(w.byName["r"]) {
		menu = append(menu, c09Ev{K: "tk", N: "r"})
	}
	if w.sc.Maint != "" {
		if pendAny(w.byName["p"]) {
			menu = append(menu, c09Ev{K: "tk", N: "p"})
		}
		for _, name := range w.txNames() {
			if from, to := w.txEnds(name); from != nil && c09HasTunnel(from, to) {
				menu = append(menu, c09Ev{K: "tx", N: name})
			}
		}
		for _, node := range c09MaintNodes {
			n := w.byName[node]
			if n == nil {
				continue
			}
			any := false
			for k, hi := range w.tuns[node] {
				if !c09Live(n, hi) {
					continue
				}
				any = true
				if c09NonPrimary(n, hi) {
					menu = append(menu, c09Ev{K: "pm", N: node, I: k})
				}
				menu = append(menu, c09Ev{K: "cl", N: node, I: k})
			}
			if any {
				menu = append(menu, c09Ev{K: "cm", N: node})
			}
		}
		if rh {
			for _, name := range []string{"me:a", "p:me", "p:me:v2"} {
				base, _ := strings.CutSuffix(name, ":v2")
				if from, to := w.txEnds(base); from != nil && !w.rhDone[name] && c09HasTunnel(from, to) && len(from.pendingAddrs()) == 0 {
					menu = append(menu, c09Ev{K: "rh", N: name})
				}
			}
		}
	}
	return menu
}

// c09Sharded (thorough tier): the explorer is single-threaded because the virtual clock and the pinned random stream
// are process-global, so the scenarios are spread over worker processes (this test binary re-executed with
// C09_SHARD=i/n). Each worker writes its own evidence file; violations are re-reported here from their replay files.
func c09Sharded(c *mc.Check, n int, budget float64, stats *c09Stats, scnStates map[string]int) (closures int64) {
	dir, err := os.MkdirTemp("", "c09shard")
	if err != nil {
		c.Broken("tempdir: %v", err)
	}
	defer os.RemoveAll(dir)
	outs := make([][]byte, n)
	var wg sync.WaitGroup
	for i := 0; i < n; i++ {
		wg.Add(1)
		go func(i int) {
			defer wg.Done()
			cmd := exec.Command(os.Args[0], "-test.run=^TestVerifC09$", "-test.v", fmt.Sprintf("-test.timeout=%ds", int(budget)+900))
			cmd.Env = append(os.Environ(), fmt.Sprintf("C09_SHARD=%d/%d", i, n), "VERIF_EVIDENCE="+filepath.Join(dir, fmt.Sprintf("ev%d.json", i)),
				fmt.Sprintf("VERIF_BUDGET_S=%.0f", budget), "GOMAXPROCS=2")
			outs[i], _ = cmd.CombinedOutput()
		}(i)
	}
	wg.Wait()
	for i := 0; i < n; i++ {
		for _, ln := range strings.Split(string(outs[i]), "\n") {
			if strings.HasPrefix(ln, "VIOLATION property=C09 replay=") {
				path := strings.TrimPrefix(ln, "VIOLATION property=C09 replay=")
				var rp struct {
					Signature string `json:"signature"`
					Detail    any    `json:"detail"`
				}
				if b, err := os.ReadFile(strings.TrimSpace(path)); err == nil && json.Unmarshal(b, &rp) == nil && rp.Signature != "" {
					c.Violation(rp.Signature, rp.Detail)
				} else {
					c.Violation("C09: violation reported by a worker process (replay file unreadable)", ln)
				}
			}
			if strings.HasPrefix(ln, "KNOWN-FINDING:") {
				fmt.Println(ln)
			}
		}
		b, err := os.ReadFile(filepath.Join(dir, fmt.Sprintf("ev%d.json", i)))
		if err != nil {
			tail := string(outs[i])
			if len(tail) > 3000 {
				tail = tail[len(tail)-3000:]
			}
			c.Broken("worker %d/%d left no evidence:\n%s", i, n, tail)
		}
		var ev struct {
			Coverage map[string]any `json:"coverage"`
		}
		if err := json.Unmarshal(b, &ev); err != nil {
			c.Broken("worker %d evidence: %v", i, err)
		}
		num := func(k string) int64 {
			f, _ := ev.Coverage[k].(float64)
			return int64(f)
		}
		c.Add("states", num("states"))
		c.Add("transitions", num("transitions"))
		c.Add("traces_validated_against_impl", num("traces_validated_against_impl"))
		if d := c.Counter("max_depth"); num("max_depth") > d.Load() {
			d.Store(num("max_depth"))
		}
		closures += num("closures")
		if mm, ok := ev.Coverage["shard_stats"].(map[string]any); ok {
			stats.addMap(mm)
		}
		if mm, ok := ev.Coverage["shard_scenario_states"].(map[string]any); ok {
			for k, v := range mm {
				f, _ := v.(float64)
				scnStates[k] += int(f)
			}
		}
		if ex, _ := ev.Coverage["exhaustive"].(bool); !ex {
			c.Capped(fmt.Sprintf("worker %d/%d: %v", i, n, ev.Coverage["cap_hit"]))
		}
		if ss, ok := ev.Coverage["samples"].([]any); ok {
			for _, x := range ss {
				c.Sample(x)
			}
		}
	}
	return closures
}

func TestVerifC09(t *testing.T) {
	c := mc.Begin(t, "C09", "model_checking")
	defer c.End()
	// the explorer is serial; one P keeps the goroutine-exit spin of the node assembly reliable on a loaded machine
	defer runtime.GOMAXPROCS(runtime.GOMAXPROCS(1))
	seed := c.Seed()
	scns := c09Scenarios(c.Thorough())
	stats := &c09Stats{wrongByDisc: map[string]int64{}}
	nviol := 0
	shardI, shardN := 0, 1
	if sh := os.Getenv("C09_SHARD"); sh != "" {
		fmt.Sscanf(sh, "%d/%d", &shardI, &shardN)
	}
	worker := shardN > 1
	workers := 0
	if c.Thorough() && !worker && os.Getenv("C09_NOSHARD") == "" {
		workers = 6
	}
	report := func(w *c09World, hist []c09Ev) {
		for _, p := range w.problems {
			nviol++
			c.Violation(p.sig, map[string]any{"scenario": w.sc.String(), "history": fmt.Sprint(hist), "what": p.detail})
		}
		w.problems = nil
	}

	// determinism: the same history twice gives the same canonical state and the same wire bytes
	{
		h := []c09Ev{{K: "hs", N: "me:a"}, {K: "dl", I: 0}, {K: "dl", I: 0}, {K: "tk", N: "me"}, {K: "hs", N: "p:me"}, {K: "dl", I: 0}}
		var k [2]string
		for i := range k {
			w := c09Build(t, seed, scns[0], &c09Stats{wrongByDisc: map[string]int64{}})
			for _, e := range h {
				w.apply(e, "determinism")
			}
			k[i] = w.key() + "|" + w.net.wireHash()
			w.close()
		}
		if k[0] != k[1] {
			c.Broken("nondeterministic replay:\n%s\n%s", k[0], k[1])
		}
	}

	depth := mc.Pick(c, 4, 7)
	nDl, nDp, nDr := mc.Pick(c, 3, 4), mc.Pick(c, 1, 2), mc.Pick(c, 1, 2)
	maintDepth := 4 // (the thorough tier has the wider menu: more in-flight datagrams, duplication, re-handshakes)
	mDl, mDp, mDr := mc.Pick(c, 2, 3), mc.Pick(c, 0, 1), mc.Pick(c, 1, 1)
	closed := map[string]bool{}
	var closures int64
	scnStates := map[string]int{}
	if workers > 0 {
		budget := 900.0
		if b := os.Getenv("VERIF_BUDGET_S"); b != "" {
			fmt.Sscanf(b, "%f", &budget)
		}
		budget -= c.Elapsed() + 30
		if budget < 20 {
			budget = 20
		}
		closures = c09Sharded(c, workers, budget, stats, scnStates)
		nviol = c.Violations()
		c.Set("worker_processes", workers)
	} else {
		mc.BFSReplay(c, mc.BFSConfig[c09Ev]{
			MaxDepth: depth + 1, Workers: 1, Stop: func() bool { return nviol > 30 || c.OutOfTime() },
			Label: func(e c09Ev) string {
				if e.K == "scn" {
					return "[" + scns[e.I].String() + "]"
				}
				return e.String()
			},
			Run: func(hist []c09Ev) (string, []c09Ev) {
				if len(hist) == 0 {
					var menu []c09Ev
					for i := range scns {
						if i%shardN == shardI {
							menu = append(menu, c09Ev{K: "scn", I: i})
						}
					}
					return "root", menu
				}
				w := c09Build(t, seed, scns[hist[0].I], stats)
				defer w.close()
				w.allTx = c.Thorough()
				where := fmt.Sprint(hist[1:])
				for _, e := range hist[1:] {
					if len(w.problems) > 0 {
						break // the scripted prefix already failed
					}
					if !w.apply(e, where) {
						c.Broken("history not replayable: %v %v", w.sc, hist)
					}
					if len(w.problems) > 0 {
						break
					}
				}
				if len(w.problems) > 0 {
					report(w, hist)
					return "violated|" + fmt.Sprint(hist), nil
				}
				key := w.key()
				menu := w.menu(nDl, nDp, nDr, false)
				if w.sc.Maint != "" {
					// the maintenance alphabet is wide: its scenarios start from a scripted prefix and are searched less deep
					menu = nil
					d := maintDepth
					if x := mc.Pick(c, w.sc.QD, w.sc.TD); x > 0 {
						d = x
					}
					if len(hist)-1 < d {
						menu = w.menu(mDl, mDp, mDr, c.Thorough())
					}
				}
				if !closed[key] {
					closed[key] = true
					scnStates[w.sc.String()]++
					closures++
					w.closure(where)
					report(w, hist)
				}
				return key, menu
			},
		})
	}
	if worker {
		c.Set("shard_stats", stats.toMap())
		c.Set("shard_scenario_states", scnStates)
		c.Set("closures", closures)
		return
	}

	c.Set("scenarios", len(scns))
	c.Set("states_per_scenario", fmt.Sprint(scnStates))
	c.Set("closures", closures)
	c.Set("datagram_deliveries_checked", stats.deliveries)
	c.Set("hostmap_entries_checked", stats.entriesChecked)
	c.Set("replies_from_wrong_host", stats.wrong)
	c.Set("replies_from_wrong_host_by_discovery", fmt.Sprint(stats.wrongByDisc))
	c.Set("replies_from_right_host", stats.right)
	c.Set("self_claiming_initiators", stats.selfInit)
	c.Set("self_claiming_responders", stats.selfResp)
	c.Set("entries_filed_under_several_addresses", stats.multiAddr)
	c.Set("entries_filed_under_an_address_outside_own_networks", stats.outsideAddr)
	c.Set("relayed_tunnels_seen", stats.relayed)
	c.Set("entries_with_v1_and_v2_peer_certs", fmt.Sprintf("%d/%d", stats.peerV1, stats.peerV2))
	c.Set("addresses_with_several_tunnels", stats.several)
	c.Set("first_messages_after_a_block", stats.postBlockTx)
	c.Set("fresh_pending_after_wrong_responder", stats.freshPending)
	c.Set("block_resets_by_completed_handshakes", stats.blockResets)
	c.Set("closures_ending_with_tunnel_to_P_or_none", fmt.Sprintf("%d/%d", stats.closureToP, stats.closureNoTunnel))
	c.Set("distinct_outcomes", len(scnStates))
	x := stats.x
	if x == nil {
		x = map[string]int64{}
	}
	c.Set("maintenance_counters", x)
	c.Set("relayed_first_messages_answered_by_the_relay_itself", x["relayedFirstMessagesAnsweredByTheRelayItself"])
	c.Set("replies_inside_relay_frames_right_wrong_wrong_from_the_relay", fmt.Sprintf("%d/%d/%d", x["rightRepliesInsideRelayFrames"], x["wrongRepliesInsideRelayFrames"], x["wrongRepliesInsideRelayFramesFromTheRelayItself"]))
	c.Set("maintenance_explanation", "scenarios with maint=m start from a scripted prefix (two tunnels to a peer whose v1 and v2 certificates list different address sets) and add the events tx (application packet over an existing tunnel), cm (connection-manager tick: test packets, swapPrimary, dead-tunnel deletion, version re-handshake), pm (HostMap.MakePrimary of a non-primary tunnel), cl (close tunnel, the peer's end follows), rh (re-handshake, thorough only), and offer every hs (application packet without a tunnel) again once its tunnel and pending handshake are gone (re-dial); scenarios with qcert certify the impostor for one address of the several-address peer; counters name what the event of that kind did to the per-address tunnel lists (kind after the colon)")
	c.Set("explanation", "states = distinct canonical network states (structural: peers named by certificate, handshakes by creation order, no index values or key bytes); transitions = histories replayed on real nodes; every delivered datagram is followed by the hostmap invariant on every node; each new state is additionally run to quiescence with the same checks")
	if nviol == 0 && (workers > 0 || !c.OutOfTime()) {
		c.Require(stats.wrong > 0 && stats.wrongByDisc["static"] > 0 && stats.wrongByDisc["lh"] > 0, "wrong responder not reached on both direct discovery paths: %v", stats.wrongByDisc)
		c.Require(stats.wrongByDisc["relay"] > 0, "wrong responder not reached in the relay topology")
		c.Require(stats.right > 0 && stats.freshPending > 0 && stats.postBlockTx > 0, "right=%d fresh=%d post-block transmissions=%d", stats.right, stats.freshPending, stats.postBlockTx)
		c.Require(stats.selfInit > 0 && stats.selfResp > 0, "self-claiming peers not reached: initiator=%d responder=%d", stats.selfInit, stats.selfResp)
		c.Require(stats.multiAddr > 0 && stats.outsideAddr > 0, "multi-address certificates not reached: several=%d outside=%d", stats.multiAddr, stats.outsideAddr)
		c.Require(stats.relayed > 0, "no relayed tunnel completed")
		c.Require(stats.peerV1 > 0 && stats.peerV2 > 0, "certificate versions: v1=%d v2=%d", stats.peerV1, stats.peerV2)
		c.Require(stats.several > 0, "never more than one tunnel per address")
		c.Require(stats.closureToP > 0 && stats.closureNoTunnel > 0, "closure outcomes: toP=%d none=%d", stats.closureToP, stats.closureNoTunnel)
		// several-address shapes as version-1 certificates
		c.Require(x["entriesWithV1CertOfSeveralAddresses:p"] > 0, "no tunnel from a version-1 certificate listing several addresses: %v", x)
		c.Require(x["selfClaimingInitiatorsWithV1CertOfSeveralAddresses"] > 0 && x["selfClaimingRespondersWithV1CertOfSeveralAddresses"] > 0, "self-claiming peer with a version-1 certificate of several addresses not refused as initiator and as responder: %v", x)
		// hostmap maintenance over sibling tunnels with divergent certificate address sets
		c.Require(x["divergentListsInSearch"] > 0, "no address ever held sibling tunnels whose certificates list different address sets: %v", x)
		c.Require(x["promotions:cm"] > 0 && x["promotions:pm"] > 0, "promotion of a non-primary tunnel not reached by the connection manager and by MakePrimary: %v", x)
		c.Require(x["promotionsOfWiderCertOverNarrower:cm"] > 0 && x["promotionsOfWiderCertOverNarrower:pm"] > 0, "no tunnel with the wider certificate was promoted over a sibling with the narrower one: %v", x)
		c.Require(x["promotionsAmongDivergentSiblings:pm"] > x["promotionsOfWiderCertOverNarrower:pm"], "no tunnel with the narrower certificate was promoted over a sibling with the wider one: %v", x)
		c.Require(x["teardowns:cl"] > 0 && x["teardowns:cm"] > 0, "teardown by close and by the connection manager's dead-tunnel check not both reached: %v", x)
		c.Require(x["teardownsLeavingSiblings:cl"] > 0 && x["teardownsOfPrimaryWithSuccessor:cl"] > 0 && x["teardownsVacatingOneAddressOnly:cl"] > 0, "teardown classes (sibling left / primary with successor / one address vacated while another keeps a tunnel) not all reached: %v", x)
		c.Require(x["dataDatagramsJudged"] > 0 && x["connectionManagerTicks"] > 0, "application packets / connection-manager ticks not exercised: %v", x)
		// re-dials after teardown; impostor certified for one of the addresses of the several-address peer
		c.Require(x["redialsAfterTeardown"] > 0 && x["redialsOfNonFirstAddressOfRememberedCertificateList"] > 0, "no re-dial of a torn-down tunnel's address / of an address that is not the first of the certificate list the node remembers: %v", x)
		c.Require(x["wrongRepliesFromHostSharingAnotherAddressWithTheGenuinePeerOnRedial"] > 0, "no re-dial was answered by a host that shares another certificate address with the genuine peer: %v", x)
		c.Require(x["storedApplicationPacketsJudgedAtCompletion"] > 0, "no stored application packet was judged on the wire when its handshake completed: %v", x)
		// the relay itself as the wrong responder of a relayed handshake
		c.Require(x["relayedFirstMessagesAnsweredByTheRelayItself"] > 0 && x["wrongRepliesInsideRelayFramesFromTheRelayItself"] > 0, "no relayed first handshake message was answered by the relay itself / no such reply reached the initiator's pending handshake: %v", x)
		c.Require(x["rightRepliesInsideRelayFrames"] > 0, "no reply of the genuine peer inside a relay frame was classified: %v", x)
		if c.Thorough() {
			c.Require(x["rehandshakesStartedDirectly"] > 0, "no re-handshake event: %v", x)
		}
	}
	c.Assume("'the peer addresses recorded for the tunnel are exactly the certificate's addresses' is read as: HostInfo.vpnAddrs equals the certificate's addresses (all, in order, including addresses outside the node's own networks) AND the set of addresses the tunnel is filed under in Hosts/moreHosts equals that set")
	c.Assume("'verified' is judged by identity: the tunnel's peer certificate must be (by fingerprint) one of the certificates the harness CA issued to a node of the network; cryptographic authenticity of the exchange is C05's subject")
	c.Assume("a blocked underlay address must not receive a first handshake message again while the handshake that blocked it (or its direct successors after further wrong responders) is pending; close-tunnel and other non-handshake datagrams to it are not judged; a handshake completed meanwhile with a peer holding that address (e.g. started by the genuine peer) resets the blocks, as the node's design says")
	c.Assume("non-handshake datagrams (relay control, close tunnel, test, recv_error, data) are delivered at once and loss-free; only the oldest few in-flight handshake datagrams are offered for delivery / duplication / drop")
	c.Assume("HostMap.MakePrimary (pm) is offered for any live tunnel that is not primary for all of its addresses: in the node it is reached through connectionManager.swapPrimary (traffic on a non-primary tunnel) and AddRelay (relay control on a non-primary tunnel); the cm event covers the former through the real decision path, the relay-driven promotion and the per-address cap eviction (6 tunnels to one address) are not driven")
	c.Assume("an application packet for overlay address X (tx) is judged on the wire: the data datagram it leaves in must carry the remote index of a tunnel whose verified peer certificate lists X (no unsafe routes in these networks)")
	c.Assume("in the relay topology the tunnel me<->relay is pre-established; a reply FORWARDED by R can only come from the host R holds a verified tunnel with, so an impostor at the peer's underlay address shows up on R's own handshake to the address; R itself is the other possible wrong responder on that path: it may answer a relayed first message with its own certificate instead of forwarding it (event ra; R keeps no state of that exchange, the initiator's side is judged)")
	c.Assume("a wrong responder whose reply arrives inside a relay frame has no underlay address of its own: the obligations are no tunnel, the old pending entry and index gone, a fresh pending entry; nothing new has to be blocked")
}

// TestVerifC09Replay: C09_REPLAY="<scenario index>:ev ev ev" with events as printed (hs:me:a dl#0 dp#1 dr#0 tk:me).
func TestVerifC09Replay(t *testing.T) {
	spec := os.Getenv("C09_REPLAY")
	if spec == "" {
		t.Skip("C09_REPLAY not set")
	}
	parts := strings.SplitN(spec, ":", 2)
	var si int
	fmt.Sscanf(parts[0], "%d", &si)
	scns := c09Scenarios(true)
	w := c09Build(t, 0, scns[si], &c09Stats{wrongByDisc: map[string]int64{}})
	defer w.close()
	w.allTx = true
	fmt.Println("scenario:", w.sc)
	for _, es := range strings.Fields(strings.Trim(parts[1], "[]")) {
		e := c09ParseEv(es)
		ok := w.apply(e, "replay")
		fmt.Printf("%-10s ok=%v\n   %s\n", es, ok, w.key())
		for _, p := range w.problems {
			fmt.Printf("   PROBLEM %s — %s\n", p.sig, p.detail)
		}
	}
	w.closure("replay")
	fmt.Printf("closure\n   %s\n", w.key())
	for _, p := range w.problems {
		fmt.Printf("   PROBLEM %s — %s\n", p.sig, p.detail)
	}
}
