//go:build verif

package nebula

import (
	"crypto/sha256"
	"encoding/hex"
	"encoding/json"
	"fmt"
	"net/netip"
	"sort"
)

// vSnapshot is a canonical, JSON-able description of everything a node holds that a packet could influence:
// hostmap (all five maps), per-tunnel flags/remotes/relay state/replay window/send counter, pending handshakes,
// lighthouse cache, conntrack. Unordered collections are sorted; no pointer values or key bytes appear.
type vSnapOpts struct {
	NoCounters bool // omit messageCounter / window (when sends are expected to advance them)
	NoTraffic  bool // omit in/out flags and lastUsed
}

func vHostID(hi *HostInfo) string {
	if hi == nil {
		return "nil"
	}
	return fmt.Sprintf("L%d/R%d%v", hi.localIndexId, hi.remoteIndexId, hi.vpnAddrs)
}

func vRelayStr(r *Relay) string {
	return fmt.Sprintf("{t%d s%d L%d R%d %v}", r.Type, r.State, r.LocalIndex, r.RemoteIndex, r.PeerAddr)
}

func vWindowDigest(b *Bits) string {
	h := sha256.New()
	fmt.Fprintf(h, "%d/%x", b.current, b.bits)
	return fmt.Sprintf("cur=%d#%s", b.current, hex.EncodeToString(h.Sum(nil)[:6]))
}

func (n *vnode) hostInfoView(hi *HostInfo, o vSnapOpts) map[string]any {
	v := map[string]any{
		"id":          vHostID(hi),
		"remote":      hi.GetRemote().String(),
		"lastRoamSet": !hi.lastRoam.IsZero(),
		"lastRoamRemote": hi.lastRoamRemote.String(),
		"pendingDeletion": hi.pendingDeletion.Load(),
		"lastHandshakeTime": hi.lastHandshakeTime,
		"hsPackets":   len(hi.HandshakePacket),
	}
	if !o.NoTraffic {
		v["in"], v["out"] = hi.in.Load(), hi.out.Load()
	}
	if cs := hi.ConnectionState; cs != nil {
		v["initiator"] = cs.initiator
		if cs.peerCert != nil {
			v["peerCertName"] = cs.peerCert.Certificate.Name()
		}
		if !o.NoCounters {
			v["messageCounter"] = cs.messageCounter.Load()
			v["window"] = vWindowDigest(cs.window)
		}
	} else {
		v["noConnectionState"] = true
	}
	hi.relayState.RLock()
	rel := []string{}
	for _, a := range hi.relayState.relays {
		rel = append(rel, a.String())
	}
	byAddr, byIdx := []string{}, []string{}
	for a, r := range hi.relayState.relayForByAddr {
		byAddr = append(byAddr, a.String()+"="+vRelayStr(r))
	}
	for i, r := range hi.relayState.relayForByIdx {
		byIdx = append(byIdx, fmt.Sprintf("%d=%s", i, vRelayStr(r)))
	}
	hi.relayState.RUnlock()
	sort.Strings(byAddr)
	sort.Strings(byIdx)
	v["relays"], v["relayForByAddr"], v["relayForByIdx"] = rel, byAddr, byIdx
	if hi.remotes != nil {
		v["remotes"] = vRemoteListView(hi.remotes)
	}
	return v
}

func vRemoteListView(r *RemoteList) map[string]any {
	r.RLock()
	defer r.RUnlock()
	out := map[string]any{}
	addrs := []string{}
	for _, a := range r.addrs {
		addrs = append(addrs, a.String())
	}
	out["addrs"] = addrs
	out["vpnAddrs"] = fmt.Sprint(r.vpnAddrs)
	out["relays"] = fmt.Sprint(r.relays)
	out["badRemotes"] = fmt.Sprint(r.badRemotes)
	owners := []string{}
	for owner, c := range r.cache {
		s := owner.String() + ":"
		if c.v4 != nil {
			if c.v4.learned != nil {
				s += fmt.Sprintf(" l4=%v", protoV4AddrPortToNetAddrPort(c.v4.learned))
			}
			for _, x := range c.v4.reported {
				s += fmt.Sprintf(" r4=%v", protoV4AddrPortToNetAddrPort(x))
			}
		}
		if c.v6 != nil {
			if c.v6.learned != nil {
				s += fmt.Sprintf(" l6=%v", protoV6AddrPortToNetAddrPort(c.v6.learned))
			}
			for _, x := range c.v6.reported {
				s += fmt.Sprintf(" r6=%v", protoV6AddrPortToNetAddrPort(x))
			}
		}
		if c.relay != nil {
			s += fmt.Sprintf(" relay=%v", c.relay.relay)
		}
		owners = append(owners, s)
	}
	sort.Strings(owners)
	out["cache"] = owners
	return out
}

func (n *vnode) snapshot(o vSnapOpts) map[string]any {
	s := map[string]any{}
	hmap := n.f.hostMap
	hmap.RLock()
	idx := map[string]any{}
	for i, hi := range hmap.Indexes {
		idx[fmt.Sprint(i)] = n.hostInfoView(hi, o)
	}
	hosts, more, relays, ridx := map[string]string{}, map[string][]string{}, map[string]string{}, map[string]string{}
	for a, hi := range hmap.Hosts {
		hosts[a.String()] = vHostID(hi)
	}
	for a, l := range hmap.moreHosts {
		for _, hi := range l {
			more[a.String()] = append(more[a.String()], vHostID(hi))
		}
	}
	for i, hi := range hmap.Relays {
		relays[fmt.Sprint(i)] = vHostID(hi)
	}
	for i, hi := range hmap.RemoteIndexes {
		ridx[fmt.Sprint(i)] = vHostID(hi)
	}
	hmap.RUnlock()
	s["hostmap"] = map[string]any{"Indexes": idx, "Hosts": hosts, "moreHosts": more, "Relays": relays, "RemoteIndexes": ridx}

	n.hm.RLock()
	pend := map[string]any{}
	for a, hh := range n.hm.vpnIps {
		pend[a.String()] = map[string]any{"id": vHostID(hh.hostinfo), "counter": hh.counter, "ready": hh.ready, "stored": len(hh.packetStore),
			"lastRemotes": fmt.Sprint(hh.lastRemotes), "hasMachine": hh.machine != nil}
	}
	pidx := []string{}
	for i, hh := range n.hm.indexes {
		pidx = append(pidx, fmt.Sprintf("%d=%s", i, vHostID(hh.hostinfo)))
	}
	n.hm.RUnlock()
	sort.Strings(pidx)
	s["pending"] = map[string]any{"vpnIps": pend, "indexes": pidx}

	n.lh.RLock()
	lh := map[string]any{}
	for a, rl := range n.lh.addrMap {
		lh[a.String()] = vRemoteListView(rl)
	}
	n.lh.RUnlock()
	s["lighthouse"] = lh

	ct := n.f.firewall.Conntrack
	ct.Lock()
	conns := []string{}
	for p, c := range ct.Conns {
		conns = append(conns, fmt.Sprintf("%v in=%v v=%d", p, c.incoming, c.rulesVersion))
	}
	ct.Unlock()
	sort.Strings(conns)
	s["conntrack"] = conns

	n.cm.relayUsedLock.RLock()
	ru := []int{}
	for i := range n.cm.relayUsed {
		ru = append(ru, int(i))
	}
	n.cm.relayUsedLock.RUnlock()
	sort.Ints(ru)
	s["relayUsed"] = ru
	s["pendTrig"] = fmt.Sprint(n.pendTrig)
	s["pendQuery"] = fmt.Sprint(n.pendQuery)
	return s
}

func vJSON(v any) string {
	b, err := json.Marshal(v)
	if err != nil {
		panic(err)
	}
	return string(b)
}

func (n *vnode) snapKey(o vSnapOpts) string { return vJSON(n.snapshot(o)) }

// vDiff lists the top-level/2nd-level keys whose JSON differs (for violation details).
func vDiff(a, b map[string]any) []string {
	var out []string
	keys := map[string]bool{}
	for k := range a {
		keys[k] = true
	}
	for k := range b {
		keys[k] = true
	}
	for k := range keys {
		ja, jb := vJSON(a[k]), vJSON(b[k])
		if ja != jb {
			out = append(out, fmt.Sprintf("%s: %s  =>  %s", k, ja, jb))
		}
	}
	sort.Strings(out)
	return out
}

var _ = netip.Addr{}
