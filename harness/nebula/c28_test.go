//go:build verif

package nebula

import (
	"fmt"
	"net/netip"
	"slices"
	"sort"
	"testing"

	"github.com/slackhq/nebula/zzverif/mc"
)

// C28 — hostmap indexes stay consistent (history half, engine E2).
//
// Every history of the shared world (c28_world_test.go) is replayed on a fresh real HostMap + HandshakeManager; after the
// last operation the statement is evaluated on copies of the raw maps:
//
//	(1) Hosts[a] is non-nil and equals moreHosts[a][0]; moreHosts has no address that Hosts lacks
//	(2) the list of an address has at most MaxHostInfosPerVpnIp members, no duplicates, every member owns the address
//	(3) every hostinfo reachable from Hosts/moreHosts/Indexes/RemoteIndexes/Relays is live = registered in Indexes under
//	    its own local index; RemoteIndexes[r] has remote index r; Relays[i] has relayForByIdx[i]
//	(4) every live hostinfo is in the list of each of its addresses (every address of a held tunnel maps to a primary)
//	(5) DeleteHostInfo leaves no entry that points at the hostinfo, and returns true exactly when no other hostinfo
//	    registered before the call owns one of its addresses (computed from the pre-state, naively)
//	(6) a removed hostinfo (deleted, or evicted by the per-address cap) is never referenced again — in particular not
//	    after MakePrimary or AddRelay on it, nor after a second DeleteHostInfo
//
// The oracle knows nothing about the implementation's list handling; it only reads the maps.

func c28OpSig(o *c28wOut, what string) string { return o.OpClass + ": " + what }

// c28Invariants returns the first failing clause ("" when the state is consistent).
func c28Invariants(w *c28wWorld, o *c28wOut) (string, map[string]any) {
	s := o.Post
	addrs := make([]netip.Addr, 0, len(s.hosts)+len(s.more))
	for a := range s.hosts {
		addrs = append(addrs, a)
	}
	for a := range s.more {
		if _, ok := s.hosts[a]; !ok {
			return "moreHosts has a list for an address without a primary in Hosts", map[string]any{"addr": c28wAddrName(a)}
		}
	}
	sort.Slice(addrs, func(i, j int) bool { return addrs[i].Less(addrs[j]) })

	// (6) first: it is the most specific statement about removed tunnels
	for _, t := range w.his {
		if t.Removed {
			if r := s.mainRefs(t.hi); len(r) > 0 {
				if o.Target == t && (o.Ev.Op == 'D' || o.Ev.Op == 'X') && o.TargetWas {
					return "removal leaves references to the removed tunnel in " + c28RefKinds(r), map[string]any{"tunnel": t.name(), "refs": r}
				}
				return "a removed tunnel is referenced again from " + c28RefKinds(r), map[string]any{"tunnel": t.name(), "refs": r}
			}
		}
	}
	for _, a := range addrs {
		h := s.hosts[a]
		if h == nil {
			return "Hosts holds a nil primary", map[string]any{"addr": c28wAddrName(a)}
		}
		l := s.list(a)
		if len(l) == 0 || l[0] != h {
			return "the primary in Hosts does not head the list of its address", map[string]any{"addr": c28wAddrName(a)}
		}
		if len(l) > MaxHostInfosPerVpnIp {
			return "an address list holds more than MaxHostInfosPerVpnIp tunnels", map[string]any{"addr": c28wAddrName(a), "len": len(l)}
		}
		for i, m := range l {
			if m == nil {
				return "an address list holds a nil tunnel", map[string]any{"addr": c28wAddrName(a)}
			}
			if slices.Index(l, m) != i {
				return "an address list holds a tunnel twice", map[string]any{"addr": c28wAddrName(a), "tunnel": w.nameOf(m)}
			}
			if !slices.Contains(m.vpnAddrs, a) {
				return "an address list holds a tunnel that does not own the address", map[string]any{"addr": c28wAddrName(a), "tunnel": w.nameOf(m)}
			}
			if !s.live(m) {
				return "a tunnel held in Hosts/moreHosts is not live (not registered in Indexes under its own index)", map[string]any{"addr": c28wAddrName(a), "tunnel": w.nameOf(m)}
			}
		}
	}
	for k, h := range s.idx {
		if h == nil || h.localIndexId != k {
			return "Indexes maps an index to a tunnel with a different local index", map[string]any{"index": k, "tunnel": w.nameOf(h)}
		}
	}
	for k, h := range s.ridx {
		if !s.live(h) {
			return "RemoteIndexes points at a tunnel that is not live", map[string]any{"remote_index": k, "tunnel": w.nameOf(h)}
		}
		if h.remoteIndexId != k {
			return "RemoteIndexes maps an index to a tunnel with a different remote index", map[string]any{"remote_index": k, "tunnel": w.nameOf(h)}
		}
	}
	for k, h := range s.relays {
		if !s.live(h) {
			return "Relays points at a tunnel that is not live", map[string]any{"relay_index": k, "tunnel": w.nameOf(h)}
		}
		if r, ok := h.relayState.relayForByIdx[k]; !ok || r == nil || r.LocalIndex != k {
			return "Relays points at a tunnel that has no relay state for that index", map[string]any{"relay_index": k, "tunnel": w.nameOf(h)}
		}
	}
	for _, h := range s.idx {
		for _, a := range h.vpnAddrs {
			if !slices.Contains(s.list(a), h) {
				return "a live tunnel is missing from the list of an address it owns", map[string]any{"addr": c28wAddrName(a), "tunnel": w.nameOf(h)}
			}
		}
	}
	return "", nil
}

func c28RefKinds(refs []string) string {
	kinds := map[string]bool{}
	for _, r := range refs {
		for i, ch := range r {
			if ch == '[' {
				kinds[r[:i]] = true
				break
			}
		}
	}
	var ks []string
	for k := range kinds {
		ks = append(ks, k)
	}
	sort.Strings(ks)
	return fmt.Sprint(ks)
}

func c28Check(c *mc.Check, w *c28wWorld, o *c28wOut) bool {
	if what, extra := c28Invariants(w, o); what != "" {
		c28wReport(c, c28OpSig(o, what), func() map[string]any { return w.detail(o, extra) })
		return true
	}
	switch o.Ev.Op {
	case 'D', 'X':
		// naive: does any OTHER tunnel registered before the call own one of the target's addresses?
		t := o.Target.hi
		other := false
		for _, h := range o.Pre.idx {
			if h == t {
				continue
			}
			for _, a := range t.vpnAddrs {
				if slices.Contains(h.vpnAddrs, a) {
					other = true
				}
			}
		}
		if o.RetBool != !other {
			what := "reports that no tunnel to the peer remains although another tunnel holds one of its addresses"
			if !o.RetBool {
				what = "reports that a tunnel to the peer remains although no other tunnel holds any of its addresses"
			}
			c28wReport(c, c28OpSig(o, what), func() map[string]any { return w.detail(o, map[string]any{"returned": o.RetBool, "expected": !other}) })
			return true
		}
	case 'R', 'C':
		if o.AddOK && !o.Post.live(o.Added.hi) {
			c28wReport(c, c28OpSig(o, "a successfully added tunnel is not live afterwards"), func() map[string]any { return w.detail(o, nil) })
			return true
		}
	}
	return false
}

func TestVerifC28(t *testing.T) {
	c := mc.Begin(t, "C28", "model_checking")
	defer c.End()
	e1s, e1p := c29E1(c, "C28")
	defer func() { c.Set("e1_schedules", e1s); c.Set("e1_choice_points", e1p) }()
	c.Assume("history half only: one goroutine, operations are atomic calls of the real entry points; the interleaving (E1) half is not covered here")
	c.Assume("'live' is read as: registered in HostMap.Indexes under its own local index; eviction by the per-address cap counts as a removal (the statement does not say which tunnel is evicted, so only its complete erasure is checked)")
	c.Assume("index generator scripted through the vrand shim (first value = explorer choice, then counting upwards); peers' remote indexes fixed per address set (7/8/7/8) so that shadowing occurs")
	stats := &c28wStats{}
	cfgs := c28wScenarios(c)
	c.Set("scenarios", c28wDescribe(cfgs))
	per := map[string]any{}
	for _, g := range cfgs {
		if c.OutOfTime() {
			c.Capped("time budget before scenario " + g.Name)
			break
		}
		r := c28wExplore(c, g, c28Check, stats)
		per[g.Name] = map[string]any{"states": r.States, "transitions": r.Transitions, "max_depth": r.MaxDepth, "frontier_emptied": r.Exhaustive}
	}
	c.Set("per_scenario", per)
	n := stats.snapshot()
	c.Set("outcome_counts", n)
	c.Set("distinct_outcomes", len(n))

	need := func(k string) {
		c.Require(n[k] > 0, "outcome never occurred: %q (have %v)", k, c28wKeys(n))
	}
	if c.Violations() == 0 { // with a violation on record the verdict is the violation; pruned (violating) states may hide outcomes
		need("DeleteHostInfo: live tunnel, final=true")
		need("DeleteHostInfo: live tunnel, final=false")
		need("DeleteHostInfo: already removed tunnel, final=true")
		need("DeleteHostInfo: already removed tunnel, final=false")
		need("DeleteHostInfo: already removed tunnel whose local index has a new owner")
		need("MakePrimary: removed tunnel")
		need("MakePrimary: live tunnel promoted")
		need("AddRelay: first value free")
		need("AddRelay: refused, tunnel is not in the hostmap")
		need("Complete: added")
		need("CheckAndComplete: added")
		need("CheckAndComplete: ErrLocalIndexCollision with an established tunnel")
		need("evicted tunnel also held an address the new tunnel does not own")
		need("evicted tunnel owned relay indexes")
		var evict1, evict2 int64
		for k, v := range n {
			if len(k) > 12 && k[len(k)-11:] == "(evicted 1)" {
				evict1 += v
			}
			if len(k) > 12 && k[len(k)-11:] == "(evicted 2)" {
				evict2 += v
			}
		}
		c.Set("adds_that_evicted_one", evict1)
		c.Set("adds_that_evicted_two", evict2)
		c.Require(evict1 > 0, "the per-address cap was never exceeded")
		c.Require(evict2 > 0, "no add exceeded the cap on two addresses at once")
	}
}
