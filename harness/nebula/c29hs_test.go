//go:build verif

package nebula

import (
	"encoding/json"
	"fmt"
	"net/netip"
	"os"
	"os/exec"
	"path/filepath"
	"runtime/debug"
	"slices"
	"sort"
	"strconv"
	"strings"
	"sync"
	"testing"
	realtime "time"

	"github.com/slackhq/nebula/header"
	"github.com/slackhq/nebula/zzverif/mc"
	"github.com/slackhq/nebula/zzverif/sched"
	"github.com/slackhq/nebula/zzverif/vrand"
	"github.com/slackhq/nebula/zzverif/vtime"
)

// C29, schedules half on REAL nodes (engine E1 over the E4 node assembly).
//
// c29e1_test.go runs the index bookkeeping on a skeleton world (no Noise machines), so the paths of the statement's
// quantifier that need a real handshake — a handshake COMPLETION (HandleIncoming -> continueHandshake -> Complete) and a
// handshake FAILURE racing the retry TIMER (handleOutbound's give-up branch) and a concurrent handshake START
// (StartHandshake + first handleOutbound -> allocateIndex) — are not reachable there. Here node a is a real driven node
// (vnode_test.go) with a real peer b that answers a's first message, so the stage-2 packet is genuine. Three scheduler
// threads run on a:
//
//	T0  the udp reader delivers b's stage-2 reply (genuine, or cut short so that a's Noise machine fails for good)
//	T1  the handshake retry timer fires; the pending handshake has used up handshakes.retries, so it is given up
//	    (one scenario: retries=2, the timer first retransmits and gives up on the next tick)
//	T2  a new outbound handshake is started (to a third peer, or to b again) and its first attempt is made
//
// One more scenario has no handshake under test: two udp readers of a receive the same recv_error for an established
// tunnel (teardown = closeTunnel + HandshakeManager.DeleteHostInfo of that hostinfo) while T2 starts a handshake whose
// only drawable index is the tunnel's.
//
// Every file of package nebula that uses sync runs on the scheduler shim, so every lock acquisition is a scheduling
// point; ALL schedules up to a preemption bound are executed (one worker process per scenario, in parallel with the
// history half; a smaller bound is completed first so that a time cap never leaves the low-preemption schedules out). While the threads run, the index generator of node a is restricted to the indexes a holds at that moment
// plus a few spare values and starts at the index of the pending handshake: a freed index is re-drawn at once, a held
// one is skipped (allocateIndex's retry loop), and with no spare value the space can run dry.
//
// After every schedule the statement is evaluated over the raw maps of a (no lock: every thread has joined):
//
//	(a) no key of HandshakeManager.indexes / HostMap.Indexes / HostMap.Relays is 0
//	(c) every entry maps an index to a holder carrying exactly that index; no index is registered to a pending and to an
//	    established tunnel at once; every tunnel the node holds (pending in vpnIps with an allocated index; reachable from
//	    Hosts / moreHosts / RemoteIndexes / Relays) is registered under its own index — so no two held tunnels share one
//	(d) release rule: a tunnel the harness has seen being created and that the node still holds still owns its index
//	    (follows from (c) for held tunnels); the tunnel established BEFORE the threads started is removed by nobody, so
//	    its Indexes entry is still its own
//	(e) the RemoteIndexes entry of the tunnel established before the threads started is still present (nobody removes
//	    that tunnel; a newer tunnel with the same remote index may shadow it)

type c29hsScenario struct {
	Name       string
	Reply      string // "genuine" | "cut-short" | "" with RecvError
	RecvError  bool   // no handshake under test: T0/T1 deliver a recv_error for the established tunnel instead (PreEst)
	SamePeer   bool   // T2 dials b again instead of the third peer
	PreEst     bool   // a tunnel a<->b is already established when the handshake under test starts (re-handshake)
	Spare      int    // index values that nobody holds when the threads start
	Retries    int    // handshakes.retries of node a
	Routines   int
	TwoTicks   bool // T1 = tick, advance the clock, tick (needs Retries == 2)
	QuickBound int  // preemption bound of the quick tier when it is not the default
	LateTimer  bool // the timer thread is two wheel ticks late instead of one: a retry entry added just before it runs is due at once
}

func c29hsScenarios() []c29hsScenario {
	return []c29hsScenario{
		{Name: "genuine-reply/new-peer", Reply: "genuine", Spare: 1, Retries: 1},
		{Name: "cut-short-reply/new-peer", Reply: "cut-short", Spare: 1, Retries: 1},
		{Name: "genuine-reply/same-peer/late-timer", Reply: "genuine", SamePeer: true, Spare: 1, Retries: 1, LateTimer: true},
		{Name: "cut-short-reply/same-peer/no-spare-index/late-timer", Reply: "cut-short", SamePeer: true, Spare: 0, Retries: 1, LateTimer: true},
		{Name: "genuine-reply/new-peer/rehandshake/no-spare-index", Reply: "genuine", PreEst: true, Spare: 0, Retries: 1},
		{Name: "genuine-reply/new-peer/retransmit-then-give-up", Reply: "genuine", Spare: 1, Retries: 2, TwoTicks: true, QuickBound: 1},
		{Name: "recv-error-teardown-twice/new-peer/no-spare-index", RecvError: true, PreEst: true, Spare: 0, Retries: 1, Routines: 2},
	}
}

var c29hsB = netip.MustParseAddr("10.0.0.2")
var c29hsC = netip.MustParseAddr("10.0.0.3")

// c29hsRun is the state of one execution (one schedule).
type c29hsRun struct {
	sc          c29hsScenario
	net         *vnet
	a, b        *vnode
	hhA         *HandshakeHostInfo // the pending handshake under test
	x           uint32             // its index when the threads start
	est         *HostInfo          // tunnel established before (PreEst) that nobody removes
	closed      *HostInfo          // RecvError: the established tunnel the recv_error tears down
	estR        uint32
	hhB         *HandshakeHostInfo // what T2's StartHandshake returned/created (may be hhA: "already trying")
	threadNames []string
	aEnds       []string // how the handshake under test ended (set by outcome)
	gaveUp0     int64    // node a's give-up counter when the threads start
	space       []uint32
	next        int
	draws       int
	clock       int // logical clock of the marks below
	// marks (written by the threads; only one runs at a time)
	t0Begin, t0End, t1End, t2End int
	run                          []func()
}

func (r *c29hsRun) tick() int { r.clock++; return r.clock }

func c29hsCapture(net *vnet, act func()) []vpkt {
	act()
	net.collect()
	out := net.inflight
	net.inflight = nil
	return out
}

// c29hsHandshakes keeps the datagrams whose (unauthenticated) header says "handshake".
func c29hsHandshakes(pkts []vpkt) []vpkt {
	var out []vpkt
	for _, p := range pkts {
		var h header.H
		if h.Parse(p.Data) == nil && h.Type == header.Handshake {
			out = append(out, p)
		}
	}
	return out
}

// c29hsSetup builds the nodes, brings a's handshake to b to "first message sent, reply on the wire" and returns the threads.
func c29hsSetup(t testing.TB, sc c29hsScenario) *c29hsRun {
	r := &c29hsRun{sc: sc}
	vrand.SetGlobalSource(nil)
	routines := max(sc.Routines, 1)
	sa := vnodeSpec{Name: "a", Networks: "10.0.0.1/24", Udp: "192.0.2.1:4242", Routines: routines, Overrides: m{
		"static_host_map": m{"10.0.0.2": []string{"192.0.2.2:4242"}, "10.0.0.3": []string{"192.0.2.3:4242"}},
		"handshakes":      m{"retries": sc.Retries}}}
	sb := vnodeSpec{Name: "b", Networks: "10.0.0.2/24", Udp: "192.0.2.2:4242", Overrides: m{
		"static_host_map": m{"10.0.0.1": []string{"192.0.2.1:4242"}}}}
	r.net = vNewNet(t, 1, sa, sb)
	r.a, r.b = r.net.node("a"), r.net.node("b")
	a, b, net := r.a, r.b, r.net
	a.hsTick() // the first tick of HandshakeManager.Run's ticker only starts the retry wheel's clock
	if sc.RecvError {
		return c29hsSetupRecvError(t, r)
	}
	var s1 []vpkt
	if sc.PreEst {
		if !net.establish(a, b, "pre") {
			t.Fatalf("c29hs %s: establish", sc.Name)
		}
		net.flushFIFO(50)
		r.est = a.f.hostMap.QueryVpnAddr(b.vpnIP)
		if r.est == nil {
			t.Fatalf("c29hs %s: no established tunnel", sc.Name)
		}
		r.estR = r.est.remoteIndexId
		vtime.Advance(vtime.Second) // b answers a second handshake of a only if it is newer than the tunnel it has
		a.hsTick()
		net.collect()
		net.inflight = nil
		s1 = c29hsCapture(net, func() { a.hm.StartHandshake(b.vpnIP, nil); a.settle() })
	} else {
		// an application packet starts the handshake and waits in its packet store
		s1 = c29hsCapture(net, func() { a.tunSend(vUDPPacket(a.vpnIP, b.vpnIP, 1000, 2000, []byte("Q"))) })
	}
	s1 = c29hsHandshakes(s1)
	if len(s1) != 1 {
		t.Fatalf("c29hs %s: first message: %v", sc.Name, s1)
	}
	reply := c29hsHandshakes(c29hsCapture(net, func() { b.deliver(a.udp, s1[0].Data) }))
	var rh header.H
	if len(reply) != 1 || reply[0].To != a.udp || rh.Parse(reply[0].Data) != nil {
		t.Fatalf("c29hs %s: reply: %v", sc.Name, reply)
	}
	r.hhA = a.hm.vpnIps[b.vpnIP]
	if r.hhA == nil || r.hhA.hostinfo.localIndexId == 0 || a.hm.indexes[r.hhA.hostinfo.localIndexId] != r.hhA || rh.RemoteIndex != r.hhA.hostinfo.localIndexId {
		t.Fatalf("c29hs %s: pending handshake not in the expected state", sc.Name)
	}
	r.x = r.hhA.hostinfo.localIndexId
	data := reply[0].Data
	if sc.Reply == "cut-short" {
		// header + responder ephemeral + a part of the encrypted static key: Noise absorbs the ephemeral and then runs out
		// of bytes, which it cannot undo — the machine of a fails for good
		data = data[:header.Len+32+10]
	}
	// the retry that finds the retry budget used up becomes due two wheel ticks after the handshake was started
	if !sc.LateTimer {
		vtime.Advance(100 * vtime.Millisecond)
		a.hsTick()
		if a.hm.vpnIps[b.vpnIP] != r.hhA {
			t.Fatalf("c29hs %s: the handshake under test was given up too early", sc.Name)
		}
		net.collect()
		net.inflight = nil
		vtime.Advance(100 * vtime.Millisecond)
	} else {
		vtime.Advance(200 * vtime.Millisecond)
	}

	r.restrictIndexSpace()
	peer := c29hsC
	if sc.SamePeer {
		peer = c29hsB
	}
	r.threadNames = []string{"T0 udp reader: b's stage-2 reply (" + sc.Reply + ")", "T1 handshake retry timer tick", "T2 StartHandshake(" + peer.String() + ") + first attempt"}
	if sc.TwoTicks {
		r.threadNames[1] = "T1 handshake retry timer tick, 300ms, tick"
	}
	r.run = []func(){
		func() {
			r.t0Begin = r.tick()
			a.deliverOn(0, b.udp, data)
			r.t0End = r.tick()
		},
		func() {
			a.hm.NextOutboundHandshakeTimerTick(vtime.Now())
			if sc.TwoTicks {
				vtime.Advance(300 * vtime.Millisecond)
				a.hm.NextOutboundHandshakeTimerTick(vtime.Now())
			}
			r.t1End = r.tick()
		},
		func() {
			a.hm.StartHandshake(peer, func(hh *HandshakeHostInfo) { r.hhB = hh })
			a.hm.handleOutbound(peer, true) // what HandshakeManager.Run does with the trigger StartHandshake queued
			r.t2End = r.tick()
		},
	}
	return r
}

// restrictIndexSpace installs the generator of the thread phase: r.x first, then the other indexes node a holds, then the
// spare values, round and round.
func (r *c29hsRun) restrictIndexSpace() {
	var heldNow []uint32
	for k := range r.a.f.hostMap.Indexes {
		if k != r.x {
			heldNow = append(heldNow, k)
		}
	}
	slices.Sort(heldNow)
	r.space = append([]uint32{r.x}, heldNow...)
	for v, n := uint32(1), 0; n < r.sc.Spare; v++ {
		if !slices.Contains(r.space, v) {
			r.space = append(r.space, v)
			n++
		}
	}
	vrand.SetGlobalSource(vrand.Uint32s(func() uint32 {
		v := r.space[r.next%len(r.space)]
		r.next++
		r.draws++
		return v
	}))
	r.gaveUp0 = r.a.hm.metricTimedOut.Count()
}

// c29hsSetupRecvError: a<->b is established; two rx routines of a each receive the same recv_error for that tunnel (the
// packet type is unauthenticated; it names the tunnel by b's index and must come from the tunnel's remote address), which
// tears the tunnel down — closeTunnel, then HandshakeManager.DeleteHostInfo of the same hostinfo "to allow for fast
// reconnect" — while T2 starts a handshake that draws from an index space holding nothing but the tunnel's own index.
func c29hsSetupRecvError(t testing.TB, r *c29hsRun) *c29hsRun {
	a, b, net, sc := r.a, r.b, r.net, r.sc
	if !net.establish(a, b, "pre") {
		t.Fatalf("c29hs %s: establish", sc.Name)
	}
	net.flushFIFO(50)
	r.closed = a.f.hostMap.QueryVpnAddr(b.vpnIP)
	if r.closed == nil || r.closed.GetRemote() != b.udp {
		t.Fatalf("c29hs %s: no established tunnel", sc.Name)
	}
	r.x = r.closed.localIndexId
	pkt := header.Encode(make([]byte, header.Len), header.Version, header.RecvError, 0, r.closed.remoteIndexId, 0)
	r.restrictIndexSpace()
	r.threadNames = []string{"T0 udp reader 0: recv_error for the tunnel to b", "T1 udp reader 1: the same recv_error", "T2 StartHandshake(" + c29hsC.String() + ") + first attempt"}
	r.run = []func(){
		func() { r.t0Begin = r.tick(); a.deliverOn(0, b.udp, pkt); r.t0End = r.tick() },
		func() { a.deliverOn(1, b.udp, pkt); r.t1End = r.tick() },
		func() {
			a.hm.StartHandshake(c29hsC, func(hh *HandshakeHostInfo) { r.hhB = hh })
			a.hm.handleOutbound(c29hsC, true)
			r.t2End = r.tick()
		},
	}
	return r
}

func (r *c29hsRun) close() {
	vrand.SetGlobalSource(nil)
	r.net.close()
}

func c29hsName(r *c29hsRun, h *HostInfo) string {
	switch {
	case h == nil:
		return "nil"
	case h == r.closed:
		return "E(torn down by recv_error)"
	case r.hhA != nil && h == r.hhA.hostinfo:
		return "A(handshake under test)"
	case r.hhB != nil && h == r.hhB.hostinfo:
		return "B(new handshake)"
	case h == r.est:
		return "E(established before)"
	}
	return fmt.Sprintf("other(L%d)", h.localIndexId)
}

// invariants evaluates the statement over the raw maps of node a; returns the (sorted, distinct) findings.
func (r *c29hsRun) invariants() []string {
	var bad []string
	add := func(f string, args ...any) { bad = append(bad, fmt.Sprintf(f, args...)) }
	hs, hm := r.a.hm, r.a.f.hostMap
	// (a) + (c): entries
	for k, h := range hm.Indexes {
		if k == 0 {
			add("Indexes holds index 0")
		}
		if h == nil || h.localIndexId != k {
			add("Indexes registers an index to a tunnel that carries a different index")
		}
	}
	for k, hh := range hs.indexes {
		if k == 0 {
			add("pending indexes hold index 0")
		}
		if hh == nil || hh.hostinfo == nil || hh.hostinfo.localIndexId != k {
			add("pending indexes register an index to a tunnel that carries a different index")
			continue
		}
		if other, ok := hm.Indexes[k]; ok && other != hh.hostinfo {
			add("one local index is registered to a pending and to an established tunnel")
		}
	}
	for k, h := range hm.Relays {
		if k == 0 {
			add("Relays holds index 0")
		}
		if h == nil {
			add("Relays holds a nil tunnel")
		} else if rl := h.relayState.relayForByIdx[k]; rl == nil || rl.LocalIndex != k {
			add("Relays registers an index its owner has no relay state for")
		}
	}
	// (c) every held tunnel is registered under its own index; holders per index
	holders := map[uint32]map[*HostInfo]bool{}
	hold := func(h *HostInfo) {
		if holders[h.localIndexId] == nil {
			holders[h.localIndexId] = map[*HostInfo]bool{}
		}
		holders[h.localIndexId][h] = true
	}
	held := map[*HostInfo]bool{}
	for _, h := range hm.Hosts {
		held[h] = true
	}
	for _, l := range hm.moreHosts {
		for _, h := range l {
			held[h] = true
		}
	}
	for _, h := range hm.RemoteIndexes {
		held[h] = true
	}
	for _, h := range hm.Relays {
		held[h] = true
	}
	for _, h := range hm.Indexes {
		held[h] = true
	}
	for h := range held {
		if h == nil {
			continue
		}
		hold(h)
		if h.localIndexId == 0 {
			add("the node holds an established tunnel with local index 0")
		} else if hm.Indexes[h.localIndexId] != h {
			add("the node holds an established tunnel whose local index is not registered to it")
		}
	}
	for _, hh := range hs.vpnIps {
		h := hh.hostinfo
		if h.localIndexId == 0 {
			continue // no index allocated (yet): nothing is handed out
		}
		hold(h)
		if hs.indexes[h.localIndexId] != hh {
			add("a pending tunnel carries an index that is not registered to it")
		}
	}
	for _, hh := range hs.indexes {
		if hh != nil && hh.hostinfo != nil {
			hold(hh.hostinfo)
		}
	}
	for k, set := range holders {
		if k != 0 && len(set) > 1 {
			add("one local index is held by %d tunnels at once", len(set))
		}
	}
	// (d)/(e) the tunnel established before the threads started: nobody removes it
	if r.est != nil {
		if hm.Indexes[r.est.localIndexId] != r.est {
			add("local index released or handed on although the established tunnel that owns it was not removed")
		}
		if _, ok := hm.RemoteIndexes[r.estR]; !ok {
			add("remote index entry removed although the tunnel it points to was not removed")
		}
	}
	sort.Strings(bad)
	return slices.Compact(bad)
}

// outcome classifies what happened to the two handshakes (evidence, vacuity guards, and the part of a signature that says
// how the handshake under test ended).
func (r *c29hsRun) outcome() (string, map[string]bool) {
	hs, hm := r.a.hm, r.a.f.hostMap
	flags := map[string]bool{}
	A := r.hhA
	// how many times the retry timer gave a handshake up while the threads ran (the counter handleOutbound's give-up branch
	// increments; only node a runs then), minus B's own give-up
	giveUps := hs.metricTimedOut.Count() - r.gaveUp0
	sb := "no B (already trying)"
	if B := r.hhB; B != nil && B != A {
		bi := B.hostinfo.localIndexId
		switch {
		case bi == 0:
			sb = "B without index (space ran dry)"
			flags["B_dry"] = true
		case bi == r.x:
			sb = "B re-drew the index under test"
			flags["B_redrew"] = true
		default:
			sb = "B drew another index"
			flags["B_other"] = true
		}
		if hs.vpnIps[B.hostinfo.vpnAddrs[0]] != B {
			if B.machine != nil && B.machine.Failed() {
				sb += ", B abandoned"
			} else if hm.Indexes[bi] == B.hostinfo && bi != 0 {
				sb += ", B established"
			} else {
				sb += ", B given up"
				giveUps--
			}
		}
	}
	if A == nil { // recv_error scenario
		se := "E still established"
		if hm.Indexes[r.x] != r.closed {
			se = "E torn down"
			flags["E_closed"] = true
		}
		return se + "; " + sb, flags
	}
	var ends []string
	if hm.Indexes[A.hostinfo.localIndexId] == A.hostinfo || A.hostinfo.ConnectionState != nil {
		ends = append(ends, "completed")
		flags["A_established"] = true
	}
	if A.machine != nil && A.machine.Failed() {
		ends = append(ends, "abandoned after a fatal packet")
		flags["A_failed"] = true
	}
	for i := int64(0); i < giveUps; i++ {
		ends = append(ends, "given up by the retry timer")
		flags["A_given_up"] = true
	}
	sa := "A pending"
	if len(ends) > 0 {
		sa = "A " + strings.Join(ends, " AND ")
	} else if hs.vpnIps[c29hsB] != A {
		sa = "A removed (?)"
	}
	if len(ends) > 1 {
		flags["A_removed_twice"] = true
	}
	// the reply was somewhere between the socket and the end of continueHandshake while the first handshake was given up
	// AND its index was drawn again
	if flags["B_redrew"] && !flags["A_established"] && r.t0Begin < r.t1End && r.t0Begin < r.t2End && r.t2End < r.t0End {
		flags["reply_in_flight_across_give_up_and_redraw"] = true
	}
	if flags["B_redrew"] && !flags["A_established"] && r.t2End < r.t0Begin {
		flags["reply_arrived_after_redraw"] = true // the index names another handshake now: queryIndex resolves B
	}
	r.aEnds = ends
	return sa + "; " + sb, flags
}

type c29hsViolation struct {
	Sig    string         `json:"sig"`
	Detail map[string]any `json:"detail"`
	Count  int64          `json:"count"`
}

type c29hsResult struct {
	Scenario      string            `json:"scenario"`
	Bound         int               `json:"bound"`
	Executions    int64             `json:"executions"`
	ChoicePoints  int64             `json:"choice_points"`
	Complete      bool              `json:"complete"`
	CompleteBound int               `json:"complete_bound"` // largest preemption bound whose schedules were all executed
	Nondet        int64             `json:"nondet"`
	Aborted       int64             `json:"aborted"`
	ByPreemptions map[int]int64     `json:"by_preemptions"`
	Outcomes      map[string]int64  `json:"outcomes"`
	Flags         map[string]int64  `json:"flags"`
	IndexDraws    int64             `json:"index_draws"`
	Violations    []*c29hsViolation `json:"violations"`
	Seconds       float64           `json:"seconds"`
}

// TestVerifC29HSWorker explores one scenario in this process (spawned by c29hsStart).
func TestVerifC29HSWorker(t *testing.T) {
	name := os.Getenv("VERIF_C29HS_SCENARIO")
	if name == "" {
		t.Skip("worker only")
	}
	debug.SetGCPercent(400) // every schedule assembles two fresh nodes (large packet arenas that die at once): collect less often
	bound, first, budget := 2, 0, 30.0
	fmt.Sscanf(os.Getenv("VERIF_C29HS_BOUND"), "%d", &bound)
	fmt.Sscanf(os.Getenv("VERIF_C29HS_FIRST_BOUND"), "%d", &first) // >0: explore this smaller bound completely before `bound`
	fmt.Sscanf(os.Getenv("VERIF_C29HS_BUDGET"), "%f", &budget)
	for _, sc := range c29hsScenarios() {
		if sc.Name != name {
			continue
		}
		if rp := os.Getenv("VERIF_C29HS_REPLAY"); rp != "" { // diagnosis: run one schedule (comma separated choices), print what happened
			var prefix []int16
			for _, f := range strings.Split(rp, ",") {
				n, _ := strconv.Atoi(strings.TrimSpace(f))
				prefix = append(prefix, int16(n))
			}
			var r *c29hsRun
			x := sched.RunOnce(prefix, 50000, func() {
				r = c29hsSetup(t, sc)
				for _, f := range r.run {
					sched.Go(f)
				}
			})
			oc, _ := r.outcome()
			fmt.Printf("REPLAY %s\noutcome: %s\nfindings: %v\npending: %v\nestablished: %v\n", x.String(), oc, r.invariants(), c29hsPendingView(r), c29hsMainView(r))
			r.close()
			return
		}
		start := realtime.Now()
		out := c29hsResult{Scenario: name, Bound: bound, Outcomes: map[string]int64{}, Flags: map[string]int64{}}
		bySig := map[string]*c29hsViolation{}
		var r *c29hsRun
		out.ByPreemptions = map[int]int64{}
		out.Complete = true
		bounds := []int{bound}
		if first > 0 && first < bound {
			bounds = []int{first, bound}
		}
		for _, bd := range bounds {
			res := sched.Explore(sched.Options{Bound: bd, MaxSteps: 50000, Stop: func() bool { return realtime.Since(start).Seconds() > budget }}, func() {
				r = c29hsSetup(t, sc)
				for _, f := range r.run {
					sched.Go(f)
				}
			}, func(x *sched.Exec) {
				defer r.close()
				report := func(sig string, extra map[string]any) {
					v := bySig[sig]
					if v == nil {
						d := map[string]any{"scenario": sc.Name, "schedule": x.Choices, "threads_chosen": x.Who, "preemptions": x.Preemptions,
							"index_space_while_threads_run": r.space, "index_under_test": r.x,
							"threads": r.threadNames}
						for k, e := range extra {
							d[k] = e
						}
						v = &c29hsViolation{Sig: sig, Detail: d}
						bySig[sig] = v
						out.Violations = append(out.Violations, v)
					}
					v.Count++
				}
				if x.Aborted {
					out.Aborted++
					report("C29 E1 handshake on real nodes: "+x.Reason, nil)
					return
				}
				oc, flags := r.outcome()
				out.Outcomes[oc]++
				for k := range flags {
					out.Flags[k]++
				}
				out.IndexDraws += int64(r.draws)
				what, suffix := "C29 under concurrent handshake completion / give-up / start on a real node: ", ""
				if sc.RecvError {
					what = "C29 under concurrent recv_error teardown / handshake start on a real node: "
				}
				if len(r.aEnds) > 1 { // removed more than once: say by what, it names the operation that acted on a handshake that was gone
					suffix = " (the first handshake was " + strings.Join(r.aEnds, " AND ") + ")"
				}
				for _, b := range r.invariants() {
					report(what+b+suffix, map[string]any{"outcome": oc,
						"pending_indexes": c29hsPendingView(r), "established_indexes": c29hsMainView(r)})
				}
			})
			out.Executions += res.Executions
			out.ChoicePoints += res.ChoicePoints
			out.Nondet += res.Nondeterministic
			for k, v := range res.ByPreemptions {
				out.ByPreemptions[k] += v
			}
			if res.Complete {
				out.CompleteBound = bd
			} else {
				out.Complete = false
				break
			}
		}
		out.Seconds = realtime.Since(start).Seconds()
		b, _ := json.Marshal(out)
		if err := os.WriteFile(os.Getenv("VERIF_C29HS_OUT"), b, 0o644); err != nil {
			t.Fatal(err)
		}
		return
	}
	t.Fatalf("unknown scenario %q", name)
}

func c29hsPendingView(r *c29hsRun) []string {
	var out []string
	for k, hh := range r.a.hm.indexes {
		out = append(out, fmt.Sprintf("%d -> %s", k, c29hsName(r, hh.hostinfo)))
	}
	for ad, hh := range r.a.hm.vpnIps {
		out = append(out, fmt.Sprintf("vpnIps[%v] -> %s carrying index %d", ad, c29hsName(r, hh.hostinfo), hh.hostinfo.localIndexId))
	}
	sort.Strings(out)
	return out
}

func c29hsMainView(r *c29hsRun) []string {
	var out []string
	for k, h := range r.a.f.hostMap.Indexes {
		out = append(out, fmt.Sprintf("%d -> %s", k, c29hsName(r, h)))
	}
	sort.Strings(out)
	return out
}

// c29hsStart spawns one worker process per scenario and returns the function that collects them (violations, evidence,
// vacuity guards). The workers run while the caller does its own (history) exploration.
func c29hsStart(c *mc.Check) func() {
	scs := c29hsScenarios()
	bound := mc.Pick(c, 2, 3)
	budget := mc.Pick(c, 40.0, 800.0)
	if f, err := strconv.ParseFloat(os.Getenv("VERIF_BUDGET_S"), 64); err == nil && f > 0 {
		budget = max(5.0, f*0.9)
	}
	dir := filepath.Join("/verif/.build", fmt.Sprintf("c29hs-%d", os.Getpid()))
	_ = os.RemoveAll(dir)
	if err := os.MkdirAll(dir, 0o755); err != nil {
		c.Broken("c29hs: %v", err)
	}
	outs := make([]c29hsResult, len(scs))
	errs := make([]string, len(scs))
	var wg sync.WaitGroup
	for i, sc := range scs {
		wg.Add(1)
		go func(i int, sc c29hsScenario) {
			defer wg.Done()
			resPath := filepath.Join(dir, fmt.Sprintf("s%d.json", i))
			cmd := exec.Command(os.Args[0], "-test.run=^TestVerifC29HSWorker$", "-test.timeout=3000s")
			b := bound
			if !c.Thorough() && sc.QuickBound > 0 {
				b = sc.QuickBound
			}
			cmd.Env = append(os.Environ(), "VERIF_C29HS_SCENARIO="+sc.Name, fmt.Sprintf("VERIF_C29HS_BOUND=%d", b),
				fmt.Sprintf("VERIF_C29HS_FIRST_BOUND=%d", mc.Pick(c, 1, 2)), fmt.Sprintf("VERIF_C29HS_BUDGET=%f", budget), "VERIF_C29HS_OUT="+resPath, "GOMAXPROCS=2")
			outb, err := cmd.CombinedOutput()
			if b, rerr := os.ReadFile(resPath); rerr == nil {
				if jerr := json.Unmarshal(b, &outs[i]); jerr != nil {
					errs[i] = jerr.Error()
				}
			} else {
				s := string(outb)
				if len(s) > 1500 {
					s = s[len(s)-1500:]
				}
				errs[i] = fmt.Sprintf("worker produced no result (%v): %s", err, s)
			}
		}(i, sc)
	}
	return func() {
		wg.Wait()
		defer os.RemoveAll(dir)
		var execs, points, draws int64
		flags := map[string]int64{}
		outcomes := map[string]bool{}
		per := map[string]any{}
		for i, sc := range scs {
			if errs[i] != "" {
				c.Broken("c29hs scenario %s: %s", sc.Name, errs[i])
				continue
			}
			o := outs[i]
			execs += o.Executions
			points += o.ChoicePoints
			draws += o.IndexDraws
			if !o.Complete {
				c.Capped("time budget in real-node handshake scenario " + sc.Name)
			}
			if o.Nondet > 0 {
				c.Broken("c29hs scenario %s: %d nondeterministic replays", sc.Name, o.Nondet)
			}
			for _, v := range o.Violations {
				v.Detail["schedules_with_this_signature"] = v.Count
				c.Violation(v.Sig, v.Detail)
			}
			for k, n := range o.Flags {
				flags[k] += n
			}
			for k := range o.Outcomes {
				outcomes[k] = true
			}
			per[sc.Name] = map[string]any{"schedules": o.Executions, "choice_points": o.ChoicePoints, "by_preemptions": o.ByPreemptions,
				"preemption_bound": o.Bound, "complete_within_bound": o.Complete, "largest_bound_completed": o.CompleteBound, "outcomes": o.Outcomes, "flags": o.Flags, "worker_seconds": float64(int(o.Seconds*10)) / 10}
		}
		for i, sc := range scs {
			// per-scenario vacuity: the handshake under test was given up (or failed) in some schedules and the reply was
			// processed first in others. With a violation on record the verdict is the violation.
			if o := outs[i]; c.Violations() == 0 && o.CompleteBound > 0 {
				f := o.Flags
				if sc.RecvError {
					c.Require(f["E_closed"] == o.Executions-o.Aborted, "c29hs %s: the recv_error tore the tunnel down in %d of %d schedules", sc.Name, f["E_closed"], o.Executions)
					c.Require(f["B_redrew"] > 0 && f["B_dry"] > 0, "c29hs %s: the new handshake drew its index both before and after the teardown freed one (%v)", sc.Name, o.Outcomes)
					continue
				}
				if sc.Reply == "genuine" {
					c.Require(f["A_established"] > 0, "c29hs %s: the first handshake never completed (%v)", sc.Name, o.Outcomes)
				} else {
					c.Require(f["A_failed"] > 0, "c29hs %s: the cut-short reply never failed the machine (%v)", sc.Name, o.Outcomes)
				}
				c.Require(f["A_given_up"] > 0, "c29hs %s: the first handshake was never given up by the timer (%v)", sc.Name, o.Outcomes)
				c.Require(f["B_redrew"] > 0, "c29hs %s: the freed index was never drawn again (%v)", sc.Name, o.Outcomes)
				c.Require(f["reply_in_flight_across_give_up_and_redraw"] > 0, "c29hs %s: no schedule gave the first handshake up and re-drew its index while its reply was in flight (%v)", sc.Name, f)
			}
		}
		c.Set("hs_real_node_scenarios", per)
		c.Set("hs_real_node_schedules", execs)
		c.Set("hs_real_node_choice_points", points)
		c.Set("hs_real_node_index_draws", draws)
		c.Set("hs_real_node_distinct_outcomes", len(outcomes))
		c.Set("hs_real_node_preemption_bound", bound)
		c.Set("hs_reply_in_flight_across_give_up_and_redraw", flags["reply_in_flight_across_give_up_and_redraw"])
		c.Set("hs_completed_normally", flags["A_established"])
		if c.Violations() == 0 {
			c.Require(flags["B_dry"] > 0, "c29hs: the index space never ran dry (allocateIndex giving up after 32 tries)")
			c.Require(flags["B_other"] > 0, "c29hs: allocateIndex never skipped a held index")
		}
	}
}
