//go:build verif

package nebula

import (
	"fmt"
	"net/netip"
	"testing"

	"github.com/slackhq/nebula/header"
	"github.com/slackhq/nebula/noiseutil"
	"github.com/slackhq/nebula/zzverif/mc"
	"github.com/slackhq/nebula/zzverif/sched"
)

// C13 — nonces are never reused and the counter ceiling is enforced.
//
// E1: 2–3 scheduler threads run the REAL send paths (sendInsideEncrypt, sendNoMetrics, prepareSendVia) on one tunnel
// whose cipher is wrapped by a recorder (logs the nonce handed to the real cipher and whether it encrypted; the wrapper
// itself is a scheduling point). connection_state.go runs on the sync/atomic shims: every messageCounter Add/Store/Load
// and writeLock acquisition is a scheduling point. Start counters: just after the handshake and around the ceiling.

type c13Rec struct {
	real noiseutil.CipherState
	log  *[]c13Enc
}
type c13Enc struct {
	n  uint64
	ok bool
}

func (r *c13Rec) EncryptDanger(out, ad, plaintext []byte, n uint64, nb []byte) ([]byte, error) {
	sched.Yield() // the cipher call is a place where another sender can run
	o, err := r.real.EncryptDanger(out, ad, plaintext, n, nb)
	*r.log = append(*r.log, c13Enc{n, err == nil})
	return o, err
}
func (r *c13Rec) DecryptDanger(out, ad, ciphertext []byte, n uint64, nb []byte) ([]byte, error) {
	return r.real.DecryptDanger(out, ad, ciphertext, n, nb)
}
func (r *c13Rec) Overhead() int { return r.real.Overhead() }

type c13Fixture struct {
	net      *vnet
	a        *vnode
	hiDirect *HostInfo // a's tunnel to r (direct)
	relay    *Relay    // a's relay slot on r for b
	hsIndex  uint64
}

func c13Setup(t testing.TB, seed int64, cipher string) *c13Fixture {
	net := vRelayNet(t, seed, vnodeSpec{Name: "cipher-" + cipher, Networks: "10.0.0.77/24", Udp: "192.0.2.77:4242"})
	if cipher != "aes" {
		net.close()
		ov := func(extra m) m { extra["cipher"] = cipher; return extra }
		a := vnodeSpec{Name: "a", Networks: "10.0.0.1/24", Udp: "192.0.2.1:4242", Overrides: ov(m{"relay": m{"use_relays": true}})}
		r := vnodeSpec{Name: "r", Networks: "10.0.0.9/24", Udp: "192.0.2.9:4242", Overrides: ov(m{"relay": m{"am_relay": true}})}
		b := vnodeSpec{Name: "b", Networks: "10.0.0.2/24", Udp: "192.0.2.2:4242", Overrides: ov(m{"relay": m{"use_relays": true}})}
		net = vNewNet(t, seed, a, r, b)
		na, nr, nb := net.node("a"), net.node("r"), net.node("b")
		na.injectLighthouseAddr(nr.vpnIP, nr.udp)
		na.injectRelays(nb.vpnIP, []netip.Addr{nr.vpnIP})
		nr.injectLighthouseAddr(nb.vpnIP, nb.udp)
		nr.injectLighthouseAddr(na.vpnIP, na.udp)
		nb.injectLighthouseAddr(nr.vpnIP, nr.udp)
		nb.injectRelays(na.vpnIP, []netip.Addr{nr.vpnIP})
	}
	a, r, b := net.node("a"), net.node("r"), net.node("b")
	if !net.establish(a, b, "c13-setup") {
		t.Fatalf("c13: cannot establish")
	}
	net.flushFIFO(50)
	via, relay, err := a.f.hostMap.QueryVpnAddrsRelayFor([]netip.Addr{b.vpnIP}, r.vpnIP)
	if err != nil {
		t.Fatalf("c13: no relay: %v", err)
	}
	return &c13Fixture{net: net, a: a, hiDirect: via, relay: relay, hsIndex: 2}
}

func TestVerifC13(t *testing.T) {
	c := mc.Begin(t, "C13", "model_checking")
	defer c.End()
	saved := noiseutil.EncryptLockNeeded
	defer func() { noiseutil.EncryptLockNeeded = saved }()
	var schedules, points int64
	outcomes := map[string]int64{}
	sawRefusal, sawSuccessNearCeil, sawReorder := false, false, false
	ciphers := map[string]bool{}
	for _, cipherName := range []string{"aes", "chachapoly", "aes-fips140"} {
		// "aes-fips140": the strictly-increasing-nonce AES-GCM cipher that the FIPS-140 / boringcrypto builds select
		// (noiseutil.CipherAESGCMFIPS140); it has its own EncryptDanger with its own ceiling test. The tunnel is the "aes"
		// one with the sending key replaced by a fresh instance of that cipher per schedule; only the lock-needed mode is
		// explored for it (without the lock its nonce-order self-check panics by design).
		setupName := cipherName
		if cipherName == "aes-fips140" {
			setupName = "aes"
		}
		fx := c13Setup(t, c.Seed(), setupName)
		f := fx.a.f
		orig := fx.hiDirect
		newEKey := func() noiseutil.CipherState { return orig.ConnectionState.eKey }
		if cipherName == "aes-fips140" {
			newEKey = func() noiseutil.CipherState {
				var k [32]byte
				for i := range k {
					k[i] = byte(i*7 + 1)
				}
				cs, ok := noiseutil.CipherAESGCMFIPS140.Cipher(k).(noiseutil.CipherState)
				if !ok {
					c.Broken("noiseutil.CipherAESGCMFIPS140 does not implement CipherState any more")
				}
				return cs
			}
		}
		ciphers[fmt.Sprintf("%T", newEKey())] = true

		const ceil = RejectAfterMessages
		starts := []uint64{fx.hsIndex, ceil - 4, ceil - 3, ceil - 2, ceil - 1, ceil, ceil + 1}
		type sender struct {
			name string
			run  func(hi *HostInfo, cs *ConnectionState)
		}
		senders := []sender{
			{"data", func(hi *HostInfo, cs *ConnectionState) {
				f.sendInsideEncrypt(hi, cs, []byte("payload"), make([]byte, 0, 200), make([]byte, 12))
			}},
			{"control", func(hi *HostInfo, cs *ConnectionState) {
				f.sendNoMetrics(header.Test, header.TestRequest, cs, hi, netip.AddrPort{}, []byte("t"), make([]byte, 12), make([]byte, mtu), 0)
			}},
			{"relay", func(hi *HostInfo, cs *ConnectionState) {
				_, _ = f.prepareSendVia(hi, fx.relay, []byte("0123456789abcdef-inner"), make([]byte, 12), make([]byte, 0, mtu), false)
			}},
		}
		// thread mixes: every multiset of 2 senders, and (thorough: every; quick: a selection of) 3-sender mixes; the
		// second variant lets each thread send twice
		var mixes [][]int
		for i := 0; i < 3; i++ {
			for j := i; j < 3; j++ {
				mixes = append(mixes, []int{i, j})
			}
		}
		if c.Thorough() {
			for i := 0; i < 3; i++ {
				for j := i; j < 3; j++ {
					for k := j; k < 3; k++ {
						mixes = append(mixes, []int{i, j, k})
					}
				}
			}
		} else {
			mixes = append(mixes, []int{0, 1, 2}, []int{0, 0, 0}, []int{0, 0, 1}, []int{0, 0, 2})
		}

		if cipherName != "aes" { // second cipher: the 2-thread mixes only
			mixes = mixes[:6]
		}
		for _, lockNeeded := range []bool{false, true} {
			if cipherName == "aes-fips140" && !lockNeeded {
				continue
			}
			noiseutil.EncryptLockNeeded = lockNeeded
			for _, start := range starts {
				for _, mix := range mixes {
					for _, twice := range []bool{false, true} {
						if twice && (len(mix) > 2 || !c.Thorough() && start == fx.hsIndex) {
							continue
						}
						if c.OutOfTime() {
							c.Capped("time budget")
							continue
						}
						var log []c13Enc
						var curHI *HostInfo
						var curCS *ConnectionState
						name := fmt.Sprintf("cipher=%s lock=%v start=%s mix=%v twice=%v", cipherName, lockNeeded, c13CtrName(start, fx.hsIndex), mix, twice)
						setup := func() {
							log = log[:0]
							cs := &ConnectionState{eKey: &c13Rec{newEKey(), &log}, dKey: orig.ConnectionState.dKey,
								myCert: orig.ConnectionState.myCert, peerCert: orig.ConnectionState.peerCert, initiator: true, window: NewBits(ReplayWindow)}
							cs.messageCounter.Store(start)
							hi := &HostInfo{remoteIndexId: orig.remoteIndexId, localIndexId: orig.localIndexId, vpnAddrs: orig.vpnAddrs, ConnectionState: cs, remotes: orig.remotes}
							hi.SetRemote(orig.GetRemote())
							curHI, curCS = hi, cs
							// two sequential sends before the threads start (register already-used nonces in the log; from
							// ceiling-2 the first uses ceiling-1 and the second exhausts the tunnel)
							senders[0].run(hi, cs)
							senders[0].run(hi, cs)
							for _, si := range mix {
								s := senders[si]
								sched.Go(func() {
									s.run(hi, cs)
									if twice {
										s.run(hi, cs)
									}
								})
							}
						}
						bound := mc.Pick(c, 2, 3)
						if len(mix) == 2 && !twice {
							bound = -1 // closes without a bound
						}
						res := sched.Explore(sched.Options{Bound: bound, Stop: c.OutOfTime}, setup, func(x *sched.Exec) {
							schedules++
							if x.Aborted {
								c.Violation("C13: "+x.Reason, map[string]any{"scenario": name, "schedule": x.Choices})
								return
							}
							// sequential sends after the threads joined: whatever the race left behind must not lead to a reuse
							for _, si := range []int{0, 0, 1, 2, 0} {
								senders[si].run(curHI, curCS)
							}
							seen := map[uint64]bool{}
							last := uint64(0)
							key := ""
							for _, e := range log {
								if e.ok {
									if seen[e.n] {
										c.Violation("C13: two encryptions used the same counter", map[string]any{"scenario": name, "counter": e.n, "schedule": x.Choices, "who": x.Who, "log": fmt.Sprint(log)})
									}
									seen[e.n] = true
									if e.n <= fx.hsIndex {
										c.Violation("C13: encryption with a counter consumed by the handshake", map[string]any{"scenario": name, "counter": e.n, "schedule": x.Choices})
									}
									if e.n >= ceil {
										c.Violation("C13: encryption at or beyond the exhaustion ceiling", map[string]any{"scenario": name, "counter_minus_ceiling": int64(e.n - ceil), "schedule": x.Choices})
									}
									if e.n+8 >= ceil {
										sawSuccessNearCeil = true
									}
									key += "+" + c13CtrName(e.n, fx.hsIndex)
								} else {
									sawRefusal = true
									key += "-" + c13CtrName(e.n, fx.hsIndex)
								}
								if !e.ok {
									continue // a refused call is not an encryption
								}
								if lockNeeded {
									if e.n <= last && last != 0 {
										c.Violation("C13: nonces reached a strictly-increasing cipher out of order", map[string]any{"scenario": name, "log": fmt.Sprint(log), "schedule": x.Choices})
									}
									last = e.n
								} else if e.n < last {
									sawReorder = true
								} else {
									last = e.n
								}
							}
							outcomes[fmt.Sprintf("lock=%v:%s", lockNeeded, key)]++
							c.SampleEvery(schedules, func() any {
								return map[string]any{"scenario": name, "choices": fmt.Sprint(x.Choices), "threads_chosen": fmt.Sprint(x.Who), "cipher_saw": key}
							})
						})
						points += res.ChoicePoints
						if !res.Complete {
							c.Capped("time budget in " + name)
						}
					}
				}
			}
		}
		fx.net.close()
	}
	c.Require(len(ciphers) == 3, "expected three cipher implementations, saw %v", ciphers)
	c.Set("cipher_implementations", fmt.Sprint(ciphers))
	c.Require(sawRefusal && sawSuccessNearCeil, "ceiling region not exercised (refusal=%v success-near-ceiling=%v)", sawRefusal, sawSuccessNearCeil)
	c.Require(sawReorder, "no schedule delivered nonces to the cipher out of order without the lock: scheduling points ineffective")
	c.Set("states", schedules)
	c.Set("transitions", points)
	c.Set("traces_validated_against_impl", schedules)
	c.Set("schedules", schedules)
	c.Set("distinct_outcomes", int64(len(outcomes)))
	c.Set("preemption_bound_completed", fmt.Sprintf("unbounded for 2-thread single-send mixes; %d for 3-thread / double-send mixes", mc.Pick(c, 2, 3)))
	c.Set("start_counters", []string{"handshake+0", "ceiling-4..ceiling+1"})
	c.Set("explanation", "states = complete schedules; transitions = scheduling choice points; each schedule runs the real send paths and the real cipher")
	c.Assume("the 2^40 headroom between the ceiling and wrap-around is not reachable by any bounded number of racing hot-path sends and is not explored")
	c.Assume("EncryptLockNeeded is toggled through the package variable (non-boring build) to emulate the FIPS / boring mode")
}

func c13CtrName(n, hs uint64) string {
	const ceil = RejectAfterMessages
	if n+16 >= ceil {
		return fmt.Sprintf("C%+d", int64(n-ceil))
	}
	return fmt.Sprintf("h+%d", n-hs)
}
