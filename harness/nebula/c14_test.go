//go:build verif

package nebula

import (
	"bytes"
	"encoding/binary"
	"fmt"
	"net/netip"
	"sort"
	"testing"

	"github.com/slackhq/nebula/header"
	"github.com/slackhq/nebula/zzverif/mc"
)

// C14 — unauthenticated packets have no effect.
//
// Victim B holds three real tunnels built by real handshakes: a direct one with D (D uses B as lighthouse), one with
// relay R, and a relayed one with A (A—R—B). Authentic, not-yet-delivered packets of every message type addressed to B
// are captured off the (virtual) wire; every mutant of each (all single-bit flips, all truncations, header-field
// substitutions, cross-packet splices, extension, replays of already delivered packets), sent from the true source
// address and from an attacker address, is delivered to the REAL readOutsidePackets of B. Oracle: B's canonical
// snapshot (hostmap, windows, counters, roaming/liveness flags, lighthouse cache, relay state, conntrack, pending
// handshakes), its tun output and its UDP output (other than an unencrypted recv_error reply) are identical before and
// after. Finally the authentic packet itself is delivered and must have its effect (vacuity guard).

type c14Auth struct {
	kind string
	pkt  vpkt
	// expectTun: authentic delivery must write to the tun; expectClose: must remove the tunnel
	expectTun, expectClose bool
}

type c14World struct {
	net     *vnet
	b       *vnode
	auth    []c14Auth
	seen    []vpkt // authentic packets already delivered to B (for replay mutants)
	attacker netip.AddrPort
}

func c14Build(t testing.TB, seed int64) *c14World {
	d := vnodeSpec{Name: "d", Networks: "10.0.0.4/24", Udp: "192.0.2.4:4242", Overrides: m{
		"static_host_map": m{"10.0.0.2": []string{"192.0.2.2:4242"}},
		"lighthouse":      m{"hosts": []string{"10.0.0.2"}},
	}}
	a := vnodeSpec{Name: "a", Networks: "10.0.0.1/24", Udp: "192.0.2.1:4242", Overrides: m{"relay": m{"use_relays": true}}}
	r := vnodeSpec{Name: "r", Networks: "10.0.0.9/24", Udp: "192.0.2.9:4242", Overrides: m{"relay": m{"am_relay": true}}}
	b := vnodeSpec{Name: "b", Networks: "10.0.0.2/24", Udp: "192.0.2.2:4242", Overrides: m{
		"relay":      m{"use_relays": true},
		"lighthouse": m{"am_lighthouse": true},
	}}
	net := vNewNet(t, seed, a, r, b, d)
	na, nr, nb, nd := net.node("a"), net.node("r"), net.node("b"), net.node("d")
	na.injectLighthouseAddr(nr.vpnIP, nr.udp)
	na.injectRelays(nb.vpnIP, []netip.Addr{nr.vpnIP})
	nr.injectLighthouseAddr(nb.vpnIP, nb.udp)
	nr.injectLighthouseAddr(na.vpnIP, na.udp)
	nb.injectLighthouseAddr(nr.vpnIP, nr.udp)
	nb.injectRelays(na.vpnIP, []netip.Addr{nr.vpnIP})
	w := &c14World{net: net, b: nb, attacker: netip.MustParseAddrPort("198.51.100.66:6666")}
	if !net.establish(na, nb, "setup-a-b") || !net.establish(nb, na, "setup-b-a") || !net.establish(nd, nb, "setup-d-b") || !net.establish(nb, nd, "setup-b-d") {
		t.Fatalf("c14: scenario could not be established")
	}
	net.flushFIFO(100)

	// capture: run an action on a sender, take what it wrote towards B without delivering it
	capture := func(kind string, expectTun, expectClose bool, act func()) {
		act()
		net.collect()
		// relay path: deliver packets addressed to R so that R emits the forwarded frame towards B
		for round := 0; round < 4; round++ {
			for i := 0; i < len(net.inflight); {
				if net.inflight[i].To == nr.udp {
					net.deliverAt(i, false)
					i = 0
					continue
				}
				i++
			}
		}
		var keep []vpkt
		for _, p := range net.inflight {
			if p.To == nb.udp && len(p.Data) >= header.Len {
				w.auth = append(w.auth, c14Auth{kind, p, expectTun, expectClose})
			} else {
				keep = append(keep, p)
			}
		}
		net.inflight = keep
	}
	out := make([]byte, mtu)
	nbuf := make([]byte, 12)
	capture("data", true, false, func() { nd.tunSend(vUDPPacket(nd.vpnIP, nb.vpnIP, 1000, 2000, []byte("AUTH-DATA"))) })
	capture("test-request", false, false, func() {
		nd.f.SendMessageToVpnAddr(header.Test, header.TestRequest, nb.vpnIP, []byte("ping"), nbuf, out)
	})
	capture("test-reply", false, false, func() {
		nd.f.SendMessageToVpnAddr(header.Test, header.TestReply, nb.vpnIP, []byte("pong"), nbuf, out)
	})
	capture("lighthouse-update", false, false, func() { nd.lh.SendUpdate(); nd.settle() })
	capture("relayed-data", true, false, func() { na.tunSend(vUDPPacket(na.vpnIP, nb.vpnIP, 1000, 2000, []byte("AUTH-RELAYED"))) })
	capture("control", false, false, func() {
		// an authentic control message from the relay: a (harmless, duplicate) CreateRelayResponse-shaped payload is not
		// needed — any authentic Control packet exercises the dispatch; use an empty control body
		nr.f.SendMessageToVpnAddr(header.Control, 0, nb.vpnIP, []byte{}, nbuf, out)
	})
	capture("close", false, true, func() {
		hi := nd.f.hostMap.QueryVpnAddr(nb.vpnIP)
		nd.f.sendCloseTunnel(hi)
	})
	return w
}

// clearTrafficFlags resets the liveness flags of all of B's tunnels (what a connection-manager tick does), so that a
// forged packet that marks a tunnel alive is visible in the snapshot.
func (w *c14World) clearTrafficFlags() {
	hmap := w.b.f.hostMap
	hmap.RLock()
	for _, hi := range hmap.Indexes {
		hi.in.Store(false)
		hi.out.Store(false)
	}
	hmap.RUnlock()
}

type c14Mutant struct {
	class string
	from  netip.AddrPort
	data  []byte
}

// indexesOfInterest lists index values B knows about: local indexes, relay indexes, remote indexes (as seen by B).
func (w *c14World) indexesOfInterest() []uint32 {
	hmap := w.b.f.hostMap
	hmap.RLock()
	defer hmap.RUnlock()
	set := map[uint32]bool{0: true, 1: true, 0xffffffff: true}
	for i := range hmap.Indexes {
		set[i] = true
	}
	for i := range hmap.Relays {
		set[i] = true
	}
	for i := range hmap.RemoteIndexes {
		set[i] = true
	}
	var out []uint32
	for i := range set {
		out = append(out, i)
	}
	sort.Slice(out, func(i, j int) bool { return out[i] < out[j] })
	return out
}

func (w *c14World) mutants(ai int, thorough bool) []c14Mutant {
	a := w.auth[ai]
	p := a.pkt.Data
	var ms []c14Mutant
	add := func(class string, d []byte) {
		if bytes.Equal(d, p) {
			return // byte-identical to the authentic packet: not a mutant
		}
		ms = append(ms, c14Mutant{class, a.pkt.From, d})
		ms = append(ms, c14Mutant{class + "@attacker", w.attacker, d})
	}
	// every single-bit flip
	for i := 0; i < len(p)*8; i++ {
		d := append([]byte(nil), p...)
		d[i/8] ^= 1 << uint(i%8)
		add("bitflip", d)
	}
	// every truncation and a 1-byte extension
	for l := 0; l < len(p); l++ {
		add("truncate", append([]byte(nil), p[:l]...))
	}
	add("extend", append(append([]byte(nil), p...), 0))
	add("extend", append(append([]byte(nil), p...), 0xff))
	// header substitutions
	var h header.H
	_ = h.Parse(p)
	for ty := 0; ty < 16; ty++ {
		for _, st := range []int{0, 1, 2, 255} {
			d := append([]byte(nil), p...)
			d[0] = d[0]&0xf0 | byte(ty)
			d[1] = byte(st)
			add("type-subtype", d)
		}
	}
	for v := 0; v < 16; v++ {
		d := append([]byte(nil), p...)
		d[0] = byte(v)<<4 | d[0]&0x0f
		add("version", d)
	}
	idxs := w.indexesOfInterest()
	for _, idx := range idxs {
		d := append([]byte(nil), p...)
		binary.BigEndian.PutUint32(d[4:8], idx)
		add("index", d)
		// index + type combinations (the unencrypted types and close are the interesting ones)
		for _, ty := range []header.MessageType{header.RecvError, header.CloseTunnel, header.Handshake, header.Control, header.LightHouse} {
			d2 := append([]byte(nil), d...)
			d2[0] = d2[0]&0xf0 | byte(ty)
			d2[1] = 0
			add("index+type", d2)
			d3 := append([]byte(nil), d2[:header.Len]...)
			add("index+type+header-only", d3)
			if thorough {
				for _, ctr := range []uint64{0, 1, 2} {
					d4 := append([]byte(nil), d2...)
					binary.BigEndian.PutUint64(d4[8:16], ctr)
					add("index+type+counter", d4)
				}
			}
		}
	}
	for _, ctr := range []uint64{0, 1, 2, h.MessageCounter - 1, h.MessageCounter + 1, h.MessageCounter + 2, h.MessageCounter + 1000, 1 << 40, ^uint64(0)} {
		d := append([]byte(nil), p...)
		binary.BigEndian.PutUint64(d[8:16], ctr)
		add("counter", d)
	}
	d := append([]byte(nil), p...)
	d[2], d[3] = 0xff, 0xff
	add("reserved", d)
	// cross-packet splices: header of this packet + body of another authentic packet and vice versa
	for bj, other := range w.auth {
		if bj == ai {
			continue
		}
		o := other.pkt.Data
		add("splice-header", append(append([]byte(nil), p[:header.Len]...), o[header.Len:]...))
		add("splice-body", append(append([]byte(nil), o[:header.Len]...), p[header.Len:]...))
	}
	// replays of authentic packets B has already accepted (from both addresses) and their counter-rewritten copies
	for _, s := range w.seen {
		ms = append(ms, c14Mutant{"replay-of-delivered", s.From, s.Data}, c14Mutant{"replay-of-delivered@attacker", w.attacker, s.Data})
		d := append([]byte(nil), s.Data...)
		binary.BigEndian.PutUint64(d[8:16], h.MessageCounter)
		add("replay-with-fresh-counter", d)
	}
	return ms
}

func TestVerifC14(t *testing.T) {
	c := mc.Begin(t, "C14", "model_checking")
	defer c.End()
	seed := c.Seed()
	w := c14Build(t, seed)
	c.Require(len(w.auth) >= 7, "expected >= 7 authentic packets, got %d", len(w.auth))
	kinds := map[string]bool{}
	for _, a := range w.auth {
		kinds[a.kind] = true
	}
	for _, k := range []string{"data", "test-request", "test-reply", "lighthouse-update", "relayed-data", "control", "close"} {
		c.Require(kinds[k], "no authentic %s packet captured", k)
	}

	// determinism: building the world twice gives the same wire bytes and the same victim state
	w2 := c14Build(t, seed)
	if w.net.wireHash() != w2.net.wireHash() || w.b.snapKey(vSnapOpts{}) != w2.b.snapKey(vSnapOpts{}) {
		c.Broken("scenario replay is not deterministic")
	}
	w2.net.close()

	states := map[string]bool{}
	var transitions, effective, recvErrorsHandedToPeers int64
	classes := map[string]int64{}
	rebuilds := 0

	for ai := 0; ai < len(w.auth); ai++ {
		a := w.auth[ai]
		w.clearTrafficFlags()
		base := w.b.snapshot(vSnapOpts{})
		baseKey := vJSON(base)
		states[baseKey] = true
		peerBase := map[string]string{}
		snapPeers := func() {
			for _, n := range w.net.nodes {
				if n != w.b {
					peerBase[n.spec.Name] = vJSON(n.snapshot(vSnapOpts{}))
				}
			}
		}
		snapPeers()
		ms := w.mutants(ai, c.Thorough())
		for _, mu := range ms {
			if c.OutOfTime() {
				c.Capped("time budget")
				break
			}
			w.b.deliver(mu.from, mu.data)
			transitions++
			classes[a.kind+":"+mu.class]++
			udpOut := w.b.conn.take()
			tunOut := w.b.tun.take()
			after := w.b.snapshot(vSnapOpts{})
			afterKey := vJSON(after)
			effect := ""
			if len(tunOut) > 0 {
				effect = "tun-delivery"
			}
			for _, o := range udpOut {
				var oh header.H
				if len(o.Data) != header.Len || oh.Parse(o.Data) != nil || oh.Type != header.RecvError {
					effect += "+udp-output(" + vDescribe(o.Data) + ")"
					break
				}
				// a recv_error reply is only harmless if it carries no tunnel state: handed to the node that owns the address it
				// was sent to (the genuine peer, when the forgery used its source address) it must not change anything there
				if peer, ok := w.net.byUDP[o.To.Addr()]; ok && peer != w.b && peer.udp == o.To {
					pb, had := peerBase[peer.spec.Name]
					if !had {
						c.Broken("no baseline for node %s", peer.spec.Name)
					}
					peer.deliver(o.From, o.Data)
					recvErrorsHandedToPeers++
					peer.conn.take()
					peer.tun.take()
					if pa := vJSON(peer.snapshot(vSnapOpts{})); pa != pb {
						effect += "+recv_error-reply-changes-peer(" + peer.spec.Name + ")"
						break
					}
				}
			}
			if afterKey != baseKey {
				diff := vDiff(base, after)
				keys := []string{}
				for _, dline := range diff {
					keys = append(keys, dline[:bytes.IndexByte([]byte(dline), ':')])
				}
				effect += "+state(" + fmt.Sprint(keys) + ")"
			}
			if effect != "" {
				var mh header.H
				_ = mh.Parse(mu.data)
				sig := fmt.Sprintf("%s packet, mutant %s", a.kind, mu.class)
				if len(mu.data) >= header.Len && mh.Type == header.RecvError {
					sig = "unauthenticated recv_error from the tunnel's current remote address closes the tunnel (accept_recv_error default)"
					if mu.from != a.pkt.From {
						sig = "unauthenticated recv_error from a foreign address closes a tunnel"
					}
				}
				c.Violation(sig+": "+effect, map[string]any{"authentic": fmt.Sprintf("%x", a.pkt.Data), "authentic_from": a.pkt.From.String(),
					"mutant": fmt.Sprintf("%x", mu.data), "mutant_from": mu.from.String(), "mutant_header": vDescribe(mu.data), "effect": effect, "diff": vDiff(base, after)})
				// the instance is no longer in the baseline state: rebuild the world and fast-forward to this packet
				rebuilds++
				if rebuilds > 300 {
					c.Capped("more than 300 state-changing mutants: exploration stopped after reporting them")
					w.net.close()
					c.Set("states", int64(len(states)))
					c.Set("transitions", transitions)
					c.Set("traces_validated_against_impl", transitions)
					return
				}
				w.net.close()
				w = c14Build(t, seed)
				for k := 0; k < ai; k++ {
					w.b.deliver(w.auth[k].pkt.From, w.auth[k].pkt.Data)
					w.seen = append(w.seen, w.auth[k].pkt)
					w.b.conn.take()
					w.b.tun.take()
				}
				w.clearTrafficFlags()
				base = w.b.snapshot(vSnapOpts{})
				baseKey = vJSON(base)
				snapPeers()
			}
		}
		// the authentic packet itself must still be accepted and have its effect
		a = w.auth[ai]
		before := w.b.snapshot(vSnapOpts{})
		w.b.deliver(a.pkt.From, a.pkt.Data)
		transitions++
		tunOut := w.b.tun.take()
		w.b.conn.take()
		after := w.b.snapshot(vSnapOpts{})
		changed := vJSON(before) != vJSON(after)
		c.Require(changed, "authentic %s packet had no effect at all (harness captured a stale packet?)", a.kind)
		if a.expectTun {
			c.Require(len(tunOut) == 1, "authentic %s packet was not delivered to the tun (%d)", a.kind, len(tunOut))
		}
		if a.expectClose {
			_, still := after["hostmap"].(map[string]any)["Hosts"].(map[string]string)["10.0.0.4"]
			c.Require(!still, "authentic close did not remove the tunnel")
		}
		effective++
		states[vJSON(after)] = true
		w.seen = append(w.seen, a.pkt)
		c.Sample(map[string]any{"authentic": a.kind, "header": vDescribe(a.pkt.Data), "from": a.pkt.From.String(), "mutants": len(ms)})
	}
	w.net.close()

	c.Set("states", int64(len(states)))
	c.Set("transitions", transitions)
	c.Set("traces_validated_against_impl", transitions)
	c.Set("authentic_packets", effective)
	c.Set("recv_error_replies_handed_to_the_peer_they_were_addressed_to", recvErrorsHandedToPeers)
	c.Set("mutant_classes", classes)
	c.Set("explanation", "states = distinct victim snapshots (one baseline per authentic packet + the state after each authentic delivery); transitions = datagrams delivered to the real readOutsidePackets; every mutant must leave the baseline snapshot, tun and UDP output (recv_error replies excepted) unchanged")
	c.Assume("forged = the enumerated mutants of captured authentic packets; AEAD unforgeability is assumed for everything else")
	c.Assume("an unencrypted recv_error reply is not an 'effect' by itself; it is handed to the node owning the address it was sent to and must leave that node's snapshot unchanged (a reply naming a live index would close the genuine peer's tunnel)")
}
