//go:build verif

package nebula

import (
	"fmt"
	"log/slog"
	"net/netip"
	"os"
	"strconv"
	"strings"
	"sync"
	"syscall"
	"testing"
	"time"

	"github.com/gaissmai/bart"
	"github.com/rcrowley/go-metrics"
	"github.com/slackhq/nebula/cert"
	"github.com/slackhq/nebula/firewall"
	"github.com/slackhq/nebula/zzverif/mc"
)

// C16 — firewall verdicts follow the rule semantics.
//
// Bounded-exhaustive enumeration (E3) of rule sets x firewall configurations x peers x packets against a reference
// evaluator that is a flat list of rules and a literal transcription of the property statement / the documented rule
// semantics (examples/config.yml: "port AND proto AND (ca_sha OR ca_name) AND (host OR group OR groups OR cidr) AND
// (local cidr)"). The real side is the production code path: NewFirewall + AddRule build the nested tables and
// Firewall.Drop is called with an empty conntrack table.
//
// This file also carries the pieces shared with the C17 and C22 harnesses (prefix c16…): the certificate stand-in,
// node/peer worlds, and the reference evaluator. C17.json / C22.json list this file as well.

// ---------------------------------------------------------------------------------------------------------------
// shared: certificates, node and peer worlds

// c16Cert implements only what the firewall path reads from a certificate. The embedded interface is nil on purpose:
// any other method call crashes the harness (exit 2) instead of silently returning a zero value.
type c16Cert struct {
	cert.Certificate
	name     string
	groups   []string
	issuer   string
	networks []netip.Prefix
	unsafe   []netip.Prefix
}

func (c *c16Cert) Name() string                   { return c.name }
func (c *c16Cert) Groups() []string               { return c.groups }
func (c *c16Cert) Issuer() string                 { return c.issuer }
func (c *c16Cert) Networks() []netip.Prefix       { return c.networks }
func (c *c16Cert) UnsafeNetworks() []netip.Prefix { return c.unsafe }
func (c *c16Cert) Version() cert.Version          { return cert.Version2 }
func (c *c16Cert) String() string                 { return c.name }

func c16Prefixes(ss ...string) []netip.Prefix {
	var out []netip.Prefix
	for _, s := range ss {
		out = append(out, netip.MustParsePrefix(s))
	}
	return out
}

// c16Node is the node under test: its certificate and the one firewall option that changes rule meaning.
type c16Node struct {
	Label           string
	Networks        []netip.Prefix
	Unsafe          []netip.Prefix
	DefaultLocalAny bool
}

func (n c16Node) cert() *c16Cert {
	return &c16Cert{name: "me", networks: n.Networks, unsafe: n.Unsafe, issuer: "sha1"}
}

// c16Peer is a remote host as the reference sees it (flat data) plus the real HostInfo built by the production
// HostInfo.buildNetworks for one particular node.
type c16Peer struct {
	Name     string
	Groups   []string
	Issuer   string
	Networks []netip.Prefix
	Unsafe   []netip.Prefix
	Shape    string
	Remotes  []netip.Addr // the peer's certified addresses and an address in each of its unsafe networks
	Spoofs   []netip.Addr // addresses the peer is not certified for
}

func (p c16Peer) String() string {
	return fmt.Sprintf("name=%s groups=%v issuer=%s networks=%v unsafe=%v", p.Name, p.Groups, p.Issuer, p.Networks, p.Unsafe)
}

func c16HostInfo(n c16Node, p c16Peer) *HostInfo {
	crt := &c16Cert{name: p.Name, groups: p.Groups, issuer: p.Issuer, networks: p.Networks, unsafe: p.Unsafe}
	inv := make(map[string]struct{}, len(p.Groups))
	for _, g := range p.Groups {
		inv[g] = struct{}{}
	}
	h := &HostInfo{
		ConnectionState: &ConnectionState{peerCert: &cert.CachedCertificate{Certificate: crt, InvertedGroups: inv}},
	}
	for _, nw := range p.Networks {
		h.vpnAddrs = append(h.vpnAddrs, nw.Addr())
	}
	mine := new(bart.Lite) // same construction as CertState.myVpnNetworksTable
	for _, nw := range n.Networks {
		mine.Insert(nw)
	}
	h.buildNetworks(mine, crt)
	return h
}

// c16Pool: trusted CAs, fingerprint -> CA name. sha3 is an issuer that is NOT in the pool.
var c16PoolNames = map[string]string{"sha1": "caN1", "sha2": "caN2"}

func c16CAPool() *cert.CAPool {
	cp := cert.NewCAPool()
	for fp, name := range c16PoolNames {
		cp.CAs[fp] = &cert.CachedCertificate{Certificate: &c16Cert{name: name}}
	}
	return cp
}

func c16NewFirewall(l *slog.Logger, n c16Node) *Firewall {
	fw := NewFirewall(l, 12*time.Minute, 3*time.Minute, 10*time.Minute, n.cert())
	fw.defaultLocalCIDRAny = n.DefaultLocalAny // what NewFirewallFromConfig does with firewall.default_local_cidr_any
	// The drop counters come from the process-global go-metrics registry, i.e. all firewalls of all worker goroutines
	// would hammer the same three cache lines. Give every firewall private counters of the same type (not a verdict input).
	fw.incomingMetrics = firewallMetrics{metrics.NewCounter(), metrics.NewCounter(), metrics.NewCounter()}
	fw.outgoingMetrics = firewallMetrics{metrics.NewCounter(), metrics.NewCounter(), metrics.NewCounter()}
	return fw
}

// ---------------------------------------------------------------------------------------------------------------
// shared: the reference (flat rule list, transcription of the statement)

const (
	c16PortAny = iota
	c16PortRange
	c16PortFragment
)

type c16Rule struct {
	Incoming  bool
	Proto     string // any | tcp | udp | icmp
	PortKind  int
	Lo, Hi    int
	Groups    []string
	Host      string
	Cidr      string
	LocalCidr string
	CAName    string
	CASha     string
	idx       [7]int // alphabet indices (dir, proto, port, selector, local, caName, caSha) for the vacuity guard

	cidrP, localP netip.Prefix // parsed forms of Cidr / LocalCidr when they are prefixes (see prep)
}

// prep parses the textual prefixes once (the reference would otherwise re-parse them for every packet).
func (r c16Rule) prep() c16Rule {
	if r.Cidr != "" && r.Cidr != "any" {
		r.cidrP = netip.MustParsePrefix(r.Cidr)
	}
	if r.LocalCidr != "" && r.LocalCidr != "any" {
		r.localP = netip.MustParsePrefix(r.LocalCidr)
	}
	return r
}

func (r c16Rule) String() string {
	dir := "out"
	if r.Incoming {
		dir = "in"
	}
	port := "any"
	switch r.PortKind {
	case c16PortRange:
		port = fmt.Sprintf("%d-%d", r.Lo, r.Hi)
	case c16PortFragment:
		port = "fragment"
	}
	return fmt.Sprintf("%s proto=%s port=%s groups=%v host=%q cidr=%q local_cidr=%q ca_name=%q ca_sha=%q", dir, r.Proto, port, r.Groups, r.Host, r.Cidr, r.LocalCidr, r.CAName, r.CASha)
}

// addTo installs the rule into a real firewall through the production AddRule.
func (r c16Rule) addTo(fw *Firewall, icmpNumber uint8) error {
	var proto uint8
	switch r.Proto {
	case "any":
		proto = firewall.ProtoAny
	case "tcp":
		proto = firewall.ProtoTCP
	case "udp":
		proto = firewall.ProtoUDP
	case "icmp":
		proto = icmpNumber // firewall.ProtoICMP or firewall.ProtoICMPv6: AddRule treats both as "icmp"
	}
	var lo, hi int32
	switch r.PortKind {
	case c16PortAny:
		lo, hi = firewall.PortAny, firewall.PortAny
	case c16PortRange:
		lo, hi = int32(r.Lo), int32(r.Hi)
	case c16PortFragment:
		lo, hi = firewall.PortFragment, firewall.PortFragment
	}
	return fw.AddRule(r.Incoming, proto, lo, hi, r.Groups, r.Host, r.Cidr, r.LocalCidr, r.CAName, r.CASha)
}

// field bits of the reference match
const (
	c16FDir = 1 << iota
	c16FProto
	c16FPort
	c16FSel
	c16FLocal
	c16FCA
	c16FAll = c16FDir | c16FProto | c16FPort | c16FSel | c16FLocal | c16FCA
)

var c16FieldNames = []string{"direction", "proto", "port", "selector", "local_cidr", "ca"}

func c16Fields(mask uint8) string {
	var out []string
	for i, n := range c16FieldNames {
		if mask&(1<<uint(i)) != 0 {
			out = append(out, n)
		}
	}
	return strings.Join(out, "+")
}

func c16IsICMP(p firewall.Packet) bool {
	return p.Protocol == firewall.ProtoICMP || p.Protocol == firewall.ProtoICMPv6
}

func c16InAny(prefixes []netip.Prefix, a netip.Addr) bool {
	for _, p := range prefixes {
		if p.Contains(a) {
			return true
		}
	}
	return false
}

// c16RefAuthentic transcribes C17's statement (also the precondition of C16): the remote address is one of the peer's
// certified addresses that lies inside one of the node's own overlay networks, or lies inside one of the peer's
// certified unsafe networks; the local address is one of the node's certified addresses or inside one of the node's
// certified unsafe networks.
func c16RefAuthentic(n c16Node, p *c16Peer, pkt firewall.Packet) (remoteOK, localOK bool) {
	for _, nw := range p.Networks {
		if nw.Addr() == pkt.RemoteAddr && c16InAny(n.Networks, pkt.RemoteAddr) {
			remoteOK = true
		}
	}
	if c16InAny(p.Unsafe, pkt.RemoteAddr) {
		remoteOK = true
	}
	for _, nw := range n.Networks {
		if nw.Addr() == pkt.LocalAddr {
			localOK = true
		}
	}
	if c16InAny(n.Unsafe, pkt.LocalAddr) {
		localOK = true
	}
	return
}

// c16RefMatch evaluates one rule against one packet; the result is the set of satisfied field conditions (a rule
// matches iff all are satisfied). shaOK/nameOK are reported separately for the vacuity guard.
func c16RefMatch(n c16Node, r *c16Rule, p *c16Peer, pkt firewall.Packet, incoming bool) (mask uint8, shaOK, nameOK bool) {
	// direction
	if r.Incoming == incoming {
		mask |= c16FDir
	}
	// protocol
	switch r.Proto {
	case "any":
		mask |= c16FProto
	case "tcp":
		if pkt.Protocol == firewall.ProtoTCP {
			mask |= c16FProto
		}
	case "udp":
		if pkt.Protocol == firewall.ProtoUDP {
			mask |= c16FProto
		}
	case "icmp":
		if c16IsICMP(pkt) {
			mask |= c16FProto
		}
	}
	// port, range, or fragment. ICMP ignores ports: an icmp rule never looks at its port; for an ICMP packet any
	// other rule (proto any) applies only when it does not ask for a particular port (design decision, recorded as an
	// assumption: the statement does not say that `proto: any, port: 80` admits ICMP).
	switch {
	case c16IsICMP(pkt):
		if r.Proto == "icmp" || r.PortKind == c16PortAny {
			mask |= c16FPort
		}
	case pkt.Fragment: // second and further fragments carry no port
		if r.PortKind == c16PortAny || r.PortKind == c16PortFragment {
			mask |= c16FPort
		}
	default:
		port := int(pkt.RemotePort) // the service port: ours for incoming traffic, theirs for outgoing
		if incoming {
			port = int(pkt.LocalPort)
		}
		if r.PortKind == c16PortAny || (r.PortKind == c16PortRange && r.Lo <= port && port <= r.Hi) {
			mask |= c16FPort
		}
	}
	// CA name or fingerprint if given
	shaOK = r.CASha != "" && p.Issuer == r.CASha
	if r.CAName != "" {
		if name, trusted := c16PoolNames[p.Issuer]; trusted && name == r.CAName {
			nameOK = true
		}
	}
	if (r.CAName == "" && r.CASha == "") || shaOK || nameOK {
		mask |= c16FCA
	}
	// local CIDR
	switch r.LocalCidr {
	case "any":
		mask |= c16FLocal
	case "":
		// default: only the node's own overlay networks, unless the node has no unsafe networks to protect or
		// default_local_cidr_any is set
		if len(n.Unsafe) == 0 || n.DefaultLocalAny || c16InAny(n.Networks, pkt.LocalAddr) {
			mask |= c16FLocal
		}
	default:
		if r.localP.Contains(pkt.LocalAddr) {
			mask |= c16FLocal
		}
	}
	// any of: all listed groups, host name, remote CIDR; 'any' wildcards; nothing listed = everybody
	sel := len(r.Groups) == 0 && r.Host == "" && r.Cidr == ""
	if r.Host == "any" || r.Cidr == "any" {
		sel = true
	}
	for _, g := range r.Groups {
		if g == "any" {
			sel = true
		}
	}
	if len(r.Groups) > 0 {
		all := true
		for _, g := range r.Groups {
			has := false
			for _, pg := range p.Groups {
				if pg == g {
					has = true
				}
			}
			if !has {
				all = false
			}
		}
		if all {
			sel = true
		}
	}
	if r.Host != "" && r.Host == p.Name {
		sel = true
	}
	if r.Cidr != "" && r.Cidr != "any" && r.cidrP.Contains(pkt.RemoteAddr) {
		sel = true
	}
	if sel {
		mask |= c16FSel
	}
	return
}

// c16RefVerdict: allowed iff the addresses are authentic and some rule matches in every field. best is the mask of
// the rule that came closest (for violation signatures).
func c16RefVerdict(n c16Node, rules []c16Rule, p *c16Peer, pkt firewall.Packet, incoming bool) bool {
	rOK, lOK := c16RefAuthentic(n, p, pkt)
	if !rOK || !lOK {
		return false
	}
	for i := range rules {
		if m, _, _ := c16RefMatch(n, &rules[i], p, pkt, incoming); m == c16FAll {
			return true
		}
	}
	return false
}

// c16RefWhy explains a reference verdict (only computed for violation reports and samples).
func c16RefWhy(n c16Node, rules []c16Rule, p *c16Peer, pkt firewall.Packet, incoming bool) string {
	rOK, lOK := c16RefAuthentic(n, p, pkt)
	if !rOK {
		return "remote address not authentic"
	}
	if !lOK {
		return "local address not the node's"
	}
	best, bestN := uint8(0), -1
	for i := range rules {
		m, _, _ := c16RefMatch(n, &rules[i], p, pkt, incoming)
		if m == c16FAll {
			return "rule matches"
		}
		cnt := 0
		for b := m; b != 0; b &= b - 1 {
			cnt++
		}
		if cnt > bestN {
			best, bestN = m, cnt
		}
	}
	if bestN < 0 {
		return "no rules"
	}
	return "closest rule fails on " + c16Fields(c16FAll&^best)
}

// ---------------------------------------------------------------------------------------------------------------
// shared: packets

type c16Probe struct {
	Pkt      firewall.Packet
	Incoming bool
}

func c16ProtoName(p uint8) string {
	switch p {
	case firewall.ProtoTCP:
		return "tcp"
	case firewall.ProtoUDP:
		return "udp"
	case firewall.ProtoICMP:
		return "icmp"
	case firewall.ProtoICMPv6:
		return "icmpv6"
	}
	return fmt.Sprintf("proto%d", p)
}

func c16PktString(pr c16Probe) string {
	d := "out"
	if pr.Incoming {
		d = "in"
	}
	return fmt.Sprintf("%s %s remote=%s:%d local=%s:%d fragment=%v", d, c16ProtoName(pr.Pkt.Protocol), pr.Pkt.RemoteAddr, pr.Pkt.RemotePort, pr.Pkt.LocalAddr, pr.Pkt.LocalPort, pr.Pkt.Fragment)
}

type c16PacketAlpha struct {
	Protos   []uint8
	Ports    [][2]uint16 // (local, remote)
	Frags    []bool
	Locals4  []netip.Addr // node-side addresses that are the node's in at least one node configuration
	Locals6  []netip.Addr
	Foreign4 netip.Addr // a node-side address that is never the node's
	Foreign6 netip.Addr
}

// probes for one peer: every certified remote x same-family local x proto x port pair x fragment x direction, plus a
// thin slice (tcp and icmp, first port pair) for every spoofed remote and for the foreign local address: those must be
// refused whatever the rules say, so they do not need the whole packet product.
func (a c16PacketAlpha) probes(p c16Peer) []c16Probe {
	var out []c16Probe
	add := func(ra, la netip.Addr, protos []uint8, ports [][2]uint16, frags []bool) {
		for _, proto := range protos {
			for _, pp := range ports {
				for _, fr := range frags {
					for _, inc := range []bool{true, false} {
						out = append(out, c16Probe{firewall.Packet{LocalAddr: la, RemoteAddr: ra, LocalPort: pp[0], RemotePort: pp[1], Protocol: proto, Fragment: fr}, inc})
					}
				}
			}
		}
	}
	thinProtos := []uint8{firewall.ProtoTCP, firewall.ProtoICMP}
	for _, ra := range p.Remotes {
		locals, foreign := a.Locals4, a.Foreign4
		if ra.Is6() {
			locals, foreign = a.Locals6, a.Foreign6
		}
		for _, la := range locals {
			add(ra, la, a.Protos, a.Ports, a.Frags)
		}
		add(ra, foreign, thinProtos, a.Ports[:1], []bool{false})
	}
	for _, ra := range p.Spoofs {
		locals := a.Locals4
		if ra.Is6() {
			locals = a.Locals6
		}
		add(ra, locals[0], thinProtos, a.Ports[:1], []bool{false})
	}
	return out
}

func c16Addrs(ss ...string) []netip.Addr {
	var out []netip.Addr
	for _, s := range ss {
		out = append(out, netip.MustParseAddr(s))
	}
	return out
}

// ---------------------------------------------------------------------------------------------------------------
// C16 proper

type c16Sel struct {
	Groups []string
	Host   string
	Cidr   string
	Wild   bool // can never be unmatched
}

type c16PortV struct {
	Kind   int
	Lo, Hi int
}

type c16Alpha struct {
	Dirs    []bool
	Protos  []string
	Ports   []c16PortV
	Sels    []c16Sel
	Locals  []string
	CANames []string
	CAShas  []string
}

func (a c16Alpha) sizes() [7]int {
	return [7]int{len(a.Dirs), len(a.Protos), len(a.Ports), len(a.Sels), len(a.Locals), len(a.CANames), len(a.CAShas)}
}

func (a c16Alpha) rule(i [7]int) c16Rule {
	s := a.Sels[i[3]]
	return c16Rule{Incoming: a.Dirs[i[0]], Proto: a.Protos[i[1]], PortKind: a.Ports[i[2]].Kind, Lo: a.Ports[i[2]].Lo, Hi: a.Ports[i[2]].Hi,
		Groups: s.Groups, Host: s.Host, Cidr: s.Cidr, LocalCidr: a.Locals[i[4]], CAName: a.CANames[i[5]], CASha: a.CAShas[i[6]], idx: i}.prep()
}

// all rules of the product, or only those with at most `dev` fields different from value 0 of every field (dev < 0: all)
func (a c16Alpha) rules(dev int) []c16Rule {
	var out []c16Rule
	sz := a.sizes()
	mc.ForAllBounded(dev, func(e *mc.Enum) {
		var i [7]int
		for k := range i {
			i[k] = e.Choose(sz[k])
		}
		out = append(out, a.rule(i))
	}, nil)
	return out
}

type c16World struct {
	Node   c16Node
	Peers  []c16Peer
	Hosts  []*HostInfo
	Probes [][]c16Probe
}

func c16MakeWorld(n c16Node, peers []c16Peer, pa c16PacketAlpha) *c16World {
	w := &c16World{Node: n, Peers: peers}
	for _, p := range peers {
		w.Hosts = append(w.Hosts, c16HostInfo(n, p))
		w.Probes = append(w.Probes, pa.probes(p))
	}
	return w
}

func (w *c16World) size() int {
	n := 0
	for _, p := range w.Probes {
		n += len(p)
	}
	return n
}

type c16Cov struct {
	mu sync.Mutex
	// [field][value][0 unmatched / 1 matched]
	hit [7][][2]int64
}

func (cv *c16Cov) merge(local *[7][][2]int64) {
	cv.mu.Lock()
	for f := range local {
		for v := range local[f] {
			cv.hit[f][v][0] += local[f][v][0]
			cv.hit[f][v][1] += local[f][v][1]
		}
	}
	cv.mu.Unlock()
}

type c16Stats struct {
	evals, allow, drop, authentic, tracked, leftover int64
	nest                                             *c16NestStats // non-nil: classify every admitted packet by the remote-CIDR nesting situation (nested phases)
}

// c16NestStats counts, for packets the reference admits, how the admitting rules relate to the other rules of the set
// whose remote CIDR also covers the packet's remote address (index 0: IPv4 remote, 1: IPv6 remote).
type c16NestStats struct {
	covered2      [2]int64 // >= 2 rules of the direction with distinct remote CIDRs (different length) cover the remote address
	onlyWider     [2]int64 // ... and the packet is admitted although the most specific covering rule does not match in full
	onlyNarrowest [2]int64 // ... and only a most specific covering rule matches in full
	samePrefix    [2]int64 // two rules with the same remote CIDR (same table slot) cover it and exactly one of them matches in full
	byOtherKind   [2]int64 // a covering cidr rule fails and a rule without cidr (groups / host / any) admits the packet
	depth3        [2]int64 // three different prefix lengths cover the remote address
}

func (a *c16NestStats) add(b *c16NestStats) {
	for k := 0; k < 2; k++ {
		a.covered2[k] += b.covered2[k]
		a.onlyWider[k] += b.onlyWider[k]
		a.onlyNarrowest[k] += b.onlyNarrowest[k]
		a.samePrefix[k] += b.samePrefix[k]
		a.byOtherKind[k] += b.byOtherKind[k]
		a.depth3[k] += b.depth3[k]
	}
}

// c16NestClass describes the nesting situation of one admitted packet (flat loops over the rule list; reference side only).
// The returned word is used in violation signatures, the counters feed the vacuity guards of the nested phases.
func c16NestClass(n c16Node, rules []c16Rule, p *c16Peer, pkt firewall.Packet, incoming bool, ns *c16NestStats) string {
	fam := 0
	if pkt.RemoteAddr.Is6() {
		fam = 1
	}
	type cover struct {
		bits int
		pfx  netip.Prefix
		full bool
	}
	var covers []cover
	otherFull := false
	for i := range rules {
		r := &rules[i]
		if r.Incoming != incoming {
			continue
		}
		m, _, _ := c16RefMatch(n, r, p, pkt, incoming)
		if r.Cidr != "" && r.Cidr != "any" && r.cidrP.Contains(pkt.RemoteAddr) {
			covers = append(covers, cover{r.cidrP.Bits(), r.cidrP.Masked(), m == c16FAll})
		} else if m == c16FAll {
			otherFull = true
		}
	}
	if len(covers) == 0 {
		return ""
	}
	maxBits, lens, anyFull, anyFail := -1, map[int]bool{}, false, false
	for _, cv := range covers {
		lens[cv.bits] = true
		if cv.bits > maxBits {
			maxBits = cv.bits
		}
		if cv.full {
			anyFull = true
		} else {
			anyFail = true
		}
	}
	narrowFull, widerFull, sameSlotMixed := false, false, false
	for i, cv := range covers {
		if cv.full && cv.bits == maxBits {
			narrowFull = true
		}
		if cv.full && cv.bits < maxBits {
			widerFull = true
		}
		for _, o := range covers[i+1:] {
			if o.pfx == cv.pfx && o.full != cv.full {
				sameSlotMixed = true
			}
		}
	}
	class := ""
	if len(lens) >= 2 {
		if ns != nil {
			ns.covered2[fam]++
			if len(lens) >= 3 {
				ns.depth3[fam]++
			}
		}
		switch {
		case widerFull && !narrowFull:
			class = "nested remote cidrs: admitted only by a rule whose cidr is less specific than another covering rule's"
			if ns != nil {
				ns.onlyWider[fam]++
			}
		case narrowFull && !widerFull:
			class = "nested remote cidrs: admitted only by the most specific covering rule"
			if ns != nil {
				ns.onlyNarrowest[fam]++
			}
		case anyFull:
			class = "nested remote cidrs: admitted by covering rules of several prefix lengths"
		}
	}
	if sameSlotMixed {
		if class == "" {
			class = "two rules with the same remote cidr, one of them admits"
		}
		if ns != nil {
			ns.samePrefix[fam]++
		}
	}
	if !anyFull && anyFail && otherFull {
		if class == "" {
			class = "a covering cidr rule fails, a groups/host/any rule admits"
		}
		if ns != nil {
			ns.byOtherKind[fam]++
		}
	}
	return class
}

// c16RunSet checks one rule set in one world: builds a fresh real firewall, compares every probe of every peer.
// cov (may be nil) receives per-field matched/unmatched counts; it is only used with single-rule sets.
func c16RunSet(c *mc.Check, l *slog.Logger, cp *cert.CAPool, w *c16World, rules []c16Rule, icmpNumber uint8, phase string, cov *[7][][2]int64, st *c16Stats) {
	fw := c16NewFirewall(l, w.Node)
	for i := range rules {
		if err := rules[i].addTo(fw, icmpNumber); err != nil {
			c.Violation("AddRule refuses a well-formed rule: "+err.Error(), map[string]any{"rule": rules[i].String(), "node": w.Node})
			return
		}
	}
	for pi := range w.Peers {
		p := &w.Peers[pi]
		h := w.Hosts[pi]
		for _, pr := range w.Probes[pi] {
			want := c16RefVerdict(w.Node, rules, p, pr.Pkt, pr.Incoming)
			err := fw.Drop(pr.Pkt, pr.Incoming, h, cp, nil)
			got := err == nil
			st.evals++
			if want {
				st.allow++
			} else {
				st.drop++
			}
			if cov != nil {
				rOK, lOK := c16RefAuthentic(w.Node, p, pr.Pkt)
				if rOK && lOK {
					st.authentic++
					r := &rules[0]
					m, shaOK, nameOK := c16RefMatch(w.Node, r, p, pr.Pkt, pr.Incoming)
					for f := 0; f < 5; f++ {
						b := 0
						if m&(1<<uint(f)) != 0 {
							b = 1
						}
						cov[f][r.idx[f]][b]++
					}
					b := 0
					if nameOK {
						b = 1
					}
					cov[5][r.idx[5]][b]++
					b = 0
					if shaOK {
						b = 1
					}
					cov[6][r.idx[6]][b]++
				}
			}
			if want && st.nest != nil {
				c16NestClass(w.Node, rules, p, pr.Pkt, pr.Incoming, st.nest)
			}
			if got != want {
				why := c16RefWhy(w.Node, rules, p, pr.Pkt, pr.Incoming)
				var sig string
				if got {
					sig = fmt.Sprintf("Drop allows a packet the rules do not admit (%s; %s packet%s)", why, c16ProtoName(pr.Pkt.Protocol), c16FragWord(pr.Pkt))
				} else {
					sig = fmt.Sprintf("Drop refuses a packet a rule admits (%v; %s packet%s)", err, c16ProtoName(pr.Pkt.Protocol), c16FragWord(pr.Pkt))
					if cl := c16NestClass(w.Node, rules, p, pr.Pkt, pr.Incoming, nil); cl != "" && len(rules) > 1 {
						sig += " [" + cl + "]"
					}
				}
				c.Violation(sig, c16Detail(w, rules, p, pr, got, want, why, err, phase))
			}
			if got {
				// "Allowed packets are then tracked."
				fw.Conntrack.Lock()
				_, ok := fw.Conntrack.Conns[pr.Pkt]
				delete(fw.Conntrack.Conns, pr.Pkt) // back to "no connection-tracking state" for the next probe
				fw.Conntrack.Unlock()
				if ok {
					st.tracked++
				} else {
					c.Violation("allowed packet is not tracked in Conntrack.Conns", c16Detail(w, rules, p, pr, got, want, c16RefWhy(w.Node, rules, p, pr.Pkt, pr.Incoming), err, phase))
				}
			} else if len(fw.Conntrack.Conns) != 0 {
				// not part of the statement (C18's subject); only restore the "no connection-tracking state" precondition
				st.leftover++
				fw.Conntrack.Conns = map[firewall.Packet]*conn{}
			}
		}
	}
}

func c16FragWord(p firewall.Packet) string {
	if p.Fragment {
		return ", non-first fragment"
	}
	return ""
}

func c16Detail(w *c16World, rules []c16Rule, p *c16Peer, pr c16Probe, got, want bool, why string, err error, phase string) map[string]any {
	var rs []string
	for _, r := range rules {
		rs = append(rs, r.String())
	}
	return map[string]any{
		"phase": phase, "node": fmt.Sprintf("%+v", w.Node), "rules_in_AddRule_order": rs, "peer": p.String(), "packet": c16PktString(pr),
		"impl_allows": got, "reference_allows": want, "reference_reason": why, "impl_error": fmt.Sprint(err),
		"trusted_CAs": c16PoolNames,
	}
}

func c16Nodes(c *mc.Check) []c16Node {
	v4 := c16Prefixes("10.0.0.1/24")
	dual := c16Prefixes("10.0.0.1/24", "fd00::1/64")
	un := c16Prefixes("172.16.0.0/16")
	nodes := []c16Node{
		{"plain", v4, nil, false},
		{"unsafe", v4, un, false},
		{"unsafe+default_local_cidr_any", v4, un, true},
		{"dualstack+unsafe", dual, un, false},
	}
	if c.Thorough() {
		nodes = append(nodes, c16Node{"plain+default_local_cidr_any", v4, nil, true}, c16Node{"dualstack", dual, nil, false})
	}
	return nodes
}

// peer identities: name x groups x issuer; address shapes A (single address, fast path), B (single, other address),
// C (two addresses + unsafe network, table path)
func c16Peers(full bool) []c16Peer {
	shape := func(p c16Peer, s string) c16Peer {
		p.Shape = s
		switch s {
		case "A":
			p.Networks = c16Prefixes("10.0.0.2/24")
			p.Remotes, p.Spoofs = c16Addrs("10.0.0.2"), c16Addrs("10.0.0.9")
		case "B":
			p.Networks = c16Prefixes("10.0.0.9/24")
			p.Remotes, p.Spoofs = c16Addrs("10.0.0.9"), c16Addrs("10.0.0.2")
		case "C":
			p.Networks = c16Prefixes("10.0.0.2/24", "fd00::2/64")
			p.Unsafe = c16Prefixes("172.17.0.0/16")
			p.Remotes, p.Spoofs = c16Addrs("10.0.0.2", "fd00::2", "172.17.0.5"), c16Addrs("10.0.0.9", "fd00::9", "172.18.0.5")
		}
		return p
	}
	var out []c16Peer
	groupSets := [][]string{nil, {"g1"}, {"g2"}, {"g1", "g2"}}
	for _, name := range []string{"h1", "h2"} {
		for _, gs := range groupSets {
			for _, iss := range []string{"sha1", "sha2", "sha3"} {
				id := c16Peer{Name: name, Groups: gs, Issuer: iss}
				if full {
					out = append(out, shape(id, "A"))
				}
				interesting := (name == "h1" && len(gs) == 1 && gs[0] == "g1" && iss == "sha1") ||
					(name == "h2" && gs == nil && iss == "sha3") ||
					(name == "h1" && len(gs) == 2 && iss == "sha2") ||
					(name == "h2" && len(gs) == 1 && gs[0] == "g2" && iss == "sha1")
				if interesting {
					if !full {
						out = append(out, shape(id, "A"))
					}
					out = append(out, shape(id, "B"), shape(id, "C"))
				}
			}
		}
	}
	return out
}

// ---------------------------------------------------------------------------------------------------------------
// nested / overlapping remote CIDRs (phases 2 and 3)
//
// The remote-CIDR selector is the one rule field whose table (a prefix trie per proto/port/CA bucket) can hold SEVERAL
// entries that apply to the same packet: every rule whose cidr covers the remote address counts, whatever its prefix
// length, each with its own local_cidr. These phases install pairs and triples of rules whose remote CIDRs nest
// (/32 in /29 in /24 in /8 in /0, /128 in /64 in /8 in ::/0, peer unsafe networks), are equal (same trie slot, also equal
// only after masking), are siblings or disjoint, combined with every local_cidr, CA constraint, port bucket and with
// cidr+host / cidr+groups / groups / host / any partners. The oracle is the same flat-list reference as everywhere else.

type c16PP struct {
	Proto string
	Port  c16PortV
}

type c16NestAlpha struct {
	Sels   []c16Sel
	Locals []string
	CAs    [][2]string // (ca_name, ca_sha)
	PPs    []c16PP
}

func (a c16NestAlpha) rules() []c16Rule {
	var out []c16Rule
	for _, pp := range a.PPs {
		for _, ca := range a.CAs {
			for _, lc := range a.Locals {
				for _, s := range a.Sels {
					out = append(out, c16Rule{Proto: pp.Proto, PortKind: pp.Port.Kind, Lo: pp.Port.Lo, Hi: pp.Port.Hi,
						Groups: s.Groups, Host: s.Host, Cidr: s.Cidr, LocalCidr: lc, CAName: ca[0], CASha: ca[1]}.prep())
				}
			}
		}
	}
	return out
}

func c16CidrSels(cidrs ...string) []c16Sel {
	var out []c16Sel
	for _, c := range cidrs {
		out = append(out, c16Sel{Cidr: c})
	}
	return out
}

func c16NestNodes(c *mc.Check) []c16Node {
	v4 := c16Prefixes("10.0.0.1/24")
	dual := c16Prefixes("10.0.0.1/24", "fd00::1/64")
	un := c16Prefixes("172.16.0.0/16")
	un46 := c16Prefixes("172.16.0.0/16", "fd01::/64")
	nodes := []c16Node{
		{"unsafe", v4, un, false},
		{"dualstack+unsafe4+unsafe6", dual, un46, false},
		{"unsafe+default_local_cidr_any", v4, un, true},
	}
	if c.Thorough() {
		nodes = append(nodes, c16Node{"dualstack", dual, nil, false}, c16Node{"dualstack+unsafe4+unsafe6+default_local_cidr_any", dual, un46, true})
	}
	return nodes
}

// peers of the nested phases: four identities (name x groups x issuer) x four address shapes. Shapes A and B take the
// single-address fast path of Drop, C and D the table path (two certified addresses + unsafe networks). The remote
// addresses sit at different depths of the rule CIDR chains: 10.0.0.2 is inside /32 /31 /29 /24 /8 /0, 10.0.0.9 only
// inside /24 /8 /0 (and the sibling 10.0.0.8/29), 172.17.0.5 inside 172.17.0.0/24 /16 and 172.16.0.0/12, 172.17.1.5 not
// inside the /24; fd00::2 inside /128 /64 /8 ::/0, fd00::9 not inside the /128, fd02::5 only inside fd02::/64 and ::/0.
func c16NestPeers() []c16Peer {
	ids := []c16Peer{
		{Name: "h1", Groups: []string{"g1"}, Issuer: "sha1"},
		{Name: "h2", Groups: nil, Issuer: "sha3"},
		{Name: "h1", Groups: []string{"g1", "g2"}, Issuer: "sha2"},
		{Name: "h2", Groups: []string{"g2"}, Issuer: "sha1"},
	}
	var out []c16Peer
	for _, id := range ids {
		a, b, cc, d := id, id, id, id
		a.Shape, a.Networks = "A", c16Prefixes("10.0.0.2/24")
		a.Remotes, a.Spoofs = c16Addrs("10.0.0.2"), c16Addrs("10.0.0.9")
		b.Shape, b.Networks = "B", c16Prefixes("10.0.0.9/24")
		b.Remotes, b.Spoofs = c16Addrs("10.0.0.9"), c16Addrs("10.0.0.2")
		cc.Shape, cc.Networks, cc.Unsafe = "C", c16Prefixes("10.0.0.2/24", "fd00::2/64"), c16Prefixes("172.17.0.0/16")
		cc.Remotes, cc.Spoofs = c16Addrs("10.0.0.2", "fd00::2", "172.17.0.5"), c16Addrs("10.0.0.9", "fd00::9", "172.18.0.5")
		d.Shape, d.Networks, d.Unsafe = "D", c16Prefixes("10.0.0.9/24", "fd00::9/64"), c16Prefixes("172.17.0.0/16", "fd02::/64")
		d.Remotes, d.Spoofs = c16Addrs("10.0.0.9", "fd00::9", "172.17.1.5", "172.17.0.5", "fd02::5"), c16Addrs("10.0.0.2", "fd00::2")
		out = append(out, a, b, cc, d)
	}
	return out
}

// c16NestWorld: probes = every (remote, same-family local) address pair that is authentic in this node configuration x
// {tcp, icmp} x {(80,79), (79,80)} x both directions; one tcp probe per direction for every address pair that is not
// authentic (spoofed remote, remote outside the node's networks, local address not the node's): refused whatever the rules.
func c16NestWorld(n c16Node, peers []c16Peer) *c16World {
	w := &c16World{Node: n, Peers: peers}
	locals4 := c16Addrs("10.0.0.1", "172.16.0.7", "10.0.0.77")
	locals6 := c16Addrs("fd00::1", "fd01::7", "fd00::77")
	ports := [][2]uint16{{80, 79}, {79, 80}}
	for pi := range peers {
		p := &peers[pi]
		w.Hosts = append(w.Hosts, c16HostInfo(n, *p))
		var out []c16Probe
		for _, ra := range append(append([]netip.Addr{}, p.Remotes...), p.Spoofs...) {
			locals := locals4
			if ra.Is6() {
				locals = locals6
			}
			for _, la := range locals {
				rOK, lOK := c16RefAuthentic(n, p, firewall.Packet{RemoteAddr: ra, LocalAddr: la})
				protos, pps := []uint8{firewall.ProtoTCP, firewall.ProtoICMP}, ports
				if !rOK || !lOK {
					protos, pps = protos[:1], ports[:1]
				}
				for _, proto := range protos {
					for _, pp := range pps {
						for _, inc := range []bool{true, false} {
							out = append(out, c16Probe{firewall.Packet{LocalAddr: la, RemoteAddr: ra, LocalPort: pp[0], RemotePort: pp[1], Protocol: proto}, inc})
						}
					}
				}
			}
		}
		w.Probes = append(w.Probes, out)
	}
	return w
}

// c16Budget: the soft budget in seconds (bin/vcheck always exports VERIF_BUDGET_S); used to give every phase a share.
func c16Budget(c *mc.Check) float64 {
	if f, err := strconv.ParseFloat(os.Getenv("VERIF_BUDGET_S"), 64); err == nil && f > 0 {
		return f
	}
	return mc.Pick(c, 45.0, 900.0)
}

func TestVerifC16(t *testing.T) {
	c := mc.Begin(t, "C16", "exploration")
	defer c.End()
	l := slog.New(slog.DiscardHandler)
	cp := c16CAPool()

	c.Assume("ICMP ignores ports is read as: a proto:icmp rule ignores its port; a proto:any rule admits an ICMP packet only when its port is any (a rule asking for port 80 or for fragments does not describe ICMP traffic). The statement is silent on that case.")
	c.Assume("ca_name and ca_sha given together are alternatives (documented: port AND proto AND (ca_sha OR ca_name) AND ...); proto icmp covers ICMP and ICMPv6")
	c.Assume("local_cidr omitted means: the node's own overlay networks, or anything when the node has no unsafe networks or default_local_cidr_any is set (documented in examples/config.yml)")
	c.Assume("rule sets larger than 3 rules, port ranges other than the enumerated ones and addresses outside the alphabet are not explored; AddRule is called directly (config text is C22's subject)")

	nodes := c16Nodes(c)

	// ---- alphabets
	full := c16Alpha{
		Dirs:   []bool{true, false},
		Protos: []string{"tcp", "any", "udp", "icmp"},
		Ports:  []c16PortV{{c16PortRange, 80, 80}, {c16PortAny, 0, 0}, {c16PortRange, 80, 81}, {c16PortFragment, 0, 0}},
		Sels: []c16Sel{
			{Groups: []string{"g1"}},
			{Wild: true}, // nothing listed
			{Groups: []string{"g1", "g2"}},
			{Groups: []string{"g1", "any"}, Wild: true},
			{Host: "h1"},
			{Host: "any", Wild: true},
			{Cidr: "10.0.0.0/29"},
			{Cidr: "any", Wild: true},
			{Cidr: "::/0"},
			{Groups: []string{"g1"}, Host: "h2"},
			{Host: "h1", Cidr: "172.17.0.0/16"},
			{Groups: []string{"g2", "g1"}, Cidr: "10.0.0.0/29"},
			{Cidr: "0.0.0.0/0"},
			{Groups: []string{"g2"}, Host: "any", Wild: true},
		},
		Locals:  []string{"", "any", "10.0.0.1/32", "172.16.0.0/16"},
		CANames: []string{"", "caN1", "caN2"},
		CAShas:  []string{"", "sha1", "sha3"},
	}
	if c.Thorough() {
		full.Ports = append(full.Ports, c16PortV{c16PortRange, 1, 1024})
		full.Locals = append(full.Locals, "fd00::/64")
	}
	pairA := full // rules with <= 2 fields different from the base rule (in tcp 80 [g1] "" no-CA)
	if c.Thorough() {
		pairA.Ports = full.Ports[:4]
		pairA.Locals = full.Locals[:4]
		pairA.Sels = []c16Sel{full.Sels[0], full.Sels[1], full.Sels[2], full.Sels[4], full.Sels[6], full.Sels[5], full.Sels[9], full.Sels[3], full.Sels[8]}
	}
	if !c.Thorough() {
		pairA.Protos = []string{"tcp", "any", "icmp"}
		pairA.Ports = full.Ports[:3]
		pairA.Sels = []c16Sel{full.Sels[0], full.Sels[1], full.Sels[2], full.Sels[4], full.Sels[6], full.Sels[5]}
		pairA.Locals = []string{"", "172.16.0.0/16", "10.0.0.1/32"}
		pairA.CANames = []string{"", "caN1"}
		pairA.CAShas = []string{"", "sha1"}
	}
	tripleA := full // rules with <= 1 field different from the base rule
	tripleA.Ports = full.Ports[:4]
	tripleA.Sels = []c16Sel{full.Sels[0], full.Sels[1], full.Sels[2], full.Sels[4], full.Sels[6], full.Sels[5], full.Sels[9]}
	tripleA.Locals = []string{"", "172.16.0.0/16", "10.0.0.1/32"}
	if !c.Thorough() {
		tripleA.Protos = []string{"tcp", "any", "icmp"}
		tripleA.Ports = full.Ports[:3]
		tripleA.Sels = tripleA.Sels[:5]
		tripleA.Locals = tripleA.Locals[:2]
		tripleA.CANames = []string{"", "caN1"}
		tripleA.CAShas = []string{"", "sha1"}
	}

	singles := full.rules(mc.Pick(c, 3, -1)) // quick: rules within three field changes of the base rule; thorough: the whole product
	pairRules := pairA.rules(2)
	tripleRules := tripleA.rules(1)

	// ---- packets
	paFull := c16PacketAlpha{
		Protos:  []uint8{firewall.ProtoTCP, firewall.ProtoUDP, firewall.ProtoICMP, firewall.ProtoICMPv6, 47},
		Ports:   [][2]uint16{{80, 79}, {79, 80}, {81, 80}, {80, 81}, {82, 80}, {80, 82}},
		Frags:   []bool{false, true},
		Locals4: c16Addrs("10.0.0.1", "172.16.0.7"), Foreign4: netip.MustParseAddr("10.0.0.77"),
		Locals6: c16Addrs("fd00::1"), Foreign6: netip.MustParseAddr("fd00::77"),
	}
	if c.Thorough() {
		paFull.Ports = append(paFull.Ports, [2]uint16{0, 80}, [2]uint16{80, 0}, [2]uint16{65535, 1}, [2]uint16{1, 65535})
	}
	paSmall := c16PacketAlpha{
		Protos:  []uint8{firewall.ProtoTCP, firewall.ProtoUDP, firewall.ProtoICMP},
		Ports:   [][2]uint16{{80, 79}, {79, 80}, {81, 80}, {80, 81}},
		Frags:   []bool{false, true},
		Locals4: c16Addrs("10.0.0.1", "172.16.0.7"), Foreign4: netip.MustParseAddr("10.0.0.77"),
		Locals6: c16Addrs("fd00::1"), Foreign6: netip.MustParseAddr("fd00::77"),
	}
	if c.Thorough() {
		paSmall.Protos = append(paSmall.Protos, firewall.ProtoICMPv6, 47)
	}

	var worldsFull, worldsSmall []*c16World
	for _, n := range nodes {
		worldsFull = append(worldsFull, c16MakeWorld(n, c16Peers(true), paFull))
		worldsSmall = append(worldsSmall, c16MakeWorld(n, c16Peers(false), paSmall))
	}
	c.Set("alphabet", map[string]any{
		"nodes": len(nodes), "single_rules": len(singles), "pair_alphabet_rules": len(pairRules), "triple_alphabet_rules": len(tripleRules),
		"peers_full": len(worldsFull[0].Peers), "peers_small": len(worldsSmall[0].Peers),
		"probes_per_world_full": worldsFull[0].size(), "probes_per_world_small": worldsSmall[0].size(),
		"rule_fields": full.sizes(),
	})

	var total c16Stats
	total.nest = &c16NestStats{}
	var totalMu sync.Mutex
	worldsBoth := int64(0) // (rule set, world) combinations in which both verdicts were produced
	addStats := func(s *c16Stats) {
		totalMu.Lock()
		total.evals += s.evals
		total.allow += s.allow
		total.drop += s.drop
		total.authentic += s.authentic
		total.tracked += s.tracked
		total.leftover += s.leftover
		if s.nest != nil {
			total.nest.add(s.nest)
		}
		if s.allow > 0 && s.drop > 0 {
			worldsBoth++
		}
		totalMu.Unlock()
	}
	// every phase may run until its cumulative share of the soft budget is used up (a phase that finishes early leaves its
	// time to the later ones), so that a capped run has still seen every family of rule sets
	budget := c16Budget(c)
	allDone := true
	phaseStop := func(share float64) func() bool {
		return func() bool { return c.OutOfTime() || c.Elapsed() > share*budget || c.Violations() > 200 }
	}
	stop := phaseStop(0.30)

	// ---- phase 1: every single rule, in every world, full probes; per-field coverage
	cov := &c16Cov{}
	sz := full.sizes()
	for f := range cov.hit {
		cov.hit[f] = make([][2]int64, sz[f])
	}
	nW := len(worldsFull)
	_, done := mc.ParallelItems(len(singles)*nW, 0, stop, func(i int, _ *mc.Enum) {
		r := singles[i/nW]
		w := worldsFull[i%nW]
		var local [7][][2]int64
		for f := range local {
			local[f] = make([][2]int64, sz[f])
		}
		var st c16Stats
		icmp := uint8(firewall.ProtoICMP)
		if (i/nW)%2 == 1 {
			icmp = firewall.ProtoICMPv6
		}
		c16RunSet(c, l, cp, w, []c16Rule{r}, icmp, "single", &local, &st)
		cov.merge(&local)
		addStats(&st)
		c.Add("rule_sets_single", 1)
	})
	if !done {
		allDone = false
		c.Capped("single-rule phase stopped early (time budget or too many violations)")
	}
	phase1 := total

	// ---- phase 2: pairs of rules whose remote CIDRs nest / coincide / are disjoint, x local_cidr x CA x port bucket x
	// selector kind (see the comment at c16NestAlpha)
	nestA := c16NestAlpha{
		Sels: append(c16CidrSels("0.0.0.0/0", "10.0.0.0/8", "10.0.0.0/24", "10.0.0.0/29", "10.0.0.2/32", "172.17.0.0/16", "172.17.0.0/24", "::/0", "fd00::/64", "fd00::2/128"),
			c16Sel{Host: "h1", Cidr: "10.0.0.0/8"}, c16Sel{Groups: []string{"g1"}, Cidr: "10.0.0.0/24"},
			c16Sel{Groups: []string{"g1"}}, c16Sel{Host: "h1"}, c16Sel{Cidr: "any", Wild: true}),
		Locals: []string{"", "any", "172.16.0.0/16", "10.0.0.1/32"},
		CAs:    [][2]string{{"", ""}, {"caN1", ""}, {"", "sha1"}},
		PPs:    []c16PP{{"tcp", c16PortV{c16PortRange, 80, 80}}, {"any", c16PortV{c16PortAny, 0, 0}}},
	}
	if c.Thorough() {
		nestA.Sels = append(nestA.Sels, c16CidrSels("10.0.0.8/29", "10.0.0.9/24", "10.0.0.2/31", "172.16.0.0/12", "fd00::/8", "fd02::/64")...)
		nestA.Sels = append(nestA.Sels, c16Sel{Host: "h2", Cidr: "fd00::/64"}, c16Sel{Groups: []string{"g1", "g2"}, Cidr: "172.17.0.0/16"})
		nestA.Locals = append(nestA.Locals, "fd00::/64", "fd01::/64")
		nestA.CAs = append(nestA.CAs, [2]string{"", "sha3"})
	}
	nestT := c16NestAlpha{ // triples
		Sels:   append(c16CidrSels("10.0.0.0/8", "10.0.0.0/24", "10.0.0.2/32", "::/0", "fd00::/64", "fd00::2/128"), c16Sel{Groups: []string{"g1"}}),
		Locals: []string{"", "any", "172.16.0.0/16"},
		CAs:    [][2]string{{"", ""}, {"caN1", ""}},
		PPs:    nestA.PPs[:1],
	}
	if c.Thorough() {
		nestT.Sels = append(nestT.Sels, c16CidrSels("10.0.0.0/29", "172.17.0.0/16", "172.17.0.0/24")...)
		nestT.Locals = append(nestT.Locals, "10.0.0.1/32")
	}
	nestRules, nestTriple := nestA.rules(), nestT.rules()
	var nestWorlds []*c16World
	for _, n := range c16NestNodes(c) {
		nestWorlds = append(nestWorlds, c16NestWorld(n, c16NestPeers()))
	}
	nestProbes := 0
	for _, w := range nestWorlds {
		nestProbes += w.size()
	}
	c.Set("nested_cidr_alphabet", map[string]any{"pair_rules": len(nestRules), "triple_rules": len(nestTriple), "selectors": len(nestA.Sels), "local_cidrs": len(nestA.Locals),
		"ca_constraints": len(nestA.CAs), "port_buckets": len(nestA.PPs), "nodes": len(nestWorlds), "peers": len(nestWorlds[0].Peers), "probes_all_worlds": nestProbes})
	runNest := func(set []c16Rule, incoming bool, phase string) {
		for i := range set {
			set[i].Incoming = incoming
		}
		for _, w := range nestWorlds {
			st := c16Stats{nest: &c16NestStats{}}
			c16RunSet(c, l, cp, w, set, firewall.ProtoICMP, phase, nil, &st)
			addStats(&st)
		}
	}
	// quick: every unordered pair (incl. the same rule twice), AddRule order and direction alternating; thorough: every
	// ordered pair in both directions
	nN := len(nestRules)
	stop = phaseStop(0.55)
	_, done = mc.ParallelItems(nN, 0, stop, func(i int, _ *mc.Enum) {
		for j := mc.Pick(c, i, 0); j < nN && !stop(); j++ {
			a, b := nestRules[i], nestRules[j]
			if c.Thorough() {
				runNest([]c16Rule{a, b}, true, "nested-cidr pair")
				runNest([]c16Rule{a, b}, false, "nested-cidr pair")
				c.Add("rule_sets_nested_pair", 2)
				continue
			}
			if (i+j)&1 == 1 {
				a, b = b, a
			}
			runNest([]c16Rule{a, b}, (i+j)&2 == 0, "nested-cidr pair")
			c.Add("rule_sets_nested_pair", 1)
		}
	})
	if !done || stop() {
		allDone = false
		c.Capped("nested-cidr pair phase stopped early (time budget or too many violations)")
	}

	// ---- phase 3: triples over the smaller nested alphabet (quick: i <= j <= k, rotated order; thorough: every ordered triple)
	nNT := len(nestTriple)
	stop = phaseStop(0.65)
	_, done = mc.ParallelItems(nNT*nNT, 0, stop, func(ij int, _ *mc.Enum) {
		i, j := ij/nNT, ij%nNT
		if !c.Thorough() && j < i {
			return
		}
		for k := mc.Pick(c, j, 0); k < nNT && !stop(); k++ {
			set := []c16Rule{nestTriple[i], nestTriple[j], nestTriple[k]}
			if !c.Thorough() {
				for r := (i + j + k) % 3; r > 0; r-- {
					set = append(set[1:], set[0])
				}
			}
			runNest(set, (i+j+k)&1 == 0, "nested-cidr triple")
			c.Add("rule_sets_nested_triple", 1)
		}
	})
	if !done || stop() {
		allDone = false
		c.Capped("nested-cidr triple phase stopped early (time budget or too many violations)")
	}
	stop = phaseStop(0.85)

	// ---- phase 4: every ordered pair (AddRule order matters for the shared table slots), incl. the same rule twice
	nP := len(pairRules)
	_, done = mc.ParallelItems(nP*nP, 0, stop, func(i int, _ *mc.Enum) {
		set := []c16Rule{pairRules[i/nP], pairRules[i%nP]}
		for _, w := range worldsSmall {
			var st c16Stats
			c16RunSet(c, l, cp, w, set, firewall.ProtoICMP, "pair", nil, &st)
			addStats(&st)
		}
		c.Add("rule_sets_pair", 1)
	})
	if !done {
		allDone = false
		c.Capped("pair phase stopped early (time budget or too many violations)")
	}
	stop = phaseStop(1.0)

	// ---- phase 5: every ordered triple of the small alphabet
	nT := len(tripleRules)
	_, done = mc.ParallelItems(nT*nT*nT, 0, stop, func(i int, _ *mc.Enum) {
		set := []c16Rule{tripleRules[i/(nT*nT)], tripleRules[(i/nT)%nT], tripleRules[i%nT]}
		for _, w := range worldsSmall {
			var st c16Stats
			c16RunSet(c, l, cp, w, set, firewall.ProtoICMP, "triple", nil, &st)
			addStats(&st)
		}
		c.Add("rule_sets_triple", 1)
	})
	if !done {
		allDone = false
		c.Capped("triple phase stopped early (time budget or too many violations)")
	}

	// ---- phase 0 (cheap): the empty rule set admits nothing
	for _, w := range worldsFull {
		var st c16Stats
		c16RunSet(c, l, cp, w, nil, firewall.ProtoICMP, "empty", nil, &st)
		addStats(&st)
	}

	// ---- vacuity guards
	if c.Violations() == 0 && allDone {
		labels := [7]func(int) string{
			func(i int) string { return fmt.Sprintf("dir incoming=%v", full.Dirs[i]) },
			func(i int) string { return "proto " + full.Protos[i] },
			func(i int) string { return fmt.Sprintf("port %+v", full.Ports[i]) },
			func(i int) string { return fmt.Sprintf("selector %+v", full.Sels[i]) },
			func(i int) string { return fmt.Sprintf("local_cidr %q", full.Locals[i]) },
			func(i int) string { return fmt.Sprintf("ca_name %q", full.CANames[i]) },
			func(i int) string { return fmt.Sprintf("ca_sha %q", full.CAShas[i]) },
		}
		wild := func(f, i int) bool {
			switch f {
			case 1:
				return full.Protos[i] == "any"
			case 2:
				return full.Ports[i].Kind == c16PortAny
			case 3:
				return full.Sels[i].Wild
			case 4:
				return full.Locals[i] == "any"
			}
			return false
		}
		both := 0
		for f := 0; f < 7; f++ {
			for i := range cov.hit[f] {
				h := cov.hit[f][i]
				if f >= 5 && i == 0 { // ca_name / ca_sha not given: nothing to match
					continue
				}
				c.Require(h[1] > 0, "%s was never matched by an authentic packet", labels[f](i))
				if !wild(f, i) {
					c.Require(h[0] > 0, "%s was never unmatched by an authentic packet", labels[f](i))
					both++
				}
			}
		}
		c.Set("rule_field_values_matched_and_unmatched", both)
		c.Require(total.allow > 0 && total.drop > 0, "both verdicts must occur (allow=%d drop=%d)", total.allow, total.drop)
		c.Require(total.tracked == total.allow, "every allowed packet was looked up in conntrack (tracked=%d allow=%d)", total.tracked, total.allow)
		c.Require(phase1.authentic > 0, "no authentic packets in phase 1")
		// nested phases: the situations in which the covering prefixes of a remote address disagree really occurred, for
		// both address families
		ns := total.nest
		for fam, name := range []string{"IPv4", "IPv6"} {
			c.Require(ns.onlyWider[fam] > 0, "%s: no packet admitted only by a less specific covering cidr rule", name)
			c.Require(ns.onlyNarrowest[fam] > 0, "%s: no packet admitted only by the most specific covering cidr rule", name)
			c.Require(ns.samePrefix[fam] > 0, "%s: no packet decided between two rules with the same remote cidr", name)
			c.Require(ns.byOtherKind[fam] > 0, "%s: no packet admitted by a groups/host/any rule next to a failing covering cidr rule", name)
			c.Require(ns.depth3[fam] > 0, "%s: no remote address covered by three prefix lengths", name)
		}
	}

	var ru syscall.Rusage
	if syscall.Getrusage(syscall.RUSAGE_SELF, &ru) == nil { // the box is shared: CPU seconds, not wall time, size the tiers
		c.Set("cpu_seconds", float64(ru.Utime.Sec+ru.Stime.Sec)+float64(ru.Utime.Usec+ru.Stime.Usec)/1e6)
	}
	c.Set("evaluations", total.evals)
	c.Set("distinct_nontrivial", total.allow)
	c.Set("rule", "one evaluation = (node config, ordered rule list, peer, packet, direction): distinct by construction (products of duplicate-free alphabets, each rule list enumerated once per world). Non-trivial = the reference admits the packet, i.e. both addresses are authentic AND some rule matches in all six conditions (direction, proto, port, CA, local_cidr, selector); the rest are evaluations where Drop must refuse.")
	c.Set("verdict_allow", total.allow)
	c.Set("verdict_drop", total.drop)
	c.Set("distinct_outcomes", 2)
	c.Set("rule_sets_with_both_verdicts", worldsBoth)
	c.Set("allowed_and_tracked", total.tracked)
	c.Set("conntrack_entries_left_by_dropped_packets", total.leftover)
	c.Set("nested_cidr_situations_v4_v6", map[string]any{
		"remote_covered_by_2+_prefix_lengths": total.nest.covered2, "covered_by_3_prefix_lengths": total.nest.depth3,
		"admitted_only_by_less_specific_rule": total.nest.onlyWider, "admitted_only_by_most_specific_rule": total.nest.onlyNarrowest,
		"same_cidr_two_rules_one_admits": total.nest.samePrefix, "cidr_rule_fails_other_selector_admits": total.nest.byOtherKind,
	})

	// samples: real cases
	w := worldsFull[1]
	for _, k := range []int{0, len(singles) / 3, len(singles) - 1} {
		r := singles[k]
		p := &w.Peers[k%len(w.Peers)]
		pr := w.Probes[k%len(w.Peers)][k%len(w.Probes[k%len(w.Peers)])]
		want, why := c16RefVerdict(w.Node, []c16Rule{r}, p, pr.Pkt, pr.Incoming), c16RefWhy(w.Node, []c16Rule{r}, p, pr.Pkt, pr.Incoming)
		c.Sample(map[string]any{"node": w.Node.Label, "rules": []string{r.String()}, "peer": p.String(), "packet": c16PktString(pr), "reference_allows": want, "reason": why})
	}
}
