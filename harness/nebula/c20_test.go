//go:build verif

package nebula

import (
	"encoding/binary"
	"encoding/hex"
	"fmt"
	"net/netip"
	"runtime"
	"runtime/debug"
	"sort"
	"sync"
	"sync/atomic"
	"testing"

	"github.com/google/gopacket"
	"github.com/google/gopacket/layers"
	"github.com/slackhq/nebula/firewall"
	"github.com/slackhq/nebula/iputil"
	"github.com/slackhq/nebula/zzverif/mc"
)

// C20 — packet classification matches what the host will process.
//
// Differential, bounded-exhaustive (E3): the real newPacket/parseV4/parseV6 (and iputil.IPv6FindUpperProtocol directly)
// against an independent IPv4/IPv6 header walker written below (byte loops, no limit on the number of extension
// headers other than the buffer). Families: every byte string of <=2 (thorough: <=3) bytes; every 1-edit mutant
// (substitution, insertion, deletion, truncation) of 40 well-formed seeds; full 16-bit sweeps of the value-carrying
// header byte pairs; structured IPv4 (IHL x fragment field x protocol x ICMP type x every truncation) and structured
// IPv6 (extension header chains of length 0..10 x upper protocol x declared lengths x truncations).
//
// Oracle: no panic; a reject is always allowed ("either rejects"); an accept must be resolvable by the reference and
// agree with it on every field the reference defines, oriented for the direction; for IPv6 Protocol is never an
// extension-header number (except the fragmented-protocol field of a non-first fragment, see assumptions).

// ---------------------------------------------------------------------------------------------------------------------
// reference parser

const (
	c20WhyEmpty    = "the buffer is empty"
	c20WhyVersion  = "the IP version is neither 4 nor 6"
	c20WhyV4Short  = "the buffer is shorter than an IPv4 header"
	c20WhyV4IHL    = "the IPv4 IHL is below 5"
	c20WhyV4Opts   = "the IPv4 header (IHL) does not fit in the buffer"
	c20WhyV6Short  = "the buffer is shorter than an IPv6 header"
	c20WhyChain    = "the extension header chain is cut by the end of the buffer"
	c20WhyUpper    = "the upper-layer header starts beyond the end of the buffer"
	c20WhyPorts    = "the TCP/UDP ports are not in the buffer"
	c20WhyICMPType = "the ICMP type is not in the buffer"
	c20WhyICMPID   = "the ICMP echo identifier is not in the buffer"
)

func c20IsExt(nh uint8) bool { return nh == 0 || nh == 43 || nh == 60 || nh == 44 || nh == 51 }

func c20KindBit(nh uint8) uint8 {
	switch nh {
	case 0:
		return 1
	case 43:
		return 2
	case 60:
		return 4
	case 44:
		return 8
	case 51:
		return 16
	}
	return 0
}

// c20Walk is the reference result for the IPv6 extension header chain alone.
type c20Walk struct {
	ok       bool
	why      string
	proto    uint8
	off      int // start of the upper-layer header (undefined for a non-first fragment)
	nonFirst bool
	fragAny  bool
	n        int   // extension headers walked
	kinds    uint8 // c20KindBit set of the walked headers
}

// c20WalkV6 walks hop-by-hop (0), routing (43), destination (60), fragment (44) and AH (51) headers for as long as the
// buffer lasts. Everything else is an upper-layer protocol.
func c20WalkV6(d []byte) c20Walk {
	var r c20Walk
	if len(d) < 40 {
		r.why = c20WhyV6Short
		return r
	}
	nh := d[6]
	off := 40
	for c20IsExt(nh) {
		r.kinds |= c20KindBit(nh)
		switch nh {
		case 44:
			if off+8 > len(d) {
				r.why = c20WhyChain
				return r
			}
			r.n++
			r.fragAny = true
			fragOff := (uint16(d[off+2])<<8 | uint16(d[off+3])) >> 3
			if fragOff != 0 {
				r.ok, r.nonFirst, r.proto, r.off = true, true, d[off], off
				return r
			}
			nh, off = d[off], off+8
		case 51:
			if off+2 > len(d) {
				r.why = c20WhyChain
				return r
			}
			r.n++
			nh, off = d[off], off+(int(d[off+1])+2)*4
		default:
			if off+2 > len(d) {
				r.why = c20WhyChain
				return r
			}
			r.n++
			nh, off = d[off], off+(int(d[off+1])+1)*8
		}
	}
	if off > len(d) {
		r.why = c20WhyUpper
		return r
	}
	r.ok, r.proto, r.off = true, nh, off
	return r
}

// c20Ref is what the independent parser finds. Fields guarded by a *Def flag are compared only when defined.
type c20Ref struct {
	ok        bool
	why       string
	ver       int
	src, dst  netip.Addr
	proto     uint8
	hdrLen    int
	hdrLenDef bool
	nonFirst  bool
	fragAny   bool
	portsDef  bool // TCP/UDP ports
	sport     uint16
	dport     uint16
	isICMP    bool // ICMP (v4) / ICMPv6 (v6)
	idDef     bool // echo-style identifier
	icmpID    uint16
	walk      c20Walk
}

func c20ICMPv4HasID(t uint8) bool {
	switch t {
	case 0, 8, 13, 14, 15, 16, 17, 18: // echo, timestamp, information, address mask (request/reply)
		return true
	}
	return false
}

func c20Reference(d []byte) c20Ref {
	var r c20Ref
	if len(d) == 0 {
		r.why = c20WhyEmpty
		return r
	}
	switch d[0] >> 4 {
	case 4:
		r.ver = 4
		if len(d) < 20 {
			r.why = c20WhyV4Short
			return r
		}
		ihl := int(d[0]&0x0f) * 4
		if ihl < 20 {
			r.why = c20WhyV4IHL
			return r
		}
		if len(d) < ihl {
			r.why = c20WhyV4Opts
			return r
		}
		r.src = netip.AddrFrom4([4]byte{d[12], d[13], d[14], d[15]})
		r.dst = netip.AddrFrom4([4]byte{d[16], d[17], d[18], d[19]})
		r.proto = d[9]
		r.hdrLen, r.hdrLenDef = ihl, true
		fragOff := (uint16(d[6])&0x1f)<<8 | uint16(d[7])
		moreFrags := d[6]&0x20 != 0
		r.nonFirst = fragOff != 0
		r.fragAny = moreFrags || fragOff != 0
		if r.nonFirst {
			r.ok = true
			return r
		}
		switch r.proto {
		case 6, 17:
			if len(d) < ihl+4 {
				r.why = c20WhyPorts
				return r
			}
			r.portsDef = true
			r.sport = uint16(d[ihl])<<8 | uint16(d[ihl+1])
			r.dport = uint16(d[ihl+2])<<8 | uint16(d[ihl+3])
		case 1:
			r.isICMP = true
			if len(d) < ihl+1 {
				r.why = c20WhyICMPType
				return r
			}
			if c20ICMPv4HasID(d[ihl]) {
				if len(d) < ihl+6 {
					r.why = c20WhyICMPID
					return r
				}
				r.idDef = true
				r.icmpID = uint16(d[ihl+4])<<8 | uint16(d[ihl+5])
			}
		}
		r.ok = true
		return r
	case 6:
		r.ver = 6
		w := c20WalkV6(d)
		r.walk = w
		if !w.ok {
			r.why = w.why
			return r
		}
		var a, b [16]byte
		copy(a[:], d[8:24])
		copy(b[:], d[24:40])
		r.src, r.dst = netip.AddrFrom16(a), netip.AddrFrom16(b)
		r.proto, r.nonFirst, r.fragAny = w.proto, w.nonFirst, w.fragAny
		if w.nonFirst {
			r.ok = true
			return r
		}
		off := w.off
		r.hdrLen, r.hdrLenDef = off, true
		switch r.proto {
		case 6, 17:
			if len(d) < off+4 {
				r.why = c20WhyPorts
				return r
			}
			r.portsDef = true
			r.sport = uint16(d[off])<<8 | uint16(d[off+1])
			r.dport = uint16(d[off+2])<<8 | uint16(d[off+3])
		case 58:
			r.isICMP = true
			if len(d) < off+1 {
				r.why = c20WhyICMPType
				return r
			}
			if d[off] == 128 || d[off] == 129 {
				if len(d) < off+6 {
					r.why = c20WhyICMPID
					return r
				}
				r.idDef = true
				r.icmpID = uint16(d[off+4])<<8 | uint16(d[off+5])
			}
		}
		r.ok = true
		return r
	}
	r.why = c20WhyVersion
	return r
}

// ---------------------------------------------------------------------------------------------------------------------
// workers, statistics, violation collection

const (
	c20nEvals = iota
	c20nBothAccept4
	c20nBothAccept6
	c20nBothReject
	c20nImplRejectOnly
	c20nNonTrivial
	c20nViolating
	c20nFragNonFirst4
	c20nFragFirst4
	c20nFragNonFirst6
	c20nFragFirst6
	c20nPorts
	c20nICMPID
	c20nIn
	c20nOut
	c20nWalkerCalls
	c20nWalkerOK
	c20nWalkerErr
	c20nNonFirstExtNext
	c20nV4PortlessNonzero
	c20nCounters
)

type c20Viol struct {
	sig    string
	rank   int // 0: the reference resolves the input completely (most convincing), 1: it does not
	data   []byte
	detail map[string]any
}

func (v *c20Viol) better(rank int, d []byte) bool { // is (rank, d) a smaller counterexample than v?
	if rank != v.rank {
		return rank < v.rank
	}
	if len(d) != len(v.data) {
		return len(d) < len(v.data)
	}
	return string(d) < string(v.data)
}

type c20Worker struct {
	n           [c20nCounters]int64
	fam         map[string]int64
	famCur      string
	outcomes    map[uint64]struct{}
	viol        map[string]*c20Viol
	kindsAcc    uint8           // extension header kinds walked in a both-accept case
	protoAcc    map[uint16]bool // ver<<8|proto accepted by both
	maxExtAcc   int
	samples     map[string][]any // per family
	fp          firewall.ParsedPacket
	ref         c20Ref
	ctxIncoming bool
	famDistinct bool
	ctxRef      *c20Ref
	ctxPanic    any
	wk          c20WalkCtx
	seen        *c20Bitmap
}

// c20Bitmap: lower-bound distinct counter. A hash whose bit is already set counts as a duplicate.
type c20Bitmap struct {
	words []atomic.Uint64
	mask  uint64
}

func newC20Bitmap(log2bits uint) *c20Bitmap {
	return &c20Bitmap{words: make([]atomic.Uint64, 1<<(log2bits-6)), mask: 1<<log2bits - 1}
}

func (b *c20Bitmap) add(h uint64) bool {
	i := h & b.mask
	bit := uint64(1) << (i & 63)
	return b.words[i>>6].Or(bit)&bit == 0
}

func c20Hash(d []byte, incoming bool) uint64 {
	h := uint64(0x9e3779b97f4a7c15) ^ uint64(len(d))*0xff51afd7ed558ccd
	if incoming {
		h ^= 0xc4ceb9fe1a85ec53
	}
	i := 0
	for ; i+8 <= len(d); i += 8 {
		h ^= binary.LittleEndian.Uint64(d[i:])
		h *= 0x9fb21c651e98df25
		h ^= h >> 29
	}
	for ; i < len(d); i++ {
		h ^= uint64(d[i])
		h *= 0x100000001b3
	}
	h ^= h >> 32
	h *= 0xd6e8feb86659fd93
	h ^= h >> 32
	return h
}

var (
	c20PoisonA = netip.MustParseAddr("203.0.113.77")
	c20PoisonB = netip.MustParseAddr("2001:db8:dead::beef")
)

// c20Call runs the real newPacket on a poisoned (reused) ParsedPacket.
func c20Call(d []byte, incoming bool, fp *firewall.ParsedPacket) (err error, panicked any) {
	defer func() {
		if p := recover(); p != nil {
			panicked = p
		}
	}()
	fp.LocalAddr, fp.RemoteAddr = c20PoisonA, c20PoisonB
	fp.LocalPort, fp.RemotePort = 0xdead, 0xbeef
	fp.Protocol, fp.Fragment = 0xee, !fp.Fragment
	fp.IPHdrLen, fp.FragAny = -7, !fp.FragAny
	return newPacket(d, incoming, fp), nil
}

func c20CallWalker(d []byte) (p uint8, off int, isFrag, anyFrag bool, err error, panicked any) {
	defer func() {
		if r := recover(); r != nil {
			panicked = r
		}
	}()
	p, off, isFrag, anyFrag, err = iputil.IPv6FindUpperProtocol(d)
	return
}

func c20Ver(d []byte) string {
	if len(d) == 0 {
		return "empty"
	}
	switch d[0] >> 4 {
	case 4:
		return "v4"
	case 6:
		return "v6"
	}
	return "v?"
}

// detail kinds for report (context lives in worker fields: no closure is allocated on the hot path)
const (
	c20DetPacket = iota // w.ctxIncoming / w.ctxRef / w.ctxFp
	c20DetWalker        // w.wk
)

type c20WalkCtx struct {
	p               uint8
	off             int
	isFrag, anyFrag bool
	err             error
	panicked        any
	rw              c20Walk
}

func (w *c20Worker) detail(kind int) map[string]any {
	if kind == c20DetWalker {
		k := &w.wk
		m := map[string]any{"site": "iputil.IPv6FindUpperProtocol", "impl": map[string]any{"proto": k.p, "offset": k.off, "isFragment": k.isFrag, "anyFragment": k.anyFrag, "err": fmt.Sprint(k.err)},
			"reference": map[string]any{"ok": k.rw.ok, "why": k.rw.why, "proto": k.rw.proto, "offset": k.rw.off, "non_first_fragment": k.rw.nonFirst, "any_fragment": k.rw.fragAny, "ext_headers_walked": k.rw.n}}
		if k.panicked != nil {
			m["panic"] = fmt.Sprint(k.panicked)
		}
		return m
	}
	m := map[string]any{"incoming": w.ctxIncoming, "reference": c20RefJSON(w.ctxRef)}
	if w.ctxPanic != nil {
		m["panic"] = fmt.Sprint(w.ctxPanic)
	} else {
		m["impl"] = c20FpJSON(&w.fp)
	}
	return m
}

func (w *c20Worker) bad(ver, field string, d []byte) {
	w.report(ver+": "+field+" differs from the independent parser", true, d, c20DetPacket)
}

func (w *c20Worker) report(sig string, refOK bool, d []byte, kind int) {
	w.n[c20nViolating]++
	rank := 1
	if refOK {
		rank = 0
	}
	old := w.viol[sig]
	if old != nil && !old.better(rank, d) {
		return
	}
	det := w.detail(kind)
	det["packet_hex"] = hex.EncodeToString(d)
	det["packet_len"] = len(d)
	det["family"] = w.famCur
	w.viol[sig] = &c20Viol{sig, rank, append([]byte{}, d...), det}
}

func c20RefJSON(r *c20Ref) map[string]any {
	if !r.ok {
		return map[string]any{"ok": false, "why": r.why, "ext_headers_walked": r.walk.n}
	}
	m := map[string]any{"ok": true, "src": r.src.String(), "dst": r.dst.String(), "proto": r.proto, "non_first_fragment": r.nonFirst,
		"any_fragment": r.fragAny, "ext_headers_walked": r.walk.n}
	if r.hdrLenDef {
		m["upper_layer_offset"] = r.hdrLen
	}
	if r.portsDef {
		m["src_port"], m["dst_port"] = r.sport, r.dport
	}
	if r.idDef {
		m["icmp_id"] = r.icmpID
	}
	return m
}

func c20FpJSON(fp *firewall.ParsedPacket) map[string]any {
	return map[string]any{"LocalAddr": fp.LocalAddr.String(), "RemoteAddr": fp.RemoteAddr.String(), "LocalPort": fp.LocalPort,
		"RemotePort": fp.RemotePort, "Protocol": fp.Protocol, "Fragment": fp.Fragment, "FragAny": fp.FragAny, "IPHdrLen": fp.IPHdrLen}
}

// check evaluates one byte string: reference once, real parser in both directions, real walker once for IPv6.
func (w *c20Worker) check(d []byte) {
	d = d[:len(d):len(d)] // cap == len: a slice expression reaching past the packet panics instead of reading the backing array
	w.ref = c20Reference(d)
	ref := &w.ref
	w.fam[w.famCur]++
	for _, incoming := range [2]bool{true, false} {
		w.n[c20nEvals]++
		fp := &w.fp
		err, panicked := c20Call(d, incoming, fp)
		w.ctxIncoming, w.ctxRef, w.ctxPanic = incoming, ref, panicked
		if panicked != nil {
			w.report(c20Ver(d)+": newPacket panics", ref.ok, d, c20DetPacket)
			continue
		}
		if incoming {
			w.n[c20nIn]++
		} else {
			w.n[c20nOut]++
		}
		if (err == nil || ref.ok) && (w.famDistinct || w.seen.add(c20Hash(d, incoming))) {
			w.n[c20nNonTrivial]++
		}
		if err != nil {
			if ref.ok {
				w.n[c20nImplRejectOnly]++
				w.outcomes[1<<40|uint64(ref.ver)] = struct{}{}
			} else {
				w.n[c20nBothReject]++
			}
			w.outcomes[2<<40|c20ErrClass(err)] = struct{}{}
			continue
		}
		w.judge(d, incoming, ref, fp)
	}
	if len(d) > 0 && d[0]>>4 == 6 {
		w.checkWalker(d, ref)
	}
}

func c20ErrClass(err error) uint64 {
	switch err {
	case ErrPacketTooShort:
		return 1
	case ErrUnknownIPVersion:
		return 2
	case ErrIPv4InvalidHeaderLength:
		return 3
	case ErrIPv4PacketTooShort:
		return 4
	case ErrIPv6PacketTooShort:
		return 5
	}
	return 6
}

// judge: the real parser accepted (err == nil).
func (w *c20Worker) judge(d []byte, incoming bool, ref *c20Ref, fp *firewall.ParsedPacket) {
	ver := c20Ver(d)
	// IPv6: never an extension header number. The only tolerated case is the fragmented-protocol field of a non-first
	// fragment that the reference reports as well (assumption recorded in the evidence).
	if ver == "v6" && c20IsExt(fp.Protocol) && !(ref.ok && ref.nonFirst && ref.proto == fp.Protocol && fp.Fragment) {
		w.report("v6: an extension-header number is reported as the upper-layer protocol (err=nil)", ref.ok, d, c20DetPacket)
		return
	}
	if !ref.ok {
		w.report(ver+": err=nil but "+ref.why, false, d, c20DetPacket)
		return
	}
	dir := "(outgoing)"
	local, remote := ref.src, ref.dst
	lport, rport := ref.sport, ref.dport
	if incoming {
		dir = "(incoming)"
		local, remote = ref.dst, ref.src
		lport, rport = ref.dport, ref.sport
	}
	if fp.LocalAddr != local || fp.RemoteAddr != remote {
		w.bad(ver, "LocalAddr/RemoteAddr "+dir, d)
	}
	if fp.Protocol != ref.proto {
		w.bad(ver, "Protocol", d)
	}
	if fp.Fragment != ref.nonFirst {
		w.bad(ver, "Fragment", d)
	}
	if fp.FragAny != ref.fragAny {
		w.bad(ver, "FragAny", d)
	}
	if ref.hdrLenDef && fp.IPHdrLen != ref.hdrLen {
		w.bad(ver, "IPHdrLen", d)
	}
	switch {
	case ref.nonFirst:
		if fp.LocalPort != 0 || fp.RemotePort != 0 {
			w.bad(ver, "ports of a non-first fragment (must be 0)", d)
		}
	case ref.portsDef:
		if fp.LocalPort != lport || fp.RemotePort != rport {
			w.bad(ver, "LocalPort/RemotePort "+dir, d)
		}
		if lport != 0 && rport != 0 && lport != rport {
			w.n[c20nPorts]++
		}
	case ref.isICMP:
		if fp.LocalPort != 0 {
			w.bad(ver, "ICMP LocalPort (must be 0)", d)
		}
		if ref.idDef {
			if fp.RemotePort != ref.icmpID {
				w.bad(ver, "ICMP identifier", d)
			}
			if ref.icmpID != 0 {
				w.n[c20nICMPID]++
			}
		}
	default:
		if ref.ver == 4 && (fp.LocalPort != 0 || fp.RemotePort != 0) {
			w.n[c20nV4PortlessNonzero]++
		}
	}
	// bookkeeping for the vacuity guards
	if ref.ver == 4 {
		w.n[c20nBothAccept4]++
		if ref.nonFirst {
			w.n[c20nFragNonFirst4]++
		} else if ref.fragAny {
			w.n[c20nFragFirst4]++
		}
	} else {
		w.n[c20nBothAccept6]++
		if ref.nonFirst {
			w.n[c20nFragNonFirst6]++
			if c20IsExt(ref.proto) {
				w.n[c20nNonFirstExtNext]++
			}
		} else if ref.fragAny {
			w.n[c20nFragFirst6]++
		}
		w.kindsAcc |= ref.walk.kinds
		if ref.walk.n > w.maxExtAcc {
			w.maxExtAcc = ref.walk.n
		}
	}
	w.protoAcc[uint16(ref.ver)<<8|uint16(ref.proto)] = true
	key := uint64(ref.ver)<<32 | uint64(fp.Protocol)<<24 | uint64(fp.IPHdrLen&0xffff)<<8
	if fp.Fragment {
		key |= 1
	}
	if fp.FragAny {
		key |= 2
	}
	if fp.LocalPort != 0 || fp.RemotePort != 0 {
		key |= 4
	}
	if incoming {
		key |= 8
	}
	if _, ok := w.outcomes[key]; !ok {
		w.outcomes[key] = struct{}{}
		if len(w.samples[w.famCur]) < 4 {
			w.samples[w.famCur] = append(w.samples[w.famCur], map[string]any{"family": w.famCur, "packet_hex": hex.EncodeToString(d[:min(len(d), 96)]), "packet_len": len(d),
				"incoming": incoming, "impl": c20FpJSON(fp), "reference": c20RefJSON(ref)})
		}
	}
}

// checkWalker compares iputil.IPv6FindUpperProtocol itself with the reference chain walker.
func (w *c20Worker) checkWalker(d []byte, ref *c20Ref) {
	w.n[c20nWalkerCalls]++
	p, off, isFrag, anyFrag, err, panicked := c20CallWalker(d)
	rw := ref.walk
	if len(d) < 40 {
		rw = c20WalkV6(d)
	}
	w.wk = c20WalkCtx{p, off, isFrag, anyFrag, err, panicked, rw}
	if panicked != nil {
		w.report("v6: IPv6FindUpperProtocol panics", rw.ok, d, c20DetWalker)
		return
	}
	if err != nil {
		w.n[c20nWalkerErr]++
		return
	}
	w.n[c20nWalkerOK]++
	if c20IsExt(p) && !(rw.ok && rw.nonFirst && rw.proto == p && isFrag) {
		w.report("v6: an extension-header number is reported as the upper-layer protocol (err=nil)", rw.ok, d, c20DetWalker)
		return
	}
	if !rw.ok {
		w.report("v6: err=nil but "+rw.why, false, d, c20DetWalker)
		return
	}
	if p != rw.proto {
		w.report("v6: IPv6FindUpperProtocol protocol differs from the independent walker", true, d, c20DetWalker)
	}
	if isFrag != rw.nonFirst || anyFrag != rw.fragAny {
		w.report("v6: IPv6FindUpperProtocol fragment flags differ from the independent walker", true, d, c20DetWalker)
	}
	if !rw.nonFirst && off != rw.off {
		w.report("v6: IPv6FindUpperProtocol offset differs from the independent walker", true, d, c20DetWalker)
	}
}

type c20Job struct {
	fam string
	run func(w *c20Worker)
	// distinct: the family enumerates pairwise distinct byte strings by construction (and shares none with another
	// family), so non-trivial cases are counted directly; otherwise they go through the hash bitmap
	distinct bool
}

func c20RunJobs(c *mc.Check, seen *c20Bitmap, jobs []c20Job) (ws []*c20Worker, capped bool) {
	nw := runtime.GOMAXPROCS(0)
	workers := make([]*c20Worker, nw)
	var next atomic.Int64
	var skipped atomic.Int64
	var wg sync.WaitGroup
	for i := range workers {
		w := &c20Worker{fam: map[string]int64{}, outcomes: map[uint64]struct{}{}, viol: map[string]*c20Viol{}, protoAcc: map[uint16]bool{}, seen: seen, samples: map[string][]any{}}
		workers[i] = w
		wg.Add(1)
		go func() {
			defer wg.Done()
			for {
				j := int(next.Add(1)) - 1
				if j >= len(jobs) {
					return
				}
				if c.OutOfTime() {
					skipped.Add(1)
					continue
				}
				w.famCur, w.famDistinct = jobs[j].fam, jobs[j].distinct
				jobs[j].run(w)
			}
		}()
	}
	wg.Wait()
	if n := skipped.Load(); n > 0 {
		c.Capped(fmt.Sprintf("soft time budget: %d of %d jobs skipped", n, len(jobs)))
		return workers, true
	}
	return workers, false
}

// ---------------------------------------------------------------------------------------------------------------------
// packet builders (harness side; plain byte layout)

var (
	c20V4Src = [4]byte{10, 1, 2, 3}
	c20V4Dst = [4]byte{10, 9, 8, 7}
	c20V6Src = [16]byte{0xfd, 0, 0, 0, 0, 0, 0, 1, 0, 0, 0, 0, 0, 0, 0, 0xa1}
	c20V6Dst = [16]byte{0xfd, 0, 0, 0, 0, 0, 0, 2, 0, 0, 0, 0, 0, 0, 0, 0xb2}
)

func c20Sum(b []byte, init uint32) uint16 {
	s := init
	for i := 0; i+1 < len(b); i += 2 {
		s += uint32(b[i])<<8 | uint32(b[i+1])
	}
	if len(b)%2 == 1 {
		s += uint32(b[len(b)-1]) << 8
	}
	for s>>16 != 0 {
		s = s&0xffff + s>>16
	}
	return ^uint16(s)
}

// c20BuildV4: ihl is the IHL nibble as written; the physical header is max(20, ihl*4) bytes (options = NOPs).
func c20BuildV4(ihl int, flagsFrag uint16, proto uint8, id uint16, l4 []byte) []byte {
	hl := ihl * 4
	if hl < 20 {
		hl = 20
	}
	p := make([]byte, hl+len(l4))
	p[0] = 0x40 | byte(ihl&0x0f)
	binary.BigEndian.PutUint16(p[2:], uint16(len(p)))
	binary.BigEndian.PutUint16(p[4:], id)
	binary.BigEndian.PutUint16(p[6:], flagsFrag)
	p[8], p[9] = 64, proto
	copy(p[12:16], c20V4Src[:])
	copy(p[16:20], c20V4Dst[:])
	for i := 20; i < hl; i++ {
		p[i] = 1 // NOP
	}
	binary.BigEndian.PutUint16(p[10:], c20Sum(p[:hl], 0))
	copy(p[hl:], l4)
	return p
}

func c20TCP(sport, dport uint16, flags byte, payload int) []byte {
	b := make([]byte, 20+payload)
	binary.BigEndian.PutUint16(b[0:], sport)
	binary.BigEndian.PutUint16(b[2:], dport)
	binary.BigEndian.PutUint32(b[4:], 0x01020304)
	binary.BigEndian.PutUint32(b[8:], 0x0a0b0c0d)
	b[12], b[13] = 5<<4, flags
	binary.BigEndian.PutUint16(b[14:], 0xffff)
	for i := 20; i < len(b); i++ {
		b[i] = byte(0xd0 + i)
	}
	return b
}

func c20UDP(sport, dport uint16, payload int) []byte {
	b := make([]byte, 8+payload)
	binary.BigEndian.PutUint16(b[0:], sport)
	binary.BigEndian.PutUint16(b[2:], dport)
	binary.BigEndian.PutUint16(b[4:], uint16(len(b)))
	for i := 8; i < len(b); i++ {
		b[i] = byte(0xe0 + i)
	}
	return b
}

func c20ICMP(typ, code uint8, id, seq uint16, payload int) []byte {
	b := make([]byte, 8+payload)
	b[0], b[1] = typ, code
	binary.BigEndian.PutUint16(b[4:], id)
	binary.BigEndian.PutUint16(b[6:], seq)
	for i := 8; i < len(b); i++ {
		b[i] = byte(0xc0 + i)
	}
	binary.BigEndian.PutUint16(b[2:], c20Sum(b, 0))
	return b
}

// c20Ext describes one IPv6 extension header to lay out.
type c20Ext struct {
	nh      uint8  // 0, 43, 60, 44, 51
	declLen int    // value of the length byte (ignored for 44)
	frag    uint16 // bytes 2..3 of a fragment header (offset<<3 | flags)
	padOK   bool   // lay out a well-formed PadN / type-0 routing body instead of the 0xfd bait filler
}

func c20ExtSize(e c20Ext) int {
	switch e.nh {
	case 44:
		return 8
	case 51:
		return (e.declLen + 2) * 4
	}
	return (e.declLen + 1) * 8
}

// c20BuildV6 lays out fixed header + chain + upper. bounds = start of every extension header, start of the upper
// layer, end of packet.
func c20BuildV6(flow uint16, chain []c20Ext, upperNH uint8, upper []byte) (p []byte, bounds []int) {
	total := 40
	for _, e := range chain {
		total += c20ExtSize(e)
	}
	total += len(upper)
	p = make([]byte, total)
	p[0] = 0x60
	binary.BigEndian.PutUint16(p[2:], flow)
	binary.BigEndian.PutUint16(p[4:], uint16(total-40))
	p[7] = 64
	copy(p[8:24], c20V6Src[:])
	copy(p[24:40], c20V6Dst[:])
	off := 40
	for i, e := range chain {
		next := upperNH
		if i+1 < len(chain) {
			next = chain[i+1].nh
		}
		if i == 0 {
			p[6] = e.nh
		}
		bounds = append(bounds, off)
		sz := c20ExtSize(e)
		h := p[off : off+sz]
		for j := 0; j < len(h); j += copy(h[j:], c20Fd[:]) { // bait: read as a next-header value 0xfd is an (experimental) upper-layer protocol
		}
		h[0] = next
		switch e.nh {
		case 44:
			h[1] = 0
			binary.BigEndian.PutUint16(h[2:], e.frag)
			binary.BigEndian.PutUint32(h[4:], 0x00c0ffee)
		case 51:
			h[1] = byte(e.declLen)
			if e.padOK {
				for j := 2; j < sz; j++ {
					h[j] = 0
				}
				if sz >= 12 {
					binary.BigEndian.PutUint32(h[4:], 0x100)
					binary.BigEndian.PutUint32(h[8:], 1)
				}
			}
		case 43:
			h[1] = byte(e.declLen)
			if e.padOK {
				for j := 2; j < sz; j++ {
					h[j] = 0
				}
				if sz > 8 {
					h[3] = byte((sz - 8) / 16)
				}
			}
		default:
			h[1] = byte(e.declLen)
			if e.padOK {
				for j := 2; j < sz; j++ {
					h[j] = 0
				}
				h[2], h[3] = 1, byte(sz-4) // PadN
			}
		}
		off += sz
	}
	if len(chain) == 0 {
		p[6] = upperNH
	}
	bounds = append(bounds, off)
	copy(p[off:], upper)
	bounds = append(bounds, total)
	return p, bounds
}

var c20Fd = func() (b [256]byte) {
	for i := range b {
		b[i] = 0xfd
	}
	return
}()

type c20Upper struct {
	name string
	nh   uint8
	body []byte
}

// bait body for protocols nebula must not walk: looks like an 8-byte extension header leading to TCP port 80.
func c20Bait() []byte {
	return []byte{6, 0, 0x12, 0x34, 0x00, 0x50, 0, 0, 0x12, 0x34, 0x00, 0x50, 0, 0, 0, 1}
}

func c20Uppers(thorough bool) []c20Upper {
	u := []c20Upper{
		{"tcp", 6, c20TCP(36123, 22, 0x02, 4)},
		{"udp", 17, c20UDP(36123, 53, 4)},
		{"icmp6-echo", 58, c20ICMP(128, 0, 0xbeef, 1, 4)},
		{"icmp6-ns", 58, c20ICMP(135, 0, 0x7766, 0, 4)},
		{"no-next-header", 59, []byte{0xfd, 0xfd, 0xfd, 0xfd}},
		{"sctp", 132, append(c20UDP(5000, 5001, 0), 0, 0, 0, 0)},
		{"mobility", 135, c20Bait()},
		{"esp", 50, c20Bait()},
	}
	if thorough {
		u = append(u,
			c20Upper{"icmp6-echo-reply", 58, c20ICMP(129, 0, 0x0102, 1, 4)},
			c20Upper{"icmp6-unreach", 58, c20ICMP(1, 1, 0x5544, 0, 8)},
			c20Upper{"hip", 139, c20Bait()},
			c20Upper{"shim6", 140, c20Bait()},
			c20Upper{"exp253", 253, c20Bait()},
			c20Upper{"exp254", 254, c20Bait()},
			c20Upper{"icmp4-in-v6", 1, c20ICMP(8, 0, 0x4444, 1, 0)},
			c20Upper{"gre", 47, c20Bait()},
		)
	}
	return u
}

// chain symbols for the structured IPv6 enumeration
type c20Sym struct {
	name string
	nh   uint8
	frag uint16
}

var c20Syms = []c20Sym{
	{"hbh", 0, 0}, {"rt", 43, 0}, {"dst", 60, 0}, {"frag0", 44, 0x0001}, {"fragN", 44, 185<<3 | 1}, {"ah", 51, 0},
}

// c20Chains: every chain of length <= fullLen over the 6 symbols, plus every chain of length fullLen+1..maxLen that uses
// at most two distinct symbols. No duplicates by construction.
func c20Chains(fullLen, maxLen int) [][]uint8 {
	var out [][]uint8
	var rec func(cur []uint8, used uint8, nused int)
	rec = func(cur []uint8, used uint8, nused int) {
		out = append(out, append([]uint8{}, cur...))
		if len(cur) == maxLen {
			return
		}
		for s := range c20Syms {
			bit := uint8(1) << uint(s)
			nu := nused
			if used&bit == 0 {
				nu++
			}
			if len(cur)+1 > fullLen && nu > 2 {
				continue
			}
			rec(append(cur, uint8(s)), used|bit, nu)
		}
	}
	rec(nil, 0, 0)
	return out
}

func c20ChainName(ch []uint8) string {
	s := ""
	for i, x := range ch {
		if i > 0 {
			s += ","
		}
		s += c20Syms[x].name
	}
	return "[" + s + "]"
}

// lenModes: 0 = every declared length 0; 1 = every declared length 1; 2 = last length-carrying header declares 255;
// 3 = first length-carrying header declares 255.
func c20ChainExts(ch []uint8, lenMode int) []c20Ext {
	ex := make([]c20Ext, len(ch))
	first, last := -1, -1
	for i, x := range ch {
		ex[i] = c20Ext{nh: c20Syms[x].nh, frag: c20Syms[x].frag}
		if ex[i].nh != 44 {
			if first < 0 {
				first = i
			}
			last = i
		}
	}
	switch lenMode {
	case 1:
		for i := range ex {
			if ex[i].nh != 44 {
				ex[i].declLen = 1
			}
		}
	case 2:
		if last >= 0 {
			ex[last].declLen = 255
		}
	case 3:
		if first >= 0 {
			ex[first].declLen = 255
		}
	}
	return ex
}

// c20Truncs: every length when the packet is small, otherwise the neighbourhood of every boundary.
func c20Truncs(total int, bounds []int, from int) []int {
	if total <= 320 {
		out := make([]int, 0, total-from+1)
		for l := from; l <= total; l++ {
			out = append(out, l)
		}
		return out
	}
	var out []int
	next := from // bounds ascend: merge the neighbourhoods
	for _, b := range bounds {
		for l := max(next, b-3); l <= b+9 && l <= total; l++ {
			out = append(out, l)
			next = l + 1
		}
	}
	return out
}

// ---------------------------------------------------------------------------------------------------------------------
// the 40 well-formed seeds

type c20Seed struct {
	name string
	pkt  []byte
}

func c20Seeds() []c20Seed {
	var s []c20Seed
	id := func() uint16 { n := uint16(len(s) + 1); return n<<8 | n }
	v4 := func(name string, ihl int, ff uint16, proto uint8, l4 []byte) {
		s = append(s, c20Seed{name, c20BuildV4(ihl, ff, proto, id(), l4)})
	}
	v6 := func(name string, chain []c20Ext, nh uint8, upper []byte) {
		for i := range chain {
			chain[i].padOK = true
		}
		p, _ := c20BuildV6(id(), chain, nh, upper)
		s = append(s, c20Seed{name, p})
	}
	hbh := c20Ext{nh: 0}
	rt := c20Ext{nh: 43}
	dst := c20Ext{nh: 60}
	ah := c20Ext{nh: 51, declLen: 4}
	fr0 := c20Ext{nh: 44, frag: 1}
	frN := c20Ext{nh: 44, frag: 185<<3 | 1}
	frAtomic := c20Ext{nh: 44, frag: 0}

	v4("v4 tcp syn", 5, 0, 6, c20TCP(36123, 22, 0x02, 0))
	v4("v4 tcp ack DF", 5, 0x4000, 6, c20TCP(443, 51000, 0x10, 6))
	v4("v4 udp", 5, 0, 17, c20UDP(5353, 53, 5))
	v4("v4 icmp echo", 5, 0, 1, c20ICMP(8, 0, 0xbeef, 7, 8))
	v4("v4 icmp echo reply", 5, 0, 1, c20ICMP(0, 0, 0x1234, 7, 8))
	v4("v4 icmp unreachable", 5, 0, 1, c20ICMP(3, 1, 0, 0, 28))
	v4("v4 icmp timestamp", 5, 0, 1, c20ICMP(13, 0, 0x0a0b, 1, 12))
	v4("v4 gre", 5, 0, 47, c20Bait())
	v4("v4 tcp ihl6", 6, 0x4000, 6, c20TCP(1025, 8080, 0x18, 3))
	v4("v4 udp ihl15", 15, 0, 17, c20UDP(4242, 4243, 2))
	v4("v4 udp first fragment", 5, 0x2000, 17, c20UDP(7000, 7001, 16))
	v4("v4 udp non-first fragment", 5, 0x2000|185, 17, []byte{1, 2, 3, 4, 5, 6, 7, 8, 9, 10, 11, 12, 13, 14, 15, 16})
	v4("v4 tcp last fragment ihl7", 7, 64, 6, []byte{9, 9, 9, 9, 9, 9, 9, 9})
	v4("v4 esp", 5, 0, 50, c20Bait())
	v4("v4 sctp", 5, 0, 132, append(c20UDP(5000, 5001, 0), 0, 0, 0, 0))
	v4("v4 icmp non-first fragment", 5, 2, 1, []byte{0xaa, 0xbb, 0xcc, 0xdd, 0xee, 0xff, 0x11, 0x22})

	v6("v6 tcp", nil, 6, c20TCP(36123, 22, 0x02, 0))
	v6("v6 udp", nil, 17, c20UDP(36123, 53, 6))
	v6("v6 icmp echo", nil, 58, c20ICMP(128, 0, 0xbeef, 1, 8))
	v6("v6 icmp echo reply", nil, 58, c20ICMP(129, 0, 0x0102, 1, 8))
	v6("v6 icmp neighbour solicitation", nil, 58, c20ICMP(135, 0, 0, 0, 16))
	v6("v6 icmp unreachable", nil, 58, c20ICMP(1, 4, 0, 0, 48))
	v6("v6 no next header", nil, 59, nil)
	v6("v6 sctp", nil, 132, append(c20UDP(5000, 5001, 0), 0, 0, 0, 0))
	v6("v6 hbh tcp", []c20Ext{hbh}, 6, c20TCP(2000, 443, 0x10, 2))
	v6("v6 rt udp", []c20Ext{rt}, 17, c20UDP(2001, 123, 4))
	v6("v6 dst icmp echo", []c20Ext{dst}, 58, c20ICMP(128, 0, 0x2222, 3, 4))
	v6("v6 ah tcp", []c20Ext{ah}, 6, c20TCP(2002, 179, 0x02, 0))
	v6("v6 first fragment udp", []c20Ext{fr0}, 17, c20UDP(36123, 22, 4))
	v6("v6 non-first fragment udp", []c20Ext{frN}, 17, []byte{0xde, 0xad, 0xbe, 0xef, 1, 2, 3, 4})
	v6("v6 atomic fragment tcp", []c20Ext{frAtomic}, 6, c20TCP(2003, 25, 0x02, 0))
	v6("v6 hbh dst tcp", []c20Ext{hbh, dst}, 6, c20TCP(2004, 80, 0x02, 0))
	v6("v6 hbh rt frag0 dst udp", []c20Ext{hbh, rt, fr0, dst}, 17, c20UDP(2005, 161, 4))
	v6("v6 dst non-first fragment", []c20Ext{dst, frN}, 6, []byte{1, 2, 3, 4, 5, 6, 7, 8})
	v6("v6 hbh(16) tcp", []c20Ext{{nh: 0, declLen: 1}}, 6, c20TCP(2006, 22, 0x02, 0))
	v6("v6 dst(32) udp", []c20Ext{{nh: 60, declLen: 3}}, 17, c20UDP(2007, 514, 4))
	v6("v6 rt(24) tcp", []c20Ext{{nh: 43, declLen: 2}}, 6, c20TCP(2008, 22, 0x02, 0))
	v6("v6 eight headers udp", []c20Ext{hbh, dst, rt, dst, ah, dst, dst, dst}, 17, c20UDP(2009, 53, 4))
	v6("v6 mobility", nil, 135, c20Bait())
	v6("v6 hbh esp", []c20Ext{hbh}, 50, c20Bait())
	return s
}

func c20Levenshtein(a, b []byte, cap int) int {
	prev := make([]int, len(b)+1)
	cur := make([]int, len(b)+1)
	for j := range prev {
		prev[j] = j
	}
	for i := 1; i <= len(a); i++ {
		cur[0] = i
		for j := 1; j <= len(b); j++ {
			cost := 1
			if a[i-1] == b[j-1] {
				cost = 0
			}
			cur[j] = min(prev[j]+1, cur[j-1]+1, prev[j-1]+cost)
		}
		prev, cur = cur, prev
	}
	return min(prev[len(b)], cap)
}

// c20Gopacket: second opinion on well-formed packets. Returns what gopacket's decoder reports.
type c20GP struct {
	ok             bool
	src, dst       netip.Addr
	proto          int // -1: gopacket did not get that far
	hasPorts       bool
	sport, dport   uint16
	hasID          bool
	id             uint16
	nonFirst, frag bool
}

func c20DecodeGopacket(d []byte) (g c20GP) {
	defer func() {
		if recover() != nil {
			g.ok = false
		}
	}()
	first := layers.LayerTypeIPv4
	if d[0]>>4 == 6 {
		first = layers.LayerTypeIPv6
	}
	pkt := gopacket.NewPacket(d, first, gopacket.DecodeOptions{NoCopy: true})
	g.proto = -1
	for _, l := range pkt.Layers() {
		switch x := l.(type) {
		case *layers.IPv4:
			g.src, _ = netip.AddrFromSlice(x.SrcIP.To4())
			g.dst, _ = netip.AddrFromSlice(x.DstIP.To4())
			g.proto = int(x.Protocol)
			g.nonFirst = x.FragOffset != 0
			g.frag = x.FragOffset != 0 || x.Flags&layers.IPv4MoreFragments != 0
			g.ok = true
		case *layers.IPv6:
			g.src, _ = netip.AddrFromSlice(x.SrcIP.To16())
			g.dst, _ = netip.AddrFromSlice(x.DstIP.To16())
			g.proto = int(x.NextHeader)
			g.ok = true
		case *layers.IPv6HopByHop:
			g.proto = int(x.NextHeader)
		case *layers.IPv6Routing:
			g.proto = int(x.NextHeader)
		case *layers.IPv6Destination:
			g.proto = int(x.NextHeader)
		case *layers.IPSecAH:
			g.proto = int(x.NextHeader)
		case *layers.IPv6Fragment:
			g.proto = int(x.NextHeader)
			g.frag = true
			g.nonFirst = x.FragmentOffset != 0
		case *layers.TCP:
			g.hasPorts, g.sport, g.dport = true, uint16(x.SrcPort), uint16(x.DstPort)
		case *layers.UDP:
			g.hasPorts, g.sport, g.dport = true, uint16(x.SrcPort), uint16(x.DstPort)
		case *layers.ICMPv4:
			if c20ICMPv4HasID(x.TypeCode.Type()) {
				g.hasID, g.id = true, x.Id
			}
		case *layers.ICMPv6Echo:
			g.hasID, g.id = true, x.Identifier
		}
	}
	return g
}

// ---------------------------------------------------------------------------------------------------------------------

func TestVerifC20(t *testing.T) {
	c := mc.Begin(t, "C20", "exploration")
	defer c.End()
	defer debug.SetGCPercent(debug.SetGCPercent(1000)) // tiny live heap, high allocation rate: collect less often
	thorough := c.Thorough()
	seen := newC20Bitmap(28)
	var jobs, extraJobs, v6Jobs []c20Job // core box first, the big IPv6 family in a strided order, thorough-only extras last

	// ---- family 1: every short byte string -----------------------------------------------------------------------
	maxShort := mc.Pick(c, 2, 3)
	jobs = append(jobs, c20Job{fam: "short<=2", run: func(w *c20Worker) {
		w.check([]byte{})
		for a := 0; a < 256; a++ {
			w.check([]byte{byte(a)})
			for b := 0; b < 256; b++ {
				w.check([]byte{byte(a), byte(b)})
			}
		}
	}})
	if maxShort >= 3 {
		for a := 0; a < 256; a++ {
			extraJobs = append(extraJobs, c20Job{fam: "short=3", run: func(w *c20Worker) {
				buf := []byte{byte(a), 0, 0}
				for b := 0; b < 256; b++ {
					for x := 0; x < 256; x++ {
						buf[1], buf[2] = byte(b), byte(x)
						w.check(buf)
					}
				}
			}})
		}
	}

	// ---- family 2: seeds and their 1-edit mutants -----------------------------------------------------------------
	seeds := c20Seeds()
	c.Require(len(seeds) == 40, "expected 40 seeds, have %d", len(seeds))
	minLev := 99
	for i := range seeds {
		for j := i + 1; j < len(seeds); j++ {
			minLev = min(minLev, c20Levenshtein(seeds[i].pkt, seeds[j].pkt, 99))
		}
	}
	c.Require(minLev >= 3, "two seeds are within edit distance %d: 1-edit mutants of different seeds could coincide", minLev)
	// seeds must be accepted by the real parser, by the reference, and (second opinion) agree with gopacket
	gpAgree, gpSkipped := 0, 0
	for _, sd := range seeds {
		ref := c20Reference(sd.pkt)
		c.Require(ref.ok, "reference rejects well-formed seed %q: %s", sd.name, ref.why)
		for _, in := range []bool{true, false} {
			var fp firewall.ParsedPacket
			err, p := c20Call(sd.pkt, in, &fp)
			c.Require(p != nil || err == nil, "well-formed seed %q (incoming=%v) is not accepted by newPacket: err=%v panic=%v (over-rejection; the property allows it but the box would be vacuous)", sd.name, in, err, p)
		}
		g := c20DecodeGopacket(sd.pkt)
		if !g.ok {
			gpSkipped++
			continue
		}
		agree := g.src == ref.src && g.dst == ref.dst && g.nonFirst == ref.nonFirst && g.frag == ref.fragAny
		// gopacket stops at a fragment header / unknown protocols; compare the protocol only when it reached a transport
		if g.hasPorts {
			agree = agree && ref.portsDef && g.sport == ref.sport && g.dport == ref.dport && g.proto == int(ref.proto)
		}
		if g.hasID {
			agree = agree && ref.idDef && g.id == ref.icmpID
		}
		if ref.portsDef && !ref.fragAny {
			agree = agree && g.hasPorts
		}
		c.Require(agree, "reference walker and gopacket disagree on seed %q: gopacket=%+v reference=%+v", sd.name, g, c20RefJSON(&ref))
		gpAgree++
	}
	c.Require(gpAgree >= 30, "gopacket second opinion covered only %d seeds", gpAgree)
	c.Set("seeds", len(seeds))
	c.Set("seeds_min_pairwise_edit_distance", minLev)
	c.Set("seeds_cross_checked_with_gopacket", gpAgree)

	for _, sd := range seeds {
		jobs = append(jobs, c20Job{"seed-1edit", func(w *c20Worker) {
			// every mutant is generated exactly once (canonical form: an edit inside a run of equal bytes is made at the
			// start of the run), so no deduplication set is needed
			s := sd.pkt
			w.check(s)
			m := make([]byte, len(s))
			for pos := range s { // substitutions (includes every 1-bit flip)
				copy(m, s)
				for v := 0; v < 256; v++ {
					if byte(v) != s[pos] {
						m[pos] = byte(v)
						w.check(m)
					}
				}
			}
			del := make([]byte, len(s)-1)
			for pos := range s { // deletions (deleting any byte of a run gives the same string: first of the run only)
				if pos > 0 && s[pos] == s[pos-1] {
					continue
				}
				copy(del, s[:pos])
				copy(del[pos:], s[pos+1:])
				w.check(del)
			}
			ins := make([]byte, len(s)+1)
			for pos := 0; pos <= len(s); pos++ { // insertions (inserting v after a v equals inserting it before that v)
				copy(ins, s[:pos])
				copy(ins[pos+1:], s[pos:])
				for v := 0; v < 256; v++ {
					if pos > 0 && byte(v) == s[pos-1] {
						continue
					}
					ins[pos] = byte(v)
					w.check(ins)
				}
			}
			for l := 0; l < len(s)-1; l++ { // truncations (len-1 is the deletion of the last run)
				w.check(s[:l])
			}
		}, true})
		if thorough { // every value of every adjacent byte pair (16-bit fields) in the first 72 bytes
			extraJobs = append(extraJobs, c20Job{"seed-2adjacent", func(w *c20Worker) {
				s := sd.pkt
				m := make([]byte, len(s))
				for pos := 0; pos+1 < len(s) && pos < 72; pos++ {
					copy(m, s)
					for v := 0; v < 65536; v++ {
						if byte(v>>8) == s[pos] || byte(v) == s[pos+1] {
							continue // 0- and 1-byte changes are in the 1-edit family
						}
						m[pos], m[pos+1] = byte(v>>8), byte(v)
						w.check(m)
					}
				}
			}, true})
		}
	}

	// ---- family 3: 16-bit sweeps of the value-carrying header bytes -------------------------------------------------
	type sweep struct {
		name   string
		base   []byte
		p1, p2 int
		lens   []int
	}
	v4base := c20BuildV4(6, 0, 17, 0x7777, c20UDP(1111, 2222, 8)) // IHL 6 so that IHL nibble changes matter
	v4icmp := c20BuildV4(5, 0, 1, 0x7778, c20ICMP(8, 0, 0xbeef, 1, 4))
	v6dst, _ := c20BuildV6(0x7779, []c20Ext{{nh: 60}, {nh: 0}}, 6, c20TCP(3333, 4444, 0x02, 4))
	v6frag, _ := c20BuildV6(0x777a, []c20Ext{{nh: 44, frag: 1}, {nh: 60}}, 17, c20UDP(5555, 6666, 4))
	v6icmp, _ := c20BuildV6(0x777b, []c20Ext{{nh: 60}}, 58, c20ICMP(128, 0, 0xbeef, 1, 4))
	sweeps := []sweep{
		{"v4[0,9] version/IHL x protocol", v4base, 0, 9, []int{20, 23, 24, 27, 28, 30, 40}},
		{"v4[6,7] flags/fragment offset", v4base, 6, 7, []int{24, 27, 28, 40}},
		{"v4[0,6] version/IHL x flags", v4base, 0, 6, []int{24, 28, 40}},
		{"v4[9,20] protocol x first L4 byte (ICMP type)", v4icmp, 9, 20, []int{20, 21, 24, 25, 26, 32}},
		{"v4[24,25] ICMP identifier", v4icmp, 24, 25, []int{26, 32}},
		{"v6[6,40] next header x first extension next header", v6dst, 6, 40, []int{40, 41, 42, 48, 50, 52, 56, 60, len(v6dst)}},
		{"v6[40,41] extension next header x declared length", v6dst, 40, 41, []int{42, 48, 56, 60, 64, len(v6dst)}},
		{"v6[48,49] second extension next header x declared length", v6dst, 48, 49, []int{50, 56, 60, 64, len(v6dst)}},
		{"v6[42,43] fragment offset/flags", v6frag, 42, 43, []int{47, 48, 56, 58, 60, len(v6frag)}},
		{"v6[40,48] fragment next header x following next header", v6frag, 40, 48, []int{48, 50, 56, 58, 60, len(v6frag)}},
		{"v6[6,48] next header x ICMPv6 type", v6icmp, 6, 48, []int{48, 49, 51, 52, 53, 54, len(v6icmp)}},
		{"v6[0,6] version/class x next header", v6dst, 0, 6, []int{40, 48, 60, len(v6dst)}},
	}
	for _, sw := range sweeps {
		for hi := 0; hi < 256; hi++ {
			jobs = append(jobs, c20Job{fam: "sweep " + sw.name, run: func(w *c20Worker) {
				m := append([]byte{}, sw.base...)
				m[1] |= 0x10 // TOS / traffic class bit: keeps the sweeps more than two edits away from every seed
				m[sw.p1] = byte(hi)
				for lo := 0; lo < 256; lo++ {
					m[sw.p2] = byte(lo)
					for _, l := range sw.lens {
						if l <= len(m) {
							w.check(m[:l])
						}
					}
				}
			}})
		}
	}

	// ---- family 4: structured IPv4 --------------------------------------------------------------------------------
	fragFields := []uint16{0x0000, 0x4000, 0x2000, 0x0001, 0x2001, 0x1fff, 0x0100, 0x1f00, 0x8000, 0x6000, 0xe000, 0xffff, 185}
	type v4l4 struct {
		proto uint8
		body  []byte
	}
	var v4l4s []v4l4
	for _, p := range []uint8{6, 17, 47, 58, 0, 255, 132, 50, 2} {
		v4l4s = append(v4l4s, v4l4{p, c20TCP(0x1234, 0x0050, 0x12, 2)[:12]})
	}
	icmpTypes := []int{0, 3, 4, 5, 8, 9, 11, 12, 13, 14, 15, 16, 17, 18, 19, 42, 255}
	if thorough {
		icmpTypes = icmpTypes[:0]
		for i := 0; i < 256; i++ {
			icmpTypes = append(icmpTypes, i)
		}
	}
	for _, ty := range icmpTypes {
		v4l4s = append(v4l4s, v4l4{1, c20ICMP(uint8(ty), 0, 0xbeef, 0x0102, 2)})
	}
	for ihl := 0; ihl <= 15; ihl++ {
		jobs = append(jobs, c20Job{"structured-v4", func(w *c20Worker) {
			hl := max(ihl*4, 20)
			for _, ff := range fragFields {
				seenProto := [256]bool{}
				for _, l4 := range v4l4s {
					p := c20BuildV4(ihl, ff, l4.proto, 0x4242, l4.body)
					p[1] = 0x20 // TOS: more than two edits away from every seed (distinct-by-construction counting)
					from := 19  // lengths below 19 are covered by the seed truncations
					if seenProto[l4.proto] {
						from = hl + 1 // same header as an earlier body (ICMP types): shorter cuts would repeat it
					}
					seenProto[l4.proto] = true
					for l := from; l <= len(p); l++ {
						w.check(p[:l])
					}
				}
			}
		}, true})
	}

	// ---- family 5: structured IPv6 chains --------------------------------------------------------------------------
	fullLen := mc.Pick(c, 3, 6)
	maxLen := mc.Pick(c, 10, 14)
	chains := c20Chains(fullLen, maxLen)
	uppers := c20Uppers(thorough)
	lenModes := mc.Pick(c, []int{0, 2}, []int{0, 1, 2, 3})
	c.Set("v6_chain_symbols", len(c20Syms))
	c.Set("v6_chains", len(chains))
	c.Set("v6_chains_exhaustive_up_to_length", fullLen)
	c.Set("v6_chain_max_length", maxLen)
	c.Set("v6_upper_layer_kinds", len(uppers))
	c.Set("v6_declared_length_modes", len(lenModes))
	const chunk = 48
	for lo := 0; lo < len(chains); lo += chunk {
		hi := min(lo+chunk, len(chains))
		v6Jobs = append(v6Jobs, c20Job{"structured-v6", func(w *c20Worker) {
			for _, ch := range chains[lo:hi] {
				for _, lm := range lenModes {
					if lm != 0 {
						has := false
						for _, x := range ch {
							if c20Syms[x].nh != 44 {
								has = true
							}
						}
						if !has {
							continue // no length byte to vary: identical to mode 0
						}
					}
					if lm == 3 {
						nlen := 0
						for _, x := range ch {
							if c20Syms[x].nh != 44 {
								nlen++
							}
						}
						if nlen == 1 {
							continue // first == last length-carrying header: identical to mode 2
						}
					}
					ex := c20ChainExts(ch, lm)
					type nhLen struct {
						nh uint8
						n  int
					}
					var done []nhLen
					for ui, up := range uppers {
						if !thorough && len(ch) > fullLen && ui%3 != 0 {
							continue // quick tier: long chains x {tcp, icmp6-ns, mobility}
						}
						p, bounds := c20BuildV6(0x0c20, ex, up.nh, up.body)
						p[1] = 0x10 // traffic class bit: more than two edits away from every seed
						from := 40
						if len(ch) == 0 {
							from = 0
						}
						if !thorough && len(ch) > fullLen && lm == 0 {
							// quick tier: long chains are cut only where the walk can end
							from = bounds[min(len(ch)-3, 7)] - 2
						}
						for _, dn := range done {
							if dn.nh == up.nh && dn.n == len(up.body) {
								from = max(from, bounds[len(ch)]+1) // same headers as an earlier upper layer: shorter cuts would repeat it
							}
						}
						done = append(done, nhLen{up.nh, len(up.body)})
						for _, l := range c20Truncs(len(p), bounds, from) {
							w.check(p[:l])
						}
					}
				}
			}
		}, true})
	}

	// strided order: should the soft budget cut the run short, every chain length and kind has been touched
	stride := 97
	for len(v6Jobs)%stride == 0 {
		stride += 2
	}
	for i := range v6Jobs {
		jobs = append(jobs, v6Jobs[i*stride%len(v6Jobs)])
	}
	jobs = append(jobs, extraJobs...)
	c.Set("jobs", len(jobs))
	workers, capped := c20RunJobs(c, seen, jobs)

	// ---- merge -------------------------------------------------------------------------------------------------------
	var n [c20nCounters]int64
	fam := map[string]int64{}
	outcomes := map[uint64]struct{}{}
	viol := map[string]*c20Viol{}
	protoAcc := map[uint16]bool{}
	var kindsAcc uint8
	maxExt := 0
	samples := map[string][]any{}
	for _, w := range workers {
		for i := range n {
			n[i] += w.n[i]
		}
		for k, v := range w.fam {
			fam[k] += v
		}
		for k := range w.outcomes {
			outcomes[k] = struct{}{}
		}
		for k := range w.protoAcc {
			protoAcc[k] = true
		}
		kindsAcc |= w.kindsAcc
		maxExt = max(maxExt, w.maxExtAcc)
		for k, v := range w.samples {
			samples[k] = append(samples[k], v...)
		}
		for sig, v := range w.viol {
			old := viol[sig]
			if old == nil || old.better(v.rank, v.data) {
				viol[sig] = v
			}
		}
	}
	sigs := make([]string, 0, len(viol))
	for s := range viol {
		sigs = append(sigs, s)
	}
	sort.Strings(sigs)
	for _, s := range sigs {
		c.Violation(s, viol[s].detail)
	}
	for _, f := range []string{"seed-1edit", "structured-v4", "sweep v6[42,43] fragment offset/flags", "sweep v4[6,7] flags/fragment offset", "structured-v6"} {
		if xs := samples[f]; len(xs) > 0 {
			c.Sample(xs[len(xs)/2])
			if f == "structured-v6" {
				c.Sample(xs[len(xs)-1])
			}
		}
	}

	// ---- vacuity guards -----------------------------------------------------------------------------------------------
	// A run that found violations is a verdict already (a broken parser may empty an outcome class), and a run cut short
	// by the soft budget finishes normally with exhaustive=false: in both cases unmet guards are recorded, not fatal.
	guardsOff := ""
	if len(viol) > 0 {
		guardsOff = "violations found"
	} else if capped {
		guardsOff = "soft time budget hit"
	}
	var unmet []string
	guard := func(cond bool, format string, args ...any) {
		if cond {
			return
		}
		if guardsOff == "" {
			c.Require(false, format, args...)
		}
		unmet = append(unmet, fmt.Sprintf(format, args...))
	}
	guard(n[c20nBothAccept4] > 0 && n[c20nBothAccept6] > 0, "no packet accepted by both sides: v4=%d v6=%d", n[c20nBothAccept4], n[c20nBothAccept6])
	guard(n[c20nBothReject] > 0, "no packet rejected by both sides")
	guard(n[c20nFragNonFirst4] > 0 && n[c20nFragFirst4] > 0 && n[c20nFragNonFirst6] > 0 && n[c20nFragFirst6] > 0,
		"fragment classes not all accepted: v4 non-first=%d first=%d v6 non-first=%d first=%d", n[c20nFragNonFirst4], n[c20nFragFirst4], n[c20nFragNonFirst6], n[c20nFragFirst6])
	guard(kindsAcc == 31, "not every extension header kind was walked in an accepted packet: mask=%05b", kindsAcc)
	guard(maxExt >= 8, "longest accepted extension chain has only %d headers", maxExt)
	guard(n[c20nPorts] > 0 && n[c20nICMPID] > 0, "no accepted packet with distinguishable ports (%d) / non-zero ICMP identifier (%d)", n[c20nPorts], n[c20nICMPID])
	for _, k := range []uint16{4<<8 | 6, 4<<8 | 17, 4<<8 | 1, 4<<8 | 47, 6<<8 | 6, 6<<8 | 17, 6<<8 | 58, 6<<8 | 59, 6<<8 | 132, 6<<8 | 135, 6<<8 | 50} {
		guard(protoAcc[k], "protocol %d over IPv%d never accepted by both sides", k&0xff, k>>8)
	}
	guard(n[c20nWalkerOK] > 0 && n[c20nWalkerErr] > 0, "IPv6FindUpperProtocol outcomes: ok=%d err=%d", n[c20nWalkerOK], n[c20nWalkerErr])
	guard(len(outcomes) >= 20, "only %d distinct outcomes", len(outcomes))
	if len(unmet) > 0 {
		c.Set("vacuity_guards_unmet", map[string]any{"because": guardsOff, "guards": unmet})
	}

	protoList := make([]string, 0, len(protoAcc))
	for k := range protoAcc {
		protoList = append(protoList, fmt.Sprintf("v%d/%d", k>>8, k&0xff))
	}
	sort.Strings(protoList)
	c.Set("evaluations", n[c20nEvals])
	c.Set("distinct_nontrivial", n[c20nNonTrivial])
	c.Set("rule", "one evaluation = one newPacket call on one (byte string, direction); every family enumerates its box completely (short strings, 1-edit mutants of 40 seeds, 16-bit field sweeps, IPv4 IHL x fragment field x protocol x truncation, IPv6 chain x upper layer x declared length x truncation). "+
		"Non-trivial = accepted by the real parser or resolvable by the reference. Distinct: the seed-mutant and structured families generate pairwise distinct byte strings by construction (canonical edits; cuts that would repeat an earlier packet are skipped; a TOS/traffic-class marker and the id/flow-label keep families more than two edits apart) and are counted directly; "+
		"the sweep families go through a 64-bit hash of (bytes, direction) in a fixed hash bitmap, a collision counting as a duplicate (lower bound).")
	c.Set("byte_strings_per_family", fam)
	c.Set("accepted_by_both_v4", n[c20nBothAccept4])
	c.Set("accepted_by_both_v6", n[c20nBothAccept6])
	c.Set("rejected_by_both", n[c20nBothReject])
	c.Set("rejected_by_nebula_only_allowed", n[c20nImplRejectOnly])
	c.Set("violating_evaluations", n[c20nViolating])
	c.Set("distinct_outcomes", len(outcomes))
	c.Set("protocols_accepted_by_both", len(protoList))
	c.Set("longest_accepted_extension_chain", maxExt)
	c.Set("walker_calls", n[c20nWalkerCalls])
	c.Set("walker_ok", n[c20nWalkerOK])
	c.Set("walker_err", n[c20nWalkerErr])
	c.Set("fragments", map[string]int64{"v4_non_first": n[c20nFragNonFirst4], "v4_first": n[c20nFragFirst4], "v6_non_first": n[c20nFragNonFirst6], "v6_first_or_atomic": n[c20nFragFirst6]})
	c.Set("info_v6_non_first_fragment_whose_fragmented_protocol_is_an_extension_header", n[c20nNonFirstExtNext])
	c.Set("info_v4_portless_protocol_with_nonzero_ports", n[c20nV4PortlessNonzero])
	c.Set("incoming_calls", n[c20nIn])
	c.Set("outgoing_calls", n[c20nOut])

	c.Assume("extension headers = hop-by-hop 0, routing 43, destination 60, fragment 44, AH 51 (the kinds the statement names); every other next-header value, including 50/59/135/139/140/253/254, is an upper-layer protocol")
	c.Assume("the reference ignores IPv4 total length / IPv6 payload length, checksums, option contents and header ordering rules: only buffer bounds decide resolvability (weaker reading; the statement speaks of the buffer being parsed)")
	c.Assume("a reject by nebula where the reference resolves the packet is allowed by 'either rejects'; only the 40 well-formed seeds are required to be accepted (vacuity guard, not a verdict)")
	c.Assume("ports are compared for TCP and UDP only; for IPv4 protocols without ports nebula copies the first four payload bytes into the port fields, which the statement does not define (counted in info_v4_portless_protocol_with_nonzero_ports)")
	c.Assume("the ICMP identifier is compared for echo-style messages only (v4 types 0,8,13-18; v6 128,129); LocalPort must be 0 for ICMP as documented on firewall.Packet")
	c.Assume("non-first fragments: ports must be 0, IPHdrLen is not compared, and Protocol is the fragment header's next-header field even when that names an extension header (the rest of the chain is in the first fragment; Linux netfilter reports the same). Counted in info_v6_non_first_fragment_whose_fragmented_protocol_is_an_extension_header")
	c.Assume("byte strings longer than the box (more than one edit away from a seed, chains longer than " + fmt.Sprint(maxLen) + " or mixing more than two header kinds beyond length " + fmt.Sprint(fullLen) + ") are not explored")
}
