//go:build verif

package nebula

import (
	"fmt"
	"log/slog"
	"net/netip"
	"slices"
	"sort"

	"github.com/slackhq/nebula/udp"
	"github.com/slackhq/nebula/zzverif/mc"
	"github.com/slackhq/nebula/zzverif/sched"
	"github.com/slackhq/nebula/zzverif/vrand"
)

// E1 half of C28/C29: 2–3 scheduler threads run the REAL allocateIndex+Complete, CheckAndComplete, DeleteHostInfo
// (also twice on one hostinfo), MakePrimary, swapPrimary-style promotion and AddRelay concurrently on the same overlay
// address; hostmap.go, handshake_manager.go, relay_manager.go run on the sync/atomic shims, so every lock acquisition is
// a scheduling point. All schedules up to a preemption bound are executed; after each one the raw maps are checked.

type c29eWorld struct {
	l    *slog.Logger
	hm   *HostMap
	hsm  *HandshakeManager
	f    *Interface
	next uint32
	all  []*HostInfo // every hostinfo ever created, in creation order
	dead map[*HostInfo]bool
}

var c29eA = netip.MustParseAddr("10.0.0.7")
var c29eB = netip.MustParseAddr("10.0.0.8")

func c29eNew(space uint32) *c29eWorld {
	w := &c29eWorld{l: slog.New(slog.DiscardHandler), dead: map[*HostInfo]bool{}}
	w.hm = newHostMap(w.l)
	pr := []netip.Prefix{}
	w.hm.preferredRanges.Store(&pr)
	lh := &LightHouse{l: w.l, addrMap: map[netip.Addr]*RemoteList{}, queryChan: make(chan netip.Addr, 4), amLighthouse: true}
	lhs := []netip.Addr{}
	static := map[netip.Addr]struct{}{}
	lh.lighthouses.Store(&lhs)
	lh.staticList.Store(&static)
	w.hsm = NewHandshakeManager(w.l, w.hm, lh, &udp.NoopConn{}, HandshakeConfig{tryInterval: DefaultHandshakeTryInterval, retries: 2, triggerBuffer: 1})
	w.f = &Interface{handshakeManager: w.hsm, hostMap: w.hm, lightHouse: lh, pki: &PKI{}, l: w.l}
	w.hsm.f = w.f
	w.next = 1
	// index generator: counts 1,2,..,space-1,1,.. (never 0 here; zero handling is covered by the history half).
	// Only one scheduler thread runs at a time, so the plain counter is safe.
	vrand.SetGlobalSource(vrand.Uint32s(func() uint32 {
		v := w.next
		w.next++
		if w.next >= space {
			w.next = 1
		}
		return v
	}))
	return w
}

func (w *c29eWorld) close() { vrand.SetGlobalSource(nil) }

func (w *c29eWorld) newHI(addrs []netip.Addr, local, remote uint32, tag byte) *HostInfo {
	hi := &HostInfo{vpnAddrs: addrs, localIndexId: local, remoteIndexId: remote, ConnectionState: &ConnectionState{},
		HandshakePacket: map[uint8][]byte{handshakePacketStage0: {tag, byte(len(w.all))}},
		relayState:        RelayState{relayForByAddr: map[netip.Addr]*Relay{}, relayForByIdx: map[uint32]*Relay{}}}
	c28SetInt(&hi.lastHandshakeTime, 100+len(w.all))
	w.all = append(w.all, hi)
	return hi
}

// seed adds an established tunnel through the real CheckAndComplete.
func (w *c29eWorld) seed(addrs []netip.Addr, remote uint32) *HostInfo {
	idx, _ := generateIndex(w.l)
	hi := w.newHI(addrs, idx, remote, 's')
	if _, err := w.hsm.CheckAndComplete(hi, handshakePacketStage0, w.f); err != nil {
		panic(err)
	}
	return hi
}

// invariants evaluates the C28/C29 invariants from the raw maps (no locks held: all threads have finished).
func (w *c29eWorld) invariants() []string {
	var bad []string
	hm := w.hm
	live := func(h *HostInfo) bool { return h != nil && hm.Indexes[h.localIndexId] == h }
	for a, h := range hm.Hosts {
		if !live(h) {
			bad = append(bad, fmt.Sprintf("Hosts[%v] is not live", a))
		}
		if !slices.Contains(h.vpnAddrs, a) {
			bad = append(bad, fmt.Sprintf("Hosts[%v] does not own the address", a))
		}
		if l, ok := hm.moreHosts[a]; ok && (len(l) == 0 || l[0] != h) {
			bad = append(bad, fmt.Sprintf("Hosts[%v] is not the head of its list", a))
		}
	}
	for a, l := range hm.moreHosts {
		if len(l) > MaxHostInfosPerVpnIp {
			bad = append(bad, fmt.Sprintf("list of %v holds %d tunnels", a, len(l)))
		}
		seen := map[*HostInfo]bool{}
		for _, h := range l {
			if seen[h] {
				bad = append(bad, fmt.Sprintf("list of %v holds a tunnel twice", a))
			}
			seen[h] = true
			if !live(h) {
				bad = append(bad, fmt.Sprintf("list of %v holds a tunnel that is not live", a))
			}
			if !slices.Contains(h.vpnAddrs, a) {
				bad = append(bad, fmt.Sprintf("list of %v holds a tunnel that does not own it", a))
			}
		}
		if _, ok := hm.Hosts[a]; !ok {
			bad = append(bad, fmt.Sprintf("list for %v without a primary", a))
		}
	}
	for i, h := range hm.Indexes {
		if i == 0 || h.localIndexId != i {
			bad = append(bad, fmt.Sprintf("Indexes[%d] holds a tunnel whose index is %d", i, h.localIndexId))
		}
		for _, a := range h.vpnAddrs {
			inList := hm.Hosts[a] == h
			for _, x := range hm.moreHosts[a] {
				if x == h {
					inList = true
				}
			}
			if !inList {
				bad = append(bad, "a live tunnel is missing from the list of an address it owns")
			}
		}
	}
	for r, h := range hm.RemoteIndexes {
		if !live(h) {
			bad = append(bad, fmt.Sprintf("RemoteIndexes[%d] points at a tunnel that is not live", r))
		}
	}
	for i, h := range hm.Relays {
		if !live(h) {
			bad = append(bad, fmt.Sprintf("Relays[%d] points at a tunnel that is not live", i))
		} else if _, ok := h.relayState.relayForByIdx[i]; !ok {
			bad = append(bad, fmt.Sprintf("Relays[%d] owner does not list the relay index", i))
		}
	}
	// index uniqueness across pending and established
	for i, hh := range w.hsm.indexes {
		if i == 0 {
			bad = append(bad, "pending index 0")
		}
		if other, ok := hm.Indexes[i]; ok && other != hh.hostinfo {
			bad = append(bad, fmt.Sprintf("local index %d held by a pending and an established tunnel", i))
		}
	}
	// a tunnel whose removal completed is referenced nowhere
	for h := range w.dead {
		if live(h) {
			continue // re-added legitimately is impossible here: no thread re-adds a removed pointer
		}
		for a, x := range hm.Hosts {
			if x == h {
				bad = append(bad, fmt.Sprintf("removed tunnel still primary for %v", a))
			}
		}
		for a, l := range hm.moreHosts {
			if slices.Contains(l, h) {
				bad = append(bad, fmt.Sprintf("removed tunnel still listed for %v", a))
			}
		}
		for i, x := range hm.Relays {
			if x == h {
				bad = append(bad, fmt.Sprintf("removed tunnel still owns relay index %d", i))
			}
		}
	}
	sort.Strings(bad)
	return slices.Compact(bad)
}

type c29eScenario struct {
	name  string
	space uint32
	build func(w *c29eWorld) []func()
}

func c29eScenarios() []c29eScenario {
	A, AB := []netip.Addr{c29eA}, []netip.Addr{c29eA, c29eB}
	return []c29eScenario{
		{"complete-vs-checkandcomplete-vs-delete", 16, func(w *c29eWorld) []func() {
			h0 := w.seed(AB, 50)
			hh := &HandshakeHostInfo{hostinfo: w.newHI(A, 0, 51, 'p')}
			hh.hostinfo.ConnectionState = &ConnectionState{initiator: true}
			w.hsm.vpnIps[c29eA] = hh
			return []func(){
				func() {
					if _, err := w.hsm.allocateIndex(hh); err == nil {
						w.hsm.Complete(hh.hostinfo, w.f)
					}
				},
				func() {
					idx, _ := generateIndex(w.l)
					h2 := w.newHI(A, idx, 52, 'c')
					_, _ = w.hsm.CheckAndComplete(h2, handshakePacketStage0, w.f)
				},
				func() {
					w.hm.DeleteHostInfo(h0)
					w.dead[h0] = true
				},
			}
		}},
		{"double-delete-vs-add-with-reissued-index", 3, func(w *c29eWorld) []func() {
			h0 := w.seed(A, 50) // takes index 1; the generator then serves 2,1,2,1..
			w.seed(AB, 53)      // index 2
			return []func(){
				func() { w.hm.DeleteHostInfo(h0); w.dead[h0] = true },
				func() { w.hm.DeleteHostInfo(h0) },
				func() {
					for try := 0; try < 3; try++ {
						idx, _ := generateIndex(w.l)
						h3 := w.newHI(A, idx, 54, 'c')
						if _, err := w.hsm.CheckAndComplete(h3, handshakePacketStage0, w.f); err == nil {
							return
						}
					}
				},
			}
		}},
		{"addrelay-vs-delete-vs-makeprimary", 16, func(w *c29eWorld) []func() {
			h0 := w.seed(A, 50)
			h1 := w.seed(AB, 51)
			return []func(){
				func() { _, _ = AddRelay(w.l, h0, w.hm, c29eB, nil, ForwardingType, Requested) },
				func() { w.hm.DeleteHostInfo(h0); w.dead[h0] = true },
				func() { w.hm.MakePrimary(h1); w.hm.MakePrimary(h0) },
			}
		}},
		{"swapprimary-vs-delete-vs-add", 16, func(w *c29eWorld) []func() {
			h0 := w.seed(A, 50)
			h1 := w.seed(A, 51) // primary
			cm := &connectionManager{hostMap: w.hm, l: w.l}
			return []func(){
				func() { cm.swapPrimary(h0, h1) },
				func() { w.hm.DeleteHostInfo(h0); w.dead[h0] = true },
				func() {
					idx, _ := generateIndex(w.l)
					_, _ = w.hsm.CheckAndComplete(w.newHI(A, idx, 55, 'c'), handshakePacketStage0, w.f)
				},
			}
		}},
		{"cap-eviction-vs-delete", 16, func(w *c29eWorld) []func() {
			var hs []*HostInfo
			for i := 0; i < MaxHostInfosPerVpnIp; i++ {
				hs = append(hs, w.seed(A, uint32(60+i)))
			}
			return []func(){
				func() {
					idx, _ := generateIndex(w.l)
					_, _ = w.hsm.CheckAndComplete(w.newHI(AB, idx, 70, 'c'), handshakePacketStage0, w.f)
				},
				func() { w.hm.DeleteHostInfo(hs[0]); w.dead[hs[0]] = true },
			}
		}},
	}
}

// c29E1 runs the schedule exploration; prefix distinguishes C28 / C29 signatures.
func c29E1(c *mc.Check, prefix string) (schedules, points int64) {
	outcomes := map[string]int64{}
	for _, sc := range c29eScenarios() {
		var w *c29eWorld
		bound := mc.Pick(c, 2, 3)
		res := sched.Explore(sched.Options{Bound: bound, Stop: c.OutOfTime}, func() {
			w = c29eNew(sc.space)
			for _, f := range sc.build(w) {
				sched.Go(f)
			}
		}, func(x *sched.Exec) {
			schedules++
			defer w.close()
			if x.Aborted {
				c.Violation(prefix+" E1 "+sc.name+": "+x.Reason, map[string]any{"schedule": x.Choices})
				return
			}
			outcomes[fmt.Sprintf("%s: %d established, %d pending, %d relays", sc.name, len(w.hm.Indexes), len(w.hsm.indexes), len(w.hm.Relays))]++
			for _, b := range w.invariants() {
				c.Violation(prefix+" under concurrent operations ("+sc.name+"): "+b, map[string]any{"scenario": sc.name, "schedule": x.Choices, "threads_chosen": x.Who})
			}
		})
		points += res.ChoicePoints
		if !res.Complete {
			c.Capped("time budget in E1 scenario " + sc.name)
		}
		c.Set("e1_schedules_"+sc.name, res.Executions)
	}
	c.Set("e1_distinct_outcomes", len(outcomes))
	c.Set("e1_preemption_bound", mc.Pick(c, 2, 3))
	return
}
