//go:build verif

package nebula

import (
	"fmt"
	"log/slog"
	"math"
	"testing"

	"github.com/slackhq/nebula/zzverif/mc"
)

// C11 — the replay window accepts each counter exactly once when in range.
//
// Explicit-state search over the REAL Bits object. Bits is plain data (current + bitmap), so a state is cloned exactly;
// every transition is a call of the real Check and Update. Reference model: the statement transcribed — the set of
// accepted counters and their maximum.

type c11Ref struct {
	length   uint64
	max      uint64
	accepted map[uint64]bool // accepted counters (only those that can still matter are kept)
}

func newC11Ref(length uint64) *c11Ref {
	return &c11Ref{length: length, accepted: map[uint64]bool{0: true}} // counter 0 does not exist: pre-accepted
}

func (r *c11Ref) inWindow(i uint64) bool {
	if i > r.max {
		return true
	}
	if r.max < r.length { // initial window covers the first `length` counters
		return i < r.length
	}
	return i > r.max-r.length // the `length` counters just below (and including) the highest
}

func (r *c11Ref) wouldAccept(i uint64) bool { return !r.accepted[i] && r.inWindow(i) }

func (r *c11Ref) update(i uint64) bool {
	if !r.wouldAccept(i) {
		return false
	}
	r.accepted[i] = true
	if i > r.max {
		r.max = i
		for k := range r.accepted { // forget what fell out of the window (can never be accepted again anyway)
			if k != 0 && !r.inWindow(k) {
				delete(r.accepted, k)
			}
		}
	}
	return true
}

func (r *c11Ref) clone() *c11Ref {
	n := &c11Ref{length: r.length, max: r.max, accepted: make(map[uint64]bool, len(r.accepted))}
	for k, v := range r.accepted {
		n.accepted[k] = v
	}
	return n
}

func c11CloneBits(b *Bits) *Bits {
	n := *b
	n.bits = append([]uint64(nil), b.bits...)
	return &n
}

func c11Key(b *Bits) string {
	return fmt.Sprintf("%d/%x", b.current, b.bits)
}

type c11Node struct {
	b    *Bits
	r    *c11Ref
	hist []uint64
}

// c11Step applies counter i to a clone of n, checks the oracle, returns the successor.
func c11Step(c *mc.Check, l *slog.Logger, n *c11Node, i uint64, region string) *c11Node {
	b, r := c11CloneBits(n.b), n.r.clone()
	before := c11Key(b)
	pre := b.Check(l, i)
	if c11Key(b) != before {
		c.Violation(fmt.Sprintf("window=%d region=%s: Check mutates state", b.length, region), map[string]any{"history": n.hist, "counter": i})
	}
	got := b.Update(l, i)
	want := r.update(i)
	hist := append(append([]uint64{}, n.hist...), i)
	if pre != got {
		c.Violation(fmt.Sprintf("window=%d region=%s: Check predicts %v but Update returns %v", b.length, region, pre, got), map[string]any{"history": hist})
	}
	if got != want {
		kind := "rejects a fresh in-range counter"
		if got {
			kind = "accepts a counter that is replayed or below the window"
		}
		c.Violation(fmt.Sprintf("window=%d region=%s: %s", b.length, region, kind), map[string]any{"history": hist, "impl": got, "reference": want, "impl_current": b.current, "ref_max": r.max})
	}
	if got && want && b.current != r.max {
		c.Violation(fmt.Sprintf("window=%d region=%s: highest accepted counter diverges", b.length, region), map[string]any{"history": hist, "impl_current": b.current, "ref_max": r.max})
	}
	return &c11Node{b, r, hist}
}

func TestVerifC11(t *testing.T) {
	c := mc.Begin(t, "C11", "model_checking")
	defer c.End()
	l := slog.New(slog.DiscardHandler)
	var states, transitions int64
	outcomes := map[string]int64{}

	bfs := func(name string, start *c11Node, alphabet func(n *c11Node) []uint64, maxDepth int, region string) {
		seen := map[string]bool{c11Key(start.b): true}
		frontier := []*c11Node{start}
		states++
		depth := 0
		for len(frontier) > 0 {
			if depth >= maxDepth {
				c.Capped(name + " depth cap")
				break
			}
			var next []*c11Node
			for _, n := range frontier {
				if c.Violations() > 50 {
					return
				}
				for _, i := range alphabet(n) {
					s := c11Step(c, l, n, i, region)
					transitions++
					if s.b.current != n.b.current {
						outcomes["advance"]++
					} else if c11Key(s.b) != c11Key(n.b) {
						outcomes["backfill"]++
					} else {
						outcomes["reject"]++
					}
					k := c11Key(s.b)
					if !seen[k] {
						seen[k] = true
						states++
						next = append(next, s)
						c.SampleEvery(states, func() any { return map[string]any{"scenario": name, "history": s.hist, "current": s.b.current} })
					}
				}
			}
			frontier = next
			depth++
			if c.OutOfTime() {
				c.Capped(name + " time budget")
				return
			}
		}
		// state-equivalence sweep on the last frontier is implied: every state was expanded with the whole alphabet
	}

	// (a) closure for small windows: alphabet = every counter 0..4*len; search runs until the frontier is empty.
	small := []uint64{1, 2, 4, 8}
	if c.Thorough() {
		small = append(small, 16)
	}
	for _, ln := range small {
		top := 4 * ln
		if ln == 16 {
			top = 3 * ln
		}
		alpha := make([]uint64, 0, top+1)
		for i := uint64(0); i <= top; i++ {
			alpha = append(alpha, i)
		}
		bfs(fmt.Sprintf("closure-len%d", ln), &c11Node{NewBits(ln), newC11Ref(ln), nil}, func(*c11Node) []uint64 { return alpha }, 1<<30, "low")
	}
	closureStates := states

	// (b) word-boundary windows with relative jumps, from the initial state and from a state past warm-up
	deltas := func(ln uint64) []int64 {
		L := int64(ln)
		d := []int64{-L - 1, -L, -L + 1, -65, -64, -63, -1, 0, 1, 2, 63, 64, 65, L - 1, L, L + 1, 2 * L}
		return d
	}
	rel := func(ln uint64) func(n *c11Node) []uint64 {
		ds := deltas(ln)
		return func(n *c11Node) []uint64 {
			out := make([]uint64, 0, len(ds))
			seen := map[uint64]bool{}
			for _, d := range ds {
				v := n.b.current + uint64(d) // wraps deliberately
				if d < 0 && uint64(-d) > n.b.current && n.b.current < 1<<63 {
					continue // below zero
				}
				if !seen[v] {
					seen[v] = true
					out = append(out, v)
				}
			}
			return out
		}
	}
	depthB := mc.Pick(c, 4, 5)
	for _, ln := range []uint64{64, 128, 8192} {
		bfs(fmt.Sprintf("jumps-len%d", ln), &c11Node{NewBits(ln), newC11Ref(ln), nil}, rel(ln), depthB, "low")
		// non-initial start: well past warm-up with a sparse window (every third counter of the last window accepted)
		// (two alignments of the cursor inside its 64-bit word: end of word and mid-word)
		for _, extra := range []uint64{0, 37} {
			n := &c11Node{NewBits(ln), newC11Ref(ln), nil}
			for i := uint64(1); i <= 3*ln+extra; i += 3 {
				n = c11Step(c, l, n, i, "low")
			}
			n.hist = []uint64{math.MaxUint64, n.b.current} // marker: "sparse prefix 1,4,7,..,current"
			bfs(fmt.Sprintf("jumps-len%d-sparse+%d", ln, extra), n, rel(ln), depthB, "low")
		}
	}

	// (c) counters near 2^64. The start state cannot be reached by 2^64 legitimate packets in a test, so the private
	// fields are set directly: current = 2^64-k with the whole window below it marked accepted.
	for _, ln := range []uint64{4, 64, 8192} {
		for _, k := range []uint64{1, 2, 20, ln, ln + 1, ln + 40} {
			b := NewBits(ln)
			r := newC11Ref(ln)
			b.current = math.MaxUint64 - k + 1
			r.max = b.current
			for j := uint64(0); j < ln; j++ {
				if j%2 == 0 { // every second counter of the window already accepted
					b.set(b.current - j)
					r.accepted[b.current-j] = true
				}
			}
			if b.current&b.lengthMask != 0 { // slot 0 marker from NewBits belongs to a different counter now
				if !r.accepted[b.current-(b.current&b.lengthMask)] {
					b.bits[0] &^= 1
				}
			}
			alpha := func(n *c11Node) []uint64 {
				var out []uint64
				seen := map[uint64]bool{}
				for _, d := range []int64{-int64(ln) - 1, -int64(ln), -int64(ln) + 1, -2, -1, 0, 1, 2, 19, 20, 21, int64(ln) - 1, int64(ln), int64(ln) + 1} {
					v := n.b.current + uint64(d)
					if d > 0 && v < n.b.current {
						continue // would pass 2^64: no such counter exists
					}
					if !seen[v] {
						seen[v] = true
						out = append(out, v)
					}
				}
				for _, v := range []uint64{math.MaxUint64, math.MaxUint64 - 1, 0, 1} {
					if !seen[v] {
						seen[v] = true
						out = append(out, v)
					}
				}
				return out
			}
			bfs(fmt.Sprintf("near2^64-len%d-k%d", ln, k), &c11Node{b, r, []uint64{b.current}}, alpha, mc.Pick(c, 3, 4), "near2^64")
		}
	}

	c.Require(outcomes["advance"] > 0 && outcomes["backfill"] > 0 && outcomes["reject"] > 0, "outcome classes not all reached: %v", outcomes)
	c.Set("states", states)
	c.Set("transitions", transitions)
	c.Set("traces_validated_against_impl", transitions)
	c.Set("closure_states_small_windows", closureStates)
	c.Set("outcomes", outcomes)
	c.Set("explanation", "states = distinct (current, bitmap) values of the real Bits; transitions = real Check+Update calls; small windows are searched to closure (frontier empty), large windows to the stated depth")
	c.Assume("near-2^64 start states are constructed by setting Bits.current/bits directly (2^64 packets cannot be replayed)")
	c.Assume("counters that would exceed 2^64-1 do not exist and are not offered")
}
