//go:build verif

package nebula

import (
	"bytes"
	"encoding/json"
	"fmt"
	"os"
	"os/exec"
	"path/filepath"
	"runtime/debug"
	"strconv"
	"strings"
	"testing"
	realtime "time"

	"github.com/slackhq/nebula/firewall"
	"github.com/slackhq/nebula/header"
	"github.com/slackhq/nebula/overlay/batch"
	"github.com/slackhq/nebula/overlay/tio"
	"github.com/slackhq/nebula/udp"
	"github.com/slackhq/nebula/zzverif/mc"
	"github.com/slackhq/nebula/zzverif/sched"
	"github.com/slackhq/nebula/zzverif/vtime"
)

// C32, schedules half (engine E1 over the E4 node assembly).
//
// c32_test.go drives the node goroutine-free: a packet is queued, THEN the reply is processed. On a running node the
// udp reader that completes the handshake (readOutsidePackets -> HandleIncoming -> continueHandshake -> Complete -> flush
// of the packet store) runs concurrently with the tun readers that queue packets on the very same pending handshake
// (consumeInsidePacket -> GetOrHandshake -> StartHandshake -> cachePacket). "Completion at any attempt ... queued packet
// counts" of the quantifier includes the packets that are queued WHILE the completion is in progress. Here node a is a
// real driven node with a pending handshake to a real peer b (N0 marked packets already queued, b's genuine reply
// captured from the wire) and the threads
//
//	T0      udp reader of a: b's reply (continueHandshake)
//	T1, T2  tun readers of a on their own routines: one more marked packet each, to b
//
// run under the controlled scheduler: every file of package nebula that uses sync runs on the scheduler shim, every lock
// acquisition is a scheduling point, ALL schedules up to a preemption bound are executed. After every schedule the
// network is run loss-free (with handshake timer ticks, so that a follow-on handshake a sender may have started after the
// first one completed runs to its end too) and the statement is evaluated for every handshake h of a to b that
// completed, over the packets its queue accepted (h's packet store; the store is append-only):
//
//	(q) the queue never holds more than 100 packets
//	(s) every accepted packet the outbound firewall allows reaches b's tun exactly once, a denied one never
//	(o) the accepted packets reach b's tun in queue order
//
// Packets that were sent directly (the sender found the established tunnel) or refused (queue full) are not "queued
// packets" and are not judged; they are counted.

type c32e1Scenario struct {
	Name          string
	FW            string // outbound rule set of a: "all" | "p80" (c32OutboundRules)
	N0            int    // packets queued before the reply arrives
	Senders       int    // concurrent tun readers
	QuickBound    int    // preemption bound of the quick tier when it is not the default
	ThoroughOnly  bool
	ThoroughBound int // preemption bound of the thorough tier when it is not the default
}

func c32e1Scenarios() []c32e1Scenario {
	return []c32e1Scenario{
		{Name: "reply vs 1 sender/allow-all/1 queued", FW: "all", N0: 1, Senders: 1},
		{Name: "reply vs 2 senders/port-80/3 queued", FW: "p80", N0: 3, Senders: 2},
		{Name: "reply vs 1 sender/allow-all/99 queued", FW: "all", N0: 99, Senders: 1, QuickBound: 1},
		{Name: "reply vs 1 sender/allow-all/100 queued", FW: "all", N0: 100, Senders: 1, QuickBound: 1},
		{Name: "reply vs 2 senders/allow-all/99 queued", FW: "all", N0: 99, Senders: 2, ThoroughOnly: true, ThoroughBound: 2},
	}
}

const c32e1Mark = "C32E1-MARK-"

func c32e1Marker(p []byte) int {
	i := bytes.Index(p, []byte(c32e1Mark))
	if i < 0 || len(p) < i+len(c32e1Mark)+5 {
		return -1
	}
	n, err := strconv.Atoi(string(p[i+len(c32e1Mark) : i+len(c32e1Mark)+5]))
	if err != nil {
		return -1
	}
	return n
}

type c32e1Sender struct {
	q      int
	marker int
	pkt    []byte
	fwp    *firewall.ParsedPacket
	nb     []byte
	rej    []byte
	sb     *batch.SendBatch
	begin  int
	end    int
}

type c32e1Run struct {
	sc           c32e1Scenario
	net          *vnet
	a, b         *vnode
	hhA          *HandshakeHostInfo
	senders      []*c32e1Sender
	dropped0     int64
	clock        int
	t0Begin      int
	t0End        int
	run          []func()
	threadNames  []string
	nMarkers     int
	storeAtStart int
}

func (r *c32e1Run) tick() int { r.clock++; return r.clock }

func (r *c32e1Run) packet(mk int) []byte {
	return vUDPPacket(r.a.vpnIP, r.b.vpnIP, 4000, c32Port(mk), []byte(fmt.Sprintf("%s%05d", c32e1Mark, mk)))
}

func c32e1Handshakes(pkts []vpkt) []vpkt {
	var out []vpkt
	for _, p := range pkts {
		var h header.H
		if h.Parse(p.Data) == nil && h.Type == header.Handshake {
			out = append(out, p)
		}
	}
	return out
}

func c32e1Capture(net *vnet, act func()) []vpkt {
	act()
	net.collect()
	out := net.inflight
	net.inflight = nil
	return out
}

// c32e1Setup builds the nodes, brings a's handshake to b to "first message sent, N0 packets queued, reply on the wire"
// and prepares the threads.
func c32e1Setup(t testing.TB, sc c32e1Scenario) *c32e1Run {
	r := &c32e1Run{sc: sc}
	sa := vnodeSpec{Name: "a", Networks: "10.0.0.1/24", Udp: "192.0.2.1:4242", Routines: 1 + sc.Senders, Overrides: m{
		"static_host_map": m{"10.0.0.2": []string{"192.0.2.2:4242"}},
		"handshakes":      m{"retries": 3}}}
	sb := vnodeSpec{Name: "b", Networks: "10.0.0.2/24", Udp: "192.0.2.2:4242", Overrides: m{
		"static_host_map": m{"10.0.0.1": []string{"192.0.2.1:4242"}}}}
	r.net = vNewNet(t, 1, sa, sb)
	r.a, r.b = r.net.node("a"), r.net.node("b")
	a, b, net := r.a, r.b, r.net
	if sc.FW != "all" {
		c32SetOutbound(t, a, c32OutboundRules(sc.FW))
	}
	a.hsTick() // a running node: the retry wheel has ticked
	var s1 []vpkt
	if sc.N0 == 0 {
		s1 = c32e1Capture(net, func() { a.hm.StartHandshake(b.vpnIP, nil); a.settle() })
	}
	for i := 0; i < sc.N0; i++ {
		pkt := r.packet(r.nMarkers)
		r.nMarkers++
		s1 = append(s1, c32e1Capture(net, func() { a.tunSend(pkt) })...)
	}
	s1 = c32e1Handshakes(s1)
	if len(s1) != 1 {
		t.Fatalf("c32e1 %s: first message: %v", sc.Name, s1)
	}
	reply := c32e1Handshakes(c32e1Capture(net, func() { b.deliver(a.udp, s1[0].Data) }))
	if len(reply) != 1 || reply[0].To != a.udp {
		t.Fatalf("c32e1 %s: reply: %v", sc.Name, reply)
	}
	r.hhA = a.hm.vpnIps[b.vpnIP]
	if r.hhA == nil || len(r.hhA.packetStore) != min(sc.N0, 100) {
		t.Fatalf("c32e1 %s: pending handshake not in the expected state", sc.Name)
	}
	r.storeAtStart = len(r.hhA.packetStore)
	r.dropped0 = a.f.cachedPacketMetrics.dropped.Count()
	data := reply[0].Data
	r.threadNames = []string{"T0 udp reader: b's genuine reply"}
	r.run = []func(){func() {
		r.t0Begin = r.tick()
		a.deliverOn(0, b.udp, data)
		r.t0End = r.tick()
	}}
	for i := 1; i <= sc.Senders; i++ {
		s := &c32e1Sender{q: i, marker: r.nMarkers, pkt: r.packet(r.nMarkers), fwp: &firewall.ParsedPacket{}, nb: make([]byte, 12, 12), rej: make([]byte, mtu),
			sb: batch.NewSendBatch(a.conns[i], 4, 4*(udp.MTU+32))}
		r.nMarkers++
		r.senders = append(r.senders, s)
		r.threadNames = append(r.threadNames, fmt.Sprintf("T%d tun reader %d: packet #%d to b (udp port %d)", i, i, s.marker, c32Port(s.marker)))
		r.run = append(r.run, func() {
			s.begin = r.tick()
			a.f.consumeInsidePacket(tio.Packet{Bytes: append([]byte(nil), s.pkt...)}, s.fwp, s.nb, s.sb, s.rej, s.q, nil)
			a.f.flushSendBatch(s.sb, s.q)
			s.end = r.tick()
		})
	}
	return r
}

func (r *c32e1Run) close() { r.net.close() }

// c32e1Completed: the handshake's tunnel went into the main hostmap.
func c32e1Completed(a *vnode, hh *HandshakeHostInfo) bool {
	h := hh.hostinfo
	return a.hm.vpnIps[h.vpnAddrs[0]] != hh && h.localIndexId != 0 && (a.f.hostMap.Indexes[h.localIndexId] == h || h.ConnectionState != nil)
}

type c32e1Problem struct {
	sig    string
	detail map[string]any
}

// judge runs the network to quiescence and evaluates (q), (s), (o). Returns findings and outcome flags.
func (r *c32e1Run) judge() ([]c32e1Problem, map[string]bool, string) {
	a, b, net := r.a, r.b, r.net
	flags := map[string]bool{}
	// which senders wrote a data datagram on their own socket (= found the tunnel and sent directly)
	direct := map[int]bool{}
	for _, s := range r.senders {
		for _, p := range a.conns[s.q].out {
			var h header.H
			if h.Parse(p.Data) == nil && h.Type == header.Message {
				direct[s.marker] = true
			}
		}
	}
	hhs := []*HandshakeHostInfo{r.hhA}
	if f := a.hm.vpnIps[b.vpnIP]; f != nil && f != r.hhA {
		hhs = append(hhs, f) // a sender missed the main hostmap, then found no pending handshake either: it started a new one
		flags["follow_on_handshake"] = true
	}
	// loss-free network, prompt workers, timer ticks until a has no pending handshake left. The handshake worker picks a
	// follow-on handshake's trigger up a millisecond after the threads ran: its first message is stamped later than the
	// one b answered (on a frozen clock b would take it for a stale one and never answer).
	vtime.Advance(vtime.Millisecond)
	a.settle()
	net.collect()
	net.flushFIFO(1000)
	for round := 0; round < 12 && len(a.hm.vpnIps) > 0; round++ {
		vtime.Advance(100 * vtime.Millisecond)
		a.hsTick()
		net.collect()
		net.flushFIFO(1000)
	}
	arrivals := map[int]int{}
	var order []int
	for _, p := range net.tunLog["b"] {
		if mk := c32e1Marker(p); mk >= 0 {
			arrivals[mk]++
			order = append(order, mk)
		}
	}
	var probs []c32e1Problem
	var oc []string
	queuedSomewhere := map[int]bool{}
	for hi, hh := range hhs {
		name := "the handshake under test"
		if hi > 0 {
			name = "the follow-on handshake"
		}
		var store []int
		for _, cp := range hh.packetStore {
			store = append(store, c32e1Marker(cp.packet))
		}
		for _, mk := range store {
			queuedSomewhere[mk] = true
		}
		done := c32e1Completed(a, hh)
		oc = append(oc, fmt.Sprintf("%s: %d queued, completed=%v", name, len(store), done))
		detail := func() map[string]any {
			return map[string]any{"handshake": name, "queue_of_that_handshake_(packet_numbers)": c32e1Short(store), "packets_on_b's_tun_in_arrival_order": c32e1Short(order),
				"outbound_rules_of_a": r.sc.FW, "queued_before_the_threads_started": r.storeAtStart, "sent_directly_by_their_tun_reader": fmt.Sprint(direct)}
		}
		if len(store) > 100 {
			probs = append(probs, c32e1Problem{"C32 completion under concurrent senders: more than 100 packets queued on one pending handshake", detail()})
		}
		if !done {
			flags["handshake_not_completed"] = true
			continue // abandoned (or still pending): its queue is dropped, nothing to release
		}
		if hi == 0 {
			flags["A_completed"] = true
		} else {
			flags["follow_on_completed"] = true
		}
		bad := false
		inStore := map[int]bool{}
		var expect []int
		for _, mk := range store {
			if mk < 0 {
				continue
			}
			inStore[mk] = true
			late := mk >= r.storeAtStart
			if late {
				flags["sender_queued"] = true
			}
			allowed := c32Allowed(r.sc.FW, mk)
			switch {
			case allowed && arrivals[mk] == 0:
				bad = true
				w := "a packet queued before the reply arrived"
				if late {
					w = "a packet queued by a concurrent tun reader while the reply was being processed"
				}
				probs = append(probs, c32e1Problem{"C32 completion under concurrent senders: " + w + " is never sent after the handshake completed", detail()})
			case allowed && arrivals[mk] > 1:
				bad = true
				probs = append(probs, c32e1Problem{"C32 completion under concurrent senders: a queued packet is sent more than once", detail()})
			case !allowed && arrivals[mk] > 0:
				bad = true
				probs = append(probs, c32e1Problem{"C32 completion under concurrent senders: a queued packet is sent although the outbound firewall denies it", detail()})
			}
			if allowed {
				expect = append(expect, mk)
				flags["released_allowed"] = true
			} else {
				flags["withheld_denied"] = true
			}
		}
		if !bad {
			var got []int
			for _, mk := range order {
				if inStore[mk] {
					got = append(got, mk)
				}
			}
			if fmt.Sprint(got) != fmt.Sprint(expect) {
				probs = append(probs, c32e1Problem{"C32 completion under concurrent senders: queued packets are sent out of queue order", detail()})
			}
		}
	}
	refused := a.f.cachedPacketMetrics.dropped.Count() - r.dropped0
	if refused > 0 {
		flags["sender_refused_queue_full"] = true
	}
	for _, s := range r.senders {
		mk := s.marker
		inFlight := r.t0Begin < s.begin && s.end < r.t0End
		switch {
		case direct[mk]:
			flags["sender_direct"] = true
			if inFlight {
				flags["sender_direct_before_flush_ended"] = true
			}
		case queuedSomewhere[mk]:
			if inFlight {
				flags["sender_queued_while_reply_in_flight"] = true
			}
			if len(hhs) > 1 && !c32e1Contains(r.hhA, mk) {
				flags["sender_queued_on_follow_on"] = true
			}
		}
	}
	oc = append(oc, fmt.Sprintf("senders direct=%d refused=%d", len(direct), refused))
	return probs, flags, strings.Join(oc, "; ")
}

func c32e1Contains(hh *HandshakeHostInfo, mk int) bool {
	for _, cp := range hh.packetStore {
		if c32e1Marker(cp.packet) == mk {
			return true
		}
	}
	return false
}

func c32e1Short(x []int) string {
	if len(x) > 14 {
		return fmt.Sprintf("%d packets: %v ... %v", len(x), x[:4], x[len(x)-8:])
	}
	return fmt.Sprint(x)
}

type c32e1Violation struct {
	Sig    string         `json:"sig"`
	Detail map[string]any `json:"detail"`
	Count  int64          `json:"count"`
}

type c32e1Result struct {
	Scenario      string            `json:"scenario"`
	Bound         int               `json:"bound"`
	Executions    int64             `json:"executions"`
	ChoicePoints  int64             `json:"choice_points"`
	Complete      bool              `json:"complete"`
	CompleteBound int               `json:"complete_bound"`
	Nondet        int64             `json:"nondet"`
	Aborted       int64             `json:"aborted"`
	ByPreemptions map[int]int64     `json:"by_preemptions"`
	Outcomes      map[string]int64  `json:"outcomes"`
	Flags         map[string]int64  `json:"flags"`
	Violations    []*c32e1Violation `json:"violations"`
	Seconds       float64           `json:"seconds"`
}

// TestVerifC32E1Worker explores one scenario in this process (spawned by c32e1Start).
func TestVerifC32E1Worker(t *testing.T) {
	name := os.Getenv("VERIF_C32E1_SCENARIO")
	if name == "" {
		t.Skip("worker only")
	}
	debug.SetGCPercent(400)
	bound, first, budget := 2, 0, 30.0
	fmt.Sscanf(os.Getenv("VERIF_C32E1_BOUND"), "%d", &bound)
	fmt.Sscanf(os.Getenv("VERIF_C32E1_FIRST_BOUND"), "%d", &first)
	fmt.Sscanf(os.Getenv("VERIF_C32E1_BUDGET"), "%f", &budget)
	for _, sc := range c32e1Scenarios() {
		if sc.Name != name {
			continue
		}
		if rp := os.Getenv("VERIF_C32E1_REPLAY"); rp != "" { // diagnosis: one schedule (comma separated choices)
			var prefix []int16
			for _, f := range strings.Split(rp, ",") {
				n, _ := strconv.Atoi(strings.TrimSpace(f))
				prefix = append(prefix, int16(n))
			}
			var r *c32e1Run
			x := sched.RunOnce(prefix, 100000, func() {
				r = c32e1Setup(t, sc)
				for _, f := range r.run {
					sched.Go(f)
				}
			})
			probs, flags, oc := r.judge()
			fmt.Printf("REPLAY %s\noutcome: %s\nflags: %v\n", x.String(), oc, flags)
			for _, p := range probs {
				fmt.Printf("PROBLEM %s\n   %v\n", p.sig, p.detail)
			}
			r.close()
			return
		}
		start := realtime.Now()
		out := c32e1Result{Scenario: name, Bound: bound, Outcomes: map[string]int64{}, Flags: map[string]int64{}, ByPreemptions: map[int]int64{}, Complete: true}
		bySig := map[string]*c32e1Violation{}
		var r *c32e1Run
		bounds := []int{bound}
		if first > 0 && first < bound {
			bounds = []int{first, bound}
		}
		for _, bd := range bounds {
			res := sched.Explore(sched.Options{Bound: bd, MaxSteps: 100000, Stop: func() bool { return realtime.Since(start).Seconds() > budget }}, func() {
				r = c32e1Setup(t, sc)
				for _, f := range r.run {
					sched.Go(f)
				}
			}, func(x *sched.Exec) {
				defer r.close()
				report := func(sig string, d map[string]any) {
					v := bySig[sig]
					if v == nil {
						if d == nil {
							d = map[string]any{}
						}
						d["scenario"], d["schedule"], d["threads_chosen"], d["preemptions"], d["threads"] = sc.Name, x.Choices, x.Who, x.Preemptions, r.threadNames
						v = &c32e1Violation{Sig: sig, Detail: d}
						bySig[sig] = v
						out.Violations = append(out.Violations, v)
					}
					v.Count++
				}
				if x.Aborted {
					out.Aborted++
					report("C32 E1 completion on real nodes: "+x.Reason, nil)
					return
				}
				probs, flags, oc := r.judge()
				out.Outcomes[oc]++
				for k := range flags {
					out.Flags[k]++
				}
				for _, p := range probs {
					p.detail["outcome"] = oc
					report(p.sig, p.detail)
				}
			})
			out.Executions += res.Executions
			out.ChoicePoints += res.ChoicePoints
			out.Nondet += res.Nondeterministic
			for k, v := range res.ByPreemptions {
				out.ByPreemptions[k] += v
			}
			if res.Complete {
				out.CompleteBound = bd
			} else {
				out.Complete = false
				break
			}
		}
		out.Seconds = realtime.Since(start).Seconds()
		b, _ := json.Marshal(out)
		if err := os.WriteFile(os.Getenv("VERIF_C32E1_OUT"), b, 0o644); err != nil {
			t.Fatal(err)
		}
		return
	}
	t.Fatalf("unknown scenario %q", name)
}

// c32e1Start spawns one worker process per scenario and returns the function that collects them (violations, evidence,
// vacuity guards). The workers run while the caller does its own exploration. Shard workers of the thorough tier do not
// spawn anything.
func c32e1Start(c *mc.Check) func() {
	if os.Getenv("C32_SHARD") != "" {
		return func() {}
	}
	var scs []c32e1Scenario
	for _, sc := range c32e1Scenarios() {
		if c.Thorough() || !sc.ThoroughOnly {
			scs = append(scs, sc)
		}
	}
	bound := mc.Pick(c, 2, 3)
	budget := mc.Pick(c, 35.0, 780.0)
	if f, err := strconv.ParseFloat(os.Getenv("VERIF_BUDGET_S"), 64); err == nil && f > 0 {
		budget = max(5.0, f*0.85)
	}
	dir := filepath.Join("/verif/.build", fmt.Sprintf("c32e1-%d", os.Getpid()))
	_ = os.RemoveAll(dir)
	if err := os.MkdirAll(dir, 0o755); err != nil {
		c.Broken("c32e1: %v", err)
	}
	// No goroutine is created in this process: the node assembly of the caller (vNewNode) counts goroutines to see its
	// lighthouse worker exit. The workers write to files, so os/exec needs no copying goroutines either.
	outs := make([]c32e1Result, len(scs))
	errs := make([]string, len(scs))
	cmds := make([]*exec.Cmd, len(scs))
	logs := make([]*os.File, len(scs))
	for i, sc := range scs {
		b := bound
		if !c.Thorough() && sc.QuickBound > 0 {
			b = sc.QuickBound
		}
		if c.Thorough() && sc.ThoroughBound > 0 {
			b = sc.ThoroughBound
		}
		lf, err := os.Create(filepath.Join(dir, fmt.Sprintf("s%d.log", i)))
		if err != nil {
			c.Broken("c32e1: %v", err)
		}
		cmd := exec.Command(os.Args[0], "-test.run=^TestVerifC32E1Worker$", "-test.timeout=3000s")
		cmd.Env = append(os.Environ(), "VERIF_C32E1_SCENARIO="+sc.Name, fmt.Sprintf("VERIF_C32E1_BOUND=%d", b),
			fmt.Sprintf("VERIF_C32E1_FIRST_BOUND=%d", b-1), fmt.Sprintf("VERIF_C32E1_BUDGET=%f", budget),
			"VERIF_C32E1_OUT="+filepath.Join(dir, fmt.Sprintf("s%d.json", i)), "GOMAXPROCS=2")
		cmd.Stdin, cmd.Stdout, cmd.Stderr = nil, lf, lf
		if err := cmd.Start(); err != nil {
			c.Broken("c32e1: start worker: %v", err)
		}
		cmds[i], logs[i] = cmd, lf
	}
	return func() {
		for i := range scs {
			err := cmds[i].Wait()
			_ = logs[i].Close()
			if rb, rerr := os.ReadFile(filepath.Join(dir, fmt.Sprintf("s%d.json", i))); rerr == nil {
				if jerr := json.Unmarshal(rb, &outs[i]); jerr != nil {
					errs[i] = jerr.Error()
				}
			} else {
				lb, _ := os.ReadFile(filepath.Join(dir, fmt.Sprintf("s%d.log", i)))
				s := string(lb)
				if len(s) > 1500 {
					s = s[len(s)-1500:]
				}
				errs[i] = fmt.Sprintf("worker produced no result (%v): %s", err, s)
			}
		}
		defer os.RemoveAll(dir)
		var execs, points int64
		flags := map[string]int64{}
		outcomes := map[string]bool{}
		per := map[string]any{}
		anyComplete := false
		for i, sc := range scs {
			if errs[i] != "" {
				c.Broken("c32e1 scenario %s: %s", sc.Name, errs[i])
				continue
			}
			o := outs[i]
			execs += o.Executions
			points += o.ChoicePoints
			if !o.Complete {
				c.Capped("time budget in completion-vs-senders scenario " + sc.Name)
			}
			if o.CompleteBound > 0 {
				anyComplete = true
			}
			if o.Nondet > 0 {
				c.Broken("c32e1 scenario %s: %d nondeterministic replays", sc.Name, o.Nondet)
			}
			for _, v := range o.Violations {
				v.Detail["schedules_with_this_signature"] = v.Count
				c.Violation(v.Sig, v.Detail)
			}
			for k, n := range o.Flags {
				flags[k] += n
			}
			for k := range o.Outcomes {
				outcomes[k] = true
			}
			per[sc.Name] = map[string]any{"schedules": o.Executions, "choice_points": o.ChoicePoints, "by_preemptions": o.ByPreemptions,
				"preemption_bound": o.Bound, "complete_within_bound": o.Complete, "largest_bound_completed": o.CompleteBound, "outcomes": o.Outcomes, "flags": o.Flags,
				"worker_seconds": float64(int(o.Seconds*10)) / 10}
			if c.Violations() == 0 && o.CompleteBound > 0 {
				f := o.Flags
				c.Require(f["A_completed"] == o.Executions-o.Aborted, "c32e1 %s: the handshake under test completed in %d of %d schedules", sc.Name, f["A_completed"], o.Executions)
				c.Require(f["sender_direct"] > 0, "c32e1 %s: no sender ever found the fresh tunnel and sent directly (%v)", sc.Name, o.Outcomes)
				if sc.N0 < 100 {
					c.Require(f["sender_queued"] > 0 && f["sender_queued_while_reply_in_flight"] > 0, "c32e1 %s: no sender's packet was queued while the reply was being processed (%v)", sc.Name, f)
				}
				if sc.N0+sc.Senders > 100 {
					c.Require(f["sender_refused_queue_full"] > 0, "c32e1 %s: the full queue never refused a packet (%v)", sc.Name, f)
				}
				if sc.FW != "all" {
					c.Require(f["withheld_denied"] > 0 && f["released_allowed"] > 0, "c32e1 %s: outbound rules never withheld / released a queued packet (%v)", sc.Name, f)
				}
			}
		}
		c.Add("traces_validated_against_impl", execs)
		c.Set("e1_completion_vs_senders_scenarios", per)
		c.Set("e1_completion_vs_senders_schedules", execs)
		c.Set("e1_completion_vs_senders_choice_points", points)
		c.Set("e1_completion_vs_senders_distinct_outcomes", len(outcomes))
		c.Set("e1_completion_vs_senders_preemption_bound", bound)
		c.Set("e1_sender_queued_while_reply_in_flight", flags["sender_queued_while_reply_in_flight"])
		c.Set("e1_sender_sent_directly", flags["sender_direct"])
		c.Set("e1_sender_refused_queue_full", flags["sender_refused_queue_full"])
		c.Set("e1_follow_on_handshakes_started_vs_completed", fmt.Sprintf("%d/%d", flags["follow_on_handshake"], flags["follow_on_completed"]))
		if c.Violations() == 0 && anyComplete {
			c.Require(flags["sender_queued_while_reply_in_flight"] > 0 && flags["sender_direct"] > 0, "c32e1: queued-during-completion %d, sent-directly %d", flags["sender_queued_while_reply_in_flight"], flags["sender_direct"])
		}
		c.Assume("schedules half: sequentially consistent scheduler, scheduling points at every lock acquisition of package nebula; peer b only acts before the threads start (its reply is captured) and after they joined; a packet counts as queued on a handshake when it is in that handshake's packet store after the threads joined (the store is append-only); packets sent directly or refused by the full queue are not judged")
	}
}
