//go:build verif

package nebula

import (
	"bytes"
	"encoding/hex"
	"fmt"
	"hash/fnv"
	"math"
	"os"
	"regexp"
	"runtime"
	"sort"
	"strings"
	"sync"
	"sync/atomic"
	"testing"

	gogoproto "github.com/gogo/protobuf/proto"
	"github.com/slackhq/nebula/handshake"
	"github.com/slackhq/nebula/zzverif/mc"
)

// C08 — the handshake payload codec is lossless and wire compatible with the NebulaHandshake protobuf schema.
//
// The generated NebulaHandshake code no longer exists in nebula.pb.go (the schema moved to handshake/handshake.proto
// and the codec is hand written), so the "schema other nebula versions use" is represented by two independent things:
//   (1) c08Handshake / c08Details: the RELEASED schema transcribed as struct-tagged types and run through
//       github.com/gogo/protobuf's reflection codec — the library released nebula versions are generated against.
//       It shares no code with google.golang.org/protobuf/encoding/protowire, which payload.go is written on.
//   (2) c08Walk: a byte-loop wire-format walker written here, which decides "strictly well-formed", "a known field has
//       the wrong wire type / a uint32 field is out of range", and the last-wins field values.
// Every input of every family goes through the same oracle (c08CheckBytes / c08CheckValue).

type c08Details struct {
	Cert           []byte `protobuf:"bytes,1,opt,name=Cert,proto3"`
	InitiatorIndex uint32 `protobuf:"varint,2,opt,name=InitiatorIndex,proto3"`
	ResponderIndex uint32 `protobuf:"varint,3,opt,name=ResponderIndex,proto3"`
	Cookie         uint64 `protobuf:"varint,4,opt,name=Cookie,proto3"`
	Time           uint64 `protobuf:"varint,5,opt,name=Time,proto3"`
	CertVersion    uint32 `protobuf:"varint,8,opt,name=CertVersion,proto3"`
}

func (m *c08Details) Reset()         { *m = c08Details{} }
func (m *c08Details) String() string { return fmt.Sprintf("%+v", *m) }
func (*c08Details) ProtoMessage()    {}

type c08Handshake struct {
	Details *c08Details `protobuf:"bytes,1,opt,name=Details,proto3"`
	Hmac    []byte      `protobuf:"bytes,2,opt,name=Hmac,proto3"`
}

func (m *c08Handshake) Reset()         { *m = c08Handshake{} }
func (m *c08Handshake) String() string { return fmt.Sprintf("%+v", *m) }
func (*c08Handshake) ProtoMessage()    {}

func c08SchemaDecode(b []byte) (p handshake.Payload, cookie uint64, hmac []byte, err error) {
	defer func() {
		if r := recover(); r != nil {
			err = fmt.Errorf("schema decoder panicked: %v", r)
		}
	}()
	var m c08Handshake
	if err = gogoproto.Unmarshal(b, &m); err != nil {
		return
	}
	if m.Details != nil {
		p = handshake.Payload{Cert: m.Details.Cert, InitiatorIndex: m.Details.InitiatorIndex, ResponderIndex: m.Details.ResponderIndex, Time: m.Details.Time, CertVersion: m.Details.CertVersion}
		cookie = m.Details.Cookie
	}
	return p, cookie, m.Hmac, nil
}

func c08Eq(a, b handshake.Payload) bool {
	return bytes.Equal(a.Cert, b.Cert) && a.InitiatorIndex == b.InitiatorIndex && a.ResponderIndex == b.ResponderIndex && a.Time == b.Time && a.CertVersion == b.CertVersion
}

func c08Str(p handshake.Payload) string {
	return fmt.Sprintf("{cert=%x ii=%d ri=%d time=%d ver=%d}", p.Cert, p.InitiatorIndex, p.ResponderIndex, p.Time, p.CertVersion)
}

// ---- independent wire walker ---------------------------------------------------------------------------------------

// c08Varint: strict base-128 little-endian; at most 10 bytes, the 10th carrying only bit 63.
func c08Varint(b []byte) (v uint64, n int, ok bool) {
	for i := 0; i < len(b) && i < 10; i++ {
		x := b[i]
		if i == 9 && x > 1 {
			return 0, 0, false
		}
		v |= uint64(x&0x7f) << (7 * uint(i))
		if x < 0x80 {
			return v, i + 1, true
		}
	}
	return 0, 0, false
}

type c08Field struct {
	num  uint64
	wt   int
	val  uint64 // varint / fixed
	data []byte // length-delimited
}

// c08Fields splits b into fields. strict=false when anything is not plainly well-formed proto3 wire data
// (truncation, field number 0 or > 2^29-1, wire types 3,4 (groups), 6, 7, lengths beyond the buffer).
func c08Fields(b []byte) (fs []c08Field, strict bool) {
	for len(b) > 0 {
		tag, n, ok := c08Varint(b)
		if !ok {
			return nil, false
		}
		b = b[n:]
		num, wt := tag>>3, int(tag&7)
		if num < 1 || num > (1<<29)-1 {
			return nil, false
		}
		f := c08Field{num: num, wt: wt}
		switch wt {
		case 0:
			v, n, ok := c08Varint(b)
			if !ok {
				return nil, false
			}
			f.val, b = v, b[n:]
		case 1:
			if len(b) < 8 {
				return nil, false
			}
			b = b[8:]
		case 5:
			if len(b) < 4 {
				return nil, false
			}
			b = b[4:]
		case 2:
			l, n, ok := c08Varint(b)
			if !ok {
				return nil, false
			}
			b = b[n:]
			if l > uint64(len(b)) {
				return nil, false
			}
			f.data, b = b[:l], b[l:]
		default:
			return nil, false
		}
		fs = append(fs, f)
	}
	return fs, true
}

type c08Ref struct {
	strict     bool // whole message (outer + every Details occurrence) strictly well-formed
	mustReject bool // strict, and some known detail field has the wrong wire type or a uint32 field exceeds 2^32-1
	why        string
	p          handshake.Payload // last-wins field values (valid when strict && !mustReject)
	seen       uint32            // bit per feature, for vacuity guards
}

const (
	c08SeenCert = 1 << iota
	c08SeenII
	c08SeenRI
	c08SeenTime
	c08SeenVer
	c08SeenCookie
	c08SeenHmac
	c08SeenUnknownOuter
	c08SeenUnknownInner
	c08SeenRepeatChanged
	c08SeenTwoDetails
	c08SeenOuter1WrongType
)

func c08Walk(b []byte) (r c08Ref) {
	outer, ok := c08Fields(b)
	if !ok {
		return
	}
	r.strict = true
	nDetails := 0
	for _, f := range outer {
		switch {
		case f.num == 1 && f.wt == 2:
			nDetails++
			if nDetails == 2 {
				r.seen |= c08SeenTwoDetails
			}
			inner, ok := c08Fields(f.data)
			if !ok {
				r.strict = false
				return
			}
			for _, g := range inner {
				wantWT, u32 := -1, false
				switch g.num {
				case 1:
					wantWT = 2
				case 2, 3, 8:
					wantWT, u32 = 0, true
				case 5:
					wantWT = 0
				case 4:
					r.seen |= c08SeenCookie
				default:
					r.seen |= c08SeenUnknownInner
				}
				if wantWT < 0 {
					continue
				}
				if g.wt != wantWT {
					r.mustReject, r.why = true, fmt.Sprintf("detail field %d has wire type %d", g.num, g.wt)
					continue
				}
				if u32 && g.val > math.MaxUint32 {
					r.mustReject, r.why = true, fmt.Sprintf("detail field %d value %d exceeds uint32", g.num, g.val)
					continue
				}
				switch g.num {
				case 1:
					r.p.Cert = append([]byte(nil), g.data...)
					r.seen |= c08SeenCert
				case 2:
					if r.seen&c08SeenII != 0 && r.p.InitiatorIndex != uint32(g.val) {
						r.seen |= c08SeenRepeatChanged
					}
					r.p.InitiatorIndex = uint32(g.val)
					r.seen |= c08SeenII
				case 3:
					if r.seen&c08SeenRI != 0 && r.p.ResponderIndex != uint32(g.val) {
						r.seen |= c08SeenRepeatChanged
					}
					r.p.ResponderIndex = uint32(g.val)
					r.seen |= c08SeenRI
				case 5:
					if r.seen&c08SeenTime != 0 && r.p.Time != g.val {
						r.seen |= c08SeenRepeatChanged
					}
					r.p.Time = g.val
					r.seen |= c08SeenTime
				case 8:
					if r.seen&c08SeenVer != 0 && r.p.CertVersion != uint32(g.val) {
						r.seen |= c08SeenRepeatChanged
					}
					r.p.CertVersion = uint32(g.val)
					r.seen |= c08SeenVer
				}
			}
		case f.num == 1:
			r.seen |= c08SeenOuter1WrongType
		case f.num == 2 && f.wt == 2:
			r.seen |= c08SeenHmac
		default:
			r.seen |= c08SeenUnknownOuter
		}
	}
	return
}

// ---- the oracle -----------------------------------------------------------------------------------------------------

type c08Stats struct {
	evals, acceptBoth, rejectBoth, oursOnly, schemaOnly atomic.Int64
	rejWire, rejRange, outer1Wrong                      atomic.Int64
	seenAccepted                                        atomic.Uint32
	shards                                              [64]struct {
		sync.Mutex
		m map[uint64]struct{}
	}
}

func (s *c08Stats) nontrivial(b []byte) {
	h := fnv.New64a()
	h.Write(b)
	k := h.Sum64()
	sh := &s.shards[k&63]
	sh.Lock()
	if sh.m == nil {
		sh.m = map[uint64]struct{}{}
	}
	sh.m[k] = struct{}{}
	sh.Unlock()
}

func (s *c08Stats) distinct() int {
	n := 0
	for i := range s.shards {
		n += len(s.shards[i].m)
	}
	return n
}

func c08Decode(b []byte) (p handshake.Payload, err error, panicked any) {
	defer func() {
		if r := recover(); r != nil {
			panicked = r
		}
	}()
	p, err = handshake.UnmarshalPayload(b)
	return
}

func c08CheckBytes(c *mc.Check, st *c08Stats, family string, b []byte) {
	st.evals.Add(1)
	in := func() map[string]any { return map[string]any{"family": family, "input_hex": hex.EncodeToString(b)} }
	ours, oerr, pan := c08Decode(b)
	if pan != nil {
		c.Violation("UnmarshalPayload panics", map[string]any{"family": family, "input_hex": hex.EncodeToString(b), "panic": fmt.Sprint(pan)})
		return
	}
	sch, _, _, serr := c08SchemaDecode(b)
	ref := c08Walk(b)

	switch {
	case oerr == nil && serr == nil:
		st.acceptBoth.Add(1)
		if !c08Eq(ours, sch) {
			d := in()
			d["ours"], d["schema"] = c08Str(ours), c08Str(sch)
			c.Violation("UnmarshalPayload and the schema decoder both accept but read different fields", d)
		}
	case oerr != nil && serr != nil:
		st.rejectBoth.Add(1)
	case oerr == nil:
		st.oursOnly.Add(1) // more lenient than the schema library on malformed input: the statement does not forbid it
	default:
		st.schemaOnly.Add(1)
	}
	if oerr == nil || serr == nil {
		st.nontrivial(b)
	}
	if !ref.strict {
		return // malformed for the walker: only "no panic" and "agree when both accept" are demanded
	}
	if ref.seen&c08SeenOuter1WrongType != 0 {
		st.outer1Wrong.Add(1)
	}
	if ref.mustReject {
		if strings.Contains(ref.why, "wire type") {
			st.rejWire.Add(1)
		} else {
			st.rejRange.Add(1)
		}
		if oerr == nil {
			d := in()
			d["why"], d["ours"] = ref.why, c08Str(ours)
			kind := "a uint32 field above 2^32-1"
			if strings.Contains(ref.why, "wire type") {
				kind = "a known field with the wrong wire type"
			}
			c.Violation("UnmarshalPayload accepts "+kind, d)
		}
		return
	}
	// strictly well-formed schema message without protocol violations: must be read, and read identically
	if oerr != nil {
		d := in()
		d["err"], d["want"] = oerr.Error(), c08Str(ref.p)
		c.Violation("UnmarshalPayload rejects a well-formed schema message", d)
		return
	}
	if !c08Eq(ours, ref.p) {
		d := in()
		d["ours"], d["want"] = c08Str(ours), c08Str(ref.p)
		c.Violation("UnmarshalPayload reads a well-formed schema message differently from the wire-format reference", d)
	}
	if serr != nil || !c08Eq(sch, ref.p) {
		// the two references disagree with each other: the harness cannot judge
		c.Broken("reference disagreement on %x: walker=%s schema=%s err=%v", b, c08Str(ref.p), c08Str(sch), serr)
	}
	for {
		old := st.seenAccepted.Load()
		if old|ref.seen == old || st.seenAccepted.CompareAndSwap(old, old|ref.seen) {
			break
		}
	}
}

// c08CheckValue: encoding direction for one Payload value.
func c08CheckValue(c *mc.Check, st *c08Stats, p handshake.Payload, byteIdentical *atomic.Int64) {
	st.evals.Add(1)
	d := func() map[string]any { return map[string]any{"payload": c08Str(p)} }
	enc := handshake.MarshalPayload(nil, p)
	pre := []byte{0xde, 0xad}
	if got := handshake.MarshalPayload(append([]byte{}, pre...), p); !bytes.Equal(got, append(append([]byte{}, pre...), enc...)) {
		c.Violation("MarshalPayload(out, p) is not out || MarshalPayload(nil, p)", d())
	}
	back, err, pan := c08Decode(enc)
	if pan != nil || err != nil || !c08Eq(back, p) {
		x := d()
		x["wire_hex"], x["decoded"], x["err"] = hex.EncodeToString(enc), c08Str(back), fmt.Sprint(err, pan)
		c.Violation("round trip UnmarshalPayload(MarshalPayload(p)) != p", x)
	}
	sch, cookie, hmac, serr := c08SchemaDecode(enc)
	if serr != nil || !c08Eq(sch, p) || cookie != 0 || len(hmac) != 0 {
		x := d()
		x["wire_hex"], x["schema_reads"], x["err"] = hex.EncodeToString(enc), fmt.Sprintf("%s cookie=%d hmac=%x", c08Str(sch), cookie, hmac), fmt.Sprint(serr)
		c.Violation("the schema decoder reads MarshalPayload's output differently from the encoded fields", x)
	}
	if ref := c08Walk(enc); !ref.strict || ref.mustReject || !c08Eq(ref.p, p) {
		x := d()
		x["wire_hex"] = hex.EncodeToString(enc)
		c.Violation("MarshalPayload's output is not a well-formed schema message carrying the fields", x)
	}
	// schema encoder -> our decoder, with and without the fields we never populate
	for _, extra := range []struct {
		cookie uint64
		hmac   []byte
	}{{0, nil}, {9, nil}, {0, []byte{1, 2, 3}}, {math.MaxUint64, []byte{0}}} {
		m := &c08Handshake{Details: &c08Details{Cert: p.Cert, InitiatorIndex: p.InitiatorIndex, ResponderIndex: p.ResponderIndex, Cookie: extra.cookie, Time: p.Time, CertVersion: p.CertVersion}, Hmac: extra.hmac}
		wire, err := gogoproto.Marshal(m)
		if err != nil {
			c.Broken("schema encoder failed: %v", err)
		}
		if extra.cookie == 0 && extra.hmac == nil && bytes.Equal(wire, enc) {
			byteIdentical.Add(1)
		}
		st.evals.Add(1)
		got, err, pan := c08Decode(wire)
		if pan != nil || err != nil || !c08Eq(got, p) {
			x := d()
			x["schema_wire_hex"], x["decoded"], x["err"] = hex.EncodeToString(wire), c08Str(got), fmt.Sprint(err, pan)
			c.Violation("UnmarshalPayload reads the schema encoder's output differently from the encoded fields", x)
		}
		st.nontrivial(wire)
	}
	st.nontrivial(enc)
}

// ---- input families -------------------------------------------------------------------------------------------------

func c08AppendVarint(b []byte, v uint64) []byte {
	for v >= 0x80 {
		b = append(b, byte(v)|0x80)
		v >>= 7
	}
	return append(b, byte(v))
}

func c08Tag(num uint64, wt int) []byte { return c08AppendVarint(nil, num<<3|uint64(wt)) }

func c08Wrap(details []byte) []byte {
	out := []byte{0x0a}
	out = c08AppendVarint(out, uint64(len(details)))
	return append(out, details...)
}

// c08VarintForms: minimal, padded (non-minimal), truncated and overflowing encodings.
func c08VarintForms(thorough bool) [][]byte {
	var out [][]byte
	vals := []uint64{0, 1, 2, 127, 128, 300, 16383, 16384, 1<<31 - 1, 1 << 31, 1<<32 - 1, 1 << 32, 1<<32 + 1, 1<<35 + 7, 1 << 62, 1 << 63, math.MaxUint64}
	for _, v := range vals {
		min := c08AppendVarint(nil, v)
		out = append(out, min)
		for pad := 1; pad <= 3; pad++ { // non-minimal: continuation bits then zero groups
			if len(min)+pad > 11 {
				break
			}
			p := append([]byte{}, min...)
			p[len(p)-1] |= 0x80
			for i := 1; i < pad; i++ {
				p = append(p, 0x80)
			}
			out = append(out, append(p, 0x00))
		}
	}
	for n := 1; n <= 11; n++ { // every byte a continuation byte: truncated (n<=9) or over-long
		out = append(out, bytes.Repeat([]byte{0xff}, n))
		t := bytes.Repeat([]byte{0x80}, n)
		out = append(out, t)
		if n >= 9 {
			for _, last := range []byte{0x00, 0x01, 0x02, 0x7f} {
				out = append(out, append(append([]byte{}, bytes.Repeat([]byte{0xff}, n-1)...), last))
			}
		}
	}
	out = append(out, nil) // value missing altogether
	return out
}

// c08Elements: single-field encodings (tag + value) over every field number x wire type of the box.
func c08Elements(thorough bool) [][]byte {
	nums := []uint64{0, 1, 2, 3, 4, 5, 6, 7, 8, 9, 15, 16, 2047, 1<<29 - 1, 1 << 29}
	var out [][]byte
	vforms := c08VarintForms(thorough)
	byteForms := [][]byte{{0}, {1, 0xaa}, {2, 0x08, 0x01}, {3, 1, 2, 3}, {5, 1, 2}, {0x80}, {0xff, 0xff, 0xff, 0xff, 0x0f}, {0x80, 0x00}, {0x81, 0x00, 0x55}, nil}
	big := append(c08AppendVarint(nil, 300), bytes.Repeat([]byte{0x5a}, 300)...)
	byteForms = append(byteForms, big, big[:200])
	for _, num := range nums {
		for wt := 0; wt < 8; wt++ {
			tag := c08Tag(num, wt)
			var vals [][]byte
			switch wt {
			case 0:
				vals = vforms
			case 1:
				vals = [][]byte{{1, 2, 3, 4, 5, 6, 7, 8}, {1, 2, 3, 4, 5, 6, 7}, nil}
			case 2:
				vals = byteForms
			case 5:
				vals = [][]byte{{1, 2, 3, 4}, {1, 2, 3}, nil}
			case 3:
				vals = [][]byte{nil, c08Tag(num, 4), c08Tag(num+1, 4), append([]byte{0x08, 0x01}, c08Tag(num, 4)...)}
			default:
				vals = [][]byte{nil, {0}, {1, 2}}
			}
			for _, v := range vals {
				out = append(out, append(append([]byte{}, tag...), v...))
			}
		}
	}
	return out
}

// c08Core: well-formed single fields used for pairs/triples (repeats, order, unknown fields in between).
func c08Core() [][]byte {
	var out [][]byte
	f := func(num uint64, wt int, v []byte) { out = append(out, append(c08Tag(num, wt), v...)) }
	for _, num := range []uint64{2, 3, 5, 8, 4, 6, 9} {
		for _, v := range []uint64{0, 1, 128, 1<<32 - 1, 1 << 32, math.MaxUint64} {
			f(num, 0, c08AppendVarint(nil, v))
		}
		f(num, 2, []byte{1, 7})
		f(num, 5, []byte{1, 2, 3, 4})
	}
	f(1, 2, []byte{0})
	f(1, 2, []byte{1, 0x11})
	f(1, 2, []byte{2, 0x22, 0x33})
	f(1, 0, []byte{5})
	f(1, 1, []byte{1, 2, 3, 4, 5, 6, 7, 8})
	return out
}

func TestVerifC08(t *testing.T) {
	c := mc.Begin(t, "C08", "exploration")
	defer c.End()
	st := &c08Stats{}
	workers := runtime.GOMAXPROCS(0)

	// the repository's own schema document must list the fields transcribed above (information, not an oracle)
	if src, err := os.ReadFile("handshake/handshake.proto"); err == nil {
		re := regexp.MustCompile(`(?m)^\s*(\w+)\s+(\w+)\s*=\s*(\d+)`)
		var got []string
		for _, m := range re.FindAllStringSubmatch(string(src), -1) {
			if m[1] == "syntax" || m[1] == "package" {
				continue
			}
			got = append(got, m[1]+" "+m[2]+"="+m[3])
		}
		sort.Strings(got)
		want := []string{"NebulaHandshakeDetails Details=1", "bytes Cert=1", "bytes Hmac=2", "uint32 CertVersion=8", "uint32 InitiatorIndex=2", "uint32 ResponderIndex=3", "uint64 Cookie=4", "uint64 Time=5"}
		sort.Strings(want)
		c.Set("handshake_proto_matches_transcribed_schema", fmt.Sprint(got) == fmt.Sprint(want))
		c.Set("handshake_proto_fields", got)
	} else {
		c.Set("handshake_proto_matches_transcribed_schema", "unreadable: "+err.Error())
	}

	// F1: value box, both directions
	u32 := []uint32{0, 1, 127, 128, 1<<32 - 1}
	u64 := []uint64{0, 1, 127, 128, 1<<32 - 1, 1 << 32, math.MaxUint64}
	vers := []uint32{0, 1, 2, 127, 128, 1<<32 - 1}
	certs := [][]byte{nil, {}, {0x00}, {0x42}, bytes.Repeat([]byte{0xc3}, 300)}
	if c.Thorough() {
		u32 = append(u32, 2, 255, 256, 16383, 16384, 1<<31-1, 1<<31)
		u64 = append(u64, 2, 16384, 1<<56-1, 1<<56, 1<<63-1, 1<<63)
		certs = append(certs, bytes.Repeat([]byte{0x0a}, 127), bytes.Repeat([]byte{0x0a}, 128), bytes.Repeat([]byte{1}, 16384))
	}
	var byteIdentical atomic.Int64
	var f1 int64
	for _, ce := range certs {
		for _, ii := range u32 {
			for _, ri := range u32 {
				for _, tm := range u64 {
					for _, v := range vers {
						c08CheckValue(c, st, handshake.Payload{Cert: ce, InitiatorIndex: ii, ResponderIndex: ri, Time: tm, CertVersion: v}, &byteIdentical)
						f1++
					}
				}
			}
		}
	}
	// F1b: length-prefix boundaries. The Cert length and the enclosing Details length are varints: sweep the cert length across
	// every point where either prefix grows a byte (1->2 at 128, 2->3 at 16384, 3->4 at 2097152; "any cert bytes").
	var lens []int
	for _, b := range []int{128, 16384, 2097152} {
		for d := -40; d <= 4; d++ { // the other fields add up to 32 bytes in front of the boundary of the Details length
			lens = append(lens, b+d)
		}
	}
	lens = append(lens, 65535, 65536, 1<<20)
	var f1b int64
	for _, n := range lens {
		ce := bytes.Repeat([]byte{0x5a}, n)
		ce[0], ce[n-1] = 0x01, 0xfe
		for _, small := range []bool{true, false} {
			p := handshake.Payload{Cert: ce}
			if !small {
				p = handshake.Payload{Cert: ce, InitiatorIndex: 1<<32 - 1, ResponderIndex: 1<<32 - 1, Time: math.MaxUint64, CertVersion: 1<<32 - 1}
			}
			c08CheckValue(c, st, p, &byteIdentical)
			f1b++
		}
	}
	c.Set("length_prefix_boundary_payloads", f1b)
	f1 += f1b

	// schema message without a Details member at all
	for _, m := range []*c08Handshake{{}, {Hmac: []byte{9}}} {
		wire, _ := gogoproto.Marshal(m)
		c08CheckBytes(c, st, "schema message without Details", wire)
	}
	c.Sample(map[string]any{"family": "value box", "payload": c08Str(handshake.Payload{Cert: []byte{0x42}, InitiatorIndex: 128, ResponderIndex: 1<<32 - 1, Time: 1 << 32, CertVersion: 2}),
		"wire_hex": hex.EncodeToString(handshake.MarshalPayload(nil, handshake.Payload{Cert: []byte{0x42}, InitiatorIndex: 128, ResponderIndex: 1<<32 - 1, Time: 1 << 32, CertVersion: 2}))})

	// generic parallel runner over an index space
	par := func(n int, fn func(i int)) bool {
		var next atomic.Int64
		var wg sync.WaitGroup
		var stopped atomic.Bool
		for w := 0; w < workers; w++ {
			wg.Add(1)
			go func() {
				defer wg.Done()
				for {
					i := int(next.Add(1) - 1)
					if i >= n {
						return
					}
					if i&0xfff == 0 && c.OutOfTime() {
						stopped.Store(true)
					}
					if stopped.Load() {
						return
					}
					fn(i)
				}
			}()
		}
		wg.Wait()
		return !stopped.Load()
	}

	// F2: all byte strings of length <= 3 as the whole message, and as the content of the Details member.
	// quick: lengths 0..2 complete, length 3 over (all first bytes) x (structural alphabet)^2; thorough: complete.
	alpha := []byte{0x00, 0x01, 0x02, 0x03, 0x04, 0x05, 0x07, 0x08, 0x0a, 0x0d, 0x10, 0x12, 0x18, 0x1a, 0x20, 0x28, 0x2a, 0x40, 0x42, 0x7f, 0x80, 0x81, 0xfe, 0xff}
	full3 := c.Thorough()
	for _, wrap := range []bool{false, true} {
		fam := "all byte strings <=3 (message)"
		mk := func(b []byte) []byte { return b }
		if wrap {
			fam = "all byte strings <=3 (Details content)"
			mk = c08Wrap
		}
		c08CheckBytes(c, st, fam, mk(nil))
		ok := par(256, func(i int) {
			b0 := byte(i)
			c08CheckBytes(c, st, fam, mk([]byte{b0}))
			for b1 := 0; b1 < 256; b1++ {
				c08CheckBytes(c, st, fam, mk([]byte{b0, byte(b1)}))
			}
			if full3 {
				for b1 := 0; b1 < 256; b1++ {
					for b2 := 0; b2 < 256; b2++ {
						c08CheckBytes(c, st, fam, mk([]byte{b0, byte(b1), byte(b2)}))
					}
				}
			} else {
				for _, b1 := range alpha {
					for b2 := 0; b2 < 256; b2++ {
						c08CheckBytes(c, st, fam, mk([]byte{b0, b1, byte(b2)}))
					}
				}
				for b1 := 0; b1 < 256; b1++ {
					for _, b2 := range alpha {
						c08CheckBytes(c, st, fam, mk([]byte{b0, byte(b1), b2}))
					}
				}
			}
		})
		if !ok {
			c.Capped("time budget in " + fam)
		}
	}
	c.Set("three_byte_strings_complete", full3)
	if c.Thorough() { // length 4 and 5: any first byte, the structural alphabet on the others
		for _, wrap := range []bool{false, true} {
			fam := "byte strings of length 4-5 over the structural alphabet (message)"
			mk := func(b []byte) []byte { return b }
			if wrap {
				fam = "byte strings of length 4-5 over the structural alphabet (Details content)"
				mk = c08Wrap
			}
			if !par(256*len(alpha), func(i int) {
				b0, b1 := byte(i/len(alpha)), alpha[i%len(alpha)]
				for _, b2 := range alpha {
					for _, b3 := range alpha {
						c08CheckBytes(c, st, fam, mk([]byte{b0, b1, b2, b3}))
						for _, b4 := range alpha[:8] {
							c08CheckBytes(c, st, fam, mk([]byte{b0, b1, b2, b3, b4}))
						}
					}
				}
			}) {
				c.Capped("time budget in " + fam)
			}
		}
	}

	// F3: every (field number, wire type) single-field message with value forms, at both levels; pairs and triples
	elems := c08Elements(c.Thorough())
	c.Set("single_field_elements", len(elems))
	par(len(elems), func(i int) {
		c08CheckBytes(c, st, "single field (Details level)", c08Wrap(elems[i]))
		c08CheckBytes(c, st, "single field (message level)", elems[i])
		// the same element after / before a good Details member
		good := c08Wrap([]byte{0x10, 0x05, 0x28, 0x09})
		c08CheckBytes(c, st, "message-level field after Details", append(append([]byte{}, good...), elems[i]...))
		c08CheckBytes(c, st, "message-level field before Details", append(append([]byte{}, elems[i]...), good...))
		c08CheckBytes(c, st, "Details-level field after good fields", c08Wrap(append([]byte{0x10, 0x05, 0x28, 0x09}, elems[i]...)))
	})
	core := c08Core()
	c.Set("core_elements", len(core))
	if !par(len(core)*len(core), func(i int) {
		a, b := core[i/len(core)], core[i%len(core)]
		ab := append(append([]byte{}, a...), b...)
		c08CheckBytes(c, st, "pair of fields in one Details", c08Wrap(ab))
		c08CheckBytes(c, st, "two Details members (merge)", append(c08Wrap(a), c08Wrap(b)...))
	}) {
		c.Capped("time budget in pairs")
	}
	small := core
	if !c.Thorough() {
		small = nil
		for i, e := range core {
			if i%3 == 0 || e[0] == 0x0a {
				small = append(small, e)
			}
		}
	}
	c.Set("triple_elements", len(small))
	n3 := len(small) * len(small) * len(small)
	if !par(n3, func(i int) {
		a, b, d := small[i/(len(small)*len(small))], small[(i/len(small))%len(small)], small[i%len(small)]
		c08CheckBytes(c, st, "triple of fields in one Details", c08Wrap(append(append(append([]byte{}, a...), b...), d...)))
	}) {
		c.Capped("time budget in triples")
	}

	// F4: every 1-edit mutant (substitute any byte value, delete, insert any byte value) of six seeds
	seeds := [][]byte{
		handshake.MarshalPayload(nil, handshake.Payload{}),
		handshake.MarshalPayload(nil, handshake.Payload{Cert: []byte{1, 2, 3}, CertVersion: 2}),
		handshake.MarshalPayload(nil, handshake.Payload{InitiatorIndex: 42, Time: 1}),
		handshake.MarshalPayload(nil, handshake.Payload{Cert: []byte("seed-cert"), InitiatorIndex: 1<<32 - 1, ResponderIndex: 300, Time: math.MaxUint64, CertVersion: 2}),
		handshake.MarshalPayload(nil, handshake.Payload{Cert: bytes.Repeat([]byte{7}, 130), InitiatorIndex: 5, ResponderIndex: 6, Time: 1 << 40, CertVersion: 1}),
	}
	{
		m := &c08Handshake{Details: &c08Details{Cert: []byte{9, 9}, InitiatorIndex: 7, ResponderIndex: 8, Cookie: 77, Time: 1234567890123, CertVersion: 2}, Hmac: []byte{1, 2, 3, 4}}
		w, _ := gogoproto.Marshal(m)
		seeds = append(seeds, w)
	}
	for si, seed := range seeds {
		fam := fmt.Sprintf("1-edit mutants of seed %d", si)
		c08CheckBytes(c, st, fam, seed)
		par(len(seed)+1, func(pos int) {
			for v := 0; v < 256; v++ {
				ins := append(append(append([]byte{}, seed[:pos]...), byte(v)), seed[pos:]...)
				c08CheckBytes(c, st, fam, ins)
				if pos < len(seed) && byte(v) != seed[pos] {
					sub := append([]byte{}, seed...)
					sub[pos] = byte(v)
					c08CheckBytes(c, st, fam, sub)
				}
			}
			if pos < len(seed) {
				c08CheckBytes(c, st, fam, append(append([]byte{}, seed[:pos]...), seed[pos+1:]...))
			}
			c08CheckBytes(c, st, fam, seed[:pos]) // every prefix as well
		})
	}
	c.Sample(map[string]any{"family": "seed", "wire_hex": hex.EncodeToString(seeds[3])})
	c.Sample(map[string]any{"family": "single field (Details level)", "wire_hex": hex.EncodeToString(c08Wrap(elems[len(elems)/3]))})
	c.Sample(map[string]any{"family": "pair of fields in one Details", "wire_hex": hex.EncodeToString(c08Wrap(append(append([]byte{}, core[2]...), core[4]...)))})

	// vacuity guards
	seen := st.seenAccepted.Load()
	if c.Violations() == 0 {
		for bit, name := range map[uint32]string{c08SeenCert: "Cert", c08SeenII: "InitiatorIndex", c08SeenRI: "ResponderIndex", c08SeenTime: "Time", c08SeenVer: "CertVersion",
			c08SeenCookie: "Cookie skipped", c08SeenHmac: "Hmac skipped", c08SeenUnknownOuter: "unknown message-level field", c08SeenUnknownInner: "unknown Details-level field",
			c08SeenRepeatChanged: "repeated field with a different later value", c08SeenTwoDetails: "two Details members"} {
			c.Require(seen&bit != 0, "no accepted well-formed input exercised: %s", name)
		}
		c.Require(st.rejWire.Load() > 0 && st.rejRange.Load() > 0, "must-reject classes not reached: wire=%d range=%d", st.rejWire.Load(), st.rejRange.Load())
		c.Require(st.acceptBoth.Load() > 0 && st.rejectBoth.Load() > 0 && st.schemaOnly.Load() > 0, "decoder outcome classes: both=%d none=%d schemaOnly=%d", st.acceptBoth.Load(), st.rejectBoth.Load(), st.schemaOnly.Load())
	}
	c.Set("evaluations", st.evals.Load())
	c.Set("distinct_nontrivial", st.distinct())
	c.Set("rule", "one evaluation = one byte string (or one Payload value) pushed through UnmarshalPayload, the gogo/protobuf reflection decoder of the transcribed schema and the wire walker; non-trivial = accepted by at least one of the two decoders; distinct = distinct input bytes (64-bit FNV-1a, collisions only under-count)")
	c.Set("value_box_payloads", f1)
	c.Set("schema_encoder_byte_identical", byteIdentical.Load())
	c.Set("accepted_by_both", st.acceptBoth.Load())
	c.Set("rejected_by_both", st.rejectBoth.Load())
	c.Set("accepted_by_ours_only", st.oursOnly.Load())
	c.Set("accepted_by_schema_decoder_only", st.schemaOnly.Load())
	c.Set("must_reject_wrong_wire_type", st.rejWire.Load())
	c.Set("must_reject_uint32_range", st.rejRange.Load())
	c.Set("message_level_Details_with_wrong_wire_type_seen", st.outer1Wrong.Load())
	c.Assume("'known fields' is read as the five fields the decoder extracts (Cert, InitiatorIndex, ResponderIndex, Time, CertVersion): the message-level Details member with a non-bytes wire type, Cookie and Hmac are skipped like unknown fields by the code and that is not counted as a violation")
	c.Assume("on input that is not strictly well-formed wire data (truncation, groups, field number 0 or > 2^29-1, 10th varint byte > 1) only 'no panic' and 'same fields when both decoders accept' are demanded; the schema library itself is more lenient there (it truncates over-long uint32 varints and skips wrong wire types), the statement demands rejection from nebula only")
	c.Assume("nil and empty Cert are the same value (proto3 cannot distinguish them)")
	c.Assume("the released schema is transcribed in the harness (struct tags); handshake/handshake.proto is compared with it and the result recorded, not enforced")
}
