//go:build verif

package nebula

import (
	"encoding/json"
	"fmt"
	"net/netip"
	"os"
	"os/exec"
	"path/filepath"
	"regexp"
	"runtime"
	"slices"
	"sort"
	"strconv"
	"strings"
	"sync"
	"testing"
	realtime "time"

	"github.com/slackhq/nebula/firewall"
	"github.com/slackhq/nebula/header"
	"github.com/slackhq/nebula/overlay/batch"
	"github.com/slackhq/nebula/overlay/tio"
	"github.com/slackhq/nebula/udp"
	"github.com/slackhq/nebula/zzverif/mc"
	"github.com/slackhq/nebula/zzverif/sched"
	"github.com/slackhq/nebula/zzverif/vtime"
	"go.yaml.in/yaml/v3"
)

// C34 — the packet engine is free of data races and deadlocks.
//
// E1 in the `-race` build. Every file of package nebula that uses sync / sync/atomic runs on the scheduler shims. A
// "core" is a place where two or three real code paths meet on shared state; each core is a 2–3 thread harness on real
// nodes (built by real handshakes). For every core ALL schedules up to a preemption bound are executed; because the
// scheduler's hand-off is invisible to the race detector, the detector checks the code's own synchronisation on every
// explored schedule. Deadlock = no enabled thread while some are unfinished.
//
// The parent test spawns one worker process per core (own GORACE log, own process-wide report de-duplication), then
// parses the race logs: a report counts when at least one of its two accesses has its innermost frame in /repo sources
// (harness and shim frames are not nebula).

type c34Core struct {
	name    string
	threads int
	setup   func(t testing.TB, seed int64) (run []func(), cleanup func())
}

// c34Seeds: cores whose whole exploration is repeated with that many seeds (default 1). The race detector keeps only four
// earlier accesses per memory word and evicts at random when they are full, so a race that a single schedule of a core
// exposes can be missed by one pass; a core with such a narrow window (and few schedules) is explored more than once.
var c34Seeds = map[string]int{c34CoreRerequest: 3}

func c34Pair(t testing.TB, seed int64, routinesA, routinesB int) (*vnet, *vnode, *vnode) {
	a := vnodeSpec{Name: "a", Networks: "10.0.0.1/24", Udp: "192.0.2.1:4242", Routines: routinesA, Overrides: m{
		"static_host_map": m{"10.0.0.2": []string{"192.0.2.2:4242"}}}}
	b := vnodeSpec{Name: "b", Networks: "10.0.0.2/24", Udp: "192.0.2.2:4242", Routines: routinesB, Overrides: m{
		"static_host_map": m{"10.0.0.1": []string{"192.0.2.1:4242"}}}}
	net := vNewNet(t, seed, a, b)
	return net, net.node("a"), net.node("b")
}

// c34Capture runs act on the sender and returns what it put on the wire (not delivered).
func c34Capture(net *vnet, act func()) []vpkt {
	act()
	net.collect()
	out := net.inflight
	net.inflight = nil
	return out
}

// c34RelayNet is vRelayNet (a and b reach each other only through the relay r) with a chosen number of routines per node.
func c34RelayNet(t testing.TB, seed int64, routinesA, routinesR, routinesB int) (*vnet, *vnode, *vnode, *vnode) {
	a := vnodeSpec{Name: "a", Networks: "10.0.0.1/24", Udp: "192.0.2.1:4242", Routines: routinesA, Overrides: m{"relay": m{"use_relays": true}}}
	r := vnodeSpec{Name: "r", Networks: "10.0.0.9/24", Udp: "192.0.2.9:4242", Routines: routinesR, Overrides: m{"relay": m{"am_relay": true}}}
	b := vnodeSpec{Name: "b", Networks: "10.0.0.2/24", Udp: "192.0.2.2:4242", Routines: routinesB, Overrides: m{"relay": m{"use_relays": true}}}
	net := vNewNet(t, seed, a, r, b)
	na, nr, nb := net.node("a"), net.node("r"), net.node("b")
	na.injectLighthouseAddr(nr.vpnIP, nr.udp)
	na.injectRelays(nb.vpnIP, []netip.Addr{nr.vpnIP})
	nr.injectLighthouseAddr(nb.vpnIP, nb.udp)
	nr.injectLighthouseAddr(na.vpnIP, na.udp)
	nb.injectLighthouseAddr(nr.vpnIP, nr.udp)
	nb.injectRelays(na.vpnIP, []netip.Addr{nr.vpnIP})
	return net, na, nr, nb
}

// c34RelayFor returns the relay entry that the tunnel to `via` holds for `peer` (nil when there is none). Only called
// from the driver (setup / after the join), never from a scheduler thread.
func c34RelayFor(n *vnode, via, peer netip.Addr) *Relay {
	hi := n.f.hostMap.QueryVpnAddr(via)
	if hi == nil {
		return nil
	}
	r, ok := hi.relayState.QueryRelayForByIp(peer)
	if !ok {
		return nil
	}
	return r
}

// c34To filters the datagrams addressed to one underlay address.
func c34To(pkts []vpkt, to netip.AddrPort) []vpkt {
	var out []vpkt
	for _, p := range pkts {
		if p.To == to {
			out = append(out, p)
		}
	}
	return out
}

// c34Count holds per-core outcome counters of the worker process (written by the driver goroutine only: in setup and in
// the cleanup that runs after all threads have joined). They travel to the parent in c34Result.Counters.
var c34Count = map[string]int64{}

func c34Cores() []c34Core {
	data := func(n, to *vnode, tag string) []byte {
		return vUDPPacket(n.vpnIP, to.vpnIP, 1000, 2000, []byte(tag))
	}
	return []c34Core{
		{"rx-rx-same-tunnel", 2, func(t testing.TB, seed int64) ([]func(), func()) {
			net, a, b := c34Pair(t, seed, 1, 2)
			if !net.establish(a, b, "s1") || !net.establish(b, a, "s2") {
				t.Fatalf("establish")
			}
			net.flushFIFO(50)
			p1 := c34Capture(net, func() { a.tunSend(data(a, b, "ONE")) })
			p2 := c34Capture(net, func() { a.tunSend(data(a, b, "TWO")) })
			return []func(){
				func() { b.deliverOn(0, a.udp, p1[0].Data) },
				func() { b.deliverOn(1, a.udp, p2[0].Data) },
			}, net.close
		}},
		{"rx-vs-close", 2, func(t testing.TB, seed int64) ([]func(), func()) {
			net, a, b := c34Pair(t, seed, 1, 2)
			if !net.establish(a, b, "s1") || !net.establish(b, a, "s2") {
				t.Fatalf("establish")
			}
			net.flushFIFO(50)
			p1 := c34Capture(net, func() { a.tunSend(data(a, b, "ONE")) })
			cl := c34Capture(net, func() { a.f.sendCloseTunnel(a.f.hostMap.QueryVpnAddr(b.vpnIP)) })
			return []func(){
				func() { b.deliverOn(0, a.udp, p1[0].Data) },
				func() { b.deliverOn(1, a.udp, cl[0].Data) },
			}, net.close
		}},
		{"tx-vs-traffic-check", 2, func(t testing.TB, seed int64) ([]func(), func()) {
			net, a, b := c34Pair(t, seed, 1, 1)
			if !net.establish(a, b, "s1") || !net.establish(b, a, "s2") {
				t.Fatalf("establish")
			}
			net.flushFIFO(50)
			a.cmTick() // initialises the traffic wheel's clock, so that the advance below makes the tunnel's check due
			vtime.Advance(2500 * vtime.Millisecond)
			pkt := data(a, b, "TX")
			return []func(){
				func() {
					a.f.consumeInsidePacket(tio.Packet{Bytes: pkt}, a.fwp, a.nb, a.sb, a.rej, 0, nil)
					a.f.flushSendBatch(a.sb, 0)
				},
				func() {
					now := vtime.Now()
					a.cm.trafficTimer.Advance(now)
					nb, out := make([]byte, 12), make([]byte, mtu)
					for {
						idx, has := a.cm.trafficTimer.Purge()
						if !has {
							break
						}
						a.cm.doTrafficCheck(idx, []byte(""), nb, out, now)
						c34TrafficChecks++
					}
				},
			}, net.close
		}},
		{"handshake-continue-vs-timer-vs-begin", 3, func(t testing.TB, seed int64) ([]func(), func()) {
			net, a, b := c34Pair(t, seed, 2, 1)
			// a starts a handshake; b answers (reply captured); b also starts its own (first message captured)
			s1 := c34Capture(net, func() { a.tunSend(data(a, b, "Q")) })
			b.deliver(a.udp, s1[0].Data)
			reply := c34Capture(net, func() {})
			bs1 := c34Capture(net, func() { b.hm.StartHandshake(a.vpnIP, nil); b.settle() })
			vtime.Advance(100 * vtime.Millisecond)
			return []func(){
				func() { a.deliverOn(0, b.udp, reply[0].Data) },
				func() { a.hm.NextOutboundHandshakeTimerTick(vtime.Now()) },
				func() { a.deliverOn(1, b.udp, bs1[0].Data) },
			}, net.close
		}},
		{"firewall-drop-vs-reload", 3, func(t testing.TB, seed int64) ([]func(), func()) {
			net, a, b := c34Pair(t, seed, 1, 2)
			if !net.establish(a, b, "s1") || !net.establish(b, a, "s2") {
				t.Fatalf("establish")
			}
			net.flushFIFO(50)
			p1 := c34Capture(net, func() { a.tunSend(data(a, b, "ONE")) })
			p2 := c34Capture(net, func() { a.tunSend(vUDPPacket(a.vpnIP, b.vpnIP, 1001, 2001, []byte("TWO"))) })
			pk := vGetPKI()
			leaf := pk.leafFor(b.spec.Name, b.spec.Networks, b.spec.Unsafe, b.spec.Groups, b.spec.Version)
			cfg := vDefaultConfig(leaf, pk.caPEM, b.udp)
			cfg["static_host_map"] = m{"10.0.0.1": []string{"192.0.2.1:4242"}}
			cfg["firewall"] = m{"outbound": []m{{"proto": "any", "port": "any", "host": "any"}}, "inbound": []m{{"proto": "udp", "port": "2000", "host": "any"}}}
			raw, _ := yaml.Marshal(cfg)
			return []func(){
				func() { b.deliverOn(0, a.udp, p1[0].Data) },
				func() { _ = b.c.ReloadConfigString(string(raw)) },
				func() { b.deliverOn(1, a.udp, p2[0].Data) },
			}, net.close
		}},
		{"lighthouse-update-vs-query-vs-delete", 3, func(t testing.TB, seed int64) ([]func(), func()) {
			// b is a lighthouse; a reports to it. An authentic HostUpdateNotification from a races a query of the cache
			// and the deletion of a's entries (what closeTunnel does).
			a := vnodeSpec{Name: "a", Networks: "10.0.0.1/24", Udp: "192.0.2.1:4242", Overrides: m{
				"static_host_map": m{"10.0.0.2": []string{"192.0.2.2:4242"}}, "lighthouse": m{"hosts": []string{"10.0.0.2"}}}}
			b := vnodeSpec{Name: "b", Networks: "10.0.0.2/24", Udp: "192.0.2.2:4242", Routines: 2, Overrides: m{"lighthouse": m{"am_lighthouse": true}}}
			net := vNewNet(t, seed, a, b)
			na, nb := net.node("a"), net.node("b")
			if !net.establish(na, nb, "s1") {
				t.Fatalf("establish")
			}
			net.flushFIFO(50)
			up := c34Capture(net, func() { na.lh.SendUpdate(); na.settle() })
			return []func(){
				func() { nb.deliverOn(0, na.udp, up[0].Data) },
				func() {
					rl := nb.lh.QueryCache([]netip.Addr{na.vpnIP})
					rl.ForEach(nb.f.hostMap.GetPreferredRanges(), func(netip.AddrPort, bool) {})
				},
				func() { nb.lh.DeleteVpnAddrs([]netip.Addr{na.vpnIP}) },
			}, net.close
		}},
		{"relay-request-vs-tunnel-delete", 2, func(t testing.TB, seed int64) ([]func(), func()) {
			net := vRelayNet(t, seed)
			a, r, b := net.node("a"), net.node("r"), net.node("b")
			// establish a-r and r-b tunnels only, then capture a's CreateRelayRequest to r
			if !net.establish(a, r, "s1") || !net.establish(r, b, "s2") {
				t.Fatalf("establish")
			}
			net.flushFIFO(50)
			req := c34Capture(net, func() {
				a.tunSend(data(a, b, "VIA"))
				for i := 0; i < 3; i++ {
					vtime.Advance(100 * vtime.Millisecond)
					a.hsTick()
				}
			})
			var ctl []byte
			for _, p := range req {
				var h header.H
				if h.Parse(p.Data) == nil && h.Type == header.Control {
					ctl = p.Data
				}
			}
			if ctl == nil {
				t.Fatalf("no control packet captured: %v", req)
			}
			hiB := r.f.hostMap.QueryVpnAddr(b.vpnIP)
			return []func(){
				func() { r.deliverOn(0, a.udp, ctl) },
				func() { r.f.closeTunnel(hiB) },
			}, net.close
		}},
		{"pki-reload-vs-handshake-vs-cert-check", 3, func(t testing.TB, seed int64) ([]func(), func()) {
			net, a, b := c34Pair(t, seed, 1, 2)
			if !net.establish(a, b, "s1") || !net.establish(b, a, "s2") {
				t.Fatalf("establish")
			}
			net.flushFIFO(50)
			// a fresh first handshake message from a (re-handshake), captured
			s1 := c34Capture(net, func() { a.hm.StartHandshake(b.vpnIP, nil); a.settle() })
			pk := vGetPKI()
			leaf := pk.leafFor(b.spec.Name, b.spec.Networks, b.spec.Unsafe, b.spec.Groups, b.spec.Version)
			cfg := vDefaultConfig(leaf, pk.caPEM, b.udp)
			cfg["static_host_map"] = m{"10.0.0.1": []string{"192.0.2.1:4242"}}
			cfg["pki"].(m)["blocklist"] = []string{"00112233445566778899aabbccddeeff00112233445566778899aabbccddeeff"}
			raw, _ := yaml.Marshal(cfg)
			b.cmTick() // initialises the traffic wheel's clock
			vtime.Advance(2500 * vtime.Millisecond)
			return []func(){
				func() { _ = b.c.ReloadConfigString(string(raw)) },
				func() { b.deliverOn(1, a.udp, s1[0].Data) },
				func() {
					now := vtime.Now()
					b.cm.trafficTimer.Advance(now)
					nb, out := make([]byte, 12), make([]byte, mtu)
					for {
						idx, has := b.cm.trafficTimer.Purge()
						if !has {
							break
						}
						b.cm.doTrafficCheck(idx, []byte(""), nb, out, now)
						c34TrafficChecks++
					}
				},
			}, net.close
		}},
		{"two-senders-queue-on-one-pending-handshake", 3, func(t testing.TB, seed int64) ([]func(), func()) {
			// two tun routines send to a peer whose handshake is pending (packets are queued on the pending entry) while
			// the handshake timer retransmits
			net, a, b := c34Pair(t, seed, 2, 1)
			a.tunSend(data(a, b, "FIRST")) // creates the pending handshake, first message on the wire (not delivered)
			net.collect()
			net.inflight = nil
			vtime.Advance(100 * vtime.Millisecond)
			p1, p2 := data(a, b, "Q1"), data(a, b, "Q2")
			fwp2 := &firewall.ParsedPacket{}
			sb2 := batch.NewSendBatch(a.conns[1], batch.SendBatchCap, batch.SendBatchCap*(udp.MTU+32))
			return []func(){
				func() {
					a.f.consumeInsidePacket(tio.Packet{Bytes: p1}, a.fwp, a.nb, a.sb, a.rej, 0, nil)
					a.f.flushSendBatch(a.sb, 0)
				},
				func() {
					a.f.consumeInsidePacket(tio.Packet{Bytes: p2}, fwp2, make([]byte, 12), sb2, make([]byte, mtu), 1, nil)
					a.f.flushSendBatch(sb2, 1)
				},
				func() { a.hm.NextOutboundHandshakeTimerTick(vtime.Now()) },
			}, net.close
		}},
		{"stop-vs-rx", 2, func(t testing.TB, seed int64) ([]func(), func()) {
			net, a, b := c34Pair(t, seed, 1, 1)
			if !net.establish(a, b, "s1") || !net.establish(b, a, "s2") {
				t.Fatalf("establish")
			}
			net.flushFIFO(50)
			p1 := c34Capture(net, func() { a.tunSend(data(a, b, "ONE")) })
			ctl := &Control{f: b.f, l: b.l, ctx: b.f.ctx, cancel: b.cancel, state: StateStarted}
			return []func(){
				func() { ctl.Stop() },
				func() { b.deliverOn(0, a.udp, p1[0].Data) },
			}, net.close
		}},
		{c34CoreForward, 3, func(t testing.TB, seed int64) ([]func(), func()) {
			// Relay state TRANSITION vs relay READERS on the relay node. r forwards between a and b (both legs Established).
			// Two rx routines of r forward one relayed packet each (a->b and b->a): each resolves the target leg's *Relay
			// through the hostmap and reads its fields after every lock has been dropped. Concurrently r tears down its last
			// tunnel to a, which moves the leg "b for a" Established -> Disestablished.
			net, a, r, b := c34RelayNet(t, seed, 1, 2, 1)
			if !net.establish(a, b, "s1") || !net.establish(b, a, "s2") {
				t.Fatalf("establish through the relay")
			}
			net.flushFIFO(50)
			ab := c34To(c34Capture(net, func() { a.tunSend(data(a, b, "AB")) }), r.udp)
			ba := c34To(c34Capture(net, func() { b.tunSend(data(b, a, "BA")) }), r.udp)
			hiA := r.f.hostMap.QueryVpnAddr(a.vpnIP)
			pre := c34RelayFor(r, b.vpnIP, a.vpnIP)
			if len(ab) != 1 || len(ba) != 1 || hiA == nil || pre == nil || pre.State != Established || pre.Type != ForwardingType {
				t.Fatalf("relay core setup: ab=%v ba=%v hiA=%v leg=%+v", ab, ba, hiA != nil, pre)
			}
			observe := func() {
				if post := c34RelayFor(r, b.vpnIP, a.vpnIP); post != nil && post.State == Disestablished {
					c34Count["relay_state_transitions"]++
				}
				out := c34Relayed(r.takeOut())
				// a relayed datagram towards b proves that the forwarder found the leg and read State == Established
				if len(c34To(out, b.udp)) > 0 {
					c34Count["forward_read_leg_established"]++
				} else {
					c34Count["forward_refused"]++
				}
				if len(c34To(out, a.udp)) > 0 {
					c34Count["reverse_forwarded"]++
				} else {
					c34Count["reverse_refused"]++
				}
				net.close()
			}
			return []func(){
				func() { r.deliverOn(0, a.udp, ab[0].Data) },
				func() { r.f.closeTunnel(hiA) },
				func() { r.deliverOn(1, b.udp, ba[0].Data) },
			}, observe
		}},
		{c34CoreRerequest, 2, func(t testing.TB, seed int64) ([]func(), func()) {
			// Relay state TRANSITIONS vs relay READERS on an endpoint. a dropped its tunnel to b locally, so the leg "r for b"
			// on a is Disestablished. a's handshake timer starts a new handshake to b: StartRelays reads the leg it got from
			// the hostmap and re-requests it (Disestablished -> Requested). Concurrently an rx routine of a receives b's own
			// new handshake through that leg, which marks it Established (sendHandshakeResponse).
			net, a, r, b := c34RelayNet(t, seed, 2, 1, 1)
			if !net.establish(a, b, "s1") || !net.establish(b, a, "s2") {
				t.Fatalf("establish through the relay")
			}
			net.flushFIFO(50)
			a.f.closeTunnel(a.f.hostMap.QueryVpnAddr(b.vpnIP))
			a.injectRelays(b.vpnIP, []netip.Addr{r.vpnIP}) // closeTunnel forgot what the lighthouse said about b; this is its next answer
			pre := c34RelayFor(a, r.vpnIP, b.vpnIP)
			if pre == nil || pre.State != Disestablished || pre.Type != TerminalType {
				t.Fatalf("rerequest core setup: leg=%+v", pre)
			}
			toR := c34To(c34Capture(net, func() { b.hm.StartHandshake(a.vpnIP, nil); b.settle() }), r.udp)
			for i := 0; i < 3 && len(toR) == 0; i++ {
				toR = c34To(c34Capture(net, func() { vtime.Advance(100 * vtime.Millisecond); b.hsTick() }), r.udp)
			}
			var fwd []vpkt
			for _, p := range toR {
				fwd = append(fwd, c34Relayed(c34To(c34Capture(net, func() { r.deliver(b.udp, p.Data) }), a.udp))...)
			}
			// pending handshake a->b; its first attempt becomes due try_interval plus one wheel tick later
			c34Capture(net, func() { a.tunSend(data(a, b, "AGAIN")) })
			vtime.Advance(200 * vtime.Millisecond)
			if len(fwd) == 0 || a.hm.queryVpnIp(b.vpnIP) == nil {
				t.Fatalf("rerequest core setup: toR=%v fwd=%v pending=%v", toR, fwd, a.pendingAddrs())
			}
			observe := func() {
				if post := c34RelayFor(a, r.vpnIP, b.vpnIP); post != nil && post.State != Disestablished {
					c34Count["relay_state_transitions"]++
					c34Count[fmt.Sprintf("final_leg_state_%d", post.State)]++
				}
				if a.f.hostMap.QueryVpnAddr(b.vpnIP) != nil {
					c34Count["handshake_via_relay_accepted"]++
				}
				outA := a.takeOut()
				if len(c34To(outA, r.udp)) >= 2 {
					c34Count["rerequest_and_response_sent"]++
				}
				net.close()
			}
			return []func(){
				func() { a.hm.NextOutboundHandshakeTimerTick(vtime.Now()) },
				func() { a.deliverOn(1, r.udp, fwd[0].Data) },
			}, observe
		}},
		{c34CoreMixedRx, 3, func(t testing.TB, seed int64) ([]func(), func()) {
			// BOTH KINDS of traffic that a tunnel to a relay node carries, received at the same time. The tunnel a<->r has one
			// counter space and one replay window, fed by two receive paths: packets that r itself sends to a (Test / LightHouse
			// / Control ...: ConnectionState.Decrypt) and relay frames that r forwards on behalf of b (Message/MessageRelay:
			// ConnectionState.VerifyRelay, then the inner packet on the a<->b tunnel). Three rx routines of a receive a Test
			// request from r and two relay frames carrying b's packets, all on r's tunnel.
			net, a, r, b := c34RelayNet(t, seed, 3, 1, 1)
			if !net.establish(a, b, "s1") || !net.establish(b, a, "s2") {
				t.Fatalf("establish through the relay")
			}
			net.flushFIFO(50)
			direct := c34To(c34Capture(net, func() {
				r.f.SendMessageToVpnAddr(header.Test, header.TestRequest, a.vpnIP, []byte(""), r.nb, make([]byte, mtu))
				r.settle()
			}), a.udp)
			var frames []vpkt
			for _, tag := range []string{"RELAYED-ONE", "RELAYED-TWO"} {
				toR := c34To(c34Capture(net, func() { b.tunSend(data(b, a, tag)) }), r.udp)
				if len(toR) != 1 {
					t.Fatalf("%s setup: b->r %v", c34CoreMixedRx, toR)
				}
				frames = append(frames, c34Relayed(c34To(c34Capture(net, func() { r.deliver(b.udp, toR[0].Data) }), a.udp))...)
			}
			hiR := a.f.hostMap.QueryVpnAddr(r.vpnIP)
			var dh header.H
			if len(direct) != 1 || dh.Parse(direct[0].Data) != nil || dh.Type != header.Test || len(frames) != 2 || hiR == nil {
				t.Fatalf("%s setup: direct=%v frames=%v tunnel to r=%v", c34CoreMixedRx, direct, frames, hiR != nil)
			}
			// all three datagrams belong to a's tunnel to r (its local index) and carry three different counters of it
			win := hiR.ConnectionState.window
			ctrs := map[uint64]bool{}
			for _, p := range append(append([]vpkt{}, direct...), frames...) {
				var h header.H
				if h.Parse(p.Data) != nil {
					t.Fatalf("%s setup: %v", c34CoreMixedRx, p)
				}
				owner := a.f.hostMap.QueryIndex(h.RemoteIndex) // a direct packet names the tunnel, a relay frame the relay leg on it
				if h.Type == header.Message && h.Subtype == header.MessageRelay {
					owner = a.f.hostMap.QueryRelayIndex(h.RemoteIndex)
				}
				if owner != hiR || h.MessageCounter <= win.current {
					t.Fatalf("%s setup: %v is not a fresh packet of the tunnel to r (window at %d)", c34CoreMixedRx, p, win.current)
				}
				ctrs[h.MessageCounter] = true
			}
			if len(ctrs) != 3 {
				t.Fatalf("%s setup: counters %v", c34CoreMixedRx, ctrs)
			}
			a.takeOut()
			a.tun.take()
			observe := func() {
				// accepted = the window of the tunnel to r recorded the counter; acted upon = the Test request was answered
				// and b's inner packets reached the tun
				recorded := 0
				for ctr := range ctrs {
					if ctr <= win.current && win.get(ctr) {
						recorded++
					}
				}
				if recorded == 3 {
					c34Count["window_recorded_direct_and_both_relay_frames"]++
				}
				replies := 0
				for _, p := range c34To(a.takeOut(), r.udp) {
					var h header.H
					if h.Parse(p.Data) == nil && h.Type == header.Test && h.Subtype == header.TestReply {
						replies++
					}
				}
				if replies == 1 {
					c34Count["direct_packet_decrypted_and_answered"]++
				}
				inner := 0
				for _, p := range a.tun.take() {
					if strings.Contains(string(p), "RELAYED-ONE") || strings.Contains(string(p), "RELAYED-TWO") {
						inner++
					}
				}
				if inner == 2 {
					c34Count["both_relay_frames_verified_and_delivered_to_tun"]++
				}
				net.close()
			}
			return []func(){
				func() { a.deliverOn(0, r.udp, direct[0].Data) },
				func() { a.deliverOn(1, r.udp, frames[0].Data) },
				func() { a.deliverOn(2, r.udp, frames[1].Data) },
			}, observe
		}},
		{c34CoreUpdates, 3, func(t testing.TB, seed int64) ([]func(), func()) {
			// SEVERAL CALLERS of the lighthouse update. LightHouse.SendUpdate is not owned by one goroutine: the update worker
			// calls it on every interval tick / TriggerUpdate, Control.RebindUDPServer calls it on its caller's goroutine, and
			// after a `lighthouse.interval` reload the replaced worker may still be inside it when the replacement worker
			// sends its first update. Two threads run the real lh.SendUpdate() of a node with two lighthouses and an
			// established tunnel to each (real SendMessageToVpnAddr -> sendNoMetrics -> header.Encode / EncryptDanger ->
			// socket write), the third reloads every configuration key that SendUpdate reads (lighthouse.hosts,
			// advertise_addrs, local_allow_list, interval, relay.relays).
			a := vnodeSpec{Name: "a", Networks: "10.0.0.1/24", Udp: "192.0.2.1:4242", Overrides: m{
				"static_host_map": m{"10.0.0.2": []string{"192.0.2.2:4242"}, "10.0.0.3": []string{"192.0.2.3:4242"}},
				"lighthouse":      m{"hosts": []string{"10.0.0.2", "10.0.0.3"}}}}
			b := vnodeSpec{Name: "b", Networks: "10.0.0.2/24", Udp: "192.0.2.2:4242", Overrides: m{"lighthouse": m{"am_lighthouse": true}}}
			cc := vnodeSpec{Name: "c", Networks: "10.0.0.3/24", Udp: "192.0.2.3:4242", Overrides: m{"lighthouse": m{"am_lighthouse": true}}}
			net := vNewNet(t, seed, a, b, cc)
			na, nb, nc := net.node("a"), net.node("b"), net.node("c")
			if !net.establish(na, nb, "s1") || !net.establish(na, nc, "s2") {
				t.Fatalf("establish")
			}
			net.flushFIFO(50)
			na.takeOut()
			pk := vGetPKI()
			leaf := pk.leafFor(na.spec.Name, na.spec.Networks, na.spec.Unsafe, na.spec.Groups, na.spec.Version)
			cfg := vDefaultConfig(leaf, pk.caPEM, na.udp)
			cfg["static_host_map"] = m{"10.0.0.2": []string{"192.0.2.2:4242"}, "10.0.0.3": []string{"192.0.2.3:4242"}}
			cfg["lighthouse"] = m{"hosts": []string{"10.0.0.3"}, "interval": 0, "advertise_addrs": []string{c34NewAdvertise.String()},
				"local_allow_list": m{"192.0.2.0/24": true}}
			cfg["relay"] = m{"relays": []string{"10.0.0.9"}}
			raw, _ := yaml.Marshal(cfg)

			// who wrote what: the socket hook notes the writing goroutine of every datagram (under the socket's own mutex);
			// every thread notes its own goroutine id in its own slot; both are read by the driver after the join
			lhUdp := map[netip.AddrPort]*vnode{nb.udp: nb, nc.udp: nc}
			var writers []uint64
			na.conn.writeErr = func(to netip.AddrPort) error {
				if lhUdp[to] != nil {
					writers = append(writers, c34Gid())
				}
				return nil
			}
			var gid [3]uint64
			var reloadErr error
			observe := func() {
				na.conn.writeErr = nil
				var ups []vpkt
				for _, p := range na.takeOut() {
					var h header.H
					if lhUdp[p.To] != nil && h.Parse(p.Data) == nil && h.Type == header.LightHouse {
						ups = append(ups, p)
					}
				}
				if len(ups) != len(writers) {
					t.Fatalf("%s: %d lighthouse datagrams on the wire, %d attributed writes", c34CoreUpdates, len(ups), len(writers))
				}
				per := [2]int{}
				for _, g := range writers {
					for i := 0; i < 2; i++ {
						if g == gid[i] {
							per[i]++
						}
					}
				}
				if per[0] > 0 && per[1] > 0 && per[0]+per[1] == len(writers) {
					c34Count["every_update_thread_wrote"]++
				}
				c34Count["update_datagrams"] += int64(len(ups))
				c34Count[fmt.Sprintf("schedules_with_%d+%d_datagrams", per[0], per[1])]++
				if reloadErr == nil {
					c34Count["lighthouse_reload_applied"]++
				}
				// every datagram is an authentic HostUpdateNotification: its lighthouse (cache entry for a dropped first)
				// learns a's addresses from it; which configuration the update was built from shows in what it learns
				for _, p := range ups {
					lhn := lhUdp[p.To]
					lhn.lh.DeleteVpnAddrs([]netip.Addr{na.vpnIP})
					lhn.deliver(na.udp, p.Data)
					lhn.lh.RLock()
					rl := lhn.lh.addrMap[na.vpnIP]
					lhn.lh.RUnlock()
					var learned []netip.AddrPort
					if rl != nil {
						learned = rl.CopyAddrs(nil)
					}
					switch {
					case len(learned) == 0:
						c34Count["updates_rejected_by_lighthouse"]++
					case slices.Contains(learned, c34NewAdvertise):
						c34Count["updates_accepted_built_from_reloaded_config"]++
					default:
						c34Count["updates_accepted_built_from_old_config"]++
					}
				}
				net.close()
			}
			return []func(){
				func() { gid[0] = c34Gid(); na.lh.SendUpdate() },
				func() { gid[1] = c34Gid(); na.lh.SendUpdate() },
				func() { gid[2] = c34Gid(); reloadErr = na.c.ReloadConfigString(string(raw)) },
			}, observe
		}},
	}
}

const (
	c34CoreForward   = "relay-forward-vs-peer-tunnel-delete"
	c34CoreRerequest = "relay-rerequest-vs-handshake-via-relay"
	c34CoreUpdates   = "two-lighthouse-update-callers-vs-lighthouse-reload"
	c34CoreMixedRx   = "rx-direct-packet-vs-relay-frames-on-relay-tunnel"
)

// c34NewAdvertise is the advertise address that only the reloaded configuration of the update core contains.
var c34NewAdvertise = netip.MustParseAddrPort("198.51.100.7:4242")

// c34Gid returns the id of the calling goroutine (first line of its stack: "goroutine N [running]:").
func c34Gid() uint64 {
	var buf [64]byte
	n := runtime.Stack(buf[:], false)
	var id uint64
	for _, ch := range buf[min(len("goroutine "), n):n] {
		if ch < '0' || ch > '9' {
			break
		}
		id = id*10 + uint64(ch-'0')
	}
	return id
}

// c34Relayed keeps the datagrams whose (unauthenticated) header says "relayed message".
func c34Relayed(pkts []vpkt) []vpkt {
	var out []vpkt
	for _, p := range pkts {
		var h header.H
		if h.Parse(p.Data) == nil && h.Type == header.Message && h.Subtype == header.MessageRelay {
			out = append(out, p)
		}
	}
	return out
}

// c34TrafficChecks counts doTrafficCheck calls of the current execution (written by one thread, read after the join).
var c34TrafficChecks int

type c34Result struct {
	Core          string           `json:"core"`
	Bound         int              `json:"bound"`
	Executions    int64            `json:"executions"`
	ChoicePoints  int64            `json:"choice_points"`
	Deadlocks     int64            `json:"deadlocks"`
	Horizon       int64            `json:"horizon"`
	Nondet        int64            `json:"nondet"`
	Complete      bool             `json:"complete"`
	ByPreemptions map[int]int64    `json:"by_preemptions"`
	FirstDeadlock []int16          `json:"first_deadlock"`
	Sample        []int8           `json:"sample_thread_order"`
	Counters      map[string]int64 `json:"counters"`
	Seconds       float64          `json:"seconds"` // wall time of the worker's exploration (diagnostic only)
}

// TestVerifC34Worker runs one core in this process (spawned by TestVerifC34 with the race log configured).
func TestVerifC34Worker(t *testing.T) {
	name := os.Getenv("VERIF_C34_CORE")
	if name == "" {
		t.Skip("worker only")
	}
	bound := 1
	fmt.Sscanf(os.Getenv("VERIF_C34_BOUND"), "%d", &bound)
	budget := 60.0
	fmt.Sscanf(os.Getenv("VERIF_C34_BUDGET"), "%f", &budget)
	for _, core := range c34Cores() {
		if core.name != name {
			continue
		}
		startT := realtime.Now()
		deadline := func() bool { return realtime.Since(startT).Seconds() > budget }
		var cleanup func()
		out := c34Result{Core: name, Bound: bound, Complete: true, ByPreemptions: map[int]int64{}, Counters: c34Count}
		// One exploration per seed (1 unless the core says otherwise). The seed changes key material and tunnel indexes but
		// not the schedule tree; see c34Seeds.
		for seed := int64(1); seed <= int64(max(c34Seeds[core.name], 1)); seed++ {
			res := sched.Explore(sched.Options{Bound: bound, MaxSteps: 50000, Stop: deadline}, func() {
				run, cl := core.setup(t, seed)
				cleanup = cl
				for _, f := range run {
					sched.Go(f)
				}
			}, func(x *sched.Exec) {
				// After an aborted execution (deadlock / horizon) the unwound threads may still own real locks of that world:
				// tearing it down could block for ever. The world is dropped instead (fresh objects are built per execution).
				if cleanup != nil && !x.Aborted {
					cleanup()
				}
				if strings.Contains(name, "traffic-check") || strings.Contains(name, "cert-check") {
					if c34TrafficChecks == 0 && !x.Aborted {
						t.Fatalf("vacuous core %s: no traffic check was executed", name)
					}
				}
				c34TrafficChecks = 0
			})
			out.Executions += res.Executions
			out.ChoicePoints += res.ChoicePoints
			out.Deadlocks += res.Deadlocks
			out.Horizon += res.Horizon
			out.Nondet += res.Nondeterministic
			out.Complete = out.Complete && res.Complete
			for k, v := range res.ByPreemptions {
				out.ByPreemptions[k] += v
			}
			if out.FirstDeadlock == nil {
				out.FirstDeadlock = res.FirstDeadlock
			}
			if !res.Complete {
				break
			}
		}
		out.Seconds = realtime.Since(startT).Seconds()
		b, _ := json.Marshal(out)
		if err := os.WriteFile(os.Getenv("VERIF_C34_OUT"), b, 0o644); err != nil {
			t.Fatal(err)
		}
		return
	}
	t.Fatalf("unknown core %q", name)
}

var c34RaceBlock = regexp.MustCompile(`(?s)WARNING: DATA RACE\n(.*?)\n==================`)
var c34Frame = regexp.MustCompile(`(?m)^  (\S+)\(.*\)\n\s+(\S+):(\d+)`)

type c34Race struct {
	sig   string
	text  string
	cores map[string]bool
}

// c34ParseRaces extracts the reports that involve nebula code from one race log.
func c34ParseRaces(log string) map[string]string {
	out := map[string]string{}
	for _, mm := range c34RaceBlock.FindAllStringSubmatch(log, -1) {
		block := mm[1]
		// the report consists of access sections separated by blank lines; the first two are the racing accesses
		secs := strings.Split(block, "\n\n")
		var tops []string
		nebula := false
		for i, sec := range secs {
			if i >= 2 {
				break
			}
			top := ""
			for _, fm := range c34Frame.FindAllStringSubmatch(sec, -1) {
				fn, file := fm[1], fm[2]
				if strings.HasPrefix(fn, "runtime.") || strings.HasPrefix(fn, "sync.") || strings.HasPrefix(fn, "sync/atomic.") || strings.HasPrefix(fn, "internal/") {
					continue
				}
				isHarness := strings.Contains(file, "zz_verif_") || strings.Contains(file, "/zzverif/") || strings.Contains(file, "/verif/")
				if !isHarness && (strings.Contains(file, "/repo/") || strings.Contains(fn, "github.com/slackhq/nebula")) {
					nebula = true
				}
				if !isHarness || top == "" {
					top = fn
					if !isHarness {
						break
					}
				}
			}
			tops = append(tops, top)
		}
		if !nebula {
			continue
		}
		sort.Strings(tops)
		sig := strings.Join(tops, " <-> ")
		// group by call site where one root cause shows up under many function pairs
		if strings.Contains(secs[0], "(*Interface).reloadFirewall") || (len(secs) > 1 && strings.Contains(secs[1], "(*Interface).reloadFirewall")) {
			sig = "Interface.firewall is replaced by reloadFirewall (and the new Firewall published) without synchronisation while packet routines read it"
		}
		if _, ok := out[sig]; !ok {
			out[sig] = block
		}
	}
	return out
}

func TestVerifC34(t *testing.T) {
	c := mc.Begin(t, "C34", "model_checking")
	defer c.End()
	cores := c34Cores()
	bound := mc.Pick(c, 1, 2)
	perCore := mc.Pick(c, 35.0, 800.0)
	if f, err := strconv.ParseFloat(os.Getenv("VERIF_BUDGET_S"), 64); err == nil && f > 0 {
		// the workers run in two waves of eight: a caller-given soft budget is split between the waves
		perCore = min(perCore, max(5.0, f*0.45))
	}
	dir := filepath.Join("/verif/.build/race", fmt.Sprintf("c34-%d", os.Getpid()))
	_ = os.RemoveAll(dir)
	if err := os.MkdirAll(dir, 0o755); err != nil {
		t.Fatal(err)
	}
	defer os.RemoveAll(dir)

	type outT struct {
		res   c34Result
		races map[string]string
		err   string
	}
	outs := make([]outT, len(cores))
	var wg sync.WaitGroup
	sem := make(chan struct{}, 8)
	// launch order: cores with more threads (far more schedules) first, so that the longest workers start in the first wave
	order := make([]int, len(cores))
	for i := range order {
		order[i] = i
	}
	sort.SliceStable(order, func(x, y int) bool { return cores[order[x]].threads > cores[order[y]].threads })
	for _, i := range order {
		core := cores[i]
		wg.Add(1)
		sem <- struct{}{}
		go func(i int, core c34Core) {
			defer wg.Done()
			defer func() { <-sem }()
			resPath := filepath.Join(dir, core.name+".json")
			logBase := filepath.Join(dir, core.name+".race")
			cmd := exec.Command(os.Args[0], "-test.run=^TestVerifC34Worker$", "-test.timeout=3000s")
			cmd.Env = append(os.Environ(), "VERIF_C34_CORE="+core.name, fmt.Sprintf("VERIF_C34_BOUND=%d", bound), fmt.Sprintf("VERIF_C34_BUDGET=%f", perCore),
				"VERIF_C34_OUT="+resPath, "GORACE=log_path="+logBase+" halt_on_error=0 history_size=2", "GOMAXPROCS=2")
			outb, err := cmd.CombinedOutput()
			o := outT{races: map[string]string{}}
			if b, rerr := os.ReadFile(resPath); rerr == nil {
				_ = json.Unmarshal(b, &o.res)
			} else {
				o.err = fmt.Sprintf("worker produced no result (%v): %s", err, tailStr(string(outb), 1500))
			}
			logs, _ := filepath.Glob(logBase + "*")
			for _, lp := range logs {
				if b, rerr := os.ReadFile(lp); rerr == nil {
					for k, v := range c34ParseRaces(string(b)) {
						o.races[k] = v
					}
				}
			}
			outs[i] = o
		}(i, core)
	}
	wg.Wait()

	var execs, points, deadlocks int64
	coreSummary := map[string]any{}
	allRaces := map[string]*c34Race{}
	for i, core := range cores {
		o := outs[i]
		if o.err != "" {
			c.Broken("core %s: %s", core.name, o.err)
		}
		execs += o.res.Executions
		points += o.res.ChoicePoints
		deadlocks += o.res.Deadlocks
		coreSummary[core.name] = map[string]any{"threads": core.threads, "schedules": o.res.Executions, "choice_points": o.res.ChoicePoints,
			"by_preemptions": o.res.ByPreemptions, "complete_within_bound": o.res.Complete, "race_reports_in_nebula": len(o.races), "worker_seconds": float64(int(o.res.Seconds*10)) / 10}
		if !o.res.Complete {
			c.Capped("time budget in core " + core.name)
		}
		if o.res.Nondet > 0 {
			c.Broken("core %s: %d nondeterministic replays", core.name, o.res.Nondet)
		}
		if o.res.Executions < 2 {
			c.Broken("core %s explored %d schedules: no interleaving happened", core.name, o.res.Executions)
		}
		if o.res.Deadlocks > 0 {
			c.Violation("deadlock in core "+core.name, map[string]any{"core": core.name, "schedule": o.res.FirstDeadlock, "count": o.res.Deadlocks})
		}
		if o.res.Horizon > 0 {
			c.Violation("livelock (horizon) in core "+core.name, map[string]any{"core": core.name, "count": o.res.Horizon})
		}
		for sig, text := range o.races {
			r := allRaces[sig]
			if r == nil {
				r = &c34Race{sig: sig, text: text, cores: map[string]bool{}}
				allRaces[sig] = r
			}
			r.cores[core.name] = true
		}
		c.Sample(map[string]any{"core": core.name, "schedules": o.res.Executions, "by_preemptions": o.res.ByPreemptions})
	}
	for sig, r := range allRaces {
		cs := []string{}
		for k := range r.cores {
			cs = append(cs, k)
		}
		sort.Strings(cs)
		c.Violation("data race: "+sig, map[string]any{"cores": cs, "report": r.text})
	}
	// Vacuity guards of the relay cores: in every schedule a real state transition of a published relay leg took place,
	// and the concurrent readers both found the leg in the old state (and acted on it) and missed it.
	relayReaderSchedules, relayTransitions := int64(0), int64(0)
	for i, core := range cores {
		o := outs[i]
		if len(o.res.Counters) > 0 {
			c.Set("outcomes_"+core.name, o.res.Counters)
		}
		if o.res.Deadlocks > 0 || o.res.Horizon > 0 {
			continue
		}
		cnt := o.res.Counters
		switch core.name {
		case c34CoreForward:
			c.Require(cnt["relay_state_transitions"] == o.res.Executions, "core %s: the leg went Established -> Disestablished in %d of %d schedules", core.name, cnt["relay_state_transitions"], o.res.Executions)
			c.Require(cnt["forward_read_leg_established"] > 0 && cnt["forward_refused"] > 0, "core %s: forwarder outcomes %v (need both: forwarded on the old state, refused after the transition)", core.name, cnt)
			c.Require(cnt["reverse_forwarded"] > 0 && cnt["reverse_refused"] > 0, "core %s: reverse forwarder outcomes %v", core.name, cnt)
			relayReaderSchedules += cnt["forward_read_leg_established"]
			relayTransitions += cnt["relay_state_transitions"]
		case c34CoreRerequest:
			c.Require(cnt["relay_state_transitions"] == o.res.Executions, "core %s: the leg left Disestablished in %d of %d schedules", core.name, cnt["relay_state_transitions"], o.res.Executions)
			c.Require(cnt["handshake_via_relay_accepted"] == o.res.Executions, "core %s: the handshake through the leg was accepted in %d of %d schedules", core.name, cnt["handshake_via_relay_accepted"], o.res.Executions)
			c.Require(cnt["rerequest_and_response_sent"] == o.res.Executions, "core %s: re-request and handshake response were both sent in %d of %d schedules", core.name, cnt["rerequest_and_response_sent"], o.res.Executions)
			relayReaderSchedules += cnt["rerequest_and_response_sent"]
			relayTransitions += cnt["relay_state_transitions"]
		case c34CoreMixedRx:
			// in every schedule the Decrypt path and the VerifyRelay path both accepted their packets on the same window
			for _, k := range []string{"window_recorded_direct_and_both_relay_frames", "direct_packet_decrypted_and_answered", "both_relay_frames_verified_and_delivered_to_tun"} {
				c.Require(len(o.races) > 0 || cnt[k] == o.res.Executions, "core %s: %s in %d of %d schedules", core.name, k, cnt[k], o.res.Executions)
			}
			c.Set("mixed_direct_and_relayed_rx_schedules", cnt["window_recorded_direct_and_both_relay_frames"])
		case c34CoreUpdates:
			// two callers were inside SendUpdate in every schedule and each of them put at least one update on the wire
			c.Require(cnt["every_update_thread_wrote"] == o.res.Executions, "core %s: both SendUpdate callers wrote a lighthouse datagram in %d of %d schedules", core.name, cnt["every_update_thread_wrote"], o.res.Executions)
			c.Require(cnt["lighthouse_reload_applied"] == o.res.Executions, "core %s: the lighthouse reload was applied in %d of %d schedules", core.name, cnt["lighthouse_reload_applied"], o.res.Executions)
			c.Require(!o.res.Complete || cnt["updates_accepted_built_from_old_config"] > 0 && cnt["updates_accepted_built_from_reloaded_config"] > 0, "core %s: updates were built both before and after the reload: %v", core.name, cnt)
			if len(o.races) == 0 {
				// (with a race on the send path the datagrams may be garbage; the race is the verdict then)
				c.Require(cnt["updates_rejected_by_lighthouse"] == 0 && cnt["updates_accepted_built_from_old_config"]+cnt["updates_accepted_built_from_reloaded_config"] == cnt["update_datagrams"],
					"core %s: every datagram written by SendUpdate is an authentic HostUpdateNotification for its lighthouse: %v", core.name, cnt)
			}
			c.Set("concurrent_sendupdate_schedules", cnt["every_update_thread_wrote"])
			c.Set("concurrent_sendupdate_datagrams", cnt["update_datagrams"])
		}
	}
	c.Set("relay_leg_state_transitions_under_concurrent_readers", relayTransitions)
	c.Set("relay_leg_reads_acted_on", relayReaderSchedules)
	c.Set("states", execs)
	c.Set("transitions", points)
	c.Set("traces_validated_against_impl", execs)
	c.Set("schedules", execs)
	c.Set("cores", coreSummary)
	c.Set("preemption_bound_completed", bound)
	c.Set("distinct_race_signatures_in_nebula", len(allRaces))
	c.Set("explanation", "states = complete schedules executed under the race detector; transitions = scheduling choice points; cores = 2-3 thread harnesses on real nodes")
	c.Assume("the callers of LightHouse.SendUpdate other than the update worker (Control.RebindUDPServer, the replacement worker after a lighthouse.interval reload) are represented by their SendUpdate call; the socket rebind itself is not among the activities the statement lists, so neither RebindUDPServer's own write of Interface.rebindCount nor start states after a rebind (Interface.rebindCount != HostInfo.lastRebindCount, where sendNoMetrics updates lastRebindCount) are explored")
	c.Assume("coverage is the listed cores x preemption bound; whole-engine load testing with randomized scheduling is a different technique and is not attempted")
	c.Assume("the scheduler is sequentially consistent; weaker memory-model effects are only caught as far as the race detector reports the missing happens-before edge")
}

func tailStr(s string, n int) string {
	if len(s) > n {
		return s[len(s)-n:]
	}
	return s
}
