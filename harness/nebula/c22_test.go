//go:build verif

package nebula

import (
	"fmt"
	"log/slog"
	"regexp"
	"strings"
	"sync"
	"testing"

	"github.com/slackhq/nebula/cert"
	"github.com/slackhq/nebula/config"
	"github.com/slackhq/nebula/firewall"
	"github.com/slackhq/nebula/zzverif/mc"
)

// C22 — firewall configuration parses exactly.
//
// Bounded-exhaustive enumeration (E3) of configuration TEXT: YAML rule maps over proto x port x selector alphabets
// (strings and other YAML types), rule lists, and every port string up to a length bound over a small character
// alphabet. Each text is loaded by the production path (config.C.LoadString -> AddFirewallRulesFromConfig -> real
// Firewall) and compared with a reference grammar written from the statement and the documented syntax
// (examples/config.yml): does it load, and if it loads, does Firewall.Drop admit exactly the packets the text
// describes (C16's flat-list reference evaluator applied to the meaning of the text).
//
// Three-valued grammar: MUST load / MUST be rejected / EITHER (the statement is silent: e.g. upper-case proto, spaces
// inside a range, YAML floats). For EITHER texts loading is not judged, but a loaded rule must still mean what the
// text says (or the meaning is declared unspecified and only "does not crash" is checked).

type c22Status int

const (
	c22Must c22Status = iota
	c22Either
	c22Reject
)

func (s c22Status) String() string { return [...]string{"must-load", "either", "must-reject"}[s] }

// c22Opt is one alphabet value of one field group of a rule map.
type c22Opt struct {
	Lines  []string // YAML lines of the rule map ("key: value"); nil = absent
	Status c22Status
	Class  string            // what kind of text this is (used in violation signatures)
	Unspec bool              // if it loads, the statement does not define what it means: no verdict comparison
	Apply  func(r *c16Rule) // writes the meaning of the text into the reference rule
}

// ---------------------------------------------------------------------------------------------------------------
// reference grammar for port text

var c22DecRe = regexp.MustCompile(`^(0|[1-9][0-9]{0,4})$`)

func c22StrictDec(s string) (int, bool) {
	if !c22DecRe.MatchString(s) {
		return 0, false
	}
	n := 0
	for _, ch := range s {
		n = n*10 + int(ch-'0')
	}
	return n, n <= 65535
}

type c22Port struct {
	Status c22Status
	Kind   int
	Lo, Hi int
	Unspec bool
	Class  string
}

// c22RefPort: "a valid port, range, 'any' or 'fragment'"; "Takes 0 or any as any, a single number 80, a range 200-901,
// or fragment" (examples/config.yml). Decimal = ASCII digits, no sign, value 0..65535.
func c22RefPort(s string) c22Port {
	switch s {
	case "any":
		return c22Port{Status: c22Must, Kind: c16PortAny, Class: "any"}
	case "fragment":
		return c22Port{Status: c22Must, Kind: c16PortFragment, Class: "fragment"}
	}
	if n, ok := c22StrictDec(s); ok {
		if n == 0 {
			return c22Port{Status: c22Must, Kind: c16PortAny, Class: "0"}
		}
		return c22Port{Status: c22Must, Kind: c16PortRange, Lo: n, Hi: n, Class: "single port"}
	}
	if i := strings.IndexByte(s, '-'); i >= 0 {
		lo, ok1 := c22StrictDec(s[:i])
		hi, ok2 := c22StrictDec(s[i+1:])
		if ok1 && ok2 {
			switch {
			case lo > hi:
				return c22Port{Status: c22Reject, Class: "range with start above end"}
			case lo == 0:
				// 0 means any; a range starting at 0 is not documented. Loading it is not judged and its meaning is unspecified.
				return c22Port{Status: c22Either, Unspec: true, Class: "range starting at 0"}
			}
			return c22Port{Status: c22Must, Kind: c16PortRange, Lo: lo, Hi: hi, Class: "range"}
		}
	}
	// lenient spellings: the statement does not say whether these are acceptable; if accepted they must mean the
	// normalised text (never something else)
	norm := c22Normalise(s)
	if norm != s {
		if p := c22RefPort(norm); p.Status != c22Reject {
			p.Status = c22Either
			p.Class = "lenient spelling of " + p.Class
			return p
		}
	}
	return c22Port{Status: c22Reject, Class: c22RejectClass(s)}
}

// c22Normalise removes blanks, one leading '+' and leading zeros of each bound, folds case and full-width digits.
func c22Normalise(s string) string {
	var sb strings.Builder
	for _, ch := range s {
		switch {
		case ch == ' ' || ch == '\t':
		case ch >= '０' && ch <= '９':
			sb.WriteRune('0' + (ch - '０'))
		default:
			sb.WriteRune(ch)
		}
	}
	t := strings.ToLower(sb.String())
	parts := strings.SplitN(t, "-", 2)
	for i, p := range parts {
		p = strings.TrimPrefix(p, "+")
		for len(p) > 1 && p[0] == '0' && p[1] >= '0' && p[1] <= '9' {
			p = p[1:]
		}
		parts[i] = p
	}
	return strings.Join(parts, "-")
}

func c22RejectClass(s string) string {
	digits := s != ""
	for _, ch := range s {
		if ch < '0' || ch > '9' {
			digits = false
		}
	}
	switch {
	case s == "":
		return "empty port"
	case digits:
		return "decimal above 65535"
	case strings.HasPrefix(s, "-") && len(s) > 1 && strings.Trim(s[1:], "0123456789") == "":
		return "negative number"
	case strings.Contains(s, "-"):
		return "malformed range"
	}
	return "non-decimal text"
}

// ---------------------------------------------------------------------------------------------------------------

type c22Case struct {
	Text    string // the YAML document
	Inbound bool
	Status  c22Status
	Unspec  bool
	Classes []string // per rule: the classes that decide the status
	Rules   []c16Rule
	Raw     map[string]any // part B: settings built directly instead of Text
}

type c22Harness struct {
	c      *mc.Check
	l      *slog.Logger
	cp     *cert.CAPool
	world  *c16World
	mu     sync.Mutex
	counts map[string]int64
	sigs   map[string]struct{} // distinct violation signatures (the enumeration goes on past repeated ones)
}

func (h *c22Harness) violation(sig string, detail any) {
	h.mu.Lock()
	h.sigs[sig] = struct{}{}
	h.mu.Unlock()
	h.c.Violation(sig, detail)
}

func (h *c22Harness) distinctViolations() int {
	h.mu.Lock()
	defer h.mu.Unlock()
	return len(h.sigs)
}

func (h *c22Harness) count(k string, n int64) {
	h.mu.Lock()
	h.counts[k] += n
	h.mu.Unlock()
}

var c22RuleNo = regexp.MustCompile(`rule #[0-9]+`)

// run loads one configuration through the production path and judges it.
func (h *c22Harness) run(cs c22Case, pa c16PacketAlpha) {
	c := h.c
	conf := config.NewC(h.l)
	if cs.Raw != nil {
		conf.Settings = cs.Raw
	} else if err := conf.LoadString(cs.Text); err != nil {
		c.Broken("generated YAML does not parse: %v\n%s", err, cs.Text)
	}
	fw := c16NewFirewall(h.l, h.world.Node)
	var err error
	var panicked any
	func() {
		defer func() { panicked = recover() }()
		err = AddFirewallRulesFromConfig(h.l, cs.Inbound, conf, fw)
	}()
	detail := func(extra map[string]any) map[string]any {
		m := map[string]any{"config": cs.Text, "inbound": cs.Inbound, "reference_status": cs.Status.String(), "classes": cs.Classes, "load_error": fmt.Sprint(err)}
		if cs.Raw != nil {
			m["settings"] = fmt.Sprintf("%#v", cs.Raw)
		}
		for k, v := range extra {
			m[k] = v
		}
		return m
	}
	classes := strings.Join(cs.Classes, " | ")
	h.count("configs", 1)
	if panicked != nil {
		h.count("panicked", 1)
		h.violation("AddFirewallRulesFromConfig panics instead of loading or rejecting: "+c22PanicClass(cs, panicked), detail(map[string]any{"panic": fmt.Sprint(panicked)}))
		return
	}
	loaded := err == nil
	if loaded {
		h.count("loaded", 1)
	} else {
		h.count("rejected", 1)
		h.c.Distinct("reject_messages", c22RuleNo.ReplaceAllString(strings.SplitN(err.Error(), "`", 2)[0], "rule #N"))
	}
	h.count("status_"+cs.Status.String(), 1)
	switch {
	case cs.Status == c22Reject && loaded:
		h.violation("rule list loads although the grammar rejects it: "+classes, detail(nil))
		return
	case cs.Status == c22Must && !loaded:
		h.violation("well-formed rule list is refused ("+c22RuleNo.ReplaceAllString(strings.SplitN(err.Error(), "`", 2)[0], "rule #N")+")", detail(nil))
		return
	}
	if !loaded || cs.Unspec {
		return
	}
	// loaded: Drop must admit exactly what the text describes
	h.count("loaded_and_compared", 1)
	var evals, allows int64
	w := h.world
	for pi := range w.Peers {
		p := &w.Peers[pi]
		for _, pr := range pa.probes(*p) {
			want := c16RefVerdict(w.Node, cs.Rules, p, pr.Pkt, pr.Incoming)
			derr := fw.Drop(pr.Pkt, pr.Incoming, w.Hosts[pi], h.cp, nil)
			got := derr == nil
			evals++
			if want {
				allows++
			}
			if got {
				fw.Conntrack.Lock()
				delete(fw.Conntrack.Conns, pr.Pkt)
				fw.Conntrack.Unlock()
			}
			if got != want {
				what := "admits a packet the text does not describe"
				if want {
					what = "refuses a packet the text describes"
				}
				var rs []string
				for _, r := range cs.Rules {
					rs = append(rs, r.String())
				}
				h.violation(fmt.Sprintf("loaded rule %s [%s packet%s; reference: %s]", what, c16ProtoName(pr.Pkt.Protocol), c16FragWord(pr.Pkt), c16RefWhy(w.Node, cs.Rules, p, pr.Pkt, pr.Incoming)), detail(map[string]any{"meaning_of_text": rs, "peer": p.String(), "packet": c16PktString(pr),
					"impl_allows": got, "reference_allows": want, "reference_reason": c16RefWhy(w.Node, cs.Rules, p, pr.Pkt, pr.Incoming), "node": fmt.Sprintf("%+v", w.Node)}))
				return
			}
		}
	}
	h.count("drop_evaluations", evals)
	h.count("drop_allows", allows)
	if allows > 0 && allows < evals {
		h.count("loaded_with_both_verdicts", 1)
	}
}

// c22PanicClass names the defect behind a panic by its panic site (stable across the proto/port/selector combination
// in which it was met), so that every distinct crash has exactly one signature.
func c22PanicClass(cs c22Case, panicked any) string {
	msg := fmt.Sprint(panicked)
	switch {
	case strings.Contains(msg, "interface conversion") && strings.Contains(msg, "not string"):
		return "a groups list with a non-string element (interface conversion in convertRule)"
	case strings.Contains(msg, "index out of range [0] with length 0"):
		return "`group: []`, an empty list (index out of range in convertRule)"
	case strings.Contains(msg, "nil pointer dereference"):
		return "`groups:` with a null value (reflect.TypeOf(nil).Kind() in convertRule)"
	}
	return msg + " on " + strings.Join(cs.Classes, " | ")
}

// c22Render writes the YAML document for a rule list. Each rule is a list of "key: value" lines.
func c22Render(inbound bool, rules [][]string) string {
	table := "outbound"
	if inbound {
		table = "inbound"
	}
	var sb strings.Builder
	sb.WriteString("firewall:\n  " + table + ":\n")
	for _, lines := range rules {
		if len(lines) == 0 {
			sb.WriteString("    - {}\n")
			continue
		}
		for i, ln := range lines {
			if i == 0 {
				sb.WriteString("    - " + ln + "\n")
			} else {
				sb.WriteString("      " + ln + "\n")
			}
		}
	}
	return sb.String()
}

type c22RuleSpec struct {
	Proto, Port, Sel c22Opt
}

// compose: status and meaning of one rule map
func (rs c22RuleSpec) compose(inbound bool) (lines []string, st c22Status, unspec bool, classes string, rule c16Rule) {
	lines = append(lines, rs.Port.Lines...)
	lines = append(lines, rs.Proto.Lines...)
	lines = append(lines, rs.Sel.Lines...)
	rule = c16Rule{Incoming: inbound}
	rs.Proto.Apply(&rule)
	port := rs.Port
	if rule.Proto == "icmp" && rs.Proto.Status != c22Reject && !strings.HasPrefix(rs.Port.Class, "code") {
		// "a port specification is ignored if proto is icmp" (examples/config.yml)
		port = c22Opt{Status: c22Must, Class: "port ignored for icmp (" + rs.Port.Class + ")", Apply: func(r *c16Rule) { r.PortKind = c16PortAny }}
	}
	port.Apply(&rule)
	rs.Sel.Apply(&rule)
	rule = rule.prep()
	parts := []c22Opt{rs.Proto, port, rs.Sel}
	st = c22Must
	var cl []string
	for _, p := range parts {
		if p.Status == c22Reject {
			st = c22Reject
		}
	}
	for _, p := range parts {
		if st != c22Reject && p.Status == c22Either {
			st = c22Either
		}
		if p.Unspec {
			unspec = true
		}
		if p.Status == st || (st == c22Must) {
			cl = append(cl, p.Class)
		}
	}
	return lines, st, unspec, strings.Join(cl, ", "), rule
}

func c22Q(s string) string { // YAML double-quoted scalar
	return `"` + strings.NewReplacer(`\`, `\\`, `"`, `\"`, "\t", `\t`).Replace(s) + `"`
}

func TestVerifC22(t *testing.T) {
	c := mc.Begin(t, "C22", "exploration")
	defer c.End()
	l := slog.New(slog.DiscardHandler)
	h := &c22Harness{c: c, l: l, cp: c16CAPool(), counts: map[string]int64{}, sigs: map[string]struct{}{}}

	c.Assume("three-valued grammar: where the statement is silent (upper-case proto/any, numeric proto, blanks / '+' / leading zeros / full-width digits in port text, YAML float or hex ports, a range starting at 0, group given as a list, groups given as a string, a rule whose only selector is local_cidr/ca_name/ca_sha, cidr with host bits) loading is NOT judged; if such a text loads it must mean the normalised text, or (range starting at 0, group+groups, non-string group values) its meaning is declared unspecified")
	c.Assume("the port of a proto:icmp rule is ignored whatever its text (documented in examples/config.yml)")
	c.Assume("the deprecated `code` key is only checked for not crashing (loading and meaning not judged); keys outside the documented set are not enumerated; conntrack timeouts, inbound_action etc. are not part of this property")
	c.Assume("non-string YAML scalars are judged by their decimal rendering (80 -> \"80\"); booleans, nulls, lists and maps are not ports/protocols")

	// the node has an unsafe network so that local_cidr changes verdicts
	node := c16Node{"unsafe", c16Prefixes("10.0.0.1/24"), c16Prefixes("172.16.0.0/16"), false}
	peers := []c16Peer{}
	for _, p := range c16Peers(false) {
		if p.Shape == "A" || (p.Shape == "C" && p.Name == "h1" && len(p.Groups) == 1) || (p.Shape == "B" && p.Name == "h2") {
			peers = append(peers, p)
		}
	}
	pa := c16PacketAlpha{
		Protos:  []uint8{firewall.ProtoTCP, firewall.ProtoUDP, firewall.ProtoICMP},
		Ports:   [][2]uint16{{80, 79}, {79, 80}, {81, 80}, {80, 81}, {82, 80}, {65535, 1}, {1, 65535}},
		Frags:   []bool{false, true},
		Locals4: c16Addrs("10.0.0.1", "172.16.0.7"), Foreign4: c16Addrs("10.0.0.77")[0],
		Locals6: c16Addrs("fd00::1"), Foreign6: c16Addrs("fd00::77")[0],
	}
	h.world = c16MakeWorld(node, peers, pa)

	// ---- field alphabets -------------------------------------------------------------------------------------
	setProto := func(p string) func(*c16Rule) { return func(r *c16Rule) { r.Proto = p } }
	nop := func(*c16Rule) {}
	protos := []c22Opt{
		{[]string{"proto: tcp"}, c22Must, "proto tcp", false, setProto("tcp")},
		{[]string{"proto: udp"}, c22Must, "proto udp", false, setProto("udp")},
		{[]string{"proto: icmp"}, c22Must, "proto icmp", false, setProto("icmp")},
		{[]string{"proto: any"}, c22Must, "proto any", false, setProto("any")},
		{[]string{`proto: "tcp"`}, c22Must, "proto tcp (quoted)", false, setProto("tcp")},
		{[]string{"proto: TCP"}, c22Either, "proto in upper case", false, setProto("tcp")},
		{[]string{"proto: Any"}, c22Either, "proto in mixed case", false, setProto("any")},
		{[]string{"proto: 6"}, c22Either, "proto as IP protocol number", false, setProto("tcp")},
		{[]string{`proto: ""`}, c22Reject, "empty proto", false, nop},
		{nil, c22Reject, "proto missing", false, nop},
		{[]string{"proto: bogus"}, c22Reject, "unknown proto", false, nop},
		{[]string{"proto: tcp6"}, c22Reject, "unknown proto", false, nop},
		{[]string{"proto: true"}, c22Reject, "proto is a boolean [typed]", false, nop},
		{[]string{"proto: [tcp]"}, c22Reject, "proto is a list [typed]", false, nop},
		{[]string{"proto:"}, c22Reject, "proto is null [typed]", false, nop},
	}

	portOpt := func(line string, text string, typed string) c22Opt {
		p := c22RefPort(text)
		cl := "port " + p.Class
		if typed != "" {
			cl += " [typed] " + typed
		}
		return c22Opt{[]string{line}, p.Status, cl, p.Unspec, func(r *c16Rule) { r.PortKind, r.Lo, r.Hi = p.Kind, p.Lo, p.Hi }}
	}
	var ports []c22Opt
	portTexts := []string{"any", "0", "80", "80-81", "81-80", "fragment", "65535", "65536", "-1", "+80", "0x50", "80 - 81", "80-", "-", " 80", "８０",
		"80.0", "1e2", "", "0-81", "080", "80-80", "65535-65535", "99999999999999999999", "4294967376", "65616", "-65456", "ANY", "Fragment", "80,81", "80-81-82",
		"80-65536", "1-\t81", "80 81", "any-81", "fragment-81", "0-0", "00"}
	for _, s := range portTexts {
		ports = append(ports, portOpt("port: "+c22Q(s), s, ""))
	}
	// other YAML types
	ports = append(ports,
		portOpt("port: 80", "80", "int"),
		portOpt("port: 0", "0", "int"),
		portOpt("port: 65535", "65535", "int"),
		portOpt("port: 65536", "65536", "int"),
		portOpt("port: -1", "-1", "int"),
		portOpt("port: any", "any", "plain scalar"),
		portOpt("port: 80-81", "80-81", "plain scalar"),
		c22Opt{[]string{"port: 0x50"}, c22Either, "port YAML hex int [typed]", false, func(r *c16Rule) { r.PortKind, r.Lo, r.Hi = c16PortRange, 80, 80 }},
		c22Opt{[]string{"port: 80.0"}, c22Either, "port YAML float [typed]", false, func(r *c16Rule) { r.PortKind, r.Lo, r.Hi = c16PortRange, 80, 80 }},
		c22Opt{[]string{"port: 80.5"}, c22Reject, "port YAML fractional float [typed]", false, nop},
		c22Opt{[]string{"port: true"}, c22Reject, "port is a boolean [typed]", false, nop},
		c22Opt{[]string{"port:"}, c22Reject, "port is null [typed]", false, nop},
		c22Opt{[]string{"port: [80]"}, c22Reject, "port is a list [typed]", false, nop},
		c22Opt{[]string{"port: {from: 80}"}, c22Reject, "port is a map [typed]", false, nop},
		c22Opt{nil, c22Reject, "port missing", false, nop},
		// the deprecated `code` key: the statement does not mention it; only "no crash" is checked
		c22Opt{[]string{`code: "80"`}, c22Either, "code instead of port", true, nop},
		c22Opt{[]string{`code: "80"`, `port: "80"`}, c22Either, "code and port", true, nop},
	)

	type sel struct {
		lines  []string
		st     c22Status
		class  string
		unspec bool
		groups []string
		host   string
		cidr   string
		local  string
		caName string
		caSha  string
	}
	selDefs := []sel{
		{lines: []string{"host: h1"}, class: "host", host: "h1"},
		{lines: []string{"host: any"}, class: "host any", host: "any"},
		{lines: []string{"group: g1"}, class: "group", groups: []string{"g1"}},
		{lines: []string{"groups: [g1, g2]"}, class: "groups list", groups: []string{"g1", "g2"}},
		{lines: []string{"groups:", "  - g2", "  - g1"}, class: "groups block list", groups: []string{"g2", "g1"}},
		{lines: []string{"groups: [g1]"}, class: "groups list of one", groups: []string{"g1"}},
		{lines: []string{"groups: [g1, any]"}, class: "groups with any", groups: []string{"g1", "any"}},
		{lines: []string{"group: any"}, class: "group any", groups: []string{"any"}},
		{lines: []string{"cidr: 10.0.0.0/29"}, class: "cidr", cidr: "10.0.0.0/29"},
		{lines: []string{"cidr: any"}, class: "cidr any", cidr: "any"},
		{lines: []string{`cidr: "::/0"`}, class: "cidr v6 any", cidr: "::/0"},
		{lines: []string{"cidr: 0.0.0.0/0"}, class: "cidr v4 any", cidr: "0.0.0.0/0"},
		{lines: []string{"host: h1", "local_cidr: 172.16.0.0/16"}, class: "host + local_cidr", host: "h1", local: "172.16.0.0/16"},
		{lines: []string{"group: g1", "local_cidr: any"}, class: "group + local_cidr any", groups: []string{"g1"}, local: "any"},
		{lines: []string{"host: any", "ca_name: caN1"}, class: "host any + ca_name", host: "any", caName: "caN1"},
		{lines: []string{"group: g1", "ca_sha: sha1"}, class: "group + ca_sha", groups: []string{"g1"}, caSha: "sha1"},
		{lines: []string{"host: h2", "groups: [g1]", "cidr: 172.17.0.0/16"}, class: "host + groups + cidr", host: "h2", groups: []string{"g1"}, cidr: "172.17.0.0/16"},
		{lines: []string{"host: h1", `local_cidr: ""`, `cidr: ""`}, class: "host + empty strings", host: "h1"},
		{lines: []string{"host: h1", "ca_name: caN2", "ca_sha: sha3"}, class: "host + ca_name + ca_sha", host: "h1", caName: "caN2", caSha: "sha3"},
		// nested remote cidrs with different local_cidr (used by the rule-list part: each rule must keep its own local_cidr
		// whatever other rule's cidr covers or is covered by its own; peers sit at 10.0.0.2 (inside both) and 10.0.0.9 (/24 only))
		{lines: []string{"cidr: 10.0.0.0/24", "local_cidr: 10.0.0.0/24"}, class: "cidr /24 + local_cidr overlay", cidr: "10.0.0.0/24", local: "10.0.0.0/24"},
		{lines: []string{"cidr: 10.0.0.0/29", "local_cidr: 172.16.0.0/16"}, class: "cidr /29 + local_cidr unsafe", cidr: "10.0.0.0/29", local: "172.16.0.0/16"},
		// statement silent: loading not judged
		{lines: []string{"local_cidr: 172.16.0.0/16"}, st: c22Either, class: "only local_cidr", local: "172.16.0.0/16"},
		{lines: []string{"ca_name: caN1"}, st: c22Either, class: "only ca_name", caName: "caN1"},
		{lines: []string{"ca_sha: sha1"}, st: c22Either, class: "only ca_sha", caSha: "sha1"},
		{lines: []string{"group: [g1]"}, st: c22Either, class: "group as list of one [typed]", groups: []string{"g1"}},
		{lines: []string{"groups: g1"}, st: c22Either, class: "groups as string [typed]", groups: []string{"g1"}},
		{lines: []string{"group: [g1, g2]"}, st: c22Either, unspec: true, class: "group as list of two [typed]"},
		{lines: []string{"group: g1", "groups: [g2]"}, st: c22Either, unspec: true, class: "group and groups"},
		{lines: []string{"groups: [1]"}, st: c22Either, unspec: true, class: "groups list with a number [typed]"},
		{lines: []string{"groups: [g1, 2]"}, st: c22Either, unspec: true, class: "groups list with a number [typed]"},
		{lines: []string{"groups: [[g1]]"}, st: c22Either, unspec: true, class: "groups list with a list [typed]"},
		{lines: []string{"group: 5"}, st: c22Either, unspec: true, class: "group is a number [typed]"},
		{lines: []string{"host: 123"}, st: c22Either, unspec: true, class: "host is a number [typed]"},
		{lines: []string{"groups:", "host: h1"}, st: c22Either, class: "groups is null [typed] + host", host: "h1"},
		{lines: []string{"group: []", "host: h1"}, st: c22Either, class: "group is an empty list [typed] + host", host: "h1"},
		{lines: []string{"group:", "host: h1"}, st: c22Either, unspec: true, class: "group is null [typed] + host"},
		{lines: []string{"groups: []", "host: h1"}, st: c22Either, class: "groups is an empty list + host", host: "h1"},
		{lines: []string{"groups:"}, st: c22Either, unspec: true, class: "groups is null [typed]"},
		{lines: []string{"group: []"}, st: c22Either, unspec: true, class: "group is an empty list [typed]"},
		{lines: []string{"groups: {a: b}", "host: h1"}, st: c22Either, unspec: true, class: "groups is a map [typed] + host"},
		{lines: []string{"cidr: 10.0.0.2/29"}, st: c22Either, class: "cidr with host bits", cidr: "10.0.0.0/29"},
		{lines: []string{`cidr: " 10.0.0.0/29"`}, st: c22Either, class: "cidr with leading blank", cidr: "10.0.0.0/29"},
		{lines: []string{"cidr: ANY"}, st: c22Either, class: "cidr ANY in upper case", cidr: "any"},
		// must be rejected
		{lines: nil, st: c22Reject, class: "no selector"},
		{lines: []string{`host: ""`}, st: c22Reject, class: "no selector (empty host)"},
		{lines: []string{"groups: []"}, st: c22Reject, class: "no selector (empty groups list)"},
		{lines: []string{"cidr: 10.0.0.0"}, st: c22Reject, class: "cidr without prefix length"},
		{lines: []string{"cidr: garbage"}, st: c22Reject, class: "cidr garbage"},
		{lines: []string{"cidr: 10.0.0.0/33"}, st: c22Reject, class: "cidr prefix length out of range"},
		{lines: []string{"cidr: 10.0.0.256/24"}, st: c22Reject, class: "cidr octet out of range"},
		{lines: []string{`cidr: "fe80::1%eth0/64"`}, st: c22Reject, class: "cidr with zone"},
		{lines: []string{"host: h1", "cidr: garbage"}, st: c22Reject, class: "host + cidr garbage"},
		{lines: []string{"host: h1", "local_cidr: garbage"}, st: c22Reject, class: "host + local_cidr garbage"},
		{lines: []string{"host: h1", "local_cidr: 172.16.0.0"}, st: c22Reject, class: "host + local_cidr without prefix length"},
		{lines: []string{"cidr: [10.0.0.0/29]"}, st: c22Reject, class: "cidr is a list [typed]"},
	}
	var sels []c22Opt
	for _, s := range selDefs {
		s := s
		sels = append(sels, c22Opt{s.lines, s.st, "selector: " + s.class, s.unspec, func(r *c16Rule) {
			r.Groups, r.Host, r.Cidr, r.LocalCidr, r.CAName, r.CASha = s.groups, s.host, s.cidr, s.local, s.caName, s.caSha
		}})
	}

	stop := func() bool { return c.OutOfTime() || h.distinctViolations() > 25 }

	// ---- part A1: every single rule map proto x port x selector, inbound and outbound ------------------------------
	type idx struct{ a, b, s int }
	var singles []idx
	for a := range protos {
		for b := range ports {
			for s := range sels {
				singles = append(singles, idx{a, b, s})
			}
		}
	}
	var sampleMu sync.Mutex
	sampled := map[c22Status]int{}
	_, done1 := mc.ParallelItems(len(singles), 0, stop, func(i int, _ *mc.Enum) {
		ix := singles[i]
		for _, inbound := range []bool{true, false} {
			if !inbound && !c.Thorough() && i%4 != 0 {
				continue // quick tier: outbound table for every 4th rule map only
			}
			lines, st, unspec, classes, rule := c22RuleSpec{protos[ix.a], ports[ix.b], sels[ix.s]}.compose(inbound)
			cs := c22Case{Text: c22Render(inbound, [][]string{lines}), Inbound: inbound, Status: st, Unspec: unspec, Classes: []string{classes}, Rules: []c16Rule{rule}}
			h.run(cs, pa)
			sampleMu.Lock()
			if sampled[st] < 2 && i%37 == 5 {
				sampled[st]++
				c.Sample(map[string]any{"config": cs.Text, "reference_status": st.String(), "meaning": rule.String(), "classes": classes})
			}
			sampleMu.Unlock()
		}
	})

	// ---- part A2: rule lists (every ordered pair of a small alphabet of whole rules) and malformed containers ----------
	proto := func(class string) c22Opt {
		for _, o := range protos {
			if o.Class == class {
				return o
			}
		}
		c.Broken("no proto option %q", class)
		return c22Opt{}
	}
	port := func(line string) c22Opt {
		for _, o := range ports {
			if len(o.Lines) == 1 && o.Lines[0] == line {
				return o
			}
		}
		c.Broken("no port option %q", line)
		return c22Opt{}
	}
	selector := func(class string) c22Opt {
		for _, o := range sels {
			if o.Class == "selector: "+class {
				return o
			}
		}
		c.Broken("no selector option %q", class)
		return c22Opt{}
	}
	small := []c22RuleSpec{
		{proto("proto tcp"), port(`port: "80"`), selector("host")},
		{proto("proto any"), port(`port: "any"`), selector("group")},
		{proto("proto udp"), port(`port: "80-81"`), selector("host + local_cidr")},
		{proto("proto icmp"), port(`port: "65536"`), selector("host any")}, // port ignored for icmp
		{proto("proto tcp"), port(`port: "65536"`), selector("host")},       // must be rejected
		{proto("unknown proto"), port(`port: "80"`), selector("host")},      // must be rejected
		{proto("proto tcp"), port(`port: "80"`), selector("no selector")},   // must be rejected
		{proto("proto in upper case"), port(`port: "80"`), selector("host")}, // either
		{proto("proto tcp"), port(`port: "0-81"`), selector("host")},        // either, meaning unspecified
		{proto("proto tcp"), port(`port: "fragment"`), selector("groups list")},
		{proto("proto tcp"), port(`port: "81-80"`), selector("host")},      // must be rejected
		{proto("proto tcp"), port(`port: "80"`), selector("cidr garbage")}, // must be rejected
		{proto("proto tcp"), port(`port: "80"`), selector("cidr /24 + local_cidr overlay")}, // nested cidrs, each with its own local_cidr,
		{proto("proto tcp"), port(`port: "80"`), selector("cidr /29 + local_cidr unsafe")},  // in both orders (and next to host / group rules)
	}
	_, done2 := mc.ParallelItems(len(small)*len(small), 0, stop, func(i int, _ *mc.Enum) {
		for _, inbound := range []bool{true, false} {
			var rl [][]string
			var rules []c16Rule
			var classes []string
			var sts []c22Status
			st, unspec := c22Must, false
			for _, spec := range []c22RuleSpec{small[i/len(small)], small[i%len(small)]} {
				lines, s1, u1, cl, rule := spec.compose(inbound)
				rl = append(rl, lines)
				rules = append(rules, rule)
				classes = append(classes, cl)
				sts = append(sts, s1)
				if s1 == c22Reject || (s1 == c22Either && st == c22Must) {
					st = s1
				}
				unspec = unspec || u1
			}
			if st != c22Must { // name only the rules that decide the status of the list
				var deciding []string
				for k, s1 := range sts {
					if s1 == st {
						deciding = append(deciding, classes[k])
					}
				}
				classes = deciding
			}
			h.run(c22Case{Text: c22Render(inbound, rl), Inbound: inbound, Status: st, Unspec: unspec, Classes: classes, Rules: rules}, pa)
			h.count("rule_lists_of_two", 1)
		}
	})
	containers := []c22Case{
		{Text: "firewall:\n  inbound: allow-all\n", Inbound: true, Status: c22Reject, Classes: []string{"rule table is a string [typed]"}},
		{Text: "firewall:\n  inbound:\n    port: 80\n    proto: tcp\n    host: any\n", Inbound: true, Status: c22Reject, Classes: []string{"rule table is a map, not a list [typed]"}},
		{Text: "firewall:\n  inbound:\n    - allow all\n", Inbound: true, Status: c22Reject, Classes: []string{"rule is a string [typed]"}},
		{Text: "firewall:\n  inbound:\n    -\n", Inbound: true, Status: c22Reject, Classes: []string{"rule is null [typed]"}},
		{Text: "firewall:\n  inbound:\n    - [port, 80]\n", Inbound: true, Status: c22Reject, Classes: []string{"rule is a list [typed]"}},
		{Text: "firewall:\n  inbound:\n    - 80\n", Inbound: true, Status: c22Reject, Classes: []string{"rule is a number [typed]"}},
		{Text: "firewall:\n  inbound: []\n", Inbound: true, Status: c22Must, Classes: []string{"empty rule list"}},
		{Text: "firewall:\n  outbound:\n    - port: any\n      proto: any\n      host: any\n", Inbound: true, Status: c22Must, Classes: []string{"inbound table absent"}},
	}
	for _, cs := range containers {
		h.run(cs, pa)
	}

	// ---- part B: every port string up to a length bound over a character alphabet ------------------------------------
	alphabet := []rune{'0', '1', '8', '6', '5', '-', ' ', '+', 'a', 'x'}
	maxLen := mc.Pick(c, 4, 5)
	if c.Thorough() {
		alphabet = append(alphabet, '9', '.', '８')
	}
	var words []string
	var gen func(prefix string, n int)
	gen = func(prefix string, n int) {
		words = append(words, prefix)
		if n == 0 {
			return
		}
		for _, ch := range alphabet {
			gen(prefix+string(ch), n-1)
		}
	}
	gen("", maxLen)
	// a few long ones around the integer-width boundaries, alone and as range bounds
	for _, w := range []string{"65534", "65535", "65536", "65537", "131152", "4294967295", "4294967296", "4294967376", "18446744073709551616", "18446744073709551696", "2147483647", "2147483648", "2147483728", "00000000000000000080"} {
		words = append(words, w, "80-"+w, w+"-65535", w+"-"+w)
	}
	pb := pa
	pb.Protos = []uint8{firewall.ProtoTCP}
	var bMu sync.Mutex
	bStatus := map[c22Status]int64{}
	bDistinctMeaning := map[string]struct{}{}
	_, done3 := mc.ParallelItems(len(words), 0, stop, func(i int, _ *mc.Enum) {
		s := words[i]
		p := c22RefPort(s)
		if p.Status != c22Reject && p.Kind == c16PortRange && p.Hi-p.Lo > 20000 {
			return // a rule per port: too wide to install thousands of times; the boundary words above cover wide ranges
		}
		rule := c16Rule{Incoming: true, Proto: "tcp", PortKind: p.Kind, Lo: p.Lo, Hi: p.Hi, Host: "any"}.prep()
		raw := map[string]any{"firewall": map[string]any{"inbound": []any{map[string]any{"port": s, "proto": "tcp", "host": "any"}}}}
		// probe ports around the bounds the text names
		pp := pb
		pp.Ports = [][2]uint16{{80, 79}, {65535, 1}, {1, 2}}
		if p.Status != c22Reject && p.Kind == c16PortRange {
			for _, v := range []int{p.Lo - 1, p.Lo, p.Hi, p.Hi + 1} {
				if v >= 1 && v <= 65535 {
					pp.Ports = append(pp.Ports, [2]uint16{uint16(v), 7})
				}
			}
		}
		h.run(c22Case{Text: "port: " + c22Q(s) + "  # (as a Go string in config.C.Settings; proto tcp, host any, inbound)", Raw: raw, Inbound: true, Status: p.Status, Unspec: p.Unspec,
			Classes: []string{"port " + p.Class}, Rules: []c16Rule{rule}}, pp)
		bMu.Lock()
		bStatus[p.Status]++
		if p.Status != c22Reject {
			bDistinctMeaning[fmt.Sprintf("%d/%d-%d/%v", p.Kind, p.Lo, p.Hi, p.Unspec)] = struct{}{}
		}
		bMu.Unlock()
	})
	// Wide ranges (skipped above because every port of a range is installed separately): the full range and its neighbours,
	// once each, probed at both ends, at port 0 and with non-first fragments — "1-65535" is not "any" (any also admits
	// fragments and port 0).
	wide := []string{"1-65535", "2-65535", "1-65534", "1024-65535", "1-1023", "0-65535", "32768-65535", "1-32768"}
	var wideJudged int64
	for _, s := range wide {
		if stop() {
			done3 = false
			break
		}
		p := c22RefPort(s)
		rule := c16Rule{Incoming: true, Proto: "tcp", PortKind: p.Kind, Lo: p.Lo, Hi: p.Hi, Host: "any"}.prep()
		raw := map[string]any{"firewall": map[string]any{"inbound": []any{map[string]any{"port": s, "proto": "tcp", "host": "any"}}}}
		pp := pb
		pp.Ports = [][2]uint16{{0, 7}, {1, 7}, {2, 7}, {1023, 7}, {1024, 7}, {32767, 7}, {32768, 7}, {32769, 7}, {65534, 7}, {65535, 7}, {7, 0}, {7, 65535}}
		h.run(c22Case{Text: "port: " + c22Q(s) + "  # (wide range; proto tcp, host any, inbound)", Raw: raw, Inbound: true, Status: p.Status, Unspec: p.Unspec,
			Classes: []string{"port " + p.Class + " (wide)"}, Rules: []c16Rule{rule}}, pp)
		if p.Status != c22Reject && !p.Unspec {
			wideJudged++
		}
	}
	c.Set("wide_port_ranges_judged", wideJudged)
	if !(done1 && done2 && done3) {
		c.Capped("stopped early (time budget or too many violations)")
	}

	// ---- evidence + vacuity guards
	for k, v := range h.counts {
		c.Set(k, v)
	}
	c.Set("port_words", len(words))
	c.Set("port_words_by_status", map[string]int64{"must-load": bStatus[c22Must], "either": bStatus[c22Either], "must-reject": bStatus[c22Reject]})
	c.Set("port_words_distinct_meanings", len(bDistinctMeaning))
	c.Set("alphabet", map[string]any{"protos": len(protos), "ports": len(ports), "selectors": len(sels), "whole_rules_for_lists": len(small), "containers": len(containers),
		"port_chars": string(alphabet), "port_max_len": maxLen, "peers": len(peers), "probes_per_loaded_config": h.world.size()})
	c.Set("evaluations", h.counts["configs"])
	c.Set("distinct_nontrivial", h.counts["loaded_and_compared"])
	c.Set("rule", "one evaluation = one configuration text (YAML document or port string), each generated once from duplicate-free alphabets. Non-trivial = the production loader accepted it AND the reference grammar gives it a defined meaning, so Firewall.Drop was compared with the reference evaluator on every peer x packet probe; the rest are texts that were rejected (as the grammar demands or permits) or whose meaning is unspecified.")
	if c.Violations() == 0 && done1 && done2 && done3 {
		c.Require(h.counts["loaded"] > 0 && h.counts["rejected"] > 0, "both outcomes must occur")
		c.Require(h.counts["status_must-load"] > 0 && h.counts["status_must-reject"] > 0 && h.counts["status_either"] > 0, "all three grammar verdicts must occur")
		c.Require(h.counts["loaded_with_both_verdicts"] > 0, "loaded configurations must produce both Drop verdicts")
		c.Require(bStatus[c22Must] > 50 && bStatus[c22Reject] > 50, "port words: valid=%d invalid=%d", bStatus[c22Must], bStatus[c22Reject])
		c.Require(c.DistinctCount("reject_messages") >= 8, "expected many distinct rejection reasons, saw %d", c.DistinctCount("reject_messages"))
	}
}
