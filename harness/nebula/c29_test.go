//go:build verif

package nebula

import (
	"fmt"
	"testing"

	"github.com/slackhq/nebula/zzverif/mc"
)

// C29 — local tunnel indexes are unique and never zero (history half, engine E2).
//
// Same world as C28 (c28_world_test.go): real HostMap + HandshakeManager + AddRelay, index generator scripted through the
// vrand shim so that a 3-value index space forces every collision branch. After the last operation of every history:
//
//	tunnel namespace = HandshakeManager.indexes (pending) ∪ HostMap.Indexes (established); relay namespace = HostMap.Relays
//	(a) every key is non-zero; every index returned by allocateIndex / generateIndex / AddRelay is non-zero
//	(b) a returned index was not held in its namespace before the call, and is registered to the requester afterwards
//	(c) every entry maps an index to a holder that carries exactly this index (Indexes[k].localIndexId==k, ...); no index
//	    is registered to two different tunnels (pending vs established); every tunnel the node holds (reachable from
//	    Hosts/moreHosts/RemoteIndexes/Relays, or pending with an allocated index) is registered under its own index;
//	    no relay index is carried by two live tunnels, and every Relays entry is backed by its owner's relay state
//	(d) an entry of Indexes / pending indexes / Relays disappears or changes owner only in an operation that removes the
//	    owning tunnel (DeleteHostInfo / timeout of that tunnel, eviction by the per-address cap, or — pending only — the
//	    move to the established map by Complete)
//	(e) a RemoteIndexes entry disappears only when the tunnel it points to is removed; it changes only when a newly added
//	    tunnel with that remote index shadows it

func c29Sig(o *c28wOut, what string) string { return o.OpClass + ": " + what }

func c29Check(c *mc.Check, w *c28wWorld, o *c28wOut) bool {
	pre, post := o.Pre, o.Post
	fail := func(what string, extra map[string]any) bool {
		c28wReport(c, c29Sig(o, what), func() map[string]any { return w.detail(o, extra) })
		return true
	}
	// removedNow: tunnels this operation is allowed to remove
	removedNow := map[*HostInfo]bool{}
	switch o.Ev.Op {
	case 'D', 'X', 'T':
		removedNow[o.Target.hi] = true
	case 'R', 'C':
		if o.AddOK {
			for _, v := range o.Vanished {
				if len(post.mainRefs(v.hi)) == 0 { // an evicted tunnel is a removed tunnel only if it is gone everywhere
					removedNow[v.hi] = true
				}
			}
		}
	}

	// (a)+(b) returned values
	switch o.Ev.Op {
	case 'I':
		if o.Err == nil {
			if o.RetIdx == 0 {
				return fail("returned index 0", nil)
			}
			if _, ok := pre.idx[o.RetIdx]; ok {
				return fail("returned an index that an established tunnel holds", map[string]any{"index": o.RetIdx})
			}
			if _, ok := pre.pendIdx[o.RetIdx]; ok {
				return fail("returned an index that a pending tunnel holds", map[string]any{"index": o.RetIdx})
			}
			if hh := post.pendIdx[o.RetIdx]; hh == nil || hh.hostinfo != o.Target.hi || o.Target.hi.localIndexId != o.RetIdx {
				return fail("returned index is not registered to the requesting tunnel", map[string]any{"index": o.RetIdx})
			}
		} else if o.Target.hi.localIndexId != 0 || len(post.pendRefs(o.Target.hi)) != len(pre.pendRefs(o.Target.hi)) {
			return fail("failed but left an index behind", nil)
		}
	case 'R':
		if o.Err == nil && o.RetIdx == 0 {
			return fail("generateIndex returned 0", nil)
		}
		if o.AddOK {
			if _, ok := pre.idx[o.RetIdx]; ok {
				return fail("added a tunnel under an index that an established tunnel holds", map[string]any{"index": o.RetIdx})
			}
			if _, ok := pre.pendIdx[o.RetIdx]; ok {
				return fail("added a tunnel under an index that a pending tunnel holds", map[string]any{"index": o.RetIdx})
			}
		}
	case 'Y':
		if o.Err == nil {
			if o.RetIdx == 0 {
				return fail("returned relay index 0", nil)
			}
			if _, ok := pre.relays[o.RetIdx]; ok {
				return fail("returned a relay index that is already held", map[string]any{"index": o.RetIdx})
			}
			if post.relays[o.RetIdx] != o.Target.hi {
				return fail("returned relay index is not registered to the requesting tunnel", map[string]any{"index": o.RetIdx})
			}
		}
	}

	// (d) release rule, tunnel namespace — checked before the static clauses: it names the operation at fault
	for k, h := range pre.idx {
		if post.idx[k] != h && !removedNow[h] {
			what := "local index released although the tunnel that owns it was not removed"
			if post.idx[k] != nil {
				what = "local index handed to another tunnel although the tunnel that owns it was not removed"
			}
			return fail(what, map[string]any{"index": k, "owner": w.nameOf(h), "owner_still_referenced_from": post.mainRefs(h)})
		}
	}
	for k, hh := range pre.pendIdx {
		if post.pendIdx[k] == hh {
			continue
		}
		moved := o.Ev.Op == 'C' && hh.hostinfo == o.Target.hi && post.idx[k] == hh.hostinfo
		if !moved && !(removedNow[hh.hostinfo] && o.Ev.Op != 'R' && o.Ev.Op != 'C') {
			return fail("pending local index released although the pending tunnel that owns it was not removed", map[string]any{"index": k, "owner": w.nameOf(hh.hostinfo)})
		}
	}
	for k, h := range pre.relays {
		if post.relays[k] != h && !removedNow[h] {
			return fail("relay index released although the tunnel that owns it was not removed", map[string]any{"relay_index": k, "owner": w.nameOf(h), "owner_still_referenced_from": post.mainRefs(h)})
		}
	}
	// (e) remote indexes
	for r, h := range pre.ridx {
		now, ok := post.ridx[r]
		switch {
		case ok && now == h:
		case !ok:
			if !removedNow[h] {
				return fail("remote index entry removed although the tunnel it points to was not removed", map[string]any{"remote_index": r, "target": w.nameOf(h)})
			}
		default:
			if !(o.AddOK && now == o.Added.hi && now.remoteIndexId == r) {
				return fail("remote index entry re-pointed without an add that shadows it", map[string]any{"remote_index": r, "was": w.nameOf(h), "now": w.nameOf(now)})
			}
		}
	}

	// (a) keys, (c) registration
	for k, h := range post.idx {
		if k == 0 {
			return fail("Indexes holds index 0", nil)
		}
		if h == nil || h.localIndexId != k {
			return fail("Indexes registers an index to a tunnel that carries a different index", map[string]any{"index": k, "tunnel": w.nameOf(h)})
		}
	}
	for k, hh := range post.pendIdx {
		if k == 0 {
			return fail("pending indexes hold index 0", nil)
		}
		if hh == nil || hh.hostinfo == nil || hh.hostinfo.localIndexId != k {
			return fail("pending indexes register an index to a tunnel that carries a different index", map[string]any{"index": k})
		}
		if h, ok := post.idx[k]; ok && h != hh.hostinfo {
			return fail("one local index is registered to a pending and to an established tunnel", map[string]any{"index": k, "pending": w.nameOf(hh.hostinfo), "established": w.nameOf(h)})
		}
	}
	for k, h := range post.relays {
		if k == 0 {
			return fail("Relays holds index 0", nil)
		}
		if h == nil {
			return fail("Relays holds a nil tunnel", map[string]any{"relay_index": k})
		}
		if r := h.relayState.relayForByIdx[k]; r == nil || r.LocalIndex != k {
			return fail("Relays registers an index its owner has no relay state for", map[string]any{"relay_index": k, "tunnel": w.nameOf(h)})
		}
	}
	// every held tunnel is registered under its own index (so no two held tunnels can share one)
	held := map[*HostInfo]string{}
	for a, h := range post.hosts {
		held[h] = "Hosts[" + c28wAddrName(a) + "]"
	}
	for a, l := range post.more {
		for _, h := range l {
			held[h] = "moreHosts[" + c28wAddrName(a) + "]"
		}
	}
	for k, h := range post.ridx {
		held[h] = fmt.Sprintf("RemoteIndexes[%d]", k)
	}
	for k, h := range post.relays {
		held[h] = fmt.Sprintf("Relays[%d]", k)
	}
	for h, where := range held {
		if h == nil {
			continue
		}
		if h.localIndexId == 0 {
			return fail("the node holds an established tunnel with local index 0", map[string]any{"tunnel": w.nameOf(h), "held_in": where})
		}
		if post.idx[h.localIndexId] != h {
			what := "the node holds an established tunnel whose local index is not registered to it"
			if other := post.idx[h.localIndexId]; other != nil {
				what = "two established tunnels the node holds carry the same local index"
			}
			return fail(what, map[string]any{"tunnel": w.nameOf(h), "held_in": where, "index": h.localIndexId})
		}
	}
	for a, hh := range post.pendIps {
		h := hh.hostinfo
		if h.localIndexId != 0 && post.pendIdx[h.localIndexId] != hh {
			return fail("a pending tunnel carries an index that is not registered to it", map[string]any{"tunnel": w.nameOf(h), "addr": c28wAddrName(a), "index": h.localIndexId})
		}
	}
	// relay indexes carried by live tunnels are pairwise distinct and registered
	carrier := map[uint32]*HostInfo{}
	for _, h := range post.idx {
		for i := range h.relayState.relayForByIdx {
			if i == 0 {
				return fail("a live tunnel carries relay index 0", map[string]any{"tunnel": w.nameOf(h)})
			}
			if other, dup := carrier[i]; dup && other != h {
				return fail("two live tunnels carry the same relay index", map[string]any{"relay_index": i, "tunnels": []string{w.nameOf(h), w.nameOf(other)}})
			}
			carrier[i] = h
		}
	}
	return false
}

func TestVerifC29(t *testing.T) {
	c := mc.Begin(t, "C29", "model_checking")
	defer c.End()
	defer c29hsStart(c)() // schedules half on real nodes (c29hs_test.go): worker processes run while this test explores, collected at the end
	e1s, e1p := c29E1(c, "C29")
	defer func() { c.Set("e1_schedules", e1s); c.Set("e1_choice_points", e1p) }()
	c.Assume("history half: one goroutine, operations are atomic calls of the real entry points; schedules half: 5 scenarios of 2-3 threads under the controlled scheduler to a preemption bound")
	c.Assume("index randomness replaced by a scripted generator (vrand shim behind handshake_manager.go's crypto/rand import): the first served value is an explorer choice out of 0..3 (collision scenarios) and the generator then counts upwards, so a retry loop ends as soon as a free value exists")
	c.Assume("eviction by the per-address cap counts as removing the evicted tunnel; a RemoteIndexes entry overwritten by a newly added tunnel with the same remote index is shadowing, not removal (remote indexes are chosen by peers)")
	stats := &c28wStats{}
	cfgs := c28wScenarios(c)
	c.Set("scenarios", c28wDescribe(cfgs))
	per := map[string]any{}
	for _, g := range cfgs {
		if c.OutOfTime() {
			c.Capped("time budget before scenario " + g.Name)
			break
		}
		r := c28wExplore(c, g, c29Check, stats)
		per[g.Name] = map[string]any{"states": r.States, "transitions": r.Transitions, "max_depth": r.MaxDepth, "frontier_emptied": r.Exhaustive}
	}
	c.Set("per_scenario", per)
	n := stats.snapshot()
	c.Set("outcome_counts", n)
	c.Set("distinct_outcomes", len(n))
	if c.Violations() == 0 { // with a violation on record the verdict is the violation; pruned (violating) states may hide outcomes
		for _, k := range []string{
			"generator served 0",
			"allocateIndex: first value free",
			"allocateIndex: succeeded after skipping a value that is in use",
			"CheckAndComplete: added",
			"CheckAndComplete: ErrLocalIndexCollision with an established tunnel",
			"CheckAndComplete: ErrLocalIndexCollision with a pending tunnel",
			"CheckAndComplete: ErrAlreadySeen",
			"CheckAndComplete: ErrExistingHostInfo",
			"Complete: added",
			"AddRelay: first value free",
			"AddRelay: succeeded after skipping a value that is in use",
			"AddRelay: refused, tunnel is not in the hostmap",
			"timeout: pending tunnel with index",
			"DeleteHostInfo: live tunnel, final=true",
			"DeleteHostInfo: already removed tunnel, final=true",
			"DeleteHostInfo: already removed tunnel whose local index has a new owner",
			"DeleteHostInfo: already removed tunnel whose relay index has a new owner",
		} {
			c.Require(n[k] > 0, "outcome never occurred: %q (have %v)", k, c28wKeys(n))
		}
		if c.Thorough() {
			for _, k := range []string{"allocateIndex: no free index after 32 tries", "AddRelay: no free index after 32 tries"} {
				c.Require(n[k] > 0, "outcome never occurred: %q (have %v)", k, c28wKeys(n))
			}
		}
		var evicted int64
		for k, v := range n {
			if len(k) > 12 && k[len(k)-11:len(k)-2] == "(evicted " {
				evicted += v
			}
		}
		c.Set("adds_that_evicted", evicted)
		c.Require(evicted > 0, "the per-address cap was never exceeded")
	}
}
