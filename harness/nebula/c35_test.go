//go:build verif

package nebula

import (
	"context"
	"encoding/binary"
	"encoding/json"
	"fmt"
	"log/slog"
	"net/netip"
	"runtime"
	"slices"
	"sort"
	"strings"
	"sync"
	"testing"

	"github.com/gaissmai/bart"
	"github.com/slackhq/nebula/cert"
	"github.com/slackhq/nebula/cert_test"
	"github.com/slackhq/nebula/config"
	"github.com/slackhq/nebula/header"
	"github.com/slackhq/nebula/zzverif/mc"
	"github.com/slackhq/nebula/zzverif/vtime"
)

// C35 — lighthouse information is accepted only from authorized senders.
//
// The REAL LightHouse (NewLightHouseFromConfig) + REAL LightHouseHandler.HandleRequest + REAL Punchy/Scheduler (on the
// virtual clock) are driven with lighthouse messages; replies go to a recording EncWriter, punch jobs are taken from
// the scheduler queue after advancing the virtual clock, handshake triggers from the trigger channel, and the address
// cache (LightHouse.addrMap, every owner of every RemoteList) is compared before/after every message.
//
// Two explorations per receiver role:
//   product  — every message of the full alphabet (type x claimed-address encoding x underlay list x relay list x
//              sender identity) delivered in the initial state and in seeded states (E3-style, depth 1);
//   histories — explicit-state BFS by replay over a reduced alphabet, depth <= 3, states = canonical addrMap.
//
// Oracle = the statement, transcribed as "effects need authorisation":
//   lighthouse:     the cache changes only on a HostUpdateNotification whose claimed address (if any) is one the sending
//                   tunnel is authenticated as, and only entries of the sender's own addresses change; everything held
//                   for A was reported by a tunnel authenticated as A; replies/punch notifications carry only such data,
//                   are sent only in response to a HostQuery and go to the querier / the queried host; acks only for
//                   accepted updates.
//   non-lighthouse: the cache changes only on a HostQueryReply from a configured lighthouse and only for the address the
//                   reply is about; punches are scheduled only on a HostPunchNotification from a configured lighthouse
//                   and only to addresses it lists; handshake triggers only on such replies; never answers a query;
//                   sends nothing for host updates and queries.
//   both:           no panic.
//
// Configuration reloads are events of the history alphabet: the node's config.C is reloaded (real ReloadConfigString ->
// registered reload callbacks -> LightHouse.reload) with another lighthouse.hosts / static_host_map. "Configured
// lighthouse" in the oracle is the set of the LAST loaded configuration: a host removed from lighthouse.hosts is judged
// as an ordinary peer from then on (its tunnel stays up), a peer added to it is judged as a lighthouse. A reload itself
// may not make the node send lighthouse messages, punch, trigger handshakes or hold unauthorised data.

var (
	c35Me      = netip.MustParseAddr("10.0.0.1")
	c35Me6     = netip.MustParseAddr("fd00::1")
	c35L       = netip.MustParseAddr("10.0.0.100")
	c35L2      = netip.MustParseAddr("fd00::100")
	c35P       = netip.MustParseAddr("10.0.0.2")
	c35P2      = netip.MustParseAddr("fd00::2")
	c35Q       = netip.MustParseAddr("10.0.0.3")
	c35X       = netip.MustParseAddr("10.0.0.50") // nobody
	c35LStatic = netip.MustParseAddrPort("192.0.2.100:4242")
)

type c35Ident struct {
	Name  string
	Addrs []netip.Addr
	Class string
}

var c35Senders = []c35Ident{
	{"L", []netip.Addr{c35L}, "lighthouse"},
	{"p", []netip.Addr{c35P}, "peer"},
	{"pp2", []netip.Addr{c35P, c35P2}, "multi-address peer"},
	{"q", []netip.Addr{c35Q}, "peer"},
	{"l2L", []netip.Addr{c35L2, c35L}, "lighthouse (configured address is secondary)"},
}

// c35Principal: overlay addresses that appear together in one certificate of the identity alphabet are one principal.
func c35Principal(a netip.Addr) string {
	switch a {
	case c35L, c35L2:
		return "L"
	case c35P, c35P2:
		return "P"
	case c35Q:
		return "Q"
	case c35Me, c35Me6:
		return "ME"
	}
	return "?" + a.String()
}

func c35PrincipalAddrs(p string) []netip.Addr {
	switch p {
	case "L":
		return []netip.Addr{c35L, c35L2}
	case "P":
		return []netip.Addr{c35P, c35P2}
	case "Q":
		return []netip.Addr{c35Q}
	}
	return nil
}

type c35Claim struct {
	Name     string
	Old, New netip.Addr
}

var c35Claims = []c35Claim{
	{"unset", netip.Addr{}, netip.Addr{}},
	{"v1:p", c35P, netip.Addr{}},
	{"v1:q", c35Q, netip.Addr{}},
	{"v1:me", c35Me, netip.Addr{}},
	{"v1:L", c35L, netip.Addr{}},
	{"v2:p", netip.Addr{}, c35P},
	{"v2:q", netip.Addr{}, c35Q},
	{"v2:me", netip.Addr{}, c35Me},
	{"v2:L", netip.Addr{}, c35L},
	{"v2:p2", netip.Addr{}, c35P2},
	{"v2:l2", netip.Addr{}, c35L2},
	{"v2:x", netip.Addr{}, c35X},
	{"v1:p+v2:q", c35P, c35Q},
	{"v1:q+v2:p", c35Q, c35P},
}

var c35Types = []NebulaMeta_MessageType{
	NebulaMeta_HostQuery, NebulaMeta_HostQueryReply, NebulaMeta_HostUpdateNotification, NebulaMeta_HostPunchNotification,
	NebulaMeta_HostMovedNotification, NebulaMeta_HostUpdateNotificationAck, NebulaMeta_None, NebulaMeta_HostWhoami, NebulaMeta_MessageType(99),
}

func c35TypeName(t NebulaMeta_MessageType) string {
	if s, ok := NebulaMeta_MessageType_name[int32(t)]; ok {
		return s
	}
	return fmt.Sprintf("Type(%d)", int32(t))
}

const (
	c35Lists  = 7
	c35Relays = 5
)

var c35ListNames = []string{"no-addrs", "1xv4", "1xv6", "v4+v6", "11xv4+11xv6", "v4-inside-my-vpn-net+v4", "zero-valued-entries"}
var c35RelayNames = []string{"no-relays", "v1-relay", "v2-relays(v4,v6)", "v1+v2-relays", "11xv2-relays"}

// c35Msg is one lighthouse message of the alphabet (indexes into the tables above).
type c35Msg struct {
	Sender, Type, Claim, List, Relay int
	NoDetails                        bool   // marshal without the Details field at all
	Raw                              string // non-empty: send these raw bytes instead (malformed payloads); judged as "no effect allowed"
	Reload                           int    // k>0: not a message but a reload of the receiver's configuration to c35Confs(role)[k-1]
}

// c35Conf is one configuration of the receiver as far as lighthouse authorisation goes.
type c35Conf struct {
	Name   string
	Hosts  []netip.Addr // lighthouse.hosts
	Static []netip.Addr // keys of static_host_map (every lighthouse needs one), each with the fixed underlay address c35StaticOf
}

// configurations of a non-lighthouse receiver; [0] is the start configuration
var c35NodeConfs = []c35Conf{
	{"start configuration: hosts=[L]", []netip.Addr{c35L}, []netip.Addr{c35L}},
	{"hosts=[] (L removed)", nil, []netip.Addr{c35L}},
	{"hosts=[p] (L removed, p added)", []netip.Addr{c35P}, []netip.Addr{c35L, c35P}},
	{"hosts=[L,p] (p added)", []netip.Addr{c35L, c35P}, []netip.Addr{c35L, c35P}},
	{"hosts=[q] (L removed incl. its static entry, q added)", []netip.Addr{c35Q}, []netip.Addr{c35Q}},
	{"hosts=[p2] (L removed, secondary address of pp2 added)", []netip.Addr{c35P2}, []netip.Addr{c35L, c35P2}},
}

// a lighthouse receiver has no upstream lighthouses (see assumptions): only the reload of an unchanged configuration
var c35LhConfs = []c35Conf{{"start configuration: am_lighthouse", nil, nil}}

func c35Confs(role c35Role) []c35Conf {
	if role.AmLighthouse {
		return c35LhConfs
	}
	return c35NodeConfs
}

func c35StaticOf(a netip.Addr) netip.AddrPort {
	switch a {
	case c35L:
		return c35LStatic
	case c35P:
		return netip.MustParseAddrPort("192.0.2.2:4242")
	case c35P2:
		return netip.MustParseAddrPort("192.0.2.22:4242")
	case c35Q:
		return netip.MustParseAddrPort("192.0.2.3:4242")
	}
	panic("no static address for " + a.String())
}

// c35ConfYAML renders the configuration file of the receiver; the start configuration and every reload go through it.
func c35ConfYAML(role c35Role, cf c35Conf) string {
	var b strings.Builder
	b.WriteString("listen:\n  port: 4242\npunchy:\n  punch: true\n  respond: true\nlighthouse:\n")
	if role.AmLighthouse {
		b.WriteString("  am_lighthouse: true\n")
		return b.String()
	}
	b.WriteString("  hosts: [")
	for i, h := range cf.Hosts {
		if i > 0 {
			b.WriteString(", ")
		}
		fmt.Fprintf(&b, "%q", h.String())
	}
	b.WriteString("]\nstatic_host_map:\n")
	for _, a := range cf.Static {
		fmt.Fprintf(&b, "  %q: [%q]\n", a.String(), c35StaticOf(a).String())
	}
	return b.String()
}

func (m c35Msg) String() string {
	if m.Reload > 0 {
		if m.Reload == 1 {
			return "reload[start configuration]"
		}
		return "reload[" + c35NodeConfs[m.Reload-1].Name + "]"
	}
	if m.Raw != "" {
		return fmt.Sprintf("%s:raw(%x)", c35Senders[m.Sender].Name, m.Raw)
	}
	s := fmt.Sprintf("%s:%s[%s,%s,%s]", c35Senders[m.Sender].Name, c35TypeName(c35Types[m.Type]), c35Claims[m.Claim].Name, c35ListNames[m.List], c35RelayNames[m.Relay])
	if m.NoDetails {
		s += "(no Details field)"
	}
	return s
}

// tag makes the underlay / relay addresses of a message unique to (sender, claim, type): leaked data is attributable.
func (m c35Msg) tag() (byte, byte) { return byte(m.Sender), byte(m.Claim + 16*m.Type) }

func (m c35Msg) underlay() (v4, v6 []netip.AddrPort) {
	a, b := m.tag()
	u4 := func(k int) netip.AddrPort {
		return netip.AddrPortFrom(netip.AddrFrom4([4]byte{198, 18 + a, b, byte(k + 1)}), uint16(4000+k))
	}
	u6 := func(k int) netip.AddrPort {
		x := [16]byte{0x20, 0x01, 0x0d, 0xb8, 0, a, 0, b}
		x[15] = byte(k + 1)
		return netip.AddrPortFrom(netip.AddrFrom16(x), uint16(6000+k))
	}
	switch m.List {
	case 1:
		v4 = []netip.AddrPort{u4(0)}
	case 2:
		v6 = []netip.AddrPort{u6(0)}
	case 3:
		v4, v6 = []netip.AddrPort{u4(0)}, []netip.AddrPort{u6(0)}
	case 4:
		for k := 0; k < 11; k++ {
			v4 = append(v4, u4(k))
			v6 = append(v6, u6(k))
		}
	case 5:
		v4 = []netip.AddrPort{netip.MustParseAddrPort("10.0.0.77:1"), u4(0)}
	case 6:
		v4 = []netip.AddrPort{netip.AddrPortFrom(netip.AddrFrom4([4]byte{}), 0)}
		v6 = []netip.AddrPort{netip.AddrPortFrom(netip.AddrFrom16([16]byte{}), 0)}
	}
	return
}

func (m c35Msg) relays() (old []netip.Addr, nw []netip.Addr) {
	a, b := m.tag()
	r4 := func(k int) netip.Addr { return netip.AddrFrom4([4]byte{10, 100 + a, b, byte(k + 1)}) }
	r6 := func(k int) netip.Addr {
		x := [16]byte{0xfd, 0x00, 0, 0x99, 0, a, 0, b}
		x[15] = byte(k + 1)
		return netip.AddrFrom16(x)
	}
	switch m.Relay {
	case 1:
		old = []netip.Addr{r4(0)}
	case 2:
		nw = []netip.Addr{r4(1), r6(0)}
	case 3:
		old, nw = []netip.Addr{r4(0)}, []netip.Addr{r6(0)}
	case 4:
		for k := 0; k < 11; k++ {
			nw = append(nw, r4(10+k))
		}
	}
	return
}

// tokens: everything the message reports, as strings comparable with cache contents and reply contents.
func (m c35Msg) tokens() map[string]bool {
	out := map[string]bool{}
	if m.Raw != "" {
		return out
	}
	v4, v6 := m.underlay()
	for _, a := range v4 {
		out["u:"+a.String()] = true
	}
	for _, a := range v6 {
		out["u:"+a.String()] = true
	}
	o, n := m.relays()
	for _, r := range append(o, n...) {
		out["relay:"+r.String()] = true
	}
	return out
}

func (m c35Msg) bytes() []byte {
	if m.Raw != "" {
		return []byte(m.Raw)
	}
	msg := &NebulaMeta{Type: c35Types[m.Type]}
	if !m.NoDetails {
		d := &NebulaMetaDetails{}
		cl := c35Claims[m.Claim]
		if cl.Old.IsValid() {
			b := cl.Old.As4()
			d.OldVpnAddr = binary.BigEndian.Uint32(b[:])
		}
		if cl.New.IsValid() {
			d.VpnAddr = netAddrToProtoAddr(cl.New)
		}
		v4, v6 := m.underlay()
		for _, a := range v4 {
			d.V4AddrPorts = append(d.V4AddrPorts, netAddrToProtoV4AddrPort(a.Addr(), a.Port()))
		}
		for _, a := range v6 {
			d.V6AddrPorts = append(d.V6AddrPorts, netAddrToProtoV6AddrPort(a.Addr(), a.Port()))
		}
		o, n := m.relays()
		for _, r := range o {
			b := r.As4()
			d.OldRelayVpnAddrs = append(d.OldRelayVpnAddrs, binary.BigEndian.Uint32(b[:]))
		}
		for _, r := range n {
			d.RelayVpnAddrs = append(d.RelayVpnAddrs, netAddrToProtoAddr(r))
		}
		msg.Details = d
	}
	b, err := msg.Marshal()
	if err != nil {
		panic(err)
	}
	return b
}

// ---------------------------------------------------------------------------------------------------------------
// receiver roles

type c35Role struct {
	Name         string
	AmLighthouse bool
	Version      cert.Version // initiating version reported by GetCertState
	HostInfos    bool         // GetHostInfo knows p/p2 (v2 cert) and q (v1 cert)
}

var c35Roles = []c35Role{
	{"lighthouse", true, cert.Version2, true},
	{"lighthouse(v1,no tunnels)", true, cert.Version1, false},
	{"non-lighthouse", false, cert.Version2, true},
}

var c35CertOnce sync.Once
var c35CertP, c35CertQ cert.Certificate

func c35Certs() {
	c35CertOnce.Do(func() {
		ca, _, key, _ := cert_test.NewTestCaCert(cert.Version2, cert.Curve_CURVE25519, vtime.Epoch.Add(-vtime.Hour), vtime.Epoch.Add(1000*vtime.Hour), nil, nil, nil)
		c35CertP, _, _, _ = cert_test.NewTestCert(cert.Version2, cert.Curve_CURVE25519, ca, key, "p", vtime.Epoch.Add(-vtime.Hour), vtime.Epoch.Add(100*vtime.Hour),
			[]netip.Prefix{netip.MustParsePrefix("10.0.0.2/24"), netip.MustParsePrefix("fd00::2/64")}, nil, nil)
		ca1, _, key1, _ := cert_test.NewTestCaCert(cert.Version1, cert.Curve_CURVE25519, vtime.Epoch.Add(-vtime.Hour), vtime.Epoch.Add(1000*vtime.Hour), nil, nil, nil)
		c35CertQ, _, _, _ = cert_test.NewTestCert(cert.Version1, cert.Curve_CURVE25519, ca1, key1, "q", vtime.Epoch.Add(-vtime.Hour), vtime.Epoch.Add(100*vtime.Hour),
			[]netip.Prefix{netip.MustParsePrefix("10.0.0.3/24")}, nil, nil)
	})
}

type c35Sent struct {
	T    header.MessageType
	St   header.MessageSubType
	To   netip.Addr
	Data []byte
}

// c35Writer is the recording EncWriter (also installed as LightHouse.ifce).
type c35Writer struct {
	cs   *CertState
	his  map[netip.Addr]*HostInfo
	sent []c35Sent
}

func (w *c35Writer) SendVia(*HostInfo, *Relay, []byte, []byte, []byte, bool, int) {}
func (w *c35Writer) Handshake(netip.Addr)                                         {}
func (w *c35Writer) SendMessageToVpnAddr(t header.MessageType, st header.MessageSubType, a netip.Addr, p, _, _ []byte) {
	w.sent = append(w.sent, c35Sent{t, st, a, append([]byte(nil), p...)})
}
func (w *c35Writer) SendMessageToHostInfo(t header.MessageType, st header.MessageSubType, hi *HostInfo, p, _, _ []byte) {
	w.sent = append(w.sent, c35Sent{t, st, hi.vpnAddrs[0], append([]byte(nil), p...)})
}
func (w *c35Writer) GetHostInfo(a netip.Addr) *HostInfo { return w.his[a] }
func (w *c35Writer) GetCertState() *CertState           { return w.cs }

type c35Stats struct {
	mu sync.Mutex
	n  map[string]int64
}

func (s *c35Stats) inc(k string) {
	s.mu.Lock()
	s.n[k]++
	s.mu.Unlock()
}

// c35Clock serialises the only part of a replay that touches the process-global virtual clock: the handler call, the
// clock advance that fires the punch timers it registered, and the draining of the job queue. Every critical section
// leaves no pending timer behind, so worlds built and judged in parallel never see each other's timers.
var c35Clock sync.Mutex

// c35World = one fresh real lighthouse + handler + the authorisation bookkeeping of the oracle.
type c35World struct {
	c      *mc.Check
	role   c35Role
	lh     *LightHouse
	lhh    *LightHouseHandler
	punchy *Punchy
	wr     *c35Writer
	trig   chan netip.Addr
	cfg    *config.C
	conf   int          // index of the configuration loaded last (c35Confs(role))
	lhSet  []netip.Addr // configured lighthouses of the receiver: lighthouse.hosts of the configuration loaded last
	// auth: data the statement allows the receiver to hold. lighthouse: per principal; non-lighthouse: per address.
	auth  map[string]map[string]bool
	hist  []string
	stats *c35Stats
}

func c35NewWorld(c *mc.Check, role c35Role, stats *c35Stats) *c35World {
	c35Certs()
	l := slog.New(slog.DiscardHandler)
	cfg := config.NewC(l)
	nets := []netip.Prefix{netip.MustParsePrefix("10.0.0.1/24"), netip.MustParsePrefix("fd00::1/64")}
	nt := new(bart.Lite)
	for _, n := range nets {
		nt.Insert(n)
	}
	cs := &CertState{myVpnNetworks: nets, myVpnNetworksTable: nt, myVpnAddrs: []netip.Addr{c35Me, c35Me6}, initiatingVersion: role.Version}
	w := &c35World{c: c, role: role, auth: map[string]map[string]bool{}, stats: stats, cfg: cfg}
	start := c35Confs(role)[0]
	if err := cfg.LoadString(c35ConfYAML(role, start)); err != nil {
		c.Broken("start configuration: %v", err)
	}
	w.lhSet = start.Hosts
	for _, a := range start.Static {
		w.authSet(a.String())["u:"+c35StaticOf(a).String()] = true
	}
	ctx, cancel := context.WithCancel(context.Background())
	cancel() // the query worker (non-lighthouse) exits at once; HandleRequest never feeds it
	w.punchy = NewPunchyFromConfig(l, cfg, nil)
	w.punchy.ctx = context.Background() // what Punchy.Start does, minus the worker goroutine: jobs stay in the queue
	lh, err := NewLightHouseFromConfig(ctx, l, cfg, cs, nil, w.punchy)
	if err != nil {
		c.Broken("lighthouse construction: %v", err)
	}
	w.lh = lh
	w.wr = &c35Writer{cs: cs, his: map[netip.Addr]*HostInfo{}}
	if role.HostInfos {
		hp := &HostInfo{vpnAddrs: []netip.Addr{c35P, c35P2}, ConnectionState: &ConnectionState{peerCert: &cert.CachedCertificate{Certificate: c35CertP}}}
		hq := &HostInfo{vpnAddrs: []netip.Addr{c35Q}, ConnectionState: &ConnectionState{peerCert: &cert.CachedCertificate{Certificate: c35CertQ}}}
		w.wr.his[c35P], w.wr.his[c35P2], w.wr.his[c35Q] = hp, hp, hq
	}
	lh.ifce = w.wr
	w.trig = make(chan netip.Addr, 16)
	lh.handshakeTrigger = w.trig
	w.lhh = lh.NewRequestHandler()
	return w
}

// c35RLView: the complete content of one RemoteList, as sorted tokens per owner.
type c35RLView struct {
	SharedBy []string
	VpnAddrs []string
	Owners   map[string][]string
}

func (w *c35World) snap() map[string]c35RLView {
	w.lh.RLock()
	defer w.lh.RUnlock()
	shared := map[*RemoteList][]string{}
	for k, rl := range w.lh.addrMap {
		shared[rl] = append(shared[rl], k.String())
	}
	out := map[string]c35RLView{}
	for k, rl := range w.lh.addrMap {
		v := c35RLView{Owners: map[string][]string{}}
		v.SharedBy = append([]string(nil), shared[rl]...)
		sort.Strings(v.SharedBy)
		rl.RLock()
		for _, a := range rl.vpnAddrs {
			v.VpnAddrs = append(v.VpnAddrs, a.String())
		}
		for owner, c := range rl.cache {
			toks := []string{}
			if c.v4 != nil {
				if c.v4.learned != nil {
					toks = append(toks, "learned:"+protoV4AddrPortToNetAddrPort(c.v4.learned).String())
				}
				for _, x := range c.v4.reported {
					toks = append(toks, "u:"+protoV4AddrPortToNetAddrPort(x).String())
				}
			}
			if c.v6 != nil {
				if c.v6.learned != nil {
					toks = append(toks, "learned:"+protoV6AddrPortToNetAddrPort(c.v6.learned).String())
				}
				for _, x := range c.v6.reported {
					toks = append(toks, "u:"+protoV6AddrPortToNetAddrPort(x).String())
				}
			}
			if c.relay != nil {
				for _, r := range c.relay.relay {
					toks = append(toks, "relay:"+r.String())
				}
			}
			v.Owners[owner.String()] = toks // order kept: it is the order the implementation will report
		}
		rl.RUnlock()
		out[k.String()] = v
	}
	return out
}

func c35JSON(v any) string {
	b, err := json.Marshal(v)
	if err != nil {
		panic(err)
	}
	return string(b)
}

func c35In(a netip.Addr, l []netip.Addr) bool { return a.IsValid() && slices.Contains(l, a) }

// relation of the claimed address(es) to the sender, for signatures and outcome classes.
func c35ClaimClass(m c35Msg) string {
	if m.Raw != "" {
		return "raw"
	}
	s := c35Senders[m.Sender]
	cl := c35Claims[m.Claim]
	one := func(a netip.Addr) string {
		switch {
		case c35In(a, s.Addrs):
			return "own"
		case a == c35Me || a == c35Me6:
			return "receiver's"
		case a == c35L || a == c35L2:
			return "lighthouse's"
		case a == c35X:
			return "unknown host's"
		}
		return "another peer's"
	}
	switch {
	case cl.Old.IsValid() && cl.New.IsValid():
		return "v1 " + one(cl.Old) + " + v2 " + one(cl.New)
	case cl.Old.IsValid():
		return "v1 " + one(cl.Old)
	case cl.New.IsValid():
		return "v2 " + one(cl.New)
	}
	return "none"
}

// decode a payload the receiver handed to the EncWriter.
type c35Decoded struct {
	Type   NebulaMeta_MessageType
	About  []netip.Addr
	Tokens []string
}

func c35Decode(p []byte) (c35Decoded, error) {
	var n NebulaMeta
	if err := n.Unmarshal(p); err != nil {
		return c35Decoded{}, err
	}
	d := c35Decoded{Type: n.Type}
	if n.Details != nil {
		if n.Details.OldVpnAddr != 0 {
			var b [4]byte
			binary.BigEndian.PutUint32(b[:], n.Details.OldVpnAddr)
			d.About = append(d.About, netip.AddrFrom4(b))
		}
		if n.Details.VpnAddr != nil {
			d.About = append(d.About, protoAddrToNetAddr(n.Details.VpnAddr))
		}
		for _, a := range n.Details.V4AddrPorts {
			d.Tokens = append(d.Tokens, "u:"+protoV4AddrPortToNetAddrPort(a).String())
		}
		for _, a := range n.Details.V6AddrPorts {
			d.Tokens = append(d.Tokens, "u:"+protoV6AddrPortToNetAddrPort(a).String())
		}
		for _, r := range n.Details.OldRelayVpnAddrs {
			var b [4]byte
			binary.BigEndian.PutUint32(b[:], r)
			d.Tokens = append(d.Tokens, "relay:"+netip.AddrFrom4(b).String())
		}
		for _, r := range n.Details.RelayVpnAddrs {
			d.Tokens = append(d.Tokens, "relay:"+protoAddrToNetAddr(r).String())
		}
	}
	return d, nil
}

func (w *c35World) authSet(k string) map[string]bool {
	s := w.auth[k]
	if s == nil {
		s = map[string]bool{}
		w.auth[k] = s
	}
	return s
}

// run executes one event on the real objects inside the virtual-clock critical section: the call itself, the clock
// advance that fires the punch timers it registered (punchy.delay 1s, respond_delay 5s), and the draining of the punch
// job queue and of the handshake trigger channel.
func (w *c35World) run(f func()) (pan any, jobs []holepunchJob, trig []netip.Addr) {
	c35Clock.Lock()
	defer c35Clock.Unlock()
	if n := vtime.PendingTimers(); n != 0 {
		w.c.Broken("%d virtual timers pending before an event", n)
	}
	func() {
		defer func() { pan = recover() }()
		f()
	}()
	vtime.Advance(10 * vtime.Second)
	for more := true; more; {
		select {
		case j := <-w.punchy.sched.queue:
			jobs = append(jobs, j)
		case a := <-w.trig:
			trig = append(trig, a)
		default:
			more = false
		}
	}
	return
}

// isLH: is the identity one of the receiver's configured lighthouses under the configuration loaded last?
func (w *c35World) isLH(s c35Ident) bool {
	for _, a := range s.Addrs {
		if slices.Contains(w.lhSet, a) {
			return true
		}
	}
	return false
}

// wasLH: was the identity a configured lighthouse of the (non-lighthouse) receiver under its start configuration?
func (w *c35World) wasLH(s c35Ident) bool {
	for _, a := range s.Addrs {
		if !w.role.AmLighthouse && slices.Contains(c35NodeConfs[0].Hosts, a) {
			return true
		}
	}
	return false
}

// class names the sender relative to the receiver's current and start configuration (used in signatures).
func (w *c35World) class(s c35Ident) string {
	if w.role.AmLighthouse {
		return s.Class
	}
	was, is := w.wasLH(s), w.isLH(s)
	switch {
	case was && !is:
		return "former " + s.Class + " (removed from lighthouse.hosts by a reload)"
	case !was && is:
		return s.Class + " added to lighthouse.hosts by a reload"
	}
	return s.Class
}

func c35Changed(before, after map[string]c35RLView) (changed []string) {
	for k, v := range after {
		if b, ok := before[k]; !ok || c35JSON(b) != c35JSON(v) {
			changed = append(changed, k)
		}
	}
	for k := range before {
		if _, ok := after[k]; !ok {
			changed = append(changed, k)
		}
	}
	sort.Strings(changed)
	return
}

// applyReload reloads the receiver's configuration through the real path (config.C.ReloadConfigString -> the callbacks
// NewLightHouseFromConfig / NewPunchyFromConfig registered). From here on the oracle's "configured lighthouses" are the
// lighthouse.hosts of the new configuration.
func (w *c35World) applyReload(m c35Msg, judge bool) (outcome string) {
	confs := c35Confs(w.role)
	cf := confs[m.Reload-1]
	w.hist = append(w.hist, "reload: "+cf.Name)
	before := w.snap()
	w.wr.sent = nil
	var err error
	pan, jobs, trig := w.run(func() { err = w.cfg.ReloadConfigString(c35ConfYAML(w.role, cf)) })
	if err != nil {
		w.c.Broken("reload to %q refused: %v", cf.Name, err)
	}
	after := w.snap()
	changedConf := w.conf != m.Reload-1
	w.conf = m.Reload - 1
	w.lhSet = cf.Hosts
	for _, a := range cf.Static { // static_host_map entries are the receiver's own configuration
		w.authSet(a.String())["u:"+c35StaticOf(a).String()] = true
	}
	changed := c35Changed(before, after)
	outcome = fmt.Sprintf("reload changed=%v sent=%d punchJobs=%d triggers=%d panic=%v", len(changed) > 0, len(w.wr.sent), len(jobs), len(trig), pan != nil)
	if !judge {
		return outcome
	}
	ctx := fmt.Sprintf("%s reloads its configuration", w.role.Name)
	viol := func(sig string, extra map[string]any) {
		d := map[string]any{"receiver": w.role.Name, "history": append([]string(nil), w.hist...), "new_configuration": c35ConfYAML(w.role, cf),
			"outcome": outcome, "cache_before": before, "cache_after": after}
		for k, v := range extra {
			d[k] = v
		}
		w.c.Violation(ctx+": "+sig, d)
	}
	if pan != nil {
		viol("the reload panicked", map[string]any{"panic": fmt.Sprint(pan)})
		return outcome + " PANIC"
	}
	// no message arrived: nothing may be answered, punched or triggered, and whatever the cache holds afterwards must
	// still be data an authorised sender (or the receiver's own static_host_map) reported. ◊ weak reading: a reload
	// may drop or rebuild entries (static hosts are rebuilt), the statement only restricts what is recorded.
	for k, v := range after {
		var as map[string]bool
		if w.role.AmLighthouse {
			as = w.auth[c35Principal(netip.MustParseAddr(k))]
		} else {
			as = w.auth[k]
		}
		for owner, ts := range v.Owners {
			for _, t := range ts {
				if !as[t] {
					viol("the cache holds data for an address that no authorised sender reported", map[string]any{"key": k, "owner": owner, "datum": t})
				}
			}
		}
	}
	if len(w.wr.sent) > 0 {
		viol("a lighthouse message was sent", map[string]any{"sent": len(w.wr.sent)})
	}
	if len(jobs) > 0 {
		viol("punches were scheduled", map[string]any{"jobs": fmt.Sprint(jobs)})
	}
	if len(trig) > 0 {
		viol("a handshake was triggered", map[string]any{"triggered": fmt.Sprint(trig)})
	}
	r := "node"
	if w.role.AmLighthouse {
		r = "lh"
	}
	w.stats.inc("reload:" + r + ":" + cf.Name)
	if changedConf {
		w.stats.inc("reload:" + r + ":configuration-changed")
	}
	if len(changed) > 0 {
		w.stats.inc("reload:" + r + ":cache-changed(static hosts rebuilt)")
	}
	w.c.Distinct("outcomes", r+"/reload/"+cf.Name+"/"+outcome)
	return outcome
}

// apply delivers one event to the real objects. judge=false (prefix of a replayed history) only keeps the oracle's
// bookkeeping up to date; judge=true evaluates every rule on this step.
func (w *c35World) apply(m c35Msg, judge bool) (outcome string) {
	if m.Reload > 0 {
		return w.applyReload(m, judge)
	}
	s := c35Senders[m.Sender]
	w.hist = append(w.hist, m.String())
	before := w.snap()
	w.wr.sent = nil
	payload := m.bytes()
	pan, jobs, trig := w.run(func() {
		w.lhh.HandleRequest(netip.MustParseAddrPort("203.0.113.7:7777"), slices.Clone(s.Addrs), payload, w.wr)
	})
	after := w.snap()

	// ---- what the statement authorises for this message -------------------------------------------------------
	var ty NebulaMeta_MessageType = -1
	var claim []netip.Addr
	if m.Raw == "" {
		ty = c35Types[m.Type]
		cl := c35Claims[m.Claim]
		if !m.NoDetails {
			if cl.Old.IsValid() {
				claim = append(claim, cl.Old)
			}
			if cl.New.IsValid() {
				claim = append(claim, cl.New)
			}
		}
	}
	toks := m.tokens()
	if m.NoDetails {
		toks = map[string]bool{}
	}
	fromLH := w.isLH(s)         // configured lighthouse under the configuration loaded last
	claimOwn := len(claim) == 0 // ◊ weak reading: an update naming several addresses is the sender's if any of them is
	for _, a := range claim {
		if c35In(a, s.Addrs) {
			claimOwn = true
		}
	}
	updateAuth := w.role.AmLighthouse && ty == NebulaMeta_HostUpdateNotification && claimOwn
	replyAuth := !w.role.AmLighthouse && ty == NebulaMeta_HostQueryReply && fromLH
	punchAuth := !w.role.AmLighthouse && ty == NebulaMeta_HostPunchNotification && fromLH
	var allowedKeys []netip.Addr
	switch {
	case updateAuth:
		seen := map[string]bool{}
		for _, a := range s.Addrs {
			if p := c35Principal(a); !seen[p] {
				seen[p] = true
				allowedKeys = append(allowedKeys, c35PrincipalAddrs(p)...)
				for t := range toks {
					w.authSet(p)[t] = true
				}
			}
		}
	case replyAuth:
		allowedKeys = claim
		for _, a := range claim {
			for t := range toks {
				w.authSet(a.String())[t] = true
			}
		}
	}
	authKey := func(k netip.Addr) map[string]bool {
		if w.role.AmLighthouse {
			return w.auth[c35Principal(k)]
		}
		return w.auth[k.String()]
	}

	// ---- observed effects ------------------------------------------------------------------------------------------
	changed := c35Changed(before, after)
	var sentKinds []string
	decoded := make([]c35Decoded, len(w.wr.sent))
	for i, sm := range w.wr.sent {
		d, err := c35Decode(sm.Data)
		if err != nil {
			d.Type = -2
		}
		decoded[i] = d
		sentKinds = append(sentKinds, c35TypeName(d.Type))
	}
	outcome = fmt.Sprintf("changed=%v sent=%v punchJobs=%d triggers=%d panic=%v", len(changed) > 0, sentKinds, len(jobs), len(trig), pan != nil)
	if !judge {
		return outcome
	}

	what := "raw malformed payload"
	if m.Raw == "" {
		what = fmt.Sprintf("%s (claimed address: %s)", c35TypeName(ty), c35ClaimClass(m))
		if m.NoDetails {
			what += " without Details"
		}
	}
	class := w.class(s)
	ctx := fmt.Sprintf("%s receives %s from %s", w.role.Name, what, class)
	detail := func(extra map[string]any) map[string]any {
		d := map[string]any{"receiver": w.role.Name, "history": append([]string(nil), w.hist...), "sender_vpn_addrs": fmt.Sprint(s.Addrs),
			"configured_lighthouses": fmt.Sprint(w.lhSet),
			"message":                m.String(), "payload_hex": fmt.Sprintf("%x", payload), "outcome": outcome, "cache_before": before, "cache_after": after}
		for k, v := range extra {
			d[k] = v
		}
		return d
	}
	viol := func(sig string, extra map[string]any) { w.c.Violation(ctx+": "+sig, detail(extra)) }

	// Rule E: no panic
	if pan != nil {
		viol("HandleRequest panicked", map[string]any{"panic": fmt.Sprint(pan)})
		return outcome + " PANIC"
	}
	// Rule A: cache changes need authorisation and stay within the entries the sender may speak for
	stateAuth := updateAuth || replyAuth
	if len(changed) > 0 && !stateAuth {
		viol("the address cache changed", map[string]any{"changed_keys": changed})
	} else {
		for _, k := range changed {
			if !c35In(netip.MustParseAddr(k), allowedKeys) {
				viol("the cache entry of an address the sender may not speak for changed", map[string]any{"changed_keys": changed, "allowed_keys": fmt.Sprint(allowedKeys)})
				break
			}
		}
	}
	// Invariant F: everything held for A was reported by a sender authorised for A
	for k, v := range after {
		as := authKey(netip.MustParseAddr(k))
		for owner, ts := range v.Owners {
			for _, t := range ts {
				if !as[t] {
					viol("the cache holds data for an address that no authorised sender reported", map[string]any{"key": k, "owner": owner, "datum": t})
				}
			}
		}
	}
	// Rule B: messages handed to the EncWriter
	for i, sm := range w.wr.sent {
		d := decoded[i]
		ex := map[string]any{"sent_type": c35TypeName(d.Type), "sent_to": sm.To.String(), "sent_about": fmt.Sprint(d.About), "sent_data": d.Tokens}
		if !w.role.AmLighthouse {
			if d.Type == NebulaMeta_HostQueryReply {
				viol("a non-lighthouse answered with a HostQueryReply", ex)
			} else if !(replyAuth || punchAuth) {
				viol("a non-lighthouse sent a lighthouse message in response", ex)
			}
			continue
		}
		switch d.Type {
		case NebulaMeta_HostQueryReply:
			if ty != NebulaMeta_HostQuery {
				viol("a HostQueryReply was sent although the message was not a query", ex)
				break
			}
			if !c35In(sm.To, s.Addrs) {
				viol("the HostQueryReply was sent to someone other than the querier", ex)
			}
			okAbout := len(d.About) > 0
			for _, a := range d.About {
				if !c35In(a, claim) {
					okAbout = false
				}
			}
			if !okAbout {
				viol("the HostQueryReply is about an address that was not queried", ex)
				break
			}
			for _, a := range d.About {
				for _, t := range d.Tokens {
					if !authKey(a)[t] {
						ex["datum"] = t
						viol("the HostQueryReply carries data that no tunnel authenticated as the queried address reported", ex)
					}
				}
			}
		case NebulaMeta_HostPunchNotification:
			if ty != NebulaMeta_HostQuery {
				viol("a HostPunchNotification was sent although the message was not a query", ex)
				break
			}
			if !c35In(sm.To, claim) {
				viol("the HostPunchNotification was sent to a host other than the queried one", ex)
			}
			for _, a := range d.About {
				if !c35In(a, s.Addrs) {
					viol("the HostPunchNotification names an address the querier is not authenticated as", ex)
				}
			}
			for _, t := range d.Tokens {
				if !authKey(s.Addrs[0])[t] {
					ex["datum"] = t
					viol("the HostPunchNotification carries data that no tunnel authenticated as the querier reported", ex)
				}
			}
		case NebulaMeta_HostUpdateNotificationAck:
			if !updateAuth {
				viol("an update was acknowledged although it was not authorised", ex)
			} else if !c35In(sm.To, s.Addrs) {
				viol("the update ack was sent to someone other than the sender", ex)
			}
		default:
			viol("an unexpected lighthouse message was sent", ex)
		}
	}
	// Rule C / D: punch schedule and handshake trigger (non-lighthouse receivers)
	if !w.role.AmLighthouse {
		if len(jobs) > 0 && !punchAuth {
			viol("punches were scheduled", map[string]any{"jobs": fmt.Sprint(jobs)})
		}
		if punchAuth {
			for _, j := range jobs {
				if j.target.IsValid() {
					if !toks["u:"+j.target.String()] {
						viol("a punch was scheduled to an address the lighthouse did not list", map[string]any{"job": fmt.Sprint(j)})
					}
				} else if !c35In(j.vpnAddr, claim) {
					viol("a punch-back was scheduled to a host the lighthouse did not name", map[string]any{"job": fmt.Sprint(j)})
				}
			}
		}
		if len(trig) > 0 && !replyAuth {
			viol("a handshake was triggered", map[string]any{"triggered": fmt.Sprint(trig)})
		}
		if replyAuth {
			for _, a := range trig {
				if !c35In(a, claim) {
					viol("a handshake was triggered for a host the reply was not about", map[string]any{"triggered": fmt.Sprint(trig)})
				}
			}
		}
	}

	// ---- statistics for the vacuity guards ----------------------------------------------------------------------------
	st := w.stats
	has := func(t NebulaMeta_MessageType) bool {
		for _, d := range decoded {
			if d.Type == t {
				return true
			}
		}
		return false
	}
	r := "node"
	if w.role.AmLighthouse {
		r = "lh"
	}
	effect := len(changed) > 0 || len(w.wr.sent) > 0 || len(jobs) > 0 || len(trig) > 0
	if m.Raw == "" {
		key := r + ":" + c35TypeName(ty)
		if effect {
			st.inc(key + ":effect")
			st.inc("sender-effect:" + r + ":" + s.Name)
			st.inc("claim-effect:" + r + ":" + c35Claims[m.Claim].Name)
		} else {
			st.inc(key + ":ignored")
			st.inc("sender-ignored:" + r + ":" + s.Name)
			st.inc("claim-ignored:" + r + ":" + c35Claims[m.Claim].Name)
		}
		if w.role.AmLighthouse {
			switch ty {
			case NebulaMeta_HostUpdateNotification:
				if updateAuth && len(changed) > 0 && has(NebulaMeta_HostUpdateNotificationAck) {
					st.inc("lh:update-recorded-and-acked")
				}
				if !updateAuth && !effect {
					st.inc("lh:spoofed-update-rejected")
				}
			case NebulaMeta_HostQuery:
				if has(NebulaMeta_HostQueryReply) {
					st.inc("lh:query-answered")
					for _, d := range decoded {
						if d.Type == NebulaMeta_HostQueryReply && len(d.Tokens) > 0 {
							st.inc("lh:query-answered-with-data")
						}
						if d.Type == NebulaMeta_HostPunchNotification {
							st.inc("lh:punch-notification-sent")
							if len(d.Tokens) > 0 {
								st.inc("lh:punch-notification-with-data")
							}
						}
					}
				} else {
					st.inc("lh:query-unanswered")
				}
			}
		} else {
			switch ty {
			case NebulaMeta_HostQueryReply:
				if replyAuth && len(changed) > 0 {
					st.inc("node:reply-recorded:" + s.Name)
					if !w.wasLH(s) {
						st.inc("node:reply-recorded-from-added-lighthouse:" + s.Name)
					}
				}
				if !replyAuth && !effect && w.wasLH(s) {
					st.inc("node:reply-from-former-lighthouse-rejected:" + s.Name)
				}
				if replyAuth && len(trig) > 0 {
					st.inc("node:reply-triggered-handshake")
				}
				if !replyAuth && !effect {
					st.inc("node:reply-from-non-lighthouse-rejected")
				}
			case NebulaMeta_HostPunchNotification:
				if punchAuth && len(jobs) > 0 {
					st.inc("node:punch-scheduled:" + s.Name)
					if !w.wasLH(s) {
						st.inc("node:punch-scheduled-for-added-lighthouse:" + s.Name)
					}
				}
				if !punchAuth && !effect && w.wasLH(s) {
					st.inc("node:punch-from-former-lighthouse-rejected:" + s.Name)
				}
				if !punchAuth && !effect {
					st.inc("node:punch-from-non-lighthouse-rejected")
				}
			case NebulaMeta_HostUpdateNotification:
				if !effect {
					st.inc("node:update-ignored")
				}
			case NebulaMeta_HostQuery:
				if !effect {
					st.inc("node:query-ignored")
				}
			}
		}
	}
	w.c.Distinct("outcomes", r+"/"+c35TypeName(ty)+"/"+class+"/"+c35ClaimClass(m)+"/"+outcome)
	return outcome
}

// key: canonical state = the configuration loaded last (oracle side), the lighthouse and static host lists the
// implementation holds, and the canonical address cache.
func (w *c35World) key() string {
	lhs := []string{}
	for _, a := range w.lh.GetLighthouses() {
		lhs = append(lhs, a.String())
	}
	sort.Strings(lhs)
	static := []string{}
	for a := range w.lh.GetStaticHostList() {
		static = append(static, a.String())
	}
	sort.Strings(static)
	return fmt.Sprintf("%s|conf%d|lh=%v|static=%v|%s", w.role.Name, w.conf, lhs, static, c35JSON(w.snap()))
}

// c35ReloadEvents: one reload event per configuration of the role (including the reload of the configuration in force).
// small=true (histories of the quick tier): the first four configurations of a non-lighthouse (L removed, L replaced by
// p, p added next to L, back to the start); the other two are reached in the product phase (seeded states) only.
func c35ReloadEvents(role c35Role, small bool) []c35Msg {
	var out []c35Msg
	for i := range c35Confs(role) {
		if small && i >= 4 {
			break
		}
		out = append(out, c35Msg{Reload: i + 1})
	}
	return out
}

// ---------------------------------------------------------------------------------------------------------------
// alphabets

func c35FullAlphabet() []c35Msg {
	var out []c35Msg
	for s := range c35Senders {
		for t := range c35Types {
			for cl := range c35Claims {
				for li := 0; li < c35Lists; li++ {
					for re := 0; re < c35Relays; re++ {
						out = append(out, c35Msg{Sender: s, Type: t, Claim: cl, List: li, Relay: re})
					}
				}
			}
			out = append(out, c35Msg{Sender: s, Type: t, NoDetails: true})
		}
		// malformed payloads: empty, garbage, a valid update cut short, a Details field with a bad length
		upd := c35Msg{Sender: s, Type: 2, Claim: 5, List: 3, Relay: 2}.bytes()
		for _, raw := range []string{"\x00", "\xff\xff\xff", string(upd[:len(upd)-1]), string(upd[:len(upd)/2]), "\x08\x03\x12\x7f\x08\x01"} {
			out = append(out, c35Msg{Sender: s, Raw: raw})
		}
	}
	return out
}

// c35ReducedAlphabet: the messages histories are built from.
func c35ReducedAlphabet(thorough bool) []c35Msg {
	types := []int{0, 1, 2, 3} // query, reply, update, punch
	claims := []int{0, 1, 5, 6, 9, 7, 8}
	payloads := [][2]int{{3, 2}, {0, 0}} // (v4+v6, v2 relays) ; (nothing: clears)
	if thorough {
		claims = []int{0, 1, 2, 5, 6, 9, 7, 8, 10, 12, 13}
		payloads = [][2]int{{3, 2}, {0, 0}, {1, 1}, {4, 4}}
	}
	var out []c35Msg
	for s := range c35Senders {
		for _, t := range types {
			for _, cl := range claims {
				for _, p := range payloads {
					out = append(out, c35Msg{Sender: s, Type: t, Claim: cl, List: p[0], Relay: p[1]})
				}
			}
		}
	}
	return out
}

func c35Seeds(role c35Role) [][]c35Msg {
	if role.AmLighthouse {
		return [][]c35Msg{
			nil,
			{{Sender: 2, Type: 2, Claim: 0, List: 3, Relay: 2}, {Sender: 3, Type: 2, Claim: 2, List: 1, Relay: 1}, {Sender: 4, Type: 2, Claim: 10, List: 2, Relay: 0}},
			// the same updates, then a reload of the unchanged configuration
			{{Sender: 2, Type: 2, Claim: 0, List: 3, Relay: 2}, {Sender: 3, Type: 2, Claim: 2, List: 1, Relay: 1}, {Sender: 4, Type: 2, Claim: 10, List: 2, Relay: 0}, {Reload: 1}},
		}
	}
	return [][]c35Msg{
		nil,
		{{Sender: 0, Type: 1, Claim: 5, List: 3, Relay: 2}, {Sender: 4, Type: 1, Claim: 2, List: 1, Relay: 1}, {Sender: 0, Type: 1, Claim: 9, List: 2, Relay: 0}},
		// states behind a reload (indexes into c35NodeConfs, +1). The lighthouse was in use (answers and punch requests
		// accepted from it) right before it is removed; peers were refused right before they are added.
		// L (last: punch request) then every lighthouse removed
		{{Sender: 0, Type: 1, Claim: 5, List: 3, Relay: 2}, {Sender: 4, Type: 1, Claim: 2, List: 1, Relay: 1}, {Sender: 0, Type: 3, Claim: 5, List: 3, Relay: 0}, {Reload: 2}},
		// L on its secondary-address tunnel (last: answer), then L replaced by p
		{{Sender: 0, Type: 1, Claim: 6, List: 3, Relay: 2}, {Sender: 4, Type: 3, Claim: 6, List: 1, Relay: 0}, {Sender: 4, Type: 1, Claim: 1, List: 1, Relay: 1}, {Reload: 3}},
		// p refused, p added next to L, p (both identities) used as lighthouse, p removed again
		{{Sender: 1, Type: 1, Claim: 6, List: 3, Relay: 2}, {Reload: 4}, {Sender: 2, Type: 1, Claim: 6, List: 3, Relay: 2}, {Sender: 1, Type: 3, Claim: 6, List: 1, Relay: 0}, {Reload: 1}},
		// L replaced by the secondary address of pp2: identity p (primary address only) is not a lighthouse
		{{Reload: 6}, {Sender: 2, Type: 1, Claim: 2, List: 3, Relay: 2}, {Sender: 2, Type: 3, Claim: 2, List: 1, Relay: 0}},
		// L replaced by q and dropped from static_host_map
		{{Sender: 0, Type: 1, Claim: 5, List: 3, Relay: 2}, {Reload: 5}, {Sender: 3, Type: 1, Claim: 5, List: 1, Relay: 1}},
	}
}

func TestVerifC35(t *testing.T) {
	c := mc.Begin(t, "C35", "model_checking")
	defer c.End()
	stats := &c35Stats{n: map[string]int64{}}
	full := c35FullAlphabet()
	reduced := c35ReducedAlphabet(c.Thorough())
	c.Set("alphabet_full", len(full))
	c.Set("alphabet_histories_large", len(reduced))
	c.Set("alphabet_histories_small", len(c35ReducedAlphabet(false)))
	c.Set("reload_configurations", map[string]int{"non-lighthouse": len(c35NodeConfs), "lighthouse": len(c35LhConfs)})
	c.Set("alphabet_dimensions", map[string]int{"senders": len(c35Senders), "types": len(c35Types), "claims": len(c35Claims), "underlay_lists": c35Lists, "relay_lists": c35Relays, "receiver_roles": len(c35Roles)})

	// determinism: the same history twice gives the same observations
	for _, role := range c35Roles {
		var obs [2]string
		for i := range obs {
			w := c35NewWorld(c, role, &c35Stats{n: map[string]int64{}})
			for _, m := range c35Seeds(role)[1] {
				obs[i] += w.apply(m, false) + "\n"
			}
			obs[i] += w.apply(c35Msg{Sender: 1, Type: 0, Claim: 6, List: 0, Relay: 0}, false) + w.key()
		}
		if obs[0] != obs[1] {
			c.Broken("replay is not deterministic for role %s:\n%s\n---\n%s", role.Name, obs[0], obs[1])
		}
	}

	// ---- product phase: every message of the full alphabet from the initial and the seeded states ----------------
	states := map[string]bool{}
	var productRuns, effectful int64
	type c35Job struct {
		role c35Role
		seed []c35Msg
		m    c35Msg
	}
	var jobs []c35Job
	for _, role := range c35Roles {
		for si, seed := range c35Seeds(role) {
			for _, m := range full {
				if si > 0 && !c.Thorough() && m.Raw == "" && !m.NoDetails && !((m.List == 0 || m.List == 3) && (m.Relay == 0 || m.Relay == 2)) {
					continue // quick: seeded states see the full type x claim x sender product with two payload shapes
				}
				jobs = append(jobs, c35Job{role, seed, m})
			}
			for _, m := range c35ReloadEvents(role, false) {
				jobs = append(jobs, c35Job{role, seed, m})
			}
		}
	}
	{
		var mu sync.Mutex
		var wg sync.WaitGroup
		next := 0
		for wk := 0; wk < runtime.GOMAXPROCS(0); wk++ {
			wg.Add(1)
			go func() {
				defer wg.Done()
				for {
					mu.Lock()
					i := next
					next++
					mu.Unlock()
					if i >= len(jobs) {
						return
					}
					if i&0xff == 0 && c.OutOfTime() {
						c.Capped("time budget (product phase)")
						return
					}
					j := jobs[i]
					w := c35NewWorld(c, j.role, stats)
					for _, pm := range j.seed {
						w.apply(pm, false)
					}
					out := w.apply(j.m, true)
					k := w.key()
					mu.Lock()
					states[k] = true
					productRuns++
					var n int64
					if !strings.HasPrefix(out, "changed=false sent=[] punchJobs=0 triggers=0") && !strings.HasPrefix(out, "reload changed=false sent=0 punchJobs=0 triggers=0") {
						effectful++
						n = effectful
					}
					mu.Unlock()
					if n > 0 && n&(n-1) == 0 { // samples: messages that had an effect
						var seed []string
						for _, pm := range j.seed {
							seed = append(seed, pm.String())
						}
						c.Sample(map[string]any{"receiver": j.role.Name, "seed_history": seed, "message": j.m.String(), "outcome": out})
					}
				}
			}()
		}
		wg.Wait()
	}
	c.Add("transitions", productRuns)
	c.Add("traces_validated_against_impl", productRuns)
	c.Add("states", int64(len(states)))
	c.Set("product_runs", productRuns)

	// ---- history phase: BFS by replay over the reduced alphabets -------------------------------------------------
	type c35Pass struct {
		name  string
		alpha []c35Msg
		depth int
		roles []int
	}
	small := c35ReducedAlphabet(false)
	passes := []c35Pass{{"small alphabet", small, 3, []int{0, 2}}} // quick: the v1 lighthouse variant is covered by the product phase only
	if c.Thorough() {
		passes = []c35Pass{
			{"small alphabet", small, 3, []int{0, 1, 2}},
			{"large alphabet", reduced, 3, []int{2, 0, 1}},
			{"small alphabet, deeper", small, 5, []int{0}},
		}
	}
	depth := 3
	perRole := map[string]any{}
	for _, ps := range passes {
		for _, ri := range ps.roles {
			if c.OutOfTime() {
				c.Capped("time budget (history phase)")
				break
			}
			role, ps := c35Roles[ri], ps
			alpha := append(slices.Clip(slices.Clone(ps.alpha)), c35ReloadEvents(role, !c.Thorough())...) // messages + configuration reloads
			res := mc.BFSReplay(c, mc.BFSConfig[c35Msg]{
				MaxDepth: ps.depth,
				Workers:  0, // parallel: only the handler call + clock advance is serialised (c35Clock)
				Label:    func(m c35Msg) string { return m.String() },
				Stop:     func() bool { return c.OutOfTime() || c.Violations() > 500 },
				Run: func(hist []c35Msg) (string, []c35Msg) {
					w := c35NewWorld(c, role, stats)
					for i, m := range hist {
						w.apply(m, i == len(hist)-1)
					}
					return w.key(), alpha
				},
			})
			perRole[role.Name+" / "+ps.name] = map[string]any{"alphabet": len(alpha), "reload_events": len(alpha) - len(ps.alpha), "depth_bound": ps.depth, "states": res.States, "transitions": res.Transitions, "max_depth": res.MaxDepth, "frontier_emptied": res.Exhaustive}
		}
	}
	if c.OutOfTime() {
		c.Capped("time budget (history phase)")
	}
	c.Set("time_budget_reached", c.OutOfTime())
	c.Set("histories", perRole)
	c.Set("history_depth", depth)
	c.Set("guards", stats.n)
	c.Set("explanation", "product = every message of the full alphabet delivered to a fresh real lighthouse in the initial and in a seeded state, per receiver role; histories = BFS by replay (depth <= history_depth) over the reduced alphabet, states = canonical addrMap (all owners of all RemoteLists, sharing structure). The depth cap of the history search is the stated bound (cap_hit 'bfs depth cap' = bound reached, not a time-out).")

	c.Assume("overlay addresses that appear together in one certificate of the sender alphabet ({L,l2}, {p,p2}) are one principal: a tunnel authenticated as p may update the entry shared by p and p2")
	c.Assume("an update that names two addresses (v1 and v2 field both set) counts as the sender's own if either is one of its authenticated addresses (weak reading)")
	c.Assume("the lighthouse receiver has no upstream lighthouse.hosts (am_lighthouse with hosts is a warned-about misconfiguration); a lighthouse receiving replies/punch requests is only required not to record them")
	c.Assume("lighthouse.am_lighthouse is read once at start (nebula documents no reload for it): 'configured as a lighthouse' is the start configuration; only lighthouse.hosts / static_host_map are reloaded, and a lighthouse receiver only reloads its unchanged configuration")
	c.Assume("'configured lighthouses' of a non-lighthouse = lighthouse.hosts of the configuration loaded last; data a host reported while it was a configured lighthouse may stay in the cache after it is removed (the statement restricts acceptance, not retention)")
	c.Assume("messages are what protobuf decoding can produce (nil list entries cannot arrive from the wire); zero-valued entries, missing Details and truncated payloads are included")
	c.Assume("what a non-lighthouse does with HostQueryReply/HostPunchNotification from a configured lighthouse is not constrained beyond: only the entry of the address the reply is about changes, data recorded/punched is data the lighthouse listed")

	// ---- vacuity guards -------------------------------------------------------------------------------------------
	if c.Violations() == 0 && !c.OutOfTime() {
		need := []string{
			"lh:update-recorded-and-acked", "lh:spoofed-update-rejected", "lh:query-answered", "lh:query-answered-with-data", "lh:query-unanswered",
			"lh:punch-notification-sent", "lh:punch-notification-with-data",
			"node:reply-recorded:L", "node:reply-recorded:l2L", "node:reply-triggered-handshake", "node:reply-from-non-lighthouse-rejected",
			"node:punch-scheduled:L", "node:punch-scheduled:l2L", "node:punch-from-non-lighthouse-rejected", "node:update-ignored", "node:query-ignored",
		}
		// configuration reloads: every configuration was loaded, lighthouses that were removed are refused, peers that
		// were added are obeyed (so the reloads really took effect in the implementation), on every sender identity
		need = append(need, "reload:node:configuration-changed", "reload:node:cache-changed(static hosts rebuilt)",
			"node:reply-from-former-lighthouse-rejected:L", "node:reply-from-former-lighthouse-rejected:l2L",
			"node:punch-from-former-lighthouse-rejected:L", "node:punch-from-former-lighthouse-rejected:l2L")
		for _, n := range []string{"p", "pp2", "q"} {
			need = append(need, "node:reply-recorded-from-added-lighthouse:"+n, "node:punch-scheduled-for-added-lighthouse:"+n)
		}
		for _, cf := range c35NodeConfs {
			need = append(need, "reload:node:"+cf.Name)
		}
		for _, cf := range c35LhConfs {
			need = append(need, "reload:lh:"+cf.Name)
		}
		for _, s := range c35Senders {
			need = append(need, "sender-effect:lh:"+s.Name, "sender-ignored:lh:"+s.Name, "sender-ignored:node:"+s.Name)
		}
		for _, cl := range c35Claims {
			need = append(need, "claim-ignored:lh:"+cl.Name, "claim-ignored:node:"+cl.Name)
			if cl.Name != "v1:me" && cl.Name != "v2:me" && cl.Name != "v2:x" { // nobody can be authenticated as the receiver / an unknown host
				need = append(need, "claim-effect:lh:"+cl.Name)
			}
		}
		for _, k := range need {
			c.Require(stats.n[k] > 0, "guard %q never occurred (%v)", k, stats.n)
		}
		c.Require(c.DistinctCount("outcomes") >= 20, "only %d distinct outcomes", c.DistinctCount("outcomes"))
	}
}
