//go:build verif

package nebula

import (
	"fmt"
	"log/slog"
	"net/netip"
	"runtime"
	"sort"
	"strings"
	"sync"
	"sync/atomic"
	"testing"

	"github.com/slackhq/nebula/config"
	"github.com/slackhq/nebula/zzverif/mc"
)

// C38 — allow lists use longest-prefix semantics with a safe default.
//
// Bounded-exhaustive enumeration (E3): every allow-list map over a prefix alphabet (IPv4, IPv6 and IPv4-mapped keys,
// nested three deep, both defaults) with every allow/deny assignment is loaded by the real newAllowList (through
// config.C) and probed with addresses inside/outside every prefix; remote_allow_list + remote_allow_ranges
// combinations go through NewRemoteAllowListFromConfig and Allow/AllowAll/AllowUnknownVpnAddr; interface rule sets go
// through NewLocalAllowListFromConfig and AllowName. Reference: a flat list scanned for the longest matching prefix
// (bit loops), the statement's default rule, and a hand-written regex match table.

type c38Rule struct {
	v6    bool
	addr  [16]byte // v4 in the first 4 bytes
	bits  int
	value bool
	key   string
}

func c38Bit(b []byte, i int) byte { return (b[i/8] >> (7 - uint(i%8))) & 1 }

// c38Normalise reads a configured CIDR key the way the statement asks: an IPv4-mapped key of at least /96 is the IPv4
// prefix with 96 fewer bits.
func c38Normalise(key string, value bool) (c38Rule, bool) {
	p, err := netip.ParsePrefix(key)
	if err != nil {
		return c38Rule{}, false
	}
	r := c38Rule{bits: p.Bits(), value: value, key: key}
	a := p.Addr()
	switch {
	case a.Is4():
		b := a.As4()
		copy(r.addr[:], b[:])
	case a.Is4In6():
		if p.Bits() < 96 {
			return c38Rule{}, false // not an IPv4 prefix: outside the box
		}
		b := a.As16()
		copy(r.addr[:], b[12:])
		r.bits = p.Bits() - 96
	default:
		r.v6 = true
		r.addr = a.As16()
	}
	return r, true
}

func (r c38Rule) matches(a netip.Addr) bool {
	if a.Is4() == r.v6 {
		return false
	}
	ab := a.AsSlice()
	for i := 0; i < r.bits; i++ {
		if c38Bit(ab, i) != c38Bit(r.addr[:], i) {
			return false
		}
	}
	return true
}

func (r c38Rule) same(o c38Rule) bool {
	if r.v6 != o.v6 || r.bits != o.bits {
		return false
	}
	for i := 0; i < r.bits; i++ {
		if c38Bit(r.addr[:], i) != c38Bit(o.addr[:], i) {
			return false
		}
	}
	return true
}

// reference allow list
type c38Ref struct {
	rules     []c38Rule
	loadErr   bool    // must be refused
	ambiguous bool    // two keys denote the same prefix with different values: outside the box
	def       [2]int8 // per family (0=v4, 1=v6): 1 allow, 0 deny, -1 not asserted (family has no configured value)
	hasMapped bool
}

func c38NewRef(m map[string]bool) *c38Ref {
	ref := &c38Ref{}
	keys := make([]string, 0, len(m))
	for k := range m {
		keys = append(keys, k)
	}
	sort.Strings(keys)
	for _, k := range keys {
		r, ok := c38Normalise(k, m[k])
		if !ok {
			ref.ambiguous = true
			continue
		}
		if strings.HasPrefix(k, "::ffff:") {
			ref.hasMapped = true
		}
		for _, o := range ref.rules {
			if o.same(r) && o.value != r.value {
				ref.ambiguous = true
			}
		}
		ref.rules = append(ref.rules, r)
	}
	for fam := 0; fam < 2; fam++ {
		n, allow, deny, hasDefault := 0, 0, 0, false
		for _, r := range ref.rules {
			if r.v6 != (fam == 1) {
				continue
			}
			n++
			if r.value {
				allow++
			} else {
				deny++
			}
			if r.bits == 0 {
				hasDefault = true
			}
		}
		switch {
		case hasDefault:
			ref.def[fam] = -2 // explicit: found by the scan
		case n == 0:
			ref.def[fam] = -1 // statement silent: family without configured values
		case allow > 0 && deny > 0:
			ref.loadErr = true
		case allow > 0:
			ref.def[fam] = 0
		default:
			ref.def[fam] = 1
		}
	}
	return ref
}

// allow returns (answer, asserted)
func (ref *c38Ref) allow(a netip.Addr) (bool, bool) {
	if ref == nil {
		return true, true // no list configured: everything allowed
	}
	best := -1
	val := false
	for _, r := range ref.rules {
		if r.matches(a) && r.bits > best {
			best, val = r.bits, r.value
		}
	}
	if best >= 0 {
		return val, true
	}
	fam := 0
	if !a.Is4() {
		fam = 1
	}
	switch ref.def[fam] {
	case 1:
		return true, true
	case 0:
		return false, true
	}
	return false, false
}

// c38Demap rewrites mapped keys as plain IPv4 keys (used only to name the input class of a failure)
func c38Demap(m map[string]bool) map[string]bool {
	out := map[string]bool{}
	for k, v := range m {
		if r, ok := c38Normalise(k, v); ok && !r.v6 && strings.HasPrefix(k, "::ffff:") {
			out[fmt.Sprintf("%d.%d.%d.%d/%d", r.addr[0], r.addr[1], r.addr[2], r.addr[3], r.bits)] = v
		} else {
			out[k] = v
		}
	}
	return out
}

func c38Any(m map[string]bool) map[string]any {
	out := map[string]any{}
	for k, v := range m {
		out[k] = v
	}
	return out
}

var c38Log = slog.New(slog.DiscardHandler)

func c38Load(m map[string]bool) (*AllowList, error) {
	c := config.NewC(c38Log)
	c.Settings["k"] = c38Any(m)
	return newAllowListFromConfig(c, "k", nil)
}

type c38Tally struct {
	evals, lists, loadOK, loadErr, skippedAmbiguous, unasserted, allowTrue, allowFalse, mappedLists int64
	implicitDefaultUsed, explicitDefaultUsed, specificUsed                                        int64
	distinct                                                                                      map[string]struct{}
	viol                                                                                          map[string]*c38Viol
}

type c38Viol struct {
	count  int64
	size   int
	detail map[string]any
}

func newC38Tally() *c38Tally {
	return &c38Tally{distinct: map[string]struct{}{}, viol: map[string]*c38Viol{}}
}

func (t *c38Tally) report(sig string, size int, detail map[string]any) {
	v := t.viol[sig]
	if v == nil {
		v = &c38Viol{size: 1 << 30}
		t.viol[sig] = v
	}
	v.count++
	if size < v.size {
		v.size, v.detail = size, detail
	}
}

func (t *c38Tally) merge(o *c38Tally) {
	t.evals += o.evals
	t.lists += o.lists
	t.loadOK += o.loadOK
	t.loadErr += o.loadErr
	t.skippedAmbiguous += o.skippedAmbiguous
	t.unasserted += o.unasserted
	t.allowTrue += o.allowTrue
	t.allowFalse += o.allowFalse
	t.mappedLists += o.mappedLists
	t.implicitDefaultUsed += o.implicitDefaultUsed
	t.explicitDefaultUsed += o.explicitDefaultUsed
	t.specificUsed += o.specificUsed
	for k := range o.distinct {
		t.distinct[k] = struct{}{}
	}
	for sig, v := range o.viol {
		x := t.viol[sig]
		if x == nil {
			x = &c38Viol{size: 1 << 30}
			t.viol[sig] = x
		}
		x.count += v.count
		if v.size < x.size || (v.size == x.size && fmt.Sprint(v.detail) < fmt.Sprint(x.detail)) {
			x.size, x.detail = v.size, v.detail
		}
	}
}

func c38Show(m map[string]bool) string {
	keys := make([]string, 0, len(m))
	for k := range m {
		keys = append(keys, k)
	}
	sort.Strings(keys)
	var sb strings.Builder
	sb.WriteString("{")
	for i, k := range keys {
		if i > 0 {
			sb.WriteString(", ")
		}
		fmt.Fprintf(&sb, "%q: %v", k, m[k])
	}
	sb.WriteString("}")
	return sb.String()
}

func c38Size(m map[string]bool) int {
	n := 0
	for k := range m {
		n += 100 + len(k)
	}
	return n
}

// c38MappedClass: the failure disappears when the mapped keys are written as plain IPv4 keys
func c38MappedClass(m map[string]bool, ref *c38Ref, probes []netip.Addr) bool {
	if !ref.hasMapped {
		return false
	}
	al, err := c38Load(c38Demap(m))
	if (err != nil) != ref.loadErr {
		return false
	}
	if err != nil {
		return true
	}
	for _, p := range probes {
		if want, asserted := ref.allow(p); asserted && al.Allow(p) != want {
			return false
		}
	}
	return true
}

const c38SigMapped = "newAllowList: an IPv4-mapped CIDR key (::ffff:a.b.c.d/96+n) does not act as the IPv4 prefix a.b.c.d/n: the rule is silently dropped (fail-open) or the mapped default is not recognised"

// c38CheckList loads one map and probes it.
func c38CheckList(t *c38Tally, m map[string]bool, probes []netip.Addr) {
	ref := c38NewRef(m)
	t.lists++
	if ref.ambiguous {
		t.skippedAmbiguous++
		return
	}
	if ref.hasMapped {
		t.mappedLists++
	}
	al, err := c38Load(m)
	t.evals++
	detail := func(extra map[string]any) map[string]any {
		d := map[string]any{"list": c38Show(m)}
		if err != nil {
			d["load_error"] = err.Error()
		}
		for k, v := range extra {
			d[k] = v
		}
		return d
	}
	if (err != nil) != ref.loadErr {
		sig := "newAllowList: loads a list that mixes allow and deny for a family without a default"
		if err != nil {
			sig = "newAllowList: refuses a list whose families each have a default or uniform values"
		}
		if c38MappedClass(m, ref, probes) {
			sig = c38SigMapped
		}
		t.report(sig, c38Size(m), detail(map[string]any{"reference": map[bool]string{true: "must be refused", false: "must load"}[ref.loadErr]}))
		return
	}
	if err != nil {
		t.loadErr++
		t.distinct["refused|"+c38Show(m)] = struct{}{}
		return
	}
	t.loadOK++
	nontrivial := false
	for _, p := range probes {
		want, asserted := ref.allow(p)
		got := al.Allow(p)
		t.evals++
		if !asserted {
			t.unasserted++
			continue
		}
		if got {
			t.allowTrue++
		} else {
			t.allowFalse++
		}
		// coverage of the three ways an answer is found
		best := -1
		for _, r := range ref.rules {
			if r.matches(p) && r.bits > best {
				best = r.bits
			}
		}
		switch {
		case best > 0:
			t.specificUsed++
			nontrivial = true
		case best == 0:
			t.explicitDefaultUsed++
		default:
			t.implicitDefaultUsed++
		}
		if got != want {
			fam := "IPv4"
			if !p.Is4() {
				fam = "IPv6"
			}
			how := "most specific matching CIDR"
			if best == 0 {
				how = "explicit default"
			} else if best < 0 {
				how = "implicit default (opposite of the uniform values)"
			}
			sig := fmt.Sprintf("AllowList.Allow: %s address not answered with the value of its %s", fam, how)
			if c38MappedClass(m, ref, probes) {
				sig = c38SigMapped
			}
			size := c38Size(m) + len(p.String())
			if got && !want {
				size -= 40 // prefer a fail-open counterexample as the replay
			}
			t.report(sig, size, detail(map[string]any{"address": p.String(), "impl": got, "reference": want}))
		}
	}
	if nontrivial {
		t.distinct["loaded|"+c38Show(m)] = struct{}{}
	}
}

func TestVerifC38(t *testing.T) {
	c := mc.Begin(t, "C38", "exploration")
	defer c.End()
	A := netip.MustParseAddr

	prefixes := []string{"0.0.0.0/0", "10.0.0.0/8", "10.1.0.0/16", "10.1.1.1/32", "::/0", "fd00::/8", "fd00:1::/32",
		"::ffff:10.0.0.0/104", "::ffff:10.1.1.1/128", "::ffff:0.0.0.0/96"}
	if c.Thorough() { // a fourth nesting level in both families
		prefixes = append(prefixes, "10.1.1.0/24", "fd00:1:2::/48")
	}
	maxSize := len(prefixes) // every subset, every allow/deny assignment: 3^10 maps (thorough 3^12)
	probes := []netip.Addr{A("10.1.1.1"), A("10.1.1.2"), A("10.1.2.3"), A("10.2.0.1"), A("8.8.8.8"), A("0.0.0.0"), A("255.255.255.255"), A("11.0.0.0"),
		A("fd00::1"), A("fd00:1::1"), A("fd00:1:2::1"), A("fd00:2::1"), A("fdff::1"), A("fe00::1"), A("2001:db8::1"), A("::1"), A("::")}
	c.Set("prefix_alphabet", prefixes)
	c.Set("probe_addresses", len(probes))
	c.Set("max_list_size", maxSize)

	// ------------------------------------------------ part 1: plain allow lists, all subsets x all value assignments
	// item = assignment over the 10 prefixes in base 3 (0 absent, 1 allow, 2 deny), filtered by size
	total := 1
	for range prefixes {
		total *= 3
	}
	workers := runtime.GOMAXPROCS(0)
	if workers > 8 {
		workers = 8
	}
	tallies := make([]*c38Tally, workers)
	var next atomic.Int64
	var capped atomic.Bool
	var wg sync.WaitGroup
	const chunk = 256
	for w := 0; w < workers; w++ {
		tallies[w] = newC38Tally()
		wg.Add(1)
		go func(t *c38Tally) {
			defer wg.Done()
			for {
				lo := int(next.Add(chunk) - chunk)
				if lo >= total {
					return
				}
				if c.OutOfTime() {
					capped.Store(true)
					return
				}
				for code := lo; code < lo+chunk && code < total; code++ {
					m := map[string]bool{}
					x := code
					for _, p := range prefixes {
						switch x % 3 {
						case 1:
							m[p] = true
						case 2:
							m[p] = false
						}
						x /= 3
					}
					if len(m) > maxSize {
						continue
					}
					c38CheckList(t, m, probes)
				}
			}
		}(tallies[w])
	}
	wg.Wait()
	if capped.Load() {
		c.Capped("soft time budget reached while enumerating allow-list maps")
	}
	tot := newC38Tally()
	for _, t := range tallies {
		tot.merge(t)
	}

	// ------------------------------------------------ part 2: remote allow list + per-range lists
	rt := newC38Tally()
	c38Remote(c, rt)
	tot.merge(rt)

	// ------------------------------------------------ part 3: interface name rules
	lt := newC38Tally()
	c38Local(c, lt)
	tot.merge(lt)

	var sigs []string
	for s := range tot.viol {
		sigs = append(sigs, s)
	}
	sort.Strings(sigs)
	var failing int64
	for _, s := range sigs {
		v := tot.viol[s]
		v.detail["cases_failing_with_this_signature"] = v.count
		failing += v.count
		c.Violation(s, v.detail)
	}
	c.Set("failing_cases", failing)

	// vacuity guards
	c.Require(tot.loadOK > 0 && tot.loadErr > 0, "need both loaded and refused lists (%d / %d)", tot.loadOK, tot.loadErr)
	c.Require(tot.allowTrue > 0 && tot.allowFalse > 0, "need both allow and deny answers (%d / %d)", tot.allowTrue, tot.allowFalse)
	c.Require(tot.specificUsed > 0 && tot.explicitDefaultUsed > 0 && tot.implicitDefaultUsed > 0, "answers by specific rule / explicit default / implicit default: %d / %d / %d", tot.specificUsed, tot.explicitDefaultUsed, tot.implicitDefaultUsed)
	c.Require(tot.mappedLists > 0, "no list with an IPv4-mapped key was enumerated")
	c.Set("evaluations", tot.evals)
	c.Set("distinct_nontrivial", int64(len(tot.distinct)))
	c.Set("rule", "evaluations = loads of a configuration by the real constructors + calls of Allow/AllowAll/AllowUnknownVpnAddr/AllowName compared with the reference; distinct_nontrivial = number of DISTINCT configurations (by content, counted in a set) that were refused, or loaded and answered at least one probe through a non-default CIDR / a per-range list / a matching interface rule")
	c.Set("lists_enumerated", tot.lists)
	c.Set("lists_loaded", tot.loadOK)
	c.Set("lists_refused", tot.loadErr)
	c.Set("lists_with_mapped_key", tot.mappedLists)
	c.Set("lists_skipped_same_prefix_twice_with_different_values", tot.skippedAmbiguous)
	c.Set("answers_not_asserted_family_without_configured_value", tot.unasserted)
	c.Set("answers_allow", tot.allowTrue)
	c.Set("answers_deny", tot.allowFalse)
	c.Set("answers_by_specific_cidr", tot.specificUsed)
	c.Set("answers_by_explicit_default", tot.explicitDefaultUsed)
	c.Set("answers_by_implicit_default", tot.implicitDefaultUsed)
	c.Sample(map[string]any{"list": `{"10.0.0.0/8": false}`, "probe": "10.1.1.1", "reference": false})
	c.Sample(map[string]any{"list": `{"::ffff:10.0.0.0/104": false}`, "probe": "10.1.1.1", "reference": "false (mapped key acts as 10.0.0.0/8)"})
	c.Sample(map[string]any{"list": `{"0.0.0.0/0": true, "10.0.0.0/8": false, "10.1.0.0/16": true}`, "probe": "10.1.2.3", "reference": true})
	c.Assume("a family for which the list configures nothing has no 'uniform configured values': its answers are not asserted (the implementation allows)")
	c.Assume("probe addresses are given unmapped, as every caller does (udp listeners and hostmap Unmap() before asking); only IPv4-mapped *configuration keys* are required to act as IPv4")
	c.Assume("two keys that denote the same prefix (plain and mapped spelling) with different values are outside the box (order of a Go map)")
	c.Assume("with nested remote_allow_ranges either the most specific range's list or all matching ranges' lists may apply; the statement does not choose")
}

// ---------------------------------------------------------------------------------------------------------------------
// remote allow lists

func c38Remote(c *mc.Check, t *c38Tally) {
	A := netip.MustParseAddr
	globals := []map[string]bool{nil, {"10.0.0.0/8": false}, {"10.0.0.0/8": true}, {"0.0.0.0/0": true, "10.1.0.0/16": false, "::/0": false, "fd00::/8": true},
		{"::ffff:10.0.0.0/104": false}}
	inner := []map[string]bool{{"10.0.0.0/8": true}, {"10.0.0.0/8": false}, {"0.0.0.0/0": false, "10.1.0.0/16": true, "10.1.1.1/32": false}, {"fd00::/8": false},
		{"::ffff:10.1.0.0/112": false}, {"10.2.0.0/16": false, "8.0.0.0/8": false}}
	ranges := []string{"10.128.0.0/16", "10.128.1.0/24", "fd80::/64", "::ffff:10.129.0.0/112"}
	if !c.Thorough() {
		inner = inner[:5]
	}
	vpns := []netip.Addr{A("10.128.0.5"), A("10.128.1.5"), A("10.129.0.5"), A("10.200.0.1"), A("fd80::5"), A("fd81::1")}
	udps := []netip.Addr{A("10.1.1.1"), A("10.1.2.3"), A("10.2.0.1"), A("8.8.8.8"), A("192.0.2.1"), A("fd00::1"), A("2001:db8::1")}

	type rng struct {
		key  string
		list map[string]bool
	}
	var rangeSets [][]rng
	rangeSets = append(rangeSets, nil)
	for _, r := range ranges {
		for _, l := range inner {
			rangeSets = append(rangeSets, []rng{{r, l}})
		}
	}
	for i := 0; i < len(ranges); i++ {
		for j := i + 1; j < len(ranges); j++ {
			for _, l1 := range inner {
				for _, l2 := range inner {
					rangeSets = append(rangeSets, []rng{{ranges[i], l1}, {ranges[j], l2}})
				}
			}
		}
	}
	var usedInner, usedGlobalOnly, mostSpecificDiffers int64
	for _, g := range globals {
		for _, rs := range rangeSets {
			cfg := config.NewC(c38Log)
			lh := map[string]any{}
			if g != nil {
				lh["remote_allow_list"] = c38Any(g)
			}
			desc := map[string]any{"remote_allow_list": "(absent)"}
			if g != nil {
				desc["remote_allow_list"] = c38Show(g)
			}
			if rs != nil {
				rm := map[string]any{}
				var ds []string
				for _, r := range rs {
					rm[r.key] = c38Any(r.list)
					ds = append(ds, fmt.Sprintf("%q: %s", r.key, c38Show(r.list)))
				}
				lh["remote_allow_ranges"] = rm
				desc["remote_allow_ranges"] = "{" + strings.Join(ds, ", ") + "}"
			}
			cfg.Settings["lighthouse"] = lh
			size := 50 // (a plain-list counterexample of equal size is preferred as the replay)
			if g != nil {
				size += c38Size(g)
			}
			for _, r := range rs {
				size += 100 + len(r.key) + c38Size(r.list)
			}

			// reference
			var gref *c38Ref
			wantErr := false
			if g != nil {
				gref = c38NewRef(g)
				wantErr = wantErr || gref.loadErr
			}
			type refRange struct {
				rule c38Rule
				ref  *c38Ref
			}
			var rrefs []refRange
			hasMappedKey := gref != nil && gref.hasMapped
			for _, r := range rs {
				rule, _ := c38Normalise(r.key, true)
				ref := c38NewRef(r.list)
				wantErr = wantErr || ref.loadErr
				rrefs = append(rrefs, refRange{rule, ref})
				if strings.HasPrefix(r.key, "::ffff:") || ref.hasMapped {
					hasMappedKey = true
				}
			}

			ral, err := NewRemoteAllowListFromConfig(cfg, "lighthouse.remote_allow_list", "lighthouse.remote_allow_ranges")
			t.evals++
			t.lists++
			if (err != nil) != wantErr {
				d := desc
				if err != nil {
					d["load_error"] = err.Error()
				}
				t.report("NewRemoteAllowListFromConfig: load/refuse decision differs from the reference", size, d)
				continue
			}
			if err != nil {
				t.loadErr++
				continue
			}
			t.loadOK++
			interesting := false
			for _, vpn := range vpns {
				// reference: lists of all matching ranges, and of the most specific one
				var matching []refRange
				best := -1
				var most *c38Ref
				for _, rr := range rrefs {
					if rr.rule.matches(vpn) {
						matching = append(matching, rr)
						if rr.rule.bits > best {
							best, most = rr.rule.bits, rr.ref
						}
					}
				}
				for _, udp := range udps {
					gw, gAsserted := gref.allow(udp)
					wantMost, wantAll, asserted := gw, gw, gAsserted
					if most != nil {
						v, a := most.allow(udp)
						asserted = asserted && a
						wantMost = wantMost && v
					}
					for _, rr := range matching {
						v, a := rr.ref.allow(udp)
						asserted = asserted && a
						wantAll = wantAll && v
					}
					if !asserted {
						t.unasserted++
						continue
					}
					if wantMost != wantAll {
						mostSpecificDiffers++
					}
					if len(matching) > 0 {
						usedInner++
						interesting = true
					} else {
						usedGlobalOnly++
					}
					ok := func(got bool) bool { return got == wantMost || got == wantAll }
					d := func(method string, got bool) map[string]any {
						x := map[string]any{"method": method, "vpn_addr": vpn.String(), "udp_addr": udp.String(), "impl": got, "reference": wantMost}
						for k, v := range desc {
							x[k] = v
						}
						return x
					}
					sigFor := func(method string) string {
						if hasMappedKey {
							// does the failure disappear with plain IPv4 spellings?
							cfg2 := config.NewC(c38Log)
							lh2 := map[string]any{}
							if g != nil {
								lh2["remote_allow_list"] = c38Any(c38Demap(g))
							}
							if rs != nil {
								rm := map[string]any{}
								for _, r := range rs {
									k := r.key
									if rule, ok := c38Normalise(k, true); ok && !rule.v6 && strings.HasPrefix(k, "::ffff:") {
										k = fmt.Sprintf("%d.%d.%d.%d/%d", rule.addr[0], rule.addr[1], rule.addr[2], rule.addr[3], rule.bits)
									}
									rm[k] = c38Any(c38Demap(r.list))
								}
								lh2["remote_allow_ranges"] = rm
							}
							cfg2.Settings["lighthouse"] = lh2
							if ral2, err2 := NewRemoteAllowListFromConfig(cfg2, "lighthouse.remote_allow_list", "lighthouse.remote_allow_ranges"); err2 == nil && ok(ral2.Allow(vpn, udp)) {
								for _, r := range rs {
									if strings.HasPrefix(r.key, "::ffff:") && c38RuleOf(r.key).matches(vpn) {
										return "getRemoteAllowRanges: an IPv4-mapped range key (::ffff:a.b.c.d/96+n) does not act as the IPv4 range a.b.c.d/n: its list is silently not applied (fail-open)"
									}
								}
								return c38SigMapped
							}
						}
						return "RemoteAllowList." + method + ": answer is not (global list) AND (list of the overlay range containing the vpn address)"
					}
					got := ral.Allow(vpn, udp)
					t.evals++
					if got {
						t.allowTrue++
					} else {
						t.allowFalse++
					}
					if !ok(got) {
						t.report(sigFor("Allow"), size, d("Allow", got))
					}
					if ga := ral.AllowAll([]netip.Addr{vpn}, udp); ga != got {
						t.report("RemoteAllowList.AllowAll: single-address answer differs from Allow", size, d("AllowAll", ga))
					}
					t.evals++
				}
				// AllowUnknownVpnAddr consults only the global list
				gw, a := gref.allow(vpn)
				if a {
					t.evals++
					if got := ral.AllowUnknownVpnAddr(vpn); got != gw {
						sig := "RemoteAllowList.AllowUnknownVpnAddr: answer differs from the global list"
						if gref != nil && gref.hasMapped {
							sig = c38SigMapped
						}
						t.report(sig, size, map[string]any{"addr": vpn.String(), "impl": got, "reference": gw, "remote_allow_list": desc["remote_allow_list"]})
					}
				}
			}
			// AllowAll over two vpn addresses = conjunction of the single answers (and of the global list)
			for i := 0; i < len(vpns); i++ {
				for j := 0; j < len(vpns); j++ {
					for _, udp := range udps[:4] {
						want := ral.Allow(vpns[i], udp) && ral.Allow(vpns[j], udp)
						got := ral.AllowAll([]netip.Addr{vpns[i], vpns[j]}, udp)
						t.evals++
						if got != want {
							t.report("RemoteAllowList.AllowAll: not the conjunction over the peer's vpn addresses", size, map[string]any{"vpn_addrs": []string{vpns[i].String(), vpns[j].String()}, "udp_addr": udp.String(), "impl": got, "config": desc})
						}
					}
				}
			}
			if interesting {
				t.distinct["remote|"+fmt.Sprint(desc)] = struct{}{}
			}
		}
	}
	c.Require(usedInner > 0 && usedGlobalOnly > 0, "remote lists: answers with / without a per-range list: %d / %d", usedInner, usedGlobalOnly)
	c.Set("remote_configurations", len(globals)*len(rangeSets))
	c.Set("remote_answers_with_range_list", usedInner)
	c.Set("remote_answers_global_only", usedGlobalOnly)
	c.Set("remote_answers_where_nested_range_readings_differ", mostSpecificDiffers)
	c.Sample(map[string]any{"remote_allow_list": `{"10.0.0.0/8": true}`, "remote_allow_ranges": `{"10.128.0.0/16": {"10.2.0.0/16": false, "8.0.0.0/8": false}}`, "vpn": "10.128.0.5", "udp": "10.2.0.1", "reference": false})
}

func c38RuleOf(key string) c38Rule {
	r, _ := c38Normalise(key, true)
	return r
}

// ---------------------------------------------------------------------------------------------------------------------
// interface name rules

func c38Local(c *mc.Check, t *c38Tally) {
	patterns := []string{"eth.*", "docker0", "tun[0-9]+"}
	names := []string{"eth0", "eth", "xeth0", "docker0", "docker01", "xdocker0", "tun1", "tun12", "tun", "lo", ""}
	// hand-written full-match table (rules are anchored: the whole name must match)
	table := map[string]map[string]bool{
		"eth.*":     {"eth0": true, "eth": true},
		"docker0":   {"docker0": true},
		"tun[0-9]+": {"tun1": true, "tun12": true},
	}
	cidrs := []map[string]bool{nil, {"10.0.0.0/8": false}, {"0.0.0.0/0": false, "10.1.0.0/16": true}}
	A := netip.MustParseAddr
	addrs := []netip.Addr{A("10.1.1.1"), A("10.2.0.1"), A("8.8.8.8")}

	type rule struct {
		pat string
		val bool
	}
	var ruleSets [][]rule
	ruleSets = append(ruleSets, nil)
	for _, p := range patterns {
		for _, v := range []bool{true, false} {
			ruleSets = append(ruleSets, []rule{{p, v}})
		}
	}
	for i := 0; i < len(patterns); i++ {
		for j := i + 1; j < len(patterns); j++ {
			for _, v1 := range []bool{true, false} {
				for _, v2 := range []bool{true, false} {
					ruleSets = append(ruleSets, []rule{{patterns[i], v1}, {patterns[j], v2}})
				}
			}
		}
	}
	var matched, unmatched, refusedMixed int64
	for _, rs := range ruleSets {
		for _, cm := range cidrs {
			cfg := config.NewC(c38Log)
			m := map[string]any{}
			for k, v := range cm {
				m[k] = v
			}
			desc := ""
			if rs != nil {
				im := map[string]any{}
				var ds []string
				for _, r := range rs {
					im[r.pat] = r.val
					ds = append(ds, fmt.Sprintf("%q: %v", r.pat, r.val))
				}
				m["interfaces"] = im
				desc = "interfaces: {" + strings.Join(ds, ", ") + "}"
			}
			desc += " cidrs: " + c38Show(cm)
			cfg.Settings["k"] = m
			size := 100*len(rs) + c38Size(cm)
			mixed := len(rs) == 2 && rs[0].val != rs[1].val
			ref := c38NewRef(cm)
			lal, err := NewLocalAllowListFromConfig(cfg, "k")
			t.evals++
			t.lists++
			if (err != nil) != (mixed || ref.loadErr) {
				d := map[string]any{"config": desc}
				if err != nil {
					d["load_error"] = err.Error()
				}
				if mixed {
					t.report("NewLocalAllowListFromConfig: interface rules with different values are accepted", size, d)
				} else {
					t.report("NewLocalAllowListFromConfig: refuses interface rules that share one value", size, d)
				}
				continue
			}
			if err != nil {
				t.loadErr++
				refusedMixed++
				t.distinct["local-refused|"+desc] = struct{}{}
				continue
			}
			t.loadOK++
			for _, n := range names {
				want := true
				hit := false
				if len(rs) > 0 {
					want = !rs[0].val
					for _, r := range rs {
						if table[r.pat][n] {
							want, hit = r.val, true
						}
					}
				}
				got := lal.AllowName(n)
				t.evals++
				if got {
					t.allowTrue++
				} else {
					t.allowFalse++
				}
				if hit {
					matched++
					t.distinct["local|"+desc] = struct{}{}
				} else if len(rs) > 0 {
					unmatched++
				}
				if got != want {
					sig := "LocalAllowList.AllowName: unmatched name does not get the opposite of the rules' value"
					if hit {
						sig = "LocalAllowList.AllowName: matching name does not get the rule's value"
					} else if len(rs) == 0 {
						sig = "LocalAllowList.AllowName: name refused although no interface rule is configured"
					} else {
						for _, r := range rs {
							if strings.Contains(n, strings.TrimSuffix(strings.TrimSuffix(r.pat, ".*"), "[0-9]+")) {
								sig = "LocalAllowList.AllowName: a rule matches only part of the interface name (rules must match the whole name)"
							}
						}
					}
					t.report(sig, size+len(n), map[string]any{"config": desc, "name": n, "impl": got, "reference": want})
				}
			}
			// the CIDR part of a local allow list is an ordinary allow list (the interfaces key is not a CIDR)
			for _, a := range addrs {
				want, asserted := true, true
				if cm != nil {
					want, asserted = ref.allow(a)
				}
				if !asserted {
					continue
				}
				t.evals++
				if got := lal.Allow(a); got != want {
					t.report("LocalAllowList.Allow: CIDR answer differs from the reference when interface rules are present", size, map[string]any{"config": desc, "address": a.String(), "impl": got, "reference": want})
				}
			}
		}
	}
	c.Require(matched > 0 && unmatched > 0 && refusedMixed > 0, "interface rules: matched / unmatched names / refused mixed sets: %d / %d / %d", matched, unmatched, refusedMixed)
	c.Set("interface_rule_sets", len(ruleSets))
	c.Set("interface_names_matched", matched)
	c.Set("interface_names_unmatched", unmatched)
	c.Set("interface_rule_sets_refused_mixed", refusedMixed)
}
