//go:build verif

package nebula

import (
	"fmt"
	"log/slog"
	"testing"

	"github.com/slackhq/nebula/firewall"
	"github.com/slackhq/nebula/zzverif/mc"
)

// C17 — overlay source and destination addresses are authentic, regardless of rules and conntrack state.
//
// Fully enumerated box (E3): node certificates x peer certificates (single address = the fast path, many addresses
// inside/outside the node's networks, unsafe networks) x rule sets (incl. allow-everything) x connection-tracking
// states (empty, filled by the legitimate traffic of every peer, every tuple present, stale rules version; with and
// without the routine-local cache, empty or pre-filled) x every packet over a small address universe.
// Oracle = the statement, one-directional: Drop()==nil  =>  remote and local address are authentic
// (c16RefAuthentic in c16_test.go is the transcription). Nothing is demanded about packets that are dropped.

type c17State struct {
	Label string
	// how the conntrack table / routine-local cache are prepared before probing
	Conntrack string // empty | legit | all | all-stale
	Cache     string // nil | empty | legit | all
}

func c17Authentic(n c16Node, p *c16Peer, pkt firewall.Packet) (bool, bool) {
	r1, l1 := c16RefAuthentic(n, p, pkt)
	// weak reading: an IPv4-mapped IPv6 address is the same host as its IPv4 form
	u := pkt
	u.RemoteAddr, u.LocalAddr = pkt.RemoteAddr.Unmap(), pkt.LocalAddr.Unmap()
	r2, l2 := c16RefAuthentic(n, p, u)
	return r1 || r2, l1 || l2
}

func TestVerifC17(t *testing.T) {
	c := mc.Begin(t, "C17", "exploration")
	defer c.End()
	l := slog.New(slog.DiscardHandler)
	cp := c16CAPool()

	c.Assume("one-directional oracle: only packets that Drop lets through are judged; whether an authentic packet is admitted is C16's subject")
	c.Assume("an IPv4-mapped IPv6 address is treated as equal to its IPv4 form by the reference (weaker reading); the implementation may also refuse it")
	c.Assume("conntrack / routine-local cache states 'all' and 'all-stale' are written into the private maps directly (the statement quantifies over every state); 'legit' states are produced by real Drop calls of every peer")
	c.Assume("observation point is Firewall.Drop with HostInfo built by the production HostInfo.buildNetworks; the e2e tun path is not driven here")

	universe := c16Addrs("10.0.0.1", "10.0.0.2", "10.0.0.3", "10.0.0.77", "10.0.1.2", "172.16.0.7", "172.17.0.5", "192.168.9.9",
		"fd00::1", "fd00::2", "::ffff:10.0.0.2")
	if c.Thorough() {
		universe = append(universe, c16Addrs("10.0.0.0", "10.0.0.255", "172.16.255.255", "172.18.0.1", "fd00::77", "fd01::2", "::ffff:10.0.0.1", "0.0.0.0", "::")...)
	}

	v4 := c16Prefixes("10.0.0.1/24")
	dual := c16Prefixes("10.0.0.1/24", "fd00::1/64")
	un := c16Prefixes("172.16.0.0/16")
	nodes := []c16Node{
		{"v4", v4, nil, false},
		{"v4+unsafe", v4, un, false},
		{"dual", dual, nil, false},
		{"dual+unsafe", dual, un, false},
	}
	if c.Thorough() {
		nodes = append(nodes, c16Node{"v4+unsafe+default_local_cidr_any", v4, un, true})
	}

	peers := []c16Peer{
		{Name: "p1", Shape: "single address in my network (fast path)", Networks: c16Prefixes("10.0.0.2/24")},
		{Name: "p2", Shape: "single address in my network (fast path), other host", Networks: c16Prefixes("10.0.0.3/24")},
		{Name: "p3", Shape: "v4+v6 addresses", Networks: c16Prefixes("10.0.0.2/24", "fd00::2/64")},
		{Name: "p4", Shape: "single address outside my networks", Networks: c16Prefixes("10.0.1.2/24")},
		{Name: "p5", Shape: "address + unsafe network", Networks: c16Prefixes("10.0.0.2/24"), Unsafe: c16Prefixes("172.17.0.0/16")},
		{Name: "p6", Shape: "two addresses, first outside my networks", Networks: c16Prefixes("10.0.1.2/24", "10.0.0.3/24")},
		{Name: "p7", Shape: "unsafe network overlapping my overlay network", Networks: c16Prefixes("10.0.0.3/24"), Unsafe: c16Prefixes("10.0.0.0/30")},
		{Name: "p8", Shape: "v6 only", Networks: c16Prefixes("fd00::2/64")},
		{Name: "p9", Shape: "two addresses inside my network", Networks: c16Prefixes("10.0.0.2/24", "10.0.0.3/24")},
		{Name: "p10", Shape: "unsafe network 0.0.0.0/0", Networks: c16Prefixes("10.0.0.3/24"), Unsafe: c16Prefixes("0.0.0.0/0")},
	}
	for i := range peers {
		peers[i].Groups = []string{"g1"}
		peers[i].Issuer = "sha1"
	}

	allow := func(in bool, local string) c16Rule {
		return c16Rule{Incoming: in, Proto: "any", PortKind: c16PortAny, Host: "any", LocalCidr: local}.prep()
	}
	cidr := func(in bool, cidr string) c16Rule {
		return c16Rule{Incoming: in, Proto: "any", PortKind: c16PortAny, Cidr: cidr, LocalCidr: "any"}.prep()
	}
	ruleSets := []struct {
		Label string
		Rules []c16Rule
	}{
		{"allow everything (host any, local_cidr any)", []c16Rule{allow(true, "any"), allow(false, "any")}},
		{"allow everything, default local_cidr", []c16Rule{allow(true, ""), allow(false, "")}},
		{"no rules", nil},
		{"rules naming the spoofed addresses (cidr 10.0.0.3/32, 10.0.0.77/32, 192.168.9.9/32, 0.0.0.0/0, ::/0)", []c16Rule{
			cidr(true, "10.0.0.3/32"), cidr(true, "10.0.0.77/32"), cidr(true, "192.168.9.9/32"), cidr(true, "0.0.0.0/0"), cidr(true, "::/0"),
			cidr(false, "10.0.0.3/32"), cidr(false, "0.0.0.0/0"), cidr(false, "::/0")}},
	}

	states := []c17State{
		{"empty conntrack, no cache", "empty", "nil"},
		{"empty conntrack, empty cache", "empty", "empty"},
		{"conntrack filled by every peer's legitimate traffic, no cache", "legit", "nil"},
		{"conntrack and cache filled by every peer's legitimate traffic", "legit", "legit"},
		{"empty conntrack, cache filled by every peer's legitimate traffic", "empty", "legit"},
		{"every tuple tracked, no cache", "all", "nil"},
		{"every tuple tracked under an older rules version (revalidation path)", "all-stale", "nil"},
		{"empty conntrack, every tuple in the cache", "empty", "all"},
	}

	protos := []uint8{firewall.ProtoTCP, firewall.ProtoUDP, firewall.ProtoICMP, firewall.ProtoICMPv6, 47}
	ports := [][2]uint16{{80, 1000}, {1000, 80}}
	frags := []bool{false, true}
	if c.Thorough() {
		ports = append(ports, [2]uint16{0, 0})
	}
	var probes []c16Probe
	for _, ra := range universe {
		for _, la := range universe {
			for _, proto := range protos {
				for _, pp := range ports {
					for _, fr := range frags {
						for _, inc := range []bool{true, false} {
							probes = append(probes, c16Probe{firewall.Packet{LocalAddr: la, RemoteAddr: ra, LocalPort: pp[0], RemotePort: pp[1], Protocol: proto, Fragment: fr}, inc})
						}
					}
				}
			}
		}
	}
	c.Set("alphabet", map[string]any{"addresses": len(universe), "nodes": len(nodes), "peers": len(peers), "rule_sets": len(ruleSets), "states": len(states), "packets_with_direction": len(probes)})

	type item struct {
		n  c16Node
		rs int
		st c17State
	}
	var items []item
	for _, n := range nodes {
		for rs := range ruleSets {
			for _, st := range states {
				items = append(items, item{n, rs, st})
			}
		}
	}

	perShapePass := make([]int64, len(peers))
	perShapeAddrDrop := make([]int64, len(peers))
	perShapeAuth := make([]int64, len(peers))
	perStatePass := map[string]int64{}
	var authenticRefused int64
	type res struct {
		evals, pass int64
		shapePass   []int64
		shapeDrop   []int64
		authRefused int64
		item        item
		shapeAuth   []int64
		outcomes    map[string]bool
	}
	results := make([]res, len(items))

	_, done := mc.ParallelItems(len(items), 0, func() bool { return c.OutOfTime() || c.Violations() > 200 }, func(ii int, _ *mc.Enum) {
		it := items[ii]
		r := res{shapePass: make([]int64, len(peers)), shapeDrop: make([]int64, len(peers)), shapeAuth: make([]int64, len(peers)), outcomes: map[string]bool{}, item: it}
		fw := c16NewFirewall(l, it.n)
		for _, rule := range ruleSets[it.rs].Rules {
			if err := rule.addTo(fw, firewall.ProtoICMP); err != nil {
				c.Broken("AddRule: %v", err)
			}
		}
		hosts := make([]*HostInfo, len(peers))
		for i, p := range peers {
			hosts[i] = c16HostInfo(it.n, p)
		}

		// --- prepare the state
		var cache firewall.ConntrackCache
		legitCache := firewall.ConntrackCache{}
		if it.st.Conntrack == "legit" || it.st.Cache == "legit" {
			for i := range peers {
				for _, pr := range probes {
					_ = fw.Drop(pr.Pkt, pr.Incoming, hosts[i], cp, legitCache)
				}
			}
		}
		switch it.st.Conntrack {
		case "empty":
			fw.Conntrack.Conns = map[firewall.Packet]*conn{}
		case "all", "all-stale":
			if it.st.Conntrack == "all-stale" {
				fw.rulesVersion = 7 // entries below carry version 0: Drop must revalidate them against the rules
			}
			for _, pr := range probes {
				fw.Conntrack.Conns[pr.Pkt] = &conn{incoming: pr.Incoming, rulesVersion: 0}
			}
		}
		switch it.st.Cache {
		case "nil":
			cache = nil
		case "empty":
			cache = firewall.ConntrackCache{}
		case "legit":
			cache = legitCache
		case "all":
			cache = firewall.ConntrackCache{}
			for _, pr := range probes {
				cache[pr.Pkt] = struct{}{}
			}
		}

		// --- probe: every peer x every packet x direction; the state is NOT reset between probes (entries made by
		// admitted packets stay, as they would in a running node)
		for i := range peers {
			p := &peers[i]
			for _, pr := range probes {
				// was the tuple known before the call? (only used to name the path in a violation signature)
				_, inCache := cache[pr.Pkt]
				_, inTable := fw.Conntrack.Conns[pr.Pkt]
				via := "tuple not tracked: rule path"
				if inCache {
					via = "tuple in the routine-local cache"
				} else if inTable {
					via = "tuple in the conntrack table"
				}
				hpath := "multi-address/unsafe HostInfo (networks table)"
				if hosts[i].networks == nil {
					hpath = "single-address HostInfo (fast path)"
				}
				err := fw.Drop(pr.Pkt, pr.Incoming, hosts[i], cp, cache)
				r.evals++
				rOK, lOK := c17Authentic(it.n, p, pr.Pkt)
				out := "pass"
				if err != nil {
					out = err.Error()
				}
				if !r.outcomes[out] {
					r.outcomes[out] = true
					c.Distinct("outcomes", out)
				}
				if rOK && lOK {
					r.shapeAuth[i]++
				}
				if err == nil {
					r.pass++
					r.shapePass[i]++
					if !rOK {
						c.Violation(fmt.Sprintf("Drop passes a packet whose remote address is not certified for the peer [%s; %s]", hpath, via),
							c17Detail(it.n, ruleSets[it.rs].Label, it.st, p, pr, "remote", hosts[i]))
					}
					if !lOK {
						c.Violation(fmt.Sprintf("Drop passes a packet whose local address is not the node's [%s]", via),
							c17Detail(it.n, ruleSets[it.rs].Label, it.st, p, pr, "local", hosts[i]))
					}
				} else {
					if err == ErrInvalidRemoteIP || err == ErrPeerRejected || err == ErrInvalidLocalIP {
						r.shapeDrop[i]++
					}
					if rOK && lOK && it.rs == 0 && !pr.Pkt.RemoteAddr.Is4In6() && !pr.Pkt.LocalAddr.Is4In6() {
						r.authRefused++ // informational (C16's subject): authentic (non-mapped) packet refused under allow-everything
					}
				}
			}
		}
		results[ii] = r
	})
	if !done {
		c.Capped("stopped early (time budget or too many violations)")
	}

	var evals, pass int64
	for _, r := range results {
		evals += r.evals
		pass += r.pass
		authenticRefused += r.authRefused
		for i := range r.shapePass {
			perShapePass[i] += r.shapePass[i]
			perShapeAddrDrop[i] += r.shapeDrop[i]
			perShapeAuth[i] += r.shapeAuth[i]
		}
		if r.evals > 0 && r.item.rs == 0 {
			perStatePass[r.item.st.Label] += r.pass
		}
	}
	if done && c.Violations() == 0 {
		for i, p := range peers {
			// a peer without any address inside the node's networks (p4) has no authentic packet at all: nothing may pass
			c.Require((perShapePass[i] > 0) == (perShapeAuth[i] > 0), "peer %s (%s): passes=%d but authentic packets=%d", p.Name, p.Shape, perShapePass[i], perShapeAuth[i])
			c.Require(perShapeAddrDrop[i] > 0, "peer %s (%s): no packet ever dropped for its addresses", p.Name, p.Shape)
		}
		for _, st := range states {
			c.Require(perStatePass[st.Label] > 0, "state %q: nothing passes under allow-everything", st.Label)
		}
		c.Require(c.DistinctCount("outcomes") >= 5, "expected pass + 4 kinds of refusal, saw %d outcomes", c.DistinctCount("outcomes"))
		c.Require(pass > 0 && pass < evals, "both verdicts must occur")
	}
	c.Set("evaluations", evals)
	c.Set("distinct_nontrivial", pass)
	c.Set("rule", "one evaluation = (node certificate, rule set, conntrack/cache state, peer certificate, packet, direction), each enumerated once (product of duplicate-free lists). Non-trivial = Drop returned nil, i.e. the antecedent of the property holds and both addresses are compared with the certificates; the other evaluations are refusals (always acceptable for this property).")
	c.Set("passed", pass)
	c.Set("refused", evals-pass)
	c.Set("authentic_unmapped_but_refused_under_allow_everything", authenticRefused)
	c.Set("passes_per_peer_shape", perShapePass)
	c.Set("authentic_packets_per_peer_shape", perShapeAuth)

	// samples
	n := nodes[1]
	for _, k := range []int{1, len(probes) / 2, len(probes) - 3} {
		p := &peers[k%len(peers)]
		pr := probes[k]
		fw := c16NewFirewall(l, n)
		for _, rule := range ruleSets[0].Rules {
			_ = rule.addTo(fw, firewall.ProtoICMP)
		}
		err := fw.Drop(pr.Pkt, pr.Incoming, c16HostInfo(n, *p), cp, nil)
		rOK, lOK := c17Authentic(n, p, pr.Pkt)
		c.Sample(map[string]any{"node": n.Label, "rules": ruleSets[0].Label, "state": states[0].Label, "peer": p.String(), "packet": c16PktString(pr),
			"drop_result": fmt.Sprint(err), "reference_remote_authentic": rOK, "reference_local_authentic": lOK})
	}
}

func c17Detail(n c16Node, rules string, st c17State, p *c16Peer, pr c16Probe, which string, h *HostInfo) map[string]any {
	return map[string]any{
		"node_networks": fmt.Sprint(n.Networks), "node_unsafe_networks": fmt.Sprint(n.Unsafe), "rules": rules,
		"state": st, "peer": p.String(), "peer_shape": p.Shape, "packet": c16PktString(pr), "offending_address": which,
		"hostinfo_fast_path": h.networks == nil, "impl": "Drop returned nil",
	}
}
