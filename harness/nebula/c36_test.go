//go:build verif

package nebula

import (
	"crypto/sha256"
	"encoding/hex"
	"encoding/json"
	"fmt"
	"hash"
	"net/netip"
	"os"
	"os/exec"
	"path/filepath"
	"runtime"
	"sort"
	"strconv"
	"strings"
	"sync"
	"syscall"
	"testing"
	"time"

	"github.com/slackhq/nebula/header"
	"github.com/slackhq/nebula/zzverif/mc"
	"github.com/slackhq/nebula/zzverif/vtime"
)

// C36 — unusable underlay addresses are never used.
//
// E4: one driven REAL node "me" (recording socket) in a goroutine-free network with a real lighthouse L, a real peer P
// and a real bystander W (the "wrong host": it answers handshakes that were meant for P). Explicit-state BFS by replay:
// a state is the event history that reaches it; every history is executed on freshly assembled real nodes on the virtual
// clock. The configuration (my overlay networks, remote_allow_list / remote_allow_ranges, role client|lighthouse,
// static_host_map / calculated_remotes for P) is fixed per history and enumerated as an outer alphabet; every
// configuration is searched in its own worker process (the virtual clock and crypto/rand are process-global), from
// several seed prefixes.
//
// Address sources exercised: HostQueryReply from L (0..12 addresses per family incl. addresses inside my networks,
// denied globally, denied for P's overlay range, W's address), HostUpdateNotification from P when I am a lighthouse,
// static_host_map, calculated_remotes, the remote learned from an inbound handshake, roaming, DNS result sets (stored
// into hostnamesResults exactly as the resolver goroutine + its onUpdate callback do), HostPunchNotification, and the
// wrong-responder block. The sources that can carry one (V6AddrPorts of the three lighthouse messages, bracketed
// static_host_map literals) also supply IPv4-mapped IPv6 forms (::ffff:a.b.c.d) of unusable and of usable IPv4
// addresses; the oracle judges every destination and every offered address as the address the datagram goes to on the
// wire (c36Norm), whatever form the node holds it in. They are interleaved with handshake timer ticks, re-handshakes, data sends (with path
// promotion probing on every packet), connection-manager ticks (keep-alive punches to all remotes), punch jobs, tunnel
// close (P and the static lighthouse) and loss / reordering of the in-flight datagrams.
//
// Stale addresses: list K7 reports thirteen addresses (7 IPv4 + 6 IPv6, each family within one source's ten-address
// budget, next to P's static / calculated / learned candidates) that are usable under every allow list but now belong to
// the wrong host W, which answers from whichever address it was reached at. The compound event "wrongs" lets W answer
// at every candidate it lives at, one address per handshake round, while P's own datagrams stay in flight: more
// addresses of one peer are blocked at once than any single source may supply, with no completed handshake in between.
// The reference's blocked set is the harness's own record of the wrong-host answers it delivered.
//
// Oracle (independent reference: bit-loop prefix match, naive longest-prefix allow list): EVERY datagram me writes and
// every address offered by RemoteList.CopyAddrs of every remote list reachable from me must be outside my overlay
// networks, allowed by remote_allow_list and by the remote_allow_ranges entry of the peer's overlay address, and not
// blocked for the handshake in progress; no owner keeps more than ten reported addresses per family; static hosts keep
// exactly their configured (usable) addresses in every state.

// ---------------------------------------------------------------------------------------------------------------
// topology and address alphabet

func c36AP(s string) netip.AddrPort { return netip.MustParseAddrPort(s) }

var (
	c36MeVpn = netip.MustParseAddr("10.77.0.1")
	c36PVpn  = netip.MustParseAddr("10.77.0.2")
	c36WVpn  = netip.MustParseAddr("10.77.0.3")
	c36LVpn  = netip.MustParseAddr("10.77.0.9")
	// two-address configurations: P's certificate carries a second overlay address in another overlay network that I am
	// part of as well; the two addresses fall into different remote_allow_ranges blocks (A5 / A6)
	c36P2Vpn  = netip.MustParseAddr("10.99.0.2")
	c36Me2Vpn = netip.MustParseAddr("10.99.0.1")

	c36MeUDP = c36AP("192.0.2.1:4242")
	c36PUDP  = c36AP("192.0.2.2:4242")
	c36WUDP  = c36AP("192.0.2.3:4242")
	c36LUDP  = c36AP("192.0.2.9:4242")

	// addresses that may be claimed for P (never for L)
	c36PAlt  = c36AP("192.0.2.22:4242")  // allowed everywhere, nobody lives there (inside preferred_ranges)
	c36PAlt2 = c36AP("192.0.2.23:4243")  // allowed everywhere: used as handshake source / roaming source
	c36PHi   = c36AP("192.0.2.130:4242") // denied only by the A4 range list and by the block of P's second overlay address (A5, A6)
	c36D4a   = c36AP("198.51.100.3:4242")
	c36D4b   = c36AP("198.51.100.2:4242") // allowed by the /32 exception of A3 only
	c36R4    = c36AP("203.0.113.2:4242")  // denied for P's overlay range in A2, by the default of A4; in A5/A6 for P's first address only
	c36I4    = c36AP("10.77.0.50:4242")   // inside my overlay network
	c36I4c   = c36AP("10.77.0.130:4242")  // inside my overlay network (what calculated_remotes produces)
	c36G6    = c36AP("[2001:db8::2]:4242")
	c36D6a   = c36AP("[2001:db8:dead::3]:4242")
	c36D6b   = c36AP("[2001:db8:dead::2]:4242")
	c36R6    = c36AP("[2001:db8:beef::2]:4242")
	c36PHi2  = c36AP("192.0.2.131:4242")  // like PHi, but never reported / configured: only a source address of P's packets
	c36R4b   = c36AP("203.0.113.3:4242")  // like R4, but never reported / configured
	c36H6    = c36AP("[2001:db8:f00d::2]:4242") // denied only by the block of P's second overlay address (A5, A6)
	c36I6    = c36AP("[fd77::50]:4242") // inside my overlay network when I have the v6 network
	c36SStat = c36AP("192.0.2.61:4242") // only in static_host_map
	c36SDns  = c36AP("192.0.2.62:4242") // only in DNS result sets
	c36SCalc = c36AP("192.0.2.66:4242") // only produced by calculated_remotes
	// addresses that may be claimed for L (disjoint from P's: the peer of a destination is known from the address)
	c36LGood = c36AP("192.0.2.99:4242")
	c36LDen  = c36AP("198.51.100.9:4242")
	c36LIn   = c36AP("10.77.0.59:4242")
)

// c36Mapped is the IPv4-mapped IPv6 form (::ffff:a.b.c.d) of an IPv4 underlay address: what a V6AddrPorts entry of a
// lighthouse message or a bracketed static_host_map literal can carry. A datagram written to it goes to a.b.c.d (every
// udp backend unmaps / the dual-stack socket routes it to IPv4), so it denotes the IPv4 address.
func c36Mapped(a netip.AddrPort) netip.AddrPort {
	return netip.AddrPortFrom(netip.AddrFrom16(a.Addr().As16()), a.Port())
}

// c36Norm is the underlay address a destination really denotes on the wire: the oracle judges every destination and every
// offered address in this form, whatever form the node holds it in.
func c36Norm(a netip.AddrPort) netip.AddrPort {
	if !a.Addr().Is4In6() {
		return a
	}
	b := a.Addr().As16()
	return netip.AddrPortFrom(netip.AddrFrom4([4]byte{b[12], b[13], b[14], b[15]}), a.Port())
}

func c36IsMapped(a netip.AddrPort) bool { return a.Addr().Is4In6() }

var c36SStatM = c36AP("192.0.2.63:4242") // usable; only in static_host_map, and only written as a mapped literal

func c36Fill4(k int) netip.AddrPort { return c36AP(fmt.Sprintf("192.0.2.%d:4242", 40+k)) }
func c36Fill6(k int) netip.AddrPort { return c36AP(fmt.Sprintf("[2001:db8::1:%x]:4242", k)) }

// Stale addresses: underlay addresses that once were P's and now belong to another nebula host (address reuse): the wrong
// host W is reachable there as well as at its own address, and answers from the address it was reached at. Usable under
// every allow list of the alphabet and outside my networks, so the only thing that can make them unusable is the block.
func c36Stale4(k int) netip.AddrPort { return c36AP(fmt.Sprintf("192.0.2.%d:4242", 80+k)) }
func c36Stale6(k int) netip.AddrPort { return c36AP(fmt.Sprintf("[2001:db8::2:%x]:4242", k+1)) }

const (
	c36NStale4 = 7 // K7: seven IPv4 + six IPv6 stale addresses: each family within the ten-address budget of one
	c36NStale6 = 6 // information source, thirteen candidates for the peer (next to its static / calculated / learned ones)
)

func c36IsStale(a netip.AddrPort) bool {
	for k := 0; k < c36NStale4; k++ {
		if a == c36Stale4(k) {
			return true
		}
	}
	for k := 0; k < c36NStale6; k++ {
		if a == c36Stale6(k) {
			return true
		}
	}
	return false
}

// c36IsWAddr: an underlay address at which the wrong host answers.
const c36PerSourceCap = 10 // "each information source contributes at most ten addresses per peer"

func c36IsWAddr(a netip.AddrPort) bool { return a == c36WUDP || c36IsStale(a) }

type c36AddrList struct {
	v4, v6 []netip.AddrPort
}

var c36Lists = func() map[string]c36AddrList {
	l := map[string]c36AddrList{
		"K0": {},
		"K1": {v4: []netip.AddrPort{c36PUDP}},
		// the V6AddrPorts of the mixed list start with the mapped forms of the unusable IPv4 addresses (ten entries: all are looked at)
		"K2": {v4: []netip.AddrPort{c36I4, c36D4a, c36D4b, c36R4, c36PHi, c36PAlt, c36PUDP},
			v6: []netip.AddrPort{c36Mapped(c36I4), c36Mapped(c36D4a), c36Mapped(c36R4), c36Mapped(c36PHi), c36I6, c36D6a, c36D6b, c36R6, c36H6, c36G6}},
		"K4": {v4: []netip.AddrPort{c36WUDP}},
		"K6": {v4: []netip.AddrPort{c36WUDP, c36PUDP}}, // the wrong host and the right one: delivery order decides who answers first
		"KL": {v4: []netip.AddrPort{c36LIn, c36LDen, c36LGood}},
	}
	var k3, k5 c36AddrList
	for k := 0; k < 12; k++ {
		k3.v4 = append(k3.v4, c36Fill4(k))
		if k == 1 {
			k3.v6 = append(k3.v6, c36Mapped(c36Fill4(1))) // a usable IPv4 address in mapped form: kept, and used as IPv4
		} else {
			k3.v6 = append(k3.v6, c36Fill6(k))
		}
	}
	// eleven entries: nine fillers, one inside my networks, the real one last (must fall off the end)
	for k := 0; k < 9; k++ {
		k5.v4 = append(k5.v4, c36Fill4(k))
	}
	k5.v4 = append(k5.v4, c36I4, c36PUDP)
	l["K3"], l["K5"] = k3, k5
	// thirteen usable-looking addresses, every one of them answered by the wrong host
	var k7 c36AddrList
	for k := 0; k < c36NStale4; k++ {
		k7.v4 = append(k7.v4, c36Stale4(k))
	}
	for k := 0; k < c36NStale6; k++ {
		k7.v6 = append(k7.v6, c36Stale6(k))
	}
	l["K7"] = k7
	return l
}()

var c36DnsSet = []netip.AddrPort{c36SDns, c36D4b, c36I4, c36R4, c36PHi, c36D6b, c36I6}
var c36StaticP = []netip.AddrPort{c36PUDP, c36SStat, c36D4a, c36I4, c36R4, c36PHi, c36D6a, c36I6,
	// bracketed literals "[::ffff:a.b.c.d]:port": one usable address and three unusable ones
	c36Mapped(c36SStatM), c36Mapped(c36I4), c36Mapped(c36D4a), c36Mapped(c36R4), c36Mapped(c36PHi)}
var c36CalcP = []netip.AddrPort{c36SCalc, c36D4b, c36I4c, c36R4, c36PHi}

// ---------------------------------------------------------------------------------------------------------------
// reference: prefix containment by bit loop, allow list by naive longest prefix

func c36AddrBytes(a netip.Addr) []byte {
	if a.Is4() {
		b := a.As4()
		return b[:]
	}
	b := a.As16()
	return b[:]
}

func c36In(p netip.Prefix, a netip.Addr) bool {
	if p.Addr().Is4() != a.Is4() {
		return false
	}
	pb, ab := c36AddrBytes(p.Addr()), c36AddrBytes(a)
	for i := 0; i < p.Bits(); i++ {
		if (pb[i/8]>>(7-uint(i%8)))&1 != (ab[i/8]>>(7-uint(i%8)))&1 {
			return false
		}
	}
	return true
}

type c36Rule struct {
	p netip.Prefix
	v bool
}

type c36List struct{ rules []c36Rule }

func c36NewList(mm map[string]bool) *c36List {
	if mm == nil {
		return nil
	}
	l := &c36List{}
	keys := make([]string, 0, len(mm))
	for k := range mm {
		keys = append(keys, k)
	}
	sort.Strings(keys)
	for _, k := range keys {
		l.rules = append(l.rules, c36Rule{netip.MustParsePrefix(k), mm[k]})
	}
	return l
}

// allow: value of the most specific matching entry; a family without a zero-length entry defaults to the opposite of its
// (uniform) configured values. Every list of the alphabet configures both families (the statement is silent otherwise).
func (l *c36List) allow(a netip.Addr) bool {
	if l == nil {
		return true
	}
	best, val := -1, false
	n, anyTrue := 0, false
	for _, r := range l.rules {
		if r.p.Addr().Is4() != a.Is4() {
			continue
		}
		n++
		anyTrue = anyTrue || r.v
		if c36In(r.p, a) && r.p.Bits() > best {
			best, val = r.p.Bits(), r.v
		}
	}
	if best >= 0 {
		return val
	}
	if n == 0 {
		panic("c36: allow-list alphabet must configure both families")
	}
	return !anyTrue
}

type c36Range struct {
	p    netip.Prefix
	list *c36List
}

type c36Ref struct {
	myNets []netip.Prefix
	global *c36List
	ranges []c36Range
}

func (r *c36Ref) inside(a netip.Addr) bool {
	for _, p := range r.myNets {
		if c36In(p, a) {
			return true
		}
	}
	return false
}

// refusal names why an underlay address is unusable for a peer owning vpnAddrs ("" = usable).
func (r *c36Ref) refusal(vpnAddrs []netip.Addr, a netip.Addr) string {
	if r.inside(a) {
		return "inside"
	}
	if !r.global.allow(a) {
		return "denied-global"
	}
	for _, v := range vpnAddrs {
		best := -1
		var bl *c36List
		for _, rg := range r.ranges {
			if c36In(rg.p, v) && rg.p.Bits() > best {
				best, bl = rg.p.Bits(), rg.list
			}
		}
		if best >= 0 && !bl.allow(a) {
			return "denied-range"
		}
	}
	return ""
}

var c36ReasonText = map[string]string{
	"inside":        "inside the node's own overlay networks",
	"denied-global": "denied by remote_allow_list",
	"denied-range":  "denied by remote_allow_ranges for the peer's overlay range",
	"denied-range-cert": "denied by remote_allow_ranges for the range of another overlay address in the peer's certificate",
	"blocked":       "blocked after a wrong host answered the handshake in progress",
}

// ---------------------------------------------------------------------------------------------------------------
// configuration alphabet

type c36Allow struct {
	Name   string
	Global map[string]bool
	Ranges map[string]map[string]bool
}

var c36Allows = []c36Allow{
	{Name: "A0-none"},
	{Name: "A1-deny", Global: map[string]bool{"198.51.100.0/24": false, "2001:db8:dead::/48": false}},
	{Name: "A2-deny+range", Global: map[string]bool{"198.51.100.0/24": false, "2001:db8:dead::/48": false},
		Ranges: map[string]map[string]bool{"10.77.0.2/31": {"203.0.113.0/24": false, "2001:db8:beef::/48": false}}},
	{Name: "A3-nested", Global: map[string]bool{"0.0.0.0/0": true, "198.51.100.0/24": false, "198.51.100.2/32": true,
		"::/0": true, "2001:db8:dead::/48": false, "2001:db8:dead::2/128": true}},
	{Name: "A4-allowonly+range", Global: map[string]bool{"192.0.2.0/24": true, "2001:db8::/32": true},
		Ranges: map[string]map[string]bool{"10.77.0.0/24": {"192.0.2.0/25": true, "2001:db8::/32": true}}},
	// two blocks, one per overlay address of a two-address peer: 203.0.113.0/24 + beef::/48 are denied for the first address
	// only, 192.0.2.128/25 + f00d::/48 for the second address only (deny lists / allow-only lists)
	{Name: "A5-deny+2ranges", Global: map[string]bool{"198.51.100.0/24": false, "2001:db8:dead::/48": false},
		Ranges: map[string]map[string]bool{"10.77.0.2/31": {"203.0.113.0/24": false, "2001:db8:beef::/48": false},
			"10.99.0.0/24": {"192.0.2.128/25": false, "2001:db8:f00d::/48": false}}},
	{Name: "A6-allowonly+2ranges", Global: map[string]bool{"192.0.2.0/24": true, "203.0.113.0/24": true, "2001:db8::/32": true},
		Ranges: map[string]map[string]bool{"10.77.0.0/24": {"192.0.2.0/24": true, "2001:db8::/32": true},
			"10.99.0.0/24": {"192.0.2.0/25": true, "203.0.113.0/24": true, "2001:db8::/48": true}}},
}

// allow lists of the single-address alphabet / of the two-address alphabet
var c36AllowsSingle = []int{0, 1, 2, 3, 4}
var c36AllowsMulti = []int{5, 6}

const (
	c36SrcPlain  = 0
	c36SrcStatic = 1 // P is a static host (usable + unusable configured addresses); DNS result events enabled
	c36SrcCalc   = 2 // calculated_remotes for my /24
)

type c36Cfg struct {
	Lighthouse bool
	V6         bool
	Allow      int
	Src        int
	Multi      bool // P's certificate carries two overlay addresses (10.77.0.2 and 10.99.0.2; I am in both networks)
	Alias2     bool // I address P by its second overlay address (tun packets, queries, static_host_map key); client role only
}

func (g c36Cfg) String() string {
	role, nets := "client", "v4"
	if g.Lighthouse {
		role = "lighthouse"
	}
	if g.V6 {
		nets = "v4+v6"
	}
	s := fmt.Sprintf("%s/%s/%s/%s", role, nets, c36Allows[g.Allow].Name, []string{"plain", "staticP", "calc"}[g.Src])
	if g.Multi {
		s += "/P=2addr,known-by-" + g.alias().String()
	}
	return s
}

// alias is the overlay address by which I address P; pAddrs is what P's certificate carries (sorted, as certificates are).
func (g c36Cfg) alias() netip.Addr {
	if g.Alias2 {
		return c36P2Vpn
	}
	return c36PVpn
}

func (g c36Cfg) pAddrs() []netip.Addr {
	if g.Multi {
		return []netip.Addr{c36PVpn, c36P2Vpn}
	}
	return []netip.Addr{c36PVpn}
}

func c36AllCfgs() []c36Cfg {
	var out []c36Cfg
	for _, lhRole := range []bool{false, true} {
		for _, v6 := range []bool{true, false} {
			for _, a := range c36AllowsSingle {
				for src := 0; src < 3; src++ {
					out = append(out, c36Cfg{Lighthouse: lhRole, V6: v6, Allow: a, Src: src})
				}
			}
		}
	}
	// two-address peer (appended: the indexes of the single-address configurations are stable)
	for _, lhRole := range []bool{false, true} {
		for _, v6 := range []bool{true, false} {
			for _, a := range c36AllowsMulti {
				for src := 0; src < 3; src++ {
					out = append(out, c36Cfg{Lighthouse: lhRole, V6: v6, Allow: a, Src: src, Multi: true})
					if !lhRole {
						out = append(out, c36Cfg{Lighthouse: lhRole, V6: v6, Allow: a, Src: src, Multi: true, Alias2: true})
					}
				}
			}
		}
	}
	return out
}

// c36QuickCfgs: a covering subset (every allow list, both roles, both network sets, every source kind).
func c36QuickCfgs() []c36Cfg {
	return []c36Cfg{
		{Lighthouse: false, V6: true, Allow: 2, Src: c36SrcPlain},
		{Lighthouse: false, V6: true, Allow: 3, Src: c36SrcStatic},
		{Lighthouse: false, V6: true, Allow: 1, Src: c36SrcCalc},
		{Lighthouse: false, V6: false, Allow: 0, Src: c36SrcPlain},
		{Lighthouse: false, V6: true, Allow: 4, Src: c36SrcStatic},
		{Lighthouse: true, V6: true, Allow: 2, Src: c36SrcPlain},
		{Lighthouse: true, V6: true, Allow: 3, Src: c36SrcCalc},
		{Lighthouse: false, V6: false, Allow: 2, Src: c36SrcCalc},
		{Lighthouse: true, V6: false, Allow: 2, Src: c36SrcStatic},
		{Lighthouse: false, V6: true, Allow: 4, Src: c36SrcPlain},
		// two-address peer: both block styles, both aliases, every source kind, both roles
		{Lighthouse: false, V6: true, Allow: 5, Src: c36SrcPlain, Multi: true},
		{Lighthouse: false, V6: true, Allow: 5, Src: c36SrcStatic, Multi: true, Alias2: true},
		{Lighthouse: false, V6: false, Allow: 6, Src: c36SrcStatic, Multi: true},
		{Lighthouse: true, V6: true, Allow: 5, Src: c36SrcPlain, Multi: true},
		{Lighthouse: false, V6: false, Allow: 5, Src: c36SrcCalc, Multi: true, Alias2: true},
		{Lighthouse: false, V6: true, Allow: 6, Src: c36SrcPlain, Multi: true, Alias2: true},
	}
}

func (g c36Cfg) ref() *c36Ref {
	r := &c36Ref{myNets: []netip.Prefix{netip.MustParsePrefix("10.77.0.0/24")}}
	if g.V6 {
		r.myNets = append(r.myNets, netip.MustParsePrefix("fd77::/64"))
	}
	if g.Multi {
		r.myNets = append(r.myNets, netip.MustParsePrefix("10.99.0.0/24"))
	}
	al := c36Allows[g.Allow]
	r.global = c36NewList(al.Global)
	keys := make([]string, 0)
	for k := range al.Ranges {
		keys = append(keys, k)
	}
	sort.Strings(keys)
	for _, k := range keys {
		r.ranges = append(r.ranges, c36Range{netip.MustParsePrefix(k), c36NewList(al.Ranges[k])})
	}
	return r
}

func c36BoolMap(mm map[string]bool) m {
	out := m{}
	for k, v := range mm {
		out[k] = v
	}
	return out
}

func c36Strs(xs []netip.AddrPort) []string {
	out := make([]string, len(xs))
	for i, x := range xs {
		out[i] = x.String()
	}
	return out
}

func (g c36Cfg) specs() []vnodeSpec {
	nets := "10.77.0.1/24"
	if g.V6 {
		nets += ",fd77::1/64"
	}
	pnets := "10.77.0.2/24"
	if g.Multi {
		nets += "," + c36Me2Vpn.String() + "/24"
		pnets += "," + c36P2Vpn.String() + "/24"
	}
	lhm := m{}
	al := c36Allows[g.Allow]
	if al.Global != nil {
		lhm["remote_allow_list"] = c36BoolMap(al.Global)
	}
	if al.Ranges != nil {
		rr := m{}
		for k, v := range al.Ranges {
			rr[k] = c36BoolMap(v)
		}
		lhm["remote_allow_ranges"] = rr
	}
	shm := m{}
	if g.Lighthouse {
		lhm["am_lighthouse"] = true
	} else {
		lhm["hosts"] = []string{c36LVpn.String()}
		shm[c36LVpn.String()] = []string{c36LUDP.String()}
	}
	switch g.Src {
	case c36SrcStatic:
		shm[g.alias().String()] = c36Strs(c36StaticP)
	case c36SrcCalc:
		masks := []m{
			{"mask": "192.0.2.64/26", "port": 4242},   // P -> 192.0.2.66
			{"mask": "198.51.100.0/24", "port": 4242}, // P -> 198.51.100.2
			{"mask": "10.77.0.128/25", "port": 4242},  // P -> 10.77.0.130 (inside my network)
			{"mask": "203.0.113.0/24", "port": 4242},  // P -> 203.0.113.2
			{"mask": "192.0.2.128/25", "port": 4242},  // P -> 192.0.2.130
		}
		cr := m{"10.77.0.0/24": masks}
		if g.Multi {
			cr["10.99.0.0/24"] = masks // the same underlay addresses for P's second overlay address (same host bits)
		}
		lhm["calculated_remotes"] = cr
	}
	ov := m{
		"lighthouse":       lhm,
		"static_host_map":  shm,
		"static_map":       m{"network": "ip"},
		"handshakes":       m{"retries": 4},
		"counters":         m{"try_promote": 1},
		"preferred_ranges": []string{"10.77.0.0/24", "198.51.100.0/24", "192.0.2.16/28", "fd77::/64"},
		"punchy":           m{"punch": true, "respond": true, "delay": "1s", "respond_delay": "1s", "target_all_remotes": true},
	}
	me := vnodeSpec{Name: "me", Networks: nets, Udp: c36MeUDP.String(), Overrides: ov}
	meStatic := m{"static_host_map": m{c36MeVpn.String(): []string{c36MeUDP.String()}}}
	p := vnodeSpec{Name: "p", Networks: pnets, Udp: c36PUDP.String(), Overrides: meStatic}
	w := vnodeSpec{Name: "w", Networks: "10.77.0.3/24", Udp: c36WUDP.String()}
	out := []vnodeSpec{me, p, w}
	if !g.Lighthouse {
		out = append(out, vnodeSpec{Name: "l", Networks: "10.77.0.9/24", Udp: c36LUDP.String(), Overrides: m{
			"lighthouse":      m{"am_lighthouse": true},
			"static_host_map": m{c36MeVpn.String(): []string{c36MeUDP.String()}},
		}})
	}
	return out
}

// ---------------------------------------------------------------------------------------------------------------
// statistics (per worker; summed by the parent)

type c36Viol struct {
	Sig    string `json:"sig"`
	Detail any    `json:"detail"`
}

type c36Stats struct {
	N     map[string]int64 `json:"n"`
	Viols []c36Viol        `json:"viols"`
	nviol int
}

func newC36Stats() *c36Stats { return &c36Stats{N: map[string]int64{}} }

func (s *c36Stats) inc(k string) { s.N[k]++ }

func (s *c36Stats) viol(sig string, detail any) {
	s.nviol++
	for _, v := range s.Viols {
		if v.Sig == sig {
			return
		}
	}
	if len(s.Viols) < 40 {
		s.Viols = append(s.Viols, c36Viol{sig, detail})
	}
}

// ---------------------------------------------------------------------------------------------------------------
// world

type c36World struct {
	t        testing.TB
	cfg      c36Cfg
	ref      *c36Ref
	net      *vnet
	me, p, w *vnode
	l        *vnode // nil when I am the lighthouse
	byUDP    map[netip.AddrPort]*vnode
	specs    []vnodeSpec
	inflight []vpkt
	wire     int // number of datagrams ever written
	wireH    hash.Hash
	st       *c36Stats
	hist     []string
	cur      string // event being applied
	alias    netip.Addr   // the overlay address by which I address P
	pAll     []netip.Addr // every overlay address in P's certificate

	// model
	blocked   map[netip.AddrPort]bool       // remotes that answered as the wrong host for the P handshake in progress
	why       map[netip.AddrPort]map[string]bool // which sources have supplied this address in this history
	pTunnels  map[uint32]bool               // local indexes of my tunnels with P seen so far
	afterClose, afterAnswer bool            // static-host judgement context
}

func c36NewWorld(t testing.TB, cfg c36Cfg, seed int64, st *c36Stats) *c36World {
	w := &c36World{t: t, cfg: cfg, ref: cfg.ref(), st: st, alias: cfg.alias(), pAll: cfg.pAddrs(), blocked: map[netip.AddrPort]bool{}, why: map[netip.AddrPort]map[string]bool{},
		pTunnels: map[uint32]bool{}, byUDP: map[netip.AddrPort]*vnode{}, wireH: sha256.New()}
	// me (and its lighthouse) are assembled now; P and W are assembled the first time a datagram or an event needs
	// them (an idle node and an absent node are indistinguishable to me). Their certificates exist before the
	// randomness is pinned (c36Prep).
	specs := cfg.specs()
	c36Prep(specs)
	first := []vnodeSpec{specs[0]}
	if !cfg.Lighthouse {
		first = append(first, specs[3])
	}
	w.specs = specs
	w.net = vNewNet(t, seed, first...)
	w.me = w.net.node("me")
	if !cfg.Lighthouse {
		w.l = w.net.node("l")
	}
	for _, n := range w.net.nodes {
		w.byUDP[n.udp] = n
	}
	switch cfg.Src {
	case c36SrcStatic:
		w.supply("static", w.alias, c36StaticP)
	case c36SrcCalc:
		w.supply("calc", w.alias, c36CalcP)
	}
	if w.l != nil {
		// the node has a tunnel with its lighthouse before anything else happens
		w.cur = "setup"
		w.me.hm.StartHandshake(c36LVpn, nil)
		w.me.settle()
		w.collect()
		w.flush(func(p vpkt) bool { return true }, false)
		if w.me.f.hostMap.QueryVpnAddr(c36LVpn) == nil {
			t.Fatalf("c36: setup could not establish the tunnel with the lighthouse")
		}
	}
	w.judgeState()
	return w
}

func (w *c36World) close() { w.net.close() }

func c36Prep(specs []vnodeSpec) {
	pk := vGetPKI()
	for _, sp := range specs {
		v := sp.Version
		if v == 0 {
			v = 2
		}
		pk.leafFor(sp.Name, sp.Networks, sp.Unsafe, sp.Groups, v)
	}
}

// peer returns (assembling it on first use) the real node P (i=1) or W (i=2).
func (w *c36World) peer(i int) *vnode {
	pp := &w.p
	if i == 2 {
		pp = &w.w
	}
	if *pp == nil {
		n := vNewNode(w.t, w.specs[i])
		w.net.nodes = append(w.net.nodes, n)
		w.byUDP[n.udp] = n
		*pp = n
	}
	return *pp
}

// supply records in the model that a source offered addrs for peer (for vacuity: used / refused with which reason).
func (w *c36World) supply(source string, peer netip.Addr, addrs []netip.AddrPort) {
	for _, wire := range addrs {
		// the source may write an IPv4 address in its IPv4-mapped IPv6 form: it denotes (and is judged as) the IPv4 address
		a := c36Norm(wire)
		w.why2(a, source)
		r := w.ref.refusal([]netip.Addr{peer}, a.Addr())
		if r == "" && peer == w.alias && w.ref.refusal(w.pAll, a.Addr()) != "" {
			r = "denied-range-cert"
		}
		if r != "" {
			w.st.inc("supplied_refused:" + source + ":" + r)
		} else {
			w.st.inc("supplied_usable:" + source)
		}
		if c36IsMapped(wire) {
			w.why2(a, source+"/mapped")
			if r != "" {
				w.st.inc("supplied_mapped_refused:" + source + ":" + r)
			} else {
				w.st.inc("supplied_mapped_usable:" + source)
			}
		}
	}
}

// certKnown: I hold an established tunnel with P, i.e. I have verified P's certificate and know every overlay address of P.
func (w *c36World) certKnown() bool {
	hmap := w.me.f.hostMap
	hmap.RLock()
	defer hmap.RUnlock()
	for _, hi := range hmap.Indexes {
		if len(hi.vpnAddrs) > 0 && hi.vpnAddrs[0] == c36PVpn {
			return true
		}
	}
	return false
}

// refusalP is the statement's allow-list clause for an underlay address used for P: an address denied globally or for the
// range of the overlay address by which I address P is never usable; an address denied for the range of ANY overlay address
// of P's certificate is unusable as soon as I know that certificate (= while I hold a tunnel with P: before the first
// handshake completes no node can know the other addresses, the weaker, satisfiable reading).
func (w *c36World) refusalP(a netip.Addr) string {
	if r := w.ref.refusal([]netip.Addr{w.alias}, a); r != "" {
		return r
	}
	if w.cfg.Multi && w.certKnown() && w.ref.refusal(w.pAll, a) != "" {
		return "denied-range-cert"
	}
	return ""
}

func (w *c36World) isP(vpn []netip.Addr) bool {
	for _, v := range vpn {
		if v == c36PVpn || (w.cfg.Multi && v == c36P2Vpn) {
			return true
		}
	}
	return false
}

func (w *c36World) refusalFor(vpn []netip.Addr, a netip.Addr) string {
	if w.isP(vpn) {
		return w.refusalP(a)
	}
	return w.ref.refusal(vpn, a)
}

func (w *c36World) why2(a netip.AddrPort, tag string) {
	if w.why[a] == nil {
		w.why[a] = map[string]bool{}
	}
	w.why[a][tag] = true
}

// certNote splits the signature of the "another overlay address of the certificate" clause by the way the address got to
// the node: reports / configuration entries are filed under ONE overlay address, the answer to a handshake I initiated is
// checked against the address I dialled; roaming, handshakes I answer and DNS results are checked against the certificate.
func (w *c36World) certNote(reason string, a netip.AddrPort) string {
	if reason != "denied-range-cert" {
		return ""
	}
	for _, s := range []string{"reply", "update", "static", "calc", "punch-notification"} {
		if w.why[a][s] {
			return c36SigReported
		}
	}
	if w.why[a]["hs-answer"] {
		return c36SigAnswer
	}
	return ""
}

// The two defects found on the unchanged tree by the two-address configurations (proposed_fixes/C36-allow-ranges-second-overlay-address.md):
// one signature per defect, the observation (CopyAddrs / punch / handshake / data) goes into the detail.
const (
	c36SigReported = "C36: an underlay address from a lighthouse report, punch notification, static or calculated entry (checked only against the overlay address it was filed under) is used although remote_allow_ranges denies it for another overlay address of the peer's certificate"
	c36SigAnswer   = "C36: the answer to a handshake the node initiated is accepted from an underlay address that remote_allow_ranges denies for another overlay address of the responder's certificate"
)

// c36SigStaticMapped: found on the unchanged tree by the mapped literals of the static_host_map alphabet
// (proposed_fixes/C36-static-mapped-literal.md). One signature for the defect; the observation goes into the detail.
const c36SigStaticMapped = "C36: a static_host_map address written as an IPv4-mapped IPv6 literal ([::ffff:a.b.c.d]:port) is filtered as an IPv6 address, not as the IPv4 address it denotes (an address inside the node's own overlay networks or denied by the remote allow list is held and used / a usable configured address is dropped)"

// staticMappedHeld: the node holds, as an operator-configured entry of static host P (owner = me, or the literal set of
// its hostname results), the mapped form of IPv4 address a. Raw field comparison, no decoder of the code under test.
func (w *c36World) staticMappedHeld(a netip.AddrPort) bool {
	if w.cfg.Src != c36SrcStatic || !a.Addr().Is4() {
		return false
	}
	w.me.lh.RLock()
	r := w.me.lh.addrMap[w.alias]
	w.me.lh.RUnlock()
	if r == nil {
		return false
	}
	b := a.Addr().As4()
	lo := uint64(0xffff)<<32 | uint64(b[0])<<24 | uint64(b[1])<<16 | uint64(b[2])<<8 | uint64(b[3])
	r.RLock()
	defer r.RUnlock()
	if c := r.cache[c36MeVpn]; c != nil && c.v6 != nil {
		for _, x := range c.v6.reported {
			if x != nil && x.Hi == 0 && x.Lo == lo && x.Port == uint32(a.Port()) {
				return true
			}
		}
	}
	for _, x := range r.hr.GetAddrs() {
		if x == c36Mapped(a) {
			return true
		}
	}
	return false
}

// violP reports a refused address for a peer: the defect-level signature when one applies, else the observation-level one.
func (w *c36World) violP(observed, reason string, a netip.AddrPort, extra m) {
	if reason != "blocked" && w.staticMappedHeld(a) {
		extra["observed"] = observed + " " + c36ReasonText[reason]
		extra["held_static_literal"] = c36Mapped(a).String()
		w.st.viol(c36SigStaticMapped, w.detail(extra))
		return
	}
	if sig := w.certNote(reason, a); sig != "" {
		extra["observed"] = observed + " " + c36ReasonText[reason]
		w.st.viol(sig, w.detail(extra))
		return
	}
	w.st.viol("C36: "+observed+" "+c36ReasonText[reason], w.detail(extra))
}

func (w *c36World) peerOf(a netip.AddrPort) (string, []netip.Addr) {
	switch a {
	case c36LUDP, c36LGood, c36LDen, c36LIn:
		return "L", []netip.Addr{c36LVpn}
	case c36WUDP:
		return "W(for P)", []netip.Addr{w.alias}
	case c36MeUDP:
		return "", nil
	}
	if c36IsStale(a) {
		return "W(at a stale address of P)", []netip.Addr{w.alias}
	}
	return "P", []netip.Addr{w.alias}
}

func c36Kind(data []byte) string {
	if len(data) < header.Len {
		return "punch"
	}
	var h header.H
	if h.Parse(data) != nil {
		return "garbage"
	}
	switch h.Type {
	case header.Handshake:
		return "handshake"
	case header.Message:
		return "data"
	case header.RecvError:
		return "recv_error"
	case header.CloseTunnel:
		return "close"
	case header.Test:
		return "test"
	case header.LightHouse:
		return "lighthouse"
	}
	return "control"
}

func (w *c36World) detail(extra m) m {
	d := m{"config": w.cfg.String(), "history": append(append([]string{}, w.hist...), w.cur+" (in progress)"),
		"remote_allow_list": c36Allows[w.cfg.Allow].Global, "remote_allow_ranges": c36Allows[w.cfg.Allow].Ranges, "my_networks": fmt.Sprint(w.ref.myNets)}
	lists := m{}
	for _, e := range append(append([]string{}, w.hist...), w.cur) {
		f := strings.Split(e, ":")
		if l, ok := c36Lists[f[len(f)-1]]; ok {
			lists[f[len(f)-1]] = m{"v4": c36Strs(l.v4), "v6": c36Strs(l.v6)}
		}
		if e == "dns" {
			lists["dns"] = c36Strs(c36DnsSet)
		}
	}
	d["address_lists"] = lists
	if w.cfg.Multi {
		d["overlay_addresses_in_certificate_of_P"] = fmt.Sprint(w.pAll)
		d["P_is_addressed_by"] = w.alias.String()
		d["tunnel_with_P_held_now(certificate_known)"] = w.certKnown()
	}
	if w.cfg.Src == c36SrcStatic {
		d["static_host_map_of_P"] = c36Strs(c36StaticP)
	}
	d["events"] = "reply:<host>:<list> HostQueryReply from the lighthouse; update:<list> HostUpdateNotification from P; punch:<list> HostPunchNotification about P, then the punch jobs run; data: tun packet for P; tick: handshake timer; rehs: StartHandshake(P); cm: connection-manager tick; close:<host>; from:<addr>: P's packets to me arrive from addr; dns: new DNS result set for static P; wrongs: rounds of {deliver everything between me and the addresses of the wrong host (its own and the stale K7 addresses, where it answers too); handshake timer tick} until nothing is in flight to it, everything else stays in flight; net/hop/netrev/drop: deliver all / one hop / reversed / lose what is in flight"
	for k, v := range extra {
		d[k] = v
	}
	return d
}

func (w *c36World) sources(a netip.AddrPort) []string {
	var out []string
	for s := range w.why[a] {
		out = append(out, s)
	}
	sort.Strings(out)
	return out
}

// judgeOut is the oracle on every datagram me wrote.
func (w *c36World) judgeOut(pkts []vpkt) {
	for _, p := range pkts {
		kind := c36Kind(p.Data)
		w.st.inc("datagrams")
		w.st.inc("datagrams:" + kind)
		if kind == "recv_error" {
			continue // not a handshake, punch or data packet (statement); it answers whoever sent an unknown index
		}
		class := kind
		switch kind {
		case "test", "lighthouse", "control", "close", "garbage":
			class = "data" // encrypted tunnel traffic: "data" of the statement
		}
		// the destination is judged as the address the datagram really goes to (::ffff:a.b.c.d goes to a.b.c.d)
		to := c36Norm(p.To)
		if to != p.To {
			w.st.inc("datagrams_written_to_a_mapped_form")
		}
		who, vpn := w.peerOf(to)
		if w.cfg.Multi && vpn != nil && w.isP(vpn) && w.certKnown() {
			w.st.inc("datagrams_for_P_judged_with_its_certificate_known")
			if w.ref.refusal(w.pAll, to.Addr()) == "" {
				w.st.inc("datagrams_for_P_usable_for_every_certificate_address")
			}
		}
		if vpn == nil {
			w.st.viol("C36: datagram sent to the node's own underlay address", w.detail(m{"to": p.To.String(), "kind": kind}))
			continue
		}
		reason := w.refusalFor(vpn, to.Addr())
		if reason == "" && kind == "handshake" && w.blocked[to] {
			reason = "blocked"
		}
		if reason != "" {
			w.violP(class+" datagram sent to an underlay address", reason, to,
				m{"to": p.To.String(), "goes_to": to.String(), "kind": kind, "peer": who, "address_supplied_by": w.sources(to)})
			continue
		}
		for s := range w.why[to] {
			w.st.inc("used:" + s)
			w.st.inc("used:" + s + ":" + class)
		}
		if len(w.blocked) > 0 && kind == "handshake" {
			w.st.inc("handshake_datagrams_while_blocked")
			if len(w.blocked) > c36PerSourceCap {
				w.st.inc("handshake_datagrams_with_more_than_ten_addresses_blocked")
			}
		}
	}
}

// allLists returns every RemoteList reachable from me (lighthouse cache, tunnels, pending handshakes).
func (w *c36World) allLists() []*RemoteList {
	seen := map[*RemoteList]bool{}
	var out []*RemoteList
	add := func(r *RemoteList) {
		if r != nil && !seen[r] {
			seen[r] = true
			out = append(out, r)
		}
	}
	w.me.lh.RLock()
	keys := make([]netip.Addr, 0, len(w.me.lh.addrMap))
	for a := range w.me.lh.addrMap {
		keys = append(keys, a)
	}
	sort.Slice(keys, func(i, j int) bool { return keys[i].Less(keys[j]) })
	for _, a := range keys {
		add(w.me.lh.addrMap[a])
	}
	w.me.lh.RUnlock()
	hmap := w.me.f.hostMap
	hmap.RLock()
	idx := make([]uint32, 0, len(hmap.Indexes))
	for i := range hmap.Indexes {
		idx = append(idx, i)
	}
	sort.Slice(idx, func(i, j int) bool { return idx[i] < idx[j] })
	for _, i := range idx {
		add(hmap.Indexes[i].remotes)
	}
	hmap.RUnlock()
	w.me.hm.RLock()
	pk := make([]netip.Addr, 0, len(w.me.hm.vpnIps))
	for a := range w.me.hm.vpnIps {
		pk = append(pk, a)
	}
	sort.Slice(pk, func(i, j int) bool { return pk[i].Less(pk[j]) })
	for _, a := range pk {
		add(w.me.hm.vpnIps[a].hostinfo.remotes)
	}
	w.me.hm.RUnlock()
	return out
}

func (w *c36World) listVpn(r *RemoteList) []netip.Addr {
	r.RLock()
	defer r.RUnlock()
	return append([]netip.Addr{}, r.vpnAddrs...)
}

// updateModel tracks, independently of the remote list, whether a block is in force: it starts when a wrong host answers
// the handshake in progress for P and ends when a handshake with P completes or no handshake for P is pending.
func (w *c36World) updateModel() {
	hmap := w.me.f.hostMap
	newTunnel := false
	hmap.RLock()
	for i, hi := range hmap.Indexes {
		if len(hi.vpnAddrs) > 0 && hi.vpnAddrs[0] == c36PVpn && !w.pTunnels[i] {
			w.pTunnels[i] = true
			newTunnel = true
		}
	}
	hmap.RUnlock()
	if len(w.blocked) > 0 && (newTunnel || w.me.hm.queryVpnIp(w.alias) == nil) {
		w.blocked = map[netip.AddrPort]bool{}
	}
}

// judgeState is the oracle on the address lists: CopyAddrs of every reachable list, the per-owner cap, static hosts.
func (w *c36World) judgeState() {
	prefs := w.me.f.hostMap.GetPreferredRanges()
	for _, r := range w.allLists() {
		vpn := w.listVpn(r)
		if len(vpn) == 0 {
			continue
		}
		if w.isP(vpn) && len(w.blocked) > c36PerSourceCap {
			w.st.inc("copyaddrs_judged_with_more_than_ten_addresses_blocked")
		}
		for _, held := range r.CopyAddrs(prefs) {
			w.st.inc("copyaddrs_entries")
			a := c36Norm(held) // what a datagram to the offered address goes to
			if a != held {
				w.st.inc("copyaddrs_entries_in_mapped_form")
			}
			reason := w.refusalFor(vpn, a.Addr())
			if reason == "" && w.isP(vpn) && w.blocked[a] {
				reason = "blocked"
			}
			if reason != "" {
				w.violP("RemoteList.CopyAddrs offers an underlay address", reason, a,
					m{"list_of": fmt.Sprint(vpn), "address": held.String(), "denotes": a.String(), "address_supplied_by": w.sources(a)})
			}
		}
		r.RLock()
		for owner, c := range r.cache {
			if owner == c36MeVpn {
				continue // operator-configured (static / calculated) entries are not an information source for the cap
			}
			n4, n6 := 0, 0
			if c.v4 != nil {
				n4 = len(c.v4.reported)
			}
			if c.v6 != nil {
				n6 = len(c.v6.reported)
			}
			if n4 == MaxRemotes || n6 == MaxRemotes {
				w.st.inc("owner_family_at_cap")
			}
			if n4 > 10 || n6 > 10 {
				w.st.viol("C36: one information source keeps more than ten reported addresses of one family for a peer",
					w.detail(m{"list_of": fmt.Sprint(vpn), "owner": owner.String(), "v4": n4, "v6": n6}))
			}
		}
		r.RUnlock()
	}
	// static hosts keep exactly their configured addresses
	for _, s := range w.statics() {
		w.me.lh.RLock()
		r := w.me.lh.addrMap[s.vpn]
		w.me.lh.RUnlock()
		ctx := "in some state"
		switch {
		case w.afterClose:
			ctx = "after a tunnel close"
		case w.afterAnswer:
			ctx = "after a lighthouse answer"
		}
		// want: usable for the overlay address the host is configured under; must: usable for every overlay address of the
		// host's certificate as well (the same set unless P has two addresses: the addresses in between may be held or
		// dropped once the certificate is known — whether they are offered is judged by the CopyAddrs clause above)
		want, must := map[netip.AddrPort]bool{}, map[netip.AddrPort]bool{}
		for _, lit := range s.addrs {
			a := c36Norm(lit) // a mapped literal configures the IPv4 address it denotes
			if w.ref.refusal([]netip.Addr{s.vpn}, a.Addr()) == "" {
				want[a] = true
				if !w.isP([]netip.Addr{s.vpn}) || w.ref.refusal(w.pAll, a.Addr()) == "" {
					must[a] = true
				}
			}
		}
		got := map[netip.AddrPort]bool{}
		offered := map[netip.AddrPort]bool{}
		if r != nil {
			r.RLock()
			if c := r.cache[c36MeVpn]; c != nil {
				if c.v4 != nil {
					for _, x := range c.v4.reported {
						got[c36Norm(protoV4AddrPortToNetAddrPort(x))] = true
					}
				}
				if c.v6 != nil {
					for _, x := range c.v6.reported {
						got[c36Norm(protoV6AddrPortToNetAddrPort(x))] = true
					}
				}
			}
			r.RUnlock()
			for _, a := range r.CopyAddrs(prefs) {
				offered[c36Norm(a)] = true
			}
		}
		ok := r != nil
		for a := range got {
			if !want[a] {
				ok = false
			}
		}
		for a := range must {
			if !got[a] || (!offered[a] && !w.blocked[a]) {
				ok = false
			}
		}
		w.st.inc("static_checks")
		if w.afterClose {
			w.st.inc("static_checks_after_close")
		}
		if w.afterAnswer {
			w.st.inc("static_checks_after_lighthouse_answer")
		}
		onlyMapped := r != nil // every excess address is held as a mapped static literal (and nothing is missing)
		for a := range got {
			if !want[a] && !w.staticMappedHeld(a) {
				onlyMapped = false
			}
		}
		for a := range must {
			if !got[a] || (!offered[a] && !w.blocked[a]) {
				plain := false // configured in plain form as well?
				for _, lit := range s.addrs {
					plain = plain || lit == a
				}
				if plain {
					onlyMapped = false
				}
			}
		}
		if !ok && onlyMapped {
			w.st.viol(c36SigStaticMapped, w.detail(m{"observed": "static host holds unusable addresses " + ctx, "static_host": s.vpn.String(), "configured_usable": fmt.Sprint(c36Keys(want)),
				"held_for_owner_me": fmt.Sprint(c36Keys(got)), "offered": fmt.Sprint(c36Keys(offered))}))
		} else if !ok {
			w.st.viol("C36: a static host does not hold exactly its configured addresses "+ctx,
				w.detail(m{"static_host": s.vpn.String(), "configured_usable": fmt.Sprint(c36Keys(want)), "configured_usable_for_every_certificate_address": fmt.Sprint(c36Keys(must)), "held_for_owner_me": fmt.Sprint(c36Keys(got)),
					"offered": fmt.Sprint(c36Keys(offered)), "entry_present": r != nil}))
		}
	}
}

func c36Keys(mm map[netip.AddrPort]bool) []string {
	var out []string
	for a := range mm {
		out = append(out, a.String())
	}
	sort.Strings(out)
	return out
}

type c36StaticHost struct {
	vpn   netip.Addr
	addrs []netip.AddrPort
}

func (w *c36World) statics() []c36StaticHost {
	var out []c36StaticHost
	if !w.cfg.Lighthouse {
		out = append(out, c36StaticHost{c36LVpn, []netip.AddrPort{c36LUDP}})
	}
	if w.cfg.Src == c36SrcStatic {
		out = append(out, c36StaticHost{w.alias, c36StaticP})
	}
	return out
}

// collect takes what every node wrote; me's datagrams are judged first.
func (w *c36World) collect() {
	for _, n := range w.net.nodes {
		out := n.takeOut()
		n.tun.take()
		if n == w.me {
			w.updateModel()
			w.judgeOut(out)
		}
		for _, p := range out {
			w.wire++
			fmt.Fprintf(w.wireH, "%v>%v:%d:", p.From, p.To, len(p.Data))
			w.wireH.Write(p.Data)
		}
		w.inflight = append(w.inflight, out...)
	}
}

// deliverOne hands a datagram to its destination node (claimed source = from). Datagrams to nobody vanish.
func (w *c36World) deliverOne(p vpkt, from netip.AddrPort) {
	to := c36Norm(p.To) // the network carries a datagram for ::ffff:a.b.c.d to a.b.c.d
	switch to {
	case c36PUDP:
		w.peer(1)
	case c36WUDP:
		w.peer(2)
	}
	if c36IsStale(to) {
		// the wrong host lives at this address too: it gets the datagram, and whatever it answers leaves from this address
		// (W is goroutine-free and not ticked: everything it writes is its reaction to this datagram)
		n := w.peer(2)
		n.deliver(from, p.Data)
		out := n.takeOut()
		n.tun.take()
		for i := range out {
			out[i].From = to
			w.wire++
			fmt.Fprintf(w.wireH, "%v>%v:%d:", out[i].From, out[i].To, len(out[i].Data))
			w.wireH.Write(out[i].Data)
		}
		w.inflight = append(w.inflight, out...)
		w.st.inc("datagrams_to_the_wrong_host_at_a_stale_address")
		w.collect()
		return
	}
	dst := w.byUDP[to]
	if dst == nil {
		w.st.inc("datagrams_to_nobody")
		return
	}
	if dst == w.me {
		// model: does a wrong host answer the handshake in progress for P? The reference's set of blocked addresses is this
		// record of wrong-host answers (never read from RemoteList.badRemotes)
		var h header.H
		if len(p.Data) >= header.Len && h.Parse(p.Data) == nil && h.Type == header.Handshake && h.MessageCounter == 2 && c36IsWAddr(p.From) {
			if hh := w.me.hm.queryVpnIp(w.alias); hh != nil && hh.hostinfo.localIndexId == h.RemoteIndex && !w.ref.inside(from.Addr()) &&
				w.ref.refusal([]netip.Addr{w.alias}, from.Addr()) == "" {
				w.me.deliver(from, p.Data)
				w.blocked[from] = true
				w.st.inc("wrong_host_answers")
				if c36IsStale(from) {
					w.st.inc("wrong_host_answers_from_a_stale_address")
				}
				if len(w.blocked) > c36PerSourceCap {
					// more addresses of one peer are blocked at once than any single information source may contribute
					w.st.inc("wrong_host_answers_with_more_than_ten_addresses_blocked")
					w.st.inc(fmt.Sprintf("wrong_host_answers_with_%d_addresses_blocked", len(w.blocked)))
				}
				w.collect()
				w.judgeState()
				return
			}
		}
	}
	dst.deliver(from, p.Data)
	w.collect()
	if dst == w.me {
		w.judgeState()
	}
}

// flush delivers in-flight datagrams matching sel, loss-free, until none is left (bounded).
func (w *c36World) flush(sel func(vpkt) bool, reverse bool) {
	if reverse {
		for i, j := 0, len(w.inflight)-1; i < j; i, j = i+1, j-1 {
			w.inflight[i], w.inflight[j] = w.inflight[j], w.inflight[i]
		}
	}
	for k := 0; k < 200; k++ {
		idx := -1
		for i, p := range w.inflight {
			if sel(p) {
				idx = i
				break
			}
		}
		if idx < 0 {
			return
		}
		p := w.inflight[idx]
		w.inflight = append(append([]vpkt{}, w.inflight[:idx]...), w.inflight[idx+1:]...)
		w.deliverOne(p, p.From)
	}
	// not quiet after 200 deliveries (never on the unchanged tree; an edit that makes the wrong host answer forever gets
	// here): leave the rest in flight, the history continues
	w.st.inc("flush_bound_hit")
}

// c36WithW selects the datagrams between me and an address of the wrong host.
func c36WithW(p vpkt) bool {
	return (p.From == c36MeUDP && c36IsWAddr(c36Norm(p.To))) || (p.To == c36MeUDP && c36IsWAddr(p.From))
}

func c36Between(a, b netip.AddrPort) func(vpkt) bool {
	return func(p vpkt) bool { return (p.From == a && p.To == b) || (p.From == b && p.To == a) }
}

func c36Meta(t NebulaMeta_MessageType, about netip.Addr, l c36AddrList) []byte {
	d := &NebulaMetaDetails{}
	if about.IsValid() {
		d.VpnAddr = netAddrToProtoAddr(about)
	}
	for _, a := range l.v4 {
		d.V4AddrPorts = append(d.V4AddrPorts, netAddrToProtoV4AddrPort(a.Addr(), a.Port()))
	}
	for _, a := range l.v6 {
		d.V6AddrPorts = append(d.V6AddrPorts, netAddrToProtoV6AddrPort(a.Addr(), a.Port()))
	}
	b, err := (&NebulaMeta{Type: t, Details: d}).Marshal()
	if err != nil {
		panic(err)
	}
	return b
}

// sendLH makes a real node send a lighthouse message to me through its (real) tunnel and runs the exchange.
func (w *c36World) sendLH(from *vnode, payload []byte) {
	from.f.SendMessageToVpnAddr(header.LightHouse, 0, c36MeVpn, payload, make([]byte, 12), make([]byte, mtu))
	from.settle()
	w.collect()
	w.flush(c36Between(from.udp, c36MeUDP), false)
}

func (w *c36World) tunnelTo(vpn netip.Addr) *HostInfo { return w.me.f.hostMap.QueryVpnAddr(vpn) }

func (w *c36World) apply(ev string) {
	w.cur = ev
	w.afterClose, w.afterAnswer = false, false
	f := strings.Split(ev, ":")
	switch f[0] {
	case "reply": // reply:<P|L>:<list> — the lighthouse answers a query about a host
		about := w.alias
		if f[1] == "L" {
			about = c36LVpn
		}
		l := c36Lists[f[2]]
		w.supply("reply", about, append(append([]netip.AddrPort{}, l.v4...), l.v6...))
		w.afterAnswer = true
		w.sendLH(w.l, c36Meta(NebulaMeta_HostQueryReply, about, l))
	case "update": // update:<list> — P reports its addresses to me (I am a lighthouse)
		l := c36Lists[f[1]]
		w.supply("update", w.alias, append(append([]netip.AddrPort{}, l.v4...), l.v6...))
		w.sendLH(w.peer(1), c36Meta(NebulaMeta_HostUpdateNotification, netip.Addr{}, l))
	case "punch": // punch:<list> — the lighthouse asks me to punch towards P; the punch jobs then become due and run
		l := c36Lists[f[1]]
		w.supply("punch-notification", w.alias, append(append([]netip.AddrPort{}, l.v4...), l.v6...))
		w.sendLH(w.l, c36Meta(NebulaMeta_HostPunchNotification, w.alias, l))
		vtime.Advance(1100 * vtime.Millisecond)
		w.st.N["punch_jobs"] += int64(w.me.runPunchJobs())
		w.collect()
	case "data": // application packet for P on my tun
		mine := c36MeVpn
		if w.cfg.Alias2 {
			mine = c36Me2Vpn
		}
		w.me.tunSend(vUDPPacket(mine, w.alias, 1000, 2000, []byte("c36-data")))
		w.collect()
	case "tick":
		vtime.Advance(vtime.Second)
		w.me.hsTick()
		w.collect()
	case "rehs":
		w.me.hm.StartHandshake(w.alias, nil)
		w.me.settle()
		w.collect()
	case "cm":
		vtime.Advance(2500 * vtime.Millisecond)
		w.me.cmTick()
		w.collect()
	case "close": // close:<P|L>
		vpn := w.alias
		if f[1] == "L" {
			vpn = c36LVpn
		}
		if hi := w.tunnelTo(vpn); hi != nil {
			w.me.f.sendCloseTunnel(hi)
			w.me.f.closeTunnel(hi)
			w.me.settle()
			w.st.inc("tunnel_closes:" + f[1])
		}
		w.afterClose = true
		w.collect()
	case "from": // from:<addr> — P's packets towards me arrive from this source address: whatever P has in flight to me
		// (e.g. its handshake answer), otherwise its next packet (handshake if it has no tunnel, else data)
		x := c36AP(strings.TrimPrefix(ev, "from:"))
		w.peer(1)
		var out, keep []vpkt
		for _, pk := range w.inflight {
			if pk.From == c36PUDP && pk.To == c36MeUDP {
				out = append(out, pk)
			} else {
				keep = append(keep, pk)
			}
		}
		w.inflight = keep
		if len(out) == 0 {
			w.p.conn.take()
			w.p.tunSend(vUDPPacket(c36PVpn, c36MeVpn, 2000, 1000, []byte("c36-from-p")))
			out = w.p.takeOut()
			if len(out) == 0 {
				vtime.Advance(vtime.Second)
				w.p.hsTick()
				out = w.p.takeOut()
			}
			w.p.tun.take()
		}
		for _, pk := range out {
			if pk.To != c36MeUDP {
				continue
			}
			src, how := "roam", "roam"
			if c36Kind(pk.Data) == "handshake" {
				src = "hs-learned"
				var h header.H
				_ = h.Parse(pk.Data)
				how = fmt.Sprintf("handshake-stage-%d", h.MessageCounter)
				if h.MessageCounter == 2 {
					w.why2(x, "hs-answer") // the answer to a handshake I initiated (signature note only)
				}
			}
			if w.cfg.Multi && w.ref.refusal([]netip.Addr{w.alias}, x.Addr()) == "" && w.ref.refusal(w.pAll, x.Addr()) != "" {
				w.st.inc("from_denied_for_second_range_only:" + how)
			}
			w.supply(src, w.alias, []netip.AddrPort{x})
			w.deliverOne(pk, x)
		}
	case "dns": // the resolver stored a new result set for static host P and ran its onUpdate callback
		w.me.lh.RLock()
		r := w.me.lh.addrMap[w.alias]
		w.me.lh.RUnlock()
		if r != nil {
			r.Lock()
			if r.hr != nil {
				set := map[netip.AddrPort]struct{}{}
				for _, a := range c36DnsSet {
					set[a] = struct{}{}
				}
				r.hr.ips.Store(&set)
				r.shouldRebuild = true
				w.st.inc("dns_updates")
			}
			r.Unlock()
			w.supply("dns", w.alias, c36DnsSet)
		}
	case "wrongs": // compound: the wrong host answers at every candidate address it lives at, one address after the other.
		// Rounds of { deliver what is in flight between me and the wrong host's addresses (the first answer blocks that
		// address and restarts the handshake; the answers to the old handshake are stale); handshake timer tick }, until a
		// tick sends nothing to the wrong host any more. Everything else (P's own datagrams, lighthouse queries) stays in
		// flight: P is slower than the wrong host, so no handshake with P completes in between.
		for round := 0; round < 2*(c36NStale4+c36NStale6); round++ {
			w.flush(c36WithW, false)
			if w.me.hm.queryVpnIp(w.alias) == nil {
				break
			}
			vtime.Advance(vtime.Second)
			w.me.hsTick()
			w.collect()
			w.updateModel()
			w.judgeState()
			w.st.inc("wrongs_rounds")
			more := false
			for _, pk := range w.inflight {
				more = more || c36WithW(pk)
			}
			if !more {
				break
			}
		}
	case "net":
		w.flush(func(vpkt) bool { return true }, false)
	case "hop": // one hop: what is in flight now is delivered, the answers stay in flight
		cur := w.inflight
		w.inflight = nil
		for _, pk := range cur {
			w.deliverOne(pk, pk.From)
		}
	case "netrev":
		w.flush(func(vpkt) bool { return true }, true)
	case "drop":
		w.inflight = nil
	default:
		w.t.Fatalf("c36: unknown event %q", ev)
	}
	w.updateModel()
	w.judgeState()
	w.hist = append(w.hist, ev)
	w.cur = ""
}

func (w *c36World) menu(thorough bool) []string {
	var out []string
	lists := []string{"K2", "K3", "K4", "K0"}
	if thorough {
		lists = []string{"K2", "K3", "K4", "K0", "K1", "K5", "K6", "K7"}
	}
	if w.cfg.Lighthouse {
		for _, k := range lists {
			out = append(out, "update:"+k)
		}
	} else {
		for _, k := range lists {
			out = append(out, "reply:P:"+k)
		}
		out = append(out, "reply:L:KL", "punch:K2")
		if thorough {
			out = append(out, "punch:K3")
		}
	}
	out = append(out, "data", "tick", "rehs", "cm")
	if w.me.hm.queryVpnIp(w.alias) != nil {
		out = append(out, "wrongs") // a handshake for P is in progress: the wrong host answers wherever it is reached
	}
	if w.tunnelTo(w.alias) != nil {
		out = append(out, "close:P")
	}
	if w.l != nil && w.tunnelTo(c36LVpn) != nil {
		out = append(out, "close:L")
	}
	froms := []netip.AddrPort{c36PUDP, c36PAlt2, c36D4a, c36R4, c36I4}
	if w.cfg.Multi {
		// never reported: denied only for the range of P's second / of P's first overlay address
		froms = []netip.AddrPort{c36PUDP, c36PAlt2, c36D4a, c36I4, c36PHi2, c36R4b}
	}
	if thorough {
		froms = append(froms, c36G6, c36I6, c36D4b)
		if w.cfg.Multi {
			froms = append(froms, c36H6)
		}
	}
	for _, x := range froms {
		out = append(out, "from:"+x.String())
	}
	if w.cfg.Src == c36SrcStatic {
		out = append(out, "dns")
	}
	if len(w.inflight) > 0 {
		out = append(out, "net", "hop", "netrev", "drop")
	}
	return out
}

// ---------------------------------------------------------------------------------------------------------------
// canonical state

func c36RLKey(r *RemoteList) string {
	r.RLock()
	defer r.RUnlock()
	var owners []string
	for o, c := range r.cache {
		// reported lists are written as sorted sets: the order of operator-configured entries follows Go map iteration
		// (static_host_map / hostnamesResults) and is not observable through anything this property looks at
		s := o.String() + "{"
		var rep []string
		if c.v4 != nil {
			if c.v4.learned != nil {
				s += "l" + protoV4AddrPortToNetAddrPort(c.v4.learned).String()
			}
			for _, x := range c.v4.reported {
				rep = append(rep, protoV4AddrPortToNetAddrPort(x).String())
			}
		}
		if c.v6 != nil {
			if c.v6.learned != nil {
				s += "l" + protoV6AddrPortToNetAddrPort(c.v6.learned).String()
			}
			for _, x := range c.v6.reported {
				rep = append(rep, protoV6AddrPortToNetAddrPort(x).String())
			}
		}
		sort.Strings(rep)
		owners = append(owners, s+fmt.Sprint(rep)+"}")
	}
	sort.Strings(owners)
	var dns []string
	for _, a := range r.hr.GetAddrs() {
		dns = append(dns, a.String())
	}
	sort.Strings(dns)
	return fmt.Sprintf("%v%v bad=%v dns=%v hr=%v", r.vpnAddrs, owners, r.badRemotes, dns, r.hr != nil)
}

func c36PeerKey(n *vnode) string {
	if n == nil {
		return "t0/p-1" // not assembled yet == idle
	}
	hmap := n.f.hostMap
	hmap.RLock()
	tun := 0
	for _, hi := range hmap.Indexes {
		if len(hi.vpnAddrs) > 0 && hi.vpnAddrs[0] == c36MeVpn {
			tun++
		}
	}
	hmap.RUnlock()
	pend := int64(-1)
	if hh := n.hm.queryVpnIp(c36MeVpn); hh != nil {
		pend = hh.counter
	}
	return fmt.Sprintf("t%d/p%d", tun, pend)
}

func (w *c36World) key() string {
	var sb strings.Builder
	sb.WriteString(w.cfg.String())
	attached := map[*RemoteList]string{}
	w.me.lh.RLock()
	keys := make([]netip.Addr, 0, len(w.me.lh.addrMap))
	for a := range w.me.lh.addrMap {
		keys = append(keys, a)
	}
	sort.Slice(keys, func(i, j int) bool { return keys[i].Less(keys[j]) })
	for _, a := range keys {
		attached[w.me.lh.addrMap[a]] = a.String()
	}
	w.me.lh.RUnlock()
	for _, a := range keys {
		w.me.lh.RLock()
		r := w.me.lh.addrMap[a]
		w.me.lh.RUnlock()
		fmt.Fprintf(&sb, "\nLH %s: %s", a, c36RLKey(r))
	}
	rlRef := func(r *RemoteList) string {
		if r == nil {
			return "nil"
		}
		if a, ok := attached[r]; ok {
			return "@" + a
		}
		return "detached:" + c36RLKey(r)
	}
	now := vtime.Now()
	hmap := w.me.f.hostMap
	hmap.RLock()
	var tuns []string
	for _, hi := range hmap.Indexes {
		prim := hmap.Hosts[hi.vpnAddrs[0]] == hi
		roam := !hi.lastRoam.IsZero() && now.Sub(hi.lastRoam) < RoamingSuppressSeconds*vtime.Second
		tuns = append(tuns, fmt.Sprintf("%v r=%v prim=%v init=%v roam=%v/%v pd=%v io=%v%v rl=%s", hi.vpnAddrs, hi.GetRemote(), prim, hi.ConnectionState.initiator,
			roam, hi.lastRoamRemote, hi.pendingDeletion.Load(), hi.in.Load(), hi.out.Load(), rlRef(hi.remotes)))
	}
	hmap.RUnlock()
	sort.Strings(tuns)
	fmt.Fprintf(&sb, "\nT %v", tuns)
	w.me.hm.RLock()
	var pend []string
	for a, hh := range w.me.hm.vpnIps {
		pend = append(pend, fmt.Sprintf("%s c=%d ready=%v last=%v store=%d rl=%s", a, hh.counter, hh.ready, hh.lastRemotes, len(hh.packetStore), rlRef(hh.hostinfo.remotes)))
	}
	w.me.hm.RUnlock()
	sort.Strings(pend)
	fmt.Fprintf(&sb, "\nH %v", pend)
	var fl []string
	for _, p := range w.inflight {
		var h header.H
		st := uint64(0)
		if len(p.Data) >= header.Len && h.Parse(p.Data) == nil && h.Type == header.Handshake {
			st = h.MessageCounter
		}
		fl = append(fl, fmt.Sprintf("%v>%v %s%d", p.From, p.To, c36Kind(p.Data), st))
	}
	fmt.Fprintf(&sb, "\nN %v", fl)
	fmt.Fprintf(&sb, "\nP %s W %s L %s blocked=%v timers=%d", c36PeerKey(w.p), c36PeerKey(w.w), c36PeerKey(w.l), c36Keys(w.blocked), vtime.PendingTimers())
	return mc.Hash(sb.String())
}

// ---------------------------------------------------------------------------------------------------------------
// worker: one configuration, BFS from several seed prefixes

func c36Seeds(cfg c36Cfg, thorough bool) [][]string {
	var seeds [][]string
	seeds = append(seeds, nil)
	src := "reply:P:"
	if cfg.Lighthouse {
		src = "update:"
	}
	seeds = append(seeds,
		[]string{src + "K2", "data", "net"},                    // tunnel with P, full mixed list cached
		[]string{src + "K4", "data", "net"},                    // wrong host answered: block in force, handshake pending
		[]string{src + "K2", "data"},                           // handshake in flight to every usable address
		[]string{"from:" + c36PUDP.String(), "net", src + "K3"}, // tunnel initiated by P, twelve addresses reported
	)
	seeds = append(seeds,
		[]string{src + "K2", "data", "net", "from:" + c36PAlt2.String()}, // tunnel with P, roamed to another usable address
		[]string{src + "K2", "data", "net", "close:P"},                   // tunnel closed again (cache dropped unless P is static)
		[]string{src + "K4", "data", "net", "tick"},                      // block in force and the handshake retransmitted
		[]string{src + "K6", "data", "netrev"},                           // wrong host answered first, the right host's answer is stale
		[]string{src + "K3", "data"},                                     // handshake in flight to the ten kept addresses
	)
	if cfg.Src == c36SrcStatic {
		seeds = append(seeds, []string{"data", "net", "dns"}, []string{"dns", "data"})
	}
	// thirteen reported addresses (7 IPv4 + 6 IPv6, next to P's static / calculated ones) all answered by the wrong host,
	// one after the other, no handshake with P completing in between: more addresses blocked than one source may supply
	if cfg.Lighthouse {
		// P reported them itself; the cache entry survives the close only when P is a static host
		seeds = append(seeds, []string{src + "K7", "close:P", "data", "wrongs"})
	} else {
		seeds = append(seeds, []string{src + "K7", "data", "wrongs"})
	}
	if cfg.Multi && !cfg.Lighthouse {
		// P's answer to my handshake is in flight (the next event may let it arrive from any source address); placed among
		// the seeds that the quick tier searches to full depth
		seeds = append(seeds[:2:2], append([][]string{{src + "K1", "data", "hop"}}, seeds[2:]...)...)
	}
	if !thorough {
		// quick: the searches from the deeper seeds are one event shallower
		return seeds
	}
	return seeds
}

type c36WorkerOut struct {
	Cfg     string    `json:"cfg"`
	Stats   *c36Stats `json:"stats"`
	Nviol   int       `json:"nviol"`
	States  int64     `json:"states"`
	Trans   int64     `json:"transitions"`
	Depth   int       `json:"max_depth"`
	Capped  bool      `json:"capped"`
	DepthCapped bool  `json:"depth_capped"`
	PassesDone  int   `json:"passes_done"`
	Samples [][]string `json:"samples"`
	Broken  string    `json:"broken"`
	CPU     float64   `json:"cpu_s"`
}

func c36RunCfg(t *testing.T, c *mc.Check, cfg c36Cfg, depth int, deadline time.Time) c36WorkerOut {
	st := newC36Stats()
	out := c36WorkerOut{Cfg: cfg.String(), Stats: st}
	seed := c.Seed()
	thorough := c.Thorough()

	// determinism: one long history twice — same canonical state, same wire bytes
	probe := append(append([]string{}, c36Seeds(cfg, thorough)[1]...), "from:"+c36PAlt2.String(), "data", "cm", "close:P", "data", "tick", "net")
	run := func() (string, string) {
		w := c36NewWorld(t, cfg, seed, newC36Stats())
		defer w.close()
		for _, e := range probe {
			w.apply(e)
		}
		return w.key(), hex.EncodeToString(w.wireH.Sum(nil)[:8])
	}
	k1, w1 := run()
	k2, w2 := run()
	if k1 != k2 || w1 != w2 {
		out.Broken = fmt.Sprintf("nondeterministic replay of %v: %s/%s vs %s/%s", probe, k1, w1, k2, w2)
		return out
	}

	// Iterative deepening over all seeds: pass d searches every seed prefix to depth d (re-executing the shallower
	// levels costs a few percent), so a time cap only ever cuts the deepest pass short and every seed is treated alike.
	all := map[string]bool{}
	seeds := c36Seeds(cfg, thorough)
	stop := func() bool { return time.Now().After(deadline) }
	for pass := 1; pass <= depth && !out.Capped; pass++ {
		seen := map[string]bool{} // pruning across the seeds of one pass
		out.DepthCapped = false
		for si, prefix := range seeds {
			if stop() {
				out.Capped = true
				break
			}
			d := pass
			if !thorough && si >= 5 {
				d-- // quick: the deeper seeds are searched one event shallower
			}
			res := mc.BFSReplay(c, mc.BFSConfig[string]{
				MaxDepth: d, Workers: 1, Stop: stop,
				Label: func(e string) string { return e },
				Run: func(hist []string) (string, []string) {
					w := c36NewWorld(t, cfg, seed, st)
					defer w.close()
					for _, e := range prefix {
						w.apply(e)
					}
					for _, e := range hist {
						w.apply(e)
					}
					k := w.key()
					all[k] = true
					if len(hist) > 0 && seen[k] {
						return k, nil
					}
					seen[k] = true
					return k, w.menu(thorough)
				},
			})
			out.Trans += res.Transitions
			if res.MaxDepth+len(prefix) > out.Depth {
				out.Depth = res.MaxDepth + len(prefix)
			}
			if stop() {
				out.Capped = true // time budget ran out inside this pass
			} else if !res.Exhaustive {
				out.DepthCapped = true // frontier not empty at the depth bound
			}
			if pass == depth || out.Capped {
				for _, s := range res.Deepest {
					if len(out.Samples) < 4 {
						out.Samples = append(out.Samples, append(append([]string{"[" + cfg.String() + "]"}, prefix...), s...))
					}
				}
			}
			if out.Capped {
				break
			}
		}
		if !out.Capped {
			out.PassesDone = pass
		}
	}
	out.States = int64(len(all))
	out.Nviol = st.nviol
	return out
}

func c36CPU() float64 {
	var ru syscall.Rusage
	if syscall.Getrusage(syscall.RUSAGE_SELF, &ru) != nil {
		return 0
	}
	return float64(ru.Utime.Sec+ru.Stime.Sec) + float64(ru.Utime.Usec+ru.Stime.Usec)/1e6
}

func TestVerifC36Worker(t *testing.T) {
	spec := os.Getenv("VERIF_C36_WORKER")
	if spec == "" {
		t.Skip("worker entry point of TestVerifC36")
	}
	// spec: <cfg index>:<depth>:<budget seconds>:<out path>
	f := strings.SplitN(spec, ":", 4)
	idx, _ := strconv.Atoi(f[0])
	depth, _ := strconv.Atoi(f[1])
	budget, _ := strconv.ParseFloat(f[2], 64)
	c := mc.Begin(t, "C36", "model_checking") // bookkeeping only; evidence goes to a scratch file (VERIF_EVIDENCE)
	cfgs := c36AllCfgs()
	res := c36RunCfg(t, c, cfgs[idx], depth, time.Now().Add(time.Duration(budget*float64(time.Second))))
	res.CPU = c36CPU()
	b, _ := json.Marshal(res)
	if err := os.WriteFile(f[3], b, 0o644); err != nil {
		t.Fatal(err)
	}
}

func TestVerifC36(t *testing.T) {
	c := mc.Begin(t, "C36", "model_checking")
	defer c.End()
	all := c36AllCfgs()
	var pick []int
	if c.Thorough() {
		for i := range all {
			pick = append(pick, i)
		}
	} else {
		for _, q := range c36QuickCfgs() {
			for i, a := range all {
				if a == q {
					pick = append(pick, i)
				}
			}
		}
	}
	depth := mc.Pick(c, 2, 3)
	if s := os.Getenv("VERIF_C36_DEPTH"); s != "" {
		depth, _ = strconv.Atoi(s)
	}
	procs := runtime.GOMAXPROCS(0)
	if procs > len(pick) {
		procs = len(pick)
	}
	waves := (len(pick) + procs - 1) / procs
	total := 38.0
	if c.Thorough() {
		total = 840
	}
	if s := os.Getenv("VERIF_BUDGET_S"); s != "" {
		if f, err := strconv.ParseFloat(s, 64); err == nil && f > 0 {
			total = f
		}
	}
	perWorker := (total - 4) / float64(waves)
	if perWorker < 5 {
		perWorker = 5
	}
	dir := filepath.Join("/verif/.build/c36", fmt.Sprintf("run-%d", os.Getpid()))
	_ = os.RemoveAll(dir)
	if err := os.MkdirAll(dir, 0o755); err != nil {
		t.Fatal(err)
	}
	defer os.RemoveAll(dir)

	outs := make([]c36WorkerOut, len(pick))
	errs := make([]string, len(pick))
	var wg sync.WaitGroup
	sem := make(chan struct{}, procs)
	for k, idx := range pick {
		wg.Add(1)
		go func(k, idx int) {
			defer wg.Done()
			sem <- struct{}{}
			defer func() { <-sem }()
			res := filepath.Join(dir, fmt.Sprintf("cfg%d.json", idx))
			cmd := exec.Command(os.Args[0], "-test.run=^TestVerifC36Worker$", "-test.timeout=3000s")
			cmd.Env = append(os.Environ(), fmt.Sprintf("VERIF_C36_WORKER=%d:%d:%f:%s", idx, depth, perWorker, res),
				"VERIF_EVIDENCE="+filepath.Join(dir, fmt.Sprintf("ev%d.json", idx)), "GOMAXPROCS=1", "GOGC=300") // one P: vNewNode's Gosched spin (waiting for the lighthouse worker goroutine to exit) cannot starve on a loaded box
			ob, err := cmd.CombinedOutput()
			b, rerr := os.ReadFile(res)
			if rerr != nil {
				tail := string(ob)
				if len(tail) > 3000 {
					tail = tail[len(tail)-3000:]
				}
				errs[k] = fmt.Sprintf("worker for %s produced no result (%v): %s", all[idx], err, tail)
				return
			}
			if err := json.Unmarshal(b, &outs[k]); err != nil {
				errs[k] = err.Error()
			}
		}(k, idx)
	}
	wg.Wait()

	sum := map[string]int64{}
	var states, trans int64
	var cpu float64
	maxDepth := 0
	perCfg := map[string]any{}
	timeCapped := []string{}
	minPass := depth
	depthCapped := 0
	for k := range pick {
		if errs[k] != "" {
			c.Broken("%s", errs[k])
		}
		o := outs[k]
		if o.Broken != "" {
			c.Broken("%s: %s", o.Cfg, o.Broken)
		}
		for _, v := range o.Stats.Viols {
			c.Violation(v.Sig, v.Detail)
		}
		for n, v := range o.Stats.N {
			sum[n] += v
		}
		states += o.States
		trans += o.Trans
		cpu += o.CPU
		if o.Depth > maxDepth {
			maxDepth = o.Depth
		}
		if o.Capped {
			timeCapped = append(timeCapped, o.Cfg)
		}
		if o.DepthCapped {
			depthCapped++
		}
		perCfg[o.Cfg] = fmt.Sprintf("states=%d transitions=%d depth_completed=%d time_capped=%v cpu_s=%.1f", o.States, o.Trans, o.PassesDone, o.Capped, o.CPU)
		if o.PassesDone < minPass {
			minPass = o.PassesDone
		}
		for _, s := range o.Samples {
			c.Sample(s)
		}
	}
	if len(timeCapped) > 0 {
		c.Capped(fmt.Sprintf("time budget ran out in %d configuration(s); depth bound %d", len(timeCapped), depth))
	} else if depthCapped > 0 {
		c.Capped(fmt.Sprintf("bfs depth bound %d after each seed prefix (states at the bound are judged, not expanded)", depth))
	}
	c.Set("time_capped_configurations", timeCapped)
	c.Set("states", states)
	c.Set("transitions", trans)
	c.Set("traces_validated_against_impl", trans)
	c.Set("max_depth", maxDepth)
	c.Set("bfs_depth_per_seed", depth)
	c.Set("bfs_depth_completed_in_every_configuration", minPass)
	c.Set("configurations", len(pick))
	c.Set("configuration_alphabet", len(all))
	c.Set("per_configuration", perCfg)
	c.Set("cpu_seconds", cpu)
	keys := make([]string, 0, len(sum))
	for k := range sum {
		keys = append(keys, k)
	}
	sort.Strings(keys)
	tally := map[string]int64{}
	for _, k := range keys {
		tally[k] = sum[k]
	}
	c.Set("tally", tally)
	c.Set("datagrams_judged", sum["datagrams"])
	c.Set("copyaddrs_entries_judged", sum["copyaddrs_entries"])
	c.Set("explanation", "states = distinct canonical states of me (lighthouse cache, tunnels, pending handshakes, in-flight datagrams, peers, block model) summed over configurations; transitions = histories replayed on freshly assembled real nodes; every datagram me wrote and every CopyAddrs entry of every reachable remote list was judged after every delivery/event")
	c.Assume("ten addresses per information source is read per address family (the code caps IPv4 and IPv6 lists separately); operator-configured static / calculated / DNS entries are not counted as an information source for the cap")
	c.Assume("the allow list is fixed per history: addresses learned earlier are not required to be re-filtered after a reload of remote_allow_list")
	c.Assume("an address is 'marked bad' for the handshake in progress only: the block must hold from the wrong host's answer until a handshake with the intended peer completes or no handshake for it is pending (RemoteList documents 'should not be tried again during a handshake'); the close-tunnel notice sent to the wrong host itself is not a handshake for the intended peer")
	c.Assume("recv_error replies are neither handshakes, punches nor data and are not judged; every other datagram type is")
	c.Assume("DNS results: the resolver goroutine is not run (it would query the machine's resolver); its effect — storing a new address set in hostnamesResults and running the onUpdate callback — is applied directly")
	c.Assume("a destination or offered address in IPv4-mapped IPv6 form (::ffff:a.b.c.d) is judged as the IPv4 address a.b.c.d: every udp backend of nebula unmaps it / the dual-stack socket sends it over IPv4. Mapped forms are in the alphabet of the sources that can carry them: V6AddrPorts of HostQueryReply / HostUpdateNotification / HostPunchNotification and bracketed static_host_map literals. Not expressible: calculated_remotes for an IPv4 overlay address (32-bit V4AddrPort), DNS result sets (the resolver goroutine unmaps before storing) and packet source addresses (every udp backend unmaps the source before readOutsidePackets, the level at which the harness delivers)")
	c.Set("mapped_form_entries_supplied", sum["supplied_mapped_refused:reply:inside"]+sum["supplied_mapped_refused:update:inside"]+sum["supplied_mapped_refused:static:inside"]+sum["supplied_mapped_refused:punch-notification:inside"]+
		sum["supplied_mapped_refused:reply:denied-global"]+sum["supplied_mapped_refused:update:denied-global"]+sum["supplied_mapped_refused:static:denied-global"]+sum["supplied_mapped_refused:punch-notification:denied-global"]+
		sum["supplied_mapped_refused:reply:denied-range"]+sum["supplied_mapped_refused:update:denied-range"]+sum["supplied_mapped_refused:static:denied-range"]+sum["supplied_mapped_refused:punch-notification:denied-range"]+
		sum["supplied_mapped_refused:reply:denied-range-cert"]+sum["supplied_mapped_refused:update:denied-range-cert"]+sum["supplied_mapped_refused:static:denied-range-cert"]+sum["supplied_mapped_refused:punch-notification:denied-range-cert"]+
		sum["supplied_mapped_usable:reply"]+sum["supplied_mapped_usable:update"]+sum["supplied_mapped_usable:static"]+sum["supplied_mapped_usable:punch-notification"])
	c.Set("destinations_or_offers_seen_in_mapped_form", sum["datagrams_written_to_a_mapped_form"]+sum["copyaddrs_entries_in_mapped_form"])
	c.Assume("the destination's peer is identified from disjoint address alphabets (addresses claimed for the lighthouse vs. for P / the wrong host W); P and W share one remote_allow_ranges entry")

	if c.Violations() > 0 {
		return
	}
	var unmet []string
	need := func(cond bool, what string) {
		if !cond {
			unmet = append(unmet, what)
		}
	}
	for _, s := range []string{"reply", "update", "static", "calc", "dns", "hs-learned", "roam", "punch-notification"} {
		need(sum["used:"+s] > 0, "source "+s+" never contributed an address that was used")
	}
	for _, s := range []string{"reply", "update", "static", "calc", "dns", "hs-learned", "roam", "punch-notification"} {
		for _, r := range []string{"inside", "denied-global", "denied-range", "denied-range-cert"} {
			need(sum["supplied_refused:"+s+":"+r] > 0, "source "+s+" never supplied an address that is "+r)
		}
	}
	// IPv4-mapped IPv6 forms: every source that can carry one supplied the mapped form of an address unusable for each
	// reason (all refused: no violation), and the mapped form of a usable address, which was then used (as IPv4)
	for _, s := range []string{"reply", "update", "static", "punch-notification"} {
		for _, r := range []string{"inside", "denied-global", "denied-range", "denied-range-cert"} {
			need(sum["supplied_mapped_refused:"+s+":"+r] > 0, "source "+s+" never supplied the IPv4-mapped form of an address that is "+r)
		}
		if s != "punch-notification" || c.Thorough() { // the punch list with a usable mapped entry is in the thorough menu only
			need(sum["supplied_mapped_usable:"+s] > 0 && sum["used:"+s+"/mapped"] > 0, "source "+s+" never supplied the IPv4-mapped form of a usable address that was then used")
		}
	}
	need(sum["wrong_host_answers"] > 0 && sum["handshake_datagrams_while_blocked"] > 0, "wrong-responder block never in force during a handshake retransmit")
	need(sum["wrong_host_answers_from_a_stale_address"] > 0 && sum["wrong_host_answers_with_more_than_ten_addresses_blocked"] > 0 && sum[fmt.Sprintf("wrong_host_answers_with_%d_addresses_blocked", c36NStale4+c36NStale6)] > 0 &&
		sum["copyaddrs_judged_with_more_than_ten_addresses_blocked"] > 0 && sum["handshake_datagrams_with_more_than_ten_addresses_blocked"] > 0,
		"never more than ten addresses of the peer blocked at once (wrong host answering at every one of thirteen candidate addresses), judged by CopyAddrs and by a handshake retransmit")
	need(sum["owner_family_at_cap"] > 0, "no owner ever reached ten reported addresses")
	need(sum["static_checks_after_close"] > 0 && sum["static_checks_after_lighthouse_answer"] > 0 && sum["tunnel_closes:L"] > 0, "static host never judged after close / lighthouse answer")
	need(sum["datagrams:handshake"] > 0 && sum["datagrams:punch"] > 0 && sum["datagrams:data"] > 0 && sum["datagrams:test"] > 0, "not every datagram kind observed")
	need(sum["used:reply:punch"]+sum["used:update:punch"] > 0, "keep-alive punches to reported addresses never observed")
	need(sum["dns_updates"] > 0, "no DNS result update applied")
	need(sum["datagrams_for_P_judged_with_its_certificate_known"] > 0 && sum["datagrams_for_P_usable_for_every_certificate_address"] > 0, "no datagram for a two-address peer judged with its certificate known")
	need(sum["from_denied_for_second_range_only:roam"] > 0 && sum["from_denied_for_second_range_only:handshake-stage-1"] > 0 && sum["from_denied_for_second_range_only:handshake-stage-2"] > 0,
		"roaming / handshake (as responder and as initiator) from a source denied only for the range of the peer's other overlay address not all exercised")
	c.Set("vacuity_guards_unmet", unmet)
	if len(unmet) > 0 && len(timeCapped) == 0 {
		c.Require(false, "%v", unmet)
	}
}
