//go:build verif

package nebula

import (
	"fmt"
	"net/netip"
	"os"
	"reflect"
	"sort"
	"strconv"
	"strings"
	"sync"
	"sync/atomic"
	"syscall"
	"testing"
	"unsafe"

	"github.com/slackhq/nebula/cert"
	"github.com/slackhq/nebula/config"
	"github.com/slackhq/nebula/firewall"
	"github.com/slackhq/nebula/zzverif/mc"
	"github.com/slackhq/nebula/zzverif/vtime"
	"go.yaml.in/yaml/v3"
)

// C19 — tracked flows are revalidated after a rule reload.
//
// Explicit-state BFS by replay (E2). Every history builds fresh real objects; reloads go through the real path
// config.C.ReloadConfigString -> registered callbacks (PKI reload, Interface.reloadFirewall ...); packets are judged at
// Firewall.Drop of the CURRENT firewall (Interface.firewall) with the node's CA pool and hand-built HostInfos of two peers
// (real certificates of the same CA). Two assemblies share one world / oracle:
//   "node"    — a complete goroutine-free node (E4 assembly, vnode_test.go: every reload callback Main() registers runs);
//               ~3 ms per history, one worker (the assembly pins process-global randomness and the virtual clock)
//   "minimal" — Interface{firewall, pki, l} + config.C with exactly the PKI and Interface.reloadFirewall callbacks;
//               ~50x cheaper and free of process-global state, so it is searched deeper and in parallel.
//
// Reference: a flat rule list per rule set and, per tuple, the SET of abstract conntrack states the statement permits:
// N (not tracked), O (tracked, created by an outgoing packet), I (tracked, created by an incoming packet).
//   the rules' meaning : a rule's local_cidr is "any", an explicit prefix, or omitted. Omitted means (examples/config.yml):
//                        any local address when firewall.default_local_cidr_any is set or the node's certificate has no
//                        unsafe networks, otherwise only the node's own overlay networks. What a rule set allows is
//                        therefore a function of (rule text, default_local_cidr_any, certificate); a reload that changes
//                        any of the three is a reload to the rules R' it then means.
//   reload to rules R  : every tracked possibility whose original direction R does not allow may already be forgotten
//                        (N is added; the entry itself may survive until the next packet: lazy and eager forgetting are both
//                        accepted); a rulesVersion wrap may forget anything (N is added to every tuple — granted, DESIGN ◊)
//   packet (tuple, dir): possibilities whose original direction the CURRENT rules do not allow become N (the statement:
//                        "otherwise the flow is forgotten"); a tracked possibility passes; N passes iff a current rule
//                        allows (tuple, dir), and is then tracked with that direction.
//   idle               : the flows see no packet for c19Idle (far beyond every conntrack timeout and the timer wheel's rounding):
//                        every tracked possibility becomes N (C18: an expired flow is refused unless a rule allows the packet,
//                        which then starts a NEW flow whose original direction is that packet's). The expired entries may
//                        still sit in the real table (the wheel reaps lazily): the next flow on such a tuple is judged by the
//                        following reloads like any other flow.
// A verdict that no remaining possibility predicts is a violation. In particular a reload that changes nothing about the
// rules adds no N, so an established flow MUST keep passing.

type c19Rule struct {
	Incoming bool
	Port     uint16
	Group    string // "" = host any
	Local    string // local_cidr: "any", "" (omitted: depends on default_local_cidr_any and the certificate), or a prefix
}

// c19Env is what, besides the rule text, decides what the rules allow.
type c19Env struct {
	DefaultLocalAny bool // firewall.default_local_cidr_any
	Unsafe          bool // the node's certificate carries the unsafe network 172.16.0.0/16
}

type c19RuleSet struct {
	Name  string
	Rules []c19Rule
}

var c19Sets = []c19RuleSet{
	{"R0(out80)", []c19Rule{{false, 80, "", "any"}}},
	{"R1(in80)", []c19Rule{{true, 80, "", "any"}}},
	{"R2(out80+in80)", []c19Rule{{false, 80, "", "any"}, {true, 80, "", "any"}}},
	{"R3(none)", nil},
	{"R4(out80 group g1)", []c19Rule{{false, 80, "g1", "any"}}},
	{"R5(out80+in80, local_cidr omitted)", []c19Rule{{false, 80, "", ""}, {true, 80, "", ""}}},
	{"R6(out80 local_cidr omitted + in80 local_cidr 172.16.0.0/16)", []c19Rule{{false, 80, "", ""}, {true, 80, "", "172.16.0.0/16"}}},
}

var c19MyNetwork = netip.MustParsePrefix("10.0.0.0/24") // the node's overlay network (c19Spec)

// c19LocalOK: does the rule's local_cidr admit the packet's local address under env.
func c19LocalOK(r c19Rule, env c19Env, local netip.Addr) bool {
	switch r.Local {
	case "any":
		return true
	case "":
		return env.DefaultLocalAny || !env.Unsafe || c19MyNetwork.Contains(local)
	}
	return netip.MustParsePrefix(r.Local).Contains(local)
}

// c19Meaning renders what a rule set means under env (omitted local_cidr resolved); two configurations with the same
// rendering have the same rules as far as the statement is concerned.
func c19Meaning(rs c19RuleSet, env c19Env) string {
	var out []string
	for _, r := range rs.Rules {
		lc := r.Local
		if lc == "" {
			lc = "own networks"
			if env.DefaultLocalAny || !env.Unsafe {
				lc = "any"
			}
		}
		out = append(out, fmt.Sprintf("%v/%d/%s/%s", r.Incoming, r.Port, r.Group, lc))
	}
	return strings.Join(out, ";")
}

// c19Allows: flat evaluation. All rules are proto tcp; every packet of the alphabet is unfragmented TCP.
func c19Allows(rs c19RuleSet, env c19Env, p firewall.Packet, incoming bool, peerGroups []string) bool {
	for _, r := range rs.Rules {
		if r.Incoming != incoming {
			continue
		}
		port := p.RemotePort
		if incoming {
			port = p.LocalPort
		}
		if r.Port != port {
			continue
		}
		if !c19LocalOK(r, env, p.LocalAddr) {
			continue
		}
		if r.Group == "" {
			return true
		}
		for _, g := range peerGroups {
			if g == r.Group {
				return true
			}
		}
	}
	return false
}

func c19FirewallSection(rs c19RuleSet, touch, defaultLocalAny bool) m {
	mk := func(incoming bool) []m {
		out := []m{}
		for _, r := range rs.Rules {
			if r.Incoming != incoming {
				continue
			}
			x := m{"port": int(r.Port), "proto": "tcp"}
			if r.Local != "" {
				x["local_cidr"] = r.Local
			}
			if r.Group == "" {
				x["host"] = "any"
			} else {
				x["group"] = r.Group
			}
			out = append(out, x)
		}
		return out
	}
	dt := "10m"
	if touch { // a firewall setting that is not a rule: the reload builds a new firewall with identical rules
		dt = "11m"
	}
	sec := m{"outbound": mk(false), "inbound": mk(true), "conntrack": m{"default_timeout": dt}}
	if defaultLocalAny { // the key is absent (default false) otherwise
		sec["default_local_cidr_any"] = true
	}
	return sec
}

type c19Pkt struct {
	Label    string
	Flow     string
	P        firewall.Packet
	Incoming bool
	Peer     int
}

const (
	c19N = 1 << iota // not tracked
	c19O             // tracked, original direction outgoing
	c19I             // tracked, original direction incoming
)

func c19SetString(s int) string {
	var p []string
	if s&c19N != 0 {
		p = append(p, "N")
	}
	if s&c19O != 0 {
		p = append(p, "O")
	}
	if s&c19I != 0 {
		p = append(p, "I")
	}
	return strings.Join(p, "")
}

type c19Ev struct {
	Kind byte // I idle period, P packet, L reload to rule set, T touch (non-rule firewall setting), D default_local_cidr_any toggle, U unsafe-network change, J set rulesVersion, K cache tick
	Arg  int
}

type c19Flow struct {
	set         int
	rulesChange bool // a reload changed the rules (text or meaning) since the flow was last known to be tracked
	textChange  bool // ... and at least one of those reloads changed the rule text (rulesChange && !textChange: only default_local_cidr_any / the certificate changed what the rules mean)
	settingNoEffect bool // a default_local_cidr_any / certificate reload that left the rules' meaning alone happened since the flow last passed
	wrapped     bool // N is in the set only/also because of a rulesVersion wrap
	reloads     int  // firewall-building reloads since the flow last passed
	idled       bool // the flow was tracked and expired by an idle period; no packet of the tuple has passed since
	reborn      int  // the flow was created by a rule-allowed packet while the expired entry of an earlier flow of the tuple was still in the table: 1 same original direction as the expired flow (or unknown), 2 the opposite one; 0 otherwise
	lastDir     int  // possibilities (O/I) of the flow an idle period expired
}

type c19Stat struct {
	mu sync.Mutex
	passRule, passFlow, dropUntracked, dropForgotten int64
	mustPassAfterNoChange, mustPassAfterChange        int64
	mustDropOrigDenied                                int64
	either                                            int64
	wrapForgotAllowed, wrapSeen                       int64
	noopReloads, effectiveReloads, unsafeReloads      int64
	unroutable, staleCacheHits                        int64
	groupDenied                                       int64
	dlaReloads, meaningOnlyReloads                    int64 // default_local_cidr_any toggles; reloads with identical rule text that change what the rules allow
	mustDropMeaningOnly, mustPassSettingNoEffect      int64
	versions                                          map[uint64]bool
	settingReloadsNotReflected                        int64
	idles, idleExpiredFlows, idleRealClock            int64 // idle periods; tracked flows they expired; ... of which on the virtual clock itself (full node)
	mustDropIdle                                      int64 // packet no rule allows on a flow an idle period expired: refused
	rebornOnStale, rebornOpposite                     int64 // flow created on a tuple whose expired entry was still in the real table; ... with the opposite original direction
	rebornJudgedPass, rebornJudgedDrop                int64 // such a flow judged after a later firewall-building reload: must pass / must be refused
	rebornOppositeJudged                              int64
}

type c19World struct {
	c     *mc.Check
	tb    testing.TB
	net   *vnet // nil for the minimal assembly
	cfg   *config.C
	f     *Interface
	alpha []c19Pkt
	hosts [2]*HostInfo
	// configuration state
	rs      int
	touch   bool
	unsafe  bool
	dla     bool // firewall.default_local_cidr_any
	jumped  bool
	idled   bool // an idle period happened in this history
	useCach bool
	caches  [2]firewall.ConntrackCache
	// reference
	ver   uint16
	flows map[firewall.Packet]*c19Flow
	trace []string
	st    *c19Stat // local to this world, merged into total at close
	total *c19Stat
}

var (
	c19Me  = netip.MustParseAddr("10.0.0.1")
	c19MeU = netip.MustParseAddr("172.16.0.5")
	c19P1  = netip.MustParseAddr("10.0.0.2")
	c19P2  = netip.MustParseAddr("10.0.0.3")
)

var c19PeerGroups = [2][]string{{"g1"}, nil}

func c19Alphabet(full bool) []c19Pkt {
	tcp := func(l netip.Addr, lp uint16, r netip.Addr, rp uint16) firewall.Packet {
		return firewall.Packet{LocalAddr: l, RemoteAddr: r, LocalPort: lp, RemotePort: rp, Protocol: firewall.ProtoTCP}
	}
	tA, tD, tE, tU := tcp(c19Me, 1000, c19P1, 80), tcp(c19Me, 80, c19P1, 2000), tcp(c19Me, 80, c19P1, 80), tcp(c19MeU, 1000, c19P1, 80)
	out := []c19Pkt{
		{"A.out", "A", tA, false, 0}, {"A.in", "A", tA, true, 0},
		{"D.in", "D", tD, true, 0}, {"D.out", "D", tD, false, 0},
		{"E.out", "E", tE, false, 0}, {"E.in", "E", tE, true, 0},
		{"U.out", "U", tU, false, 0}, {"U.in", "U", tU, true, 0},
	}
	if full {
		tG := tcp(c19Me, 1000, c19P2, 80) // same as A but to the peer without group g1
		out = append(out, c19Pkt{"G.out", "G", tG, false, 1}, c19Pkt{"G.in", "G", tG, true, 1})
		tV := tcp(c19MeU, 80, c19P1, 2000) // same as D but addressed to the unsafe-network address
		out = append(out, c19Pkt{"V.in", "V", tV, true, 0}, c19Pkt{"V.out", "V", tV, false, 0})
	}
	return out
}

// R5: both directions of port 80, local_cidr omitted. For every flow to the node's overlay address that is the same as R2; the
// flows to the unsafe-network address start out refused and depend on default_local_cidr_any.
const c19InitialSet = 5

func c19Spec() vnodeSpec {
	return vnodeSpec{Name: "me", Networks: "10.0.0.1/24", Unsafe: "172.16.0.0/16", Udp: "192.0.2.1:4242"}
}

var c19UDP = netip.MustParseAddrPort("192.0.2.1:4242")

// c19Mint creates every certificate the check uses (the shared PKI cache is not safe for concurrent minting).
func c19Mint() {
	pk, sp := vGetPKI(), c19Spec()
	pk.leafFor(sp.Name, sp.Networks, sp.Unsafe, nil, cert.Version2)
	pk.leafFor(sp.Name, sp.Networks, "", nil, cert.Version2)
	pk.leafFor("p1", "10.0.0.2/24", "", c19PeerGroups[0], cert.Version2)
	pk.leafFor("p2", "10.0.0.3/24", "", c19PeerGroups[1], cert.Version2)
}

// configYAML renders the node's complete configuration for the current (rule set, touch, unsafe) state: the E4 default
// configuration with the firewall section REPLACED (vnode.reload can only append to the default allow-all rules) and the
// node certificate with / without its unsafe network.
var c19YAMLCache sync.Map // (rule set, touch, unsafe, default_local_cidr_any) -> rendered configuration (pure function; rendering dominates otherwise)

func (w *c19World) configYAML() string {
	ck := [4]int{w.rs, map[bool]int{true: 1}[w.touch], map[bool]int{true: 1}[w.unsafe], map[bool]int{true: 1}[w.dla]}
	if v, ok := c19YAMLCache.Load(ck); ok {
		return v.(string)
	}
	sp := c19Spec()
	un := sp.Unsafe
	if !w.unsafe {
		un = ""
	}
	pk := vGetPKI()
	leaf := pk.leafFor(sp.Name, sp.Networks, un, nil, cert.Version2)
	cfg := vDefaultConfig(leaf, pk.caPEM, c19UDP)
	cfg["firewall"] = c19FirewallSection(c19Sets[w.rs], w.touch, w.dla)
	b, err := yaml.Marshal(cfg)
	if err != nil {
		w.c.Broken("yaml: %v", err)
	}
	c19YAMLCache.Store(ck, string(b))
	return string(b)
}

func (w *c19World) reload() {
	if err := w.cfg.ReloadConfigString(w.configYAML()); err != nil {
		w.c.Broken("reload: %v", err)
	}
	if w.net != nil {
		w.net.nodes[0].settle()
	}
}

func c19NewWorld(c *mc.Check, tb testing.TB, alpha []c19Pkt, fullNode, useCache bool, total *c19Stat) *c19World {
	w := &c19World{c: c, tb: tb, alpha: alpha, st: &c19Stat{versions: map[uint64]bool{}}, total: total, flows: map[firewall.Packet]*c19Flow{}, rs: c19InitialSet, unsafe: true, useCach: useCache}
	if fullNode {
		w.net = vNewNet(tb, c.Seed(), c19Spec())
		w.cfg, w.f = w.net.nodes[0].c, w.net.nodes[0].f
	} else {
		// minimal assembly: the two objects Interface.reloadFirewall works on, wired to a real config.C
		l := vNewLogger("me")
		w.cfg = config.NewC(l)
		// (starts directly with the initial rule set: rulesVersion 0 without any set-up reload)
		if err := w.cfg.LoadString(w.configYAML()); err != nil {
			c.Broken("config: %v", err)
		}
		pki, err := NewPKIFromConfig(l, w.cfg) // registers the PKI reload callback first, as Main() does
		if err != nil {
			c.Broken("pki: %v", err)
		}
		fw, err := NewFirewallFromConfig(l, pki.getCertState(), w.cfg)
		if err != nil {
			c.Broken("firewall: %v", err)
		}
		w.f = &Interface{firewall: fw, pki: pki, l: l}
		w.cfg.RegisterReloadCallback(w.f.reloadFirewall)
	}
	if fullNode {
		// set-up (not part of the judged history): the E4 default configuration is all-open and can only be appended to, so
		// the initial rule set is installed through the real reload path and the version counter put back to 0
		before := w.f.firewall
		w.reload()
		if w.f.firewall == before {
			c.Broken("set-up reload did not install a new firewall")
		}
		w.f.firewall.rulesVersion = 0
	}
	if fw := w.f.firewall; fw.rulesVersion != 0 || len(fw.Conntrack.Conns) != 0 || fw.GetRuleHash() == "" {
		c.Broken("unexpected initial firewall state: version=%d conns=%d", fw.rulesVersion, len(fw.Conntrack.Conns))
	}
	pk := vGetPKI()
	mine := w.f.pki.getCertState().myVpnNetworksTable
	for i, ps := range []struct{ name, net string }{{"p1", "10.0.0.2/24"}, {"p2", "10.0.0.3/24"}} {
		leaf := pk.leafFor(ps.name, ps.net, "", c19PeerGroups[i], cert.Version2)
		inv := map[string]struct{}{}
		for _, g := range leaf.crt.Groups() {
			inv[g] = struct{}{}
		}
		h := &HostInfo{ConnectionState: &ConnectionState{peerCert: &cert.CachedCertificate{Certificate: leaf.crt, InvertedGroups: inv}}}
		for _, nw := range leaf.crt.Networks() {
			h.vpnAddrs = append(h.vpnAddrs, nw.Addr())
		}
		h.buildNetworks(mine, leaf.crt)
		w.hosts[i] = h
	}
	if useCache {
		w.caches = [2]firewall.ConntrackCache{{}, {}}
	}
	return w
}

func (w *c19World) close() {
	if w.net != nil {
		w.net.close()
	}
	a, b := w.total, w.st
	a.mu.Lock()
	defer a.mu.Unlock()
	a.passRule += b.passRule
	a.passFlow += b.passFlow
	a.dropUntracked += b.dropUntracked
	a.dropForgotten += b.dropForgotten
	a.mustPassAfterNoChange += b.mustPassAfterNoChange
	a.mustPassAfterChange += b.mustPassAfterChange
	a.mustDropOrigDenied += b.mustDropOrigDenied
	a.either += b.either
	a.wrapForgotAllowed += b.wrapForgotAllowed
	a.wrapSeen += b.wrapSeen
	a.noopReloads += b.noopReloads
	a.effectiveReloads += b.effectiveReloads
	a.unsafeReloads += b.unsafeReloads
	a.unroutable += b.unroutable
	a.staleCacheHits += b.staleCacheHits
	a.groupDenied += b.groupDenied
	a.dlaReloads += b.dlaReloads
	a.settingReloadsNotReflected += b.settingReloadsNotReflected
	a.idles += b.idles
	a.idleExpiredFlows += b.idleExpiredFlows
	a.idleRealClock += b.idleRealClock
	a.mustDropIdle += b.mustDropIdle
	a.rebornOnStale += b.rebornOnStale
	a.rebornOpposite += b.rebornOpposite
	a.rebornJudgedPass += b.rebornJudgedPass
	a.rebornJudgedDrop += b.rebornJudgedDrop
	a.rebornOppositeJudged += b.rebornOppositeJudged
	a.meaningOnlyReloads += b.meaningOnlyReloads
	a.mustDropMeaningOnly += b.mustDropMeaningOnly
	a.mustPassSettingNoEffect += b.mustPassSettingNoEffect
	for v := range b.versions {
		a.versions[v] = true
	}
}

func (w *c19World) violation(sig string, extra map[string]any) {
	d := map[string]any{"history": append([]string{}, w.trace...), "rules_now": c19Sets[w.rs].Name, "rulesVersion_now": w.f.firewall.rulesVersion,
		"initial": c19Sets[c19InitialSet].Name + ", rulesVersion 0, default_local_cidr_any false, certificate unsafe network 172.16.0.0/16", "routine_cache": w.useCach,
		"default_local_cidr_any_now": w.dla, "certificate_unsafe_network_now": w.unsafe, "rules_meaning_now": c19Meaning(c19Sets[w.rs], w.env())}
	for k, v := range extra {
		d[k] = v
	}
	w.c.Violation("reload: "+sig, d)
}

func (w *c19World) peerGroups(p firewall.Packet) []string {
	if p.RemoteAddr == c19P2 {
		return c19PeerGroups[1]
	}
	return c19PeerGroups[0]
}

func (w *c19World) env() c19Env { return c19Env{DefaultLocalAny: w.dla, Unsafe: w.unsafe} }

func (w *c19World) allows(p firewall.Packet, incoming bool) bool {
	return c19Allows(c19Sets[w.rs], w.env(), p, incoming, w.peerGroups(p))
}

// afterEffectiveReload updates the reference for a reload that built a new firewall. rulesChanged: the rules (text or
// meaning) differ from the previous configuration's; textChanged: the rule text differs.
func (w *c19World) afterEffectiveReload(rulesChanged, textChanged bool) {
	w.st.effectiveReloads++
	w.ver++
	wrap := w.ver == 0
	if wrap {
		w.st.wrapSeen++
	}
	for t, f := range w.flows {
		f.reloads++
		if rulesChanged {
			f.rulesChange = true
		}
		if textChanged {
			f.textChange = true
		}
		if wrap && f.set != c19N {
			f.set |= c19N
			f.wrapped = true
		}
		if f.set&c19O != 0 && !w.allows(t, false) {
			f.set |= c19N
		}
		if f.set&c19I != 0 && !w.allows(t, true) {
			f.set |= c19N
		}
	}
}

func (w *c19World) packet(i int) {
	pk := &w.alpha[i]
	st := w.st
	fw := w.f.firewall
	var cache firewall.ConntrackCache
	stale := false
	if w.useCach {
		ci := 0
		if pk.Incoming {
			ci = 1
		}
		cache = w.caches[ci]
		_, stale = cache[pk.P]
	}
	staleEntry := false // (read only, statistics) the real table still holds an expired entry of this tuple
	if ce, ok := fw.Conntrack.Conns[pk.P]; ok && !ce.Expires.After(vtime.Now()) {
		staleEntry = true
	}
	err := fw.Drop(pk.P, pk.Incoming, w.hosts[pk.Peer], w.f.pki.GetCAPool(), cache)
	pass := err == nil
	detail := map[string]any{"packet": pk.Label, "fwPacket": pk.P, "incoming": pk.Incoming, "drop_result": fmt.Sprint(err)}

	if pk.P.LocalAddr == c19MeU && !w.unsafe {
		st.unroutable++ // the node no longer owns that local address: refused before conntrack; C17's subject, not judged here
		if pass {
			w.violation("a packet for a local address the node's certificate no longer covers passes", detail)
		}
		return
	}
	if stale {
		st.staleCacheHits++ // the routine-local cache is not version-aware by design; judged again after the next cache tick
		return
	}
	rs := c19Sets[w.rs]
	groups := w.peerGroups(pk.P)
	f := w.flows[pk.P]
	if f == nil {
		f = &c19Flow{set: c19N}
		w.flows[pk.P] = f
	}
	before := f.set
	// revalidation: possibilities whose original direction the current rules do not allow are forgotten
	cur := f.set
	origDenied := false
	if cur&c19O != 0 && !w.allows(pk.P, false) {
		cur = cur&^c19O | c19N
		origDenied = true
	}
	if cur&c19I != 0 && !w.allows(pk.P, true) {
		cur = cur&^c19I | c19N
		origDenied = true
	}
	ruleNow := w.allows(pk.P, pk.Incoming)
	if !ruleNow && len(groups) == 0 && c19Allows(rs, w.env(), pk.P, pk.Incoming, []string{"g1"}) {
		st.groupDenied++
	}
	dirBit := c19O
	if pk.Incoming {
		dirBit = c19I
	}
	next := 0 // possibilities consistent with the observed verdict
	predictPass, predictDrop := false, false
	if cur&c19O != 0 {
		predictPass = true
		if pass {
			next |= c19O
		}
	}
	if cur&c19I != 0 {
		predictPass = true
		if pass {
			next |= c19I
		}
	}
	if cur&c19N != 0 {
		if ruleNow {
			predictPass = true
			if pass {
				next |= dirBit
			}
		} else {
			predictDrop = true
			if !pass {
				next |= c19N
			}
		}
	}
	detail["reference_before"], detail["reference_after_revalidation"] = c19SetString(before), c19SetString(cur)
	detail["a_current_rule_allows_this_packet"] = ruleNow
	if f.idled {
		detail["flow_expired_by_idle_period"] = true
	}
	if f.reborn != 0 {
		detail["flow_created_on_tuple_of_expired_flow_still_in_table"] = map[int]string{1: "same original direction", 2: "opposite original direction"}[f.reborn]
	}

	switch {
	case pass && !predictPass:
		if before&(c19O|c19I) != 0 && origDenied {
			sig := "a tracked flow is honoured although the current rules no longer allow its original direction"
			if f.rulesChange && !f.textChange {
				sig += " (rule text unchanged: default_local_cidr_any / the certificate's unsafe networks changed what the rules allow)"
			}
			w.violation(sig, detail)
		} else {
			w.violation("a packet that no rule allows passes although its flow is not tracked", detail)
		}
		next = c19O | c19I
	case !pass && !predictDrop:
		switch {
		case ruleNow:
			w.violation("a packet that a current rule allows is dropped", detail)
		case !f.rulesChange:
			w.violation("an established flow is cut by reloads that change nothing about the rules", detail)
		default:
			w.violation("an established flow is cut although the current rules still allow its original direction", detail)
		}
		next = c19N
	default:
		// verdict within the permitted behaviours: statistics
		switch {
		case predictPass && predictDrop:
			st.either++
			if !pass && f.wrapped && cur&(c19O|c19I) != 0 {
				st.wrapForgotAllowed++
			}
		case pass && cur&c19N == 0:
			st.passFlow++
			if !ruleNow {
				if f.rulesChange {
					st.mustPassAfterChange++
				} else if f.reloads > 0 {
					st.mustPassAfterNoChange++
				}
			}
			if !f.rulesChange && f.settingNoEffect {
				st.mustPassSettingNoEffect++
			}
			if f.reborn != 0 && f.reloads > 0 {
				st.rebornJudgedPass++
				if f.reborn == 2 {
					st.rebornOppositeJudged++
				}
			}
		case pass:
			st.passRule++
			if before == c19N && f.idled && staleEntry {
				st.rebornOnStale++
				f.reborn = 1
				if f.lastDir&dirBit == 0 {
					f.reborn = 2
					st.rebornOpposite++
				}
			}
		case origDenied:
			st.mustDropOrigDenied++
			st.dropForgotten++
			if f.rulesChange && !f.textChange {
				st.mustDropMeaningOnly++
			}
			if f.reborn != 0 && f.reloads > 0 {
				st.rebornJudgedDrop++
				if f.reborn == 2 {
					st.rebornOppositeJudged++
				}
			}
		default:
			st.dropUntracked++
			if f.idled {
				st.mustDropIdle++
			}
		}
	}
	f.set = next
	if next == c19N {
		f.reborn = 0
	}
	if next&c19N == 0 || next == c19N {
		f.wrapped = false
	}
	if pass {
		f.rulesChange, f.textChange, f.settingNoEffect, f.reloads = false, false, false, 0 // validated (or created) under the current rules
		f.idled, f.lastDir = false, 0
	}
}

func (w *c19World) apply(e c19Ev) {
	w.trace = append(w.trace, w.label(e))
	switch e.Kind {
	case 'P':
		w.packet(e.Arg)
	case 'L':
		changed := e.Arg != w.rs
		w.rs = e.Arg
		before := w.f.firewall
		w.reload()
		if w.f.firewall != before != changed {
			w.c.Broken("reload to %s: new firewall installed = %v, configuration changed = %v", c19Sets[e.Arg].Name, w.f.firewall != before, changed)
		}
		if changed {
			w.afterEffectiveReload(true, true)
		} else {
			w.st.noopReloads++
		}
	case 'T':
		w.touch = !w.touch
		before := w.f.firewall
		w.reload()
		if w.f.firewall == before {
			w.c.Broken("touch reload did not build a new firewall")
		}
		w.afterEffectiveReload(false, false)
	case 'D', 'U':
		// same rule text; what it means may change
		meant := c19Meaning(c19Sets[w.rs], w.env())
		if e.Kind == 'D' {
			w.dla = !w.dla
			w.st.dlaReloads++
		} else {
			w.unsafe = !w.unsafe
			w.st.unsafeReloads++
		}
		hash := w.f.firewall.GetRuleHash()
		before := w.f.firewall
		w.reload()
		// Whether the implementation rebuilt its firewall for this change is its own business: the packets that follow are
		// judged against the NEW meaning of the rule text either way (a reload that keeps the old firewall although the
		// certificate or the setting changed shows up as flows / packets honoured that the current rules refuse).
		if w.f.firewall == before || w.f.firewall.defaultLocalCIDRAny != w.dla || (len(w.f.firewall.unsafeNetworks) > 0) != w.unsafe {
			w.st.settingReloadsNotReflected++
		}
		if w.f.firewall.GetRuleHash() != hash {
			w.c.Broken("%s changed the rule hash: the event is meant to leave the rule text alone", w.label(e))
		}
		changed := c19Meaning(c19Sets[w.rs], w.env()) != meant
		if changed {
			w.st.meaningOnlyReloads++
		} else {
			for _, f := range w.flows {
				f.settingNoEffect = true
			}
		}
		w.afterEffectiveReload(changed, false)
	case 'I':
		// No packet of any flow for c19Idle. Full node: the virtual clock itself advances (every timer of the node that
		// becomes due fires). Minimal assembly (parallel worlds, the virtual clock is process-global): the equivalent time
		// translation - every instant the conntrack table stores (entry expiry, the wheel's last tick) moves c19Idle into
		// the past; nothing else of this assembly reads the clock.
		if w.net != nil {
			vtime.Advance(c19Idle)
			w.net.nodes[0].settle()
			w.st.idleRealClock++
		} else {
			c19Age(w.f.firewall, c19Idle)
		}
		if w.useCach {
			w.caches = [2]firewall.ConntrackCache{{}, {}} // the routine caches' period is far shorter than the idle period
		}
		w.idled = true
		w.st.idles++
		for _, f := range w.flows {
			if f.set&(c19O|c19I) != 0 {
				w.st.idleExpiredFlows++
				f.idled, f.lastDir = true, f.set&(c19O|c19I)
			}
			f.set, f.reborn = c19N, 0
			f.rulesChange, f.textChange, f.settingNoEffect, f.wrapped, f.reloads = false, false, false, false, 0
		}
	case 'J':
		// far-away start state: as if (Arg - current) further reloads that changed nothing about the rules had happened with
		// no traffic in between — the private counter is set directly (DESIGN §2.3)
		c19SetVersion(w.c, w.f.firewall, uint64(e.Arg)) // (through reflection: the counter's integer type is the implementation's business)
		w.ver = uint16(e.Arg)
		w.jumped = true
	case 'K':
		w.caches = [2]firewall.ConntrackCache{{}, {}} // what ConntrackCacheTicker.Get does after a tick
	}
	// (w.ver, the reference's own count of effective reloads, decides where a wrap is tolerated; the implementation's counter
	// is only recorded)
	w.st.versions[c19Version(w.c, w.f.firewall)] = true
}

func (w *c19World) label(e c19Ev) string {
	switch e.Kind {
	case 'P':
		return w.alpha[e.Arg].Label
	case 'L':
		return "reload(" + c19Sets[e.Arg].Name + ")"
	case 'T':
		return "reload(same rules, conntrack.default_timeout changed)"
	case 'D':
		return "reload(same rules, default_local_cidr_any toggled)"
	case 'U':
		return "reload(certificate unsafe network toggled)"
	case 'I':
		return fmt.Sprintf("idle(%v without traffic)", c19Idle)
	case 'J':
		return fmt.Sprintf("set rulesVersion=%d", e.Arg)
	case 'K':
		return "cache-tick"
	}
	return "?"
}

func (w *c19World) menu(sets []int) []c19Ev {
	var out []c19Ev
	for i := range w.alpha {
		out = append(out, c19Ev{'P', i})
	}
	for _, s := range sets {
		out = append(out, c19Ev{'L', s})
	}
	out = append(out, c19Ev{'T', 0}, c19Ev{'D', 0}, c19Ev{'U', 0})
	if !w.jumped && !w.idled {
		// (one idle period or one counter jump per history: the two far-away mechanisms are not combined)
		out = append(out, c19Ev{'J', 65534}, c19Ev{'J', 65535})
		for _, f := range w.flows {
			if f.set&(c19O|c19I) != 0 { // an idle period with no flow to expire changes nothing
				out = append(out, c19Ev{'I', 0})
				break
			}
		}
	}
	if w.useCach {
		out = append(out, c19Ev{'K', 0})
	}
	return out
}

func (w *c19World) key() string {
	var sb strings.Builder
	fw := w.f.firewall
	names := map[firewall.Packet]string{}
	for _, p := range w.alpha {
		names[p.P] = p.Flow
	}
	fmt.Fprintf(&sb, "rs=%d t=%v u=%v d=%v/%v j=%v i=%v v=%d h=%s un=%v|", w.rs, w.touch, w.unsafe, w.dla, fw.defaultLocalCIDRAny, w.jumped, w.idled, fw.rulesVersion, fw.GetRuleHash()[:8], fw.unsafeNetworks)
	var cs []string
	now := vtime.Now()
	for p, c := range fw.Conntrack.Conns {
		cs = append(cs, fmt.Sprintf("%s:%v:%d:%v", names[p], c.incoming, c.rulesVersion, c.Expires.After(now)))
	}
	sort.Strings(cs)
	sb.WriteString(strings.Join(cs, ","))
	if w.idled {
		// after the idle period the wheel decides when the expired entries leave the table: the reaping queue and the
		// slots (relative to the wheel's position) are part of the state. Before it the clock stands still and the wheel's
		// content only mirrors the order of insertion (not distinguished, as before).
		tw := fw.Conntrack.TimerWheel
		sb.WriteString("|wheel=")
		for it := tw.expired.Head; it != nil; it = it.Next {
			sb.WriteString(names[it.Item] + ".")
		}
		for k := 0; k < tw.wheelLen; k++ {
			sb.WriteString("/")
			for it := tw.wheel[(tw.current+k)%tw.wheelLen].Head; it != nil; it = it.Next {
				sb.WriteString(names[it.Item] + ".")
			}
		}
		if tw.lastTick != nil {
			fmt.Fprintf(&sb, "@%v", now.Sub(*tw.lastTick))
		}
	}
	if w.useCach {
		for i := range w.caches {
			var ks []string
			for p := range w.caches[i] {
				ks = append(ks, names[p])
			}
			sort.Strings(ks)
			fmt.Fprintf(&sb, "|c%d=%s", i, strings.Join(ks, ","))
		}
	}
	var rs []string
	for p, f := range w.flows {
		if f.set == c19N && !f.rulesChange && !f.idled {
			continue
		}
		rs = append(rs, fmt.Sprintf("%s=%s/%v/%v/%v/%v/%v/%v%s/%d", names[p], c19SetString(f.set), f.rulesChange, f.textChange, f.settingNoEffect, f.wrapped, f.reloads > 0, f.idled, c19SetString(f.lastDir), f.reborn))
	}
	sort.Strings(rs)
	sb.WriteString("|ref=" + strings.Join(rs, ","))
	return sb.String()
}

func TestVerifC19(t *testing.T) {
	c := mc.Begin(t, "C19", "model_checking")
	defer c.End()

	c.Assume("observation point is Firewall.Drop of the node's current firewall (f.firewall) after each reload; reloads go through config.C.ReloadConfigString and the registered callbacks of a goroutine-free real node; peers are hand-built HostInfos with real certificates of the node's CA (no handshake in the loop)")
	c.Assume("rule sets: R0 allow out tcp/80, R1 allow in tcp/80, R2 both, R3 none, (thorough) R4 allow out tcp/80 for group g1 - these with host any / local_cidr any; R5 = R2 with local_cidr omitted, (thorough) R6 out tcp/80 local_cidr omitted + in tcp/80 local_cidr 172.16.0.0/16; initial state R5, default_local_cidr_any false, certificate with unsafe network 172.16.0.0/16, rulesVersion 0, empty table")
	c.Assume("what a rule set allows is a function of the rule text, firewall.default_local_cidr_any and the certificate's unsafe networks (omitted local_cidr = any local address if default_local_cidr_any is set or the certificate has no unsafe networks, else the node's own overlay networks; examples/config.yml). A reload that changes only the setting or the certificate is 'a reload that changes nothing about the rules' exactly when no rule's meaning changes; otherwise tracked flows must be revalidated against the new meaning")
	c.Assume("a flow is forgotten at the latest when one of its packets is evaluated while the current rules deny its original direction (the statement's 'otherwise the flow is forgotten'); it must then not come back without a new allowed packet")
	c.Assume("lazy and eager forgetting are both accepted: a flow whose original direction some intermediate rule set denied may or may not survive until rules allow it again (weak reading of 'otherwise the flow is forgotten')")
	c.Assume("a rulesVersion wrap (65535 -> 0) may forget any flow, even one the rules still allow and even when the reload changed nothing about the rules (DESIGN ◊: forgetting more than necessary on wrap is tolerated; counted in wrap_forgot_still_allowed_flows); honouring a flow the rules no longer allow is never tolerated")
	c.Assume("far-away start states: rulesVersion 65534 / 65535 are written into the private field once per history (equivalent to that many no-traffic reloads that changed nothing about the rules); outside the idle event the clock does not advance")
	c.Assume(fmt.Sprintf("idle event (at most one per history, not combined with the counter jump): no packet of any flow for %v, far beyond every conntrack timeout (tcp 12m) plus the timer wheel's rounding C18 grants; every tracked flow is then expired (C18's statement): a packet no rule allows is refused, a rule-allowed packet starts a NEW flow whose original direction is that packet's, and the reloads that follow judge that flow. On the full node the virtual clock itself advances; in the minimal assembly (parallel worlds, process-global clock) the equivalent time translation is applied to the instants the conntrack table stores (entry expiry, the wheel's last tick)", c19Idle))
	c.Assume("routine-local cache (thorough only): modelled as the two per-direction maps handed to Drop, cleared by an explicit cache-tick event; a verdict served from a stale cache entry is not judged (the cache is not version-aware by design and bounded by its period)")
	c.Assume("packets whose local address the node's certificate no longer covers (after the unsafe-network change) must be refused, but that is C17's subject: it is reported under its own signature")

	st := &c19Stat{versions: map[uint64]bool{}}
	c19Mint()
	sets := []int{0, 1, 2, 3, 5}
	if c.Thorough() {
		sets = append(sets, 4, 6)
	}
	alpha := c19Alphabet(c.Thorough())
	type boxT struct {
		name     string
		fullNode bool
		cache    bool
		depth    int
		share    float64 // cumulative share of the soft budget after which this box stops (a box that closes early leaves its time to the next)
		starts   [][]c19Ev // scripted start states (each searched to depth on its own); nil: the initial state
	}
	// start states "one flow tracked, then expired by the idle period, its entry still in the table": one per packet of the
	// alphabet that the initial rules let start a flow
	var idleStarts [][]c19Ev
	for i := range alpha {
		w := c19NewWorld(c, t, alpha, false, false, &c19Stat{versions: map[uint64]bool{}})
		w.apply(c19Ev{'P', i})
		if f := w.flows[alpha[i].P]; f != nil && f.set&(c19O|c19I) != 0 {
			idleStarts = append(idleStarts, []c19Ev{{'P', i}, {'I', 0}})
		}
		w.close()
	}
	c.Set("idle_start_states", len(idleStarts))
	// cheap-and-deep first: the minimal assembly runs in parallel and reaches every situation of the vacuity guards; the full
	// node (one worker, ~3 ms per history) then repeats the shallow part with every reload callback of Main() registered
	// (cheapest first: the start-state box is small, so a run that the shared machine caps has still seen the idle situations;
	// the idle event is also part of every other box's menu, at any position of the history)
	boxes := []boxT{
		{"minimal assembly from the expired-flow start states", false, false, mc.Pick(c, 3, 4), mc.Pick(c, 0.15, 0.05), idleStarts},
		{"minimal assembly", false, false, mc.Pick(c, 5, 7), mc.Pick(c, 0.65, 0.55), nil},
		{"full node", true, false, mc.Pick(c, 3, 4), mc.Pick(c, 1.0, 0.8), nil},
	}
	if c.Thorough() {
		boxes = append(boxes, boxT{"minimal assembly + routine cache", false, true, 6, 1.0, nil})
	}
	budget := mc.Pick(c, 45.0, 900.0)
	if f, err := strconv.ParseFloat(os.Getenv("VERIF_BUDGET_S"), 64); err == nil && f > 0 {
		budget = f // bin/vcheck always exports it
	}
	perBox := map[string]any{}
	complete := true
	for _, b := range boxes {
		b := b
		var timedOut atomic.Bool
		vtime.Reset() // the parallel worlds of the minimal assembly only read the clock: it stands at Epoch for each box
		starts := b.starts
		if starts == nil {
			starts = [][]c19Ev{nil}
		}
		var res mc.BFSResult
		res.Exhaustive = true
		for _, start := range starts {
			start := start
			r := mc.BFSReplay(c, mc.BFSConfig[c19Ev]{
			MaxDepth: b.depth,
			Workers:  map[bool]int{true: 1, false: 0}[b.fullNode], // node assembly pins process-global randomness and the virtual clock
			Label: func(e c19Ev) string {
				w := &c19World{alpha: alpha}
				return w.label(e)
			},
			Stop: func() bool {
				if c.OutOfTime() || c.Elapsed() > b.share*budget {
					timedOut.Store(true)
					return true
				}
				return false
			},
			Run: func(hist []c19Ev) (string, []c19Ev) {
				w := c19NewWorld(c, t, alpha, b.fullNode, b.cache, st)
				defer w.close()
				for _, e := range start {
					w.apply(e)
				}
				for _, e := range hist {
					w.apply(e)
				}
				return w.key(), w.menu(sets)
			},
			})
			res.States += r.States
			res.Transitions += r.Transitions
			if r.MaxDepth > res.MaxDepth {
				res.MaxDepth = r.MaxDepth
			}
			res.Exhaustive = res.Exhaustive && r.Exhaustive
		}
		fmt.Printf("INFO C19 %s: states=%d transitions=%d depth=%d closed=%v t=%.1fs\n", b.name, res.States, res.Transitions, res.MaxDepth, res.Exhaustive, c.Elapsed())
		perBox[b.name] = map[string]any{"states": res.States, "transitions": res.Transitions, "max_depth": res.MaxDepth, "closed": res.Exhaustive}
		if timedOut.Load() {
			complete = false
		}
		if c.OutOfTime() {
			complete = false
			break
		}
	}
	var vs []int
	for v := range st.versions {
		vs = append(vs, int(v))
	}
	sort.Ints(vs)
	var ru syscall.Rusage
	if syscall.Getrusage(syscall.RUSAGE_SELF, &ru) == nil { // the box is shared: CPU seconds, not wall time, size the tiers
		c.Set("cpu_seconds", float64(ru.Utime.Sec+ru.Stime.Sec)+float64(ru.Utime.Usec+ru.Stime.Usec)/1e6)
	}
	c.Set("per_box", perBox)
	c.Set("rule_sets", len(sets))
	c.Set("packet_alphabet", len(alpha))
	c.Set("rules_versions_reached", vs)
	c.Set("outcomes", map[string]any{
		"passed_by_rule": st.passRule, "passed_by_tracked_flow": st.passFlow, "refused_untracked": st.dropUntracked,
		"refused_flow_forgotten_original_direction_denied": st.dropForgotten,
		"must_pass_after_reloads_without_rule_change": st.mustPassAfterNoChange, "must_pass_after_rule_change_still_allowed": st.mustPassAfterChange,
		"must_drop_original_direction_denied": st.mustDropOrigDenied, "either_verdict_accepted": st.either,
		"wraps": st.wrapSeen, "wrap_forgot_still_allowed_flows": st.wrapForgotAllowed, "noop_reloads": st.noopReloads,
		"effective_reloads": st.effectiveReloads, "unsafe_network_reloads": st.unsafeReloads, "unroutable_local_address_probes": st.unroutable,
		"stale_cache_verdicts_not_judged": st.staleCacheHits, "group_rule_denied_other_peer": st.groupDenied,
		"setting_reloads_not_reflected_in_the_installed_firewall_info": st.settingReloadsNotReflected, "default_local_cidr_any_reloads": st.dlaReloads, "same_text_reloads_that_change_what_rules_allow": st.meaningOnlyReloads,
		"must_drop_after_same_text_meaning_change": st.mustDropMeaningOnly, "must_pass_after_setting_or_certificate_reload_without_effect": st.mustPassSettingNoEffect,
	})
	kinds := 0
	for _, n := range []int64{st.passRule, st.passFlow, st.dropUntracked, st.dropForgotten, st.either, st.wrapForgotAllowed} {
		if n > 0 {
			kinds++
		}
	}
	c.Set("idle", map[string]any{
		"idle_periods": st.idles, "of_which_on_the_virtual_clock_itself": st.idleRealClock, "tracked_flows_expired_by_idle": st.idleExpiredFlows,
		"must_drop_flow_expired_by_idle": st.mustDropIdle, "flows_created_on_expired_entry_still_in_table": st.rebornOnStale,
		"of_which_with_opposite_original_direction": st.rebornOpposite, "such_flows_judged_after_later_reload_must_pass": st.rebornJudgedPass,
		"such_flows_judged_after_later_reload_must_drop": st.rebornJudgedDrop, "opposite_direction_ones_judged_after_later_reload": st.rebornOppositeJudged,
	})
	c.Set("distinct_outcomes", kinds)

	if complete && c.Violations() == 0 {
		c.Require(st.passRule > 0 && st.passFlow > 0 && st.dropUntracked > 0 && st.dropForgotten > 0, "outcomes missing: by-rule=%d by-flow=%d untracked=%d forgotten=%d", st.passRule, st.passFlow, st.dropUntracked, st.dropForgotten)
		c.Require(st.mustPassAfterNoChange > 0, "no established flow judged after a reload that changed nothing about the rules")
		c.Require(st.mustPassAfterChange > 0, "no established flow judged after a rule change that still allows it")
		c.Require(st.mustDropOrigDenied > 0, "no flow judged whose original direction the new rules deny")
		c.Require(st.noopReloads > 0 && st.unsafeReloads > 0 && st.dlaReloads > 0, "reload kinds missing: identical=%d unsafe=%d default_local_cidr_any=%d", st.noopReloads, st.unsafeReloads, st.dlaReloads)
		c.Require(st.meaningOnlyReloads > 0 && st.mustDropMeaningOnly > 0, "no flow judged whose original direction is denied after a reload with identical rule text (reloads=%d judged=%d)", st.meaningOnlyReloads, st.mustDropMeaningOnly)
		c.Require(st.mustPassSettingNoEffect > 0, "no established flow judged after a default_local_cidr_any / certificate reload that leaves the rules' meaning alone")
		c.Require(st.wrapSeen > 0 && st.wrapForgotAllowed > 0, "version wrap not exercised: wraps=%d forgot=%d", st.wrapSeen, st.wrapForgotAllowed)
		c.Require(st.versions[0] && st.versions[65534] && st.versions[65535] && st.versions[1], "rulesVersion values reached: %v", vs)
		c.Require(st.idles > 0 && st.idleRealClock > 0 && st.idleExpiredFlows > 0 && st.mustDropIdle > 0, "idle event not exercised: periods=%d on the clock=%d flows expired=%d refused afterwards=%d", st.idles, st.idleRealClock, st.idleExpiredFlows, st.mustDropIdle)
		c.Require(st.rebornOnStale > 0 && st.rebornOpposite > 0, "no flow created on a tuple whose expired entry was still in the table (any=%d, opposite direction=%d)", st.rebornOnStale, st.rebornOpposite)
		c.Require(st.rebornJudgedPass > 0 && st.rebornJudgedDrop > 0 && st.rebornOppositeJudged > 0, "no flow created on an expired entry judged after a later reload (must pass=%d, must drop=%d, opposite direction=%d)", st.rebornJudgedPass, st.rebornJudgedDrop, st.rebornOppositeJudged)
		c.Require(st.unroutable > 0, "unsafe-network flow never probed while the network was withdrawn")
		if c.Thorough() {
			c.Require(st.staleCacheHits > 0, "routine cache never served a verdict")
			c.Require(st.groupDenied > 0, "group rule never distinguished the two peers")
		}
		c.Require(kinds >= 5, "only %d distinct outcome kinds", kinds)
	}
}

// c19VersionField reaches Firewall.rulesVersion through reflection so that the harness keeps building when the counter's
// integer type changes (its width is exactly what a wrap-around regression would touch).
func c19VersionField(c *mc.Check, fw *Firewall) reflect.Value {
	f := reflect.ValueOf(fw).Elem().FieldByName("rulesVersion")
	if !f.IsValid() || !f.CanAddr() || !f.CanUint() {
		c.Broken("Firewall.rulesVersion is not an unsigned integer field any more")
	}
	return reflect.NewAt(f.Type(), unsafe.Pointer(f.UnsafeAddr())).Elem()
}

// c19Idle: the idle period. Conntrack timeouts of the configuration: tcp 12m, udp 3m, default 10m/11m; wheel tick 3m.
const c19Idle = 6 * vtime.Hour

// c19Age is the time translation "d passed without traffic" on everything the conntrack table stores about time.
func c19Age(fw *Firewall, d vtime.Duration) {
	ct := fw.Conntrack
	ct.Lock()
	defer ct.Unlock()
	for _, e := range ct.Conns {
		e.Expires = e.Expires.Add(-d)
	}
	if lt := ct.TimerWheel.lastTick; lt != nil {
		t := lt.Add(-d)
		ct.TimerWheel.lastTick = &t
	}
}

func c19SetVersion(c *mc.Check, fw *Firewall, v uint64) { c19VersionField(c, fw).SetUint(v) }
func c19Version(c *mc.Check, fw *Firewall) uint64      { return c19VersionField(c, fw).Uint() }
