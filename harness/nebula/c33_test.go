//go:build verif

package nebula

import (
	"fmt"
	"sort"
	"strings"
	"sync"
	"testing"
	"time"

	"github.com/slackhq/nebula/zzverif/mc"
)

// C33 — the timer wheel fires each item once, on time.
//
// Explicit-state BFS (by replay) over the REAL TimerWheel[int]. Every history is executed on a fresh wheel; the wheel
// takes `now` as a parameter, so the clock is simply a number owned by the harness (no shim). Operations: Advance to
// now+dt, Add(fresh id, timeout) (at most 3 outstanding items), Purge (one item), PurgeAll (until Purge says false).
//
// Reference model (flat list): for every added item (id, addTime, timeout):
//   lower = addTime + roundUpToTick(min(timeout, span))                    -- must not be returned while now < lower
//   upper = addTime + max(tick, roundUpToTick(min(timeout, span))) + 2*tick -- a PurgeAll at now >= upper must have produced it
// plus: every id returned by Purge is outstanding (never returned twice, never invented).
//
// All times are integer multiples of a quantum; the interesting phases (wheel advanced to the middle of a tick) are
// reached with dt = 1 quantum.

const c33Quantum = time.Millisecond

type c33Cfg struct {
	Tick, Span int64 // in quanta
}

func (g c33Cfg) String() string { return fmt.Sprintf("tick=%d,span=%d", g.Tick, g.Span) }

type c33Ev struct {
	Op  byte // 'A' advance by Arg quanta, 'I' insert with timeout Arg quanta, 'P' purge one, 'F' purge all
	Arg int64
}

func c33Label(e c33Ev) string {
	switch e.Op {
	case 'A':
		return fmt.Sprintf("Advance(+%d)", e.Arg)
	case 'I':
		return fmt.Sprintf("Add(timeout=%d)", e.Arg)
	case 'P':
		return "Purge"
	}
	return "PurgeAll"
}

type c33Item struct {
	id           int
	added        int64
	timeout      int64
	lower, upper int64
}

// c33World is one fresh wheel plus its reference list.
type c33World struct {
	c     *mc.Check
	cfg   c33Cfg
	tw    *TimerWheel[int]
	base  time.Time
	now   int64 // quanta since base; the wheel has always been advanced to exactly this time
	live  map[int]*c33Item
	done  map[int]bool
	next  int
	trace []string
	stat  c33Stats // per world, merged into the global one when the replay ends
	into  *c33Stats
}

// flush merges the per-replay statistics into the shared ones.
func (w *c33World) flush() {
	g, s := w.into, &w.stat
	g.mu.Lock()
	defer g.mu.Unlock()
	if s.returned > 0 {
		if g.returned == 0 || s.minSlack < g.minSlack {
			g.minSlack = s.minSlack
		}
		if s.maxSlack > g.maxSlack {
			g.maxSlack = s.maxSlack
		}
	}
	g.returned += s.returned
	g.capped += s.capped
	g.addedCapped += s.addedCapped
	g.rounded += s.rounded
	g.emptyPurge += s.emptyPurge
	g.longGap += s.longGap
	g.recycled += s.recycled
	g.cacheDrop += s.cacheDrop
}

type c33Stats struct {
	mu                                       sync.Mutex
	returned, capped, rounded, addedCapped   int64
	emptyPurge, longGap, recycled, cacheDrop int64
	minSlack, maxSlack                       int64
}

func c33CeilTick(x, tick int64) int64 {
	if x <= 0 {
		return 0
	}
	return ((x + tick - 1) / tick) * tick
}

func c33NewWorld(c *mc.Check, cfg c33Cfg, stat *c33Stats) *c33World {
	w := &c33World{c: c, cfg: cfg, base: time.Unix(1_700_000_000, 0), live: map[int]*c33Item{}, done: map[int]bool{}, into: stat}
	w.tw = NewTimerWheel[int](time.Duration(cfg.Tick)*c33Quantum, time.Duration(cfg.Span)*c33Quantum)
	w.tw.Advance(w.base) // "a wheel that was advanced to the current time"
	return w
}

func (w *c33World) timeoutClass(to int64) string {
	switch {
	case to < w.cfg.Tick:
		return "timeout below one tick"
	case to > w.cfg.Span:
		return "timeout above the span"
	case to%w.cfg.Tick == 0:
		return "timeout a multiple of the tick"
	}
	return "timeout not a multiple of the tick"
}

func (w *c33World) violation(sig string, extra map[string]any) {
	d := map[string]any{"config": w.cfg.String(), "history": append([]string{}, w.trace...), "now": w.now}
	for k, v := range extra {
		d[k] = v
	}
	w.c.Violation("timer wheel: "+sig, d)
}

// call runs one real wheel operation; a panic of the wheel is a violation (the item is never returned).
func (w *c33World) call(what string, f func()) (ok bool) {
	defer func() {
		if r := recover(); r != nil {
			w.violation("panic in "+what, map[string]any{"panic": fmt.Sprint(r)})
			ok = false
		}
	}()
	f()
	return true
}

func (w *c33World) onReturned(id int) {
	it := w.live[id]
	if it == nil {
		if w.done[id] {
			w.violation("an item is returned a second time", map[string]any{"id": id})
		} else {
			w.violation("Purge returns an item that was never added", map[string]any{"id": id})
		}
		return
	}
	if w.now < it.lower {
		w.violation("item returned before its rounded-up timeout ("+w.timeoutClass(it.timeout)+")",
			map[string]any{"id": id, "added_at": it.added, "timeout": it.timeout, "earliest_allowed": it.lower, "returned_at": w.now})
	}
	{
		s := &w.stat
		s.returned++
		sl := w.now - it.lower
		if s.returned == 1 || sl < s.minSlack {
			s.minSlack = sl
		}
		if sl > s.maxSlack {
			s.maxSlack = sl
		}
		if it.timeout > w.cfg.Span {
			s.capped++
		}
		if it.timeout%w.cfg.Tick != 0 || it.timeout < w.cfg.Tick {
			s.rounded++
		}
	}
	delete(w.live, id)
	w.done[id] = true
}

func (w *c33World) apply(e c33Ev) bool {
	w.trace = append(w.trace, c33Label(e))
	switch e.Op {
	case 'A':
		w.now += e.Arg
		t := w.base.Add(time.Duration(w.now) * c33Quantum)
		if e.Arg > int64(w.tw.wheelLen)*w.cfg.Tick {
			w.stat.longGap++
		}
		return w.call("Advance", func() { w.tw.Advance(t) })
	case 'I':
		id := w.next
		w.next++
		eff := e.Arg
		if eff > w.cfg.Span {
			eff = w.cfg.Span
			w.stat.addedCapped++
		}
		r := c33CeilTick(eff, w.cfg.Tick)
		up := r
		if up < w.cfg.Tick {
			up = w.cfg.Tick
		}
		w.live[id] = &c33Item{id: id, added: w.now, timeout: e.Arg, lower: w.now + r, upper: w.now + up + 2*w.cfg.Tick}
		if w.tw.itemCache != nil {
			w.stat.recycled++
		}
		return w.call("Add", func() { w.tw.Add(id, time.Duration(e.Arg)*c33Quantum) })
	case 'P', 'F':
		for n := 0; ; n++ {
			var id int
			var got bool
			before := w.tw.itemsCached
			if !w.call("Purge", func() { id, got = w.tw.Purge() }) {
				return false
			}
			if !got {
				if n == 0 {
					w.stat.emptyPurge++
				}
				break
			}
			if before >= timerCacheMax {
				w.stat.cacheDrop++
			}
			w.onReturned(id)
			if e.Op == 'P' {
				return true
			}
			if n > len(w.live)+len(w.done)+8 {
				w.violation("PurgeAll does not terminate (expired list is cyclic)", nil)
				return false
			}
		}
		if e.Op == 'F' || w.tw.expired.Head == nil {
			// the wheel has nothing more to give at this time: everything that is overdue must be out
			var late []map[string]any
			class, first := "", -1
			for _, it := range w.live {
				if it.upper <= w.now {
					late = append(late, map[string]any{"id": it.id, "added_at": it.added, "timeout": it.timeout, "latest_allowed": it.upper})
					if first < 0 || it.id < first {
						first, class = it.id, w.timeoutClass(it.timeout)
					}
				}
			}
			if len(late) > 0 {
				w.violation("item not returned within two ticks after its rounded-up timeout ("+class+")", map[string]any{"overdue": late})
			}
		}
	}
	return true
}

// key is the canonical state: wheel contents relative to the current time with item ids replaced by what the reference
// still expects of them. Clamping at 0 is sound: once now >= lower (>= upper) the bound can never matter again.
func (w *c33World) key() string {
	var sb strings.Builder
	tw := w.tw
	phase := int64(-1)
	if tw.lastTick != nil {
		phase = w.now - int64(tw.lastTick.Sub(w.base)/c33Quantum)
	}
	fmt.Fprintf(&sb, "cur=%d ph=%d|", tw.current, phase)
	seen := map[int]int{}
	item := func(id int) string {
		seen[id]++
		it := w.live[id]
		if it == nil {
			return "DEAD"
		}
		l, u := it.lower-w.now, it.upper-w.now
		if l < 0 {
			l = 0
		}
		if u < 0 {
			u = 0
		}
		return fmt.Sprintf("%d/%d", l, u)
	}
	list := func(tl *TimeoutList[int]) {
		if tl == nil {
			sb.WriteString("nil;")
			return
		}
		var last *TimeoutItem[int]
		n := 0
		for p := tl.Head; p != nil && n < 12; p = p.Next {
			sb.WriteString(item(p.Item))
			sb.WriteByte(',')
			last = p
			n++
		}
		if tl.Tail != last {
			sb.WriteString("tail!")
		}
		sb.WriteByte(';')
	}
	for k := 0; k < tw.wheelLen; k++ {
		list(tw.wheel[(tw.current+k)%tw.wheelLen])
	}
	sb.WriteString("|exp=")
	list(tw.expired)
	cn := 0
	for p := tw.itemCache; p != nil && cn < 4; p = p.Next {
		cn++
	}
	lo, hi := tw.itemsCached, timerCacheMax-tw.itemsCached
	if lo > 4 {
		lo = 4
	}
	if hi > 4 {
		hi = 4
	}
	fmt.Fprintf(&sb, "|cache=%d/%d/%d|lost=", cn, lo, hi)
	var lost []string
	for id, it := range w.live {
		if seen[id] == 0 {
			l, u := it.lower-w.now, it.upper-w.now
			if l < 0 {
				l = 0
			}
			if u < 0 {
				u = 0
			}
			lost = append(lost, fmt.Sprintf("%d/%d", l, u))
		}
	}
	sort.Strings(lost)
	sb.WriteString(strings.Join(lost, ","))
	return sb.String()
}

func c33Dedup(xs []int64) []int64 {
	sort.Slice(xs, func(i, j int) bool { return xs[i] < xs[j] })
	out := xs[:0]
	for i, x := range xs {
		if x < 0 || (i > 0 && x == xs[i-1]) {
			continue
		}
		out = append(out, x)
	}
	return out
}

func c33Menu(cfg c33Cfg, wheelLen int64, liveN, maxLive int) []c33Ev {
	T, S, W := cfg.Tick, cfg.Span, wheelLen
	dts := c33Dedup([]int64{0, 1, T - 1, T, T + 1, 2 * T, (W - 1) * T, W*T - 1, W * T, W*T + 1, (W + 1) * T, (2*W + 1) * T})
	tos := c33Dedup([]int64{0, 1, T - 1, T, T + 1, 2*T - 1, S - 1, S, S + 1, S + T, 3 * S})
	var m []c33Ev
	for _, d := range dts {
		m = append(m, c33Ev{'A', d})
	}
	if liveN < maxLive {
		for _, t := range tos {
			m = append(m, c33Ev{'I', t})
		}
	}
	m = append(m, c33Ev{'P', 0}, c33Ev{'F', 0})
	return m
}

func TestVerifC33(t *testing.T) {
	c := mc.Begin(t, "C33", "model_checking")
	defer c.End()
	stat := &c33Stats{}

	cfgs := []c33Cfg{{2, 2}, {2, 6}, {2, 5}, {3, 3}, {3, 10}, {1, 4}}
	if c.Thorough() {
		cfgs = append(cfgs, c33Cfg{4, 10}, c33Cfg{4, 4}, c33Cfg{2, 12}, c33Cfg{5, 23})
	}
	maxLive := 3
	maxDepth := mc.Pick(c, 12, 64) // the quick geometries close at depth <= 11
	var totalStates int64
	closed := 0
	perCfg := map[string]any{}
	// Recycled-item cache at its capacity: really add and purge timerCacheMax+3 items (3 are dropped at the cap), then
	// search a few steps from there. Every replay repeats the whole prefix on a fresh wheel.
	cacheCfg := c33Cfg{2, 6}
	var prefix []c33Ev
	for i := 0; i < timerCacheMax+3; i++ {
		prefix = append(prefix, c33Ev{'I', int64(1 + i%7)})
	}
	prefix = append(prefix, c33Ev{'A', 5 * 2}, c33Ev{'F', 0})
	if !c.OutOfTime() {
		res := mc.BFSReplay(c, mc.BFSConfig[c33Ev]{
			MaxDepth: mc.Pick(c, 2, 5), // every replay costs a 50003-item burst: depth-bounded
			Label:    c33Label,
			Stop:     func() bool { return c.OutOfTime() || c.Violations() > 200 },
			Run: func(hist []c33Ev) (string, []c33Ev) {
				w := c33NewWorld(c, cacheCfg, stat)
				defer w.flush()
				for _, e := range prefix {
					if !w.apply(e) {
						return "broken-prefix", nil
					}
				}
				if len(w.live) != 0 {
					w.violation("items of a 50003-item burst are still outstanding after advancing a full span plus two ticks and PurgeAll", map[string]any{"outstanding": len(w.live)})
				}
				w.trace = []string{fmt.Sprintf("(prefix: %d Adds, Advance(+10), PurgeAll)", timerCacheMax+3)}
				for _, e := range hist {
					if !w.apply(e) {
						return "broken:" + strings.Join(w.trace, " "), nil
					}
				}
				return w.key(), c33Menu(cacheCfg, int64(w.tw.wheelLen), len(w.live), maxLive)
			},
		})
		perCfg["cache-at-capacity "+cacheCfg.String()] = map[string]any{"states": res.States, "transitions": res.Transitions, "max_depth": res.MaxDepth}
	}

	for _, cfg := range cfgs {
		cfg := cfg
		res := mc.BFSReplay(c, mc.BFSConfig[c33Ev]{
			MaxDepth: maxDepth,
			Label:    c33Label,
			Stop:     func() bool { return c.OutOfTime() || c.Violations() > 200 },
			Run: func(hist []c33Ev) (string, []c33Ev) {
				w := c33NewWorld(c, cfg, stat)
				defer w.flush()
				for _, e := range hist {
					if !w.apply(e) {
						return "broken:" + strings.Join(w.trace, " "), nil // wheel panicked: reported, not expanded
					}
				}
				return w.key(), c33Menu(cfg, int64(w.tw.wheelLen), len(w.live), maxLive)
			},
		})
		totalStates += res.States
		if res.Exhaustive {
			closed++
		}
		perCfg[cfg.String()] = map[string]any{"states": res.States, "transitions": res.Transitions, "max_depth": res.MaxDepth, "closed": res.Exhaustive}
		if c.OutOfTime() {
			break
		}
	}

	// Vacuity guards: items really came out, some exactly when allowed-ish and some late in the allowed slack, capped and
	// rounded timeouts occurred, long gaps (> one revolution) occurred, the item cache was recycled and overflowed.
	guards := c.Violations() == 0 && !c.OutOfTime() // a search cut short by a violation or by the soft budget is not judged
	req := func(cond bool, format string, args ...any) {
		if guards {
			c.Require(cond, format, args...)
		}
	}
	req(stat.returned > 1000, "too few returned items: %d", stat.returned)
	// (an Add with a timeout above the span reaches the same canonical state as Add(span) when the wheel places it in the
	// same slot, so it is executed and compared but only one of the two is expanded further)
	req(stat.addedCapped > 0 && stat.rounded > 0, "adds with capped timeout=%d, returned items with rounded timeout=%d", stat.addedCapped, stat.rounded)
	req(stat.longGap > 0, "no advance gap longer than a revolution")
	req(stat.recycled > 0 && stat.cacheDrop > 0, "item cache not exercised: recycled=%d dropped_at_cap=%d", stat.recycled, stat.cacheDrop)
	req(stat.emptyPurge > 0, "Purge on an empty expired list never happened")
	req(stat.minSlack >= 0 && stat.maxSlack > stat.minSlack, "no spread in return times: min=%d max=%d", stat.minSlack, stat.maxSlack)
	c.Set("configs_tick_span_quanta", perCfg)
	c.Set("configs_closed", closed)
	c.Set("configs", len(cfgs))
	c.Set("max_outstanding_items", maxLive)
	c.Set("items_returned", stat.returned)
	c.Set("items_returned_with_capped_timeout", stat.capped)
	c.Set("adds_with_timeout_above_span", stat.addedCapped)
	c.Set("items_returned_with_rounded_timeout", stat.rounded)
	c.Set("advance_gaps_longer_than_a_revolution", stat.longGap)
	c.Set("adds_served_from_item_cache", stat.recycled)
	c.Set("purges_at_full_item_cache", stat.cacheDrop)
	c.Set("return_minus_earliest_allowed_quanta_min_max", []int64{stat.minSlack, stat.maxSlack})
	c.Set("explanation", "states = distinct canonical states (absolute slot index, phase of now within the tick, per slot and for the expired list the remaining lower/upper bound of each item, item-cache fill) of the real TimerWheel; transitions = histories replayed on a fresh real wheel; a config is 'closed' when its frontier emptied (all reachable states with <= 3 outstanding items)")
	c.Assume("the clock handed to Advance never goes backwards and Add is only called on a wheel advanced to the current time (the statement's precondition)")
	c.Assume("timeouts below one tick (including 0): lower bound is the arithmetic round-up (0 for timeout 0), upper bound is one tick + two ticks (weaker reading on both sides)")
	c.Assume("span >= tick (a wheel whose maximum is below its resolution is not configured anywhere and the statement does not say which clamp wins)")
	c.Assume("'returned' is observed at Purge: an item must be produced by a PurgeAll issued once the wheel was advanced to its deadline + 2 ticks; how long the caller waits before purging is not the wheel's concern")
	c.Assume("at most 3 outstanding items per history (plus the 50003-item burst of the cache-capacity scenario)")
}
