//go:build verif

package nebula

import (
	"bytes"
	"crypto/rand"
	"encoding/hex"
	"errors"
	"fmt"
	"net/netip"
	"os"
	"reflect"
	"runtime"
	"sort"
	"strconv"
	"strings"
	"sync"
	"sync/atomic"
	"testing"
	"unsafe"

	"github.com/flynn/noise"
	"github.com/slackhq/nebula/cert"
	ct "github.com/slackhq/nebula/cert_test"
	"github.com/slackhq/nebula/handshake"
	"github.com/slackhq/nebula/header"
	"github.com/slackhq/nebula/noiseutil"
	"github.com/slackhq/nebula/zzverif/mc"
	"github.com/slackhq/nebula/zzverif/vtime"
)

// C07 — a rejected handshake message never wedges the handshake.
//
// Explicit-state exploration by replay (E2). A state is the history that reaches it; every history is executed on FRESH
// real objects:
//   part 1  histories r1..rk . M (k <= 2) on a fresh handshake.Machine, for both roles (initiator waiting for stage 2,
//           responder waiting for stage 1), X25519/P-256 x AES-GCM/ChaCha20-Poly1305. The alphabet R of messages that
//           are supposed to be rejected is derived structurally from the genuine message M of that very session: every
//           truncation length, every single-bit flip, ephemeral-key substitutions (X25519 low-order points, P-256
//           invalid encodings), static-region substitutions, wrong subtypes, other sessions' messages, a replay of the
//           machine's own stage 1, and messages crafted with flynn/noise directly (valid noise, bad payload / untrusted
//           or expired certificate / low-order static key).
//   part 2  the same through the real HandshakeManager of a goroutine-free two-node network (E4 assembly): the mutant is
//           delivered to the initiator node while its handshake is pending, then the genuine stage 2.
// Oracle = the statement: after a rejection with Failed()==false the genuine message must complete the handshake with
// the result of the undisturbed session (indexes, certificate, key pairing with the peer — at manager level: hostmap
// and delivered tun packet equal to the undisturbed run); after Failed()==true every later input is refused.

// ---------------------------------------------------------------------------------------------------------------------
// world: certificates and keys of one (curve, cipher)

type c07Peer struct {
	name string
	crt  cert.Certificate
	hsb  []byte // certificate bytes as sent in handshakes
	priv []byte
	cred *handshake.Credential
}

func (p *c07Peer) get(v cert.Version) *handshake.Credential {
	if v == cert.Version2 {
		return p.cred
	}
	return nil
}

type c07World struct {
	curve  cert.Curve
	cipher string
	ncs    noise.CipherSuite
	dhLen  int
	pool   *cert.CAPool
	A, B   *c07Peer // honest initiator / responder
	A2, B2 *c07Peer // another honest pair (foreign sessions)
	U      *c07Peer // responder identity signed by an untrusted CA
	X      *c07Peer // responder identity whose certificate is expired
	verify handshake.CertVerifier

	foreign1, foreign2 []byte // stage-1 / stage-2 datagrams of an unrelated completed session
}

func (w *c07World) name() string { return fmt.Sprintf("%s/%s", w.curve, w.cipher) }

func c07Peerify(c cert.Certificate, keyPEM []byte, ncs noise.CipherSuite) (*c07Peer, error) {
	priv, _, _, err := cert.UnmarshalPrivateKeyFromPEM(keyPEM)
	if err != nil {
		return nil, err
	}
	hsb, err := c.MarshalForHandshakes()
	if err != nil {
		return nil, err
	}
	return &c07Peer{name: c.Name(), crt: c, hsb: hsb, priv: priv, cred: handshake.NewCredential(c, hsb, priv, ncs)}, nil
}

func c07Mint(curve cert.Curve, cipher string) (*c07World, error) {
	nb, na := vtime.Epoch.Add(-10*365*24*vtime.Hour), vtime.Epoch.Add(10*365*24*vtime.Hour)
	ca, _, caKey, _ := ct.NewTestCaCert(cert.Version2, curve, nb, na, nil, nil, nil)
	caU, _, caUKey, _ := ct.NewTestCaCert(cert.Version2, curve, nb, na, nil, nil, nil)
	ncs, err := newCipherSuite(curve, false, cipher, false)
	if err != nil {
		return nil, err
	}
	w := &c07World{curve: curve, cipher: cipher, ncs: ncs, dhLen: ncs.DHLen(), pool: ct.NewTestCAPool(ca)}
	w.verify = func(c cert.Certificate) (*cert.CachedCertificate, error) {
		return w.pool.VerifyCertificate(vtime.Now(), c)
	}
	mk := func(name, addr string, signer cert.Certificate, key []byte, notAfter vtime.Time) *c07Peer {
		c, _, keyPEM, _ := ct.NewTestCert(cert.Version2, curve, signer, key, name, nb, notAfter, []netip.Prefix{netip.MustParsePrefix(addr)}, nil, nil)
		p, e := c07Peerify(c, keyPEM, ncs)
		if e != nil && err == nil {
			err = e
		}
		return p
	}
	w.A = mk("c07-a", "10.7.0.1/24", ca, caKey, na)
	w.B = mk("c07-b", "10.7.0.2/24", ca, caKey, na)
	w.A2 = mk("c07-a2", "10.7.0.3/24", ca, caKey, na)
	w.B2 = mk("c07-b2", "10.7.0.4/24", ca, caKey, na)
	w.U = mk("c07-b", "10.7.0.2/24", caU, caUKey, na)
	w.X = mk("c07-b", "10.7.0.2/24", ca, caKey, vtime.Epoch.Add(-vtime.Hour))
	if err != nil {
		return nil, err
	}
	// an unrelated, completed session
	var n1, n2 int
	im, rm := w.machine(w.A2, true, 0x0c0c0c03, &n1), w.machine(w.B2, false, 0x0d0d0d04, &n2)
	if w.foreign1, err = im.Initiate(nil); err != nil {
		return nil, err
	}
	if w.foreign2, _, err = rm.ProcessPacket(nil, w.foreign1); err != nil {
		return nil, err
	}
	return w, nil
}

func (w *c07World) machine(p *c07Peer, initiator bool, idx uint32, allocs *int) *handshake.Machine {
	m, err := handshake.NewMachine(cert.Version2, p.get, w.verify, func() (uint32, error) { *allocs++; return idx, nil }, initiator, header.HandshakeIXPSK0)
	if err != nil {
		panic("c07: NewMachine: " + err.Error())
	}
	return m
}

// ---------------------------------------------------------------------------------------------------------------------
// the message context a mutant is derived from

type c07Ctx struct {
	w       *c07World
	role    string // role of the side under test: "initiator" (waits for stage 2) | "responder" (waits for stage 1)
	genuine []byte // the genuine datagram the side under test is waiting for
	sent    []byte // the datagram the side under test sent before (its stage 1; nil for the responder role)
}

const (
	c07IdxInit = 0x0a0a0a01
	c07IdxResp = 0x0b0b0b02
)

// craft builds a stage-2 datagram with flynn/noise directly, answering x.sent, with a static key and payload of the
// adversary's choosing. pubOverride replaces the static public key that is transmitted.
func (x *c07Ctx) craft(static *c07Peer, pubOverride []byte, payload func(initiatorIndex uint32) []byte) []byte {
	pub := static.crt.PublicKey()
	if pubOverride != nil {
		pub = pubOverride
	}
	hs, err := noise.NewHandshakeState(noise.Config{CipherSuite: x.w.ncs, Random: rand.Reader, Pattern: noise.HandshakeIX, Initiator: false,
		StaticKeypair: noise.DHKey{Private: static.priv, Public: pub}, PresharedKey: []byte{}})
	if err != nil {
		panic("c07 craft: " + err.Error())
	}
	body, _, _, err := hs.ReadMessage(nil, x.sent[header.Len:])
	if err != nil {
		panic("c07 craft read: " + err.Error())
	}
	p1, err := handshake.UnmarshalPayload(body)
	if err != nil {
		panic("c07 craft payload: " + err.Error())
	}
	out := make([]byte, header.Len, 1024)
	header.Encode(out, header.Version, header.Handshake, header.HandshakeIXPSK0, p1.InitiatorIndex, 2)
	out, _, _, err = hs.WriteMessage(out, payload(p1.InitiatorIndex))
	if err != nil {
		panic("c07 craft write: " + err.Error())
	}
	return out
}

func c07GoodPayload(p *c07Peer) func(uint32) []byte {
	return func(ii uint32) []byte {
		return handshake.MarshalPayload(nil, handshake.Payload{Cert: p.hsb, InitiatorIndex: ii, ResponderIndex: 0x0e0e0e05, Time: 1, CertVersion: 2})
	}
}

// c07Rej is one member of the alphabet: a structural recipe producing the message from the session's context.
type c07Rej struct {
	label string
	class string
	rep   bool // member of the reduced alphabet used at depth 2 and (quick tier) at manager level
	mid   bool // member of the medium alphabet (thorough depth 2): everything except flips of bits 1..7 of a byte
	mk    func(x *c07Ctx) []byte
}

func c07Region(x *c07Ctx, off int) string {
	d := x.w.dhLen
	sLen := d
	if x.role == "initiator" {
		sLen = d + 16 // stage 2 carries the static key encrypted
	}
	switch {
	case off < header.Len:
		return "header"
	case off < header.Len+d:
		return "e"
	case off < header.Len+d+sLen:
		return "s"
	default:
		return "payload"
	}
}

var c07X25519LowOrder = []string{
	"0000000000000000000000000000000000000000000000000000000000000000",
	"0100000000000000000000000000000000000000000000000000000000000000",
	"e0eb7a7c3b41b8ae1656e3faf19fc46ada098deb9c32b1fd866205165f49b800",
	"5f9c95bca3508c24b1d0b1559c83ef5b04445cc4581c8e86d8224eddd09f1157",
	"ecffffffffffffffffffffffffffffffffffffffffffffffffffffffffffff7f",
	"edffffffffffffffffffffffffffffffffffffffffffffffffffffffffffff7f",
	"eeffffffffffffffffffffffffffffffffffffffffffffffffffffffffffff7f",
	"cdeb7a7c3b41b8ae1656e3faf19fc46ada098deb9c32b1fd866205165f49b880",
	"4c9c95bca3508c24b1d0b1559c83ef5b04445cc4581c8e86d8224eddd09f11d7",
	"d9ffffffffffffffffffffffffffffffffffffffffffffffffffffffffffffff",
	"daffffffffffffffffffffffffffffffffffffffffffffffffffffffffffffff",
	"dbffffffffffffffffffffffffffffffffffffffffffffffffffffffffffffff",
}

const c07P256Gx = "6b17d1f2e12c4247f8bce6e563a440f277037d812deb33a0f4a13945d898c296"
const c07P256Gy = "4fe342e2fe1a7f9b8ee7eb4a7c0f9e162bce33576b315ececbb6406837bf51f5"

func c07Hex(s string) []byte {
	b, err := hex.DecodeString(s)
	if err != nil {
		panic(err)
	}
	return b
}

// c07FlipBit0 reports whether a "flip bit N (byte B)" label flips bit 0 of its byte.
func c07FlipBit0(label string) bool {
	var bit, by int
	if _, err := fmt.Sscanf(label, "flip bit %d (byte %d)", &bit, &by); err != nil {
		return false
	}
	return bit%8 == 0
}

// c07Alphabet builds R for a context shape (role, world, length of the genuine message).
func c07Alphabet(x *c07Ctx) []c07Rej {
	var out []c07Rej
	n := len(x.genuine)
	d := x.w.dhLen
	eOff, sOff := header.Len, header.Len+d
	sLen := d
	if x.role == "initiator" {
		sLen = d + 16
	}
	pOff := sOff + sLen
	add := func(label, class string, rep bool, mk func(x *c07Ctx) []byte) {
		out = append(out, c07Rej{label, class, rep, rep || !strings.HasPrefix(label, "flip bit") || c07FlipBit0(label), mk})
	}
	// 1. every truncation length, and over-long messages
	boundary := map[int]bool{0: true, 1: true, header.Len - 1: true, header.Len: true, eOff + 1: true, sOff - 1: true, sOff: true, sOff + 1: true, sOff + 10: true,
		pOff - 1: true, pOff: true, pOff + 1: true, pOff + 15: true, pOff + 16: true, n - 17: true, n - 16: true, n - 1: true}
	for l := 0; l < n; l++ {
		l := l
		region := "cut before e"
		switch {
		case l < header.Len:
			region = "cut inside header"
		case l < sOff:
			region = "cut inside e"
		case l < pOff:
			region = "cut after e, inside s"
		default:
			region = "cut inside payload"
		}
		add(fmt.Sprintf("truncate to %d bytes", l), "truncate: "+region, boundary[l], func(x *c07Ctx) []byte { return append([]byte{}, x.genuine[:l]...) })
	}
	add("append 1 zero byte", "extend", true, func(x *c07Ctx) []byte { return append(append([]byte{}, x.genuine...), 0) })
	add("append 16 bytes", "extend", false, func(x *c07Ctx) []byte {
		return append(append([]byte{}, x.genuine...), bytes.Repeat([]byte{0xa5}, 16)...)
	})
	// 2. every single-bit flip
	firstOf := map[string]bool{}
	for bit := 0; bit < 8*n; bit++ {
		bit := bit
		region := c07Region(x, bit/8)
		if region == "header" && bit/8 == 1 {
			region = "header.subtype"
		}
		rep := !firstOf[region]
		firstOf[region] = true
		if bit/8 == eOff && x.w.curve == cert.Curve_P256 { // the point-format byte
			region = "e.format"
			rep = bit%8 == 0
		}
		add(fmt.Sprintf("flip bit %d (byte %d)", bit, bit/8), "flip: "+region, rep, func(x *c07Ctx) []byte {
			b := append([]byte{}, x.genuine...)
			b[bit/8] ^= 1 << (bit % 8)
			return b
		})
	}
	// 3. ephemeral substitutions
	subE := func(label, class string, e []byte) {
		add("e := "+label, class, true, func(x *c07Ctx) []byte {
			b := append([]byte{}, x.genuine...)
			copy(b[eOff:sOff], e)
			return b
		})
	}
	if x.w.curve == cert.Curve_CURVE25519 {
		for _, h := range c07X25519LowOrder {
			subE("x25519 low-order "+h[:8]+".."+h[56:], "e: low-order / non-canonical point", c07Hex(h))
		}
		nine := make([]byte, 32)
		nine[0] = 9
		subE("x25519 base point", "e: other valid key", nine)
	} else {
		g := append(append([]byte{4}, c07Hex(c07P256Gx)...), c07Hex(c07P256Gy)...)
		subE("p256 generator", "e: other valid key", g)
		subE("65 zero bytes", "e: invalid point encoding", make([]byte, 65))
		subE("04||0..0 (0,0)", "e: invalid point encoding", append([]byte{4}, make([]byte, 64)...))
		subE("04||ff..ff", "e: invalid point encoding", append([]byte{4}, bytes.Repeat([]byte{0xff}, 64)...))
		off := append([]byte{}, g...)
		off[64] ^= 1
		subE("generator with y^1 (off curve)", "e: invalid point encoding", off)
		comp := append(append([]byte{2}, c07Hex(c07P256Gx)...), make([]byte, 32)...)
		subE("02||Gx||0 (compressed prefix)", "e: invalid point encoding", comp)
		inf := make([]byte, 65)
		subE("00||.. (infinity prefix)", "e: invalid point encoding", inf)
	}
	add("e := e of a foreign session", "e: other valid key", true, func(x *c07Ctx) []byte {
		b := append([]byte{}, x.genuine...)
		src := x.w.foreign2
		if x.role == "responder" {
			src = x.w.foreign1
		}
		copy(b[eOff:sOff], src[eOff:sOff])
		return b
	})
	// 4. static-region substitutions
	add("s := zeros", "s: replaced", true, func(x *c07Ctx) []byte {
		b := append([]byte{}, x.genuine...)
		copy(b[sOff:pOff], make([]byte, sLen))
		return b
	})
	add("s := s of a foreign session", "s: replaced", true, func(x *c07Ctx) []byte {
		b := append([]byte{}, x.genuine...)
		src := x.w.foreign2
		if x.role == "responder" {
			src = x.w.foreign1
		}
		copy(b[sOff:pOff], src[sOff:pOff])
		return b
	})
	// 5. subtypes
	for _, st := range []byte{1, 2, 0x80, 0xff} {
		st := st
		add(fmt.Sprintf("subtype := %d", st), "subtype", st == 1, func(x *c07Ctx) []byte {
			b := append([]byte{}, x.genuine...)
			b[1] = st
			return b
		})
	}
	// 6. other sessions' messages, replays
	reindex := func(x *c07Ctx, src []byte) []byte { // keep the genuine header so the datagram still addresses the same handshake
		return append(append([]byte{}, x.genuine[:header.Len]...), src[header.Len:]...)
	}
	add("stage 2 of a foreign session", "foreign message", true, func(x *c07Ctx) []byte { return reindex(x, x.w.foreign2) })
	add("stage 1 of a foreign session", "foreign message", true, func(x *c07Ctx) []byte { return reindex(x, x.w.foreign1) })
	if x.role == "initiator" {
		add("replay of the machine's own stage 1", "replayed stage 1", true, func(x *c07Ctx) []byte { return reindex(x, x.sent) })
		// 7. valid noise, hostile content
		add("crafted: responder certificate from an untrusted CA", "crafted: fatal content", true, func(x *c07Ctx) []byte { return x.craft(x.w.U, nil, c07GoodPayload(x.w.U)) })
		add("crafted: responder certificate expired", "crafted: fatal content", true, func(x *c07Ctx) []byte { return x.craft(x.w.X, nil, c07GoodPayload(x.w.X)) })
		add("crafted: certificate of another key", "crafted: fatal content", true, func(x *c07Ctx) []byte { return x.craft(x.w.B, nil, c07GoodPayload(x.w.B2)) })
		add("crafted: empty payload", "crafted: fatal content", true, func(x *c07Ctx) []byte { return x.craft(x.w.B, nil, func(uint32) []byte { return nil }) })
		add("crafted: garbage payload", "crafted: fatal content", true, func(x *c07Ctx) []byte {
			return x.craft(x.w.B, nil, func(uint32) []byte { return []byte{0xff, 0xff, 0xff} })
		})
		add("crafted: responder index 0", "crafted: fatal content", true, func(x *c07Ctx) []byte {
			return x.craft(x.w.B, nil, func(ii uint32) []byte {
				return handshake.MarshalPayload(nil, handshake.Payload{Cert: x.w.B.hsb, InitiatorIndex: ii, Time: 1, CertVersion: 2})
			})
		})
		add("crafted: payload without certificate", "crafted: fatal content", true, func(x *c07Ctx) []byte {
			return x.craft(x.w.B, nil, func(ii uint32) []byte {
				return handshake.MarshalPayload(nil, handshake.Payload{InitiatorIndex: ii, ResponderIndex: 5, Time: 1})
			})
		})
		bad := make([]byte, d) // all-zero static key: low order on X25519, invalid encoding on P-256
		add("crafted: valid noise up to an all-zero static key", "crafted: invalid static key", true, func(x *c07Ctx) []byte { return x.craft(x.w.B, bad, c07GoodPayload(x.w.B)) })
	} else {
		// stage 1 is plaintext: hostile content is built by hand around a fresh valid ephemeral key
		stage1 := func(x *c07Ctx, p *c07Peer, payload []byte) []byte {
			b := append([]byte{}, x.genuine[:header.Len]...)
			b = append(b, x.w.foreign1[eOff:sOff]...)
			b = append(b, p.crt.PublicKey()...)
			return append(b, payload...)
		}
		add("crafted: stage 1 with garbage payload", "crafted: fatal content", true, func(x *c07Ctx) []byte { return stage1(x, x.w.A, []byte{0xff, 0xff, 0xff}) })
		add("crafted: stage 1 with empty payload", "crafted: fatal content", true, func(x *c07Ctx) []byte { return stage1(x, x.w.A, nil) })
		add("crafted: stage 1 with initiator index 0", "crafted: fatal content", true, func(x *c07Ctx) []byte {
			return stage1(x, x.w.A, handshake.MarshalPayload(nil, handshake.Payload{Cert: x.w.A.hsb, Time: 1, CertVersion: 2}))
		})
		add("crafted: stage 1 with a certificate from an untrusted CA", "crafted: fatal content", true, func(x *c07Ctx) []byte {
			return stage1(x, x.w.U, handshake.MarshalPayload(nil, handshake.Payload{Cert: x.w.U.hsb, InitiatorIndex: 9, Time: 1, CertVersion: 2}))
		})
		add("crafted: stage 1 whose certificate belongs to another key", "crafted: fatal content", true, func(x *c07Ctx) []byte {
			return stage1(x, x.w.A, handshake.MarshalPayload(nil, handshake.Payload{Cert: x.w.A2.hsb, InitiatorIndex: 9, Time: 1, CertVersion: 2}))
		})
	}
	return out
}

// ---------------------------------------------------------------------------------------------------------------------
// part 1: Machine level

type c07Sess struct {
	c07Ctx
	m          *handshake.Machine // under test
	peer       *handshake.Machine // the honest other side
	peerRes    *handshake.Result  // responder's result (initiator role)
	allocs     int
	peerAllocs int
}

func c07NewSess(w *c07World, role string) *c07Sess {
	s := &c07Sess{c07Ctx: c07Ctx{w: w, role: role}}
	var err error
	if role == "initiator" {
		s.m = w.machine(w.A, true, c07IdxInit, &s.allocs)
		s.peer = w.machine(w.B, false, c07IdxResp, &s.peerAllocs)
		if s.sent, err = s.m.Initiate(nil); err != nil {
			panic("c07: Initiate: " + err.Error())
		}
		if s.genuine, s.peerRes, err = s.peer.ProcessPacket(nil, s.sent); err != nil || s.peerRes == nil {
			panic(fmt.Sprintf("c07: honest responder: %v", err))
		}
	} else {
		s.m = w.machine(w.B, false, c07IdxResp, &s.allocs)
		s.peer = w.machine(w.A, true, c07IdxInit, &s.peerAllocs)
		if s.genuine, err = s.peer.Initiate(nil); err != nil {
			panic("c07: Initiate: " + err.Error())
		}
	}
	return s
}

// c07Opens reports whether a packet sealed with `from` at nonce n authenticates under `to`.
func c07Opens(from, to noiseutil.CipherState, n uint64, mark byte) (bool, error) {
	ad := []byte{0x11, 0, 0, 0, 0, 0, 0, 1, 0, 0, 0, 0, 0, 0, 0, mark}
	pt := []byte{'c', '0', '7', mark, byte(n)}
	sealed, err := from.EncryptDanger(nil, ad, pt, n, make([]byte, 12))
	if err != nil {
		return false, err
	}
	got, err := to.DecryptDanger(nil, ad, sealed, n, make([]byte, 12))
	if err != nil {
		return false, nil
	}
	return bytes.Equal(got, pt), nil
}

func c07Pairs(a, b *handshake.Result) string {
	ae, ad := noiseutil.NewCipherState(a.EKey, a.Cipher), noiseutil.NewCipherState(a.DKey, a.Cipher)
	be, bd := noiseutil.NewCipherState(b.EKey, b.Cipher), noiseutil.NewCipherState(b.DKey, b.Cipher)
	if ok, _ := c07Opens(ae, bd, 3, 7); !ok {
		return "initiator->responder traffic does not decrypt"
	}
	if ok, _ := c07Opens(be, ad, 3, 7); !ok {
		return "responder->initiator traffic does not decrypt"
	}
	if ok, _ := c07Opens(ae, ad, 3, 7); ok {
		return "a side decrypts its own traffic"
	}
	return ""
}

// finish delivers the genuine message and returns "" when the handshake completes with the undisturbed session's result.
func (s *c07Sess) finish() string {
	out, res, err := s.m.ProcessPacket(nil, s.genuine)
	if err != nil {
		return "genuine message refused: " + err.Error()
	}
	if res == nil {
		return "genuine message accepted but no Result"
	}
	var ir, rr *handshake.Result
	if s.role == "initiator" {
		if out != nil {
			return "initiator produced an output message on completion"
		}
		ir, rr = res, s.peerRes
	} else {
		if len(out) == 0 {
			return "responder produced no stage 2"
		}
		_, pres, err := s.peer.ProcessPacket(nil, out)
		if err != nil || pres == nil {
			return fmt.Sprintf("the honest initiator refuses the stage 2 produced after the rejected message: %v", err)
		}
		ir, rr = pres, res
	}
	switch {
	case ir.LocalIndex != c07IdxInit || rr.LocalIndex != c07IdxResp || ir.RemoteIndex != c07IdxResp || rr.RemoteIndex != c07IdxInit:
		return fmt.Sprintf("indexes differ from the undisturbed session: init(local %#x remote %#x) resp(local %#x remote %#x)", ir.LocalIndex, ir.RemoteIndex, rr.LocalIndex, rr.RemoteIndex)
	case ir.MessageIndex != 2 || rr.MessageIndex != 2:
		return "message count differs from the undisturbed session"
	case s.allocs != 1 || s.peerAllocs != 1:
		return fmt.Sprintf("index allocator calls: %d/%d (undisturbed: 1/1)", s.allocs, s.peerAllocs)
	case ir.RemoteCert == nil || rr.RemoteCert == nil || !bytes.Equal(ir.RemoteCert.Certificate.PublicKey(), s.w.B.crt.PublicKey()) || !bytes.Equal(rr.RemoteCert.Certificate.PublicKey(), s.w.A.crt.PublicKey()):
		return "peer certificate differs from the undisturbed session"
	case ir.HandshakeTime == 0 || rr.HandshakeTime == 0:
		return "handshake time missing"
	}
	return c07Pairs(ir, rr)
}

// c07Transcript reads the noise transcript hash of the machine (diagnostics and state key only; never an oracle).
func c07Transcript(m *handshake.Machine) (h []byte) {
	defer func() {
		if recover() != nil {
			h = nil
		}
	}()
	v := reflect.ValueOf(m).Elem().FieldByName("hs")
	if !v.IsValid() || v.Type() != reflect.TypeOf((*noise.HandshakeState)(nil)) {
		return nil
	}
	hs := *(**noise.HandshakeState)(unsafe.Pointer(v.UnsafeAddr()))
	if hs == nil {
		return nil
	}
	return append([]byte{}, hs.ChannelBinding()...)
}

func c07Kind(err error, class string) string {
	if err == nil {
		return "?"
	}
	e := err.Error()
	switch {
	case errors.Is(err, noise.ErrShortMessage):
		return "message cut after the ephemeral key (noise ErrShortMessage returned after e was absorbed, no rollback)"
	case strings.Contains(e, "low order") || strings.Contains(e, "unable to unmarshal pubkey") || strings.Contains(e, "bad input point") || strings.Contains(e, "invalid public key"):
		return "invalid or low-order peer key (noise DH failure returned after e was absorbed, no rollback)"
	}
	return "other rejection [" + class + "]"
}

type c07Stats struct {
	mu        sync.Mutex
	outcomes  map[string]int64 // role|outcome
	classOut  map[string]int64 // role|class|outcome
	states    map[string]struct{}
	wedging   map[string]string // world|role|label -> kind (from depth 1)
	histories atomic.Int64
	trans     atomic.Int64
	hashSeen  atomic.Int64
}

func (st *c07Stats) note(w *c07World, role, class, outcome, stateKey string) {
	st.mu.Lock()
	st.outcomes[role+"|"+outcome]++
	st.classOut[role+"|"+class+"|"+outcome]++
	st.states[w.name()+"|"+role+"|"+stateKey] = struct{}{}
	st.mu.Unlock()
}

type c07StepRec struct {
	Label   string `json:"message"`
	Outcome string `json:"outcome"`
	Err     string `json:"error,omitempty"`
	HashMov any    `json:"transcript_hash_changed,omitempty"`
	Hex     string `json:"hex,omitempty"`
}

// c07RunMachineHistory executes r1..rk . M on a fresh session.
func c07RunMachineHistory(c *mc.Check, st *c07Stats, w *c07World, role string, hist []c07Rej, depth1 bool) {
	s := c07NewSess(w, role)
	st.histories.Add(1)
	h0 := c07Transcript(s.m)
	var steps []c07StepRec
	var usable []int // indexes of rejected-while-usable messages
	var usableErr []error
	stateKey := "pristine"
	detail := func(extra map[string]any) map[string]any {
		d := map[string]any{"level": "handshake.Machine", "role": role, "curve": w.curve.String(), "cipher": w.cipher, "history": steps,
			"genuine_len": len(s.genuine), "replay": "fresh Machine of that role; deliver the messages of `history` in order (each derived from the session's genuine message as described), then the genuine message"}
		for k, v := range extra {
			d[k] = v
		}
		return d
	}
	for i, r := range hist {
		msg := r.mk(&s.c07Ctx)
		out, res, err := s.m.ProcessPacket(nil, msg)
		st.trans.Add(1)
		rec := c07StepRec{Label: r.label}
		if len(msg) <= 96 {
			rec.Hex = hex.EncodeToString(msg)
		}
		h1 := c07Transcript(s.m)
		moved := h0 != nil && h1 != nil && !bytes.Equal(h0, h1)
		if h0 != nil {
			rec.HashMov = moved
			st.hashSeen.Add(1)
		}
		switch {
		case err == nil:
			// not a rejection: the variant is as good as the genuine message for this side (unauthenticated header bits,
			// or stage-1 content that is only authenticated later). The history ends here.
			rec.Outcome = "accepted"
			steps = append(steps, rec)
			st.note(w, role, r.class, "accepted", "completed")
			return
		case s.m.Failed():
			rec.Outcome, rec.Err = "rejected, Failed()=true", err.Error()
			steps = append(steps, rec)
			st.note(w, role, r.class, "rejected-failed", "failed")
			if out != nil || res != nil {
				c.Violation(fmt.Sprintf("Machine (%s) returns output or a Result together with an error", role), detail(nil))
			}
			// every later input must be refused
			later := [][]byte{}
			for _, r2 := range hist[i+1:] {
				later = append(later, r2.mk(&s.c07Ctx))
			}
			later = append(later, s.genuine, s.genuine[:header.Len], []byte{1, 2, 3}, msg)
			for _, in := range later {
				o2, r2, e2 := s.m.ProcessPacket(nil, in)
				st.trans.Add(1)
				if e2 == nil || o2 != nil || r2 != nil || !s.m.Failed() {
					c.Violation(fmt.Sprintf("failed Machine (%s) does not refuse a later input", role), detail(map[string]any{"later_input_len": len(in), "err": fmt.Sprint(e2), "still_failed": s.m.Failed()}))
					break
				}
			}
			if o3, e3 := s.m.Initiate(nil); e3 == nil || o3 != nil {
				c.Violation(fmt.Sprintf("failed Machine (%s) does not refuse a later input", role), detail(map[string]any{"later_input": "Initiate"}))
			}
			return
		default:
			rec.Outcome, rec.Err = "rejected, Failed()=false", err.Error()
			steps = append(steps, rec)
			if out != nil || res != nil {
				c.Violation(fmt.Sprintf("Machine (%s) returns output or a Result together with an error", role), detail(nil))
			}
			usable = append(usable, i)
			usableErr = append(usableErr, err)
			if moved {
				stateKey = "usable, transcript moved by: " + r.label
			}
			st.note(w, role, r.class, "rejected-usable", stateKey)
		}
	}
	// every rejected message left the handshake "usable": the genuine message must now complete it as if nothing happened
	why := s.finish()
	st.trans.Add(1)
	if why == "" {
		st.note(w, role, "genuine", "completed", "completed")
		return
	}
	if len(hist) == 0 {
		c.Broken("undisturbed %s session in %s does not complete: %s", role, w.name(), why)
	}
	steps = append(steps, c07StepRec{Label: "genuine message", Outcome: why})
	// attribute: at depth 1 the single message; deeper, a message already known to wedge on its own
	kind := ""
	if depth1 {
		kind = c07Kind(usableErr[0], hist[usable[0]].class)
		st.mu.Lock()
		st.wedging[w.name()+"|"+role+"|"+hist[0].label] = kind
		st.mu.Unlock()
	} else {
		st.mu.Lock()
		for _, i := range usable {
			if k, ok := st.wedging[w.name()+"|"+role+"|"+hist[i].label]; ok {
				kind = k
				break
			}
		}
		st.mu.Unlock()
		if kind == "" {
			var cl []string
			for _, i := range usable {
				cl = append(cl, hist[i].class)
			}
			kind = "only the combination of rejected messages [" + strings.Join(cl, " + ") + "]"
		}
	}
	st.note(w, role, "genuine", "wedged", "wedged")
	c.Violation(fmt.Sprintf("Machine (%s) stays Failed()=false after rejecting a message, then refuses the genuine one: %s", role, kind), detail(map[string]any{"genuine_outcome": why}))
}

// ---------------------------------------------------------------------------------------------------------------------
// part 2: through the HandshakeManager (two real nodes, no goroutines)

type c07HM struct {
	net        *vnet
	a, b       *vnode
	stage1, m2 vpkt
	hh         *HandshakeHostInfo
	mach       *handshake.Machine
	localIdx   uint32
}

const c07Marker = "C07-MARKER-PAYLOAD"

func c07StartHM(t *testing.T, cipher string) *c07HM {
	ov := func(peer, addr string) m {
		return m{"static_host_map": m{peer: []string{addr}}, "cipher": cipher}
	}
	a := vnodeSpec{Name: "c07a", Networks: "10.0.0.1/24", Udp: "192.0.2.1:4242", Overrides: ov("10.0.0.2", "192.0.2.2:4242")}
	b := vnodeSpec{Name: "c07b", Networks: "10.0.0.2/24", Udp: "192.0.2.2:4242", Overrides: ov("10.0.0.1", "192.0.2.1:4242")}
	net := vNewNet(t, 7, a, b)
	r := &c07HM{net: net, a: net.node("c07a"), b: net.node("c07b")}
	r.a.tunSend(vUDPPacket(r.a.vpnIP, r.b.vpnIP, 1000, 2000, []byte(c07Marker)))
	net.collect()
	if len(net.inflight) != 1 {
		t.Fatalf("c07: expected exactly the stage-1 datagram in flight, got %d", len(net.inflight))
	}
	r.stage1 = net.inflight[0]
	r.hh = r.a.hm.queryVpnIp(r.b.vpnIP)
	if r.hh == nil || r.hh.machine == nil {
		t.Fatalf("c07: no pending handshake on the initiator node")
	}
	r.mach, r.localIdx = r.hh.machine, r.hh.hostinfo.localIndexId
	net.deliverAt(0, false)
	for _, p := range net.inflight {
		var h header.H
		if p.From == r.b.udp && h.Parse(p.Data) == nil && h.Type == header.Handshake && h.MessageCounter == 2 {
			r.m2 = p
		}
	}
	if r.m2.Data == nil {
		t.Fatalf("c07: responder node did not answer with a stage 2")
	}
	net.inflight = nil // only what the harness re-injects is delivered from here on
	return r
}

func (r *c07HM) pending() bool {
	cur := r.a.hm.queryIndex(r.localIdx)
	return cur == r.hh
}

// end-state as far as the property can see it (no key bytes)
func (r *c07HM) finalState() string {
	marker := 0
	for _, p := range r.net.tunLog["c07b"] {
		if bytes.Contains(p, []byte(c07Marker)) {
			marker++
		}
	}
	return fmt.Sprintf("a.tunnels=%+v a.pending=%v b.tunnels=%+v marker_delivered_to_b=%d", r.a.tunnels(), r.a.pendingAddrs(), r.b.tunnels(), marker)
}

func c07HMWorld(r *c07HM, cipher string) (*c07World, error) {
	pk := vGetPKI()
	ncs, err := newCipherSuite(cert.Curve_CURVE25519, false, cipher, false)
	if err != nil {
		return nil, err
	}
	w := &c07World{curve: cert.Curve_CURVE25519, cipher: cipher, ncs: ncs, dhLen: ncs.DHLen()}
	leafB := pk.leafFor("c07b", "10.0.0.2/24", "", nil, cert.Version2)
	if w.B, err = c07Peerify(leafB.crt, leafB.keyPEM, ncs); err != nil {
		return nil, err
	}
	nb, na := vtime.Epoch.Add(-vtime.Hour), vtime.Epoch.Add(24*vtime.Hour)
	caU, _, caUKey, _ := ct.NewTestCaCert(cert.Version2, cert.Curve_CURVE25519, nb, na, nil, nil, nil)
	mk := func(name, addr string, signer cert.Certificate, key []byte, notAfter vtime.Time) *c07Peer {
		c, _, keyPEM, _ := ct.NewTestCert(cert.Version2, cert.Curve_CURVE25519, signer, key, name, vtime.Epoch.Add(-vtime.Hour), notAfter, []netip.Prefix{netip.MustParsePrefix(addr)}, nil, nil)
		p, e := c07Peerify(c, keyPEM, ncs)
		if e != nil && err == nil {
			err = e
		}
		return p
	}
	w.U = mk("c07b", "10.0.0.2/24", caU, caUKey, na)
	w.X = mk("c07b", "10.0.0.2/24", pk.ca, pk.caKey, vtime.Epoch.Add(-vtime.Minute))
	w.B2 = mk("c07b2", "10.0.0.4/24", pk.ca, pk.caKey, na)
	w.A2 = mk("c07a2", "10.0.0.3/24", pk.ca, pk.caKey, na)
	w.A = w.A2 // never used for crafting in the initiator role
	if err != nil {
		return nil, err
	}
	// a foreign session between A2 and B2 under the same CA
	pool := ct.NewTestCAPool(pk.ca)
	w.pool = pool
	w.verify = func(c cert.Certificate) (*cert.CachedCertificate, error) {
		return pool.VerifyCertificate(vtime.Now(), c)
	}
	var n1, n2 int
	im, rm := w.machine(w.A2, true, 0x0c0c0c03, &n1), w.machine(w.B2, false, 0x0d0d0d04, &n2)
	if w.foreign1, err = im.Initiate(nil); err != nil {
		return nil, err
	}
	if w.foreign2, _, err = rm.ProcessPacket(nil, w.foreign1); err != nil {
		return nil, err
	}
	return w, nil
}

// ---------------------------------------------------------------------------------------------------------------------

func TestVerifC07(t *testing.T) {
	c := mc.Begin(t, "C07", "model_checking")
	defer c.End()
	st := &c07Stats{outcomes: map[string]int64{}, classOut: map[string]int64{}, states: map[string]struct{}{}, wedging: map[string]string{}}
	workers := runtime.GOMAXPROCS(0)

	type combo struct {
		curve  cert.Curve
		cipher string
	}
	combos := []combo{{cert.Curve_CURVE25519, "aes"}, {cert.Curve_CURVE25519, "chachapoly"}, {cert.Curve_P256, "aes"}, {cert.Curve_P256, "chachapoly"}}
	var worlds []*c07World
	for _, cb := range combos {
		w, err := c07Mint(cb.curve, cb.cipher)
		if err != nil {
			c.Broken("mint %v: %v", cb, err)
		}
		worlds = append(worlds, w)
	}
	roles := []string{"initiator", "responder"}
	hmCapped := false // some time cap was hit: vacuity guards that need the whole box are skipped

	par := func(n int, fn func(i int)) bool {
		var next atomic.Int64
		var stopped atomic.Bool
		var wg sync.WaitGroup
		for k := 0; k < workers; k++ {
			wg.Add(1)
			go func() {
				defer wg.Done()
				for {
					i := int(next.Add(1) - 1)
					if i >= n || stopped.Load() {
						return
					}
					if i&0xff == 0 && c.OutOfTime() {
						stopped.Store(true)
						return
					}
					fn(i)
				}
			}()
		}
		wg.Wait()
		return !stopped.Load()
	}

	// ---- part 1, depth 0 and 1: the whole alphabet
	type wr struct {
		w     *c07World
		role  string
		alpha []c07Rej
		reps  []c07Rej
	}
	var wrs []*wr
	alphaSizes := map[string]int{}
	for _, w := range worlds {
		for _, role := range roles {
			probe := c07NewSess(w, role)
			x := &wr{w: w, role: role, alpha: c07Alphabet(&probe.c07Ctx)}
			for _, r := range x.alpha {
				if r.rep {
					x.reps = append(x.reps, r)
				}
			}
			alphaSizes[w.name()+"/"+role] = len(x.alpha)
			wrs = append(wrs, x)
			c07RunMachineHistory(c, st, w, role, nil, false) // undisturbed session completes (premise)
			// the genuine message length is a constant of (world, role): the alphabet is positional
			if p2 := c07NewSess(w, role); len(p2.genuine) != len(probe.genuine) {
				c.Broken("genuine message length varies between sessions (%d vs %d)", len(p2.genuine), len(probe.genuine))
			}
		}
	}
	type job struct {
		x    *wr
		hist []c07Rej
	}
	var jobs []job
	for _, x := range wrs {
		for _, r := range x.alpha {
			jobs = append(jobs, job{x, []c07Rej{r}})
		}
	}
	if !par(len(jobs), func(i int) { c07RunMachineHistory(c, st, jobs[i].x.w, jobs[i].x.role, jobs[i].hist, true) }) {
		c.Capped("time budget at depth 1")
		hmCapped = true
	}
	depth1 := len(jobs)

	// ---- part 1, depth 2: quick = representatives x representatives; thorough = (whole alphabet x representatives) both ways
	jobs = jobs[:0]
	for _, x := range wrs {
		for _, r1 := range x.reps {
			for _, r2 := range x.reps {
				jobs = append(jobs, job{x, []c07Rej{r1, r2}})
			}
		}
	}
	if c.Thorough() { // medium alphabet first, the remaining bit flips last (a time cap then cuts the least diverse part)
		for _, mid := range []bool{true, false} {
			for _, x := range wrs {
				for _, r1 := range x.alpha {
					if r1.rep || r1.mid != mid {
						continue
					}
					for _, r2 := range x.reps {
						jobs = append(jobs, job{x, []c07Rej{r1, r2}}, job{x, []c07Rej{r2, r1}})
					}
				}
			}
		}
		// and the medium alphabet squared (every truncation length, one flip per byte, all substitutions and crafted messages)
		for _, x := range wrs {
			for _, r1 := range x.alpha {
				if r1.rep || !r1.mid {
					continue
				}
				for _, r2 := range x.alpha {
					if !r2.rep && r2.mid {
						jobs = append(jobs, job{x, []c07Rej{r1, r2}})
					}
				}
			}
		}
	}
	// depth 2 may use at most 60% of the soft budget so that the manager level is always reached
	budget := mc.Pick(c, 45.0, 900.0)
	if f, err := strconv.ParseFloat(os.Getenv("VERIF_BUDGET_S"), 64); err == nil && f > 0 {
		budget = f
	}
	var d2stop atomic.Bool
	var d2done atomic.Int64
	par(len(jobs), func(i int) {
		if d2stop.Load() {
			return
		}
		if i&0x3f == 0 && c.Elapsed() > 0.6*budget {
			d2stop.Store(true)
			return
		}
		c07RunMachineHistory(c, st, jobs[i].x.w, jobs[i].x.role, jobs[i].hist, false)
		d2done.Add(1)
	})
	if d2stop.Load() || c.OutOfTime() {
		c.Capped("time budget at depth 2")
		hmCapped = true
	}
	depth2 := d2done.Load()
	machineHistories := st.histories.Load()

	// ---- part 2: HandshakeManager pending state (process-global clock and randomness: strictly serial)
	hmCiphers := mc.Pick(c, []string{"aes"}, []string{"aes", "chachapoly"})
	var hmHist, hmKept, hmDeleted, hmAccepted, hmWedged int64
	hmOutcomes := map[string]int64{}
	hmWedgeKind := map[string]string{}
	for _, cipher := range hmCiphers {
		// undisturbed run, twice: premise + determinism of the assembly
		base := func() string {
			r := c07StartHM(t, cipher)
			defer r.net.close()
			r.net.inflight = []vpkt{r.m2}
			r.net.deliverAt(0, false)
			r.net.flushFIFO(40)
			return r.finalState()
		}
		b1, b2 := base(), base()
		if b1 != b2 {
			c.Broken("manager level: undisturbed run is not deterministic:\n%s\n%s", b1, b2)
		}
		if !strings.Contains(b1, "marker_delivered_to_b=1") || !strings.Contains(b1, "a.pending=[]") {
			c.Broken("manager level: undisturbed handshake does not complete: %s", b1)
		}
		probe := c07StartHM(t, cipher)
		w, err := c07HMWorld(probe, cipher)
		if err != nil {
			c.Broken("manager world: %v", err)
		}
		alpha := c07Alphabet(&c07Ctx{w: w, role: "initiator", genuine: probe.m2.Data, sent: probe.stage1.Data})
		probe.net.close()
		var hists [][]c07Rej
		var reps []c07Rej
		for _, r := range alpha { // representatives first: they contain every class, incl. the fatal ones
			if r.rep {
				reps = append(reps, r)
				hists = append(hists, []c07Rej{r})
			}
		}
		for _, r := range alpha {
			if !r.rep && (c.Thorough() || strings.HasPrefix(r.class, "truncate")) {
				hists = append(hists, []c07Rej{r})
			}
		}
		if c.Thorough() {
			for _, r1 := range reps {
				for _, r2 := range reps {
					hists = append(hists, []c07Rej{r1, r2})
				}
			}
		} else {
			for i, r1 := range reps {
				hists = append(hists, []c07Rej{r1, reps[(i*7+3)%len(reps)]})
			}
		}
		for _, hist := range hists {
			if c.OutOfTime() {
				c.Capped("time budget at manager level")
				hmCapped = true
				break
			}
			hmHist++
			r := c07StartHM(t, cipher)
			x := &c07Ctx{w: w, role: "initiator", genuine: r.m2.Data, sent: r.stage1.Data}
			var steps []c07StepRec
			var usableErrClass []string
			failedSeen, acceptedSeen := false, false
			detail := func(extra map[string]any) map[string]any {
				d := map[string]any{"level": "HandshakeManager (two-node network, initiator node under test)", "cipher": cipher, "curve": "CURVE25519", "history": steps,
					"replay": "node a sends a tun packet to b (stage 1 goes out), b answers; before b's stage 2 is delivered to a, deliver the messages of `history` to a from b's address; then deliver the genuine stage 2 and everything that follows"}
				for k, v := range extra {
					d[k] = v
				}
				return d
			}
			for _, rj := range hist {
				msg := rj.mk(x)
				h0 := c07Transcript(r.mach)
				r.a.deliver(r.b.udp, msg)
				st.trans.Add(1)
				r.net.collect()
				r.net.inflight = nil // whatever a emitted in reaction is not delivered (recv_error etc. belong to other properties)
				rec := c07StepRec{Label: rj.label}
				if h1 := c07Transcript(r.mach); h0 != nil && h1 != nil {
					rec.HashMov = !bytes.Equal(h0, h1)
				}
				switch {
				case len(r.a.tunnels()) > 0:
					rec.Outcome = "accepted (tunnel established)"
					acceptedSeen = true
				case r.mach.Failed():
					rec.Outcome = fmt.Sprintf("rejected, machine failed, pending entry kept=%v", r.pending())
					failedSeen = true
				default:
					rec.Outcome = fmt.Sprintf("rejected, machine usable, pending entry kept=%v", r.pending())
					usableErrClass = append(usableErrClass, rj.class)
				}
				steps = append(steps, rec)
				hmOutcomes[rj.class+" -> "+rec.Outcome]++
				if acceptedSeen || failedSeen {
					break
				}
			}
			r.net.inflight = []vpkt{r.m2}
			r.net.deliverAt(0, false)
			st.trans.Add(1)
			r.net.flushFIFO(40)
			final := r.finalState()
			switch {
			case acceptedSeen:
				hmAccepted++
			case failedSeen:
				hmDeleted++
				// the handshake reported itself failed: the genuine message must be refused (no tunnel appears on a)
				if len(r.a.tunnels()) > 0 {
					c.Violation("HandshakeManager: a handshake whose Machine failed still completes on a later message", detail(map[string]any{"final": final}))
				}
			default:
				hmKept++
				if final != b1 {
					hmWedged++
					// attribute to a message already known (from a single-message history) to wedge on its own
					kind := ""
					for i, cl := range usableErrClass {
						if k, ok := hmWedgeKind[hist[i].label]; ok && len(hist) > 1 {
							kind = k
							break
						}
						if strings.Contains(cl, "cut after e") {
							kind = "message cut after the ephemeral key"
						} else if strings.Contains(cl, "low-order") || strings.Contains(cl, "invalid static") || strings.Contains(cl, "invalid point") {
							kind = "invalid or low-order peer key"
						}
					}
					if kind == "" {
						kind = "other rejection [" + strings.Join(usableErrClass, " + ") + "]"
					}
					if len(hist) == 1 {
						hmWedgeKind[hist[0].label] = kind
					}
					steps = append(steps, c07StepRec{Label: "genuine stage 2, then everything in flight", Outcome: final})
					c.Violation("HandshakeManager: Machine still reports usable after a rejected message, yet the genuine stage 2 no longer completes the pending handshake: "+kind,
						detail(map[string]any{"final": final, "undisturbed_final": b1}))
				}
			}
			r.net.close()
		}
	}

	// ---- evidence and vacuity guards
	total := st.histories.Load() + hmHist
	states := len(st.states)
	c.Set("states", states)
	c.Set("transitions", st.trans.Load())
	c.Set("traces_validated_against_impl", total)
	c.Set("machine_histories", machineHistories)
	c.Set("machine_histories_depth1", depth1)
	c.Set("machine_histories_depth2", depth2)
	c.Set("manager_histories", hmHist)
	c.Set("manager_outcomes", map[string]int64{"accepted": hmAccepted, "machine_failed": hmDeleted, "kept_usable": hmKept, "kept_usable_but_wedged": hmWedged})
	c.Set("alphabet_sizes", alphaSizes)
	c.Set("outcomes", st.outcomes)
	keys := make([]string, 0, len(st.classOut))
	for k := range st.classOut {
		keys = append(keys, k)
	}
	sort.Strings(keys)
	co := map[string]int64{}
	for _, k := range keys {
		co[k] = st.classOut[k]
	}
	c.Set("outcomes_by_class", co)
	c.Set("manager_outcomes_by_class", hmOutcomes)
	c.Set("transcript_hash_observed", st.hashSeen.Load() > 0)
	c.Set("explanation", "a state is a history executed on fresh real objects; states = distinct (world, role, canonical state) with canonical state in {pristine, failed, completed, wedged, 'usable but transcript moved by <message>'}; transitions = real ProcessPacket / node.deliver calls; traces = executed histories (Machine level + manager level)")
	for _, x := range wrs[:2] {
		c.Sample(map[string]any{"world": x.w.name(), "role": x.role, "history": []string{x.alpha[header.Len+x.w.dhLen+5].label, "genuine message"}})
		c.Sample(map[string]any{"world": x.w.name(), "role": x.role, "history": []string{x.reps[len(x.reps)-1].label, x.reps[3].label, "genuine message"}})
	}
	for _, role := range roles {
		for _, o := range []string{"rejected-usable", "rejected-failed", "accepted", "completed"} {
			if hmCapped {
				break
			}
			c.Require(st.outcomes[role+"|"+o] > 0, "outcome %q never reached for role %s: %v", o, role, st.outcomes)
		}
	}
	c.Require(hmCapped || (hmKept > 0 && hmDeleted > 0), "manager level: kept=%d deleted=%d", hmKept, hmDeleted)
	c.Assume("'refused' is read as: an error, no Result and no output message, and Failed() stays true (the statement does not name an error value)")
	c.Assume("a variant that the side under test ACCEPTS (unauthenticated header bits; stage-1 content that is only authenticated by a later message) is not a rejected message: the history ends there")
	c.Assume("'exactly as if the rejected message had never arrived' is judged on what the caller can observe: Result fields (indexes, message count, peer certificate), key pairing with the honest peer, allocator calls; at manager level the hostmap views of both nodes, the pending table and the delivery of the queued tun packet, compared with the undisturbed run of the same seed")
	c.Assume("manager level uses the shared E4 assembly: X25519 only (its PKI mints X25519 certificates), datagrams a node emits in reaction to a mutant are not delivered")
	c.Assume("AEAD/DH primitives and flynn/noise's own correctness on well-formed input are trusted; crafted messages use flynn/noise directly")
}
