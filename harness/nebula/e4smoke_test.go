//go:build verif

package nebula

import (
	"bytes"
	"fmt"
	"net/netip"
	"runtime"
	"testing"

	"github.com/slackhq/nebula/zzverif/vtime"
)

func vTwoNodes(tb testing.TB, seed int64) *vnet {
	a := vnodeSpec{Name: "a", Networks: "10.0.0.1/24", Udp: "192.0.2.1:4242", Overrides: m{
		"static_host_map": m{"10.0.0.2": []string{"192.0.2.2:4242"}},
	}}
	b := vnodeSpec{Name: "b", Networks: "10.0.0.2/24", Udp: "192.0.2.2:4242", Overrides: m{
		"static_host_map": m{"10.0.0.1": []string{"192.0.2.1:4242"}},
	}}
	return vNewNet(tb, seed, a, b)
}

func TestVerifE4Smoke(t *testing.T) {
	g0 := runtime.NumGoroutine()
	run := func() (string, string) {
		net := vTwoNodes(t, 7)
		defer net.close()
		a, b := net.node("a"), net.node("b")
		a.tunSend(vUDPPacket(a.vpnIP, b.vpnIP, 1000, 2000, []byte("MARKER-1")))
		net.collect()
		trace := ""
		for i := 0; i < 10 && len(net.inflight) > 0; i++ {
			trace += net.inflight[0].String() + "\n"
			net.deliverAt(0, false)
		}
		vtime.Advance(100 * vtime.Millisecond)
		a.hsTick()
		net.collect()
		net.flushFIFO(20)
		got := net.tunLog["b"]
		if len(got) != 1 || !bytes.Contains(got[0], []byte("MARKER-1")) {
			t.Fatalf("b tun got %d packets; trace:\n%s", len(got), trace)
		}
		b.tunSend(vUDPPacket(b.vpnIP, a.vpnIP, 2000, 1000, []byte("MARKER-2")))
		net.collect()
		net.flushFIFO(20)
		if len(net.tunLog["a"]) != 1 {
			t.Fatalf("a tun got %d", len(net.tunLog["a"]))
		}
		return trace + fmt.Sprint(a.tunnels(), b.tunnels()), net.wireHash()
	}
	t1, w1 := run()
	t2, w2 := run()
	fmt.Println(t1)
	if t1 != t2 || w1 != w2 {
		t.Fatalf("nondeterministic replay:\n%s\n---\n%s\n%s %s", t1, t2, w1, w2)
	}
	if g := runtime.NumGoroutine(); g > g0+1 {
		buf := make([]byte, 1<<16)
		t.Fatalf("goroutines leaked: %d -> %d\n%s", g0, g, buf[:runtime.Stack(buf, true)])
	}
	_ = netip.Addr{}
}

func TestVerifE4SmokeRelay(t *testing.T) {
	net := vRelayNet(t, 3)
	defer net.close()
	a, b := net.node("a"), net.node("b")
	if !net.establish(a, b, "VIA-RELAY-1") {
		t.Fatalf("relayed packet never arrived; inflight=%v\nA=%s\nR=%s", net.inflight, vJSON(a.snapshot(vSnapOpts{})), vJSON(net.node("r").snapshot(vSnapOpts{})))
	}
	if !net.establish(b, a, "VIA-RELAY-2") {
		t.Fatalf("reverse relayed packet never arrived")
	}
	fmt.Println("A:", a.tunnels(), "\nR:", net.node("r").tunnels(), "\nB:", b.tunnels())
}
