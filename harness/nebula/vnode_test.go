//go:build verif

package nebula

// E4 — goroutine-free assembly of real nebula nodes, driven event by event (see DESIGN.md §2.5).
//
// A vnode is built from the same constructors Main() uses, with a recording udp.Conn and overlay.Device of its own.
// No reader/worker goroutine is ever started: every asynchronous stimulus (datagram delivery, tun packet, handshake
// timer tick / trigger, lighthouse query, connection-manager tick, punch job, reload) is a synchronous call of the
// real entry point made by the search. The clock is the virtual clock (import-rewritten "time").

import (
	"context"
	"crypto/sha256"
	"encoding/hex"
	"fmt"
	"log/slog"
	"net/netip"
	"os"
	"runtime"
	"sort"
	"strings"
	"sync"
	"testing"
	"testing/cryptotest"
	realtime "time"

	"dario.cat/mergo"
	"github.com/slackhq/nebula/cert"
	"github.com/slackhq/nebula/cert_test"
	"github.com/slackhq/nebula/config"
	"github.com/slackhq/nebula/firewall"
	"github.com/slackhq/nebula/header"
	"github.com/slackhq/nebula/overlay/batch"
	"github.com/slackhq/nebula/overlay/tio"
	"github.com/slackhq/nebula/routing"
	"github.com/slackhq/nebula/udp"
	"github.com/slackhq/nebula/zzverif/vtime"
	"go.yaml.in/yaml/v3"
)

// ---------------------------------------------------------------------------------------------------------------
// recording underlay socket

type vpkt struct {
	From netip.AddrPort
	To   netip.AddrPort
	Data []byte
}

func (p vpkt) String() string {
	return fmt.Sprintf("%v->%v %s", p.From, p.To, vDescribe(p.Data))
}

// vDescribe renders the unauthenticated header of a nebula datagram (for labels / canonical forms).
func vDescribe(b []byte) string {
	if len(b) < header.Len {
		return fmt.Sprintf("raw[%d]", len(b))
	}
	var h header.H
	_ = h.Parse(b)
	return fmt.Sprintf("%s/%d idx=%d ctr=%d len=%d", header.TypeName(h.Type), h.Subtype, h.RemoteIndex, h.MessageCounter, len(b))
}

type vconn struct {
	mu     sync.Mutex
	addr   netip.AddrPort
	out    []vpkt
	closed bool
	// writeErr, when set, is consulted for every write (fault injection)
	writeErr func(to netip.AddrPort) error
}

func (c *vconn) Rebind() error                         { return nil }
func (c *vconn) LocalAddr() (netip.AddrPort, error)    { return c.addr, nil }
func (c *vconn) ListenOut(udp.EncReader, func()) error { return nil }
func (c *vconn) SupportsMultipleReaders() bool         { return false }
func (c *vconn) ReloadConfig(*config.C)                {}
func (c *vconn) Close() error {
	c.mu.Lock()
	c.closed = true
	c.mu.Unlock()
	return nil
}
func (c *vconn) WriteTo(b []byte, addr netip.AddrPort) error {
	c.mu.Lock()
	defer c.mu.Unlock()
	if c.writeErr != nil {
		if err := c.writeErr(addr); err != nil {
			return err
		}
	}
	c.out = append(c.out, vpkt{From: c.addr, To: addr, Data: append([]byte(nil), b...)})
	return nil
}
func (c *vconn) WriteBatch(bufs [][]byte, addrs []netip.AddrPort) (int, error) {
	n := 0
	for i := range bufs {
		if err := c.WriteTo(bufs[i], addrs[i]); err == nil {
			n++
		}
	}
	return n, nil
}

// takeAll drains every routine's socket of a node.
func (n *vnode) takeOut() []vpkt {
	var o []vpkt
	for _, c := range n.conns {
		o = append(o, c.take()...)
	}
	return o
}

func (c *vconn) take() []vpkt {
	c.mu.Lock()
	defer c.mu.Unlock()
	o := c.out
	c.out = nil
	return o
}

// ---------------------------------------------------------------------------------------------------------------
// recording tun device

type vqueue struct {
	mu  sync.Mutex
	got [][]byte
}

func (q *vqueue) Close() error { return nil }
func (q *vqueue) Read() ([]tio.Packet, error) {
	return nil, fmt.Errorf("vqueue: Read is never driven in the goroutine-free harness")
}
func (q *vqueue) Write(p []byte) (int, error) {
	q.mu.Lock()
	q.got = append(q.got, append([]byte(nil), p...))
	q.mu.Unlock()
	return len(p), nil
}

type vtun struct {
	nets   []netip.Prefix
	q      *vqueue
	qs     []*vqueue // all queues (qs[0] == q)
	closed bool
	routes func(netip.Addr) routing.Gateways
}

func (t *vtun) Close() error             { t.closed = true; return nil }
func (t *vtun) Activate() error          { return nil }
func (t *vtun) Networks() []netip.Prefix { return t.nets }
func (t *vtun) Name() string             { return "vtun" }
func (t *vtun) Queues(int) ([]tio.Queue, error) {
	out := make([]tio.Queue, len(t.qs))
	for i, q := range t.qs {
		out[i] = q
	}
	return out, nil
}
func (t *vtun) RoutesFor(a netip.Addr) routing.Gateways {
	if t.routes != nil {
		return t.routes(a)
	}
	return routing.Gateways{}
}
func (t *vtun) take() [][]byte {
	var o [][]byte
	for _, q := range t.qs {
		q.mu.Lock()
		o = append(o, q.got...)
		q.got = nil
		q.mu.Unlock()
	}
	return o
}

// ---------------------------------------------------------------------------------------------------------------
// PKI material (minted once per process, reused by every replay)

type vPKI struct {
	ca     cert.Certificate
	caKey  []byte
	caPEM  []byte
	leaves map[string]*vLeaf
}

type vLeaf struct {
	crt     cert.Certificate
	certPEM []byte
	keyPEM  []byte
}

var vpkiOnce sync.Once
var vpki *vPKI

func vGetPKI() *vPKI {
	vpkiOnce.Do(func() {
		nb, na := vtime.Epoch.Add(-24*vtime.Hour), vtime.Epoch.Add(10*365*24*vtime.Hour)
		ca, _, key, pem := cert_test.NewTestCaCert(cert.Version2, cert.Curve_CURVE25519, nb, na, nil, nil, nil)
		vpki = &vPKI{ca: ca, caKey: key, caPEM: pem, leaves: map[string]*vLeaf{}}
	})
	return vpki
}

func vParsePrefixes(s string) []netip.Prefix {
	var out []netip.Prefix
	for _, x := range strings.Split(s, ",") {
		x = strings.TrimSpace(x)
		if x == "" {
			continue
		}
		out = append(out, netip.MustParsePrefix(x))
	}
	return out
}

// vLeafFor mints (or returns the cached) certificate for a node identity.
func (p *vPKI) leafFor(name, networks, unsafe string, groups []string, v cert.Version) *vLeaf {
	key := fmt.Sprintf("%s|%s|%s|%v|%d", name, networks, unsafe, groups, v)
	if l, ok := p.leaves[key]; ok {
		return l
	}
	nb, na := vtime.Epoch.Add(-vtime.Hour), vtime.Epoch.Add(5*365*24*vtime.Hour)
	crt, _, keyPEM, certPEM := cert_test.NewTestCert(v, cert.Curve_CURVE25519, p.ca, p.caKey, name, nb, na, vParsePrefixes(networks), vParsePrefixes(unsafe), groups)
	l := &vLeaf{crt: crt, certPEM: certPEM, keyPEM: keyPEM}
	p.leaves[key] = l
	return l
}

// ---------------------------------------------------------------------------------------------------------------
// node

type vnodeSpec struct {
	Name      string
	Networks  string // "10.0.0.1/24[,fd00::1/64]"
	Unsafe    string
	Groups    []string
	Udp       string // "192.0.2.1:4242"
	Version   cert.Version
	Overrides m   // merged over the default config
	Routines  int // number of rx/tx routines (queues, sockets, rx contexts); default 1
}

type vnode struct {
	spec   vnodeSpec
	l      *slog.Logger
	c      *config.C
	cancel context.CancelFunc
	f      *Interface
	hm     *HandshakeManager
	lh     *LightHouse
	cm     *connectionManager
	conn   *vconn
	conns  []*vconn // one per routine (conns[0] == conn)
	tun    *vtun
	rxc    *rxContext
	rxcs   []*rxContext // one per routine (rxcs[0] == rxc)
	sb     *batch.SendBatch
	fwp    *firewall.ParsedPacket
	nb     []byte
	rej    []byte
	vpnIP  netip.Addr
	udp    netip.AddrPort
	// pending work the real worker goroutines would do; processed by explicit events
	pendTrig  []netip.Addr
	pendQuery []netip.Addr
}

var vLogLevel = func() slog.Level {
	if os.Getenv("VERIF_DEBUG") != "" {
		return slog.LevelDebug
	}
	return slog.LevelError + 4 // silence
}()

func vNewLogger(name string) *slog.Logger {
	if os.Getenv("VERIF_DEBUG") == "" {
		return slog.New(slog.DiscardHandler)
	}
	return slog.New(slog.NewTextHandler(os.Stderr, &slog.HandlerOptions{Level: vLogLevel})).With("node", name)
}

func vDefaultConfig(leaf *vLeaf, caPEM []byte, udpAddr netip.AddrPort) m {
	return m{
		"pki": m{"ca": string(caPEM), "cert": string(leaf.certPEM), "key": string(leaf.keyPEM)},
		"firewall": m{
			"outbound": []m{{"proto": "any", "port": "any", "host": "any"}},
			"inbound":  []m{{"proto": "any", "port": "any", "host": "any"}},
		},
		"listen":  m{"host": udpAddr.Addr().String(), "port": int(udpAddr.Port())},
		"timers":  m{"pending_deletion_interval": 2, "connection_alive_interval": 2},
		"logging": m{"level": "error"},
	}
}

// vNewNode assembles one node exactly as Main() does, minus every goroutine.
func vNewNode(tb testing.TB, spec vnodeSpec) *vnode {
	if spec.Version == 0 {
		spec.Version = cert.Version2
	}
	pk := vGetPKI()
	leaf := pk.leafFor(spec.Name, spec.Networks, spec.Unsafe, spec.Groups, spec.Version)
	udpAddr := netip.MustParseAddrPort(spec.Udp)
	mc := vDefaultConfig(leaf, pk.caPEM, udpAddr)
	if spec.Overrides != nil {
		final := m{}
		if err := mergo.Merge(&final, spec.Overrides, mergo.WithAppendSlice); err != nil {
			tb.Fatal(err)
		}
		if err := mergo.Merge(&final, mc, mergo.WithAppendSlice); err != nil {
			tb.Fatal(err)
		}
		mc = final
	}
	cb, err := yaml.Marshal(mc)
	if err != nil {
		tb.Fatal(err)
	}
	l := vNewLogger(spec.Name)
	c := config.NewC(l)
	if err := c.LoadString(string(cb)); err != nil {
		tb.Fatalf("config: %v", err)
	}

	ctx, cancel := context.WithCancel(context.Background())
	n := &vnode{spec: spec, l: l, c: c, cancel: cancel, udp: udpAddr}

	pki, err := NewPKIFromConfig(l, c)
	if err != nil {
		tb.Fatalf("pki: %v", err)
	}
	fw, err := NewFirewallFromConfig(l, pki.getCertState(), c)
	if err != nil {
		tb.Fatalf("firewall: %v", err)
	}
	routines := spec.Routines
	if routines < 1 {
		routines = 1
	}
	n.tun = &vtun{nets: pki.getCertState().myVpnNetworks}
	for i := 0; i < routines; i++ {
		n.tun.qs = append(n.tun.qs, &vqueue{})
		n.conns = append(n.conns, &vconn{addr: udpAddr})
	}
	n.tun.q = n.tun.qs[0]
	n.conn = n.conns[0]
	hostMap := NewHostMapFromConfig(l, c)
	punchy := NewPunchyFromConfig(l, c, n.conn)
	connManager := newConnectionManagerFromConfig(l, c, hostMap, punchy)

	// The lighthouse constructor starts its query worker; it is given an already-cancelled context and we wait until
	// that goroutine is gone, so lh.queryChan is only ever drained by the harness (through the real innerQueryServer).
	lhCtx, lhCancel := context.WithCancel(context.Background())
	lhCancel()
	before := runtime.NumGoroutine()
	lightHouse, err := NewLightHouseFromConfig(lhCtx, l, c, pki.getCertState(), n.conn, punchy)
	if err != nil {
		tb.Fatalf("lighthouse: %v", err)
	}
	for i, t0 := 0, realtime.Now(); runtime.NumGoroutine() > before; i++ {
		runtime.Gosched()
		if i > 1000 {
			realtime.Sleep(20 * realtime.Microsecond) // heavily loaded machine: give the worker a real chance to run
		}
		if realtime.Since(t0) > 120*realtime.Second {
			tb.Fatalf("lighthouse query worker did not exit within 120s")
		}
	}

	// advertise a fixed set of local underlay addresses instead of this machine's NICs (determinism)
	lightHouse.localAddrsFn = func(*LocalAllowList) []netip.Addr { return []netip.Addr{udpAddr.Addr()} }

	messageMetrics := newMessageMetricsOnlyRecvError()
	handshakeConfig := HandshakeConfig{
		tryInterval:    c.GetDuration("handshakes.try_interval", DefaultHandshakeTryInterval),
		retries:        int64(c.GetInt("handshakes.retries", DefaultHandshakeRetries)),
		triggerBuffer:  c.GetInt("handshakes.trigger_buffer", DefaultHandshakeTriggerBuffer),
		messageMetrics: messageMetrics,
	}
	hm := NewHandshakeManager(l, hostMap, lightHouse, n.conn, handshakeConfig)
	lightHouse.handshakeTrigger = hm.trigger

	ds, err := newDnsServerFromConfig(ctx, l, pki, hostMap, c)
	if err != nil {
		tb.Fatalf("dns: %v", err)
	}

	ifConfig := &InterfaceConfig{
		HostMap:               hostMap,
		Inside:                n.tun,
		Outside:               n.conn,
		pki:                   pki,
		Firewall:              fw,
		DnsServer:             ds,
		HandshakeManager:      hm,
		connectionManager:     connManager,
		lightHouse:            lightHouse,
		tryPromoteEvery:       c.GetUint32("counters.try_promote", defaultPromoteEvery),
		reQueryEvery:          c.GetUint32("counters.requery_every_packets", defaultReQueryEvery),
		reQueryWait:           c.GetDuration("timers.requery_wait_duration", defaultReQueryWait),
		DropLocalBroadcast:    c.GetBool("tun.drop_local_broadcast", false),
		DropMulticast:         c.GetBool("tun.drop_multicast", false),
		routines:              routines,
		MessageMetrics:        messageMetrics,
		version:               "verif",
		relayManager:          NewRelayManager(ctx, l, hostMap, c),
		punchy:                punchy,
		ConntrackCacheTimeout: c.GetDuration("firewall.conntrack.routine_cache_timeout", 0),
		l:                     l,
	}
	ifce, err := NewInterface(ctx, ifConfig)
	if err != nil {
		tb.Fatalf("interface: %v", err)
	}
	ifce.writers = make([]udp.Conn, routines)
	for i := range n.conns {
		ifce.writers[i] = n.conns[i]
	}
	lightHouse.ifce = ifce
	ifce.RegisterConfigChangeCallbacks(c)
	ifce.reloadDisconnectInvalid(c)
	ifce.reloadSendRecvError(c)
	ifce.reloadAcceptRecvError(c)
	hm.f = ifce
	// punchy.Start would spawn the scheduler worker; wire its dependencies only. Punch jobs that become due are
	// taken from the scheduler queue by vnode.runPunchJobs.
	punchy.ctx, punchy.ifce, punchy.hm, punchy.lh = ctx, ifce, hostMap, lightHouse

	if err := ifce.activate(); err != nil {
		tb.Fatalf("activate: %v", err)
	}
	n.f, n.hm, n.lh, n.cm = ifce, hm, lightHouse, connManager
	for i := 0; i < routines; i++ {
		n.rxcs = append(n.rxcs, newRxContext(ifce, i))
	}
	n.rxc = n.rxcs[0]
	n.sb = batch.NewSendBatch(n.conn, batch.SendBatchCap, batch.SendBatchCap*(udp.MTU+32))
	n.fwp = &firewall.ParsedPacket{}
	n.nb = make([]byte, 12, 12)
	n.rej = make([]byte, mtu)
	n.vpnIP = pki.getCertState().myVpnAddrs[0]
	return n
}

func (n *vnode) close() { n.cancel() }

// drain moves what the real worker goroutines would pick up (handshake triggers, lighthouse queries) into the node's
// pending lists. Must be called after every event, otherwise the 65th QueryServer blocks.
func (n *vnode) drain() {
	for {
		select {
		case a := <-n.hm.trigger:
			n.pendTrig = append(n.pendTrig, a)
			continue
		default:
		}
		select {
		case a := <-n.lh.queryChan:
			n.pendQuery = append(n.pendQuery, a)
			continue
		default:
		}
		return
	}
}

// runPending executes pending triggers and lighthouse queries the way HandshakeManager.Run / the query worker would.
func (n *vnode) runPending() {
	for i := 0; i < 64 && (len(n.pendTrig) > 0 || len(n.pendQuery) > 0); i++ {
		tr, qs := n.pendTrig, n.pendQuery
		n.pendTrig, n.pendQuery = nil, nil
		for _, a := range tr {
			n.hm.handleOutbound(a, true)
			n.drain()
		}
		out := make([]byte, mtu)
		for _, a := range qs {
			n.lh.innerQueryServer(a, n.nb, out)
			n.drain()
		}
	}
}

// settle = drain + runPending: the default "workers are prompt" policy.
func (n *vnode) settle() {
	n.drain()
	n.runPending()
}

// ---- events -----------------------------------------------------------------------------------------------------

// deliver hands one datagram to the node as its udp reader would (one packet per receive batch).
func (n *vnode) deliver(from netip.AddrPort, data []byte) {
	n.f.readOutsidePackets(ViaSender{UdpAddr: from}, append([]byte(nil), data...), n.rxc)
	n.flushRx()
	n.settle()
}

// deliverBatch hands several datagrams in ONE receive batch (the per-batch hostmap cache stays warm between them).
func (n *vnode) deliverBatch(pkts []vpkt) {
	for _, p := range pkts {
		n.f.readOutsidePackets(ViaSender{UdpAddr: p.From}, append([]byte(nil), p.Data...), n.rxc)
	}
	n.flushRx()
	n.settle()
}

// deliverOn is deliver on routine q (its own rx context and tun batcher), without running the pending worker jobs.
func (n *vnode) deliverOn(q int, from netip.AddrPort, data []byte) {
	n.f.readOutsidePackets(ViaSender{UdpAddr: from}, append([]byte(nil), data...), n.rxcs[q])
	_ = n.f.batchers[q].Flush()
	clear(n.rxcs[q].hostmapCache)
}

func (n *vnode) flushRx() {
	_ = n.f.batchers[0].Flush()
	clear(n.rxc.hostmapCache)
}

// tunSend injects an application packet on the tun side, as listenIn would.
func (n *vnode) tunSend(pkt []byte) {
	n.f.consumeInsidePacket(tio.Packet{Bytes: append([]byte(nil), pkt...)}, n.fwp, n.nb, n.sb, n.rej, 0, nil)
	n.f.flushSendBatch(n.sb, 0)
	n.settle()
}

// hsTick advances nothing by itself: it runs the handshake manager's timer tick at the current virtual time.
func (n *vnode) hsTick() {
	n.hm.NextOutboundHandshakeTimerTick(vtime.Now())
	n.settle()
}

// cmTick runs one connection-manager tick at the current virtual time, exactly as connectionManager.Start's loop body.
func (n *vnode) cmTick() {
	now := vtime.Now()
	n.cm.trafficTimer.Advance(now)
	p := []byte("")
	out := make([]byte, mtu)
	for {
		localIndex, has := n.cm.trafficTimer.Purge()
		if !has {
			break
		}
		n.cm.doTrafficCheck(localIndex, p, n.nb, out, now)
	}
	n.settle()
}

// runPunchJobs executes the punch jobs whose timers have fired (they sit in the scheduler queue), with the same body
// as the worker closure in Punchy.Start.
func (n *vnode) runPunchJobs() int {
	k := 0
	out := make([]byte, mtu)
	for {
		select {
		case job := <-n.f.punchy().sched.queue:
			k++
			switch {
			case job.target.IsValid():
				n.f.punchy().punchConn.WriteTo([]byte{0}, job.target)
			case job.vpnAddr.IsValid():
				n.f.SendMessageToVpnAddr(header.Test, header.TestRequest, job.vpnAddr, []byte(""), n.nb, out)
			}
		default:
			n.settle()
			return k
		}
	}
}

func (f *Interface) punchy() *Punchy { return f.lightHouse.punchy }

// reload applies a new configuration (merged overrides) through the real reload path.
func (n *vnode) reload(overrides m) error {
	pk := vGetPKI()
	leaf := pk.leafFor(n.spec.Name, n.spec.Networks, n.spec.Unsafe, n.spec.Groups, n.spec.Version)
	mc := vDefaultConfig(leaf, pk.caPEM, n.udp)
	final := m{}
	if overrides != nil {
		if err := mergo.Merge(&final, overrides, mergo.WithAppendSlice); err != nil {
			return err
		}
	}
	if err := mergo.Merge(&final, mc, mergo.WithAppendSlice); err != nil {
		return err
	}
	cb, err := yaml.Marshal(final)
	if err != nil {
		return err
	}
	err = n.c.ReloadConfigString(string(cb))
	n.settle()
	return err
}

// ---------------------------------------------------------------------------------------------------------------
// network of nodes

type vnet struct {
	tb       testing.TB
	nodes    []*vnode
	byUDP    map[netip.Addr]*vnode
	inflight []vpkt              // datagrams written and not yet delivered/dropped, in emission order
	tunLog   map[string][][]byte // per node name: packets written to the tun so far
	wire     [][]byte            // every datagram ever emitted (for determinism checks)
}

// vNewNet resets the process-global sources of nondeterminism and builds the nodes.
func vNewNet(tb testing.TB, seed int64, specs ...vnodeSpec) *vnet {
	vGetPKI() // mint CA before pinning randomness so that it is independent of the seed
	for _, s := range specs {
		if s.Version == 0 {
			s.Version = cert.Version2
		}
		vGetPKI().leafFor(s.Name, s.Networks, s.Unsafe, s.Groups, s.Version)
	}
	if t, ok := tb.(*testing.T); ok {
		cryptotest.SetGlobalRandom(t, uint64(seed)+1)
	}
	vtime.Reset()
	net := &vnet{tb: tb, byUDP: map[netip.Addr]*vnode{}, tunLog: map[string][][]byte{}}
	for _, s := range specs {
		n := vNewNode(tb, s)
		net.nodes = append(net.nodes, n)
		net.byUDP[n.udp.Addr()] = n
	}
	return net
}

func (v *vnet) close() {
	for _, n := range v.nodes {
		n.close()
	}
}

func (v *vnet) node(name string) *vnode {
	for _, n := range v.nodes {
		if n.spec.Name == name {
			return n
		}
	}
	v.tb.Fatalf("no node %q", name)
	return nil
}

// collect moves everything the nodes wrote since the last call into the in-flight pool / tun logs.
func (v *vnet) collect() {
	for _, n := range v.nodes {
		for _, p := range n.takeOut() {
			v.inflight = append(v.inflight, p)
			v.wire = append(v.wire, p.Data)
		}
		if got := n.tun.take(); len(got) > 0 {
			v.tunLog[n.spec.Name] = append(v.tunLog[n.spec.Name], got...)
		}
	}
}

// deliverAt delivers in-flight datagram i (removing it unless dup) to the node owning its destination address.
// Datagrams to unknown addresses vanish.
func (v *vnet) deliverAt(i int, dup bool) {
	p := v.inflight[i]
	if !dup {
		v.inflight = append(append([]vpkt{}, v.inflight[:i]...), v.inflight[i+1:]...)
	}
	if dst, ok := v.byUDP[p.To.Addr()]; ok && dst.udp.Port() == p.To.Port() {
		dst.deliver(p.From, p.Data)
	}
	v.collect()
}

func (v *vnet) dropAt(i int) {
	v.inflight = append(append([]vpkt{}, v.inflight[:i]...), v.inflight[i+1:]...)
}

// flushFIFO delivers everything in flight in order, loss-free, until the network is empty (bounded rounds).
func (v *vnet) flushFIFO(maxPkts int) int {
	k := 0
	for len(v.inflight) > 0 && k < maxPkts {
		v.deliverAt(0, false)
		k++
	}
	return k
}

// wireHash is a digest of every datagram emitted so far (determinism double-run).
func (v *vnet) wireHash() string {
	h := sha256.New()
	for _, w := range v.wire {
		fmt.Fprintf(h, "%d:", len(w))
		h.Write(w)
	}
	return hex.EncodeToString(h.Sum(nil)[:8])
}

// ---------------------------------------------------------------------------------------------------------------
// helpers for building IP packets and reading hostmap state

// vUDPPacket builds a minimal IPv4/UDP datagram src->dst carrying payload (checksums left zero: nebula does not verify them).
func vUDPPacket(src, dst netip.Addr, sport, dport uint16, payload []byte) []byte {
	b := make([]byte, 28+len(payload))
	b[0] = 0x45
	tl := len(b)
	b[2], b[3] = byte(tl>>8), byte(tl)
	b[8] = 64
	b[9] = 17
	s, d := src.As4(), dst.As4()
	copy(b[12:16], s[:])
	copy(b[16:20], d[:])
	b[20], b[21] = byte(sport>>8), byte(sport)
	b[22], b[23] = byte(dport>>8), byte(dport)
	ul := 8 + len(payload)
	b[24], b[25] = byte(ul>>8), byte(ul)
	copy(b[28:], payload)
	return b
}

// vTunnelView is the property-relevant, byte-free description of one hostmap entry.
type vTunnelView struct {
	VpnAddrs    string
	LocalIndex  uint32
	RemoteIndex uint32
	Remote      string
	Primary     bool
	HasCS       bool
	In, Out     bool
}

func (n *vnode) tunnels() []vTunnelView {
	n.f.hostMap.RLock()
	defer n.f.hostMap.RUnlock()
	var out []vTunnelView
	for _, hi := range n.f.hostMap.Indexes {
		prim := false
		if len(hi.vpnAddrs) > 0 {
			prim = n.f.hostMap.Hosts[hi.vpnAddrs[0]] == hi
		}
		out = append(out, vTunnelView{
			VpnAddrs: fmt.Sprint(hi.vpnAddrs), LocalIndex: hi.localIndexId, RemoteIndex: hi.remoteIndexId,
			Remote: hi.GetRemote().String(), Primary: prim, HasCS: hi.ConnectionState != nil, In: hi.in.Load(), Out: hi.out.Load(),
		})
	}
	sort.Slice(out, func(i, j int) bool { return out[i].LocalIndex < out[j].LocalIndex })
	return out
}

func (n *vnode) pendingAddrs() []string {
	n.hm.RLock()
	defer n.hm.RUnlock()
	var out []string
	for a := range n.hm.vpnIps {
		out = append(out, a.String())
	}
	sort.Strings(out)
	return out
}

// ---------------------------------------------------------------------------------------------------------------
// scenario helpers

// injectLighthouseAddr teaches the node an underlay address for vpnIp (what a lighthouse reply would do).
func (n *vnode) injectLighthouseAddr(vpnIp netip.Addr, to netip.AddrPort) {
	n.lh.Lock()
	rl := n.lh.unlockedGetRemoteList([]netip.Addr{vpnIp})
	rl.Lock()
	n.lh.Unlock()
	if to.Addr().Is4() {
		rl.unlockedPrependV4(vpnIp, netAddrToProtoV4AddrPort(to.Addr(), to.Port()))
	} else {
		rl.unlockedPrependV6(vpnIp, netAddrToProtoV6AddrPort(to.Addr(), to.Port()))
	}
	rl.Unlock()
}

// injectRelays tells the node that vpnIp can be reached through the given relays.
func (n *vnode) injectRelays(vpnIp netip.Addr, relays []netip.Addr) {
	n.lh.Lock()
	rl := n.lh.unlockedGetRemoteList([]netip.Addr{vpnIp})
	rl.Lock()
	n.lh.Unlock()
	rl.unlockedSetRelay(vpnIp, relays)
	rl.Unlock()
}

// vRelayNet builds A — R — B: A and B can only reach each other through relay R.
// A: 10.0.0.1 @192.0.2.1, R: 10.0.0.9 @192.0.2.9, B: 10.0.0.2 @192.0.2.2. Extra nodes may be appended.
func vRelayNet(tb testing.TB, seed int64, extra ...vnodeSpec) *vnet {
	a := vnodeSpec{Name: "a", Networks: "10.0.0.1/24", Udp: "192.0.2.1:4242", Overrides: m{"relay": m{"use_relays": true}}}
	r := vnodeSpec{Name: "r", Networks: "10.0.0.9/24", Udp: "192.0.2.9:4242", Overrides: m{"relay": m{"am_relay": true}}}
	b := vnodeSpec{Name: "b", Networks: "10.0.0.2/24", Udp: "192.0.2.2:4242", Overrides: m{"relay": m{"use_relays": true}}}
	net := vNewNet(tb, seed, append([]vnodeSpec{a, r, b}, extra...)...)
	na, nr, nb := net.node("a"), net.node("r"), net.node("b")
	na.injectLighthouseAddr(nr.vpnIP, nr.udp)
	na.injectRelays(nb.vpnIP, []netip.Addr{nr.vpnIP})
	nr.injectLighthouseAddr(nb.vpnIP, nb.udp)
	nr.injectLighthouseAddr(na.vpnIP, na.udp)
	nb.injectLighthouseAddr(nr.vpnIP, nr.udp)
	nb.injectRelays(na.vpnIP, []netip.Addr{nr.vpnIP})
	return net
}

// establish sends one tun packet from->to and runs the network loss-free (with handshake timer ticks) until it is
// delivered. Returns false if it never arrives.
func (v *vnet) establish(from, to *vnode, marker string) bool {
	before := len(v.tunLog[to.spec.Name])
	from.tunSend(vUDPPacket(from.vpnIP, to.vpnIP, 1000, 2000, []byte(marker)))
	v.collect()
	for round := 0; round < 40; round++ {
		v.flushFIFO(200)
		if len(v.tunLog[to.spec.Name]) > before {
			return true
		}
		vtime.Advance(100 * vtime.Millisecond)
		for _, n := range v.nodes {
			n.hsTick()
		}
		v.collect()
	}
	return len(v.tunLog[to.spec.Name]) > before
}
