//go:build verif

package nebula

import (
	"context"
	"encoding/binary"
	"fmt"
	"log/slog"
	"math/big"
	"net/netip"
	"strings"
	"testing"

	"github.com/gaissmai/bart"
	"github.com/slackhq/nebula/config"
	"github.com/slackhq/nebula/zzverif/mc"
)

// C48 — calculated remotes splice mask and overlay bits exactly.
//
// Bounded-exhaustive enumeration (E3):
//   part A  newCalculatedRemote + ApplyV4/ApplyV6 for every mask prefix length (0..32 / 0..128) x mask address patterns
//           x overlay address patterns x ports, against a big.Int splice: result = (mask & M) | (overlay & ~M), M = the top
//           `len` bits; port kept; constructor refuses a mask of the other family and a port outside 0..65535.
//   part B  the configuration path: lighthouse.calculated_remotes maps through the real NewLightHouseFromConfig, then the
//           real addCalculatedRemotes for overlay addresses inside / outside each configured range of either family; the
//           addresses stored for the peer are read back from the remote list and compared with the reference.

var c48Log = slog.New(slog.DiscardHandler)

// c48Splice: big.Int reference. width 32 or 128.
func c48Splice(mask, overlay netip.Addr, bits, width int) *big.Int {
	m := new(big.Int).SetBytes(mask.AsSlice())
	o := new(big.Int).SetBytes(overlay.AsSlice())
	ones := new(big.Int).Sub(new(big.Int).Lsh(big.NewInt(1), uint(bits)), big.NewInt(1)) // `bits` ones
	M := new(big.Int).Lsh(ones, uint(width-bits))                                         // at the top
	all := new(big.Int).Sub(new(big.Int).Lsh(big.NewInt(1), uint(width)), big.NewInt(1))
	notM := new(big.Int).Xor(all, M)
	return new(big.Int).Or(new(big.Int).And(m, M), new(big.Int).And(o, notM))
}

func c48BigToAddr(x *big.Int, width int) netip.Addr {
	b := make([]byte, width/8)
	x.FillBytes(b)
	a, _ := netip.AddrFromSlice(b)
	return a
}

func c48V6Addr(ap *V6AddrPort) netip.Addr {
	var b [16]byte
	binary.BigEndian.PutUint64(b[:8], ap.Hi)
	binary.BigEndian.PutUint64(b[8:], ap.Lo)
	return netip.AddrFrom16(b)
}

func c48V4Addr(ap *V4AddrPort) netip.Addr {
	var b [4]byte
	binary.BigEndian.PutUint32(b[:], ap.Addr)
	return netip.AddrFrom4(b)
}

func c48Class(bits, width int) string {
	switch {
	case bits == 0:
		return "/0"
	case bits == width:
		return fmt.Sprintf("/%d (full)", width)
	case width == 128 && bits == 64:
		return "/64 (word boundary)"
	case width == 128 && bits < 64:
		return "within the high word"
	case width == 128:
		return "within the low word"
	case bits%8 == 0:
		return "byte boundary"
	}
	return "inside a byte"
}

func TestVerifC48(t *testing.T) {
	c := mc.Begin(t, "C48", "exploration")
	defer c.End()
	A := netip.MustParseAddr
	var evals int64
	distinct := map[string]struct{}{}
	type fail struct {
		size   int
		detail map[string]any
		count  int64
	}
	fails := map[string]*fail{}
	report := func(sig string, size int, d map[string]any) {
		f := fails[sig]
		if f == nil {
			f = &fail{size: 1 << 30}
			fails[sig] = f
		}
		f.count++
		if size < f.size {
			f.size, f.detail = size, d
		}
	}

	// ---------------------------------------------------------------- part A
	mask4 := []netip.Addr{A("0.0.0.0"), A("255.255.255.255"), A("192.168.170.85"), A("10.20.30.40")}
	over4 := []netip.Addr{A("0.0.0.0"), A("255.255.255.255"), A("10.1.2.3"), A("172.16.85.170"), A("1.2.3.4"), A("128.0.0.1")}
	mask6 := []netip.Addr{A("::"), A("ffff:ffff:ffff:ffff:ffff:ffff:ffff:ffff"), A("aaaa:5555:aaaa:5555:aaaa:5555:aaaa:5555"), A("2001:db8:1:2:3:4:5:6")}
	over6 := []netip.Addr{A("::"), A("ffff:ffff:ffff:ffff:ffff:ffff:ffff:ffff"), A("5555:aaaa:5555:aaaa:5555:aaaa:5555:aaaa"), A("fd00::1"), A("beef:beef:beef:beef:beef:beef:beef:beef"), A("8000::1")}
	// walking one-bit masks and one-zero overlays: IPv4 in both tiers, IPv6 in the thorough tier
	for i := 0; i < 32; i++ {
		var b [4]byte
		b[i/8] = 0x80 >> uint(i%8)
		mask4 = append(mask4, netip.AddrFrom4(b))
		over4 = append(over4, netip.AddrFrom4([4]byte{^b[0], ^b[1], ^b[2], ^b[3]}))
	}
	if c.Thorough() {
		for i := 0; i < 128; i++ {
			var b, nb [16]byte
			b[i/8] = 0x80 >> uint(i%8)
			for j := range nb {
				nb[j] = ^b[j]
			}
			mask6 = append(mask6, netip.AddrFrom16(b))
			over6 = append(over6, netip.AddrFrom16(nb))
		}
	}
	ports := []int{0, 1, 4242, 65535}
	badPorts := []int{-1, 65536, 1 << 31}
	c.Set("v4_mask_patterns", len(mask4))
	c.Set("v4_overlay_patterns", len(over4))
	c.Set("v6_mask_patterns", len(mask6))
	c.Set("v6_overlay_patterns", len(over6))

	classSeen := map[string]int{}
	run := func(width int, masks, overs []netip.Addr) {
		fam := "IPv4"
		cidr := netip.MustParsePrefix("10.128.0.0/16")
		if width == 128 {
			fam = "IPv6"
			cidr = netip.MustParsePrefix("fd80::/64")
		}
		for bits := 0; bits <= width; bits++ {
			if c.OutOfTime() {
				c.Capped(fmt.Sprintf("soft time budget reached at %s prefix length %d", fam, bits))
				return
			}
			for _, ma := range masks {
				maskCidr := netip.PrefixFrom(ma, bits)
				for _, port := range ports {
					cr, err := newCalculatedRemote(cidr, maskCidr, port)
					evals++
					if err != nil || cr == nil {
						report(fmt.Sprintf("newCalculatedRemote: refuses a same-family %s mask with a valid port", fam), bits, map[string]any{"cidr": cidr.String(), "mask": maskCidr.String(), "port": port, "error": fmt.Sprint(err)})
						continue
					}
					for _, ov := range overs {
						want := c48BigToAddr(c48Splice(ma, ov, bits, width), width)
						var got netip.Addr
						var gotPort uint32
						if width == 32 {
							r := cr.ApplyV4(ov)
							if r == nil {
								report("ApplyV4: returns nil for an IPv4 overlay address", bits, map[string]any{"mask": maskCidr.String(), "overlay": ov.String()})
								continue
							}
							got, gotPort = c48V4Addr(r), r.Port
						} else {
							r := cr.ApplyV6(ov)
							if r == nil {
								report("ApplyV6: returns nil for an IPv6 overlay address", bits, map[string]any{"mask": maskCidr.String(), "overlay": ov.String()})
								continue
							}
							got, gotPort = c48V6Addr(r), r.Port
						}
						evals++
						cl := c48Class(bits, width)
						classSeen[fam+" "+cl]++
						if bits > 0 && bits < width && got != ov && got != ma {
							distinct[fmt.Sprintf("%d|%v|%v|%v", width, bits, ma, ov)] = struct{}{}
						}
						if got != want {
							report(fmt.Sprintf("Apply%s: result is not (mask bits above the prefix length | overlay bits below it), prefix length %s", map[int]string{32: "V4", 128: "V6"}[width], cl),
								bits*1000+len(ma.String())+len(ov.String()),
								map[string]any{"mask": maskCidr.String(), "overlay": ov.String(), "impl": got.String(), "reference": want.String()})
						}
						if gotPort != uint32(port) {
							report(fmt.Sprintf("Apply%s: configured port not kept", map[int]string{32: "V4", 128: "V6"}[width]), bits, map[string]any{"mask": maskCidr.String(), "port": port, "impl": gotPort})
						}
					}
				}
				for _, port := range badPorts {
					cr, err := newCalculatedRemote(cidr, maskCidr, port)
					evals++
					if err == nil || cr != nil {
						report("newCalculatedRemote: accepts a port outside 0..65535", bits, map[string]any{"mask": maskCidr.String(), "port": port})
					}
				}
			}
		}
	}
	run(32, mask4, over4)
	run(128, mask6, over6)
	// other-family masks are refused, whatever the lengths
	crossRefused := 0
	for _, b4 := range []int{0, 8, 24, 32} {
		for _, b6 := range []int{0, 32, 64, 128} {
			p4, p6 := netip.PrefixFrom(A("192.168.0.0"), b4), netip.PrefixFrom(A("2001:db8::"), b6)
			for _, pair := range [][2]netip.Prefix{{p4, p6}, {p6, p4}} {
				cr, err := newCalculatedRemote(pair[0], pair[1], 4242)
				evals++
				if err == nil || cr != nil {
					report("newCalculatedRemote: accepts a mask of the other address family", 0, map[string]any{"cidr": pair[0].String(), "mask": pair[1].String()})
				} else {
					crossRefused++
				}
			}
		}
	}
	for _, k := range []string{"IPv4 /0", "IPv4 /32 (full)", "IPv4 byte boundary", "IPv4 inside a byte", "IPv6 /0", "IPv6 /128 (full)", "IPv6 /64 (word boundary)", "IPv6 within the high word", "IPv6 within the low word"} {
		c.Require(classSeen[k] > 0, "no splice evaluated for prefix-length class %q", k)
	}
	c.Require(crossRefused > 0 || len(fails) > 0, "cross-family masks never refused")
	c.Sample(map[string]any{"mask": "192.168.170.85/20", "overlay": "10.1.2.3", "port": 4242, "reference": c48BigToAddr(c48Splice(A("192.168.170.85"), A("10.1.2.3"), 20, 32), 32).String()})
	c.Sample(map[string]any{"mask": "aaaa:5555:aaaa:5555:aaaa:5555:aaaa:5555/71", "overlay": "beef:beef:beef:beef:beef:beef:beef:beef", "reference": c48BigToAddr(c48Splice(A("aaaa:5555:aaaa:5555:aaaa:5555:aaaa:5555"), A("beef:beef:beef:beef:beef:beef:beef:beef"), 71, 128), 128).String()})

	// ---------------------------------------------------------------- part B: configuration + lighthouse
	myNet := netip.MustParsePrefix("10.128.0.1/16")
	myNet6 := netip.MustParsePrefix("fd80::1/64")
	nt := new(bart.Lite)
	nt.Insert(myNet)
	nt.Insert(myNet6)
	cs := &CertState{myVpnNetworks: []netip.Prefix{myNet, myNet6}, myVpnNetworksTable: nt}
	ctx, cancel := context.WithCancel(context.Background())
	cancel() // the query worker goroutine exits at once

	type entry struct {
		mask string
		port any
	}
	type rng struct {
		cidr    string
		entries []entry
	}
	e4a, e4b := entry{"192.168.0.0/16", 4242}, entry{"172.20.9.0/24", "4243"}
	e6a, e6b := entry{"2001:db8:1:2::/64", 4242}, entry{"2001:db8:ffff::/48", 1}
	ranges := []rng{
		{"10.128.1.0/24", []entry{e4a}},
		{"10.128.2.0/24", []entry{e4a, e4b}},
		{"10.128.2.128/25", []entry{e4b}}, // nested in the previous
		{"fd80:0:0:0:1::/80", []entry{e6a}},
		{"fd80:0:0:0:2::/80", []entry{e6b, e6a}},
		{"10.128.3.0/24", []entry{e6a}},       // IPv6 mask for an IPv4 range: must be refused
		{"fd80:0:0:0:3::/80", []entry{e4a}},   // IPv4 mask for an IPv6 range: must be refused
		{"10.128.4.0/24", []entry{{"192.168.0.0/16", 70000}}}, // bad port
	}
	mustRefuse := map[string]bool{"10.128.3.0/24": true, "fd80:0:0:0:3::/80": true, "10.128.4.0/24": true}
	vpns := []netip.Addr{A("10.128.1.7"), A("10.128.2.7"), A("10.128.2.200"), A("10.128.5.5"), A("10.129.1.7"), A("fd80::1:0:0:7"), A("fd80::2:0:0:7"), A("fd80::9:0:0:7"), A("fd81::1:0:0:7")}

	var produced, notProduced, cfgRefused, cfgLoaded int64
	// all subsets of 1..3 ranges
	nR := len(ranges)
	for set := 1; set < 1<<nR; set++ {
		var chosen []rng
		for i := 0; i < nR; i++ {
			if set&(1<<i) != 0 {
				chosen = append(chosen, ranges[i])
			}
		}
		if len(chosen) > mc.Pick(c, 3, 4) {
			continue
		}
		cfg := config.NewC(c48Log)
		crm := map[string]any{}
		wantErr := false
		var descParts []string
		for _, r := range chosen {
			var l []any
			for _, e := range r.entries {
				l = append(l, map[string]any{"mask": e.mask, "port": e.port})
			}
			crm[r.cidr] = l
			wantErr = wantErr || mustRefuse[r.cidr]
			descParts = append(descParts, fmt.Sprintf("%s: %v", r.cidr, r.entries))
		}
		desc := strings.Join(descParts, "; ")
		cfg.Settings["lighthouse"] = map[string]any{"calculated_remotes": crm}
		lh, err := NewLightHouseFromConfig(ctx, c48Log, cfg, cs, nil, nil)
		evals++
		if (err != nil) != wantErr {
			sig := "lighthouse.calculated_remotes: a mask of the other family or a port outside 0..65535 is accepted"
			if err != nil {
				sig = "lighthouse.calculated_remotes: a well-formed same-family configuration is refused"
			}
			report(sig, len(chosen), map[string]any{"config": desc, "error": fmt.Sprint(err)})
			continue
		}
		if err != nil {
			cfgRefused++
			continue
		}
		cfgLoaded++
		for _, vpn := range vpns {
			// reference: the most specific configured range containing vpn (same family), entries in configured order
			var best *rng
			bestBits := -1
			for i := range chosen {
				p := netip.MustParsePrefix(chosen[i].cidr)
				if p.Addr().Is4() == vpn.Is4() && c48Contains(p, vpn) && p.Bits() > bestBits {
					best, bestBits = &chosen[i], p.Bits()
				}
			}
			// with nested ranges the statement does not say whether only the most specific applies: accept the union as well
			var wantMost, wantUnion []netip.AddrPort
			for i := range chosen {
				p := netip.MustParsePrefix(chosen[i].cidr)
				if p.Addr().Is4() != vpn.Is4() || !c48Contains(p, vpn) {
					continue
				}
				for _, e := range chosen[i].entries {
					mp := netip.MustParsePrefix(e.mask)
					w := 32
					if !vpn.Is4() {
						w = 128
					}
					port := 0
					fmt.Sscan(fmt.Sprint(e.port), &port)
					ap := netip.AddrPortFrom(c48BigToAddr(c48Splice(mp.Addr(), vpn, mp.Bits(), w), w), uint16(port))
					wantUnion = append(wantUnion, ap)
					if &chosen[i] == best {
						wantMost = append(wantMost, ap)
					}
				}
			}
			got := lh.addCalculatedRemotes(vpn)
			evals++
			var stored []netip.AddrPort
			if rl := lh.addrMap[vpn]; rl != nil {
				if ch := rl.cache[myNet.Addr()]; ch != nil {
					if ch.v4 != nil {
						for _, r := range ch.v4.reported {
							stored = append(stored, netip.AddrPortFrom(c48V4Addr(r), uint16(r.Port)))
						}
					}
					if ch.v6 != nil {
						for _, r := range ch.v6.reported {
							stored = append(stored, netip.AddrPortFrom(c48V6Addr(r), uint16(r.Port)))
						}
					}
				}
			}
			d := map[string]any{"config": desc, "overlay_addr": vpn.String(), "returned": got, "stored": fmt.Sprint(stored), "reference": fmt.Sprint(wantMost)}
			if best == nil {
				notProduced++
				if got || len(stored) > 0 {
					report("addCalculatedRemotes: produces a remote for an overlay address outside every configured range of its family", len(chosen), d)
				}
				continue
			}
			produced++
			distinct["lh|"+desc+"|"+vpn.String()] = struct{}{}
			if !got || !(c48SameSet(stored, wantMost) || c48SameSet(stored, wantUnion)) {
				report("addCalculatedRemotes: stored remotes differ from the splice of each configured mask with the overlay address", len(chosen)*100+len(vpn.String()), d)
			}
			for _, s := range stored {
				if s.Addr().Is4() != vpn.Is4() {
					report("addCalculatedRemotes: produces a remote of the other address family", len(chosen), d)
				}
			}
		}
	}
	// ---------------------------------------------------------------- part C: reloads of lighthouse.calculated_remotes
	// "Inside the configured range" means the range configured NOW: every sequence of 2 or 3 well-formed configurations
	// (section absent, one range, the same range with another mask, another range, an IPv6 range, both families) is loaded
	// and then hot-reloaded through config.C.ReloadConfigString; after the last reload addCalculatedRemotes is asked about
	// overlay addresses that were never asked before and must follow the last configuration only.
	relCfgs := [][]rng{
		nil,
		{{"10.128.1.0/24", []entry{e4a}}},
		{{"10.128.1.0/24", []entry{e4b}}},
		{{"10.128.2.0/24", []entry{e4a}}},
		{{"fd80:0:0:0:1::/80", []entry{e6a}}},
		{{"10.128.1.0/24", []entry{e4a}}, {"fd80:0:0:0:1::/80", []entry{e6b}}},
	}
	relYAML := func(chosen []rng) string {
		var sb strings.Builder
		sb.WriteString("lighthouse:\n  interval: 60\n")
		if chosen != nil {
			sb.WriteString("  calculated_remotes:\n")
			for _, r := range chosen {
				fmt.Fprintf(&sb, "    %q:\n", r.cidr)
				for _, e := range r.entries {
					fmt.Fprintf(&sb, "      - mask: %q\n        port: %v\n", e.mask, e.port)
				}
			}
		}
		return sb.String()
	}
	relVpns := []netip.Addr{A("10.128.1.9"), A("10.128.2.9"), A("10.128.7.9"), A("fd80::1:0:0:9"), A("fd80::2:0:0:9")}
	var relSeqs, relProduced, relNotProduced int64
	var relRun func(seq []int)
	relRun = func(seq []int) {
		if len(seq) >= 2 {
			relSeqs++
			cfg := config.NewC(c48Log)
			var names []string
			for _, i := range seq {
				names = append(names, strings.ReplaceAll(strings.TrimSpace(relYAML(relCfgs[i])), "\n", " "))
			}
			d0 := map[string]any{"configurations_in_order": names}
			if err := cfg.LoadString(relYAML(relCfgs[seq[0]])); err != nil {
				c.Broken("part C: initial configuration does not load: %v", err)
			}
			lh, err := NewLightHouseFromConfig(ctx, c48Log, cfg, cs, nil, nil)
			if err != nil {
				report("lighthouse.calculated_remotes: a well-formed same-family configuration is refused", 1, d0)
				return
			}
			lh.ifce = &mockEncWriter{}
			for _, i := range seq[1:] {
				if err := cfg.ReloadConfigString(relYAML(relCfgs[i])); err != nil {
					c.Broken("part C: reload text does not parse: %v", err)
				}
			}
			evals++
			last := relCfgs[seq[len(seq)-1]]
			for _, vpn := range relVpns {
				var want []netip.AddrPort
				for _, r := range last {
					p := netip.MustParsePrefix(r.cidr)
					if p.Addr().Is4() != vpn.Is4() || !c48Contains(p, vpn) {
						continue
					}
					for _, e := range r.entries {
						mp := netip.MustParsePrefix(e.mask)
						w := 32
						if !vpn.Is4() {
							w = 128
						}
						port := 0
						fmt.Sscan(fmt.Sprint(e.port), &port)
						want = append(want, netip.AddrPortFrom(c48BigToAddr(c48Splice(mp.Addr(), vpn, mp.Bits(), w), w), uint16(port)))
					}
				}
				got := lh.addCalculatedRemotes(vpn)
				evals++
				var stored []netip.AddrPort
				if rl := lh.addrMap[vpn]; rl != nil {
					if ch := rl.cache[myNet.Addr()]; ch != nil {
						if ch.v4 != nil {
							for _, r := range ch.v4.reported {
								stored = append(stored, netip.AddrPortFrom(c48V4Addr(r), uint16(r.Port)))
							}
						}
						if ch.v6 != nil {
							for _, r := range ch.v6.reported {
								stored = append(stored, netip.AddrPortFrom(c48V6Addr(r), uint16(r.Port)))
							}
						}
					}
				}
				d := map[string]any{"configurations_in_order": names, "overlay_addr": vpn.String(), "returned": got, "stored": fmt.Sprint(stored), "reference_for_the_last_configuration": fmt.Sprint(want)}
				if len(want) == 0 {
					relNotProduced++
					if got || len(stored) > 0 {
						report("addCalculatedRemotes after a reload: produces a remote for an overlay address outside every range of the CURRENT configuration", len(seq), d)
					}
					continue
				}
				relProduced++
				distinct["lhreload|"+strings.Join(names, "|")+"|"+vpn.String()] = struct{}{}
				if !got || !c48SameSet(stored, want) {
					report("addCalculatedRemotes after a reload: stored remotes are not the splice of the CURRENT configuration's masks with the overlay address", len(seq), d)
				}
			}
		}
		if len(seq) == 3 {
			return
		}
		for i := range relCfgs {
			relRun(append(append([]int{}, seq...), i))
		}
	}
	relRun(nil)
	c.Require(relProduced > 0 && relNotProduced > 0, "reload part: produced / not produced: %d / %d", relProduced, relNotProduced)
	c.Set("reload_sequences_of_2_or_3_configurations", relSeqs)
	c.Set("reload_lookups_producing", relProduced)
	c.Set("reload_lookups_not_producing", relNotProduced)
	c.Require(produced > 0 && notProduced > 0, "lighthouse part: produced / not produced: %d / %d", produced, notProduced)
	c.Require(cfgRefused > 0 && cfgLoaded > 0, "lighthouse part: configurations refused / loaded: %d / %d", cfgRefused, cfgLoaded)
	c.Set("lighthouse_configurations_loaded", cfgLoaded)
	c.Set("lighthouse_configurations_refused", cfgRefused)
	c.Set("lighthouse_lookups_producing", produced)
	c.Set("lighthouse_lookups_not_producing", notProduced)
	c.Sample(map[string]any{"calculated_remotes": "10.128.2.0/24: [{192.168.0.0/16 4242} {172.20.9.0/24 4243}]", "overlay": "10.128.2.7", "reference": "[192.168.2.7:4242 172.20.9.7:4243]"})

	var failing int64
	for sig, f := range fails {
		f.detail["cases_failing_with_this_signature"] = f.count
		failing += f.count
		c.Violation(sig, f.detail)
	}
	c.Set("failing_cases", failing)
	c.Set("evaluations", evals)
	c.Set("distinct_nontrivial", int64(len(distinct)))
	c.Set("rule", "evaluations = constructor calls + ApplyV4/ApplyV6 calls + lighthouse loads + addCalculatedRemotes calls; distinct_nontrivial = number of DISTINCT (prefix length, mask, overlay) triples with 0 < length < width whose result differs from both operands (a real splice), plus distinct (configuration, overlay address) pairs for which the lighthouse produced remotes — counted in a set")
	c.Require(len(distinct) >= 2, "fewer than two non-trivial splices")
	c.Assume("with nested configured ranges either the most specific range's entries or the entries of all containing ranges are accepted")
	c.Assume("calculated remotes that fall inside the node's own overlay networks or are denied by remote_allow_list are filtered by the lighthouse; the box uses masks outside the overlay networks and no allow list")
	c.Assume("mask and overlay operands are bit patterns (all-zero, all-one, alternating, mixed, every walking one-bit mask and one-zero overlay for IPv4; thorough adds the walking patterns for IPv6) rather than all 2^32/2^128 values: the splice is bitwise, so every bit position is exercised on both sides of every prefix length")
}

func c48Contains(p netip.Prefix, a netip.Addr) bool {
	pb, ab := p.Addr().AsSlice(), a.AsSlice()
	if len(pb) != len(ab) {
		return false
	}
	for i := 0; i < p.Bits(); i++ {
		if (pb[i/8]>>(7-uint(i%8)))&1 != (ab[i/8]>>(7-uint(i%8)))&1 {
			return false
		}
	}
	return true
}

func c48SameSet(a, b []netip.AddrPort) bool {
	if len(a) != len(b) {
		return false
	}
	m := map[netip.AddrPort]int{}
	for _, x := range a {
		m[x]++
	}
	for _, x := range b {
		m[x]--
	}
	for _, v := range m {
		if v != 0 {
			return false
		}
	}
	return true
}
