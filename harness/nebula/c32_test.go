//go:build verif

package nebula

import (
	"bytes"
	"encoding/json"
	"fmt"
	"net/netip"
	"os"
	"os/exec"
	"path/filepath"
	"runtime"
	"sort"
	"strings"
	"sync"
	"testing"

	"github.com/slackhq/nebula/header"
	"github.com/slackhq/nebula/zzverif/mc"
	"github.com/slackhq/nebula/zzverif/vtime"
	"go.yaml.in/yaml/v3"
)

// C32 — pending handshakes retry, give up, and release queued packets correctly.
//
// One driven REAL node ("me") and one REAL peer, goroutine-free (engine E4), virtual clock. Every event is executed on
// the real handshake manager AND on a small reference counter model transcribed from the statement; after every event
// the observable behaviour of the node (handshake datagrams written, presence of the pending entry and of its index,
// number of stored packets, data datagrams written, what the peer's tun received after decrypting with the real peer)
// is compared with the model.
//
// Phase 1: explicit-state BFS (by replay) over event histories for each (retries, try_interval, discovery) config.
// Phase 2: bounded-exhaustive product of scripted histories: retries x outbound rule set x number of queued packets x
//          packets queued later x lighthouse trigger flavour x tick step x completion at attempt j / never.
//
// Events:  q:n (n application packets on the tun, each with its own marker; the first one starts the handshake),
//          start (StartHandshake without a packet), t:h (virtual time += h half-intervals, then the handshake timer
//          tick), lh0 / lh1 (lighthouse trigger without / with a new underlay address), s1:i (deliver recorded first
//          message i to the peer: loss, delay and duplication are the explorer's choice), s2:i (deliver recorded reply i).

const (
	c32MaxStored = 100 // from the statement, not from the code
	c32SigStale  = "C32: a retry timer left in the wheel by an earlier handshake to the same address drives the next pending handshake (attempt or give-up ahead of its own linear delay)"
)

var (
	c32PeerVpn = netip.MustParseAddr("10.0.0.2")
	c32MeVpn   = netip.MustParseAddr("10.0.0.1")
)

type c32Cfg struct {
	R    int            // handshakes.retries
	I    vtime.Duration // handshakes.try_interval
	Disc string         // "static" (static_host_map) | "lh" (address learned from a lighthouse, no static entry)
	FW   string         // outbound rule set: "all" | "p80" | "none"
	N0   int            // packets queued by the first event (0: StartHandshake without a packet)
}

func (c c32Cfg) String() string {
	return fmt.Sprintf("retries=%d interval=%v disc=%s fw=%s n0=%d", c.R, c.I, c.Disc, c.FW, c.N0)
}

type c32Ev struct {
	K string
	N int
}

func (e c32Ev) String() string {
	switch e.K {
	case "lh0", "lh1", "start":
		return e.K
	}
	return fmt.Sprintf("%s:%d", e.K, e.N)
}

// ---- observation of the real node after one event -----------------------------------------------------------------

type c32Obs struct {
	tx          map[netip.AddrPort]int // first-message datagrams written by me during the event, per destination
	txDiffers   bool                   // a first message differed from the first one of this handshake
	dataTx      int                    // data datagrams written by me during the event
	pending     bool                   // pending entry for the peer address exists
	pendIdx     int                    // number of pending indexes
	stored      int                    // packets held by the pending entry
	mainTunnel  bool                   // a completed tunnel for the peer address exists
	peerTunSeen int                    // total packets the peer's tun has received so far
}

func (o c32Obs) txTotal() int {
	n := 0
	for _, k := range o.tx {
		n += k
	}
	return n
}

// ---- reference model ----------------------------------------------------------------------------------------------

type c32Model struct {
	cfg     c32Cfg
	now     vtime.Duration // since epoch
	pending bool
	gen     int // handshake generation (a new one after each abandon)
	counter int // attempts made by this handshake
	timer   bool
	lo, hi  vtime.Duration // the retry timer expires at the first tick T with T >= x for some x in (lo, hi]
	stored  []int          // markers held for the pending handshake (at most 100)
	queued  int            // packets offered while this handshake was pending
	remotes []netip.AddrPort
	lastTx  string // remotes at the last attempt
	done    bool
	expect  []int // markers the peer's tun must have received, in order
	// retry timers that earlier handshakes to the same address left in the wheel (a handshake dropped by a lighthouse
	// trigger after its last attempt does not take its timer with it). The statement knows one handshake and one
	// delay sequence; if such a leftover drives the NEXT handshake the early attempt / give-up is reported under its
	// own signature.
	stale   []vtime.Duration // latest expiry of each leftover timer
	tainted bool             // this handshake started after an earlier one left a timer in the wheel
	// statistics (vacuity guards)
	stats *c32Stats
}

type c32Stats struct {
	Abandons          map[int]int64 // by retries
	CompleteAtAttempt map[string]int64
	AmbFired, AmbHeld int64
	TrigTx, TrigQuiet int64
	Lh0Quiet          int64
	Dropped100        int64 // completions where more than 100 packets had been offered
	FwFiltered        int64 // completions where the rule set removed some but not all packets
	FwAll, FwNone     int64
	LateReply         int64
	MaxStored         int
	MinTxBeforeGiveUp map[int]int // by retries: fewest transmissions seen before a handshake was abandoned
	TxThisGen         int
	Exactly100        int64
	TaintedStarts     int64
}

func c32NewStats() *c32Stats {
	return &c32Stats{Abandons: map[int]int64{}, CompleteAtAttempt: map[string]int64{}, MinTxBeforeGiveUp: map[int]int{}}
}

func c32Allowed(fw string, marker int) bool {
	switch fw {
	case "all":
		return true
	case "p80":
		return c32Port(marker) == 80
	}
	return false
}

// c32Port: destination port of packet #marker. Two of three go to port 81, so an "allow port 80" rule set keeps a
// proper, non-contiguous subsequence.
func c32Port(marker int) uint16 {
	if marker%3 == 0 {
		return 80
	}
	return 81
}

func c32RemKey(r []netip.AddrPort) string {
	s := make([]string, len(r))
	for i, a := range r {
		s[i] = a.String()
	}
	sort.Strings(s)
	return strings.Join(s, ",")
}

type c32Problem struct {
	sig    string
	detail string
}

// step advances the model by one event and judges the observation. replyGen is the handshake generation a delivered
// reply answers (s2 events), -1 otherwise.
func (m *c32Model) step(e c32Ev, o c32Obs, replyGen int, firstMarker int) []c32Problem {
	var probs []c32Problem
	bad := func(sig, format string, a ...any) {
		if e.K == "t" && m.tainted {
			sig = c32SigStale // any timing disagreement of a handshake that inherited a leftover timer
		}
		probs = append(probs, c32Problem{sig, fmt.Sprintf(format, a...)})
	}
	I := m.cfg.I
	expectNoTx := func(why string) {
		if o.txTotal() != 0 {
			bad("C32: a handshake message was sent although no attempt was due ("+why+")", "tx=%v", o.tx)
		}
	}
	expectTxAll := func(why string) {
		if len(m.remotes) == 0 {
			return
		}
		ok := len(o.tx) == len(m.remotes)
		for _, r := range m.remotes {
			if o.tx[r] != 1 {
				ok = false
			}
		}
		if !ok {
			if o.txTotal() == 0 {
				bad("C32: a due handshake attempt was not transmitted ("+why+")", "expected one datagram to each of %v, got %v", m.remotes, o.tx)
			} else {
				bad("C32: a handshake attempt was not transmitted exactly once to every known remote ("+why+")", "expected one datagram to each of %v, got %v", m.remotes, o.tx)
			}
		}
		m.stats.TxThisGen++
		m.lastTx = c32RemKey(m.remotes)
	}
	early := bad
	abandon := func() {
		if m.timer {
			m.stale = append(m.stale, m.hi)
		}
		m.stats.Abandons[m.cfg.R]++
		if v, ok := m.stats.MinTxBeforeGiveUp[m.cfg.R]; !ok || m.stats.TxThisGen < v {
			m.stats.MinTxBeforeGiveUp[m.cfg.R] = m.stats.TxThisGen
		}
		m.pending, m.timer, m.stored, m.queued = false, false, nil, 0
	}
	// an attempt made by a lighthouse trigger (also the immediate first attempt for a static host)
	trigger := func(newRemotes bool, label string) {
		if m.counter >= m.cfg.R {
			// all attempts made; the statement allows the handshake to be dropped from now on. Follow the node.
			expectNoTx(label + " after the last attempt")
			if !o.pending {
				abandon()
			}
			return
		}
		m.counter++ // ◊ a lighthouse-triggered attempt counts as an attempt whether or not it transmits
		if newRemotes {
			// ◊ the statement is silent on early attempts towards new remotes: transmitting now (to every remote) or not are both accepted
			if o.txTotal() > 0 {
				expectTxAll(label)
				m.stats.TrigTx++
			} else {
				m.stats.TrigQuiet++
			}
		} else {
			if o.txTotal() > 0 {
				bad("C32: a lighthouse trigger without new remotes retransmitted ahead of the linear delay", "tx=%v counter=%d", o.tx, m.counter)
			}
			m.stats.Lh0Quiet++
		}
	}
	send := func(n int, first int) {
		for i := 0; i < n; i++ {
			mk := first + i
			switch {
			case m.done:
				if c32Allowed(m.cfg.FW, mk) {
					m.expect = append(m.expect, mk)
				}
			case m.pending:
				m.queued++
				if len(m.stored) < c32MaxStored {
					m.stored = append(m.stored, mk)
				}
			default:
				// starts a new handshake
				m.pending, m.counter, m.timer = true, 0, true
				m.gen++
				// Sticky: once a leftover timer existed, a later handshake may inherit it directly or through a chain
				// (the leftover fires inside the slack window of handshake n, is taken for n's own timer, and n's real
				// timer is then the leftover for handshake n+1).
				m.tainted = len(m.stale) > 0
				if m.tainted {
					m.stats.TaintedStarts++
				}
				m.stats.TxThisGen = 0
				m.lastTx = ""
				m.lo, m.hi = m.now+I, m.now+2*I
				if mk >= 0 {
					m.queued = 1
					m.stored = []int{mk}
				}
			}
		}
	}

	switch e.K {
	case "q", "start":
		wasIdle := !m.pending && !m.done
		if e.K == "start" {
			if wasIdle {
				send(1, -1)
			}
		} else {
			send(e.N, firstMarker)
		}
		if wasIdle && m.cfg.Disc == "static" {
			trigger(true, "first attempt for a static host")
		} else {
			expectNoTx("application packet")
		}
	case "lh0":
		if m.pending {
			trigger(c32RemKey(m.remotes) != m.lastTx, "lighthouse trigger")
		} else {
			expectNoTx("lighthouse trigger without a pending handshake")
		}
	case "lh1":
		// the world added one new underlay address
		if m.pending {
			trigger(true, "lighthouse trigger with a new remote")
		} else {
			expectNoTx("lighthouse trigger without a pending handshake")
		}
	case "t":
		m.now += I * vtime.Duration(e.N) / 2
		if !m.pending || !m.timer {
			expectNoTx("timer tick without a pending handshake")
			break
		}
		fire := false
		switch {
		case m.now <= m.lo:
		case m.now >= m.hi:
			fire = true
		default:
			fire = o.txTotal() > 0 || !o.pending // inside the one tick of slack: follow the node
			if fire {
				m.stats.AmbFired++
			} else {
				m.stats.AmbHeld++
			}
		}
		if !fire {
			if o.txTotal() > 0 {
				early("C32: retransmission sent before the linearly growing delay had elapsed", "attempt %d at +%v, not due before +%v; tx=%v", m.counter+1, m.now, m.lo, o.tx)
			}
			if !o.pending {
				early("C32: pending handshake removed before its retry timer expired", "attempts=%d of %d at +%v, timer window (%v,%v]", m.counter, m.cfg.R, m.now, m.lo, m.hi)
			}
			break
		}
		if m.counter >= m.cfg.R {
			expectNoTx("all attempts made")
			if o.pending || o.pendIdx != 0 {
				bad("C32: pending entry or its index still present after the configured number of attempts timed out", "attempts=%d retries=%d pending=%v pendingIndexes=%d at +%v (window (%v,%v])", m.counter, m.cfg.R, o.pending, o.pendIdx, m.now, m.lo, m.hi)
			}
			m.timer = false
			abandon()
			break
		}
		if !o.pending {
			early("C32: pending handshake abandoned before the configured number of attempts", "attempts=%d retries=%d at +%v", m.counter, m.cfg.R, m.now)
			abandon()
			break
		}
		m.counter++
		expectTxAll("timer-driven attempt")
		m.lo = m.now + I*vtime.Duration(m.counter)
		m.hi = m.lo + I
	case "s1":
		expectNoTx("delivery to the peer")
	case "s2":
		expectNoTx("reply delivery")
		if m.pending && replyGen == m.gen && m.counter >= 1 {
			var allowed []int
			for _, mk := range m.stored {
				if c32Allowed(m.cfg.FW, mk) {
					allowed = append(allowed, mk)
				}
			}
			m.expect = append(m.expect, allowed...)
			if o.dataTx != len(allowed) {
				bad("C32: number of data packets sent on completion differs from the firewall-allowed stored packets", "sent=%d allowed=%d stored=%d offered=%d fw=%s", o.dataTx, len(allowed), len(m.stored), m.queued, m.cfg.FW)
			}
			if o.pending || o.pendIdx != 0 {
				bad("C32: pending entry or index left behind by a completed handshake", "pending=%v pendingIndexes=%d", o.pending, o.pendIdx)
			}
			if !o.mainTunnel {
				bad("C32: reply to the pending handshake did not complete it", "gen=%d counter=%d", m.gen, m.counter)
			}
			m.stats.CompleteAtAttempt[fmt.Sprintf("r%d@%d", m.cfg.R, m.counter)]++
			if m.queued > c32MaxStored {
				m.stats.Dropped100++
			}
			if m.queued == c32MaxStored {
				m.stats.Exactly100++
			}
			switch {
			case len(allowed) > 0 && len(allowed) < len(m.stored):
				m.stats.FwFiltered++
			case len(allowed) == len(m.stored) && len(allowed) > 0:
				m.stats.FwAll++
			case len(allowed) == 0 && len(m.stored) > 0:
				m.stats.FwNone++
			}
			m.pending, m.timer, m.done, m.stored, m.queued = false, false, true, nil, 0
		} else {
			if !m.pending && !m.done {
				m.stats.LateReply++
			}
			if o.dataTx != 0 {
				bad("C32: a reply that does not answer the pending handshake released packets", "dataTx=%d pending=%v done=%v replyGen=%d gen=%d", o.dataTx, m.pending, m.done, replyGen, m.gen)
			}
		}
	}

	// state comparison after every event
	if m.pending != o.pending && len(probs) == 0 {
		bad("C32: presence of the pending handshake differs from the reference model", "model pending=%v node pending=%v after %v (attempts=%d retries=%d)", m.pending, o.pending, e, m.counter, m.cfg.R)
	}
	if !m.pending && o.pendIdx != 0 && len(probs) == 0 {
		bad("C32: a pending index exists without a pending handshake", "pendingIndexes=%d after %v", o.pendIdx, e)
	}
	if m.pending {
		if o.stored > c32MaxStored {
			bad("C32: more than 100 packets stored for one pending handshake", "stored=%d offered=%d", o.stored, m.queued)
		} else if o.stored != len(m.stored) {
			bad("C32: number of stored packets differs from min(offered,100)", "stored=%d model=%d offered=%d", o.stored, len(m.stored), m.queued)
		}
		if o.stored > m.stats.MaxStored {
			m.stats.MaxStored = o.stored
		}
	}
	if o.txDiffers {
		bad("C32: a retransmission is not byte-identical to the first message of the handshake", "event %v", e)
	}
	return probs
}

// ---- world: the real nodes -----------------------------------------------------------------------------------------

type c32Msg struct {
	pkt vpkt
	gen int
}

type c32World struct {
	tb       testing.TB
	cfg      c32Cfg
	net      *vnet
	me, peer *vnode
	model    *c32Model
	pool1    []c32Msg // distinct first messages sent to the peer's real address
	pool2    []c32Msg // distinct replies sent by the peer
	seen     map[string]bool
	firstMsg map[int][]byte // per generation: bytes of the first first-message
	pkts     [][]byte       // by marker
	curS1Gen int
	maxS1Gen int // newest handshake generation whose first message reached the peer
	nLh1     int
	nQ       int
	events   int64
	problems []c32Problem
	hist     []c32Ev
	dead     bool // a disagreement was found: model and node are out of step, nothing further is judged on this instance
}

func c32OutboundRules(fw string) []any {
	switch fw {
	case "all":
		return []any{map[string]any{"proto": "any", "port": "any", "host": "any"}}
	case "p80":
		return []any{map[string]any{"proto": "udp", "port": 80, "host": "any"}}
	}
	return []any{}
}

// c32SetOutbound replaces firewall.outbound through the node's real reload path.
func c32SetOutbound(tb testing.TB, n *vnode, rules []any) {
	b, err := yaml.Marshal(n.c.Settings)
	if err != nil {
		tb.Fatal(err)
	}
	var s map[string]any
	if err := yaml.Unmarshal(b, &s); err != nil {
		tb.Fatal(err)
	}
	fw, _ := s["firewall"].(map[string]any)
	if fw == nil {
		tb.Fatalf("c32: no firewall section in %v", s)
	}
	old := n.f.firewall
	fw["outbound"] = rules
	b2, err := yaml.Marshal(s)
	if err != nil {
		tb.Fatal(err)
	}
	if err := n.c.ReloadConfigString(string(b2)); err != nil {
		tb.Fatalf("c32: reload: %v", err)
	}
	n.settle()
	if n.f.firewall == old {
		tb.Fatalf("c32: firewall was not rebuilt by the reload")
	}
}

func c32New(tb testing.TB, seed int64, cfg c32Cfg, stats *c32Stats) *c32World {
	ov := m{"handshakes": m{"retries": cfg.R, "try_interval": cfg.I.String()}}
	if cfg.Disc == "static" {
		ov["static_host_map"] = m{c32PeerVpn.String(): []string{"192.0.2.2:4242"}}
	}
	me := vnodeSpec{Name: "me", Networks: "10.0.0.1/24", Udp: "192.0.2.1:4242", Overrides: ov}
	peer := vnodeSpec{Name: "peer", Networks: "10.0.0.2/24", Udp: "192.0.2.2:4242"}
	net := vNewNet(tb, seed, me, peer)
	w := &c32World{tb: tb, cfg: cfg, net: net, me: net.node("me"), peer: net.node("peer"), seen: map[string]bool{}, firstMsg: map[int][]byte{}, curS1Gen: -1}
	if int(w.me.hm.config.retries) != cfg.R || w.me.hm.config.tryInterval != cfg.I {
		tb.Fatalf("c32: handshake config not applied: %+v", w.me.hm.config)
	}
	if cfg.FW != "all" {
		c32SetOutbound(tb, w.me, c32OutboundRules(cfg.FW))
	}
	if cfg.Disc == "lh" {
		w.me.injectLighthouseAddr(c32PeerVpn, w.peer.udp)
	}
	w.model = &c32Model{cfg: cfg, stats: stats, remotes: []netip.AddrPort{w.peer.udp}}
	// the node has been running: its timer wheel has ticked at least once (◊ see assumptions)
	w.me.hsTick()
	return w
}

func (w *c32World) close() { w.net.close() }

func (w *c32World) observe(o *c32Obs) {
	w.me.hm.RLock()
	hh := w.me.hm.vpnIps[c32PeerVpn]
	o.pending = hh != nil
	o.pendIdx = len(w.me.hm.indexes)
	w.me.hm.RUnlock()
	if hh != nil {
		hh.Lock()
		o.stored = len(hh.packetStore)
		hh.Unlock()
	}
	w.me.f.hostMap.RLock()
	o.mainTunnel = w.me.f.hostMap.Hosts[c32PeerVpn] != nil
	w.me.f.hostMap.RUnlock()
	o.peerTunSeen = len(w.net.tunLog["peer"])
}

// pump moves datagrams: handshake messages go to the pools (their delivery is an explorer event); everything else is
// delivered at once, loss-free, in order.
func (w *c32World) pump(o *c32Obs) {
	for round := 0; round < 1000; round++ {
		w.net.collect()
		if len(w.net.inflight) == 0 {
			return
		}
		fl := w.net.inflight
		w.net.inflight = nil
		for _, p := range fl {
			var h header.H
			if err := h.Parse(p.Data); err != nil {
				continue
			}
			fromMe := p.From == w.me.udp
			switch {
			case h.Type == header.Handshake && fromMe:
				if h.MessageCounter != 1 {
					continue
				}
				o.tx[p.To]++
				gen := w.model.gen
				if w.model.pending == false && w.model.done == false {
					gen++ // the start event: the model has not stepped yet
				}
				if fm, ok := w.firstMsg[gen]; !ok {
					w.firstMsg[gen] = p.Data
				} else if !bytes.Equal(fm, p.Data) {
					o.txDiffers = true
				}
				if p.To == w.peer.udp && !w.seen[string(p.Data)] {
					w.seen[string(p.Data)] = true
					w.pool1 = append(w.pool1, c32Msg{p, gen})
				}
			case h.Type == header.Handshake:
				if p.To == w.me.udp && !w.seen[string(p.Data)] {
					w.seen[string(p.Data)] = true
					w.pool2 = append(w.pool2, c32Msg{p, w.curS1Gen})
				}
			case fromMe:
				if h.Type == header.Message {
					o.dataTx++
				}
				if p.To == w.peer.udp {
					w.peer.deliver(p.From, p.Data)
				}
			default:
				if p.To == w.me.udp {
					w.me.deliver(p.From, p.Data)
				}
			}
		}
	}
	w.tb.Fatalf("c32: network did not quiesce")
}

func (w *c32World) sendOne() int {
	mk := len(w.pkts)
	pkt := vUDPPacket(c32MeVpn, c32PeerVpn, 4000, c32Port(mk), []byte(fmt.Sprintf("C32-MARK-%05d", mk)))
	w.pkts = append(w.pkts, pkt)
	w.me.tunSend(pkt)
	return mk
}

func (w *c32World) enabled(e c32Ev) bool {
	switch e.K {
	case "s1":
		// a first message older than one the peer has already seen is not offered: the peer would answer it over its
		// newer tunnel and the recv_error exchange that follows tears that tunnel down (C14's subject, not C32's)
		return e.N < len(w.pool1) && w.pool1[e.N].gen >= w.maxS1Gen
	case "s2":
		return e.N < len(w.pool2)
	}
	return true
}

// apply executes one event on the real nodes, then on the model, and records every disagreement.
func (w *c32World) apply(e c32Ev) {
	if w.dead {
		return
	}
	o := c32Obs{tx: map[netip.AddrPort]int{}}
	replyGen := -1
	first := len(w.pkts)
	w.curS1Gen = -1
	switch e.K {
	case "q":
		for i := 0; i < e.N; i++ {
			w.sendOne()
		}
		w.nQ++
	case "start":
		w.me.hm.StartHandshake(c32PeerVpn, nil)
		w.me.settle()
	case "t":
		vtime.Advance(w.cfg.I * vtime.Duration(e.N) / 2)
		w.me.hsTick()
	case "lh0":
		select {
		case w.me.hm.trigger <- c32PeerVpn:
		default:
		}
		w.me.settle()
	case "lh1":
		w.nLh1++
		a := netip.AddrPortFrom(netip.AddrFrom4([4]byte{192, 0, 2, byte(100 + w.nLh1)}), 4242)
		w.me.injectLighthouseAddr(c32PeerVpn, a)
		w.model.remotes = append(w.model.remotes, a)
		select {
		case w.me.hm.trigger <- c32PeerVpn:
		default:
		}
		w.me.settle()
	case "s1":
		w.curS1Gen = w.pool1[e.N].gen
		if w.curS1Gen > w.maxS1Gen {
			w.maxS1Gen = w.curS1Gen
		}
		w.peer.deliver(w.me.udp, w.pool1[e.N].pkt.Data)
	case "s2":
		replyGen = w.pool2[e.N].gen
		w.me.deliver(w.peer.udp, w.pool2[e.N].pkt.Data)
	default:
		w.tb.Fatalf("c32: unknown event %v", e)
	}
	w.pump(&o)
	w.observe(&o)
	w.events++
	w.hist = append(w.hist, e)
	probs := w.model.step(e, o, replyGen, first)
	// what the peer's tun received must always equal the model's expectation, packet for packet
	got := w.net.tunLog["peer"]
	if ok, why := w.tunMatches(got); !ok {
		probs = append(probs, c32Problem{"C32: the peer did not receive exactly the firewall-allowed subsequence of the first 100 queued packets, each once, in order", why})
	}
	if len(probs) > 0 {
		w.dead = true
		probs = probs[:1] // the first disagreement is the finding; the rest is fallout
	}
	w.problems = append(w.problems, probs...)
}

func (w *c32World) tunMatches(got [][]byte) (bool, string) {
	exp := w.model.expect
	desc := func() string {
		var g []string
		for _, p := range got {
			i := bytes.Index(p, []byte("C32-MARK-"))
			if i < 0 {
				g = append(g, "?")
			} else {
				g = append(g, strings.TrimLeft(string(p[i+9:i+14]), "0"))
			}
		}
		if len(g) > 12 {
			g = append(append([]string{}, g[:6]...), append([]string{"..."}, g[len(g)-5:]...)...)
		}
		e := fmt.Sprint(exp)
		if len(exp) > 12 {
			e = fmt.Sprintf("%v ... %v", exp[:6], exp[len(exp)-5:])
		}
		return fmt.Sprintf("received %d %v, expected %d %s (fw=%s)", len(got), g, len(exp), e, w.cfg.FW)
	}
	if len(got) != len(exp) {
		return false, desc()
	}
	for i, mk := range exp {
		if !bytes.Equal(got[i], w.pkts[mk]) {
			return false, desc()
		}
	}
	return true, ""
}

// c32Wheel renders the handshake timer wheel by distance from the current slot.
func (w *c32World) wheel() string {
	tw := w.me.hm.OutboundHandshakeTimer.t
	var parts []string
	for d := 0; d < tw.wheelLen; d++ {
		slot := (tw.current + d) % tw.wheelLen
		n := 0
		for it := tw.wheel[slot].Head; it != nil; it = it.Next {
			n++
		}
		if n > 0 {
			parts = append(parts, fmt.Sprintf("%d:%d", d, n))
		}
	}
	lag := int64(-1)
	if tw.lastTick != nil {
		lag = int64(vtime.Now().Sub(*tw.lastTick))
	}
	return fmt.Sprintf("lag=%d%v", lag, parts)
}

// key: everything the future of the node, the model and the pools depends on. Absolute times are reduced to distances.
func (w *c32World) key() string {
	var sb strings.Builder
	fmt.Fprintf(&sb, "%v|", w.cfg)
	m := w.model
	fmt.Fprintf(&sb, "M(p=%v c=%d t=%v lo=%d hi=%d st=%d q=%d rem=%d last=%v done=%v exp=%d)", m.pending, m.counter, m.timer, int64(m.lo-m.now), int64(m.hi-m.now), len(m.stored), m.queued, len(m.remotes), m.lastTx == c32RemKey(m.remotes), m.done, len(m.expect))
	w.me.hm.RLock()
	hh := w.me.hm.vpnIps[c32PeerVpn]
	nidx := len(w.me.hm.indexes)
	w.me.hm.RUnlock()
	if hh != nil {
		fmt.Fprintf(&sb, " N(c=%d ready=%v st=%d lr=%d idx=%d)", hh.counter, hh.ready, len(hh.packetStore), len(hh.lastRemotes), nidx)
	} else {
		fmt.Fprintf(&sb, " N(none idx=%d)", nidx)
	}
	fmt.Fprintf(&sb, " W(%s)", w.wheel())
	fmt.Fprintf(&sb, " main=%d peerTunnels=%d", len(w.me.tunnels()), len(w.peer.tunnels()))
	sb.WriteString(" P1[")
	for _, x := range w.pool1 {
		fmt.Fprintf(&sb, "%d,", m.gen-x.gen)
	}
	sb.WriteString("] P2[")
	for _, x := range w.pool2 {
		fmt.Fprintf(&sb, "%d,", m.gen-x.gen)
	}
	fmt.Fprintf(&sb, "] s1max=%d nq=%d nlh1=%d tainted=%v", m.gen-w.maxS1Gen, w.nQ, w.nLh1, m.tainted && m.pending)
	return sb.String()
}

// postCompletion: on a completed instance, duplicates of every reply and further timer ticks must not release anything again.
func (w *c32World) postCompletion() {
	for i := range w.pool2 {
		w.apply(c32Ev{"s2", i})
	}
	for i := 0; i < 3; i++ {
		w.apply(c32Ev{"t", 4})
	}
	w.apply(c32Ev{"lh0", 0})
	w.apply(c32Ev{"q", 2})
}

// ---- driver -------------------------------------------------------------------------------------------------------

type c32Run struct {
	c       *mc.Check
	t       *testing.T
	seed    int64
	stats   *c32Stats
	nviol   int
	bySig   map[string]int
	runs    int64
	events  int64
	samples int
}

func (r *c32Run) report(w *c32World) {
	for _, p := range w.problems {
		r.nviol++
		if r.bySig == nil {
			r.bySig = map[string]int{}
		}
		r.bySig[p.sig]++
		r.c.Violation(p.sig, map[string]any{"config": w.cfg.String(), "history": fmt.Sprint(w.hist), "what": p.detail})
	}
	w.problems = nil
}

// stop: out of time, or a flood of violations (a broken build produces millions). The leftover-timer finding does not
// stop the search: every occurrence only ends its own branch.
func (r *c32Run) stop() bool {
	if r.c.OutOfTime() || len(r.bySig) > 8 {
		return true
	}
	for sig, n := range r.bySig {
		if sig != c32SigStale && n > 50 {
			return true
		}
	}
	return false
}

func c32Menu(w *c32World, halfSteps []int, maxQ, maxLh1 int) []c32Ev {
	if w.model.done || w.dead {
		return nil // terminal: judged by postCompletion on the same instance
	}
	var menu []c32Ev
	for _, h := range halfSteps {
		menu = append(menu, c32Ev{"t", h})
	}
	// the two most recent first messages / replies are offered (older ones belong to abandoned handshakes)
	for i := len(w.pool1) - 1; i >= 0 && i >= len(w.pool1)-2; i-- {
		if w.enabled(c32Ev{"s1", i}) {
			menu = append(menu, c32Ev{"s1", i})
		}
	}
	for i := len(w.pool2) - 1; i >= 0 && i >= len(w.pool2)-2; i-- {
		menu = append(menu, c32Ev{"s2", i})
	}
	menu = append(menu, c32Ev{"lh0", 0})
	if w.nLh1 < maxLh1 {
		menu = append(menu, c32Ev{"lh1", 0})
	}
	if w.nQ < maxQ+1 {
		menu = append(menu, c32Ev{"q", 1})
	}
	return menu
}

func (r *c32Run) bfs(cfg c32Cfg, depth int, halfSteps []int, maxQ, maxLh1 int) {
	first := c32Ev{"q", cfg.N0}
	if cfg.N0 == 0 {
		first = c32Ev{"start", 0}
	}
	judged := map[string]bool{}
	mc.BFSReplay(r.c, mc.BFSConfig[c32Ev]{
		MaxDepth: depth, Workers: 1, Stop: r.stop,
		Label: func(e c32Ev) string { return e.String() },
		Run: func(hist []c32Ev) (string, []c32Ev) {
			w := c32New(r.t, r.seed, cfg, r.stats)
			defer w.close()
			w.apply(first)
			for _, e := range hist {
				if !w.enabled(e) {
					r.c.Broken("history not replayable: %v %v", cfg, hist)
				}
				w.apply(e)
			}
			r.events += w.events
			r.runs++
			key := w.key()
			menu := c32Menu(w, halfSteps, maxQ, maxLh1)
			if w.model.done && !w.dead && !judged[key] {
				judged[key] = true
				w.postCompletion()
			}
			r.report(w)
			return key, menu
		},
	})
}

// scripted executes one history of phase 2 chosen by the enumerator.
func (r *c32Run) scripted(e *mc.Enum, quick bool, R int, fw string) {
	if R == 0 {
		R = mc.PickOf(e, []int{1, 2, 3})
		fw = mc.PickOf(e, []string{"p80", "all", "none"})
	}
	n0 := mc.PickOf(e, []int{101, 0, 1, 99, 100, 150})
	disc := "static"
	later := mc.PickOf(e, []int{0, 1, 2})
	trig := mc.PickOf(e, []string{"none", "lh1", "lh0"})
	step := 2
	iv := 100 * vtime.Millisecond
	if !quick {
		disc = mc.PickOf(e, []string{"static", "lh"})
		step = mc.PickOf(e, []int{2, 1, 5})
		iv = mc.PickOf(e, []vtime.Duration{100 * vtime.Millisecond, 30 * vtime.Millisecond})
	}
	j := 1 + e.Choose(R+1) // R+1 = never
	cfg := c32Cfg{R: R, I: iv, Disc: disc, FW: fw, N0: n0}
	w := c32New(r.t, r.seed, cfg, r.stats)
	defer w.close()
	if n0 == 0 {
		w.apply(c32Ev{"start", 0})
	} else {
		w.apply(c32Ev{"q", n0})
	}
	extrasDone := false
	for guard := 0; guard < 200 && w.model.pending && !w.dead; guard++ {
		if w.model.counter >= 1 && !extrasDone {
			extrasDone = true
			for i := 0; i < later; i++ {
				w.apply(c32Ev{"q", 1})
			}
			if trig != "none" {
				w.apply(c32Ev{trig, 0})
			}
		}
		if w.model.counter >= j && len(w.pool1) > 0 {
			w.apply(c32Ev{"s1", len(w.pool1) - 1})
			if w.dead {
				break
			}
			if len(w.pool2) == 0 {
				r.c.Broken("peer did not answer the first message: %v", w.hist)
			}
			w.apply(c32Ev{"s2", len(w.pool2) - 1})
			break
		}
		w.apply(c32Ev{"t", step})
	}
	if w.model.pending && !w.dead {
		r.c.Broken("scripted history did not terminate: %v", w.hist)
	}
	if w.dead {
	} else if w.model.done {
		w.postCompletion()
	} else {
		// abandoned: late deliveries must not resurrect anything
		if len(w.pool1) > 0 {
			w.apply(c32Ev{"s1", len(w.pool1) - 1})
			if len(w.pool2) > 0 {
				w.apply(c32Ev{"s2", len(w.pool2) - 1})
			}
		}
		w.apply(c32Ev{"t", 4})
	}
	r.events += w.events
	r.runs++
	if r.c.Distinct("final_states", w.key()) {
		r.c.Add("states", 1)
	}
	if r.samples < 3 || r.runs&(r.runs-1) == 0 {
		r.samples++
		r.c.Sample(map[string]any{"config": cfg.String(), "history": fmt.Sprint(w.hist), "peer_received": len(w.net.tunLog["peer"])})
	}
	r.report(w)
}

type c32Item struct {
	Kind string // "product" (scripted histories, optionally for one retries/rule-set pair) | "bfs"
	R    int
	FW   string
	Cfg  c32Cfg
}

func (it c32Item) String() string {
	if it.Kind == "bfs" {
		return "bfs " + it.Cfg.String()
	}
	return fmt.Sprintf("product retries=%d fw=%s", it.R, it.FW)
}

func (s *c32Stats) merge(o *c32Stats) {
	for k, v := range o.Abandons {
		s.Abandons[k] += v
	}
	for k, v := range o.CompleteAtAttempt {
		s.CompleteAtAttempt[k] += v
	}
	for k, v := range o.MinTxBeforeGiveUp {
		if cur, ok := s.MinTxBeforeGiveUp[k]; !ok || v < cur {
			s.MinTxBeforeGiveUp[k] = v
		}
	}
	s.AmbFired += o.AmbFired
	s.AmbHeld += o.AmbHeld
	s.TrigTx += o.TrigTx
	s.TrigQuiet += o.TrigQuiet
	s.Lh0Quiet += o.Lh0Quiet
	s.Dropped100 += o.Dropped100
	s.FwFiltered += o.FwFiltered
	s.FwAll += o.FwAll
	s.FwNone += o.FwNone
	s.LateReply += o.LateReply
	s.Exactly100 += o.Exactly100
	s.TaintedStarts += o.TaintedStarts
	if o.MaxStored > s.MaxStored {
		s.MaxStored = o.MaxStored
	}
}

// c32Sharded (thorough tier): the explorer is single-threaded (virtual clock and pinned random stream are
// process-global), so the work items are spread over worker processes: this test binary re-executed with C32_SHARD=i/n.
// Workers write their own evidence; their violations are re-reported here from the replay files.
func c32Sharded(c *mc.Check, r *c32Run, n int, budget float64) (runs int64) {
	dir, err := os.MkdirTemp("", "c32shard")
	if err != nil {
		c.Broken("tempdir: %v", err)
	}
	defer os.RemoveAll(dir)
	outs := make([][]byte, n)
	var wg sync.WaitGroup
	for i := 0; i < n; i++ {
		wg.Add(1)
		go func(i int) {
			defer wg.Done()
			cmd := exec.Command(os.Args[0], "-test.run=^TestVerifC32$", "-test.v", fmt.Sprintf("-test.timeout=%ds", int(budget)+900))
			cmd.Env = append(os.Environ(), fmt.Sprintf("C32_SHARD=%d/%d", i, n), "VERIF_EVIDENCE="+filepath.Join(dir, fmt.Sprintf("ev%d.json", i)),
				fmt.Sprintf("VERIF_BUDGET_S=%.0f", budget), "GOMAXPROCS=2")
			outs[i], _ = cmd.CombinedOutput()
		}(i)
	}
	wg.Wait()
	for i := 0; i < n; i++ {
		for _, ln := range strings.Split(string(outs[i]), "\n") {
			if strings.HasPrefix(ln, "VIOLATION property=C32 replay=") {
				path := strings.TrimSpace(strings.TrimPrefix(ln, "VIOLATION property=C32 replay="))
				var rp struct {
					Signature string `json:"signature"`
					Detail    any    `json:"detail"`
				}
				if b, err := os.ReadFile(path); err == nil && json.Unmarshal(b, &rp) == nil && rp.Signature != "" {
					c.Violation(rp.Signature, rp.Detail)
				} else {
					c.Violation("C32: violation reported by a worker process (replay file unreadable)", ln)
				}
			}
			if strings.HasPrefix(ln, "KNOWN-FINDING:") {
				fmt.Println(ln)
			}
		}
		b, err := os.ReadFile(filepath.Join(dir, fmt.Sprintf("ev%d.json", i)))
		if err != nil {
			tail := string(outs[i])
			if len(tail) > 3000 {
				tail = tail[len(tail)-3000:]
			}
			c.Broken("worker %d/%d left no evidence:\n%s", i, n, tail)
		}
		var ev struct {
			Coverage map[string]json.RawMessage `json:"coverage"`
		}
		if err := json.Unmarshal(b, &ev); err != nil {
			c.Broken("worker %d evidence: %v", i, err)
		}
		num := func(k string) int64 {
			var f float64
			_ = json.Unmarshal(ev.Coverage[k], &f)
			return int64(f)
		}
		c.Add("states", num("states"))
		c.Add("transitions", num("transitions"))
		c.Add("traces_validated_against_impl", num("traces_validated_against_impl"))
		if d := c.Counter("max_depth"); num("max_depth") > d.Load() {
			d.Store(num("max_depth"))
		}
		runs += num("scripted_histories")
		r.events += num("events_executed_on_real_nodes")
		st := c32NewStats()
		if err := json.Unmarshal(ev.Coverage["shard_stats"], st); err != nil {
			c.Broken("worker %d stats: %v", i, err)
		}
		r.stats.merge(st)
		var ex bool
		_ = json.Unmarshal(ev.Coverage["exhaustive"], &ex)
		if !ex {
			c.Capped(fmt.Sprintf("worker %d/%d: %s", i, n, string(ev.Coverage["cap_hit"])))
		}
		var ss []any
		if json.Unmarshal(ev.Coverage["samples"], &ss) == nil {
			for _, x := range ss {
				c.Sample(x)
			}
		}
	}
	return runs
}

func TestVerifC32(t *testing.T) {
	c := mc.Begin(t, "C32", "model_checking")
	defer c.End()
	// the explorer is serial; one P keeps the goroutine-exit spin of the node assembly reliable on a loaded machine
	defer runtime.GOMAXPROCS(runtime.GOMAXPROCS(1))
	defer c32e1Start(c)() // schedules half (c32e1_test.go): worker processes run alongside, collected before c.End
	r := &c32Run{c: c, t: t, seed: c.Seed(), stats: c32NewStats()}
	quick := !c.Thorough()

	// determinism: one history twice → identical canonical state and wire bytes
	{
		h := []c32Ev{{"q", 3}, {"t", 1}, {"t", 2}, {"lh1", 0}, {"t", 5}, {"s1", 0}, {"q", 1}, {"s2", 0}}
		var k [2]string
		for i := range k {
			w := c32New(t, r.seed, c32Cfg{R: 3, I: 100 * vtime.Millisecond, Disc: "static", FW: "p80", N0: 3}, c32NewStats())
			for _, e := range h {
				if !w.enabled(e) {
					c.Broken("determinism probe history not executable at %v", e)
				}
				w.apply(e)
			}
			k[i] = w.key() + w.net.wireHash() + fmt.Sprint(len(w.net.tunLog["peer"]))
			w.close()
		}
		if k[0] != k[1] {
			c.Broken("nondeterministic replay:\n%s\n%s", k[0], k[1])
		}
	}

	// Work items. Phase 2 first (cheap, diverse): the product of configurations and scripted histories; then phase 1: BFS
	// over event histories per timing configuration.
	depth := mc.Pick(c, 5, 8)
	halfSteps := mc.Pick(c, []int{1, 2, 5}, []int{1, 2, 3, 5, 14})
	var items []c32Item
	if quick {
		items = append(items, c32Item{Kind: "product"})
	} else {
		for _, R := range []int{1, 2, 3} {
			for _, fw := range []string{"p80", "all", "none"} {
				items = append(items, c32Item{Kind: "product", R: R, FW: fw})
			}
		}
	}
	for _, R := range []int{1, 2, 3} {
		for _, disc := range []string{"static", "lh"} {
			if quick && disc == "lh" && R != 2 {
				continue // quick tier: the lighthouse-learned peer is searched for retries=2 only (all three in thorough)
			}
			for _, iv := range mc.Pick(c, []vtime.Duration{100 * vtime.Millisecond}, []vtime.Duration{100 * vtime.Millisecond, 250 * vtime.Millisecond}) {
				items = append(items, c32Item{Kind: "bfs", Cfg: c32Cfg{R: R, I: iv, Disc: disc, FW: "p80", N0: 4}})
			}
		}
	}
	if !quick {
		items = append(items, c32Item{Kind: "bfs", Cfg: c32Cfg{R: 3, I: 100 * vtime.Millisecond, Disc: "static", FW: "all", N0: 99}},
			c32Item{Kind: "bfs", Cfg: c32Cfg{R: 2, I: 100 * vtime.Millisecond, Disc: "static", FW: "none", N0: 0}},
			c32Item{Kind: "bfs", Cfg: c32Cfg{R: 5, I: 100 * vtime.Millisecond, Disc: "lh", FW: "p80", N0: 1}})
	}
	shardI, shardN := 0, 1
	if sh := os.Getenv("C32_SHARD"); sh != "" {
		fmt.Sscanf(sh, "%d/%d", &shardI, &shardN)
	}
	worker := shardN > 1
	workers := 0
	if !quick && !worker && os.Getenv("C32_NOSHARD") == "" {
		workers = 6
	}
	var runs int64
	if workers > 0 {
		budget := 900.0
		if b := os.Getenv("VERIF_BUDGET_S"); b != "" {
			fmt.Sscanf(b, "%f", &budget)
		}
		budget -= c.Elapsed() + 30
		if budget < 20 {
			budget = 20
		}
		runs = c32Sharded(c, r, workers, budget)
		r.nviol = c.Violations()
		c.Set("worker_processes", workers)
	} else {
		for i, it := range items {
			if i%shardN != shardI {
				continue
			}
			if r.stop() {
				c.Capped("time budget before item " + it.String())
				break
			}
			switch it.Kind {
			case "product":
				n, complete := mc.ForAll(func(e *mc.Enum) { r.scripted(e, quick, it.R, it.FW) }, r.stop)
				runs += n
				if !complete {
					c.Capped("time budget during the scripted product " + it.String())
				}
			case "bfs":
				r.bfs(it.Cfg, depth, halfSteps, mc.Pick(c, 1, 2), mc.Pick(c, 1, 2))
			}
		}
		c.Add("transitions", runs)
		c.Add("traces_validated_against_impl", runs)
	}
	c.Set("scripted_histories", runs)
	c.Set("events_executed_on_real_nodes", r.events)
	if worker {
		c.Set("shard_stats", r.stats)
		return
	}

	st := r.stats
	c.Set("abandons_by_retries", fmt.Sprint(st.Abandons))
	c.Set("completions_by_retries_and_attempt", fmt.Sprint(st.CompleteAtAttempt))
	c.Set("timer_slack_window_fired_vs_held", fmt.Sprintf("%d/%d", st.AmbFired, st.AmbHeld))
	c.Set("trigger_with_new_remotes_sent_vs_quiet", fmt.Sprintf("%d/%d", st.TrigTx, st.TrigQuiet))
	c.Set("trigger_without_new_remotes", st.Lh0Quiet)
	c.Set("completions_with_more_than_100_offered", st.Dropped100)
	c.Set("completions_with_exactly_100_offered", st.Exactly100)
	c.Set("completions_fw_filtered_some_all_none", fmt.Sprintf("%d/%d/%d", st.FwFiltered, st.FwAll, st.FwNone))
	c.Set("late_replies_after_abandon", st.LateReply)
	c.Set("max_stored", st.MaxStored)
	c.Set("handshakes_started_with_a_leftover_timer_in_the_wheel", st.TaintedStarts)
	c.Set("min_transmissions_before_give_up_by_retries", fmt.Sprint(st.MinTxBeforeGiveUp))
	c.Set("distinct_outcomes", len(st.CompleteAtAttempt)+len(st.Abandons))
	c.Set("explanation", "states = distinct canonical (node+model+pool) states of the BFS plus distinct final states of the scripted product; transitions = histories executed on two real nodes; every event of every history is judged against the reference counter model")

	if r.nviol == 0 && (workers > 0 || !c.OutOfTime()) {
		for _, R := range []int{1, 2, 3} {
			c.Require(st.Abandons[R] > 0, "no abandoned handshake with retries=%d", R)
			for j := 1; j <= R; j++ {
				c.Require(st.CompleteAtAttempt[fmt.Sprintf("r%d@%d", R, j)] > 0, "no completion at attempt %d with retries=%d: %v", j, R, st.CompleteAtAttempt)
			}
		}
		c.Require(st.AmbFired > 0 && st.AmbHeld > 0, "timer slack window: fired=%d held=%d", st.AmbFired, st.AmbHeld)
		c.Require(st.TrigTx > 0 && st.Lh0Quiet > 0, "lighthouse triggers: sent=%d quiet-without-new=%d", st.TrigTx, st.Lh0Quiet)
		c.Require(st.Dropped100 > 0 && st.Exactly100 > 0 && st.MaxStored == c32MaxStored, "queue bound not reached: >100 offered %d, =100 offered %d, max stored %d", st.Dropped100, st.Exactly100, st.MaxStored)
		c.Require(st.FwFiltered > 0 && st.FwAll > 0 && st.FwNone > 0, "rule sets: filtered=%d all=%d none=%d", st.FwFiltered, st.FwAll, st.FwNone)
		c.Require(st.LateReply > 0, "no late reply after an abandoned handshake")
	}
	c.Assume("◊ a lighthouse-triggered attempt counts as one of the configured attempts whether or not it transmits (the node counts it; the statement does not say); consequently fewer than `retries` datagrams may be sent to a remote before give-up (see min_transmissions_before_give_up_by_retries)")
	c.Assume("◊ an attempt triggered by a lighthouse answer with new remotes may transmit at once to every known remote; a trigger without new remotes must stay silent (linear delay)")
	c.Assume("◊ timer slack: an attempt scheduled at time T with delay d must not be sent at a tick <= T+d and must have been sent by the first tick >= T+d+interval (one wheel tick of slack); in between the model follows the node")
	c.Assume("◊ the node's timer wheel has ticked once before the handshake starts (a running node); a wheel that never ticked adds up to one more interval to the first delay")
	c.Assume("◊ after the last attempt the handshake may be dropped by any later attempt opportunity and must be gone when its last timer expired")
	c.Assume("a first message of an abandoned handshake is not delivered to the peer after the first message of a newer handshake (the peer would tear down its newer tunnel through a recv_error exchange, which is outside this property)")
	c.Assume("non-handshake datagrams are delivered loss-free and in order; handshake datagrams are delivered, delayed, duplicated or lost by the explorer; the peer never initiates")
}

// TestVerifC32Replay re-executes one history: C32_REPLAY="R,intervalMs,disc,fw,n0:ev ev ev" (events as printed in histories).
func TestVerifC32Replay(t *testing.T) {
	spec := os.Getenv("C32_REPLAY")
	if spec == "" {
		t.Skip("C32_REPLAY not set")
	}
	parts := strings.SplitN(spec, ":", 2)
	var cfg c32Cfg
	var ms int
	f := strings.Split(parts[0], ",")
	fmt.Sscanf(f[0], "%d", &cfg.R)
	fmt.Sscanf(f[1], "%d", &ms)
	cfg.I = vtime.Duration(ms) * vtime.Millisecond
	cfg.Disc, cfg.FW = f[2], f[3]
	fmt.Sscanf(f[4], "%d", &cfg.N0)
	w := c32New(t, 0, cfg, c32NewStats())
	defer w.close()
	for _, es := range strings.Fields(strings.Trim(parts[1], "[]")) {
		var e c32Ev
		kv := strings.SplitN(es, ":", 2)
		e.K = kv[0]
		if len(kv) > 1 {
			fmt.Sscanf(kv[1], "%d", &e.N)
		}
		if !w.enabled(e) {
			t.Fatalf("event %v not enabled", e)
		}
		w.apply(e)
		fmt.Printf("%-8s %s\n", es, w.key())
		for _, p := range w.problems {
			fmt.Printf("   PROBLEM %s — %s\n", p.sig, p.detail)
		}
		w.problems = nil
	}
}
